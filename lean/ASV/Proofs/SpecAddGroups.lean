/-
  C05: `Spec.addGroups` (the table step of the executable reference) satisfies the order-free
  description `PassDesc` proved for the model's sequential `buildCandidates` — read on the
  reference's own state (`SpecPassDesc`: the same five clauses).
-/
import ASV.Proofs.SpecClasses
set_option linter.unusedSectionVars false
set_option linter.unusedVariables false
set_option linter.unusedSimpArgs false
namespace ASV.CC
open ASV.CC.Spec

theorem eraseDups_nodup' {α : Type} [BEq α] [LawfulBEq α] : ∀ (n : Nat) (l : List α), l.length ≤ n → l.eraseDups.Nodup := by
  intro n
  induction n with
  | zero =>
    intro l h
    have : l = [] := List.eq_nil_of_length_eq_zero (by omega)
    subst this; simp [List.eraseDups, List.eraseDupsBy, List.eraseDupsBy.loop]
  | succ n ih =>
    intro l h
    cases l with
    | nil => simp [List.eraseDups, List.eraseDupsBy, List.eraseDupsBy.loop]
    | cons a as =>
      rw [List.eraseDups_cons, List.nodup_cons]
      refine ⟨?_, ih _ (Nat.le_trans (List.length_filter_le _ _) (by simpa using h))⟩
      intro hmem
      rw [List.mem_eraseDups, List.mem_filter] at hmem
      simp at hmem

theorem mapM_ok_mem {α β : Type} (f : α → E β) : ∀ (l : List α) (out : List β), l.mapM f = .ok out →
    ∀ y, y ∈ out ↔ ∃ x, x ∈ l ∧ f x = .ok y := by
  intro l
  induction l with
  | nil =>
    intro out h y
    simp only [List.mapM_nil, pure, Except.pure, Except.ok.injEq] at h
    subst h; simp
  | cons a rest ih =>
    intro out h y
    rw [List.mapM_cons] at h
    simp only [bind, Except.bind, pure, Except.pure] at h
    cases hfa : f a with
    | error e => rw [hfa] at h; cases h
    | ok b =>
      rw [hfa] at h
      cases hr : rest.mapM f with
      | error e => rw [hr] at h; cases h
      | ok bs =>
        rw [hr] at h
        simp only [Except.ok.injEq] at h
        subst h
        simp only [List.mem_cons, ih bs hr y, exists_eq_or_imp, hfa, Except.ok.injEq]
        constructor
        · rintro (e | h)
          · exact Or.inl e.symm
          · exact Or.inr h
        · rintro (e | h)
          · exact Or.inl e.symm
          · exact Or.inr h

/-- the coordinate key the reference computes for a group -/
def skey (wrap : Option Int) (g : List Proto) : Option (List (Int × Int)) :=
  match span wrap (·.loc) g with
  | .ok l => some (coords l)
  | .error _ => none

def sMem (st : State) (k : List (Int × Int)) (x : Proto) : Prop := ∃ e, e ∈ st.entries ∧ e.key = k ∧ x ∈ e.members
def sKind (st : State) (k : List (Int × Int)) (kd : Kind) : Prop := ∃ e, e ∈ st.entries ∧ e.key = k ∧ e.kind = kd
def sKeys (st : State) : List (List (Int × Int)) := st.entries.map (·.key)

/-- `PassDesc`, read on the reference's state -/
structure SpecPassDesc (wrap : Option Int) (kind : Kind) (st st' : State) (gs : List (List Proto)) : Prop where
  members : ∀ k x, sMem st' k x ↔ sMem st k x ∨ ∃ g, g ∈ gs ∧ skey wrap g = some k ∧ x ∈ g
  kinds : ∀ k kd, sKind st' k kd ↔ sKind st k kd ∨ (k ∉ sKeys st ∧ kd = kind ∧ ∃ g, g ∈ gs ∧ skey wrap g = some k)
  singles : ∀ x, x ∈ st'.singles ↔ x ∈ st.singles ∨
    ∃ e, e ∈ st.entries ∧ e.kind ≠ kind ∧ x ∉ e.members ∧ ∃ g, g ∈ gs ∧ skey wrap g = some e.key ∧ x ∈ g
  keysNodup : (sKeys st').Nodup
  keysOf : ∀ k, k ∈ sKeys st' ↔ k ∈ sKeys st ∨ ∃ g, g ∈ gs ∧ skey wrap g = some k

theorem mem_foldl_union_snd {κ : Type} (l : List (κ × List Proto)) (acc : List Proto) (x : Proto) :
    x ∈ l.foldl (fun acc y => Spec.union acc y.2) acc ↔ x ∈ acc ∨ ∃ y, y ∈ l ∧ x ∈ y.2 := by
  induction l generalizing acc with
  | nil => simp
  | cons v rest ih =>
    simp only [List.foldl_cons, ih, mem_specUnion, List.mem_cons, exists_eq_or_imp, or_assoc]

theorem addGroups_desc {wrap : Option Int} {kind : Kind} {st st' : State} {gs : List (List Proto)}
    (h : addGroups wrap kind st gs = .ok st') (hn : (sKeys st).Nodup) : SpecPassDesc wrap kind st st' gs := by
  simp only [addGroups, bind, Except.bind, pure, Except.pure] at h
  split at h
  · cases h
  rename_i keyed hk
  simp only [Except.ok.injEq] at h
  have hkeyed := mapM_ok_mem _ gs keyed hk
  -- membership in `keyed`
  have hK : ∀ k g, (k, g) ∈ keyed ↔ g ∈ gs ∧ skey wrap g = some k := by
    intro k g
    rw [hkeyed]
    constructor
    · rintro ⟨g', hg', hf⟩
      cases hs : span wrap (fun x => x.loc) g' with
      | error e => rw [hs] at hf; cases hf
      | ok l =>
        rw [hs] at hf
        simp only [Except.ok.injEq, Prod.mk.injEq] at hf
        obtain ⟨e1, e2⟩ := hf
        subst e2
        refine ⟨hg', ?_⟩
        simp only [skey, hs, e1]
    · rintro ⟨hg, hs⟩
      refine ⟨g, hg, ?_⟩
      simp only [skey] at hs
      cases hs' : span wrap (fun x => x.loc) g with
      | error e => rw [hs'] at hs; cases hs
      | ok l =>
        rw [hs'] at hs
        simp only [Option.some.injEq] at hs
        simp only [hs]
  -- the members added under a key
  have hA : ∀ k x, x ∈ (keyed.filter fun y => y.1 == k).foldl (fun acc y => Spec.union acc y.2) [] ↔
      ∃ g, g ∈ gs ∧ skey wrap g = some k ∧ x ∈ g := by
    intro k x
    rw [mem_foldl_union_snd]
    simp only [List.not_mem_nil, false_or, List.mem_filter, beq_iff_eq]
    constructor
    · rintro ⟨⟨k', g⟩, ⟨hm, e⟩, hx⟩
      simp only at e hx
      subst e
      exact ⟨g, ((hK _ _).1 hm).1, ((hK _ _).1 hm).2, hx⟩
    · rintro ⟨g, hg, hs, hx⟩
      exact ⟨(k, g), ⟨(hK k g).2 ⟨hg, hs⟩, rfl⟩, hx⟩
  have hB : ∀ k, k ∈ keyed.map (fun y => y.1) ↔ ∃ g, g ∈ gs ∧ skey wrap g = some k := by
    intro k
    simp only [List.mem_map]
    constructor
    · rintro ⟨⟨k', g⟩, hm, e⟩
      simp only at e
      subst e
      exact ⟨g, (hK _ _).1 hm⟩
    · rintro ⟨g, hg, hs⟩
      exact ⟨(k, g), (hK k g).2 ⟨hg, hs⟩, rfl⟩
  have hany : ∀ k, (st.entries.any fun e => e.key == k) = true ↔ k ∈ sKeys st := by
    intro k
    simp only [List.any_eq_true, beq_iff_eq, sKeys, List.mem_map]
  subst h
  refine ⟨?_, ?_, ?_, ?_, ?_⟩
  · -- members
    intro k x
    simp only [sMem, List.mem_append, List.mem_map, List.mem_filter, List.mem_eraseDups, Bool.not_eq_true',
      Bool.eq_false_iff, ne_eq, hany, hB]
    constructor
    · rintro ⟨e', (⟨e, he, rfl⟩ | ⟨k', ⟨hk1, hk2⟩, rfl⟩), hkey, hx⟩
      · simp only at hkey hx
        rcases mem_specUnion.1 hx with h1 | h1
        · exact Or.inl ⟨e, he, hkey, h1⟩
        · right
          rw [hkey] at h1
          exact (hA k x).1 h1
      · simp only at hkey hx
        subst hkey
        exact Or.inr ((hA _ x).1 hx)
    · rintro (⟨e, he, hkey, hx⟩ | ⟨g, hg, hs, hx⟩)
      · exact ⟨_, Or.inl ⟨e, he, rfl⟩, hkey, mem_specUnion.2 (Or.inl hx)⟩
      · by_cases hin : k ∈ sKeys st
        · obtain ⟨e, he, hkey⟩ := List.mem_map.1 hin
          refine ⟨_, Or.inl ⟨e, he, rfl⟩, hkey, mem_specUnion.2 (Or.inr ?_)⟩
          show x ∈ (keyed.filter fun y => y.1 == e.key).foldl (fun acc y => Spec.union acc y.2) []
          rw [hkey]
          exact (hA k x).2 ⟨g, hg, hs, hx⟩
        · exact ⟨_, Or.inr ⟨k, ⟨⟨g, hg, hs⟩, hin⟩, rfl⟩, rfl, (hA k x).2 ⟨g, hg, hs, hx⟩⟩
  · -- kinds
    intro k kd
    simp only [sKind, List.mem_append, List.mem_map, List.mem_filter, List.mem_eraseDups, Bool.not_eq_true',
      Bool.eq_false_iff, ne_eq, hany, hB]
    constructor
    · rintro ⟨e', (⟨e, he, rfl⟩ | ⟨k', ⟨hk1, hk2⟩, rfl⟩), hkey, hkd⟩
      · exact Or.inl ⟨e, he, hkey, hkd⟩
      · simp only at hkey hkd
        subst hkey
        exact Or.inr ⟨hk2, hkd.symm, hk1⟩
    · rintro (⟨e, he, hkey, hkd⟩ | ⟨hin, hkd, hg⟩)
      · exact ⟨_, Or.inl ⟨e, he, rfl⟩, hkey, hkd⟩
      · exact ⟨_, Or.inr ⟨k, ⟨hg, hin⟩, rfl⟩, rfl, hkd.symm⟩
  · -- singles
    intro x
    simp only [mem_specUnion, List.mem_flatMap]
    constructor
    · rintro (h1 | ⟨e, he, hx⟩)
      · exact Or.inl h1
      · right
        split at hx
        · rename_i hkd
          obtain ⟨hx1, hx2⟩ := List.mem_filter.1 hx
          refine ⟨e, he, by simpa using hkd, by simpa using hx2, (hA _ x).1 hx1⟩
        · cases hx
    · rintro (h1 | ⟨e, he, hkd, hx2, hg⟩)
      · exact Or.inl h1
      · right
        refine ⟨e, he, ?_⟩
        rw [if_pos (by simpa using hkd)]
        exact List.mem_filter.2 ⟨(hA _ x).2 hg, by simpa using hx2⟩
  · -- keys stay distinct
    simp only [sKeys, List.map_append, List.map_map, Function.comp_def, List.map_id_fun', id_eq, List.map_id']
    have hnd : (keyed.map fun x => x.1).eraseDups.Nodup := eraseDups_nodup' _ _ (Nat.le_refl _)
    refine List.nodup_append.2 ⟨hn, List.Pairwise.filter _ hnd, ?_⟩
    intro a ha b hb e
    subst e
    have hnot := (List.mem_filter.1 hb).2
    simp only [Bool.not_eq_true', Bool.eq_false_iff, ne_eq, hany] at hnot
    exact hnot ha
  · -- the keys
    intro k
    simp only [sKeys, List.map_append, List.mem_append, List.mem_map, List.mem_filter, List.mem_eraseDups,
      Bool.not_eq_true', Bool.eq_false_iff, ne_eq, hany, hB]
    constructor
    · rintro (⟨e', ⟨e, he, rfl⟩, hkey⟩ | ⟨e', ⟨k', ⟨hk1, _⟩, rfl⟩, hkey⟩)
      · exact Or.inl ⟨e, he, hkey⟩
      · simp only at hkey; subst hkey; exact Or.inr hk1
    · rintro (⟨e, he, hkey⟩ | hg)
      · exact Or.inl ⟨_, ⟨e, he, rfl⟩, hkey⟩
      · by_cases hin : ∃ a, a ∈ st.entries ∧ a.key = k
        · obtain ⟨e, he, hkey⟩ := hin
          exact Or.inl ⟨_, ⟨e, he, rfl⟩, hkey⟩
        · exact Or.inr ⟨_, ⟨k, ⟨hg, hin⟩, rfl⟩, rfl⟩

end ASV.CC
