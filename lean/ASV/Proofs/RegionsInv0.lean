import ASV.Proofs.RegionsDict
import ASV.Proofs.Loc
namespace ASV.Regions
open ASV

def ids (l : List Feat) : List Nat := l.map (·.id)

theorem ids_append (a b : List Feat) : ids (a ++ b) = ids a ++ ids b := by simp [ids]
theorem mem_ids {l : List Feat} {k : Nat} : k ∈ ids l ↔ ∃ f ∈ l, f.id = k := by simp [ids]

/-- the invariant of the record's area bookkeeping -/
structure Inv (s : State) : Prop where
  nodup : (ids (s.protos ++ s.cands ++ s.subs ++ s.pool)).Nodup
  fresh : ∀ f ∈ s.protos ++ s.cands ++ s.subs ++ s.pool, f.id < s.nextId
  nodupR : (ids s.regions).Nodup
  freshR : ∀ r ∈ s.regions, r.id < s.nextRid
  numP : Numbered s.numP s.protos
  numC : Numbered s.numC s.cands
  numS : Numbered s.numS s.subs
  numR : Numbered s.numR s.regions
  disjointR : s.regions.Pairwise (fun r r' => locationsOverlap r.loc r'.loc = false)
  kidsCand : ∀ c ∈ s.cands ++ s.pool, ∀ k ∈ c.kids, k < s.nextId ∧ k ∉ ids (s.cands ++ s.subs ++ s.pool)
  kidsReg : ∀ r ∈ s.regions, ∀ k ∈ r.kids ++ r.subs, k < s.nextId ∧ k ∉ ids s.protos
  parentA : ∀ f ∈ s.cands ++ s.subs, ∀ p, s.parentOf f.id = some p →
    ∃ r ∈ s.regions, r.id = p ∧ f.id ∈ r.kids ++ r.subs
  parentP : ∀ f ∈ s.protos, ∀ c, s.parentOf f.id = some c →
    ∃ c' ∈ s.cands ++ s.pool, c'.id = c ∧ f.id ∈ c'.kids
  cdsLink : ∀ i p, s.regionOfCds i = some p → ∃ r ∈ s.regions, r.id = p ∧ i ∈ r.cdses
  parentFresh : ∀ k, s.nextId ≤ k → s.parentOf k = none
  /-- a constructed candidate cluster that is not in the record may have been handed to
      `create_regions(candidate_clusters=[…])`: then its parent is a region of the record listing it -/
  parentPool : ∀ c ∈ s.pool, ∀ p, s.parentOf c.id = some p → ∃ r ∈ s.regions, r.id = p ∧ c.id ∈ r.kids ++ r.subs
  kindC : ∀ f ∈ s.cands, f.kind = .cand
  kindS : ∀ f ∈ s.subs, f.kind = .sub
  kindPool : ∀ f ∈ s.pool, f.kind = .cand

theorem insertSortedWith_ok {lt : Feat → E Bool} {l : List Feat} {d : Dict Nat} {x : Feat} {l' : List Feat} {d' : Dict Nat}
    (h : insertSortedWith lt l d x = .ok (l', d')) :
    ∃ index, index ≤ l.length ∧ l' = insertAt l index x ∧ d' = renumber d l' index := by
  simp only [insertSortedWith, bind, Except.bind] at h
  split at h
  · cases h
  · next index hidx =>
    simp only [pure, Except.pure, Except.ok.injEq, Prod.mk.injEq] at h
    have := bisectLeft_bounds _ _ _ _ _ _ (Nat.zero_le _) hidx
    exact ⟨index, this.2, h.1.symm, by rw [← h.2, h.1]⟩

theorem insertSortedWith_numbered {lt : Feat → E Bool} {l : List Feat} {d : Dict Nat} {x : Feat} {l' : List Feat} {d' : Dict Nat}
    (hn : Numbered d l) (hnd : (ids (x :: l)).Nodup) (h : insertSortedWith lt l d x = .ok (l', d')) :
    Numbered d' l' ∧ l'.Perm (x :: l) := by
  obtain ⟨index, hle, rfl, rfl⟩ := insertSortedWith_ok h
  have hp := insertAt_perm l index x
  refine ⟨?_, hp⟩
  apply renumber_numbered
  · exact (hp.map (fun f : Feat => f.id)).nodup_iff.2 hnd
  · intro j f hj hf
    rw [insertAt_get_lt l index j x hj hle] at hf
    exact hn j f hf

theorem insertSorted_numbered {l : List Feat} {d : Dict Nat} {x : Feat} {l' : List Feat} {d' : Dict Nat}
    (hn : Numbered d l) (hnd : (ids (x :: l)).Nodup) (h : insertSorted l d x = .ok (l', d')) :
    Numbered d' l' ∧ l'.Perm (x :: l) := insertSortedWith_numbered hn hnd h

theorem insertSortedRight_numbered {l : List Feat} {d : Dict Nat} {x : Feat} {l' : List Feat} {d' : Dict Nat}
    (hn : Numbered d l) (hnd : (ids (x :: l)).Nodup) (h : insertSortedRight l d x = .ok (l', d')) :
    Numbered d' l' ∧ l'.Perm (x :: l) := insertSortedWith_numbered hn hnd h


theorem addSubregion_ok {s s' : State} {loc : Loc} (h : addSubregion s loc = .ok s') :
    ∃ l d, insertSortedRight s.subs s.numS ⟨s.nextId, .sub, loc, [], [], []⟩ = .ok (l, d) ∧
      s' = { s with nextId := s.nextId + 1, subs := l, numS := d } := by
  simp only [addSubregion, mkLeaf, bind, Except.bind, pure, Except.pure] at h
  split at h
  · cases h
  · next x hx =>
    split at hx
    · cases hx
    · simp only [Except.ok.injEq] at hx
      subst hx
      simp only at h
      split at h
      · cases h
      · split at h
        · cases h
        · next v hv =>
          obtain ⟨l, d⟩ := v
          simp only [Except.ok.injEq] at h
          exact ⟨l, d, hv, h.symm⟩

theorem addSubregion_inv {s s' : State} {loc : Loc} (hi : Inv s) (h : addSubregion s loc = .ok s') : Inv s' := by
  obtain ⟨l, d, hins, rfl⟩ := addSubregion_ok h
  have hxfresh : ∀ f ∈ s.protos ++ s.cands ++ s.subs ++ s.pool, f.id ≠ s.nextId :=
    fun f hf => Nat.ne_of_lt (hi.fresh f hf)
  have hnd : (ids ((⟨s.nextId, .sub, loc, [], [], []⟩ : Feat) :: s.subs)).Nodup := by
    have h1 : (ids s.subs).Nodup := by
      have := hi.nodup
      simp only [ids_append] at this
      exact (List.nodup_append.1 (List.nodup_append.1 this).1).2.1
    simp only [ids, List.map_cons, List.nodup_cons]
    refine ⟨?_, h1⟩
    intro hm
    obtain ⟨f, hf, e⟩ := List.mem_map.1 hm
    exact hxfresh f (by simp [hf]) e
  obtain ⟨hnum, hp⟩ := insertSortedRight_numbered hi.numS hnd hins
  have hmem : ∀ f, f ∈ l ↔ f = ⟨s.nextId, .sub, loc, [], [], []⟩ ∨ f ∈ s.subs := by
    intro f; rw [hp.mem_iff]; simp
  refine ⟨?_, ?_, hi.nodupR, hi.freshR, hi.numP, hi.numC, hnum, hi.numR, hi.disjointR, ?_, ?_, ?_, hi.parentP, hi.cdsLink, ?_, ?_,
    hi.kindC, ?_, hi.kindPool⟩
  rotate_right
  · intro f hf
    rcases (hmem f).1 hf with rfl | hf
    · rfl
    · exact hi.kindS f hf
  · -- nodup
    have hperm : (ids (s.protos ++ s.cands ++ l ++ s.pool)).Perm (s.nextId :: ids (s.protos ++ s.cands ++ s.subs ++ s.pool)) := by
      simp only [ids_append]
      have h1 : (ids l).Perm (s.nextId :: ids s.subs) := hp.map _
      have h2 := (List.Perm.append_left (ids s.protos ++ ids s.cands) h1).append_right (ids s.pool)
      refine h2.trans ?_
      have := @List.perm_middle _ s.nextId (ids s.protos ++ ids s.cands) (ids s.subs ++ ids s.pool)
      simpa only [List.append_assoc, List.cons_append] using this
    rw [hperm.nodup_iff, List.nodup_cons]
    refine ⟨?_, hi.nodup⟩
    intro hm
    obtain ⟨f, hf, e⟩ := List.mem_map.1 hm
    exact hxfresh f hf e
  · -- fresh
    intro f hf
    simp only [List.mem_append, hmem] at hf
    have : f.id ≤ s.nextId := by
      rcases hf with ((hf | hf) | (rfl | hf)) | hf
      · exact Nat.le_of_lt (hi.fresh f (by simp [hf]))
      · exact Nat.le_of_lt (hi.fresh f (by simp [hf]))
      · exact Nat.le_refl _
      · exact Nat.le_of_lt (hi.fresh f (by simp [hf]))
      · exact Nat.le_of_lt (hi.fresh f (by simp [hf]))
    show f.id < s.nextId + 1
    omega
  · -- kidsCand
    intro c hc k hk
    have := hi.kidsCand c hc k hk
    refine ⟨by show k < s.nextId + 1; omega, ?_⟩
    intro hm
    simp only [ids_append, List.mem_append] at hm this
    rcases hm with (hm | hm) | hm
    · exact this.2 (Or.inl (Or.inl hm))
    · obtain ⟨f, hf, e⟩ := mem_ids.1 hm
      rcases (hmem f).1 hf with rfl | hf
      · simp only at e; omega
      · exact this.2 (Or.inl (Or.inr (mem_ids.2 ⟨f, hf, e⟩)))
    · exact this.2 (Or.inr hm)
  · -- kidsReg
    intro r hr k hk
    have := hi.kidsReg r hr k hk
    exact ⟨by show k < s.nextId + 1; omega, this.2⟩
  · -- parentA
    intro f hf p hpar
    simp only [List.mem_append, hmem] at hf
    rcases hf with hf | rfl | hf
    · exact hi.parentA f (by simp [hf]) p hpar
    · have := hi.parentFresh s.nextId (Nat.le_refl _)
      simp only [State.parentOf] at this hpar
      rw [this] at hpar
      cases hpar
    · exact hi.parentA f (by simp [hf]) p hpar
  · -- parentFresh
    intro k hk
    have hk' : s.nextId + 1 ≤ k := hk
    exact hi.parentFresh k (by omega)
  · exact hi.parentPool


theorem addProtocluster_ok {s s' : State} {loc : Loc} (h : addProtocluster s loc = .ok s') :
    ∃ l d, insertSortedRight s.protos s.numP ⟨s.nextId, .proto, loc, [], [], []⟩ = .ok (l, d) ∧
      s' = { s with nextId := s.nextId + 1, protos := l, numP := d } := by
  simp only [addProtocluster, mkLeaf, bind, Except.bind, pure, Except.pure] at h
  split at h
  · cases h
  · next x hx =>
    split at hx
    · cases hx
    · simp only [Except.ok.injEq] at hx
      subst hx
      simp only at h
      split at h
      · cases h
      · split at h
        · cases h
        · next v hv =>
          obtain ⟨l, d⟩ := v
          simp only [Except.ok.injEq] at h
          exact ⟨l, d, hv, h.symm⟩

theorem addProtocluster_inv {s s' : State} {loc : Loc} (hi : Inv s) (h : addProtocluster s loc = .ok s') : Inv s' := by
  obtain ⟨l, d, hins, rfl⟩ := addProtocluster_ok h
  have hxfresh : ∀ f ∈ s.protos ++ s.cands ++ s.subs ++ s.pool, f.id ≠ s.nextId :=
    fun f hf => Nat.ne_of_lt (hi.fresh f hf)
  have hnd : (ids ((⟨s.nextId, .proto, loc, [], [], []⟩ : Feat) :: s.protos)).Nodup := by
    have h1 : (ids s.protos).Nodup := by
      have := hi.nodup
      simp only [ids_append] at this
      exact (List.nodup_append.1 (List.nodup_append.1 (List.nodup_append.1 this).1).1).1
    simp only [ids, List.map_cons, List.nodup_cons]
    refine ⟨?_, h1⟩
    intro hm
    obtain ⟨f, hf, e⟩ := List.mem_map.1 hm
    exact hxfresh f (by simp [hf]) e
  obtain ⟨hnum, hp⟩ := insertSortedRight_numbered hi.numP hnd hins
  have hmem : ∀ f, f ∈ l ↔ f = ⟨s.nextId, .proto, loc, [], [], []⟩ ∨ f ∈ s.protos := by
    intro f; rw [hp.mem_iff]; simp
  refine ⟨?_, ?_, hi.nodupR, hi.freshR, hnum, hi.numC, hi.numS, hi.numR, hi.disjointR, ?_, ?_, hi.parentA, ?_, hi.cdsLink, ?_, ?_,
    hi.kindC, hi.kindS, hi.kindPool⟩
  · -- nodup
    have hperm : (ids (l ++ s.cands ++ s.subs ++ s.pool)).Perm (s.nextId :: ids (s.protos ++ s.cands ++ s.subs ++ s.pool)) := by
      simp only [ids_append]
      have h1 : (ids l).Perm (s.nextId :: ids s.protos) := hp.map _
      have h2 := ((h1.append_right (ids s.cands)).append_right (ids s.subs)).append_right (ids s.pool)
      simpa only [List.append_assoc, List.cons_append] using h2
    rw [hperm.nodup_iff, List.nodup_cons]
    refine ⟨?_, hi.nodup⟩
    intro hm
    obtain ⟨f, hf, e⟩ := List.mem_map.1 hm
    exact hxfresh f hf e
  · -- fresh
    intro f hf
    simp only [List.mem_append, hmem] at hf
    have : f.id ≤ s.nextId := by
      rcases hf with (((rfl | hf) | hf) | hf) | hf
      · exact Nat.le_refl _
      · exact Nat.le_of_lt (hi.fresh f (by simp [hf]))
      · exact Nat.le_of_lt (hi.fresh f (by simp [hf]))
      · exact Nat.le_of_lt (hi.fresh f (by simp [hf]))
      · exact Nat.le_of_lt (hi.fresh f (by simp [hf]))
    show f.id < s.nextId + 1
    omega
  · -- kidsCand
    intro c hc k hk
    have := hi.kidsCand c hc k hk
    exact ⟨by show k < s.nextId + 1; omega, this.2⟩
  · -- kidsReg
    intro r hr k hk
    have := hi.kidsReg r hr k hk
    refine ⟨by show k < s.nextId + 1; omega, ?_⟩
    intro hm
    obtain ⟨f, hf, e⟩ := mem_ids.1 hm
    rcases (hmem f).1 hf with rfl | hf
    · simp only at e; omega
    · exact this.2 (mem_ids.2 ⟨f, hf, e⟩)
  · -- parentP
    intro f hf c hpar
    rcases (hmem f).1 hf with rfl | hf
    · have := hi.parentFresh s.nextId (Nat.le_refl _)
      simp only [State.parentOf] at this hpar
      rw [this] at hpar
      cases hpar
    · exact hi.parentP f hf c hpar
  · -- parentFresh
    intro k hk
    have hk' : s.nextId + 1 ≤ k := hk
    exact hi.parentFresh k (by omega)
  · exact hi.parentPool



theorem setParents_eq {d d' : Dict (Option Nat)} {parent : Feat} {cs : List Feat}
    (h : setParents d parent cs = .ok d') : d' = cs.foldl (fun d c => d.set c.id (some parent.id)) d := by
  induction cs generalizing d with
  | nil => simp only [setParents, pure, Except.pure, Except.ok.injEq] at h; simp [h]
  | cons c cs ih =>
    simp only [setParents] at h
    split at h
    · cases h
    · simpa using ih h

theorem findId_some {l : List Feat} {i : Nat} {f : Feat} (h : findId l i = some f) : f ∈ l ∧ f.id = i := by
  simp only [findId] at h
  exact ⟨List.mem_of_find?_eq_some h, by simpa using List.find?_some h⟩

theorem findAll_ok {l : List Feat} {is : List Nat} {ps : List Feat} (h : findAll l is = .ok ps) :
    ids ps = is ∧ ∀ p ∈ ps, p ∈ l := by
  induction is generalizing ps with
  | nil =>
    simp only [findAll, List.mapM_nil, pure, Except.pure, Except.ok.injEq] at h
    subst h; simp [ids]
  | cons i is ih =>
    simp only [findAll, List.mapM_cons, bind, Except.bind] at h
    split at h
    · cases h
    · next f hf =>
      split at h
      · cases h
      · next fs hfs =>
        simp only [pure, Except.pure, Except.ok.injEq] at h
        subst h
        have hfi : findId l i = some f := by
          split at hf
          · next g hg => simp only [pure, Except.pure, Except.ok.injEq] at hf; rw [← hf]; exact hg
          · cases hf
        have := ih (ps := fs) hfs
        obtain ⟨hm, he⟩ := findId_some hfi
        refine ⟨by simp only [ids, List.map_cons, he]; congr 1; exact this.1, ?_⟩
        intro p hp
        simp only [List.mem_cons] at hp
        rcases hp with rfl | hp
        · exact hm
        · exact this.2 p hp

theorem parentOf_foldl (s : State) (xs : List Feat) (v : Nat) (k : Nat) :
    ((xs.foldl (fun d c => d.set c.id (some v)) s.parent).get k).join =
      if k ∈ ids xs then some v else s.parentOf k := by
  rw [foldl_set_get s.parent xs (·.id) (some v) k]
  by_cases h : k ∈ ids xs
  · have h' : k ∈ xs.map (·.id) := h
    rw [if_pos h, if_pos h']; rfl
  · have h' : ¬ k ∈ xs.map (·.id) := h
    rw [if_neg h, if_neg h']; rfl

theorem mkCand_ok {s s1 : State} {pids : List Nat} {c : Feat} (h : mkCand s pids = .ok (s1, c)) :
    ∃ ps, ids ps = pids ∧ (∀ p ∈ ps, p ∈ s.protos) ∧ c.id = s.nextId ∧ c.kids = pids ∧ c.kind = .cand ∧
      s1 = { s with nextId := s.nextId + 1, parent := ps.foldl (fun d p => d.set p.id (some s.nextId)) s.parent } := by
  simp only [mkCand, bind, Except.bind, pure, Except.pure] at h
  split at h
  · cases h
  · split at h
    · cases h
    · next ps hps =>
      split at h
      · cases h
      · next loc hloc =>
        split at h
        · cases h
        · split at h
          · cases h
          · next par hpar =>
            simp only [Except.ok.injEq, Prod.mk.injEq] at h
            obtain ⟨h1, h2⟩ := h
            have hfa := findAll_ok hps
            refine ⟨ps, hfa.1, hfa.2, by rw [← h2], by rw [← h2], by rw [← h2], ?_⟩
            rw [← h1, setParents_eq hpar]


theorem nodup_parts {s : State} (hi : Inv s) :
    (ids s.protos).Nodup ∧ (ids s.cands).Nodup ∧ (ids s.subs).Nodup ∧ (ids s.pool).Nodup ∧
    (∀ k, k ∈ ids s.protos → k ∉ ids (s.cands ++ s.subs ++ s.pool)) := by
  have := hi.nodup
  simp only [ids_append] at this
  have h1 := List.nodup_append.1 this
  have h2 := List.nodup_append.1 h1.1
  have h3 := List.nodup_append.1 h2.1
  refine ⟨h3.1, h3.2.1, h2.2.1, h1.2.1, ?_⟩
  intro k hk hm
  simp only [ids_append, List.mem_append] at hm
  rcases hm with (hm | hm) | hm
  · exact h3.2.2 k hk k hm rfl
  · exact h2.2.2 k (List.mem_append.2 (Or.inl hk)) k hm rfl
  · exact h1.2.2 k (List.mem_append.2 (Or.inl (List.mem_append.2 (Or.inl hk)))) k hm rfl

theorem step_mkCand_inv {s s' : State} {pids : List Nat} (hi : Inv s) (h : step s (.mkCand pids) = .ok s') : Inv s' := by
  simp only [step, bind, Except.bind, pure, Except.pure] at h
  split at h
  · cases h
  · next v hv =>
    obtain ⟨s1, c⟩ := v
    simp only [Except.ok.injEq] at h
    obtain ⟨ps, hps, hpm, hcid, hck, hckind, rfl⟩ := mkCand_ok hv
    subst h
    have hnp := nodup_parts hi
    have hpsid : ∀ k ∈ ids ps, k ∈ ids s.protos := by
      intro k hk
      obtain ⟨p, hp, e⟩ := mem_ids.1 hk
      exact mem_ids.2 ⟨p, hpm p hp, e⟩
    have hpslt : ∀ k ∈ ids ps, k < s.nextId := by
      intro k hk
      obtain ⟨p, hp, e⟩ := mem_ids.1 (hpsid k hk)
      have := hi.fresh p (by simp [hp])
      omega
    have hpar : ∀ k, ((ps.foldl (fun d p => d.set p.id (some s.nextId)) s.parent).get k).join
        = if k ∈ ids ps then some s.nextId else s.parentOf k := fun k => parentOf_foldl s ps s.nextId k
    refine ⟨?_, ?_, hi.nodupR, hi.freshR, hi.numP, hi.numC, hi.numS, hi.numR, hi.disjointR, ?_, ?_, ?_, ?_, hi.cdsLink, ?_, ?_,
      hi.kindC, hi.kindS, ?_⟩
    rotate_right
    · intro f hf
      simp only [List.mem_append, List.mem_singleton] at hf
      rcases hf with hf | rfl
      · exact hi.kindPool f hf
      · exact hckind
    · -- nodup
      show (ids (s.protos ++ s.cands ++ s.subs ++ (s.pool ++ [c]))).Nodup
      rw [← List.append_assoc, ids_append]
      refine List.nodup_append.2 ⟨hi.nodup, by simp [ids], ?_⟩
      intro a ha b hb
      simp only [ids, List.map_cons, List.map_nil, List.mem_singleton] at hb
      obtain ⟨f, hf, e⟩ := mem_ids.1 ha
      have := hi.fresh f hf
      omega
    · -- fresh
      intro f hf
      show f.id < s.nextId + 1
      simp only [List.mem_append, List.mem_singleton] at hf
      rcases hf with hf | hf | rfl
      · have := hi.fresh f (by simp only [List.mem_append]; exact Or.inl hf); omega
      · have := hi.fresh f (by simp only [List.mem_append]; exact Or.inr hf); omega
      · omega
    · -- kidsCand
      intro c' hc' k hk
      show k < s.nextId + 1 ∧ k ∉ ids (s.cands ++ s.subs ++ (s.pool ++ [c]))
      have hsplit : c' ∈ s.cands ++ s.pool ∨ c' = c := by
        simp only [List.mem_append, List.mem_singleton] at hc' ⊢
        rcases hc' with hc' | hc' | hc'
        · exact Or.inl (Or.inl hc')
        · exact Or.inl (Or.inr hc')
        · exact Or.inr hc'
      have key : k < s.nextId ∧ k ∉ ids (s.cands ++ s.subs ++ s.pool) := by
        rcases hsplit with hc' | rfl
        · exact hi.kidsCand c' hc' k hk
        · rw [hck, ← hps] at hk
          exact ⟨hpslt k hk, hnp.2.2.2.2 k (hpsid k hk)⟩
      refine ⟨by omega, ?_⟩
      rw [← List.append_assoc, ids_append, List.mem_append]
      rintro (hm | hm)
      · exact key.2 hm
      · simp only [ids, List.map_cons, List.map_nil, List.mem_singleton] at hm
        omega
    · -- kidsReg
      intro r hr k hk
      have := hi.kidsReg r hr k hk
      exact ⟨by show k < s.nextId + 1; omega, this.2⟩
    · -- parentA
      intro f hf p hp
      simp only [State.parentOf] at hp
      rw [hpar] at hp
      have : f.id ∉ ids ps := by
        intro hm
        have h1 := hnp.2.2.2.2 f.id (hpsid _ hm)
        apply h1
        simp only [ids_append, List.mem_append] at hf ⊢
        rcases hf with hf | hf
        · exact Or.inl (Or.inl (mem_ids.2 ⟨f, hf, rfl⟩))
        · exact Or.inl (Or.inr (mem_ids.2 ⟨f, hf, rfl⟩))
      rw [if_neg this] at hp
      exact hi.parentA f hf p hp
    · -- parentP
      intro f hf c0 hp
      simp only [State.parentOf] at hp
      rw [hpar] at hp
      show ∃ c' ∈ s.cands ++ (s.pool ++ [c]), c'.id = c0 ∧ f.id ∈ c'.kids
      by_cases hm : f.id ∈ ids ps
      · rw [if_pos hm] at hp
        simp only [Option.some.injEq] at hp
        exact ⟨c, by simp, by rw [hcid, hp], by rw [hck, ← hps]; exact hm⟩
      · rw [if_neg hm] at hp
        obtain ⟨c', hc', e1, e2⟩ := hi.parentP f hf c0 hp
        refine ⟨c', ?_, e1, e2⟩
        simp only [List.mem_append] at hc' ⊢
        rcases hc' with hc' | hc'
        · exact Or.inl hc'
        · exact Or.inr (Or.inl hc')
    · -- parentFresh
      intro k hk
      have hk' : s.nextId + 1 ≤ k := hk
      simp only [State.parentOf]
      rw [hpar]
      have : k ∉ ids ps := fun hm => by have := hpslt k hm; omega
      rw [if_neg this]
      exact hi.parentFresh k (by omega)
    · -- parentPool
      intro c' hc' p hp
      simp only [State.parentOf] at hp
      rw [hpar] at hp
      simp only [List.mem_append, List.mem_singleton] at hc'
      rcases hc' with hc' | rfl
      · have : c'.id ∉ ids ps := by
          intro hm
          apply hnp.2.2.2.2 c'.id (hpsid _ hm)
          simp only [ids_append, List.mem_append]
          exact Or.inr (mem_ids.2 ⟨c', hc', rfl⟩)
        rw [if_neg this] at hp
        exact hi.parentPool c' hc' p hp
      · have : c'.id ∉ ids ps := fun hm => by have := hpslt _ hm; omega
        rw [if_neg this, hi.parentFresh _ (by omega)] at hp
        cases hp



theorem pool_split {pool : List Feat} {i : Nat} {x : Feat} (hnd : (ids pool).Nodup) (hf : findId pool i = some x) :
    pool.Perm (x :: pool.filter (·.id != i)) := by
  induction pool with
  | nil => simp [findId] at hf
  | cons y ys ih =>
    simp only [ids, List.map_cons, List.nodup_cons] at hnd
    simp only [findId, List.find?_cons] at hf
    by_cases hy : y.id == i
    · simp only [hy] at hf
      have hyx : y = x := by simpa using hf
      subst hyx
      have hid : y.id = i := by simpa using hy
      have : ys.filter (·.id != i) = ys := by
        rw [List.filter_eq_self]
        intro z hz
        have : z.id ≠ y.id := fun e => hnd.1 (List.mem_map.2 ⟨z, hz, e⟩)
        simp only [bne_iff_ne, ne_eq]
        rw [← hid]; exact this
      simp only [List.filter_cons, hy, bne, Bool.not_true, Bool.false_eq_true, if_false]
      simp only [bne] at this
      rw [this]
    · simp only [hy] at hf
      have := ih hnd.2 hf
      simp only [List.filter_cons, bne, hy, Bool.not_false, if_true]
      exact (List.Perm.cons y this).trans (List.Perm.swap x y _)

theorem addCandidate_ok {s s' : State} {id : Nat} (h : addCandidate s id = .ok s') :
    ∃ x l d, findId s.pool id = some x ∧ insertSorted s.cands s.numC x = .ok (l, d) ∧
      s' = { s with cands := l, numC := d, pool := s.pool.filter (·.id != id) } := by
  simp only [addCandidate] at h
  split at h
  · cases h
  · next x hx =>
    simp only [bind, Except.bind, pure, Except.pure] at h
    split at h
    · cases h
    · split at h
      · cases h
      · next v hv =>
        obtain ⟨l, d⟩ := v
        simp only [Except.ok.injEq] at h
        exact ⟨x, l, d, hx, hv, h.symm⟩

theorem addCandidate_inv {s s' : State} {id : Nat} (hi : Inv s) (h : addCandidate s id = .ok s') : Inv s' := by
  obtain ⟨x, l, d, hx, hins, rfl⟩ := addCandidate_ok h
  have hnp := nodup_parts hi
  have hxp := findId_some hx
  have hpool := pool_split hnp.2.2.2.1 hx
  have hnd : (ids (x :: s.cands)).Nodup := by
    have := hi.nodup
    simp only [ids_append] at this
    have h1 := List.nodup_append.1 this
    have h2 := List.nodup_append.1 h1.1
    have h3 := List.nodup_append.1 h2.1
    simp only [ids, List.map_cons, List.nodup_cons]
    refine ⟨?_, h3.2.1⟩
    intro hm
    exact h1.2.2 x.id (List.mem_append.2 (Or.inl (List.mem_append.2 (Or.inr hm)))) x.id (mem_ids.2 ⟨x, hxp.1, rfl⟩) rfl
  obtain ⟨hnum, hp⟩ := insertSorted_numbered hi.numC hnd hins
  -- the candidates and the pool together are the same set as before
  have hset : ∀ f, f ∈ l ++ s.pool.filter (·.id != id) ↔ f ∈ s.cands ++ s.pool := by
    intro f
    simp only [List.mem_append, hp.mem_iff, hpool.mem_iff, List.mem_cons]
    constructor
    · rintro ((rfl | h) | h)
      · exact Or.inr (Or.inl rfl)
      · exact Or.inl h
      · exact Or.inr (Or.inr h)
    · rintro (h | rfl | h)
      · exact Or.inl (Or.inr h)
      · exact Or.inl (Or.inl rfl)
      · exact Or.inr h
  have hperm : (ids (s.protos ++ l ++ s.subs ++ s.pool.filter (·.id != id))).Perm (ids (s.protos ++ s.cands ++ s.subs ++ s.pool)) := by
    simp only [ids_append]
    have h1 : (ids l).Perm (x.id :: ids s.cands) := hp.map _
    have h2 : (ids s.pool).Perm (x.id :: ids (s.pool.filter (·.id != id))) := hpool.map _
    have h3 : (ids s.protos ++ ids l ++ ids s.subs ++ ids (s.pool.filter (·.id != id))).Perm
        (ids s.protos ++ (x.id :: ids s.cands) ++ ids s.subs ++ ids (s.pool.filter (·.id != id))) :=
      (((List.Perm.append_left _ h1).append_right _).append_right _)
    refine h3.trans ?_
    have h4 : (ids s.protos ++ ids s.cands ++ ids s.subs ++ ids s.pool).Perm
        (ids s.protos ++ ids s.cands ++ ids s.subs ++ (x.id :: ids (s.pool.filter (·.id != id)))) :=
      List.Perm.append_left _ h2
    refine List.Perm.trans ?_ h4.symm
    simp only [List.append_assoc, List.cons_append]
    refine List.Perm.append_left _ ?_
    have := (@List.perm_middle _ x.id (ids s.cands ++ ids s.subs) (ids (s.pool.filter (·.id != id)))).symm
    simpa only [List.append_assoc, List.cons_append] using this
  have hidset : ∀ k, k ∈ ids (l ++ s.subs ++ s.pool.filter (·.id != id)) ↔ k ∈ ids (s.cands ++ s.subs ++ s.pool) := by
    intro k
    simp only [ids_append, List.mem_append, mem_ids]
    constructor
    · rintro ((⟨f, hf, e⟩ | h) | ⟨f, hf, e⟩)
      · have := (hset f).1 (List.mem_append.2 (Or.inl hf))
        rcases List.mem_append.1 this with h | h
        · exact Or.inl (Or.inl ⟨f, h, e⟩)
        · exact Or.inr ⟨f, h, e⟩
      · exact Or.inl (Or.inr h)
      · have := (hset f).1 (List.mem_append.2 (Or.inr hf))
        rcases List.mem_append.1 this with h | h
        · exact Or.inl (Or.inl ⟨f, h, e⟩)
        · exact Or.inr ⟨f, h, e⟩
    · rintro ((⟨f, hf, e⟩ | h) | ⟨f, hf, e⟩)
      · have := (hset f).2 (List.mem_append.2 (Or.inl hf))
        rcases List.mem_append.1 this with h | h
        · exact Or.inl (Or.inl ⟨f, h, e⟩)
        · exact Or.inr ⟨f, h, e⟩
      · exact Or.inl (Or.inr h)
      · have := (hset f).2 (List.mem_append.2 (Or.inr hf))
        rcases List.mem_append.1 this with h | h
        · exact Or.inl (Or.inl ⟨f, h, e⟩)
        · exact Or.inr ⟨f, h, e⟩
  refine ⟨?_, ?_, hi.nodupR, hi.freshR, hi.numP, hnum, hi.numS, hi.numR, hi.disjointR, ?_, hi.kidsReg, ?_, ?_, hi.cdsLink,
    hi.parentFresh, ?_, ?_, hi.kindS, fun f hf => hi.kindPool f (List.mem_filter.1 hf).1⟩
  rotate_right
  · intro f hf
    rcases List.mem_cons.1 (hp.mem_iff.1 hf) with rfl | hf
    · exact hi.kindPool f hxp.1
    · exact hi.kindC f hf
  · exact hperm.nodup_iff.2 hi.nodup
  · intro f hf
    have : f.id ∈ ids (s.protos ++ s.cands ++ s.subs ++ s.pool) := hperm.mem_iff.1 (mem_ids.2 ⟨f, hf, rfl⟩)
    obtain ⟨g, hg, e⟩ := mem_ids.1 this
    have := hi.fresh g hg
    show f.id < s.nextId
    omega
  · intro c hc k hk
    have := hi.kidsCand c ((hset c).1 hc) k hk
    exact ⟨this.1, fun hm => this.2 ((hidset k).1 hm)⟩
  · intro f hf p hpar
    simp only [List.mem_append, hp.mem_iff, List.mem_cons] at hf
    rcases hf with (rfl | hf) | hf
    · exact hi.parentPool f hxp.1 p hpar
    · exact hi.parentA f (by simp [hf]) p hpar
    · exact hi.parentA f (by simp [hf]) p hpar
  · intro f hf c hpar
    obtain ⟨c', hc', e1, e2⟩ := hi.parentP f hf c hpar
    exact ⟨c', (hset c').2 hc', e1, e2⟩
  · intro c hc
    exact hi.parentPool c (List.mem_filter.1 hc).1



theorem mkRegion_ok {s s1 : State} {cands subs : List Feat} {r : Feat} (h : mkRegion s cands subs = .ok (s1, r)) :
    r.id = s.nextRid ∧ r.kids = ids cands ∧ r.subs = ids subs ∧ r.cdses = [] ∧
      s1 = { s with nextRid := s.nextRid + 1,
                    parent := (subs ++ cands).foldl (fun d c => d.set c.id (some s.nextRid)) s.parent } := by
  simp only [mkRegion, bind, Except.bind, pure, Except.pure] at h
  split at h
  · cases h
  · split at h
    · cases h
    · split at h
      · cases h
      · split at h
        · cases h
        · split at h
          · cases h
          · next par hpar =>
            simp only [Except.ok.injEq, Prod.mk.injEq] at h
            obtain ⟨h1, h2⟩ := h
            refine ⟨by rw [← h2], by rw [← h2]; rfl, by rw [← h2]; rfl, by rw [← h2], ?_⟩
            rw [← h1, setParents_eq hpar]

theorem addRegion_ok {s s' : State} {region : Feat} (h : addRegion s region = .ok s') :
    ∃ index, index ≤ s.regions.length ∧ (∀ x ∈ s.regions, locationsOverlap region.loc x.loc = false) ∧
      s' = { s with
        regions := insertAt s.regions index { region with cdses := cdsWithin s.cds region.loc },
        numR := renumber s.numR (insertAt s.regions index { region with cdses := cdsWithin s.cds region.loc }) index,
        cdsRegion := (cdsWithin s.cds region.loc).foldl
          (fun (acc : Dict (Option Nat)) i => acc.set i (some region.id)) s.cdsRegion } := by
  simp only [addRegion, bind, Except.bind, pure, Except.pure] at h
  split at h
  · cases h
  · split at h
    · cases h
    · next index hidx =>
      simp only [Except.ok.injEq] at h
      have := regionIndex_ok region 0 index s.regions hidx
      exact ⟨index, by omega, this.2, h.symm⟩

theorem pairwise_insertAt {α} {R : α → α → Prop} (hsymm : ∀ a b, R a b → R b a) (l : List α) (i : Nat) (y : α)
    (hl : l.Pairwise R) (hy : ∀ x ∈ l, R y x) : (insertAt l i y).Pairwise R := by
  simp only [insertAt]
  rw [← List.take_append_drop i l] at hl hy
  have h := List.pairwise_append.1 hl
  refine List.pairwise_append.2 ⟨h.1, List.pairwise_cons.2 ⟨fun x hx => hy x (List.mem_append.2 (Or.inr hx)), h.2.1⟩, ?_⟩
  intro a ha b hb
  simp only [List.mem_cons] at hb
  rcases hb with rfl | hb
  · exact hsymm _ _ (hy a (List.mem_append.2 (Or.inl ha)))
  · exact h.2.2 a ha b hb

theorem regionOfCds_foldl (s : State) (xs : List Nat) (v : Nat) (k : Nat) :
    ((xs.foldl (fun (acc : Dict (Option Nat)) i => acc.set i (some v)) s.cdsRegion).get k).join =
      if k ∈ xs then some v else s.regionOfCds k := by
  rw [foldl_set_get s.cdsRegion xs (fun i => i) (some v) k]
  simp only [List.map_id', State.regionOfCds]
  by_cases h : k ∈ xs
  · rw [if_pos h, if_pos h]; rfl
  · rw [if_neg h, if_neg h]

/-- constructing a region from areas of the record and adding it keeps the invariant -/
theorem mkAddRegion_inv {s s1 s2 : State} {cands subs : List Feat} {r : Feat} (hi : Inv s)
    (hc : ∀ f ∈ cands, f ∈ s.cands ++ s.pool) (hs : ∀ f ∈ subs, f ∈ s.subs)
    (hmk : mkRegion s cands subs = .ok (s1, r)) (hadd : addRegion s1 r = .ok s2) :
    Inv s2 ∧ s2.protos = s.protos ∧ s2.cands = s.cands ∧ s2.subs = s.subs ∧ s2.pool = s.pool ∧
      s2.len = s.len ∧ s2.circular = s.circular ∧ s2.cds = s.cds ∧ s2.nextId = s.nextId := by
  obtain ⟨hrid, hrk, hrs, _, rfl⟩ := mkRegion_ok hmk
  obtain ⟨index, hle, hno, rfl⟩ := addRegion_ok hadd
  refine ⟨?_, rfl, rfl, rfl, rfl, rfl, rfl, rfl, rfl⟩
  have hnp := nodup_parts hi
  have hchild : ∀ k ∈ ids (subs ++ cands), k ∈ ids (s.cands ++ s.subs ++ s.pool) := by
    intro k hk
    simp only [ids_append, List.mem_append, mem_ids] at hk ⊢
    rcases hk with ⟨f, hf, e⟩ | ⟨f, hf, e⟩
    · exact Or.inl (Or.inr ⟨f, hs f hf, e⟩)
    · rcases List.mem_append.1 (hc f hf) with h | h
      · exact Or.inl (Or.inl ⟨f, h, e⟩)
      · exact Or.inr ⟨f, h, e⟩
  have hchildlt : ∀ k ∈ ids (subs ++ cands), k < s.nextId := by
    intro k hk
    obtain ⟨f, hf, e⟩ := mem_ids.1 (hchild k hk)
    have := hi.fresh f (by
      simp only [List.mem_append] at hf ⊢
      rcases hf with (hf | hf) | hf
      · exact Or.inl (Or.inl (Or.inr hf))
      · exact Or.inl (Or.inr hf)
      · exact Or.inr hf)
    omega
  have hchildnp : ∀ k ∈ ids (subs ++ cands), k ∉ ids s.protos := by
    intro k hk hp
    exact hnp.2.2.2.2 k hp (hchild k hk)
  have hpar : ∀ k, (((subs ++ cands).foldl (fun d c => d.set c.id (some s.nextRid)) s.parent).get k).join
      = if k ∈ ids (subs ++ cands) then some s.nextRid else s.parentOf k :=
    fun k => parentOf_foldl s (subs ++ cands) s.nextRid k
  have hcds : ∀ k, (((cdsWithin s.cds r.loc).foldl (fun (acc : Dict (Option Nat)) i => acc.set i (some r.id)) s.cdsRegion).get k).join
      = if k ∈ cdsWithin s.cds r.loc then some r.id else s.regionOfCds k :=
    fun k => regionOfCds_foldl s _ r.id k
  have hperm := insertAt_perm s.regions index ({ r with cdses := cdsWithin s.cds r.loc } : Feat)
  have hmem : ∀ x, x ∈ insertAt s.regions index ({ r with cdses := cdsWithin s.cds r.loc } : Feat) ↔
      x = { r with cdses := cdsWithin s.cds r.loc } ∨ x ∈ s.regions := by
    intro x; rw [hperm.mem_iff]; simp
  have hndR : (ids (insertAt s.regions index ({ r with cdses := cdsWithin s.cds r.loc } : Feat))).Nodup := by
    have hp' : (ids (insertAt s.regions index ({ r with cdses := cdsWithin s.cds r.loc } : Feat))).Perm
        (r.id :: ids s.regions) := hperm.map (fun f : Feat => f.id)
    rw [hp'.nodup_iff, List.nodup_cons]
    refine ⟨?_, hi.nodupR⟩
    intro hm
    obtain ⟨f, hf, e⟩ := mem_ids.1 hm
    have := hi.freshR f hf
    omega
  refine ⟨hi.nodup, hi.fresh, hndR, ?_, hi.numP, hi.numC, hi.numS, ?_, ?_, hi.kidsCand, ?_, ?_, ?_, ?_, ?_, ?_,
    hi.kindC, hi.kindS, hi.kindPool⟩
  · -- freshR
    intro x hx
    show x.id < s.nextRid + 1
    rcases (hmem x).1 hx with rfl | hx
    · simp only [hrid]; omega
    · have := hi.freshR x hx; omega
  · -- numR
    apply renumber_numbered _ _ _ hndR
    intro j f hj hf
    rw [insertAt_get_lt _ _ _ _ hj hle] at hf
    exact hi.numR j f hf
  · -- disjointR
    apply pairwise_insertAt (fun a b h => by rw [locationsOverlap_comm]; exact h) _ _ _ hi.disjointR
    intro x hx
    exact hno x hx
  · -- kidsReg
    intro x hx k hk
    rcases (hmem x).1 hx with rfl | hx
    · simp only [hrk, hrs] at hk
      have hk' : k ∈ ids (subs ++ cands) := by
        simp only [ids_append, List.mem_append] at hk ⊢
        exact hk.symm
      exact ⟨hchildlt k hk', hchildnp k hk'⟩
    · exact hi.kidsReg x hx k hk
  · -- parentA
    intro f hf p hp
    simp only [State.parentOf] at hp
    rw [hpar] at hp
    by_cases hm : f.id ∈ ids (subs ++ cands)
    · rw [if_pos hm] at hp
      simp only [Option.some.injEq] at hp
      refine ⟨{ r with cdses := cdsWithin s.cds r.loc }, (hmem _).2 (Or.inl rfl), by simp only [hrid, hp], ?_⟩
      simp only [hrk, hrs]
      simp only [ids_append, List.mem_append] at hm ⊢
      exact hm.symm
    · rw [if_neg hm] at hp
      obtain ⟨x, hx, e1, e2⟩ := hi.parentA f hf p hp
      exact ⟨x, (hmem x).2 (Or.inr hx), e1, e2⟩
  · -- parentP
    intro f hf c hp
    simp only [State.parentOf] at hp
    rw [hpar] at hp
    have : f.id ∉ ids (subs ++ cands) := fun hm => hchildnp _ hm (mem_ids.2 ⟨f, hf, rfl⟩)
    rw [if_neg this] at hp
    exact hi.parentP f hf c hp
  · -- cdsLink
    intro i p hp
    simp only [State.regionOfCds] at hp
    rw [hcds] at hp
    by_cases hm : i ∈ cdsWithin s.cds r.loc
    · rw [if_pos hm] at hp
      simp only [Option.some.injEq] at hp
      exact ⟨{ r with cdses := cdsWithin s.cds r.loc }, (hmem _).2 (Or.inl rfl), hp, hm⟩
    · rw [if_neg hm] at hp
      obtain ⟨x, hx, e1, e2⟩ := hi.cdsLink i p hp
      exact ⟨x, (hmem x).2 (Or.inr hx), e1, e2⟩
  · -- parentFresh
    intro k hk
    simp only [State.parentOf]
    rw [hpar]
    have hk' : s.nextId ≤ k := hk
    have : k ∉ ids (subs ++ cands) := fun hm => by have := hchildlt k hm; omega
    rw [if_neg this]
    exact hi.parentFresh k hk'
  · -- parentPool
    intro f hf p hp
    simp only [State.parentOf] at hp
    rw [hpar] at hp
    by_cases hm : f.id ∈ ids (subs ++ cands)
    · rw [if_pos hm] at hp
      simp only [Option.some.injEq] at hp
      refine ⟨{ r with cdses := cdsWithin s.cds r.loc }, (hmem _).2 (Or.inl rfl), by simp only [hrid, hp], ?_⟩
      simp only [hrk, hrs]
      simp only [ids_append, List.mem_append] at hm ⊢
      exact hm.symm
    · rw [if_neg hm] at hp
      obtain ⟨x, hx, e1, e2⟩ := hi.parentPool f hf p hp
      exact ⟨x, (hmem x).2 (Or.inr hx), e1, e2⟩



theorem clearFold_get (rs : List Feat) (par cr : Dict (Option Nat)) (k : Nat) :
    let res := rs.foldl (fun (acc : Dict (Option Nat) × Dict (Option Nat)) r =>
      (setNone (setNone acc.1 r.kids) r.subs, setNone acc.2 r.cdses)) (par, cr)
    (res.1.get k = if ∃ r ∈ rs, k ∈ r.kids ++ r.subs then some none else par.get k) ∧
    (res.2.get k = if ∃ r ∈ rs, k ∈ r.cdses then some none else cr.get k) := by
  induction rs generalizing par cr with
  | nil => simp
  | cons r rs ih =>
    simp only [List.foldl_cons]
    have := ih (setNone (setNone par r.kids) r.subs) (setNone cr r.cdses)
    simp only at this
    constructor
    · rw [this.1]
      by_cases h1 : ∃ x ∈ rs, k ∈ x.kids ++ x.subs
      · have h2 : ∃ x ∈ r :: rs, k ∈ x.kids ++ x.subs := by
          obtain ⟨x, hx, hk⟩ := h1; exact ⟨x, by simp [hx], hk⟩
        rw [if_pos h1, if_pos h2]
      · rw [if_neg h1, setNone_get, setNone_get]
        by_cases h3 : k ∈ r.kids ++ r.subs
        · have h2 : ∃ x ∈ r :: rs, k ∈ x.kids ++ x.subs := ⟨r, by simp, h3⟩
          rw [if_pos h2]
          simp only [List.mem_append] at h3
          by_cases h4 : k ∈ r.subs
          · rw [if_pos h4]
          · rw [if_neg h4, if_pos (h3.resolve_right h4)]
        · have h2 : ¬ ∃ x ∈ r :: rs, k ∈ x.kids ++ x.subs := by
            rintro ⟨x, hx, hk⟩
            simp only [List.mem_cons] at hx
            rcases hx with rfl | hx
            · exact h3 hk
            · exact h1 ⟨x, hx, hk⟩
          rw [if_neg h2]
          simp only [List.mem_append, not_or] at h3
          rw [if_neg h3.2, if_neg h3.1]
    · rw [this.2]
      by_cases h1 : ∃ x ∈ rs, k ∈ x.cdses
      · have h2 : ∃ x ∈ r :: rs, k ∈ x.cdses := by
          obtain ⟨x, hx, hk⟩ := h1; exact ⟨x, by simp [hx], hk⟩
        rw [if_pos h1, if_pos h2]
      · rw [if_neg h1, setNone_get]
        by_cases h3 : k ∈ r.cdses
        · have h2 : ∃ x ∈ r :: rs, k ∈ x.cdses := ⟨r, by simp, h3⟩
          rw [if_pos h2, if_pos h3]
        · have h2 : ¬ ∃ x ∈ r :: rs, k ∈ x.cdses := by
            rintro ⟨x, hx, hk⟩
            simp only [List.mem_cons] at hx
            rcases hx with rfl | hx
            · exact h3 hk
            · exact h1 ⟨x, hx, hk⟩
          rw [if_neg h2, if_neg h3]

theorem clearRegions_parentOf (s : State) (k : Nat) :
    (clearRegions s).parentOf k = if ∃ r ∈ s.regions, k ∈ r.kids ++ r.subs then none else s.parentOf k := by
  have := (clearFold_get s.regions s.parent s.cdsRegion k).1
  simp only [State.parentOf, clearRegions]
  rw [this]
  split <;> rfl

theorem clearRegions_regionOfCds (s : State) (k : Nat) :
    (clearRegions s).regionOfCds k = if ∃ r ∈ s.regions, k ∈ r.cdses then none else s.regionOfCds k := by
  have := (clearFold_get s.regions s.parent s.cdsRegion k).2
  simp only [State.regionOfCds, clearRegions]
  rw [this]
  split <;> rfl

theorem clearRegions_inv {s : State} (hi : Inv s) : Inv (clearRegions s) := by
  refine ⟨hi.nodup, hi.fresh, by simp [clearRegions, ids], by simp [clearRegions], hi.numP, hi.numC, hi.numS,
    by intro j f hf; simp [clearRegions] at hf, by simp [clearRegions], hi.kidsCand, by simp [clearRegions], ?_, ?_, ?_, ?_, ?_,
    hi.kindC, hi.kindS, hi.kindPool⟩
  · intro f hf p hp
    rw [clearRegions_parentOf] at hp
    split at hp
    · cases hp
    · next hn =>
      obtain ⟨r, hr, _, e2⟩ := hi.parentA f hf p hp
      exact absurd ⟨r, hr, e2⟩ hn
  · intro f hf c hp
    rw [clearRegions_parentOf] at hp
    split at hp
    · cases hp
    · exact hi.parentP f hf c hp
  · intro i p hp
    rw [clearRegions_regionOfCds] at hp
    split at hp
    · cases hp
    · next hn =>
      obtain ⟨r, hr, _, e2⟩ := hi.cdsLink i p hp
      exact absurd ⟨r, hr, e2⟩ hn
  · intro k hk
    rw [clearRegions_parentOf]
    split
    · rfl
    · exact hi.parentFresh k hk
  · intro c hc p hp
    rw [clearRegions_parentOf] at hp
    split at hp
    · cases hp
    · next hn =>
      obtain ⟨r, hr, _, e2⟩ := hi.parentPool c hc p hp
      exact absurd ⟨r, hr, e2⟩ hn

theorem clearRegions_fields (s : State) :
    (clearRegions s).regions = [] ∧ (clearRegions s).protos = s.protos ∧ (clearRegions s).cands = s.cands ∧
    (clearRegions s).subs = s.subs ∧ (clearRegions s).pool = s.pool ∧ (clearRegions s).len = s.len ∧
    (clearRegions s).circular = s.circular ∧ (clearRegions s).cds = s.cds := ⟨rfl, rfl, rfl, rfl, rfl, rfl, rfl, rfl⟩



/-! ### whatever the locations: the sections of `create_regions` are a rearrangement of the areas -/

theorem insertArea_perm {x : Feat} {l l' : List Feat} (h : insertArea x l = .ok l') : l'.Perm (x :: l) := by
  induction l generalizing l' with
  | nil => simp only [insertArea, pure, Except.pure, Except.ok.injEq] at h; subst h; exact List.Perm.refl _
  | cons y ys ih =>
    simp only [insertArea, bind, Except.bind] at h
    split at h
    · cases h
    · next b _ =>
      cases b with
      | true =>
        simp only [if_true] at h
        split at h
        · cases h
        · next r hr =>
          simp only [pure, Except.pure, Except.ok.injEq] at h
          subst h
          exact (List.Perm.cons y (ih hr)).trans (List.Perm.swap x y ys)
      | false =>
        simp only [Bool.false_eq_true, if_false, pure, Except.pure, Except.ok.injEq] at h
        subst h
        exact List.Perm.refl _

theorem sortAreas_perm {l l' : List Feat} (h : sortAreas l = .ok l') : l'.Perm l := by
  induction l generalizing l' with
  | nil => simp only [sortAreas, pure, Except.pure, Except.ok.injEq] at h; subst h; exact List.Perm.refl _
  | cons x xs ih =>
    simp only [sortAreas, bind, Except.bind] at h
    split at h
    · cases h
    · next r hr => exact (insertArea_perm h).trans (List.Perm.cons x (ih hr))

theorem sweepAreas_flat {w : Option Int} {loc : Loc} {inc rest : List Feat} {secs : List Sec}
    (h : sweepAreas w loc inc rest = .ok secs) : (secs.map (·.2)).flatten = inc ++ rest := by
  induction rest generalizing loc inc secs with
  | nil => simp only [sweepAreas, pure, Except.pure, Except.ok.injEq] at h; subst h; simp
  | cons a rest ih =>
    simp only [sweepAreas] at h
    split at h
    · simp only [bind, Except.bind] at h
      split at h
      · cases h
      · next tail ht =>
        simp only [pure, Except.pure, Except.ok.injEq] at h
        subst h
        simp [ih ht]
    · simp only [bind, Except.bind] at h
      split at h
      · cases h
      · next loc' _ =>
        rw [ih h]; simp

theorem sweepAreas_ne {w : Option Int} {loc : Loc} {inc rest : List Feat} {secs : List Sec}
    (h : sweepAreas w loc inc rest = .ok secs) : secs ≠ [] := by
  induction rest generalizing loc inc secs with
  | nil => simp only [sweepAreas, pure, Except.pure, Except.ok.injEq] at h; subst h; simp
  | cons a rest ih =>
    simp only [sweepAreas] at h
    split at h
    · simp only [bind, Except.bind] at h
      split at h
      · cases h
      · simp only [pure, Except.pure, Except.ok.injEq] at h
        subst h; simp
    · simp only [bind, Except.bind] at h
      split at h
      · cases h
      · exact ih h

theorem appendNew_disjoint (first last : List Feat) (hd : ∀ a ∈ last, a.id ∉ ids first) (hn : (ids last).Nodup) :
    appendNew first last = first ++ last := by
  induction last generalizing first with
  | nil => simp [appendNew]
  | cons a last ih =>
    simp only [ids, List.map_cons, List.nodup_cons] at hn
    have ha : first.any (fun x => x.id == a.id) = false := by
      rw [List.any_eq_false]
      intro x hx
      have := hd a (by simp)
      simp only [beq_iff_eq]
      intro e
      exact this (mem_ids.2 ⟨x, hx, e⟩)
    simp only [appendNew, List.foldl_cons, ha, Bool.false_eq_true, if_false]
    have := ih (first ++ [a]) (by
      intro b hb
      rw [ids_append, List.mem_append]
      rintro (hm | hm)
      · exact hd b (by simp [hb]) hm
      · simp only [ids, List.map_cons, List.map_nil, List.mem_singleton] at hm
        exact hn.1 (List.mem_map.2 ⟨b, hb, hm⟩)) hn.2
    simp only [appendNew] at this
    rw [this]; simp

theorem mergeFirstLast_perm {w : Option Int} (n : Nat) {secs secs' : List Sec}
    (hnd : (ids (secs.map (·.2)).flatten).Nodup)
    (h : mergeFirstLast w n secs = .ok secs') :
    ((secs'.map (·.2)).flatten).Perm ((secs.map (·.2)).flatten) := by
  induction n generalizing secs secs' with
  | zero => simp only [mergeFirstLast, pure, Except.pure, Except.ok.injEq] at h; subst h; exact List.Perm.refl _
  | succ n ih =>
    simp only [mergeFirstLast] at h
    split at h
    · next first second more =>
      split at h
      · simp only [pure, Except.pure, Except.ok.injEq] at h; subst h; exact List.Perm.refl _
      · next last hlast =>
        split at h
        · simp only [pure, Except.pure, Except.ok.injEq] at h; subst h; exact List.Perm.refl _
        · simp only [bind, Except.bind] at h
          split at h
          · cases h
          · next location _ =>
            -- second :: more = init ++ [last]
            have hsplit : second :: more = (second :: more).dropLast ++ [last] := by
              have hne : second :: more ≠ [] := by simp
              have := List.dropLast_concat_getLast hne
              rw [List.getLast?_eq_some_getLast hne] at hlast
              simp only [Option.some.injEq] at hlast
              rw [hlast] at this
              exact this.symm
            have hflat : ((first :: second :: more).map (·.2)).flatten =
                first.2 ++ (((second :: more).dropLast).map (·.2)).flatten ++ last.2 := by
              rw [List.map_cons, List.flatten_cons, hsplit]
              simp [List.append_assoc]
            have hnd' := hnd
            rw [hflat, ids_append, ids_append] at hnd'
            have hdis : ∀ a ∈ last.2, a.id ∉ ids first.2 := by
              intro a ha hm
              have := (List.nodup_append.1 hnd').2.2
              exact this a.id (List.mem_append.2 (Or.inl hm)) a.id (mem_ids.2 ⟨a, ha, rfl⟩) rfl
            have hnl : (ids last.2).Nodup := (List.nodup_append.1 hnd').2.1
            have happ := appendNew_disjoint first.2 last.2 hdis hnl
            have hperm1 : (((location, appendNew first.2 last.2) :: (second :: more).dropLast).map (·.2)).flatten.Perm
                (((first :: second :: more).map (·.2)).flatten) := by
              rw [hflat, List.map_cons, List.flatten_cons, happ]
              simp only [List.append_assoc]
              exact List.Perm.append_left _ List.perm_append_comm
            refine (ih ?_ h).trans hperm1
            exact ((hperm1.map (fun f : Feat => f.id)).nodup_iff).2 hnd
    · simp only [pure, Except.pure, Except.ok.injEq] at h; subst h; exact List.Perm.refl _

/-- the sections of `create_regions`, when they can be computed, hold every area exactly once -/
theorem sectionsOf_perm {w : Option Int} {cands subs : List Feat} {secs : List Sec} (hnd : (ids (cands ++ subs)).Nodup)
    (h : sectionsOf w cands subs = .ok secs) : ((secs.map (·.2)).flatten).Perm (cands ++ subs) := by
  simp only [sectionsOf, bind, Except.bind] at h
  split at h
  · cases h
  · next areas hareas =>
    have hp := sortAreas_perm hareas
    split at h
    · simp only [pure, Except.pure, Except.ok.injEq] at h
      subst h
      simpa using hp
    · next first rest =>
      split at h
      · cases h
      · next secs0 hsw =>
        have hflat := sweepAreas_flat hsw
        have hnd0 : (ids (secs0.map (·.2)).flatten).Nodup := by
          rw [hflat]
          exact ((hp.map (fun f : Feat => f.id)).nodup_iff).2 hnd
        have := mergeFirstLast_perm _ hnd0 h
        rw [hflat] at this
        exact this.trans hp

theorem sections_perm {s : State} {secs : List Sec} (hnd : (ids (s.cands ++ s.subs)).Nodup)
    (h : sections s = .ok secs) : ((secs.map (·.2)).flatten).Perm (s.cands ++ s.subs) :=
  sectionsOf_perm hnd h

end ASV.Regions
