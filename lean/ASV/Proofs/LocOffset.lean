/-
  Helper lemmas for `offset_location` (C04): shifting a single-part location on a ring rotates its bases.
-/
import ASV.Proofs.LocConnect
set_option linter.unusedSimpArgs false
namespace ASV


def RotOf (L k i j : Int) : Prop := ∃ c : Int, i = j + k + c * L

theorem emod_shift (x L : Int) (hL : 0 < L) : ∃ q : Int, x = x % L + q * L ∧ 0 ≤ x % L ∧ x % L < L := by
  refine ⟨x / L, ?_, Int.emod_nonneg _ (by omega), Int.emod_lt_of_pos _ hL⟩
  have := Int.emod_add_mul_ediv x L
  rw [Int.mul_comm] ; omega

theorem mul_bound2 (c L x : Int) (hL : 0 < L) (hx : -2 * L < x) (hx' : x < L) (h : x = c * L) : c = 0 ∨ c = -1 := by
  rcases Int.lt_trichotomy c (-1) with hc | hc | hc
  · have : c * L ≤ -2 * L := Int.mul_le_mul_of_nonneg_right (by omega) (by omega)
    omega
  · right; exact hc
  · rcases Int.lt_trichotomy c 0 with hc0 | hc0 | hc0
    · omega
    · left; exact hc0
    · have : 1 * L ≤ c * L := Int.mul_le_mul_of_nonneg_right (by omega) (by omega)
      omega

/-- rotating the interval `[lo, hi)` (0 < hi - lo ≤ L) by `k` on a ring of length `L`: with
    `s = (lo + k) % L`, the image inside `[0, L)` is `[s, s+len)` together with `[0, s+len-L)` -/
theorem rot_interval (lo hi k L s q : Int) (hL : 0 < L) (_hlen : lo < hi) (hlen2 : hi - lo ≤ L)
    (hs : lo + k = s + q * L) (hs0 : 0 ≤ s) (hs1 : s < L) (i : Int) (hi0 : 0 ≤ i) (hi1 : i < L) :
    (∃ j, (lo ≤ j ∧ j < hi) ∧ RotOf L k i j) ↔ ((s ≤ i ∧ i < s + (hi - lo)) ∨ i < s + (hi - lo) - L) := by
  constructor
  · rintro ⟨j, ⟨hj0, hj1⟩, c, hc⟩
    have e : i - s - (j - lo) = (q + c) * L := by
      rw [Int.add_mul]; omega
    rcases mul_bound2 (q + c) L (i - s - (j - lo)) hL (by omega) (by omega) e with h | h
    · rw [h] at e; left; omega
    · rw [h] at e; right; omega
  · rintro (⟨h1, h2⟩ | h)
    · refine ⟨lo + (i - s), ⟨by omega, by omega⟩, -q, ?_⟩
      rw [Int.neg_mul]; omega
    · refine ⟨lo + (i + L - s), ⟨by omega, by omega⟩, -q - 1, ?_⟩
      have : (-q - 1) * L = -(q * L) - L := by rw [Int.sub_mul, Int.neg_mul]; omega
      omega



theorem mem_simple (p : Part) (i : Int) : (Loc.simple p).mem i = true ↔ p.lo ≤ i ∧ i < p.hi := by
  simp [Loc.mem, Loc.parts, Part.mem_iff]

theorem mem_two (a b : Part) (i : Int) :
    (Loc.compound [a, b]).mem i = true ↔ (a.lo ≤ i ∧ i < a.hi) ∨ (b.lo ≤ i ∧ i < b.hi) := by
  simp [Loc.mem, Loc.parts, Part.mem_iff]

theorem shiftedParts_simple (p : Part) (k : Int) (h1 : p.lo < p.hi) :
    shiftedParts (.simple p) k true = .ok [⟨p.lo + k, p.hi + k, p.strand⟩] := by
  have hnle : ¬ p.hi ≤ p.lo := by omega
  simp [shiftedParts, Loc.parts, hnle, pure, Except.pure, bind, Except.bind]

theorem offset_simple_ring (p : Part) (k L : Int) (hL : 0 < L) (h0 : 0 ≤ p.lo) (h1 : p.lo < p.hi) (h2 : p.hi ≤ L) :
    ∃ r, offsetLocation (.simple p) k L = .ok r ∧
      (∀ i, r.mem i = true ↔ (0 ≤ i ∧ i < L ∧ ∃ j, p.mem j = true ∧ RotOf L k i j)) ∧
      r.len = p.len ∧ r.strand = p.strand := by
  have hL0 : L ≠ 0 := by omega
  obtain ⟨q, hq, hs0, hs1⟩ := emod_shift (p.lo + k) L hL
  -- the generic membership characterisation
  have key : ∀ i, 0 ≤ i → i < L →
      ((∃ j, p.mem j = true ∧ RotOf L k i j) ↔
        (((p.lo + k) % L ≤ i ∧ i < (p.lo + k) % L + (p.hi - p.lo)) ∨ i < (p.lo + k) % L + (p.hi - p.lo) - L)) := by
    intro i hi0 hi1
    have := rot_interval p.lo p.hi k L ((p.lo + k) % L) q hL h1 (by omega) hq hs0 hs1 i hi0 hi1
    simpa only [Part.mem_iff] using this
  by_cases hk : k = 0
  · subst hk
    refine ⟨.simple p, by simp [offsetLocation, pure, Except.pure], ?_, by simp [Loc.len, Loc.parts], rfl⟩
    intro i
    rw [mem_simple]
    have hs : (p.lo + 0) % L = p.lo := by
      rw [Int.add_zero]; exact Int.emod_eq_of_lt h0 (by omega)
    constructor
    · intro h; exact ⟨by omega, by omega, (key i (by omega) (by omega)).2 (by rw [hs]; omega)⟩
    · rintro ⟨hi0, hi1, hj⟩
      have := (key i hi0 hi1).1 hj
      rw [hs] at this; omega
  · by_cases hfull : p.hi - p.lo = L
    · -- the location covers the whole record
      have hlen : (Loc.simple p).len = L := by simp [Loc.len, Loc.parts, Part.len, hfull]
      refine ⟨.simple p, by simp [offsetLocation, hL0, hk, hlen, pure, Except.pure]; omega, ?_,
        by simp [Loc.len, Loc.parts], rfl⟩
      intro i
      rw [mem_simple]
      constructor
      · intro h
        refine ⟨by omega, by omega, (key i (by omega) (by omega)).2 ?_⟩
        omega
      · rintro ⟨hi0, hi1, _⟩; omega
    · have hlen : ¬ (Loc.simple p).len = L := by simp [Loc.len, Loc.parts, Part.len]; omega
      by_cases htriv : 0 < p.lo + k ∧ p.lo + k < p.hi + k ∧ p.hi + k < L
      · -- no wrapping required
        have hs : (p.lo + k) % L = p.lo + k := Int.emod_eq_of_lt (by omega) (by omega)
        refine ⟨.simple ⟨p.lo + k, p.hi + k, p.strand⟩, ?_, ?_, by simp [Loc.len, Loc.parts, Part.len]; omega, rfl⟩
        · have hlt : ¬ L < 1 := by omega
          simp [offsetLocation, offsetTrivial, wrapParts, hL0, hk, hlen, hlt, htriv, Loc.start, Loc.end, shiftedParts_simple p k h1, rebuild,
            pure, Except.pure, bind, Except.bind]
        · intro i
          rw [mem_simple]
          constructor
          · intro h
            exact ⟨by simp at h; omega, by simp at h; omega, (key i (by simp at h; omega) (by simp at h; omega)).2 (by rw [hs]; simp at h; omega)⟩
          · rintro ⟨hi0, hi1, hj⟩
            have := (key i hi0 hi1).1 hj
            rw [hs] at this; simp; omega
      · -- the general branch: reduce modulo L, split at the origin when needed
        have hlt : ¬ L < 1 := by omega
        have hnle : ¬ p.hi ≤ p.lo := by omega
        have hlenlt : p.hi - p.lo < L := by omega
        have he : (p.hi + k - 1) % L = ((p.lo + k) % L + (p.hi - p.lo) - 1) % L := by
          have : p.hi + k - 1 = ((p.lo + k) % L + (p.hi - p.lo) - 1) + q * L := by omega
          rw [this, Int.add_mul_emod_self_right]
        by_cases hcase : (p.lo + k) % L + (p.hi - p.lo) - 1 < L
        · -- still inside the record
          have he2 : (p.hi + k - 1) % L = (p.lo + k) % L + (p.hi - p.lo) - 1 := by
            rw [he]; exact Int.emod_eq_of_lt (by omega) hcase
          refine ⟨.simple ⟨(p.lo + k) % L, (p.lo + k) % L + (p.hi - p.lo), p.strand⟩, ?_, ?_,
            by simp [Loc.len, Loc.parts, Part.len]; omega, rfl⟩
          · have ht' : ¬ ((decide (0 < p.lo + k) = true ∧ p.lo < p.hi) ∧ decide (p.hi + k < L) = true) := by
              simp only [decide_eq_true_eq]; omega
            have c1' : (p.lo + k) % L < (p.lo + k) % L + (p.hi - p.lo) := by omega
            have c2' : (p.lo + k) % L + (p.hi - p.lo) ≤ L := by omega
            have c1 : (p.lo + k) % L < (p.lo + k) % L + (p.hi - p.lo) - 1 + 1 := by omega
            have c2 : (p.lo + k) % L + (p.hi - p.lo) - 1 + 1 ≤ L := by omega
            have c3 : (p.lo + k) % L + (p.hi - p.lo) - 1 + 1 = (p.lo + k) % L + (p.hi - p.lo) := by omega
            simp [offsetLocation, offsetTrivial, wrapParts, hL0, hk, hlen, hlt, htriv, Loc.start, Loc.end, shiftedParts_simple p k h1,
              pure, Except.pure, bind, Except.bind, he2, hs0, c1, c2, c3, c1', c2', mergeAdjacent, Loc.ofParts]
            intro a _ c; exact absurd ⟨of_decide_eq_true a, by omega, of_decide_eq_true c⟩ htriv
          · intro i
            rw [mem_simple]
            constructor
            · intro h
              simp only at h
              exact ⟨by omega, by omega, (key i (by omega) (by omega)).2 (by omega)⟩
            · rintro ⟨hi0, hi1, hj⟩
              have := (key i hi0 hi1).1 hj
              simp only; omega
        · -- crosses the origin: two parts
          have he2 : (p.hi + k - 1) % L = (p.lo + k) % L + (p.hi - p.lo) - 1 - L := by
            rw [he]
            have : (p.lo + k) % L + (p.hi - p.lo) - 1 = ((p.lo + k) % L + (p.hi - p.lo) - 1 - L) + 1 * L := by omega
            rw [this, Int.add_mul_emod_self_right]
            rw [Int.emod_eq_of_lt (by omega) (by omega)]
            omega
          refine ⟨.compound [⟨(p.lo + k) % L, L, p.strand⟩, ⟨0, (p.lo + k) % L + (p.hi - p.lo) - L, p.strand⟩], ?_, ?_,
            by simp [Loc.len, Loc.parts, Part.len]; omega, by simp [Loc.strand]⟩
          · have ht' : ¬ ((decide (0 < p.lo + k) = true ∧ p.lo < p.hi) ∧ decide (p.hi + k < L) = true) := by
              simp only [decide_eq_true_eq]; omega
            have c2' : ¬ ((p.lo + k) % L + (p.hi - p.lo) ≤ L) := by omega
            have c1' : ¬ ((p.lo + k) % L < (p.lo + k) % L + (p.hi - p.lo) - L) := by omega
            have c1 : ¬ ((p.lo + k) % L < (p.lo + k) % L + (p.hi - p.lo) - 1 - L + 1) := by omega
            have c3 : (p.lo + k) % L + (p.hi - p.lo) - 1 - L + 1 = (p.lo + k) % L + (p.hi - p.lo) - L := by omega
            have c4 : 0 < (p.lo + k) % L + (p.hi - p.lo) - L := by omega
            have c5 : (p.lo + k) % L + (p.hi - p.lo) - L ≤ L := by omega
            simp [offsetLocation, offsetTrivial, wrapParts, hL0, hk, hlen, hlt, htriv, Loc.start, Loc.end, shiftedParts_simple p k h1,
              pure, Except.pure, bind, Except.bind, he2, hs0, hs1, c1, c3, c4, c5, c1', c2', mergeAdjacent, Loc.ofParts]
            intro a _ c; exact absurd ⟨of_decide_eq_true a, by omega, of_decide_eq_true c⟩ htriv
          · intro i
            rw [mem_two]
            constructor
            · intro h
              simp only at h
              exact ⟨by omega, by omega, (key i (by omega) (by omega)).2 (by omega)⟩
            · rintro ⟨hi0, hi1, hj⟩
              have := (key i hi0 hi1).1 hj
              simp only; omega




theorem extend_simple_line (p : Part) (d mx : Int) :
    extendLocation (.simple p) d mx false = .ok (.simple ⟨max 0 (p.lo - d), min (p.hi + d) mx, p.strand⟩) := by
  cases hs : p.strand <;>
  simp [extendLocation, Loc.strand, Loc.parts, hs, mergeEnds, setHead, setLast, pure, Except.pure, bind, Except.bind]

/-- on a linear record the result covers exactly the bases within the distance, clipped at both ends -/
theorem extend_simple_line_mem (p : Part) (d mx : Int) (h0 : 0 ≤ p.lo) (h1 : p.lo < p.hi) (h2 : p.hi ≤ mx) (hd : 0 ≤ d) (i : Int) :
    (Loc.simple ⟨max 0 (p.lo - d), min (p.hi + d) mx, p.strand⟩).mem i = true ↔
      (0 ≤ i ∧ i < mx ∧ ∃ j, p.mem j = true ∧ iabs (i - j) ≤ d) := by
  rw [mem_simple]
  simp only [Part.mem_iff, iabs_def]
  constructor
  · intro h
    refine ⟨by omega, by omega, ?_⟩
    by_cases hlo : i < p.lo
    · exact ⟨p.lo, ⟨by omega, by omega⟩, by split <;> omega⟩
    · by_cases hhi : i < p.hi
      · exact ⟨i, ⟨by omega, by omega⟩, by split <;> omega⟩
      · exact ⟨p.hi - 1, ⟨by omega, by omega⟩, by split <;> omega⟩
  · rintro ⟨hi0, hi1, j, ⟨hj0, hj1⟩, hij⟩
    split at hij <;> omega

end ASV
