/-
  C05: `create_candidates_from_protoclusters` returns the same ordered list for every order in which
  the protoclusters are supplied.  After fix D507 the first thing the function does is
  `_sorted_protoclusters(protoclusters)`; its pre-sort by `(product, core start, core end)` is a
  strict total order on protoclusters with distinct keys, so the pre-sorted list — and with it
  everything computed from it — does not depend on the input order.
-/
import ASV.Proofs.HybridWindow
set_option linter.unusedSectionVars false
set_option linter.unusedVariables false
namespace ASV.CC

/-! ### a stable insertion sort by a strict total order forgets the input order -/

section
variable {α : Type} [DecidableEq α]

/-- strictly ascending -/
def StrictSorted (lt : α → α → Bool) (l : List α) : Prop := l.Pairwise fun a b => lt a b = true

theorem insertBy_strict (lt : α → α → Bool)
    (htrans : ∀ a b c, lt a b = true → lt b c = true → lt a c = true)
    (x : α) (l : List α) (htot : ∀ y, y ∈ l → lt x y = true ∨ lt y x = true)
    (h : StrictSorted lt l) : StrictSorted lt (insertBy lt x l) := by
  induction l with
  | nil => simp [insertBy, StrictSorted]
  | cons y ys ih =>
    have hc := List.pairwise_cons.1 h
    simp only [insertBy]
    split
    · rename_i hyx
      refine List.pairwise_cons.2 ⟨?_, ih (fun z hz => htot z (List.mem_cons_of_mem _ hz)) hc.2⟩
      intro z hz
      rcases (mem_insertBy lt x z ys).1 hz with e | e
      · rw [e]; exact hyx
      · exact hc.1 z e
    · rename_i hyx
      have hxy : lt x y = true := by
        rcases htot y List.mem_cons_self with h1 | h1
        · exact h1
        · exact absurd h1 hyx
      refine List.pairwise_cons.2 ⟨?_, h⟩
      intro z hz
      rcases List.mem_cons.1 hz with e | e
      · rw [e]; exact hxy
      · exact htrans x y z hxy (hc.1 z e)

theorem sortBy_strict (lt : α → α → Bool)
    (htrans : ∀ a b c, lt a b = true → lt b c = true → lt a c = true)
    (l : List α) (hn : l.Nodup) (htot : ∀ a b, a ∈ l → b ∈ l → a ≠ b → lt a b = true ∨ lt b a = true) :
    StrictSorted lt (sortBy lt l) := by
  induction l with
  | nil => simp [sortBy, StrictSorted]
  | cons z zs ih =>
    have hc := List.nodup_cons.1 hn
    have : sortBy lt (z :: zs) = insertBy lt z (sortBy lt zs) := rfl
    rw [this]
    apply insertBy_strict lt htrans
    · intro y hy
      have hyz : y ∈ zs := (mem_sortBy lt y zs).1 hy
      exact htot z y List.mem_cons_self (List.mem_cons_of_mem _ hyz) (fun e => hc.1 (e ▸ hyz))
    · exact ih hc.2 (fun a b ha hb => htot a b (List.mem_cons_of_mem _ ha) (List.mem_cons_of_mem _ hb))

/-- two strictly ascending lists with the same elements are the same list -/
theorem strictSorted_perm_eq (lt : α → α → Bool) (hirr : ∀ a, lt a a = false)
    (htrans : ∀ a b c, lt a b = true → lt b c = true → lt a c = true)
    {l₁ l₂ : List α} (h₁ : StrictSorted lt l₁) (h₂ : StrictSorted lt l₂) (hp : l₁.Perm l₂) : l₁ = l₂ := by
  induction l₁ generalizing l₂ with
  | nil => exact (List.nil_perm.1 hp).symm
  | cons a as ih =>
    cases l₂ with
    | nil => exact absurd (List.perm_nil.1 hp) (by simp)
    | cons b bs =>
      have ha := List.pairwise_cons.1 h₁
      have hb := List.pairwise_cons.1 h₂
      have hab : a = b := by
        by_cases e : a = b
        · exact e
        · exfalso
          have h1 : a ∈ bs := by
            have : a ∈ b :: bs := hp.mem_iff.1 List.mem_cons_self
            rcases List.mem_cons.1 this with h | h
            · exact absurd h e
            · exact h
          have h2 : b ∈ as := by
            have : b ∈ a :: as := hp.mem_iff.2 List.mem_cons_self
            rcases List.mem_cons.1 this with h | h
            · exact absurd h.symm e
            · exact h
          have := htrans a b a (ha.1 b h2) (hb.1 a h1)
          rw [hirr a] at this; cases this
      subst hab
      rw [ih ha.2 hb.2 (List.Perm.cons_inv hp)]

theorem sortBy_perm_eq (lt : α → α → Bool) (hirr : ∀ a, lt a a = false)
    (htrans : ∀ a b c, lt a b = true → lt b c = true → lt a c = true)
    {l₁ l₂ : List α} (hn : l₁.Nodup) (htot : ∀ a b, a ∈ l₁ → b ∈ l₁ → a ≠ b → lt a b = true ∨ lt b a = true)
    (hp : l₁.Perm l₂) : sortBy lt l₁ = sortBy lt l₂ := by
  apply strictSorted_perm_eq lt hirr htrans
  · exact sortBy_strict lt htrans l₁ hn htot
  · exact sortBy_strict lt htrans l₂ (hp.nodup_iff.1 hn)
      (fun a b ha hb => htot a b (hp.mem_iff.2 ha) (hp.mem_iff.2 hb))
  · exact (perm_sortBy lt l₁).trans (hp.trans (perm_sortBy lt l₂).symm)

end

/-! ### the tie order of `_sorted_protoclusters` -/

/-- `(cluster.product, core_location.start, core_location.end)` -/
def tieKey (p : Proto) : String × Int × Int := (p.product, p.core.start, p.core.end)

theorem tieLt_irrefl (a : Proto) : tieLt a a = false := by
  simp [tieLt, String.lt_irrefl]

theorem tieLt_trans (a b c : Proto) (h1 : tieLt a b = true) (h2 : tieLt b c = true) : tieLt a c = true := by
  simp only [tieLt, Bool.or_eq_true, Bool.and_eq_true, decide_eq_true_eq, beq_iff_eq] at *
  rcases h1 with h1 | ⟨e1, h1⟩ <;> rcases h2 with h2 | ⟨e2, h2⟩
  · exact Or.inl (String.lt_trans h1 h2)
  · exact Or.inl (e2 ▸ h1)
  · exact Or.inl (e1 ▸ h2)
  · right
    refine ⟨e1.trans e2, ?_⟩
    omega

theorem tieLt_total (a b : Proto) (h : tieKey a ≠ tieKey b) : tieLt a b = true ∨ tieLt b a = true := by
  simp only [tieLt, Bool.or_eq_true, Bool.and_eq_true, decide_eq_true_eq, beq_iff_eq]
  by_cases hp : a.product = b.product
  · have : ¬ (a.core.start = b.core.start ∧ a.core.end = b.core.end) := by
      rintro ⟨e1, e2⟩
      apply h
      simp [tieKey, hp, e1, e2]
    by_cases hs : a.core.start = b.core.start
    · have he : a.core.end ≠ b.core.end := fun e => this ⟨hs, e⟩
      rcases Int.lt_or_gt_of_ne he with h1 | h1
      · exact Or.inl (Or.inr ⟨hp, Or.inr ⟨hs, h1⟩⟩)
      · exact Or.inr (Or.inr ⟨hp.symm, Or.inr ⟨hs.symm, h1⟩⟩)
    · rcases Int.lt_or_gt_of_ne hs with h1 | h1
      · exact Or.inl (Or.inr ⟨hp, Or.inl h1⟩)
      · exact Or.inr (Or.inr ⟨hp.symm, Or.inl h1⟩)
  · by_cases hlt : a.product < b.product
    · exact Or.inl (Or.inl hlt)
    · right; left
      have hle : b.product ≤ a.product := String.not_lt.1 hlt
      by_cases hlt2 : b.product < a.product
      · exact hlt2
      · exact absurd (String.le_antisymm (String.not_lt.1 hlt2) hle) hp

/-- no two protoclusters with the same product and the same core ends -/
def DistinctKeys (ps : List Proto) : Prop := ∀ a b, a ∈ ps → b ∈ ps → a ≠ b → tieKey a ≠ tieKey b

/-- `_sorted_protoclusters` gives the same list for every order of its input -/
theorem sortProtos_perm {ps qs : List Proto} (hn : ps.Nodup) (hk : DistinctKeys ps) (hp : ps.Perm qs) :
    sortProtos ps = sortProtos qs := by
  simp only [sortProtos]
  rw [sortBy_perm_eq tieLt tieLt_irrefl tieLt_trans hn
    (fun a b ha hb hab => tieLt_total a b (hk a b ha hb hab)) hp]

/-- … and so does the whole formation: same candidates, in the same order, members in the same
    order, same error if any -/
theorem formation_perm {ps qs : List Proto} (wrap : Option Int) (hn : ps.Nodup) (hk : DistinctKeys ps)
    (hp : ps.Perm qs) : formation ps wrap = formation qs wrap := by
  have hs := sortProtos_perm hn hk hp
  have he : ps.isEmpty = qs.isEmpty := by
    cases ps with
    | nil => rw [List.nil_perm.1 hp]
    | cons a as =>
      cases qs with
      | nil => exact absurd (List.perm_nil.1 hp) (by simp)
      | cons b bs => rfl
  have hc : formationCore ps wrap = formationCore qs wrap := by
    unfold formationCore
    rw [he, hs]
  unfold formation
  rw [hc, hp.length_eq]

end ASV.CC
