import ASV.Model.Continuations
import ASV.Proofs.Parser.Basic
namespace ASV.Continuations
open ASV ASV.Parser

theorem getElem?_append_lt {α} (a b : List α) (i : Nat) (h : i < a.length) : (a ++ b)[i]? = a[i]? := by
  simp [List.getElem?_append_left h]

/-- one `Parser(...)`: every list object that existed keeps its contents; the new object holds
    what parsing the text after the *value* of the given list yields -/
theorem parserRules_spec (cfg : Cfg) (st st' : Store) (ex : Option Nat) (text : String) (ref : Nat)
    (h : parserRules cfg st ex text = .ok (ref, st')) :
    ref = st.length ∧ (∀ i, i < st.length → st'[i]? = st[i]?) ∧
    ∃ given rules al, (match ex with | none => given = [] | some i => st[i]? = some given) ∧
      parseText cfg given [] text = .ok (rules, al) ∧ st'[ref]? = some rules ∧ st'.length = st.length + 1 := by
  unfold parserRules at h
  simp only [bind_ok, Prod.exists] at h
  obtain ⟨given, hg, rules, al, hp, h⟩ := h
  simp only [pure, Except.pure, Except.ok.injEq, Prod.mk.injEq] at h
  obtain ⟨rfl, rfl⟩ := h
  refine ⟨rfl, fun i hi => getElem?_append_lt _ _ i hi, given, rules, al, ?_, hp, by simp, by simp⟩
  cases ex with
  | none => simpa [pure, Except.pure] using hg.symm
  | some i =>
    simp only at hg ⊢
    cases hs : st[i]? with
    | none => rw [hs] at hg; cases hg
    | some l => rw [hs] at hg; simp [pure, Except.pure] at hg; rw [hg]

/-- any sequence of parses: list objects never change once they exist -/
theorem run_keeps (cfg : Cfg) : ∀ (steps : List (Option Nat × String)) (st : Store) (i : Nat),
    i < st.length → (run cfg steps st).2[i]? = st[i]? := by
  intro steps
  induction steps with
  | nil => intro st i _; rfl
  | cons s more ih =>
    intro st i hi
    obtain ⟨ex, text⟩ := s
    simp only [run]
    cases hp : parserRules cfg st ex text with
    | error e => simpa using ih st i hi
    | ok v =>
      obtain ⟨ref, st'⟩ := v
      obtain ⟨_, hkeep, _, _, _, _, _, _, hlen⟩ := parserRules_spec cfg st st' ex text ref hp
      simp only
      rw [ih st' i (by omega), hkeep i hi]

/-- what a parse continuing from the list object `b` hands back, read in store `st` -/
def outcome (st : Store) (o : Except Err Nat) : Except Err (List Rule) :=
  match o with
  | .ok ref => (match st[ref]? with | some l => .ok l | none => .error .attr)
  | .error e => .error e

theorem parserRules_value (cfg : Cfg) (st : Store) (b : Nat) (base : List Rule) (hb : st[b]? = some base)
    (text : String) :
    (match parserRules cfg st (some b) text with
     | .ok (ref, st') => st'[ref]? = ((parseText cfg base [] text).toOption.map (·.1)) ∧ st'[b]? = some base
         ∧ st.length < st'.length ∧ ref < st'.length
     | .error e => ∃ e', parseText cfg base [] text = .error e') := by
  cases hp : parserRules cfg st (some b) text with
  | ok v =>
    obtain ⟨ref, st'⟩ := v
    obtain ⟨hr, hkeep, given, rules, al, hg, hparse, hnew, hlen⟩ := parserRules_spec cfg st st' (some b) text ref hp
    simp only at hg
    rw [hb] at hg; cases hg
    have hbl : b < st.length := by
      rcases Nat.lt_or_ge b st.length with h | h
      · exact h
      · rw [List.getElem?_eq_none h] at hb; cases hb
    exact ⟨by rw [hnew, hparse]; rfl, by rw [hkeep b hbl, hb], by omega, by omega⟩
  | error e =>
    unfold parserRules at hp
    simp only [hb, bind, Except.bind, pure, Except.pure] at hp
    cases hq : parseText cfg base [] text with
    | error e' => exact ⟨e', rfl⟩
    | ok v => rw [hq] at hp; cases hp

/-- two continuations of the same base, one after the other: the second gives exactly what the text
    gives after the base rules — whatever the first continuation defined or whether it failed — and
    the base list still holds the base rules -/
theorem two_branches (cfg : Cfg) (st : Store) (b : Nat) (base : List Rule) (hb : st[b]? = some base) (x y : String) :
    ∃ ox oy fin, run cfg [(some b, x), (some b, y)] st = ([ox, oy], fin) ∧ fin[b]? = some base ∧
      (outcome fin oy).toOption = (parseText cfg base [] y).toOption.map (·.1) ∧
      (outcome fin ox).toOption = (parseText cfg base [] x).toOption.map (·.1) := by
  have hx := parserRules_value cfg st b base hb x
  simp only [run]
  cases hpx : parserRules cfg st (some b) x with
  | error e =>
    rw [hpx] at hx
    obtain ⟨e', he'⟩ := hx
    have hy := parserRules_value cfg st b base hb y
    cases hpy : parserRules cfg st (some b) y with
    | error e2 =>
      rw [hpy] at hy; obtain ⟨e2', he2⟩ := hy
      exact ⟨.error e, .error e2, st, rfl, hb, by simp [outcome, he2, Except.toOption], by simp [outcome, he', Except.toOption]⟩
    | ok v =>
      obtain ⟨ry, sty⟩ := v
      rw [hpy] at hy
      obtain ⟨h1, h2, _, _⟩ := hy
      refine ⟨.error e, .ok ry, sty, rfl, h2, ?_, by simp [outcome, he', Except.toOption]⟩
      simp only [outcome]
      rw [h1]
      cases parseText cfg base [] y <;> simp [Except.toOption]
  | ok vx =>
    obtain ⟨rx, stx⟩ := vx
    rw [hpx] at hx
    obtain ⟨hx1, hx2, hxl, hxr⟩ := hx
    have hy := parserRules_value cfg stx b base hx2 y
    cases hpy : parserRules cfg stx (some b) y with
    | error e2 =>
      rw [hpy] at hy; obtain ⟨e2', he2⟩ := hy
      refine ⟨.ok rx, .error e2, stx, by simp [hpy], hx2, by simp [outcome, he2, Except.toOption], ?_⟩
      simp only [outcome]
      rw [hx1]
      cases parseText cfg base [] x <;> simp [Except.toOption]
    | ok v =>
      obtain ⟨ry, sty⟩ := v
      rw [hpy] at hy
      obtain ⟨h1, h2, hyl, _⟩ := hy
      have hkeep : sty[rx]? = stx[rx]? := by
        obtain ⟨_, hk, _⟩ := parserRules_spec cfg stx sty (some b) y ry hpy
        exact hk rx hxr
      refine ⟨.ok rx, .ok ry, sty, by simp [hpy], h2, ?_, ?_⟩
      · simp only [outcome]; rw [h1]
        cases parseText cfg base [] y <;> simp [Except.toOption]
      · simp only [outcome]; rw [hkeep, hx1]
        cases parseText cfg base [] x <;> simp [Except.toOption]

end ASV.Continuations
