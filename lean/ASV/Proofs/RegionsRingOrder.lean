/-
  C06 helper lemmas, part 16: `CDSCollection.__lt__` on the well-formed areas of a ring never raises and is the
  strict order of (first base going round from the origin, longer first), outside the recorded full-record class.
-/
import ASV.Proofs.RegionsRingUnion
namespace ASV.Regions
open ASV ASV.Components

theorem comparatorStart_areaTwo (x y L : Int) (hy0 : 0 < y) (hyx : y ≤ x) (hxL : x < L) :
    comparatorStart (areaTwo x y L .fwd) = .ok (x - L) := by
  have hb : bridgesOrigin (.compound [⟨x, L, .fwd⟩, ⟨0, y, .fwd⟩]) = true := bridges_areaTwo x y L .fwd (by decide) hy0 hyx
  have hsb := splitBridging_two x y L .fwd (by decide) hy0 hyx hxL
  show comparatorStart (.compound [⟨x, L, .fwd⟩, ⟨0, y, .fwd⟩]) = _
  simp only [comparatorStart, hb, if_true, hsb, bind, Except.bind, pure, Except.pure, List.map, minList, maxList, List.foldl]

theorem comparatorStart_line {L : Int} {l : Loc} (h : LineArea L l) : comparatorStart l = .ok l.start := by
  obtain ⟨p, rfl, _⟩ := h
  simp [comparatorStart, bridgesOrigin, pure, Except.pure]

/-- the sort key of a well-formed area of a ring: first base going round from the origin (an origin-spanning area
    starts before it), longer first -/
def ringKey (L : Int) (l : Loc) : Int × Int := orderKey L l

theorem ringKey_line {L : Int} {l : Loc} (h : LineArea L l) : ringKey L l = (l.start, -l.len) := by
  obtain ⟨p, rfl, _⟩ := h
  simp [ringKey, orderKey, firstBase, Loc.parts]

theorem ringKey_two (x y L : Int) (hy0 : 0 < y) (hyx : y ≤ x) :
    ringKey L (areaTwo x y L .fwd) = (x - L, -(L - x + y)) := by
  have hx : x > 0 := by omega
  simp [ringKey, orderKey, firstBase, areaTwo, Loc.parts, Loc.len, Part.len, hx]

/-- `CDSCollection.__lt__` on well-formed areas of a ring never raises and is the strict order of the key, unless
    the first is a single part covering the whole record (the recorded class `fullRecordClash`) -/
theorem collectionLt_ring {L : Int} {a b : Loc} (ha : RingArea L a) (hb : RingArea L b)
    (hfull : ∀ p, a = .simple p → ¬ (p.lo = 0 ∧ p.hi = L)) :
    collectionLt a b = .ok (keyLt (ringKey L a) (ringKey L b)) := by
  rcases ha with ha | ⟨x, y, rfl, hy0, hyx, hxL⟩ <;> rcases hb with hb | ⟨x', y', rfl, hy0', hyx', hxL'⟩
  · rw [collectionLt_line ha hb, ringKey_line ha, ringKey_line hb]; rfl
  · -- single part against an origin-spanning one
    obtain ⟨p, rfl, h0, h1, h2⟩ := ha
    have hnf := hfull p rfl
    have hc : locationContainsOther (.simple p) (areaTwo x' y' L .fwd) = false := by
      simp only [locationContainsOther, areaTwo, Loc.parts, List.all_cons, List.all_nil, List.any_cons, List.any_nil,
        partContains, Bool.or_false, Bool.and_true, Bool.and_eq_false_iff, decide_eq_false_iff_not]
      omega
    rw [ringKey_line ⟨p, rfl, h0, h1, h2⟩, ringKey_two x' y' L hy0' hyx']
    simp only [collectionLt, hc, Bool.false_and, Bool.false_eq_true, if_false, comparatorStart_line ⟨p, rfl, h0, h1, h2⟩,
      comparatorStart_areaTwo x' y' L hy0' hyx' hxL', bind, Except.bind, pure, Except.pure]
    have hk : keyLt ((Loc.simple p).start, -(Loc.simple p).len) (x' - L, -(L - x' + y')) = false := by
      rw [keyLt_false_iff]; simp only [Loc.start]; omega
    rw [hk]
    have h1 : ¬ p.lo < x' - L := by omega
    have h2 : ¬ p.lo = x' - L := by omega
    simp [Loc.start, h1, h2]
  · -- origin-spanning against a single part
    obtain ⟨q, rfl, h0, h1, h2⟩ := hb
    rw [ringKey_line ⟨q, rfl, h0, h1, h2⟩, ringKey_two x y L hy0 hyx]
    have hk : keyLt (x - L, -(L - x + y)) ((Loc.simple q).start, -(Loc.simple q).len) = true := by
      rw [keyLt_iff]; simp only [Loc.start]; omega
    rw [hk]
    simp only [collectionLt, comparatorStart_line ⟨q, rfl, h0, h1, h2⟩, comparatorStart_areaTwo x y L hy0 hyx hxL,
      bind, Except.bind, pure, Except.pure]
    split
    · rfl
    · have h1 : x - L < q.lo := by omega
      simp [Loc.start, h1]
  · -- two origin-spanning areas
    rw [ringKey_two x y L hy0 hyx, ringKey_two x' y' L hy0' hyx']
    have hc1 : locationContainsOther (areaTwo x y L .fwd) (areaTwo x' y' L .fwd) = (decide (x ≤ x') && decide (y' ≤ y)) := by
      rw [Bool.eq_iff_iff]
      simp only [locationContainsOther, areaTwo, Loc.parts, List.all_cons, List.all_nil, List.any_cons, List.any_nil,
        partContains, Bool.or_false, Bool.and_true, Bool.and_eq_true, Bool.or_eq_true, decide_eq_true_eq]
      omega
    have hc2 : locationContainsOther (areaTwo x' y' L .fwd) (areaTwo x y L .fwd) = (decide (x' ≤ x) && decide (y ≤ y')) := by
      rw [Bool.eq_iff_iff]
      simp only [locationContainsOther, areaTwo, Loc.parts, List.all_cons, List.all_nil, List.any_cons, List.any_nil,
        partContains, Bool.or_false, Bool.and_true, Bool.and_eq_true, Bool.or_eq_true, decide_eq_true_eq]
      omega
    have hlen1 : (areaTwo x y L .fwd).len = L - x + y := by simp [Loc.len, areaTwo, Loc.parts, Part.len]
    have hlen2 : (areaTwo x' y' L .fwd).len = L - x' + y' := by simp [Loc.len, areaTwo, Loc.parts, Part.len]
    simp only [collectionLt, hc1, hc2, comparatorStart_areaTwo x y L hy0 hyx hxL,
      comparatorStart_areaTwo x' y' L hy0' hyx' hxL', bind, Except.bind, pure, Except.pure, hlen1, hlen2]
    by_cases hcase : (x ≤ x' ∧ y' ≤ y) ∧ ¬ (x' ≤ x ∧ y ≤ y')
    · have hk : keyLt (x - L, -(L - x + y)) (x' - L, -(L - x' + y')) = true := by
        rw [keyLt_iff]; simp only; omega
      rw [hk]
      have : ((decide (x ≤ x') && decide (y' ≤ y)) && !(decide (x' ≤ x) && decide (y ≤ y'))) = true := by
        simp only [Bool.and_eq_true, decide_eq_true_eq, Bool.not_eq_true', Bool.and_eq_false_iff, decide_eq_false_iff_not]
        omega
      rw [if_pos this]
    · have : ¬ ((decide (x ≤ x') && decide (y' ≤ y)) && !(decide (x' ≤ x) && decide (y ≤ y'))) = true := by
        simp only [Bool.and_eq_true, decide_eq_true_eq, Bool.not_eq_true', Bool.and_eq_false_iff, decide_eq_false_iff_not]
        omega
      rw [if_neg this]
      congr 1

end ASV.Regions
