/-
  C03: `merge_over_origin` leaves the protoclusters of a rule alone when their cores are single spans of a
  wide arc of a ring that are at least the cutoff apart.
-/
import ASV.Proofs.ProtoRingWide
namespace ASV.Proto
open ASV ASV.ChainSweep ASV.Chains

/-- every part of the widened single-part core is non-empty (any strand) -/
theorem extSimpleRing_partsNonEmpty (p : Part) (d L : Int) (h0 : 0 ≤ p.lo) (h1 : p.lo < p.hi) (h2 : p.hi ≤ L)
    (hd : 0 ≤ d) (hdL : d ≤ L) : (extSimpleRing p d L).PartsNonEmpty := by
  intro q hq
  unfold extSimpleRing at hq
  by_cases hW : p.lo - d < 0 ∧ p.lo - d + L ≤ p.hi + d
  · rw [if_pos hW] at hq; simp [Loc.parts] at hq; subst hq; simp only; omega
  · rw [if_neg hW] at hq
    by_cases hA : p.lo - d < 0
    · rw [if_pos hA] at hq
      by_cases hr : (p.strand == Strand.rev) = true
      · simp [hr, Loc.parts] at hq; rcases hq with rfl | rfl <;> simp only <;> omega
      · simp [hr, Loc.parts] at hq; rcases hq with rfl | rfl <;> simp only <;> omega
    · rw [if_neg hA] at hq
      by_cases hB : p.hi + d > L
      · rw [if_pos hB] at hq
        by_cases hC : p.hi + d - L > p.lo - d
        · rw [if_pos hC] at hq; simp [Loc.parts] at hq; subst hq; simp only; omega
        · rw [if_neg hC] at hq
          by_cases hr : (p.strand == Strand.rev) = true
          · simp [hr, Loc.parts] at hq; rcases hq with rfl | rfl <;> simp only <;> omega
          · simp [hr, Loc.parts] at hq; rcases hq with rfl | rfl <;> simp only <;> omega
      · rw [if_neg hB] at hq; simp [Loc.parts] at hq; subst hq; simp only; omega

/-- two single-part cores of a wide arc that are at least `c` apart: neither shares a base with the other
    widened by `c` -/
theorem noOverlap_of_apart (L c A B : Int) (harc : WideArc L c A B) (p q : Part)
    (hp0 : A ≤ p.lo) (hp1 : p.lo < p.hi) (hp2 : p.hi ≤ B) (hq0 : A ≤ q.lo) (hq1 : q.lo < q.hi) (hq2 : q.hi ≤ B)
    (hapart : p.hi + c ≤ q.lo ∨ q.hi + c ≤ p.lo) :
    locationsOverlap (.simple q) (extSimpleRing p c L) = false := by
  have hc := harc.cpos; have hlo := harc.lo; have hhi := harc.hi; have hroom := harc.room
  cases hov : locationsOverlap (.simple q) (extSimpleRing p c L) with
  | false => rfl
  | true =>
    exfalso
    have hne := extSimpleRing_partsNonEmpty p c L (by omega) hp1 (by omega) hc (by omega)
    have hqne : (Loc.simple q).PartsNonEmpty := by intro x hx; simp [Loc.parts] at hx; subst hx; exact hq1
    obtain ⟨i, hi, hW⟩ := (locationsOverlap_iff _ _ hqne hne).1 hov
    rw [extSimpleRing_mem p c L (by omega) hp1 (by omega) hc i] at hW
    obtain ⟨_, _, j, hj, hr⟩ := hW
    simp only [Part.mem_iff] at hj
    simp only [Loc.mem, Loc.parts, List.any_cons, List.any_nil, Bool.or_false, Part.mem_iff] at hi
    simp only [ringAbs, iabs_def] at hr
    split at hr <;> omega

/-! ### the merge loop does nothing when nothing is within reach -/

theorem mergeStep_none_of (r : Rec) (rules : List RuleM) (c : Int) : ∀ (group : List (PC × Loc)),
    group.Pairwise (fun a b => locationsOverlap b.1.core a.2 = false) → mergeStep r rules c group = .ok none := by
  intro group
  induction group with
  | nil => intro _; rfl
  | cons fe rest ih =>
    obtain ⟨first, ext⟩ := fe
    intro h
    rw [List.pairwise_cons] at h
    have hf : rest.findIdx? (fun x => locationsOverlap x.1.core ext) = none :=
      List.findIdx?_eq_none_iff.2 (fun x hx => h.1 x hx)
    simp only [mergeStep, hf, ih h.2, bind, Except.bind, pure, Except.pure]

theorem mergeFix_id (r : Rec) (rules : List RuleM) (c : Int) (fuel : Nat) (group : List (PC × Loc))
    (h : group.Pairwise (fun a b => locationsOverlap b.1.core a.2 = false)) :
    mergeFix r rules c fuel group = .ok group := by
  cases fuel with
  | zero => rfl
  | succ n => simp only [mergeFix, mergeStep_none_of r rules c group h, bind, Except.bind, pure, Except.pure]

theorem eraseDups_const (a : String) : ∀ (l : List String), (∀ x ∈ l, x = a) → (a :: l).eraseDups = [a] := by
  intro l h
  rw [List.eraseDups_cons]
  have : l.filter (fun b => !b == a) = [] := by
    rw [List.filter_eq_nil_iff]
    intro x hx; simp [h x hx]
  rw [this]
  simp [List.eraseDups, List.eraseDupsBy, List.eraseDupsBy.loop]

/-- a protocluster of rule `name` whose core is a single span inside `[A, B)` -/
def CoreIn (A B : Int) (name : String) (pc : PC) : Prop :=
  pc.rule = name ∧ ∃ p, pc.core = .simple p ∧ A ≤ p.lo ∧ p.lo < p.hi ∧ p.hi ≤ B

/-- **`merge_over_origin` is the identity (up to its sorting) on separated single-span cores of a wide arc** -/
theorem mergeOverOrigin_id_wide (r : Rec) (hcirc : r.circular = true) (rules : List RuleM) (rule : RuleM)
    (hfind : findRule rules rule.name = .ok rule) (A B : Int) (harc : WideArc r.len rule.cutoff A B)
    (pcs : List PC) (hin : ∀ pc ∈ pcs, CoreIn A B rule.name pc)
    (hapart : pcs.Pairwise (fun a b => a.core.end + rule.cutoff ≤ b.core.start ∨ b.core.end + rule.cutoff ≤ a.core.start)) :
    ∃ merged, mergeOverOrigin r rules pcs = .ok merged ∧ merged.Perm pcs := by
  have hc := harc.cpos; have hlo := harc.lo; have hhi := harc.hi; have hroom := harc.room
  -- the cutoff-widened cores
  let ext : PC → Loc := fun pc => match pc.core with
    | .simple p => extSimpleRing p rule.cutoff r.len
    | c => c
  have hw : pcs.mapM (fun pc => do
      let rule' ← findRule rules pc.rule
      let e ← extendLocation pc.core rule'.cutoff r.len r.circular
      pure (pc, e)) = .ok (pcs.map fun pc => (pc, ext pc)) := by
    apply mapM_ok_map_of_forall
    intro pc hpc
    obtain ⟨hr, p, hp, h0, h1, h2⟩ := hin pc hpc
    have hL : 0 < r.len := harc.Lpos (by omega)
    simp only [hr, hfind, hp, hcirc, extend_simple_ring_eq p rule.cutoff r.len (by omega) h1 (by omega) hc (by omega),
      bind, Except.bind, pure, Except.pure, ext]
  -- no later entry is within reach of an earlier one, in either direction
  have hsym : (pcs.map fun pc => (pc, ext pc)).Pairwise
      (fun a b => locationsOverlap b.1.core a.2 = false ∧ locationsOverlap a.1.core b.2 = false) := by
    rw [List.pairwise_map]
    refine List.Pairwise.imp_of_mem ?_ hapart
    intro a b ha hb hab
    obtain ⟨_, p, hp, p0, p1, p2⟩ := hin a ha
    obtain ⟨_, q, hq, q0, q1, q2⟩ := hin b hb
    simp only [hp, hq, Loc.start, Loc.end] at hab
    simp only [ext, hp, hq]
    exact ⟨noOverlap_of_apart r.len rule.cutoff A B harc p q p0 p1 p2 q0 q1 q2 hab,
           noOverlap_of_apart r.len rule.cutoff A B harc q p q0 q1 q2 p0 p1 p2 (by omega)⟩
  cases pcs with
  | nil => exact ⟨[], by simp [mergeOverOrigin, List.eraseDups, List.eraseDupsBy, List.eraseDupsBy.loop, pure, Except.pure, bind, Except.bind], List.Perm.refl _⟩
  | cons pc0 rest =>
    have hprod : ((pc0 :: rest).map (·.rule)).eraseDups = [rule.name] := by
      have h0 := (hin pc0 (by simp)).1
      simp only [List.map_cons, h0]
      apply eraseDups_const
      intro x hx
      obtain ⟨pc, hpc, rfl⟩ := List.mem_map.1 hx
      exact (hin pc (by simp [hpc])).1
    have hfilter : ((pc0 :: rest).map fun pc => (pc, ext pc)).filter (fun x => x.1.rule == rule.name) =
        (pc0 :: rest).map fun pc => (pc, ext pc) := by
      apply filter_all_true
      intro x hx
      obtain ⟨pc, hpc, rfl⟩ := List.mem_map.1 hx
      simp [(hin pc hpc).1]
    have hsorted : (sortByStart ((pc0 :: rest).map fun pc => (pc, ext pc))).Pairwise
        (fun a b => locationsOverlap b.1.core a.2 = false) := by
      have := (List.Perm.pairwise_iff (R := fun (a b : PC × Loc) =>
          locationsOverlap b.1.core a.2 = false ∧ locationsOverlap a.1.core b.2 = false)
        (fun {x y} h => ⟨h.2, h.1⟩) (sortByStart_perm ((pc0 :: rest).map fun pc => (pc, ext pc)))).2 hsym
      exact this.imp (fun h => h.1)
    unfold mergeOverOrigin
    rw [hw]
    simp only [bind, Except.bind, hprod, List.mapM_cons, List.mapM_nil, hfilter, hfind, pure, Except.pure]
    by_cases hlen : ((pc0 :: rest).map fun pc => (pc, ext pc)).length < 2
    · simp only [hlen, if_true]
      refine ⟨_, rfl, ?_⟩
      simp [List.map_map, Function.comp_def]
    · simp only [hlen, if_false, mergeFix_id r rules rule.cutoff _ _ hsorted]
      refine ⟨_, rfl, ?_⟩
      simp only [List.flatten_cons, List.flatten_nil, List.append_nil]
      have := (sortByStart_perm ((pc0 :: rest).map fun pc => (pc, ext pc))).map (·.1)
      simpa [List.map_map, Function.comp_def] using this

theorem mapM_ok_map_inv {α β : Type} (f : α → E β) (g : β → α) (hfg : ∀ a b, f a = .ok b → g b = a) :
    ∀ (l : List α) (out : List β), l.mapM f = .ok out → out.map g = l := by
  intro l
  induction l with
  | nil => intro out h; simp only [List.mapM_nil, pure, Except.pure, Except.ok.injEq] at h; subst h; rfl
  | cons a l ih =>
    intro out h
    simp only [List.mapM_cons, bind, Except.bind, pure, Except.pure] at h
    cases hfa : f a with
    | error e => simp [hfa] at h
    | ok b =>
      simp only [hfa] at h
      cases hrest : l.mapM f with
      | error e => simp [hrest] at h
      | ok bs =>
        simp only [hrest, Except.ok.injEq] at h
        subst h
        simp [hfg a b hfa, ih bs hrest]

/-- the cores of the protoclusters `clustersOfRule` returns are the cores `findCores` returns, in order -/
theorem clustersOfRule_cores (r : Rec) (rule : RuleM) (anchors : List Rules.Gene) (pcs : List PC)
    (h : clustersOfRule r rule anchors = .ok pcs) :
    findCores r rule.cutoff ((r.genes.filter fun g => anchors.contains g.id).map (·.loc)) = .ok (pcs.map (·.core)) := by
  replace h : (findCores r rule.cutoff ((r.genes.filter fun g => anchors.contains g.id).map (·.loc)) >>= fun cores =>
      cores.mapM (fun core => do
        let surrounds ← extendArea r core rule.nbhd true
        mkPC rule.name core surrounds)) = .ok pcs := h
  cases hc : findCores r rule.cutoff ((r.genes.filter fun g => anchors.contains g.id).map (·.loc)) with
  | error e => rw [hc] at h; cases h
  | ok cores =>
    rw [hc] at h
    replace h : cores.mapM (fun core => do
        let surrounds ← extendArea r core rule.nbhd true
        mkPC rule.name core surrounds) = .ok pcs := h
    rw [mapM_ok_map_inv _ (·.core) ?_ cores pcs h]
    intro core pc hf
    cases he : extendArea r core rule.nbhd true with
    | error e => simp [he, bind, Except.bind] at hf
    | ok s =>
      simp only [he, bind, Except.bind] at hf
      have := mkPC_ok hf
      subst this; rfl

theorem Paired.forall_left {α β : Type} {R : α → β → Prop} : ∀ {l1 : List α} {l2 : List β}, Paired R l1 l2 →
    ∀ a ∈ l1, ∃ b ∈ l2, R a b
  | _, _, .nil => by intro a ha; cases ha
  | _, _, .cons hab t => by
    intro a ha
    simp only [List.mem_cons] at ha
    rcases ha with rfl | ha
    · exact ⟨_, by simp, hab⟩
    · obtain ⟨b, hb, hr⟩ := Paired.forall_left t a ha
      exact ⟨b, by simp [hb], hr⟩

end ASV.Proto
