/-
  C14 helper lemmas, part 5: `build_modules_for_cds`.
  The loop invariant `BInv` carries: the state invariant of the module under construction, the
  justification of its pending look-ahead acceptance, the *simulation* statement (replaying the
  components collected so far, with anything behind them that agrees with the real upcoming
  components on the pending labels, reproduces the module under construction), soundness of the
  finished modules, the partition equation and the first-in-gene flags.
-/
import ASV.Proofs.ModulesReplay
namespace ASV.Modules
open T Spec

/-- `Module.from_json(m.to_json())` on the component level -/
def Reloadable (m : Module) : Prop := replayGo (Module.new m.firstInCds) m.components = .ok m

/-- a module as `build`/`combine` produce them -/
structure Sound (m : Module) : Prop where
  reload : Reloadable m
  noIgn : ∀ c ∈ m.components, c.isIgnored = false

theorem Sound.facts {m : Module} (h : Sound m) :
    StateInv m ∧ m.unambiguous = 0 ∧ layout m.components = true := by
  have hr := h.reload
  unfold Reloadable at hr
  rw [← runPre_nil] at hr
  obtain ⟨a, _, _, d, e⟩ := runPre_ok (cs := m.components) [] (StateInv.new _)
    (PendOK.zero rfl _) h.noIgn m hr
  refine ⟨a, d.nil, ?_⟩
  rw [layoutFromX_nil] at e
  exact e

def notIgnored (c : Comp) : Bool := !c.isIgnored

structure BInv (all : List Comp) (done : List Module) (cur : Module) (nxt : List Comp) : Prop where
  inv : StateInv cur
  pend : PendOK cur nxt
  sim : ∀ ext, (nxt.take cur.unambiguous).map (·.label) = (ext.take cur.unambiguous).map (·.label) →
          runPre (Module.new cur.firstInCds) cur.components ext = .ok cur
  doneSound : ∀ m ∈ done, Sound m ∧ m.components ≠ []
  part : (done ++ [cur]).flatMap (·.components) ++ nxt.filter notIgnored = all.filter notIgnored
  firsts : ∃ m ms, done ++ [cur] = m :: ms ∧ m.firstInCds = true ∧ ∀ x ∈ ms, x.firstInCds = false

theorem BInv.init (all : List Comp) : BInv all [] (Module.new true) all := by
  constructor
  · exact StateInv.new _
  · exact PendOK.zero rfl _
  · intro ext _; rfl
  · intro m hm; cases hm
  · simp [Module.new]
  · exact ⟨_, [], rfl, rfl, by simp⟩

/-- closing the module under construction (no acceptance pending) -/
theorem BInv.close {all done cur nxt} (h : BInv all done cur nxt) (h0 : cur.unambiguous = 0) : Sound cur := by
  constructor
  · unfold Reloadable; rw [← runPre_nil]
    apply h.sim; rw [h0]; rfl
  · exact h.inv.noIgn

theorem firsts_snoc {done : List Module} {cur : Module} {x : Module}
    (h : ∃ m ms, done ++ [cur] = m :: ms ∧ m.firstInCds = true ∧ ∀ x ∈ ms, x.firstInCds = false)
    (hx : x.firstInCds = false) :
    ∃ m ms, (done ++ [cur]) ++ [x] = m :: ms ∧ m.firstInCds = true ∧ ∀ x ∈ ms, x.firstInCds = false := by
  obtain ⟨m, ms, e, a, b⟩ := h
  refine ⟨m, ms ++ [x], by rw [e]; rfl, a, ?_⟩
  intro y hy
  rcases List.mem_append.mp hy with hy | hy
  · exact b y hy
  · simp at hy; rw [hy]; exact hx

theorem firsts_replace {done : List Module} {cur cur2 : Module}
    (h : ∃ m ms, done ++ [cur] = m :: ms ∧ m.firstInCds = true ∧ ∀ x ∈ ms, x.firstInCds = false)
    (hx : cur2.firstInCds = cur.firstInCds) :
    ∃ m ms, done ++ [cur2] = m :: ms ∧ m.firstInCds = true ∧ ∀ x ∈ ms, x.firstInCds = false := by
  obtain ⟨m, ms, e, a, b⟩ := h
  cases done with
  | nil =>
    simp at e; obtain ⟨e1, e2⟩ := e; subst e1; subst e2
    exact ⟨cur2, [], rfl, by rw [hx]; exact a, by simp⟩
  | cons d ds =>
    simp at e; obtain ⟨e1, e2⟩ := e; subst e1
    refine ⟨d, ds ++ [cur2], rfl, a, ?_⟩
    intro y hy
    rcases List.mem_append.mp hy with hy | hy
    · exact b y (by rw [← e2]; exact List.mem_append_left _ hy)
    · simp at hy; rw [hy, hx]; exact b cur (by rw [← e2]; simp)

/-- an explicit starter closes the current (non-empty) module and opens a fresh one -/
theorem BInv.fresh {all done cur c rest} (h : BInv all done cur (c :: rest))
    (hs : c.isStarter = true) (hne : cur.components ≠ []) :
    BInv all (done ++ [cur]) (Module.new false) (c :: rest) := by
  have h0 : cur.unambiguous = 0 := by
    by_cases h0 : cur.unambiguous > 0
    · have := h.pend.head h0
      rw [isStarter_eq, this] at hs; cases hs
    · omega
  constructor
  · exact StateInv.new _
  · exact PendOK.zero rfl _
  · intro ext _; rfl
  · intro m hm
    rcases List.mem_append.mp hm with hm | hm
    · exact h.doneSound m hm
    · simp at hm; subst hm; exact ⟨h.close h0, hne⟩
  · have := h.part
    simp only [List.flatMap_append, List.flatMap_cons, List.flatMap_nil, List.append_nil, Module.new] at this ⊢
    exact this
  · exact firsts_snoc h.firsts rfl

theorem filter_notIgnored_cons_ign {c : Comp} (rest : List Comp) (h : c.isIgnored = true) :
    (c :: rest).filter notIgnored = rest.filter notIgnored := by
  simp [List.filter_cons, notIgnored, h]

theorem filter_notIgnored_cons {c : Comp} (rest : List Comp) (h : c.isIgnored = false) :
    (c :: rest).filter notIgnored = c :: rest.filter notIgnored := by
  simp [List.filter_cons, notIgnored, h]

/-- the `try: add_component(...) except IncompatibleComponentError: new module` part of one
    iteration -/
theorem BInv.step {all done cur c rest} (h : BInv all done cur (c :: rest)) :
    (∃ cur2, addComponent cur c (rest.take 2) = .ok cur2 ∧ BInv all done cur2 rest)
    ∨ (addComponent cur c (rest.take 2) = .error .incompatible ∧
        ∃ cur2, addComponent (Module.new false) c [] = .ok cur2 ∧ BInv all (done ++ [cur]) cur2 rest) := by
  rcases add_cases (rest.take 2) h.inv h.pend.head with ⟨hk, h1⟩ | ⟨hk, hr⟩
  · -- a docking domain: nothing happens
    left
    have hci : c.isIgnored = true := by rw [isIgnored_eq, hk]; rfl
    have h0 : cur.unambiguous = 0 := by
      by_cases h0 : cur.unambiguous > 0
      · have := h.pend.head h0; rw [hk] at this; cases this
      · omega
    refine ⟨cur, h1, ?_⟩
    constructor
    · exact h.inv
    · exact PendOK.zero h0 _
    · intro ext _; apply h.sim; rw [h0]; rfl
    · exact h.doneSound
    · rw [← h.part, filter_notIgnored_cons_ign rest hci]
    · exact h.firsts
  · have hci : c.isIgnored = false := by
      cases hk' : kindOf c <;> simp [hk'] at hk <;> rw [isIgnored_eq, hk'] <;> rfl
    rcases hr with ⟨he, h0, hne⟩ | ⟨cur2, h1, hs⟩
    · -- refused: the component starts a new module
      right
      refine ⟨he, ?_⟩
      rcases add_cases (c := c) [] (StateInv.new false) (fun h => by simp [Module.new] at h) with ⟨hk2, _⟩ | ⟨_, hr2⟩
      · exact absurd hk2 hk
      · rcases hr2 with ⟨_, _, hne2⟩ | ⟨cur2, h2, hs2⟩
        · exact absurd rfl hne2
        · refine ⟨cur2, h2, ?_⟩
          have hcomps : cur2.components = [c] := by rw [hs2.comps]; rfl
          have hfirst : cur2.firstInCds = false := by rw [hs2.first]; rfl
          constructor
          · exact hs2.inv
          · exact pend_step (PendOK.zero rfl _) hs2 (fun hc => by simp [Module.new] at hc)
          · intro ext _
            rw [hcomps, hfirst]
            simp only [runPre, List.nil_append]
            rw [add_la_indep (la' := []) (fun hc => by simp [Module.new] at hc), h2]
          · intro m hm
            rcases List.mem_append.mp hm with hm | hm
            · exact h.doneSound m hm
            · simp at hm; subst hm; exact ⟨h.close h0, hne⟩
          · have := h.part
            rw [filter_notIgnored_cons rest hci] at this
            rw [← this]
            simp [List.flatMap_append, hcomps]
          · exact firsts_snoc h.firsts hfirst
    · -- accepted
      left
      refine ⟨cur2, h1, ?_⟩
      have hP2 : PendOK cur2 rest :=
        pend_step h.pend hs (fun _ => by rw [List.take_take]; simp)
      constructor
      · exact hs.inv
      · exact hP2
      · intro ext hag
        rw [hs.comps, hs.first, runPre_snoc]
        have hu := hs.unamb
        have hfirst : runPre (Module.new cur.firstInCds) cur.components (c :: ext) = .ok cur := by
          apply h.sim
          by_cases h0 : cur.unambiguous > 0
          · rw [if_pos h0] at hu
            have : cur.unambiguous = cur2.unambiguous + 1 := by omega
            rw [this, List.take_succ_cons, List.take_succ_cons, List.map_cons, List.map_cons, hag]
          · have : cur.unambiguous = 0 := by omega
            rw [this]; rfl
        rw [hfirst]
        show addComponent cur c ext = .ok cur2
        rw [← h1]
        apply add_la_indep
        intro hC hcp
        by_cases h0 : cur.unambiguous > 0
        · have := h.pend.head h0
          rw [isCarrierProtein_eq, this] at hcp; cases hcp
        · rw [if_neg h0, hcp, hC] at hu
          simp at hu
          rw [hu] at hag
          rw [List.take_take]; simp
          rw [← List.map_take, ← List.map_take]
          exact hag.symm
      · exact h.doneSound
      · have := h.part
        rw [filter_notIgnored_cons rest hci] at this
        rw [← this]
        simp [List.flatMap_append, hs.comps]
      · exact firsts_replace h.firsts hs.first

/-- the whole loop -/
theorem buildGo_spec (all : List Comp) : ∀ (nxt : List Comp) (done : List Module) (cur : Module),
    BInv all done cur nxt →
    ∃ done' cur', buildGo nxt done cur = .ok (done', cur') ∧ BInv all done' cur' [] := by
  intro nxt
  induction nxt with
  | nil => intro done cur h; exact ⟨done, cur, rfl, h⟩
  | cons c rest ih =>
    intro done cur h
    simp only [buildGo]
    cases hf : (c.isStarter && !c.isLoader && !cur.isEmpty) with
    | false =>
      simp only [Bool.false_eq_true, if_false]
      rcases h.step with ⟨cur2, h1, h2⟩ | ⟨he, cur2, h1, h2⟩
      · rw [h1]; exact ih done cur2 h2
      · rw [he]; simp only [h1]; exact ih _ cur2 h2
    | true =>
      simp only [if_true]
      simp at hf
      have hne : cur.components ≠ [] := by
        intro hc; have := hf.2; simp [Module.isEmpty, hc] at this
      have h' := h.fresh hf.1.1 hne
      rcases h'.step with ⟨cur2, h1, h2⟩ | ⟨he, cur2, h1, h2⟩
      · rw [h1]; exact ih _ cur2 h2
      · rw [he]; simp only [h1]; exact ih _ cur2 h2

end ASV.Modules
