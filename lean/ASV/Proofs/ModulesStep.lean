/-
  C14 helper lemmas, part 2: one `add_component` step.
  `StateInv m` says that every slot of the module state is the corresponding *spec* function of
  its component list; one step preserves it, never reaches an assertion, and is accepted only
  if the documented layout allows the component at that position.
-/
import ASV.Proofs.ModulesTables
namespace ASV.Modules
open T Spec

/-! ### small list facts -/

theorem find?_isSome_eq_any {α} (p : α → Bool) (l : List α) : (l.find? p).isSome = l.any p := by
  induction l with
  | nil => rfl
  | cons a l ih =>
    simp only [List.find?_cons, List.any_cons]
    cases h : p a <;> simp [ih]

/-- how a "first element with property p" slot evolves when an element is appended -/
def orSnoc {α} (o : Option α) (b : Bool) (a : α) : Option α :=
  match o with
  | some x => some x
  | none => if b then some a else none

theorem find?_snoc {α} (p : α → Bool) (l : List α) (a : α) :
    (l ++ [a]).find? p = orSnoc (l.find? p) (p a) a := by
  rw [List.find?_append]
  cases l.find? p <;> cases hp : p a <;> simp [hp, orSnoc]

/-! ### the class bits of a component of known kind -/

theorem cls (c : Comp) (k : Kind) (hk : kindOf c = k) :
    c.isIgnored = k.bits.ign ∧ c.isSpecial = k.bits.spec ∧ c.isStarter = k.bits.st ∧
    c.isLoader = k.bits.lo ∧ c.isModification = k.bits.md ∧ c.isCarrierProtein = k.bits.cp ∧
    c.isEnd = k.bits.en := by
  subst hk
  exact ⟨isIgnored_eq c, isSpecial_eq c, isStarter_eq c, isLoader_eq c, isModification_eq c,
         isCarrierProtein_eq c, isEnd_eq c⟩

theorem kind_of_isIgnored (c : Comp) (h : c.isIgnored = true) : kindOf c = .ignored := by
  rw [isIgnored_eq] at h
  cases hk : kindOf c <;> simp [hk, Kind.bits] at h ⊢

theorem kind_of_isModification (c : Comp) (h : c.isModification = true) : kindOf c = .modification := by
  rw [isModification_eq] at h
  cases hk : kindOf c <;> simp [hk, Kind.bits] at h ⊢

theorem kind_of_isCarrier (c : Comp) (h : c.isCarrierProtein = true) : kindOf c = .carrier := by
  rw [isCarrierProtein_eq] at h
  cases hk : kindOf c <;> simp [hk, Kind.bits] at h ⊢

theorem docking_special (c : Comp) (h : (c.label == transAtDocking) = true) : kindOf c = .special := by
  have : c.label = transAtDocking := by simpa using h
  unfold kindOf; rw [this]; exact docking_kind

/-! ### the double-transporter look-ahead -/

/-- with all cases of length 2 the look-ahead only matters through its first two labels -/
theorem caseMatches_take2 (up : List String) (case : List String) (h : case ∈ doubleTransporterCases) :
    caseMatches up case = (case == up.take 2) := by
  unfold caseMatches; rw [dt_cases_len case h]

theorem dtValid_eq (up : List String) : dtValid up = doubleTransporterCases.contains (up.take 2) := by
  unfold dtValid
  rw [Bool.eq_iff_iff, List.any_eq_true, List.contains_iff_mem]
  constructor
  · rintro ⟨case, hc, hm⟩
    rw [caseMatches_take2 up case hc] at hm
    rw [← eq_of_beq hm]; exact hc
  · intro h
    refine ⟨up.take 2, h, ?_⟩
    rw [caseMatches_take2 up _ h]; exact beq_self_eq_true _

theorem dtLongest_eq (up : List String) : dtLongest up = if dtValid up then 2 else 0 := by
  unfold dtLongest dtValid
  have gen : ∀ (cases : List (List String)) (acc : Nat), (∀ c ∈ cases, c.length = 2) →
      cases.foldl (fun acc case => if caseMatches up case then case.length else acc) acc
        = if cases.any (caseMatches up) then 2 else acc := by
    intro cases
    induction cases with
    | nil => intro acc _; rfl
    | cons c cs ih =>
      intro acc hl
      have hc : c.length = 2 := hl c (List.mem_cons_self)
      have hcs : ∀ x ∈ cs, x.length = 2 := fun x hx => hl x (List.mem_cons_of_mem _ hx)
      simp only [List.foldl_cons, List.any_cons]
      rw [ih _ hcs, hc]
      by_cases h1 : caseMatches up c = true <;> by_cases h2 : cs.any (caseMatches up) = true <;> simp [h1, h2]
  exact gen _ 0 dt_cases_len

theorem dtValid_take2 (la la' : List Comp)
    (h : (la.take 2).map (·.label) = (la'.take 2).map (·.label)) :
    dtValid (la.map (·.label)) = dtValid (la'.map (·.label)) := by
  rw [dtValid_eq, dtValid_eq, ← List.map_take, ← List.map_take, h]

theorem dtPair_eq (rest : List Comp) : dtPair rest = dtValid (rest.map (·.label)) := by
  rw [dtValid_eq, ← List.map_take]; rfl

/-- a matching look-ahead shows two modification domains -/
theorem dtValid_next (la : List Comp) (h : dtValid (la.map (·.label)) = true) :
    2 ≤ la.length ∧ ∀ x ∈ la.take 2, kindOf x = .modification := by
  rw [dtValid_eq, List.contains_iff_mem, ← List.map_take] at h
  have hl := dt_cases_len _ h
  have hm := dt_cases_mod _ h
  simp only [List.length_map, List.length_take] at hl
  refine ⟨by omega, ?_⟩
  intro x hx
  exact hm x.label (List.mem_map.mpr ⟨x, hx, rfl⟩)

/-! ### the state invariant -/

structure StateInv (m : Module) : Prop where
  starter : m.starter = starterOf m.components
  loader : m.loader = loaderOf m.components
  carrier : m.carrier = carrierOf m.components
  end_ : m.end_ = endOf m.components
  mods : m.modifications = m.components.filter Comp.isModification
  docking : m.others.any (fun c => c.label == transAtDocking)
            = m.components.any (fun c => c.label == transAtDocking)
  sil : m.starterIsLoader = (match starterOf m.components with | some s => s.isLoader | none => false)
  noIgn : ∀ c ∈ m.components, c.isIgnored = false
  pend2 : m.unambiguous = 2 → extraCarrierAt m.components 0 = true
  pend1 : m.unambiguous = 1 → extraCarrierAt m.components 1 = true
  pendLe : m.unambiguous ≤ 2
  pendEnd : m.unambiguous > 0 → m.end_ = none

theorem StateInv.new (f : Bool) : StateInv (Module.new f) := by
  constructor <;> simp [Module.new, starterOf, loaderOf, carrierOf, endOf]

theorem extraCarrierAt_snoc (cs : List Comp) (c : Comp) :
    extraCarrierAt (cs ++ [c]) 1 = extraCarrierAt cs 0 := by
  simp [extraCarrierAt]

theorem extraCarrierAt_snoc0 (cs : List Comp) (c : Comp) :
    extraCarrierAt (cs ++ [c]) 0 = (c.isCarrierProtein && cs.any Comp.isCarrierProtein) := by
  simp [extraCarrierAt]

namespace StateInv
variable {m : Module} (h : StateInv m)
include h

theorem end_isSome : m.end_.isSome = m.components.any Comp.isEnd := by
  rw [h.end_]; exact find?_isSome_eq_any _ _
theorem carrier_isSome : m.carrier.isSome = hasCarrier m.components := by
  rw [h.carrier]; exact find?_isSome_eq_any _ _
theorem loader_isSome : m.loader.isSome = m.components.any Comp.isLoader := by
  rw [h.loader]; exact find?_isSome_eq_any _ _
theorem starter_isSome : m.starter.isSome = m.components.any Comp.isStarter := by
  rw [h.starter]; exact find?_isSome_eq_any _ _

theorem isPks_eq : m.isPks = isPks m.components := rfl

theorem isNrps_eq : m.isNrps = isNrps m.components := by
  unfold Module.isNrps Spec.isNrps; rw [h.starter, h.loader]; rfl

theorem isTransAt_eq : m.isTransAt = transAt m.components := by
  unfold Module.isTransAt transAt
  rw [h.starter, h.loader, h.docking]
  show _ = (Spec.isPks m.components && _ && _)
  cases starterOf m.components with
  | none => simp
  | some s =>
    show (if (!(m.isPks && (loaderOf m.components).isNone)) = true then false
          else if (s.subtype == some transAtSubtype) = true then true else _)
        = (m.isPks && (loaderOf m.components).isNone && (s.subtype == some transAtSubtype || _))
    cases (s.subtype == some transAtSubtype) <;> cases m.isPks <;> cases (loaderOf m.components).isNone <;> rfl

theorem isComplete_eq : m.isComplete = complete m.components m.firstInCds := by
  unfold Module.isComplete complete
  rw [h.isTransAt_eq, h.carrier_isSome, h.sil, h.starter, h.loader]
  cases hs : starterOf m.components with
  | none =>
    have : transAt m.components = false := by simp [transAt, hs]
    simp [this]
  | some s =>
    cases hl : loaderOf m.components with
    | none =>
      have : s.isLoader = false := by
        cases hsl : s.isLoader with
        | false => rfl
        | true =>
          have hm : s ∈ m.components := List.mem_of_find?_eq_some hs
          have : (loaderOf m.components).isSome = true := by
            unfold loaderOf; rw [find?_isSome_eq_any, List.any_eq_true]; exact ⟨s, hm, hsl⟩
          rw [hl] at this; simp at this
      simp [this]
      cases hasCarrier m.components <;> simp
    | some l =>
      have : transAt m.components = false := by simp [transAt, hl]
      simp [this]
      cases hasCarrier m.components <;> cases s.isLoader <;> cases m.firstInCds <;> simp

theorem isStarterModule_eq : m.isStarterModule = starterModule m.components m.firstInCds := by
  unfold Module.isStarterModule starterModule
  rw [h.starter, h.sil]
  cases hs : starterOf m.components <;> simp

theorem isTerminationModule_eq : m.isTerminationModule = terminationModule m.components := by
  unfold Module.isTerminationModule terminationModule; rw [h.end_]; rfl

theorem isIterative_eq : m.isIterative = iterative m.components := by
  unfold Module.isIterative iterative; rw [h.starter]; rfl

end StateInv

end ASV.Modules
