/-
  C11 helper lemmas, part 3: sideloader annotations, HMMer-based results, TTA, run_module.
-/
import ASV.Proofs.Results
import ASV.Proofs.LocString
namespace ASV.Results
open ASV

/-! ### sideloader -/

theorem qualifierMapping_qmap (m : QMap) : qualifierMapping (m.map fun p => (p.1, jStrs p.2)) = .reuse m := by
  unfold qualifierMapping
  exact mapO_map (fun p : String × List String => (p.1, jStrs p.2)) _ m (fun p _ => by
    have := asStrs_jStrs p.2
    simp only [asStrs, jStrs] at this
    simp [jStrs, this])

theorem Tool.fromJson_toJson (t : Tool) (h : Tool.nameOk t.name = true) : Tool.fromJson t.toJson = .reuse t := by
  simp [Tool.toJson, Tool.fromJson, lookup, reqStr, optQMap, qmapJson, qualifierMapping_qmap, h]

theorem SubAnn.make_eq {start stop label tool details origin y}
    (h : SubAnn.make start stop label tool details origin = .reuse y) :
    y = ⟨origin, start, stop, label, details, tool⟩ := by
  unfold SubAnn.make at h
  split at h
  · simp at h
  · split at h
    · simp at h
    · split at h
      · simp at h
      · simp at h; exact h.symm

theorem isReuse_elim {α} {o : Outcome α} (h : o.isReuse = true) : ∃ a, o = .reuse a := by
  cases o with
  | reuse a => exact ⟨a, rfl⟩
  | discard => simp [Outcome.isReuse] at h
  | refuse e => simp [Outcome.isReuse] at h

theorem SubAnn.fromJson_toJson (origin : Option Int) (s : SubAnn) (hv : s.valid origin = true) :
    SubAnn.fromJson origin s.toJson = .reuse s := by
  simp only [SubAnn.valid, Bool.and_eq_true, beq_iff_eq] at hv
  obtain ⟨⟨ho, hm⟩, hn⟩ := hv
  obtain ⟨y, hy⟩ := isReuse_elim hm
  have hy' := SubAnn.make_eq hy
  have ht := Tool.fromJson_toJson s.tool hn
  cases s with
  | mk o st en lb dt tl =>
    simp only at ho hy hy' ht; subst ho
    simp [SubAnn.toJson, SubAnn.fromJson, lookup, reqInt, reqStr, reqTool, optQMap, qmapJson,
          qualifierMapping_qmap, ht, hy, hy']

theorem ProtoAnn.make_eq {cs ce product tool details nl nr origin y}
    (h : ProtoAnn.make cs ce product tool details nl nr origin = .reuse y) :
    y = ⟨origin, cs, ce, product, tool, details, nl, nr⟩ := by
  unfold ProtoAnn.make at h
  split at h
  · split at h
    · simp at h
    · split at h
      · simp at h
      · split at h
        · simp at h
        · simp at h; exact h.symm
  · split at h
    · simp at h
    · split at h
      · simp at h
      · simp at h; exact h.symm

theorem ProtoAnn.fromJson_toJson (origin : Option Int) (p : ProtoAnn) (hv : p.valid origin = true) :
    ProtoAnn.fromJson origin p.toJson = .reuse p := by
  simp only [ProtoAnn.valid, Bool.and_eq_true, beq_iff_eq] at hv
  obtain ⟨⟨ho, hn⟩, hm⟩ := hv
  obtain ⟨y, hy⟩ := isReuse_elim hm
  have hy' := ProtoAnn.make_eq hy
  have ht := Tool.fromJson_toJson p.tool hn
  cases p with
  | mk o cs ce pr tl dt nl nr =>
    simp only at ho hy hy' ht; subst ho
    simp [ProtoAnn.toJson, ProtoAnn.fromJson, lookup, reqInt, reqStr, reqTool, optQMap, optInt, qmapJson,
          qualifierMapping_qmap, ht, hy, hy']

theorem Sideloaded.fromJson_toJson (ctx : Ctx) (x : Sideloaded) (hv : x.valid ctx = true) :
    Sideloaded.fromJson ctx x.toJson = .reuse x := by
  simp only [Sideloaded.valid, Bool.and_eq_true, List.all_eq_true, beq_iff_eq] at hv
  obtain ⟨⟨hid, hs⟩, hp⟩ := hv
  have h1 := mapO_map SubAnn.toJson (SubAnn.fromJson ctx.origin) x.subregions (fun s h => SubAnn.fromJson_toJson _ s (hs s h))
  have h2 := mapO_map ProtoAnn.toJson (ProtoAnn.fromJson ctx.origin) x.protoclusters (fun s h => ProtoAnn.fromJson_toJson _ s (hp s h))
  cases x with
  | mk rid subs protos =>
    simp only at hid h1 h2; subst hid
    simp [Sideloaded.toJson, Sideloaded.fromJson, lookup, reqArr, isIntLit, isStrLit, Sideloaded.schemaVersion, h1, h2]

/-! ### HMMer-based results -/

theorem HmmerHit.make_eq {h y : HmmerHit} (hm : HmmerHit.make h = .reuse y) : y = h := by
  unfold HmmerHit.make at hm
  split at hm
  · simp at hm
  · split at hm
    · simp at hm
    · simp at hm; exact hm.symm

theorem HmmerHit.fromJson_toJson (h : HmmerHit) (hv : h.valid = true) : HmmerHit.fromJson h.toJson = .reuse h := by
  obtain ⟨y, hy⟩ := isReuse_elim hv
  have := HmmerHit.make_eq hy
  subst this
  cases y
  simp [HmmerHit.toJson, HmmerHit.fromJson, HmmerHit.kwStr, HmmerHit.kwInt, HmmerHit.kwNum, lookup]
  exact hy

theorem HmmerRes.fromJson_toJson (ctx : Ctx) (x : HmmerRes) (hid : x.recordId = ctx.recordId)
    (hh : ∀ h ∈ x.hits, HmmerHit.valid h = true) :
    HmmerRes.fromJson ctx x.toJson = .reuse x := by
  have h1 := mapO_map HmmerHit.toJson HmmerHit.fromJson x.hits (fun h hm => HmmerHit.fromJson_toJson h (hh h hm))
  cases x with
  | mk rid ev sc db tool hits =>
    simp only at hid h1; subst hid
    simp [HmmerRes.toJson, HmmerRes.fromJson, lookup, reqStr, isIntLit, isStrLit, HmmerRes.schemaVersion, h1]

theorem filter_eq_self_of_all {α} (p : α → Bool) : ∀ l : List α, (∀ x ∈ l, p x = true) → l.filter p = l
  | [], _ => rfl
  | x :: xs, h => by
    have hx := h x (by simp)
    simp [List.filter, hx, filter_eq_self_of_all p xs (fun y hy => h y (by simp [hy]))]

/-! ### TTA -/

theorem locFromString_locToString (l : Loc) (h : l.parts ≠ []) : locFromString (locToString l) = some l := by
  simp [locFromString, locToString, locFromChars_locChars l h]

theorem TTA.codons_roundtrip (l : List Loc) (h : TTA.locsOk l = true) :
    mapO TTA.codonFromJson (l.map fun c => J.str (locToString c)) = .reuse l := by
  simp only [TTA.locsOk, List.all_eq_true] at h
  exact mapO_map _ _ l (fun c hc => by
    have : c.parts ≠ [] := by
      have := h c hc
      intro hn; rw [hn] at this; simp at this
    simp [TTA.codonFromJson, locFromString_locToString c this])

end ASV.Results
