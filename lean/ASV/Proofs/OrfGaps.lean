/-
  C15 helper lemmas: `find_intergenic_areas` only returns stretches inside `[start, end)`
  that avoid the core `[g.start + pad, g.end − pad)` of every gene.
-/
import ASV.Spec.Orf
namespace ASV.Orf
open ASV

theorem intergenicLoop_sound (start «end» pad : Int) (hpad : 0 ≤ pad) :
    ∀ (gs : List Gene) (last : Int), start ≤ last → sortedByStart gs →
    ∀ a ∈ intergenicLoop start «end» pad gs last,
      start ≤ a.1 ∧ a.2 ≤ «end» ∧ last ≤ a.1 ∧
      ∀ g ∈ gs, ∀ i, a.1 ≤ i → i < a.2 → ¬ g.core pad i := by
  intro gs
  induction gs with
  | nil =>
    intro last hl _ a ha
    unfold intergenicLoop at ha
    split at ha
    · rw [List.mem_singleton] at ha
      subst ha
      refine ⟨by simp only; omega, by simp only; omega, by simp only; omega, ?_⟩
      intro g hg; exact absurd hg List.not_mem_nil
    · exact absurd ha List.not_mem_nil
  | cons g gs ih =>
    intro last hl hsorted a ha
    obtain ⟨hg, hrest⟩ := hsorted
    -- the tail of the loop, run with a cursor at or beyond `last` and beyond `g`'s core
    have tail : ∀ last', last ≤ last' → g.end - pad ≤ last' →
        a ∈ intergenicLoop start «end» pad gs last' →
        start ≤ a.1 ∧ a.2 ≤ «end» ∧ last ≤ a.1 ∧
          ∀ h ∈ g :: gs, ∀ i, a.1 ≤ i → i < a.2 → ¬ h.core pad i := by
      intro last' h1 h2 hmem
      obtain ⟨b1, b2, b3, b4⟩ := ih last' (by omega) hrest a hmem
      refine ⟨b1, b2, by omega, ?_⟩
      intro h hh i hi1 hi2
      rcases List.mem_cons.1 hh with rfl | hh
      · intro hc; have := hc.2; omega
      · exact b4 h hh i hi1 hi2
    unfold intergenicLoop at ha
    split at ha
    · rename_i hgap
      rcases List.mem_cons.1 ha with rfl | ha
      · refine ⟨by simp only; omega, by simp only; omega, by simp only; omega, ?_⟩
        intro h hh i hi1 hi2 hc
        have hi2' : i < g.start + pad := by simp only at hi2; omega
        rcases List.mem_cons.1 hh with rfl | hh
        · have := hc.1; omega
        · have := hg h hh; have := hc.1; omega
      · exact tail _ (by omega) (by omega) ha
    · rename_i hgap
      split at ha
      · exact tail _ (by omega) (by omega) ha
      · rename_i hov
        exact tail last (by omega) (by omega) ha

theorem insertGene_perm (x : Gene) (l : List Gene) : (insertGene x l).Perm (x :: l) := by
  induction l with
  | nil => exact List.Perm.refl _
  | cons y ys ih =>
    unfold insertGene
    split
    · exact List.Perm.refl _
    · exact ((List.Perm.cons y ih).trans (List.Perm.swap x y ys))

theorem sortGenes_perm (l : List Gene) : (sortGenes l).Perm l := by
  induction l with
  | nil => exact List.Perm.refl _
  | cons x xs ih =>
    show (insertGene x (sortGenes xs)).Perm (x :: xs)
    exact (insertGene_perm x _).trans (List.Perm.cons x ih)

theorem mem_sortGenes (l : List Gene) (g : Gene) : g ∈ sortGenes l ↔ g ∈ l := (sortGenes_perm l).mem_iff

theorem insertGene_sorted (x : Gene) (l : List Gene) (h : sortedByStart l) : sortedByStart (insertGene x l) := by
  induction l with
  | nil => exact ⟨fun h hh => absurd hh List.not_mem_nil, trivial⟩
  | cons y ys ih =>
    unfold insertGene
    obtain ⟨h1, h2⟩ := h
    split
    · rename_i hxy
      refine ⟨?_, h1, h2⟩
      intro z hz
      rcases List.mem_cons.1 hz with rfl | hz
      · exact hxy
      · exact Int.le_trans hxy (h1 z hz)
    · rename_i hxy
      refine ⟨?_, ih h2⟩
      intro z hz
      rcases List.mem_cons.1 ((insertGene_perm x ys).mem_iff.1 hz) with rfl | hz
      · omega
      · exact h1 z hz

/-- the sweep always sees the genes ordered by start -/
theorem sortGenes_sorted (l : List Gene) : sortedByStart (sortGenes l) := by
  induction l with
  | nil => exact trivial
  | cons x xs ih => exact insertGene_sorted x _ ih

/-- `find_intergenic_areas`: soundness, for genes given in any order -/
theorem findIntergenic_sound (start «end» minLen pad : Int) (genes : List Gene) (hpad : 0 ≤ pad)
    (a : Int × Int) (ha : a ∈ findIntergenic start «end» genes minLen pad) :
    start ≤ a.1 ∧ a.2 ≤ «end» ∧ minLen ≤ a.2 - a.1 ∧
      ∀ g ∈ genes, ∀ i, a.1 ≤ i → i < a.2 → ¬ g.core pad i := by
  unfold findIntergenic at ha
  rw [List.mem_filter] at ha
  obtain ⟨hmem, hlen⟩ := ha
  obtain ⟨h1, h2, _, h4⟩ := intergenicLoop_sound start «end» pad hpad (sortGenes genes) start (Int.le_refl _)
    (sortGenes_sorted genes) a hmem
  exact ⟨h1, h2, by simpa using hlen, fun g hg => h4 g ((mem_sortGenes genes g).2 hg)⟩

theorem sortedByStartB_iff (gs : List Gene) : sortedByStartB gs = true ↔ sortedByStart gs := by
  induction gs with
  | nil => simp only [sortedByStartB, sortedByStart]
  | cons g gs ih =>
    simp only [sortedByStartB, sortedByStart, Bool.and_eq_true, List.all_eq_true, decide_eq_true_eq, ih]

/-- the executable check the driver runs on implementation output is the avoidance statement -/
theorem areaAvoids_iff (genes : List Gene) (pad : Int) (a : Int × Int) :
    areaAvoids genes pad a = true ↔ ∀ g ∈ genes, ∀ i, a.1 ≤ i → i < a.2 → ¬ g.core pad i := by
  simp only [areaAvoids, List.all_eq_true, Bool.or_eq_true, decide_eq_true_eq, Gene.core]
  constructor
  · intro h g hg i h1 h2 hc
    have := h g hg; omega
  · intro h g hg
    by_cases h1 : a.2 ≤ g.start + pad
    · exact Or.inl (Or.inl (Or.inl h1))
    · by_cases h2 : g.end - pad ≤ a.1
      · exact Or.inl (Or.inl (Or.inr h2))
      · by_cases h3 : g.end - pad ≤ g.start + pad
        · exact Or.inl (Or.inr h3)
        · by_cases h5 : a.2 ≤ a.1
          · exact Or.inr h5
          exfalso
          -- the larger of a.1 and g.start + pad lies in both
          by_cases h4 : a.1 ≤ g.start + pad
          · exact h g hg (g.start + pad) h4 (by omega) ⟨by omega, by omega⟩
          · exact h g hg a.1 (by omega) (by omega) ⟨by omega, by omega⟩

end ASV.Orf
