/-
  C06 helper lemmas, part 2: on a linear record the model's sweep (`sweepAreas`, with
  `connect_locations` and `locations_overlap` on real locations) is the abstract sweep
  `SweepG.go` over (start, end); the first/last fix-up changes nothing.
-/
import ASV.Proofs.RegionsSort
import ASV.Proofs.SweepRegions
import ASV.Proofs.LocConnectRingIn
namespace ASV.Regions
open ASV ASV.SweepG

def fLo (f : Feat) : Int := f.loc.start
def fHi (f : Feat) : Int := f.loc.end

/-- the strand the running hull ends up with: the common strand, or None as soon as two differ -/
def hullStrand : List Feat → Strand
  | [] => .none
  | m :: rest => rest.foldl (fun s y => if s == y.loc.strand then y.loc.strand else .none) m.loc.strand

theorem hullStrand_snoc (ms : List Feat) (y : Feat) (h : ms ≠ []) :
    hullStrand (ms ++ [y]) = if hullStrand ms == y.loc.strand then y.loc.strand else .none := by
  cases ms with
  | nil => exact absurd rfl h
  | cons m rest => simp [hullStrand, List.foldl_append]

def secOf (g : Grp Feat) : Sec := (.simple ⟨g.lo, g.hi, hullStrand g.members⟩, g.members)

theorem LineArea.parts {len : Int} {l : Loc} (h : LineArea len l) : l.parts ≠ [] ∧ bridgesOrigin l = false := by
  obtain ⟨p, rfl, _⟩ := h
  simp [Loc.parts, bridgesOrigin]

theorem LineArea.bounds {len : Int} {l : Loc} (h : LineArea len l) : 0 ≤ l.start ∧ l.start < l.end ∧ l.end ≤ len := by
  obtain ⟨p, rfl, h0, h1, h2⟩ := h
  exact ⟨h0, h1, h2⟩

theorem overlap_simple (p q : Part) (hp : p.lo < p.hi) (hq : q.lo < q.hi) :
    locationsOverlap (.simple p) (.simple q) = (decide (p.lo < q.hi) && decide (q.lo < p.hi)) := by
  rw [Bool.eq_iff_iff]
  simp only [locationsOverlap, Loc.parts, List.any_cons, List.any_nil, Bool.or_false, Bool.and_eq_true, decide_eq_true_eq]
  rw [partsOverlap_iff p q hp hq]
  constructor
  · rintro ⟨i, h1, h2⟩
    rw [Part.mem_iff] at h1 h2
    omega
  · intro h
    refine ⟨max p.lo q.lo, ?_, ?_⟩ <;> rw [Part.mem_iff] <;> omega

/-- the overlap test of the sweep against the running hull -/
theorem overlap_hull {len : Int} (y : Feat) (hy : LineArea len y.loc) (lo hi : Int) (s : Strand)
    (h1 : lo < hi) (h2 : lo ≤ fLo y) :
    locationsOverlap y.loc (.simple ⟨lo, hi, s⟩) = decide (fLo y < hi) := by
  obtain ⟨p, hp, h0, hlt, hle⟩ := hy
  simp only [fLo, hp, Loc.start] at h2 ⊢
  rw [overlap_simple p _ hlt h1, Bool.eq_iff_iff]
  simp only [Bool.and_eq_true, decide_eq_true_eq]
  omega

/-- … and the hull it is replaced by -/
theorem connect_hull {len : Int} (y : Feat) (hy : LineArea len y.loc) (lo hi : Int) (s : Strand) (h2 : lo ≤ fLo y) :
    connect [y.loc, .simple ⟨lo, hi, s⟩] none =
      .ok (.simple ⟨lo, max hi (fHi y), if s == y.loc.strand then y.loc.strand else .none⟩) := by
  rw [connect_line _ (by simp)]
  · obtain ⟨p, hp, h0, hlt, hle⟩ := hy
    simp only [fLo, fHi, hp, Loc.start, Loc.end] at h2 ⊢
    simp only [List.map, minList, maxList, List.foldl, commonStrand, Loc.strand, List.all_cons, List.all_nil, Bool.and_true,
      Loc.start, Loc.end]
    congr 2
    · congr 1
      · omega
      · omega
  · intro l hl
    simp only [List.mem_cons, List.mem_singleton, List.not_mem_nil, or_false] at hl
    rcases hl with rfl | rfl
    · exact hy.parts
    · simp [Loc.parts, bridgesOrigin]

/-- two overlapping single-part spans are never "shorter over the origin" -/
theorem not_wrapping_overlap (a b : Part) (L : Int) (hL : 0 ≤ L) (h1 : a.lo < b.hi) (h2 : b.lo < a.hi) :
    isWrappingShorter [.simple a, .simple b] L = false := by
  have hdiv : 0 ≤ L / 2 := Int.ediv_nonneg hL (by omega)
  have hsort : sortLocs [Loc.simple a, Loc.simple b] = [Loc.simple a, Loc.simple b] ∨
      sortLocs [Loc.simple a, Loc.simple b] = [Loc.simple b, Loc.simple a] := by
    simp only [sortLocs, List.foldr, insertLocBy]
    split
    · exact Or.inl rfl
    · exact Or.inr rfl
  have hnb : [Loc.simple a, Loc.simple b].any bridgesOrigin = false := by simp [bridgesOrigin]
  unfold isWrappingShorter
  rw [hnb]
  simp only [Bool.false_eq_true, if_false]
  rcases hsort with h | h <;> rw [h] <;> simp [Loc.start, Loc.end] <;> omega

/-- on a circular record, connecting two overlapping single-part spans gives their line hull as well -/
theorem connect_ring_overlap (a b : Part) (L : Int) (hL : 0 < L)
    (ha : 0 ≤ a.lo ∧ a.lo < a.hi ∧ a.hi ≤ L) (hb : 0 ≤ b.lo ∧ b.lo < b.hi ∧ b.hi ≤ L)
    (h1 : a.lo < b.hi) (h2 : b.lo < a.hi) :
    connect [.simple a, .simple b] (some L) = connect [.simple a, .simple b] none := by
  have hin : ∀ l ∈ [Loc.simple a, Loc.simple b], RingIn L l := by
    intro l hl
    simp only [List.mem_cons, List.mem_singleton, List.not_mem_nil, or_false] at hl
    rcases hl with rfl | rfl
    · exact ⟨by simp [Loc.parts], by intro p hp; simp [Loc.parts] at hp; subst hp; exact ha,
        fun h => by simp [bridgesOrigin] at h⟩
    · exact ⟨by simp [Loc.parts], by intro p hp; simp [Loc.parts] at hp; subst hp; exact hb,
        fun h => by simp [bridgesOrigin] at h⟩
  rw [connect_ring_closed _ L (by simp) hL hin, connect_line _ (by simp) (by
    intro l hl
    simp only [List.mem_cons, List.mem_singleton, List.not_mem_nil, or_false] at hl
    rcases hl with rfl | rfl <;> simp [Loc.parts, bridgesOrigin])]
  have ht : ∀ p : Part, toR (.simple p) = .one p := by
    intro p; simp [toR, bridgesOrigin, Loc.start, Loc.end, Loc.strand]
  simp only [List.map_cons, List.map_nil, ht, connR, List.any_cons, List.any_nil, RLoc.isTwo, Bool.or_false,
    Bool.false_eq_true, if_false, connA, RLoc.toLoc, not_wrapping_overlap a b L (by omega) h1 h2, hullOf]

/-- the wrap point handed to `connect_locations`: none (linear record) or the record length -/
def WrapOf (len : Int) (w : Option Int) : Prop := w = none ∨ (w = some len ∧ 0 < len)

/-- the hull step of the sweep, on a linear record or on a circular one (areas not spanning the origin) -/
theorem connect_hull_w {len : Int} {w : Option Int} (hw : WrapOf len w) (y : Feat) (hy : LineArea len y.loc)
    (lo hi : Int) (s : Strand) (h0 : 0 ≤ lo) (h1 : lo < hi) (hL : hi ≤ len) (h2 : lo ≤ fLo y) (hov : fLo y < hi) :
    connect [y.loc, .simple ⟨lo, hi, s⟩] w =
      .ok (.simple ⟨lo, max hi (fHi y), if s == y.loc.strand then y.loc.strand else .none⟩) := by
  rcases hw with rfl | ⟨rfl, hpos⟩
  · exact connect_hull y hy lo hi s h2
  · obtain ⟨p, hp, hp0, hp1, hp2⟩ := hy
    have := connect_hull y ⟨p, hp, hp0, hp1, hp2⟩ lo hi s h2
    rw [hp] at this ⊢
    rw [connect_ring_overlap p ⟨lo, hi, s⟩ len hpos ⟨hp0, hp1, hp2⟩ ⟨h0, h1, hL⟩ (by
      simp only [fLo, hp, Loc.start] at hov; exact hov) (by simp only [fLo, hp, Loc.start] at h2; simp only; omega)]
    exact this

/-- the model's sweep on a linear record is the abstract sweep -/
theorem sweepAreas_line {len : Int} {w : Option Int} (hw : WrapOf len w) (cur : Grp Feat) (ys : List Feat)
    (hne : cur.members ≠ []) (hcur : cur.lo < cur.hi) (hcb : 0 ≤ cur.lo ∧ cur.hi ≤ len)
    (hys : ∀ y ∈ ys, LineArea len y.loc) (hs : ∀ y ∈ ys, cur.lo ≤ fLo y)
    (hsorted : ys.Pairwise (fun a b => fLo a ≤ fLo b)) :
    sweepAreas w (secOf cur).1 cur.members ys = .ok ((go fLo fHi cur ys).map secOf) := by
  induction ys generalizing cur with
  | nil => simp [sweepAreas, go, secOf, pure, Except.pure]
  | cons y ys ih =>
    have hy := hys y (by simp)
    have hsorted' := List.pairwise_cons.1 hsorted
    simp only [sweepAreas, go, secOf]
    have hov := overlap_hull y hy cur.lo cur.hi (hullStrand cur.members) hcur (hs y (by simp))
    simp only [hov]
    by_cases hlt : fLo y < cur.hi
    · simp only [hlt, decide_true, Bool.not_true, Bool.false_eq_true, if_false, if_true]
      rw [connect_hull_w hw y hy _ _ _ hcb.1 hcur hcb.2 (hs y (by simp)) hlt]
      simp only [bind, Except.bind]
      have hyb := hy.bounds
      have := ih ⟨cur.lo, max cur.hi (fHi y), cur.members ++ [y]⟩ (by simp) (by simp only; omega)
        (by simp only [fHi]; omega)
        (fun z hz => hys z (by simp [hz])) (fun z hz => hs z (by simp [hz])) hsorted'.2
      simp only [secOf, hullStrand_snoc _ _ hne] at this
      exact this
    · simp only [hlt, decide_false, Bool.not_false, if_true, if_false]
      have hb := hy.bounds
      have := ih ⟨fLo y, fHi y, [y]⟩ (by simp) (by simp only [fLo, fHi]; omega) (by simp only [fLo, fHi]; omega)
        (fun z hz => hys z (by simp [hz])) (fun z hz => hsorted'.1 z hz) hsorted'.2
      have hloc : (secOf ⟨fLo y, fHi y, [y]⟩).1 = y.loc := by
        obtain ⟨p, hp, _⟩ := hy
        simp only [secOf, fLo, fHi, hullStrand, List.foldl, hp, Loc.start, Loc.end, Loc.strand]
      rw [hloc] at this
      simp only [this, bind, Except.bind, pure, Except.pure, List.map_cons, secOf]

theorem no_overlap_sep (g g' : Grp Feat) (h1 : g.lo < g.hi) (h2 : g'.lo < g'.hi) (hsep : g.hi ≤ g'.lo) :
    locationsOverlap (secOf g).1 (secOf g').1 = false := by
  simp only [secOf]
  rw [overlap_simple _ _ h1 h2]
  simp only [Bool.and_eq_false_iff, decide_eq_false_iff_not]
  omega

theorem mergeFirstLast_line (gs : List (Grp Feat)) (hsep : gs.Pairwise (fun g g' => g.hi ≤ g'.lo))
    (hwf : ∀ g ∈ gs, g.lo < g.hi) (w : Option Int) (n : Nat) :
    mergeFirstLast w n (gs.map secOf) = .ok (gs.map secOf) := by
  cases n with
  | zero => rfl
  | succ n =>
    match gs, hsep, hwf with
    | [], _, _ => rfl
    | [g], _, _ => rfl
    | g :: g2 :: more, hsep, hwf =>
      simp only [List.map_cons, mergeFirstLast]
      have hne : (g2 :: more) ≠ [] := by simp
      have hlast : (secOf g2 :: List.map secOf more).getLast? = some (secOf ((g2 :: more).getLast hne)) := by
        rw [← List.map_cons, List.getLast?_map, List.getLast?_eq_some_getLast hne]; rfl
      rw [hlast]
      have hmem : (g2 :: more).getLast hne ∈ g2 :: more := List.getLast_mem hne
      have h1 := (List.pairwise_cons.1 hsep).1 _ hmem
      simp only [no_overlap_sep g _ (hwf g (by simp)) (hwf _ (by simp [hmem])) h1]
      rfl

theorem collectionInitCheck_simple (p : Part) (h0 : 0 ≤ p.lo) (h1 : p.lo ≤ p.hi) :
    collectionInitCheck (.simple p) = .ok () := by
  simp [collectionInitCheck, Loc.parts, strandsUsed, Loc.start, Loc.end, h0, h1, pure, Except.pure, bind, Except.bind]

theorem setParents_ok (d : Dict (Option Nat)) (parent : Feat) (cs : List Feat)
    (h : ∀ c ∈ cs, locationContainsOther parent.loc c.loc = true) :
    setParents d parent cs = .ok (cs.foldl (fun d c => d.set c.id (some parent.id)) d) := by
  induction cs generalizing d with
  | nil => rfl
  | cons c cs ih =>
    simp only [setParents, h c (by simp), Bool.not_true, Bool.false_eq_true, if_false, List.foldl_cons]
    exact ih _ (fun x hx => h x (by simp [hx]))

/-- hull of a non-empty list of line areas -/
def hullLoc (fs : List Feat) : Loc :=
  .simple ⟨minList (fs.map fLo), maxList (fs.map fHi), commonStrand (fs.map (·.loc))⟩

theorem hull_bounds {len : Int} (fs : List Feat) (hne : fs ≠ []) (h : ∀ f ∈ fs, LineArea len f.loc) :
    0 ≤ minList (fs.map fLo) ∧ minList (fs.map fLo) < maxList (fs.map fHi) ∧ maxList (fs.map fHi) ≤ len := by
  have hne1 : fs.map fLo ≠ [] := by simpa using hne
  have hne2 : fs.map fHi ≠ [] := by simpa using hne
  obtain ⟨f, hf, e1⟩ := List.mem_map.1 (minList_mem hne1)
  obtain ⟨g, hg, e2⟩ := List.mem_map.1 (maxList_mem hne2)
  have b1 := (h f hf).bounds
  have b2 := (h g hg).bounds
  have : fHi f ≤ maxList (fs.map fHi) := le_maxList_of_mem (List.mem_map.2 ⟨f, hf, rfl⟩)
  simp only [fLo, fHi] at *
  omega

theorem hull_contains {len : Int} (fs : List Feat) (h : ∀ f ∈ fs, LineArea len f.loc) (f : Feat) (hf : f ∈ fs) :
    locationContainsOther (hullLoc fs) f.loc = true := by
  obtain ⟨p, hp, h0, h1, h2⟩ := h f hf
  have a1 : minList (fs.map fLo) ≤ fLo f := minList_le_of_mem (List.mem_map.2 ⟨f, hf, rfl⟩)
  have a2 : fHi f ≤ maxList (fs.map fHi) := le_maxList_of_mem (List.mem_map.2 ⟨f, hf, rfl⟩)
  simp only [fLo, fHi, hp, Loc.start, Loc.end] at a1 a2
  simp only [locationContainsOther, hullLoc, hp, Loc.parts, List.all_cons, List.all_nil, List.any_cons, List.any_nil,
    partContains, Bool.or_false, Bool.and_true, Bool.and_eq_true, decide_eq_true_eq]
  omega

/-- the state after `Region(...)` was constructed: a fresh region id is used up and the children point at it -/
def afterMk (s : State) (children : List Feat) : State :=
  { s with nextRid := s.nextRid + 1,
           parent := children.foldl (fun d c => d.set c.id (some s.nextRid)) s.parent }

/-- the `Region(candidates, subregions)` object of a linear record -/
def newRegion (s : State) (cands subs : List Feat) : Feat :=
  { id := s.nextRid, kind := .region, loc := hullLoc (subs ++ cands),
    kids := cands.map (·.id), subs := subs.map (·.id) }

theorem mkRegion_line {len : Int} (s : State) (cands subs : List Feat)
    (hne : subs ++ cands ≠ []) (h : ∀ f ∈ subs ++ cands, LineArea len f.loc) :
    mkRegion s cands subs = .ok (afterMk s (subs ++ cands), newRegion s cands subs) := by
  have hemp : (cands.isEmpty && subs.isEmpty) = false := by
    cases cands <;> cases subs <;> simp_all
  have hany : ((subs ++ cands).map (·.loc)).any bridgesOrigin = false := by
    rw [List.any_eq_false]
    intro l hl
    obtain ⟨f, hf, rfl⟩ := List.mem_map.1 hl
    simp [(h f hf).parts.2]
  have hconn : connect ((subs ++ cands).map (·.loc)) none = .ok (hullLoc (subs ++ cands)) := by
    rw [connect_line _ (by simpa using hne)]
    · simp only [hullLoc, List.map_map]; rfl
    · intro l hl
      obtain ⟨f, hf, rfl⟩ := List.mem_map.1 hl
      exact (h f hf).parts
  have hb := hull_bounds (subs ++ cands) hne h
  have hchk : collectionInitCheck (hullLoc (subs ++ cands)) = .ok () :=
    collectionInitCheck_simple _ hb.1 (by simp only; omega)
  simp only [mkRegion, regionWrap, hemp, hany, Bool.false_eq_true, if_false, hconn, hchk, bind, Except.bind, pure, Except.pure]
  rw [setParents_ok]
  · rfl
  · intro c hc
    exact hull_contains _ h c hc

theorem regionIndex_append (region : Feat) (i : Nat) (rs : List Feat)
    (hno : ∀ r ∈ rs, locationsOverlap region.loc r.loc = false ∧ collectionLt region.loc r.loc = .ok false) :
    regionIndex region i rs = .ok (i + rs.length) := by
  induction rs generalizing i with
  | nil => rfl
  | cons r rs ih =>
    simp only [regionIndex, (hno r (by simp)).1, (hno r (by simp)).2, Bool.false_eq_true, if_false, bind, Except.bind,
      pure, Except.pure]
    rw [ih _ (fun x hx => hno x (by simp [hx]))]
    simp only [List.length_cons]
    congr 1; omega

theorem insertAt_length {α} (l : List α) (x : α) : insertAt l l.length x = l ++ [x] := by
  simp [insertAt]

theorem checkInside_ok (s : State) (loc : Loc) (h0 : 0 ≤ loc.start) (h1 : loc.end ≤ s.len) : checkInside s loc = .ok () := by
  simp [checkInside, h0, h1, pure, Except.pure]

theorem addRegion_line {len : Int} (s : State) (region : Feat) (hlen : s.len = len) (hr : LineArea len region.loc)
    (hregs : ∀ r ∈ s.regions, LineArea len r.loc ∧ r.loc.end ≤ region.loc.start) :
    addRegion s region = .ok { s with
      regions := s.regions ++ [{ region with cdses := cdsWithin s.cds region.loc }],
      numR := renumber s.numR (s.regions ++ [{ region with cdses := cdsWithin s.cds region.loc }]) s.regions.length,
      cdsRegion := (cdsWithin s.cds region.loc).foldl (fun (acc : Dict (Option Nat)) i => acc.set i (some region.id)) s.cdsRegion } := by
  have hb := hr.bounds
  have hidx : regionIndex region 0 s.regions = .ok s.regions.length := by
    rw [regionIndex_append region 0 s.regions]
    · simp
    · intro r hr'
      obtain ⟨hrl, hre⟩ := hregs r hr'
      refine ⟨?_, ?_⟩
      · obtain ⟨p, hp, _, hp1, _⟩ := hr
        obtain ⟨q, hq, _, hq1, _⟩ := hrl
        rw [hp, hq, overlap_simple p q hp1 hq1]
        simp only [hp, hq, Loc.start, Loc.end] at hre
        simp only [Bool.and_eq_false_iff, decide_eq_false_iff_not]
        omega
      · rw [collectionLt_line hr hrl]
        congr 1
        rw [keyLt_false_iff]
        have := hrl.bounds
        simp only [lineKey]
        omega
  simp only [addRegion, checkInside_ok s region.loc hb.1 (by omega), hidx, bind, Except.bind, pure, Except.pure,
    insertAt_length]

def candsOf (areas : List Feat) : List Feat := areas.filter (·.kind == .cand)
def subsOf (areas : List Feat) : List Feat := areas.filter (·.kind != .cand)
/-- `children` of `Region.__init__`: subregions first -/
def childrenOf (areas : List Feat) : List Feat := subsOf areas ++ candsOf areas

theorem childrenOf_perm (areas : List Feat) : (childrenOf areas).Perm areas :=
  List.perm_append_comm.trans (by
    have := List.filter_append_perm (fun x : Feat => x.kind == Kind.cand) areas
    simpa only [candsOf, subsOf, bne] using this)

theorem minList_eq {l : List Int} {v : Int} (hv : v ∈ l) (hle : ∀ x ∈ l, v ≤ x) : minList l = v := by
  have h1 := minList_le_of_mem hv
  have h2 := hle _ (minList_mem (List.ne_nil_of_mem hv))
  omega

theorem maxList_eq {l : List Int} {v : Int} (hv : v ∈ l) (hle : ∀ x ∈ l, x ≤ v) : maxList l = v := by
  have h1 := le_maxList_of_mem hv
  have h2 := hle _ (maxList_mem (List.ne_nil_of_mem hv))
  omega

/-- the hull of a group's members (in any order) is the group's running hull -/
theorem hull_of_group {g : Grp Feat} (hg : GInv fLo fHi g) (fs : List Feat) (hp : fs.Perm g.members) :
    minList (fs.map fLo) = g.lo ∧ maxList (fs.map fHi) = g.hi := by
  constructor
  · obtain ⟨m, hm, e⟩ := hg.loAtt
    apply minList_eq
    · exact List.mem_map.2 ⟨m, hp.mem_iff.2 hm, e⟩
    · intro x hx
      obtain ⟨f, hf, rfl⟩ := List.mem_map.1 hx
      exact hg.loMin f (hp.mem_iff.1 hf)
  · obtain ⟨m, hm, e⟩ := hg.hiAtt
    apply maxList_eq
    · exact List.mem_map.2 ⟨m, hp.mem_iff.2 hm, e⟩
    · intro x hx
      obtain ⟨f, hf, rfl⟩ := List.mem_map.1 hx
      exact hg.hiMax f (hp.mem_iff.1 hf)

theorem group_nonempty {g : Grp Feat} (hg : GInv fLo fHi g) : g.lo < g.hi := by
  obtain ⟨m, hm, e⟩ := hg.loAtt
  have := hg.wf m hm
  have := hg.hiMax m hm
  omega

/-- what is observable of a region: location, candidate ids, subregion ids -/
def view (r : Feat) : Loc × List Nat × List Nat := (r.loc, r.kids, r.subs)

def grpView (g : Grp Feat) : Loc × List Nat × List Nat :=
  (.simple ⟨g.lo, g.hi, commonStrand ((childrenOf g.members).map (·.loc))⟩,
   (candsOf g.members).map (·.id), (subsOf g.members).map (·.id))

theorem addSection_step {len : Int} (s : State) (g : Grp Feat) (hlen : s.len = len)
    (hg : GInv fLo fHi g) (harea : ∀ f ∈ g.members, LineArea len f.loc)
    (hregs : ∀ r ∈ s.regions, LineArea len r.loc ∧ r.loc.end ≤ g.lo) :
    ∃ s1 r s2, mkRegion s (candsOf g.members) (subsOf g.members) = .ok (s1, r) ∧ addRegion s1 r = .ok s2 ∧
      s2.regions = s.regions ++ [{ r with cdses := cdsWithin s.cds r.loc }] ∧ view r = grpView g ∧
      s2.cands = s.cands ∧ s2.subs = s.subs ∧ s2.protos = s.protos ∧ s2.len = s.len ∧
      s2.circular = s.circular := by
  have hperm := childrenOf_perm g.members
  have hne : childrenOf g.members ≠ [] := by
    intro h
    rw [h] at hperm
    exact hg.ne (List.perm_nil.1 hperm.symm)
  have hch : ∀ f ∈ childrenOf g.members, LineArea len f.loc :=
    fun f hf => harea f (hperm.mem_iff.1 hf)
  have hhull := hull_of_group hg _ hperm
  have hb := hull_bounds _ hne hch
  have hmk := mkRegion_line (len := len) s (candsOf g.members) (subsOf g.members) hne hch
  have hr : LineArea len (newRegion s (candsOf g.members) (subsOf g.members)).loc :=
    ⟨_, rfl, hb.1, hb.2.1, hb.2.2⟩
  have hadd := addRegion_line (len := len) (afterMk s (subsOf g.members ++ candsOf g.members))
    (newRegion s (candsOf g.members) (subsOf g.members)) hlen hr (by
      intro r hr'
      refine ⟨(hregs r hr').1, ?_⟩
      have := (hregs r hr').2
      simp only [newRegion, hullLoc, Loc.start]
      rw [show subsOf g.members ++ candsOf g.members = childrenOf g.members from rfl, hhull.1]
      exact this)
  refine ⟨_, _, _, hmk, hadd, rfl, ?_, rfl, rfl, rfl, rfl, rfl⟩
  simp only [view, grpView, newRegion, hullLoc]
  rw [show subsOf g.members ++ candsOf g.members = childrenOf g.members from rfl, hhull.1, hhull.2]

theorem addSections_cons (s : State) (l : Loc) (areas : List Feat) (rest : List Sec) :
    addSections s ((l, areas) :: rest) =
      (mkRegion s (candsOf areas) (subsOf areas) >>= fun x => addRegion x.1 x.2 >>= fun s2 => addSections s2 rest) := rfl

theorem addSections_line {len : Int} (gs : List (Grp Feat)) (s : State) (hlen : s.len = len)
    (hinv : ∀ g ∈ gs, GInv fLo fHi g) (hsep : gs.Pairwise (fun g g' => g.hi ≤ g'.lo))
    (harea : ∀ g ∈ gs, ∀ f ∈ g.members, LineArea len f.loc)
    (hregs : ∀ r ∈ s.regions, LineArea len r.loc ∧ ∀ g ∈ gs, r.loc.end ≤ g.lo) :
    ∃ s', addSections s (gs.map secOf) = .ok s' ∧
      s'.regions.map view = s.regions.map view ++ gs.map grpView ∧
      s'.cands = s.cands ∧ s'.subs = s.subs ∧ s'.protos = s.protos ∧ s'.len = s.len ∧
      s'.circular = s.circular := by
  induction gs generalizing s with
  | nil => exact ⟨s, rfl, by simp, rfl, rfl, rfl, rfl, rfl⟩
  | cons g gs ih =>
    have hg := hinv g (by simp)
    have hsep' := List.pairwise_cons.1 hsep
    obtain ⟨s1, r, s2, hmk, hadd, e1, e2, e3, e4, e5, e6, e7⟩ := addSection_step s g hlen hg (harea g (by simp))
      (fun r hr => ⟨(hregs r hr).1, (hregs r hr).2 g (by simp)⟩)
    have hview : r.loc = (grpView g).1 := by rw [← e2]; rfl
    obtain ⟨s', h1, h2, h3, h4, h5, h6, h7⟩ := ih s2 (by rw [e6]; exact hlen) (fun g' hg' => hinv g' (by simp [hg'])) hsep'.2
      (fun g' hg' => harea g' (by simp [hg'])) (by
        intro x hx
        rw [e1] at hx
        simp only [List.mem_append, List.mem_singleton] at hx
        rcases hx with hx | rfl
        · exact ⟨(hregs x hx).1, fun g' hg' => (hregs x hx).2 g' (by simp [hg'])⟩
        · have hnon := group_nonempty hg
          have hb : 0 ≤ g.lo ∧ g.hi ≤ len := by
            obtain ⟨m, hm, e⟩ := hg.loAtt
            obtain ⟨m', hm', e'⟩ := hg.hiAtt
            have := (harea g (by simp) m hm).bounds
            have := (harea g (by simp) m' hm').bounds
            simp only [fLo, fHi] at e e'
            omega
          simp only [hview, grpView]
          exact ⟨⟨_, rfl, hb.1, hnon, hb.2⟩, fun g' hg' => hsep'.1 g' hg'⟩)
    refine ⟨s', ?_, ?_, h3.trans e3, h4.trans e4, h5.trans e5, h6.trans e6, h7.trans e7⟩
    · simp only [List.map_cons, secOf, addSections_cons, hmk, hadd, bind, Except.bind, h1]
    · rw [h2, e1]
      simp only [List.map_append, List.map_cons, List.map_nil, List.append_assoc, List.singleton_append]
      congr 2

end ASV.Regions
