/-
  `connect_locations` on a circular record for two single-part locations (C04).
-/
import ASV.Proofs.LocExtend
set_option linter.unusedSimpArgs false
set_option linter.unusedVariables false
namespace ASV


/-- closed form of connecting two single-part locations on a ring -/
def connectTwoRing (a b : Part) (L : Int) : Loc :=
  let first := if a.lo < b.lo ∨ (a.lo = b.lo ∧ a.hi ≤ b.hi) then a else b
  let second := if a.lo < b.lo ∨ (a.lo = b.lo ∧ a.hi ≤ b.hi) then b else a
  if second.lo - first.hi > L / 2 then .compound [⟨second.lo, L, .fwd⟩, ⟨0, first.hi, .fwd⟩]
  else .simple ⟨min a.lo b.lo, max a.hi b.hi, if a.strand == b.strand then a.strand else .none⟩

theorem sortLocs_two (a b : Part) :
    sortLocs [.simple a, .simple b] =
      if a.lo < b.lo ∨ (a.lo = b.lo ∧ a.hi ≤ b.hi) then [.simple a, .simple b] else [.simple b, .simple a] := by
  simp only [sortLocs, List.foldr, insertLocBy]
  by_cases h : a.lo < b.lo ∨ (a.lo = b.lo ∧ a.hi ≤ b.hi)
  · have hb : (decide ((Loc.simple a).start < (Loc.simple b).start) ||
        ((Loc.simple a).start == (Loc.simple b).start && decide ((Loc.simple a).end ≤ (Loc.simple b).end))) = true := by
      simp only [Loc.start, Loc.end, Bool.or_eq_true, Bool.and_eq_true, beq_iff_eq]
      rcases h with h | ⟨h1, h2⟩
      · left; exact decide_eq_true h
      · right; exact ⟨h1, decide_eq_true h2⟩
    rw [if_pos hb, if_pos h]
  · have hb : ¬ ((decide ((Loc.simple a).start < (Loc.simple b).start) ||
        ((Loc.simple a).start == (Loc.simple b).start && decide ((Loc.simple a).end ≤ (Loc.simple b).end))) = true) := by
      simp only [Loc.start, Loc.end, Bool.or_eq_true, Bool.and_eq_true, beq_iff_eq]
      rintro (h' | ⟨h1, h2⟩)
      · exact h (Or.inl (of_decide_eq_true h'))
      · exact h (Or.inr ⟨h1, of_decide_eq_true h2⟩)
    rw [if_neg hb, if_neg h]




theorem isWrappingShorter_two (a b : Part) (L : Int) :
    isWrappingShorter [.simple a, .simple b] L =
      if a.lo < b.lo ∨ (a.lo = b.lo ∧ a.hi ≤ b.hi) then decide (b.lo - a.hi > L / 2) else decide (a.lo - b.hi > L / 2) := by
  unfold isWrappingShorter
  simp only [List.any_cons, List.any_nil, bridgesOrigin, Bool.or_false, Bool.false_eq_true, if_false]
  rw [sortLocs_two]
  by_cases h : a.lo < b.lo ∨ (a.lo = b.lo ∧ a.hi ≤ b.hi)
  · simp [h, Loc.start, Loc.end]
  · simp [h, Loc.start, Loc.end]

theorem reduce_simple (p : Part) (w : Option Int) : reduceParts (Loc.simple p).parts w = .ok (.simple p) := by
  simp [Loc.parts, reduceParts, pure, Except.pure]

/-- not shorter over the origin: the result is the hull -/
theorem connect_two_ring_hull (a b : Part) (L : Int) (hL : 0 < L)
    (hns : isWrappingShorter [.simple a, .simple b] L = false) :
    connect [.simple a, .simple b] (some L) = .ok (hullOf [.simple a, .simple b]) := by
  have hL' : ¬ L ≤ 0 := by omega
  simp [connect, connectLocations, bridgesOrigin, reduce_simple, hL', mergeOverOrigin, splitSections, hns,
    pure, Except.pure, bind, Except.bind]



theorem reduce_single (p : Part) (w : Option Int) : reduceParts [p] w = .ok (.simple p) := by
  simp [reduceParts, pure, Except.pure]

theorem hullOf_single (p : Part) : hullOf [.simple p] = .simple p := by
  cases p; simp [hullOf, minList, maxList, commonStrand, Loc.start, Loc.end, Loc.strand]

/-- a is first, the gap to b is more than half the record: the result crosses the origin -/
theorem connect_two_ring_wrap (a b : Part) (L : Int) (ha : a.OK L) (hb : b.OK L) (hL : 0 < L)
    (hgap : b.lo - a.hi > L / 2) :
    connect [.simple a, .simple b] (some L) = .ok (.compound [⟨b.lo, L, .fwd⟩, ⟨0, a.hi, .fwd⟩]) := by
  obtain ⟨ha0, ha1, ha2⟩ := ha
  obtain ⟨hb0, hb1, hb2⟩ := hb
  have hL0 : L ≠ 0 := by omega
  have haL := ha2 hL0
  have hbL := hb2 hL0
  have hL' : ¬ L ≤ 0 := by omega
  have hfirst : a.lo < b.lo ∨ (a.lo = b.lo ∧ a.hi ≤ b.hi) := by omega
  have hsh : isWrappingShorter [.simple a, .simple b] L = true := by
    rw [isWrappingShorter_two, if_pos hfirst]; simpa using hgap
  have hapost : a.lo < L - a.hi := by omega
  have hbpre : ¬ (b.lo < L - b.hi) := by omega
  -- distances between the two compacted sides
  have hno : partsOverlap (⟨b.lo, b.hi, .fwd⟩ : Part) (⟨a.lo, a.hi, .fwd⟩ : Part) = false := by
    simp only [partsOverlap, Part.mem, Bool.or_eq_false_iff, Bool.and_eq_false_iff, decide_eq_false_iff_not]
    omega
  have hover : getDistance (.simple (⟨b.lo, b.hi, .fwd⟩ : Part)) (.simple (⟨a.lo, a.hi, .fwd⟩ : Part)) L = min (b.lo - a.hi) (a.lo + L - b.hi) := by
    rw [getDistance_simple, partDistance_eq_spec L (⟨b.lo, b.hi, .fwd⟩ : Part) (⟨a.lo, a.hi, .fwd⟩ : Part) ⟨hb0, hb1, fun _ => hbL⟩ ⟨ha0, ha1, fun _ => haL⟩ hno]
    simp only [specPartDist, hL0, if_false]
    rw [if_neg (by omega), if_pos (by omega)]
  have hstd : getDistance (.simple (⟨b.lo, b.hi, .fwd⟩ : Part)) (.simple (⟨a.lo, a.hi, .fwd⟩ : Part)) 0 = b.lo - a.hi := by
    rw [getDistance_simple, partDistance_eq_spec 0 (⟨b.lo, b.hi, .fwd⟩ : Part) (⟨a.lo, a.hi, .fwd⟩ : Part) ⟨hb0, hb1, fun h => absurd rfl h⟩ ⟨ha0, ha1, fun h => absurd rfl h⟩ hno]
    simp only [specPartDist, if_true, lineGap]
    rw [if_neg (by omega), if_pos (by omega)]
  have hlt : min (b.lo - a.hi) (a.lo + L - b.hi) < b.lo - a.hi := by omega
  have hab : a.lo < b.lo := by omega
  simp [connect, connectLocations, bridgesOrigin, reduce_simple, hL', mergeOverOrigin, splitSections, hsh,
    pure, Except.pure, bind, Except.bind, List.foldlM, Loc.start, Loc.end, fl, hapost, hbpre, hullOf_single,
    Loc.parts, reduce_single, hover, hstd, hlt, hab]
/-- same with the later-starting location listed first -/
theorem connect_two_ring_wrap' (a b : Part) (L : Int) (ha : a.OK L) (hb : b.OK L) (hL : 0 < L)
    (hgap : b.lo - a.hi > L / 2) :
    connect [.simple b, .simple a] (some L) = .ok (.compound [⟨b.lo, L, .fwd⟩, ⟨0, a.hi, .fwd⟩]) := by
  obtain ⟨ha0, ha1, ha2⟩ := ha
  obtain ⟨hb0, hb1, hb2⟩ := hb
  have hL0 : L ≠ 0 := by omega
  have haL := ha2 hL0
  have hbL := hb2 hL0
  have hL' : ¬ L ≤ 0 := by omega
  have hfirst : ¬ (b.lo < a.lo ∨ (b.lo = a.lo ∧ b.hi ≤ a.hi)) := by omega
  have hsh : isWrappingShorter [.simple b, .simple a] L = true := by
    rw [isWrappingShorter_two, if_neg hfirst]; simpa using hgap
  have hapost : a.lo < L - a.hi := by omega
  have hbpre : ¬ (b.lo < L - b.hi) := by omega
  -- distances between the two compacted sides
  have hno : partsOverlap (⟨b.lo, b.hi, .fwd⟩ : Part) (⟨a.lo, a.hi, .fwd⟩ : Part) = false := by
    simp only [partsOverlap, Part.mem, Bool.or_eq_false_iff, Bool.and_eq_false_iff, decide_eq_false_iff_not]
    omega
  have hover : getDistance (.simple (⟨b.lo, b.hi, .fwd⟩ : Part)) (.simple (⟨a.lo, a.hi, .fwd⟩ : Part)) L = min (b.lo - a.hi) (a.lo + L - b.hi) := by
    rw [getDistance_simple, partDistance_eq_spec L (⟨b.lo, b.hi, .fwd⟩ : Part) (⟨a.lo, a.hi, .fwd⟩ : Part) ⟨hb0, hb1, fun _ => hbL⟩ ⟨ha0, ha1, fun _ => haL⟩ hno]
    simp only [specPartDist, hL0, if_false]
    rw [if_neg (by omega), if_pos (by omega)]
  have hstd : getDistance (.simple (⟨b.lo, b.hi, .fwd⟩ : Part)) (.simple (⟨a.lo, a.hi, .fwd⟩ : Part)) 0 = b.lo - a.hi := by
    rw [getDistance_simple, partDistance_eq_spec 0 (⟨b.lo, b.hi, .fwd⟩ : Part) (⟨a.lo, a.hi, .fwd⟩ : Part) ⟨hb0, hb1, fun h => absurd rfl h⟩ ⟨ha0, ha1, fun h => absurd rfl h⟩ hno]
    simp only [specPartDist, if_true, lineGap]
    rw [if_neg (by omega), if_pos (by omega)]
  have hlt : min (b.lo - a.hi) (a.lo + L - b.hi) < b.lo - a.hi := by omega
  have hab : a.lo < b.lo := by omega
  have hba : ¬ b.lo < a.lo := by omega
  simp [connect, connectLocations, bridgesOrigin, reduce_simple, hL', mergeOverOrigin, splitSections, hsh,
    pure, Except.pure, bind, Except.bind, List.foldlM, Loc.start, Loc.end, fl, hapost, hbpre, hullOf_single,
    Loc.parts, reduce_single, hover, hstd, hlt, hab, hba]




/-- the two ways round between two arcs: the gap along the line (negative when they overlap) and
    the gap over the origin -/
def lineGapSigned (a b : Part) : Int := max a.lo b.lo - min a.hi b.hi
def originGap (a b : Part) (L : Int) : Int := min a.lo b.lo + L - max a.hi b.hi

/-- connecting two single-part locations on a ring: the result covers both, is a well-formed
    span, is never longer than the line hull, and is the shortest covering arc whenever one
    shorter than half the record exists -/
theorem connect_two_ring (a b : Part) (L : Int) (ha : a.OK L) (hb : b.OK L) (hL : 0 < L) :
    ∃ r, connect [.simple a, .simple b] (some L) = .ok r ∧
      (∀ i, (a.mem i = true ∨ b.mem i = true) → r.mem i = true) ∧
      areaWF L L r = true ∧
      r.len ≤ max a.hi b.hi - min a.lo b.lo ∧
      (2 * (L - max (lineGapSigned a b) (originGap a b L)) < L →
        r.len = L - max (lineGapSigned a b) (originGap a b L)) := by
  have hL0 : L ≠ 0 := by omega
  obtain ⟨ha0, ha1, ha2⟩ := ha
  obtain ⟨hb0, hb1, hb2⟩ := hb
  have haL := ha2 hL0
  have hbL := hb2 hL0
  have hdiv : 2 * (L / 2) ≤ L ∧ L < 2 * (L / 2) + 2 := by omega
  by_cases hord : a.lo < b.lo ∨ (a.lo = b.lo ∧ a.hi ≤ b.hi)
  · by_cases hg : b.lo - a.hi > L / 2
    · refine ⟨_, connect_two_ring_wrap a b L ⟨ha0, ha1, ha2⟩ ⟨hb0, hb1, hb2⟩ hL hg, ?_, ?_, ?_, ?_⟩
      · intro i hi; rw [mem_two]; simp only [Part.mem_iff] at hi; dsimp only; omega
      · simp [areaWF, Loc.parts]; omega
      · simp [Loc.len, Loc.parts, Part.len]; omega
      · intro _; simp [Loc.len, Loc.parts, Part.len, lineGapSigned, originGap]; omega
    · have hns : isWrappingShorter [.simple a, .simple b] L = false := by
        rw [isWrappingShorter_two, if_pos hord]; simpa using hg
      refine ⟨_, connect_two_ring_hull a b L hL hns, ?_, ?_, ?_, ?_⟩
      · intro i hi
        simp only [hullOf, List.map, minList, maxList, List.foldl, Loc.start, Loc.end, mem_simple]
        simp only [Part.mem_iff] at hi; omega
      · simp [areaWF, Loc.parts, hullOf, minList, maxList, Loc.start, Loc.end]; omega
      · simp [Loc.len, Loc.parts, Part.len, hullOf, minList, maxList, Loc.start, Loc.end]
      · intro hsh
        simp [Loc.len, Loc.parts, Part.len, hullOf, minList, maxList, Loc.start, Loc.end, lineGapSigned, originGap] at hsh ⊢
        omega
  · by_cases hg : a.lo - b.hi > L / 2
    · refine ⟨_, connect_two_ring_wrap' b a L ⟨hb0, hb1, hb2⟩ ⟨ha0, ha1, ha2⟩ hL hg, ?_, ?_, ?_, ?_⟩
      · intro i hi; rw [mem_two]; simp only [Part.mem_iff] at hi; dsimp only; omega
      · simp [areaWF, Loc.parts]; omega
      · simp [Loc.len, Loc.parts, Part.len]; omega
      · intro _; simp [Loc.len, Loc.parts, Part.len, lineGapSigned, originGap]; omega
    · have hns : isWrappingShorter [.simple a, .simple b] L = false := by
        rw [isWrappingShorter_two, if_neg hord]; simpa using hg
      refine ⟨_, connect_two_ring_hull a b L hL hns, ?_, ?_, ?_, ?_⟩
      · intro i hi
        simp only [hullOf, List.map, minList, maxList, List.foldl, Loc.start, Loc.end, mem_simple]
        simp only [Part.mem_iff] at hi; omega
      · simp [areaWF, Loc.parts, hullOf, minList, maxList, Loc.start, Loc.end]; omega
      · simp [Loc.len, Loc.parts, Part.len, hullOf, minList, maxList, Loc.start, Loc.end]
      · intro hsh
        simp [Loc.len, Loc.parts, Part.len, hullOf, minList, maxList, Loc.start, Loc.end, lineGapSigned, originGap] at hsh ⊢
        omega


end ASV
