/-
  C15 helper lemmas: the final `sorted(matches, key=...)` of `scan_orfs` (a stable insertion
  sort in the model) returns a permutation ordered by key; the matches are duplicate-free.
-/
import ASV.Proofs.OrfScan
namespace ASV.Orf
open ASV

theorem insertByKey_perm (x : Loc) (l : List Loc) : (insertByKey x l).Perm (x :: l) := by
  induction l with
  | nil => exact List.Perm.refl _
  | cons y ys ih =>
    unfold insertByKey
    split
    · exact List.Perm.refl _
    · exact ((List.Perm.cons y ih).trans (List.Perm.swap x y ys))

theorem sortByKey_perm (l : List Loc) : (sortByKey l).Perm l := by
  induction l with
  | nil => exact List.Perm.refl _
  | cons x xs ih =>
    show (insertByKey x (sortByKey xs)).Perm (x :: xs)
    exact (insertByKey_perm x _).trans (List.Perm.cons x ih)

theorem insertByKey_sorted (x : Loc) (l : List Loc)
    (h : l.Pairwise fun a b => sortKey a ≤ sortKey b) :
    (insertByKey x l).Pairwise fun a b => sortKey a ≤ sortKey b := by
  induction l with
  | nil => exact List.pairwise_singleton _ _
  | cons y ys ih =>
    unfold insertByKey
    rw [List.pairwise_cons] at h
    split
    · rename_i hxy
      refine List.Pairwise.cons ?_ (List.Pairwise.cons h.1 h.2)
      intro z hz
      rcases List.mem_cons.1 hz with rfl | hz
      · exact hxy
      · exact Int.le_trans hxy (h.1 z hz)
    · rename_i hxy
      refine List.Pairwise.cons ?_ (ih h.2)
      intro z hz
      rcases List.mem_cons.1 ((insertByKey_perm x ys).mem_iff.1 hz) with rfl | hz
      · omega
      · exact h.1 z hz

theorem sortByKey_sorted (l : List Loc) :
    (sortByKey l).Pairwise fun a b => sortKey a ≤ sortKey b := by
  induction l with
  | nil => exact List.Pairwise.nil
  | cons x xs ih => exact insertByKey_sorted x _ ih

/-- one iteration either appends `(s, i)` or nothing, and continues from `i + 3` -/
theorem scanLoop_step (w : Seq) (minLen : Int) (cnt i : Nat) (start : Option Nat) :
    (∃ st, scanLoop w minLen (cnt + 1) i start = scanLoop w minLen cnt (i + 3) st) ∨
    (∃ s, scanLoop w minLen (cnt + 1) i start = (s, i) :: scanLoop w minLen cnt (i + 3) none) := by
  cases start with
  | none =>
    by_cases h1 : isStart (codonAt w i) = true
    · exact Or.inl ⟨some i, by rw [scanLoop]; simp only [Option.isNone_none, h1, Bool.and_self, if_true]⟩
    · by_cases h2 : isStop (codonAt w i) = true
      · exact Or.inl ⟨none, by rw [scanLoop]; simp only [h1, h2, Bool.and_false, Bool.false_eq_true, if_false, if_true]⟩
      · exact Or.inl ⟨none, by rw [scanLoop]; simp only [h1, h2, Bool.and_false, Bool.false_eq_true, if_false]⟩
  | some s0 =>
    by_cases h2 : isStop (codonAt w i) = true
    · by_cases h3 : ((i : Int) + 2) - (s0 : Int) < minLen
      · exact Or.inl ⟨none, by rw [scanLoop]; simp only [Option.isNone_some, Bool.false_and, Bool.false_eq_true, if_false, h2, h3, if_true]⟩
      · exact Or.inr ⟨s0, by rw [scanLoop]; simp only [Option.isNone_some, Bool.false_and, Bool.false_eq_true, if_false, h2, h3, if_true]⟩
    · exact Or.inl ⟨some s0, by rw [scanLoop]; simp only [Option.isNone_some, Bool.false_and, Bool.false_eq_true, if_false, h2]⟩

/-- every match of the loop from `i` ends at or after `i`, in `i`'s frame -/
theorem scanLoop_snd (w : Seq) (minLen : Int) :
    ∀ (cnt i : Nat) (start : Option Nat) (x : Nat × Nat), x ∈ scanLoop w minLen cnt i start →
      i ≤ x.2 ∧ x.2 % 3 = i % 3 := by
  intro cnt
  induction cnt with
  | zero => intro i start x hx; simp only [scanLoop, List.not_mem_nil] at hx
  | succ cnt ih =>
    intro i start x hx
    have step : ∀ st, x ∈ scanLoop w minLen cnt (i + 3) st → i ≤ x.2 ∧ x.2 % 3 = i % 3 := by
      intro st h; have := ih (i + 3) st x h; omega
    rcases scanLoop_step w minLen cnt i start with ⟨st, h⟩ | ⟨s, h⟩
    · rw [h] at hx; exact step st hx
    · rw [h] at hx
      rcases List.mem_cons.1 hx with rfl | hx
      · exact ⟨Nat.le_refl _, rfl⟩
      · exact step none hx

theorem scanLoop_increasing (w : Seq) (minLen : Int) :
    ∀ (cnt i : Nat) (start : Option Nat),
      (scanLoop w minLen cnt i start).Pairwise fun a b => a.2 < b.2 := by
  intro cnt
  induction cnt with
  | zero => intro i start; simp only [scanLoop, List.Pairwise.nil]
  | succ cnt ih =>
    intro i start
    rcases scanLoop_step w minLen cnt i start with ⟨st, h⟩ | ⟨s, h⟩
    · rw [h]; exact ih _ _
    · rw [h]
      refine List.Pairwise.cons ?_ (ih _ _)
      intro b hb
      have := (scanLoop_snd w minLen cnt (i + 3) none b hb).1
      show i < b.2
      omega

theorem scanFrame_nodup (w : Seq) (minLen : Int) (f : Nat) : (scanFrame w minLen f).Nodup := by
  unfold scanFrame
  refine (scanLoop_increasing w minLen _ f none).imp ?_
  intro a b h hab
  rw [hab] at h
  exact Nat.lt_irrefl _ h

theorem scanFrame_frame (w : Seq) (minLen : Int) (f : Nat) (x : Nat × Nat)
    (hx : x ∈ scanFrame w minLen f) : x.2 % 3 = f % 3 :=
  (scanLoop_snd w minLen _ f none x hx).2

/-- no match is appended twice -/
theorem scanMatches_nodup (w : Seq) (minLen : Int) : (scanMatches w minLen).Nodup := by
  unfold scanMatches
  rw [List.nodup_append, List.nodup_append]
  refine ⟨⟨scanFrame_nodup _ _ _, scanFrame_nodup _ _ _, ?_⟩, scanFrame_nodup _ _ _, ?_⟩
  · intro a ha b hb hab
    have h1 := scanFrame_frame _ _ _ a ha
    have h2 := scanFrame_frame _ _ _ b hb
    rw [hab] at h1; omega
  · intro a ha b hb hab
    have h2 := scanFrame_frame _ _ _ b hb
    rcases List.mem_append.1 ha with ha | ha
    · have h1 := scanFrame_frame _ _ _ a ha
      rw [hab] at h1; omega
    · have h1 := scanFrame_frame _ _ _ a ha
      rw [hab] at h1; omega

/-- all three frames together: exactly the ORFs of the window longer than `minLen` -/
theorem mem_scanMatches (w : Seq) (minLen : Int) (s e : Nat) :
    (s, e) ∈ scanMatches w minLen ↔ IsOrf w s e ∧ minLen < orfLen s e := by
  unfold scanMatches
  simp only [List.mem_append, scanFrame_mem w minLen 0 (by omega), scanFrame_mem w minLen 1 (by omega),
    scanFrame_mem w minLen 2 (by omega)]
  constructor
  · rintro ((h | h) | h) <;> exact h.2
  · intro h
    have : s % 3 = 0 ∨ s % 3 = 1 ∨ s % 3 = 2 := by omega
    rcases this with h0 | h1 | h2
    · exact Or.inl (Or.inl ⟨h0, h⟩)
    · exact Or.inl (Or.inr ⟨h1, h⟩)
    · exact Or.inr ⟨h2, h⟩

end ASV.Orf
