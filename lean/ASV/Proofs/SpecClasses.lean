/-
  C05: the executable reference's class computation (`Spec.classesOf`: grow a class by fixpoint
  union, remove it, repeat) returns the connected components of the symmetrised relation.
-/
import ASV.Proofs.Refines
set_option linter.unusedSectionVars false
set_option linter.unusedVariables false
set_option linter.unusedSimpArgs false
namespace ASV.CC
open ASV.CC.Spec

section
variable {α : Type} [DecidableEq α]

/-- the relation read in both directions -/
def symRel (rel : α → α → Bool) (a b : α) : Bool := rel a b || rel b a

theorem symRel_comm (rel : α → α → Bool) (a b : α) : symRel rel a b = symRel rel b a := by
  simp only [symRel, Bool.or_comm]

/-- `b` can be reached from `a` by steps of the relation through elements of `S` -/
inductive Walk (rel : α → α → Bool) (S : List α) : α → α → Prop
  | refl (a : α) : Walk rel S a a
  | step {a b c : α} : Walk rel S a b → c ∈ S → symRel rel b c = true → Walk rel S a c

theorem Walk.mono {rel : α → α → Bool} {S T : List α} (h : ∀ x, x ∈ S → x ∈ T) {a b : α} (r : Walk rel S a b) :
    Walk rel T a b := by
  induction r with
  | refl => exact Walk.refl _
  | step _ hc hs ih => exact Walk.step ih (h _ hc) hs

theorem Walk.trans {rel : α → α → Bool} {S : List α} {a b c : α} (r1 : Walk rel S a b) (r2 : Walk rel S b c) :
    Walk rel S a c := by
  induction r2 with
  | refl => exact r1
  | step _ hc hs ih => exact Walk.step ih hc hs

theorem Walk.mem {rel : α → α → Bool} {S : List α} {a b : α} (r : Walk rel S a b) (ha : a ∈ S) : b ∈ S := by
  induction r with
  | refl => exact ha
  | step _ hc _ _ => exact hc

theorem Walk.symm {rel : α → α → Bool} {S : List α} {a b : α} (r : Walk rel S a b) (ha : a ∈ S) : Walk rel S b a := by
  induction r with
  | refl => exact Walk.refl _
  | step r' hc hs ih =>
    have hb := r'.mem ha
    exact (Walk.step (Walk.refl _) hb (by rw [symRel_comm]; exact hs)).trans ih

theorem filter_length_lt {l : List α} {p q : α → Bool} (hpq : ∀ x, p x = true → q x = true)
    (hex : ∃ x, x ∈ l ∧ q x = true ∧ p x = false) : (l.filter p).length < (l.filter q).length := by
  induction l with
  | nil => obtain ⟨x, hx, _⟩ := hex; cases hx
  | cons y ys ih =>
    have hle : (ys.filter p).length ≤ (ys.filter q).length := by
      clear ih hex
      induction ys with
      | nil => simp
      | cons z zs ih2 =>
        simp only [List.filter_cons]
        by_cases hp : p z = true
        · simp [hp, hpq z hp]; exact ih2
        · by_cases hq : q z = true
          · simp [hp, hq]; omega
          · simp [hp, hq]; exact ih2
    obtain ⟨x, hx, hqx, hpx⟩ := hex
    simp only [List.filter_cons]
    rcases List.mem_cons.1 hx with e | e
    · subst e
      simp [hqx, hpx]; omega
    · have := ih ⟨x, e, hqx, hpx⟩
      by_cases hp : p y = true
      · simp [hp, hpq y hp]; exact this
      · by_cases hq : q y = true
        · simp [hp, hq]; omega
        · simp [hp, hq]; exact this

/-! ### `grow` -/

theorem grow_sub (rel : α → α → Bool) (pool : List α) (n : Nat) (acc : List α) : ∀ x, x ∈ acc → x ∈ grow rel pool n acc := by
  induction n generalizing acc with
  | zero => intro x hx; exact hx
  | succ n ih =>
    intro x hx
    simp only [grow]
    split
    · exact hx
    · exact ih _ x (List.mem_append.2 (Or.inl hx))

theorem grow_sound (rel : α → α → Bool) (pool : List α) (n : Nat) (acc : List α) :
    ∀ x, x ∈ grow rel pool n acc → (x ∈ acc ∨ x ∈ pool) ∧ ∃ a, a ∈ acc ∧ Walk rel pool a x := by
  induction n generalizing acc with
  | zero => intro x hx; exact ⟨Or.inl hx, x, hx, Walk.refl x⟩
  | succ n ih =>
    intro x hx
    simp only [grow] at hx
    split at hx
    · exact ⟨Or.inl hx, x, hx, Walk.refl x⟩
    · obtain ⟨h1, a, ha, hr⟩ := ih _ x hx
      have hmore : ∀ m, m ∈ pool.filter (fun u => !acc.contains u && acc.any fun a => rel a u || rel u a) →
          m ∈ pool ∧ ∃ b, b ∈ acc ∧ symRel rel b m = true := by
        intro m hm
        obtain ⟨hmp, hc⟩ := List.mem_filter.1 hm
        simp only [Bool.and_eq_true, List.any_eq_true] at hc
        obtain ⟨_, b, hb, hs⟩ := hc
        exact ⟨hmp, b, hb, hs⟩
      refine ⟨?_, ?_⟩
      · rcases h1 with h | h
        · rcases List.mem_append.1 h with h2 | h2
          · exact Or.inl h2
          · exact Or.inr (hmore x h2).1
        · exact Or.inr h
      · rcases List.mem_append.1 ha with h2 | h2
        · exact ⟨a, h2, hr⟩
        · obtain ⟨hap, b, hb, hs⟩ := hmore a h2
          exact ⟨b, hb, (Walk.step (Walk.refl b) hap hs).trans hr⟩

/-- with enough rounds the result is closed under the relation inside the pool -/
theorem grow_closed (rel : α → α → Bool) (pool : List α) (n : Nat) (acc : List α)
    (hn : (pool.filter fun u => !acc.contains u).length ≤ n) :
    ∀ x, x ∈ grow rel pool n acc → ∀ u, u ∈ pool → symRel rel x u = true → u ∈ grow rel pool n acc := by
  induction n generalizing acc with
  | zero =>
    intro x _ u hu _
    simp only [grow]
    have : pool.filter (fun u => !acc.contains u) = [] := List.eq_nil_of_length_eq_zero (by omega)
    by_cases hin : u ∈ acc
    · exact hin
    · exfalso
      have : u ∈ pool.filter (fun u => !acc.contains u) := List.mem_filter.2 ⟨hu, by simpa using hin⟩
      rw [‹pool.filter (fun u => !acc.contains u) = []›] at this
      cases this
  | succ n ih =>
    intro x hx u hu hs
    simp only [grow] at hx ⊢
    split
    · rename_i hemp
      rw [if_pos hemp] at hx
      by_cases hin : u ∈ acc
      · exact hin
      · exfalso
        have : u ∈ pool.filter (fun u => !acc.contains u && acc.any fun a => rel a u || rel u a) := by
          apply List.mem_filter.2
          refine ⟨hu, ?_⟩
          simp only [Bool.and_eq_true, List.any_eq_true]
          exact ⟨by simpa using hin, x, hx, hs⟩
        have he : pool.filter (fun u => !acc.contains u && acc.any fun a => rel a u || rel u a) = [] := by simpa using hemp
        rw [he] at this; cases this
    · rename_i hemp
      rw [if_neg hemp] at hx
      apply ih _ _ x hx u hu hs
      -- the count of pool elements outside the class went down
      have hne : pool.filter (fun u => !acc.contains u && acc.any fun a => rel a u || rel u a) ≠ [] := by simpa using hemp
      obtain ⟨m, hm⟩ := List.exists_mem_of_ne_nil _ hne
      obtain ⟨hmp, hc⟩ := List.mem_filter.1 hm
      simp only [Bool.and_eq_true] at hc
      have hlt := filter_length_lt (l := pool)
        (p := fun u => !(acc ++ pool.filter (fun u => !acc.contains u && acc.any fun a => rel a u || rel u a)).contains u)
        (q := fun u => !acc.contains u)
        (by
          intro y hy
          simp only [Bool.not_eq_true', List.contains_eq_mem, decide_eq_false_iff_not, List.mem_append, not_or] at hy ⊢
          exact hy.1)
        ⟨m, hmp, hc.1, by
          have hmm : m ∈ acc ++ pool.filter (fun u => !acc.contains u && acc.any fun a => rel a u || rel u a) :=
            List.mem_append.2 (Or.inr hm)
          simp only [Bool.not_eq_false', List.contains_eq_mem, decide_eq_true_eq]
          simpa using hmm⟩
      omega

/-! ### `classes` -/

theorem classes_spec (rel : α → α → Bool) (n : Nat) (l : List α) (hn : l.length ≤ n) :
    (∀ c, c ∈ classes rel n l → c ≠ [] ∧ ∀ x, x ∈ c → x ∈ l) ∧
    (∀ u, u ∈ l → ∃ c, c ∈ classes rel n l ∧ u ∈ c) ∧
    (∀ c, c ∈ classes rel n l → ∀ x, x ∈ c → ∀ y, y ∈ c → Walk rel l x y) ∧
    (∀ c, c ∈ classes rel n l → ∀ x, x ∈ c → ∀ y, y ∈ l → symRel rel x y = true → y ∈ c) := by
  induction n generalizing l with
  | zero =>
    have : l = [] := List.eq_nil_of_length_eq_zero (by omega)
    subst this
    simp [classes]
  | succ n ih =>
    cases l with
    | nil => simp [classes]
    | cons u rest =>
      simp only [classes]
      generalize hcls : grow rel rest rest.length [u] = cls
      have hu : u ∈ cls := by rw [← hcls]; exact grow_sub _ _ _ _ u (List.mem_singleton.2 rfl)
      have hsound := fun x (hx : x ∈ cls) => grow_sound rel rest rest.length [u] x (by rw [hcls]; exact hx)
      have hclosed : ∀ x, x ∈ cls → ∀ y, y ∈ rest → symRel rel x y = true → y ∈ cls := by
        intro x hx y hy hs
        rw [← hcls] at hx ⊢
        exact grow_closed rel rest rest.length [u] (List.length_filter_le _ _) x hx y hy hs
      have hlen : (rest.filter fun x => !cls.contains x).length ≤ n := by
        have := List.length_filter_le (fun x => !cls.contains x) rest
        simp only [List.length_cons] at hn
        omega
      obtain ⟨i1, i2, i3, i4⟩ := ih (rest.filter fun x => !cls.contains x) hlen
      have hsubr : ∀ x, x ∈ rest.filter (fun x => !cls.contains x) → x ∈ u :: rest :=
        fun x hx => List.mem_cons_of_mem _ (List.mem_filter.1 hx).1
      have hnot : ∀ x, x ∈ rest.filter (fun x => !cls.contains x) → x ∉ cls := by
        intro x hx; simpa using (List.mem_filter.1 hx).2
      refine ⟨?_, ?_, ?_, ?_⟩
      · intro c hc
        rcases List.mem_cons.1 hc with e | hc
        · subst e
          refine ⟨List.ne_nil_of_mem hu, ?_⟩
          intro x hx
          rcases (hsound x hx).1 with h | h
          · rw [List.mem_singleton.1 h]; exact List.mem_cons_self
          · exact List.mem_cons_of_mem _ h
        · exact ⟨(i1 c hc).1, fun x hx => hsubr x ((i1 c hc).2 x hx)⟩
      · intro v hv
        by_cases hvc : v ∈ cls
        · exact ⟨cls, List.mem_cons_self, hvc⟩
        · have hvr : v ∈ rest := by
            rcases List.mem_cons.1 hv with e | h
            · exact absurd (e ▸ hu) hvc
            · exact h
          obtain ⟨c, hc, hvc'⟩ := i2 v (List.mem_filter.2 ⟨hvr, by simpa using hvc⟩)
          exact ⟨c, List.mem_cons_of_mem _ hc, hvc'⟩
      · intro c hc x hx y hy
        rcases List.mem_cons.1 hc with e | hc
        · subst e
          have wx : Walk rel (u :: rest) u x := by
            obtain ⟨_, a, ha, r⟩ := hsound x hx
            rw [List.mem_singleton.1 ha] at r
            exact r.mono fun z hz => List.mem_cons_of_mem _ hz
          have wy : Walk rel (u :: rest) u y := by
            obtain ⟨_, a, ha, r⟩ := hsound y hy
            rw [List.mem_singleton.1 ha] at r
            exact r.mono fun z hz => List.mem_cons_of_mem _ hz
          exact (wx.symm List.mem_cons_self).trans wy
        · exact (i3 c hc x hx y hy).mono hsubr
      · intro c hc x hx y hy hs
        rcases List.mem_cons.1 hc with e | hc
        · subst e
          rcases List.mem_cons.1 hy with e | h
          · rw [e]; exact hu
          · exact hclosed x hx y h hs
        · have hxr := (i1 c hc).2 x hx
          have hycls : y ∉ cls := by
            intro hyc
            have hxrest : x ∈ rest := (List.mem_filter.1 hxr).1
            exact hnot x hxr (hclosed y hyc x hxrest (by rw [symRel_comm]; exact hs))
          have hyr : y ∈ rest := by
            rcases List.mem_cons.1 hy with e | h
            · exact absurd (e ▸ hu) hycls
            · exact h
          exact i4 c hc x hx y (List.mem_filter.2 ⟨hyr, by simpa using hycls⟩) hs

/-- `Spec.classesOf` returns the connected components: every element is in a class, classes are
    non-empty parts of the input, and two elements share a class exactly when a chain of related
    elements joins them. -/
theorem classesOf_components (rel : α → α → Bool) (l : List α) :
    (∀ c, c ∈ classesOf rel l → c ≠ [] ∧ ∀ x, x ∈ c → x ∈ l) ∧
    (∀ u, u ∈ l → ∃ c, c ∈ classesOf rel l ∧ u ∈ c) ∧
    (∀ c, c ∈ classesOf rel l → ∀ x, x ∈ c → ∀ y, (y ∈ c ↔ Walk rel l x y)) := by
  obtain ⟨h1, h2, h3, h4⟩ := classes_spec rel l.length l (Nat.le_refl _)
  refine ⟨h1, h2, ?_⟩
  intro c hc x hx y
  refine ⟨fun hy => h3 c hc x hx y hy, ?_⟩
  intro w
  induction w with
  | refl => exact hx
  | step _ hcm hs ih => exact h4 c hc _ ih _ hcm hs

/-- two classes with a common element have the same elements -/
theorem classesOf_disjoint (rel : α → α → Bool) (l : List α) (c d : List α)
    (hc : c ∈ classesOf rel l) (hd : d ∈ classesOf rel l) (x : α) (hxc : x ∈ c) (hxd : x ∈ d) :
    ∀ y, y ∈ c ↔ y ∈ d := by
  obtain ⟨_, _, h3⟩ := classesOf_components rel l
  intro y
  rw [h3 c hc x hxc y, h3 d hd x hxd y]

/-! ### classes have no repeated element -/

theorem grow_nodup (rel : α → α → Bool) (pool : List α) (hp : pool.Nodup) (n : Nat) (acc : List α) (ha : acc.Nodup) :
    (grow rel pool n acc).Nodup := by
  induction n generalizing acc with
  | zero => exact ha
  | succ n ih =>
    simp only [grow]
    split
    · exact ha
    · apply ih
      refine List.nodup_append.2 ⟨ha, hp.filter _, ?_⟩
      intro a haa b hb e
      have := (List.mem_filter.1 hb).2
      simp only [Bool.and_eq_true, Bool.not_eq_true', List.contains_eq_mem, decide_eq_false_iff_not] at this
      exact this.1 (e ▸ haa)

theorem classes_nodup (rel : α → α → Bool) (n : Nat) (l : List α) (hl : l.Nodup) :
    ∀ c, c ∈ classes rel n l → c.Nodup := by
  induction n generalizing l with
  | zero => intro c hc; simp [classes] at hc
  | succ n ih =>
    cases l with
    | nil => intro c hc; simp [classes] at hc
    | cons u rest =>
      intro c hc
      simp only [classes] at hc
      rcases List.mem_cons.1 hc with e | hc
      · rw [e]; exact grow_nodup rel rest (List.nodup_cons.1 hl).2 _ _ (by simp)
      · exact ih _ ((List.nodup_cons.1 hl).2.filter _) c hc

theorem other_of_nodup {c : List α} (hn : c.Nodup) (h2 : 2 ≤ c.length) (a : α) : ∃ b, b ∈ c ∧ b ≠ a := by
  match c, hn, h2 with
  | x :: y :: _, hn, _ =>
    by_cases e : x = a
    · refine ⟨y, by simp, ?_⟩
      intro e2
      have := (List.nodup_cons.1 hn).1
      exact this (by rw [e, ← e2]; simp)
    · exact ⟨x, by simp, e⟩

theorem length_two_of_ne {c : List α} {a b : α} (ha : a ∈ c) (hb : b ∈ c) (hne : a ≠ b) : 2 ≤ c.length := by
  match c, ha, hb with
  | [x], ha, hb =>
    simp only [List.mem_singleton] at ha hb
    exact absurd (ha.trans hb.symm) hne
  | _ :: _ :: _, _, _ => simp

/-- the classes of at least two elements are the chain classes (`Linked`) of the related pairs -/
theorem bigClasses_linked (rel : α → α → Bool) (l : List α) (hl : l.Nodup) (G : List (List α))
    (hG : ∀ g, g ∈ G ↔ ∃ a b, Before a b l ∧ symRel rel a b = true ∧ g = [a, b]) (a b : α) :
    (∃ c, c ∈ (classesOf rel l).filter (fun c => c.length ≥ 2) ∧ a ∈ c ∧ b ∈ c) ↔ Linked G a b := by
  obtain ⟨h1, h2, h3⟩ := classesOf_components rel l
  have hstep : ∀ x y, x ∈ l → y ∈ l → x ≠ y → symRel rel x y = true → Linked G x y := by
    intro x y hx hy hne hs
    rcases before_total hx hy hne with hb | hb
    · exact Linked.base ((hG [x, y]).2 ⟨x, y, hb, hs, rfl⟩) (by simp) (by simp)
    · exact Linked.base ((hG [y, x]).2 ⟨y, x, hb, by rw [symRel_comm]; exact hs, rfl⟩) (by simp) (by simp)
  have hwalk : ∀ x y, Walk rel l x y → x ∈ l → x = y ∨ Linked G x y := by
    intro x y w hx
    induction w with
    | refl => exact Or.inl rfl
    | @step b' c' w' hc hs ih =>
      have hb' := w'.mem hx
      by_cases e : b' = c'
      · rw [← e]; exact ih
      · have hl' := hstep b' c' hb' hc e hs
        rcases ih with e2 | hlk
        · rw [e2]; exact Or.inr hl'
        · exact Or.inr (Linked.trans hlk hl')
  constructor
  · rintro ⟨c, hc, hac, hbc⟩
    obtain ⟨hc, hlen⟩ := List.mem_filter.1 hc
    have hlen : 2 ≤ c.length := by simpa using hlen
    have hcn := classes_nodup rel l.length l hl c hc
    have hal := (h1 c hc).2 a hac
    rcases hwalk a b ((h3 c hc a hac b).1 hbc) hal with e | hlk
    · subst e
      obtain ⟨a', ha', hne⟩ := other_of_nodup hcn hlen a
      rcases hwalk a a' ((h3 c hc a hac a').1 ha') hal with e | hlk
      · exact absurd e.symm hne
      · exact Linked.trans hlk (linked_symm hlk)
    · exact hlk
  · intro hlk
    induction hlk with
    | @base g x y hg hx hy =>
      obtain ⟨u, v, hb, hs, e⟩ := (hG g).1 hg
      subst e
      obtain ⟨hul, hvl⟩ := before_mem hb
      have hne := before_ne hl hb
      obtain ⟨c, hc, huc⟩ := h2 u hul
      have hvc : v ∈ c := (h3 c hc u huc v).2 (Walk.step (Walk.refl u) hvl hs)
      refine ⟨c, List.mem_filter.2 ⟨hc, by simpa using length_two_of_ne huc hvc hne⟩, ?_, ?_⟩
      · rcases List.mem_cons.1 hx with e | h
        · rw [e]; exact huc
        · rw [List.mem_singleton.1 h]; exact hvc
      · rcases List.mem_cons.1 hy with e | h
        · rw [e]; exact huc
        · rw [List.mem_singleton.1 h]; exact hvc
    | trans _ _ ih1 ih2 =>
      obtain ⟨c, hc, hac, hbc⟩ := ih1
      obtain ⟨d, hd, hbd, hcd⟩ := ih2
      refine ⟨c, hc, hac, ?_⟩
      exact (classesOf_disjoint rel l c d (List.mem_filter.1 hc).1 (List.mem_filter.1 hd).1 _ hbc hbd _).2 hcd

end

/-- the hybrid classes of the executable reference are the chain classes of "share a defining gene" -/
theorem reference_hybrid_classes (ps : List Proto) (hn : ps.Nodup) (a b : Proto) :
    (∃ c, c ∈ (classesOf shareGene ps).filter (fun c => c.length ≥ 2) ∧ a ∈ c ∧ b ∈ c) ↔
      Linked (shareGroups ps) a b := by
  apply bigClasses_linked shareGene ps hn
  intro g
  rw [mem_shareGroups]
  have : ∀ x y, symRel shareGene x y = shares x y := by
    intro x y
    show (shares x y || shares y x) = shares x y
    rw [shares_comm y x, Bool.or_self]
  simp only [this]

/-- the chain classes of `shareGroups` do not depend on the order of the list -/
theorem linked_shareGroups_of_sub {l l' : List Proto} (hl : l.Nodup) (hsub : ∀ x, x ∈ l → x ∈ l') {a b : Proto}
    (h : Linked (shareGroups l) a b) : Linked (shareGroups l') a b := by
  induction h with
  | @base g x y hg hx hy =>
    obtain ⟨p, q, hb, hs, e⟩ := mem_shareGroups.1 hg
    subst e
    have hne := before_ne hl hb
    obtain ⟨hp, hq⟩ := before_mem hb
    rcases before_total (hsub p hp) (hsub q hq) hne with hb' | hb'
    · exact Linked.base (mem_shareGroups.2 ⟨p, q, hb', hs, rfl⟩) hx hy
    · exact Linked.base (mem_shareGroups.2 ⟨q, p, hb', by rw [shares_comm]; exact hs, rfl⟩)
        (pair_sub_swap hx) (pair_sub_swap hy)
  | trans _ _ ih1 ih2 => exact Linked.trans ih1 ih2

/-- the reference's hybrid classes (computed on the input order) are the chain classes of the model's
    own order (`sortProtos`) -/
theorem reference_hybrid_classes_sorted (ps : List Proto) (hn : ps.Nodup) (a b : Proto) :
    (∃ c, c ∈ (classesOf shareGene ps).filter (fun c => c.length ≥ 2) ∧ a ∈ c ∧ b ∈ c) ↔
      Linked (shareGroups (sortProtos ps)) a b := by
  rw [reference_hybrid_classes ps hn]
  constructor
  · exact linked_shareGroups_of_sub hn fun x hx => mem_sortProtos.2 hx
  · exact linked_shareGroups_of_sub (nodup_sortProtos hn) fun x hx => mem_sortProtos.1 hx

/-! ### the interleaved / neighbouring classes of the reference, as protocluster groups -/

theorem mem_specUnion {a b : List Proto} {x : Proto} : x ∈ Spec.union a b ↔ x ∈ a ∨ x ∈ b := by
  simp only [Spec.union, List.mem_append, List.mem_eraseDups, List.mem_filter, Bool.not_eq_true',
    List.contains_eq_mem, decide_eq_false_iff_not]
  constructor
  · rintro (h | ⟨h, _⟩)
    · exact Or.inl h
    · exact Or.inr h
  · rintro (h | h)
    · exact Or.inl h
    · by_cases hx : x ∈ a
      · exact Or.inl hx
      · exact Or.inr ⟨h, hx⟩

theorem mem_foldl_specUnion (c : List U) (acc : List Proto) (x : Proto) :
    x ∈ c.foldl (fun acc u => Spec.union acc u.members) acc ↔ x ∈ acc ∨ ∃ u, u ∈ c ∧ x ∈ u.members := by
  induction c generalizing acc with
  | nil => simp
  | cons v rest ih =>
    simp only [List.foldl_cons, ih, mem_specUnion, List.mem_cons, exists_eq_or_imp, or_assoc]

/-- the relation of the interleaved / neighbouring classes in the reference -/
def overlapRel (a b : U) : Bool := locationsOverlap a.span b.span

/-- The groups the executable reference forms from its unit classes (`bigClasses`, then the union of
    the members) are the chain classes of `overlapGroups`, the notion the stage theorems use — when no
    unit is listed twice, no unit is empty, and two units with a common protocluster overlap. -/
theorem reference_overlap_classes (us : List U) (hn : us.Nodup) (hne : ∀ u, u ∈ us → u.members ≠ [])
    (hshare : ∀ u v p, u ∈ us → v ∈ us → p ∈ u.members → p ∈ v.members →
      u = v ∨ locationsOverlap u.span v.span = true) (a b : Proto) :
    (∃ g, g ∈ (bigClasses us).map (fun c => c.foldl (fun acc u => Spec.union acc u.members) []) ∧ a ∈ g ∧ b ∈ g) ↔
      Linked (overlapGroups us) a b := by
  -- the unit-level pairs
  let G : List (List U) := ((allPairs us).filter fun x => overlapRel x.1 x.2).map fun x => [x.1, x.2]
  have hsym : ∀ x y, symRel overlapRel x y = overlapRel x y := by
    intro x y
    show (locationsOverlap x.span y.span || locationsOverlap y.span x.span) = locationsOverlap x.span y.span
    rw [locationsOverlap_comm y.span x.span, Bool.or_self]
  have hG : ∀ g, g ∈ G ↔ ∃ x y, Before x y us ∧ symRel overlapRel x y = true ∧ g = [x, y] := by
    intro g
    simp only [G, List.mem_map, List.mem_filter, mem_allPairs, hsym]
    constructor
    · rintro ⟨x, ⟨hb, ho⟩, e⟩; exact ⟨x.1, x.2, hb, ho, e.symm⟩
    · rintro ⟨u, v, hb, ho, e⟩; exact ⟨(u, v), ⟨hb, ho⟩, e.symm⟩
  have hunit := bigClasses_linked overlapRel us hn G hG
  obtain ⟨h1, h2, h3⟩ := classesOf_components overlapRel us
  -- unit chains give protocluster chains
  have hdown : ∀ u v, Linked G u v → ∀ a b, a ∈ u.members → b ∈ v.members → Linked (overlapGroups us) a b := by
    intro u v hl
    induction hl with
    | @base g x y hg hx hy =>
      obtain ⟨p, q, hb, hs, e⟩ := (hG g).1 hg
      subst e
      rw [hsym] at hs
      intro a b ha hb'
      have hmem : (p.members ++ q.members) ∈ overlapGroups us := mem_overlapGroups.2 ⟨p, q, hb, hs, rfl⟩
      refine Linked.base hmem ?_ ?_
      · rcases List.mem_cons.1 hx with e | h
        · rw [e] at ha; exact List.mem_append.2 (Or.inl ha)
        · rw [List.mem_singleton.1 h] at ha; exact List.mem_append.2 (Or.inr ha)
      · rcases List.mem_cons.1 hy with e | h
        · rw [e] at hb'; exact List.mem_append.2 (Or.inl hb')
        · rw [List.mem_singleton.1 h] at hb'; exact List.mem_append.2 (Or.inr hb')
    | @trans x w y hl1 _ ih1 ih2 =>
      intro a b ha hb
      have hw : w ∈ us := by
        obtain ⟨g, hg, hwg⟩ := linked_mem_left (linked_symm hl1)
        obtain ⟨p, q, hbf, _, e⟩ := (hG g).1 hg
        subst e
        rcases List.mem_cons.1 hwg with e | h
        · rw [e]; exact (before_mem hbf).1
        · rw [List.mem_singleton.1 h]; exact (before_mem hbf).2
      obtain ⟨m, hm⟩ := List.exists_mem_of_ne_nil _ (hne w hw)
      exact Linked.trans (ih1 a m ha hm) (ih2 m b hm hb)
  constructor
  · rintro ⟨g, hg, hag, hbg⟩
    obtain ⟨c, hc, e⟩ := List.mem_map.1 hg
    subst e
    rw [mem_foldl_specUnion] at hag hbg
    simp only [List.not_mem_nil, false_or] at hag hbg
    obtain ⟨u, huc, hau⟩ := hag
    obtain ⟨v, hvc, hbv⟩ := hbg
    exact hdown u v ((hunit u v).1 ⟨c, hc, huc, hvc⟩) a b hau hbv
  · intro hl
    -- strengthen: the class and the two units
    have key : ∃ c, c ∈ bigClasses us ∧ (∃ u, u ∈ c ∧ a ∈ u.members) ∧ ∃ v, v ∈ c ∧ b ∈ v.members := by
      induction hl with
      | @base g x y hg hx hy =>
        obtain ⟨p, q, hb, ho, e⟩ := mem_overlapGroups.1 hg
        subst e
        obtain ⟨c, hc, hpc, hqc⟩ := (hunit p q).2
          (Linked.base ((hG [p, q]).2 ⟨p, q, hb, by rw [hsym]; exact ho, rfl⟩) (by simp) (by simp))
        refine ⟨c, hc, ?_, ?_⟩
        · rcases List.mem_append.1 hx with h | h
          · exact ⟨p, hpc, h⟩
          · exact ⟨q, hqc, h⟩
        · rcases List.mem_append.1 hy with h | h
          · exact ⟨p, hpc, h⟩
          · exact ⟨q, hqc, h⟩
      | trans _ _ ih1 ih2 =>
        obtain ⟨c, hc, hu, v, hvc, hbv⟩ := ih1
        obtain ⟨d, hd, ⟨v', hvd, hbv'⟩, w, hwd, hcw⟩ := ih2
        have hc' := (List.mem_filter.1 hc).1
        have hd' := (List.mem_filter.1 hd).1
        have hv'c : v' ∈ c := by
          rcases hshare v v' _ ((h1 c hc').2 v hvc) ((h1 d hd').2 v' hvd) hbv hbv' with e | ho
          · rw [← e]; exact hvc
          · exact (h3 c hc' v hvc v').2 (Walk.step (Walk.refl v) ((h1 d hd').2 v' hvd) (by rw [hsym]; exact ho))
        have hwc : w ∈ c := (classesOf_disjoint overlapRel us c d hc' hd' v' hv'c hvd w).2 hwd
        exact ⟨c, hc, hu, w, hwc, hcw⟩
    obtain ⟨c, hc, ⟨u, huc, hau⟩, v, hvc, hbv⟩ := key
    refine ⟨_, List.mem_map.2 ⟨c, hc, rfl⟩, ?_, ?_⟩
    · rw [mem_foldl_specUnion]; exact Or.inr ⟨u, huc, hau⟩
    · rw [mem_foldl_specUnion]; exact Or.inr ⟨v, hvc, hbv⟩

end ASV.CC
