/-
  The sorted sweep against the running hull (`create_regions`, reach distance 0), generic in the
  member type, over `Int` coordinates.  Same algorithm as `ASV.Sweep.go` (Appendix B of DESIGN.md,
  `Proofs/Sweep.lean`, kept verbatim for C03) with `c = 0`; here the members keep their identity
  and all three halves are proved in one induction:
    * the groups, concatenated, are the input                           (`GoSpec.flat`)
    * a closed group ends before any later group starts                 (`GoSpec.sep`)
    * every non-first member of a group overlaps an earlier member      (`GoSpec.chained`, the `hiAtt` half)
    * each group's hull is exactly [lo of its first member, max hi)     (`GoSpec.inv`)
-/
import ASV.Proofs.Sweep
namespace ASV.SweepG

structure Grp (α : Type) where
  lo : Int
  hi : Int
  members : List α

variable {α : Type}

def go (lo hi : α → Int) (cur : Grp α) : List α → List (Grp α)
  | [] => [cur]
  | y :: ys =>
    if lo y < cur.hi then go lo hi ⟨cur.lo, max cur.hi (hi y), cur.members ++ [y]⟩ ys
    else cur :: go lo hi ⟨lo y, hi y, [y]⟩ ys

def sweep (lo hi : α → Int) : List α → List (Grp α)
  | [] => []
  | x :: xs => go lo hi ⟨lo x, hi x, [x]⟩ xs

/-- every member but the first starts before the end of some earlier member (and not before its start) -/
def Chained (lo hi : α → Int) : List α → Prop
  | [] => True
  | m :: rest => ∀ pre x post, rest = pre ++ x :: post → ∃ e ∈ m :: pre, lo e ≤ lo x ∧ lo x < hi e

/-- invariant of a group (under construction or closed) -/
structure GInv (lo hi : α → Int) (g : Grp α) : Prop where
  ne : g.members ≠ []
  hiMax : ∀ m ∈ g.members, hi m ≤ g.hi
  hiAtt : ∃ m ∈ g.members, hi m = g.hi
  loMin : ∀ m ∈ g.members, g.lo ≤ lo m
  loAtt : ∃ m ∈ g.members, lo m = g.lo
  wf : ∀ m ∈ g.members, lo m < hi m
  sorted : g.members.Pairwise (fun a b => lo a ≤ lo b)
  chained : Chained lo hi g.members

structure GoSpec (lo hi : α → Int) (cur : Grp α) (ys : List α) (gs : List (Grp α)) : Prop where
  flat : (gs.map Grp.members).flatten = cur.members ++ ys
  inv : ∀ g ∈ gs, GInv lo hi g
  sep : gs.Pairwise (fun g g' => g.hi ≤ g'.lo)
  lo_ge : ∀ g ∈ gs, cur.lo ≤ g.lo
  ne : gs ≠ []

theorem chained_snoc {lo hi : α → Int} {ms : List α} {y : α} (hne : ms ≠ [])
    (hc : Chained lo hi ms) (he : ∃ e ∈ ms, lo e ≤ lo y ∧ lo y < hi e) : Chained lo hi (ms ++ [y]) := by
  cases ms with
  | nil => exact absurd rfl hne
  | cons m rest =>
    simp only [List.cons_append, Chained]
    intro pre x post hsplit
    -- rest ++ [y] = pre ++ x :: post
    by_cases hpost : post = []
    · subst hpost
      have h1 : rest ++ [y] = pre ++ [x] := hsplit
      have h2 := List.append_inj' h1 rfl
      obtain ⟨rfl, h3⟩ := h2
      simp only [List.cons.injEq, and_true] at h3
      subst h3
      exact he
    · obtain ⟨post', z, rfl⟩ : ∃ post' z, post = post' ++ [z] := by
        rcases List.eq_nil_or_concat post with h | ⟨l, a, h⟩
        · exact absurd h hpost
        · exact ⟨l, a, by simpa using h⟩
      have h1 : rest ++ [y] = (pre ++ x :: post') ++ [z] := by simpa using hsplit
      have h2 := List.append_inj' h1 rfl
      exact hc pre x post' h2.1

theorem go_spec (lo hi : α → Int) (cur : Grp α) (ys : List α)
    (hinv : GInv lo hi cur) (hs : ∀ y ∈ ys, cur.lo ≤ lo y)
    (hlast : ∀ m ∈ cur.members, ∀ y ∈ ys, lo m ≤ lo y)
    (hsorted : ys.Pairwise (fun a b => lo a ≤ lo b))
    (hwf : ∀ y ∈ ys, lo y < hi y) :
    GoSpec lo hi cur ys (go lo hi cur ys) := by
  induction ys generalizing cur with
  | nil =>
    simp only [go]
    exact ⟨by simp, by simpa using hinv, by simp, by simp, by simp⟩
  | cons y ys ih =>
    simp only [go]
    have hsorted' := (List.pairwise_cons.1 hsorted)
    split
    · next hlt =>
      have hinv' : GInv lo hi ⟨cur.lo, max cur.hi (hi y), cur.members ++ [y]⟩ := by
        refine ⟨by simp, ?_, ?_, ?_, ?_, ?_, ?_, ?_⟩
        · intro m hm
          simp only [List.mem_append, List.mem_singleton] at hm
          rcases hm with hm | rfl
          · have := hinv.hiMax m hm; simp only; omega
          · simp only; omega
        · obtain ⟨m, hm, hmhi⟩ := hinv.hiAtt
          by_cases hc : cur.hi ≤ hi y
          · exact ⟨y, by simp, by simp only; omega⟩
          · exact ⟨m, by simp [hm], by simp only; omega⟩
        · intro m hm
          simp only [List.mem_append, List.mem_singleton] at hm
          rcases hm with hm | rfl
          · exact hinv.loMin m hm
          · exact hs _ (by simp)
        · obtain ⟨m, hm, hmlo⟩ := hinv.loAtt
          exact ⟨m, by simp [hm], hmlo⟩
        · intro m hm
          simp only [List.mem_append, List.mem_singleton] at hm
          rcases hm with hm | rfl
          · exact hinv.wf m hm
          · exact hwf _ (by simp)
        · simp only [List.pairwise_append, List.pairwise_cons, List.mem_singleton]
          refine ⟨hinv.sorted, ⟨by simp, by simp⟩, ?_⟩
          intro a ha b hb; subst hb
          exact hlast a ha _ (by simp)
        · apply chained_snoc hinv.ne hinv.chained
          obtain ⟨m, hm, hmhi⟩ := hinv.hiAtt
          exact ⟨m, hm, hlast m hm y (by simp), by omega⟩
      have := ih _ hinv' (fun z hz => hs z (by simp [hz]))
        (by
          intro m hm z hz
          simp only [List.mem_append, List.mem_singleton] at hm
          rcases hm with hm | rfl
          · exact hlast m hm z (by simp [hz])
          · exact hsorted'.1 z hz)
        hsorted'.2 (fun z hz => hwf z (by simp [hz]))
      exact ⟨by rw [this.flat]; simp, this.inv, this.sep, this.lo_ge, this.ne⟩
    · next hge =>
      have hinvy : GInv lo hi ⟨lo y, hi y, [y]⟩ :=
        ⟨by simp, by simp, ⟨y, by simp, rfl⟩, by simp, ⟨y, by simp, rfl⟩,
          by intro m hm; simp at hm; subst hm; exact hwf _ (by simp),
          by simp, by intro pre x post h; simp at h⟩
      have := ih _ hinvy (fun z hz => by simpa using hsorted'.1 z hz)
        (by intro m hm z hz; simp at hm; subst hm; exact hsorted'.1 z hz)
        hsorted'.2 (fun z hz => hwf z (by simp [hz]))
      refine ⟨by simp [this.flat], ?_, ?_, ?_, by simp⟩
      · intro g hg
        simp only [List.mem_cons] at hg
        rcases hg with rfl | hg
        · exact hinv
        · exact this.inv g hg
      · refine List.pairwise_cons.2 ⟨?_, this.sep⟩
        intro g' hg'
        have := this.lo_ge g' hg'
        simp only at this
        omega
      · intro g hg
        simp only [List.mem_cons] at hg
        rcases hg with rfl | hg
        · exact Int.le_refl _
        · have h1 := this.lo_ge g hg
          have h2 := hs y (by simp)
          simp only at h1
          omega

/-- the sweep of a non-empty sorted list of non-empty spans -/
theorem sweep_spec (lo hi : α → Int) (x : α) (xs : List α)
    (hsorted : (x :: xs).Pairwise (fun a b => lo a ≤ lo b)) (hwf : ∀ y ∈ x :: xs, lo y < hi y) :
    GoSpec lo hi ⟨lo x, hi x, [x]⟩ xs (sweep lo hi (x :: xs)) := by
  have hs := List.pairwise_cons.1 hsorted
  exact go_spec lo hi _ xs
    ⟨by simp, by simp, ⟨x, by simp, rfl⟩, by simp, ⟨x, by simp, rfl⟩,
      by intro m hm; simp at hm; subst hm; exact hwf _ (by simp),
      by simp, by intro pre y post h; simp at h⟩
    (fun y hy => hs.1 y hy) (by intro m hm z hz; simp at hm; subst hm; exact hs.1 z hz) hs.2
    (fun y hy => hwf y (by simp [hy]))

/-! ### consequences used by C06 -/

/-- overlap of two non-empty spans -/
def Ov (lo hi : α → Int) (a b : α) : Prop := lo a < hi b ∧ lo b < hi a

/-- members of different groups never overlap -/
theorem sep_no_overlap {lo hi : α → Int} {cur : Grp α} {ys : List α} {gs : List (Grp α)}
    (h : GoSpec lo hi cur ys gs) {g g' : Grp α} (hsep : g.hi ≤ g'.lo) (hg : g ∈ gs) (hg' : g' ∈ gs)
    {a b : α} (ha : a ∈ g.members) (hb : b ∈ g'.members) : ¬ Ov lo hi a b := by
  intro ⟨_, h2⟩
  have := (h.inv g hg).hiMax a ha
  have := (h.inv g' hg').loMin b hb
  omega

/-- within a group every member is joined to the first one by a chain of overlaps -/
theorem chained_linked {lo hi : α → Int} (R : α → α → Prop)
    (m : α) (rest : List α)
    (hrefl : ∀ a ∈ m :: rest, R a a)
    (hstep : ∀ a ∈ m :: rest, ∀ b ∈ m :: rest, ∀ c ∈ m :: rest, R a b → Ov lo hi b c → R a c)
    (hwf : ∀ x ∈ m :: rest, lo x < hi x)
    (hc : Chained lo hi (m :: rest)) : ∀ x ∈ m :: rest, R m x := by
  -- strong induction on the position
  suffices h : ∀ n (pre : List α) x post, pre.length = n → rest = pre ++ x :: post → R m x by
    intro x hx
    simp only [List.mem_cons] at hx
    rcases hx with rfl | hx
    · exact hrefl _ (by simp)
    · obtain ⟨pre, post, rfl⟩ := List.append_of_mem hx
      exact h _ pre x post rfl rfl
  intro n
  induction n using Nat.strongRecOn with
  | _ n ih =>
    intro pre x post hlen hsplit
    obtain ⟨e, he, h1, h2⟩ := hc pre x post hsplit
    have hxm : x ∈ m :: rest := by simp [hsplit]
    have hem : e ∈ m :: rest := by
      simp only [List.mem_cons] at he ⊢
      rcases he with rfl | he
      · exact Or.inl rfl
      · exact Or.inr (by simp [hsplit, he])
    have hxw : lo x < hi x := hwf x hxm
    have hew : lo e < hi e := hwf e hem
    have hov : Ov lo hi e x := ⟨by omega, h2⟩
    simp only [List.mem_cons] at he
    rcases he with rfl | he
    · exact hstep _ (by simp) _ (by simp) _ hxm (hrefl _ (by simp)) hov
    · obtain ⟨pre', post', rfl⟩ := List.append_of_mem he
      have : R m e := ih pre'.length (by subst hlen; simp) pre' e (post' ++ x :: post) rfl (by simp [hsplit])
      exact hstep _ (by simp) _ hem _ hxm this hov

end ASV.SweepG
