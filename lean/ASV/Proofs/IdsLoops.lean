/-
  C16 helper lemmas: invariants of the two loops of `pre_process_sequences`
  (`dupPass` = rename on second occurrence, `fixAll` = fix_record_name_id per record).
-/
import ASV.Proofs.IdsFix
namespace ASV.Ids
open ASV.Generated.Ids

/-! ### the loop over `fix_record_name_id` -/

theorem fixAll_err {al : Bool} : ∀ {rs : List Rec} {taken : List Str} {e : Err},
    fixAll al taken rs = .error e → e = .runtime
  | [], _, _, h => by simp [fixAll] at h
  | r :: rs, taken, e, h => by
    unfold fixAll at h
    split at h
    · rename_i e' h1
      simp only [Except.error.injEq] at h
      exact h ▸ fixRecordNameId_err h1
    · split at h
      · rename_i e' h2
        simp only [Except.error.injEq] at h
        exact h ▸ fixAll_err h2
      · simp at h

/-- distinctness is preserved: every id is either unchanged or new with respect to the set, and
    the set contains every id still to come -/
theorem fixAll_distinct {al : Bool} : ∀ {rs : List Rec} {taken : List Str} {out : List Rec},
    fixAll al taken rs = .ok out → (∀ r ∈ rs, r.id ∈ taken) → (rs.map (·.id)).Nodup →
    (out.map (·.id)).Nodup ∧ ∀ o ∈ out, o.id ∈ rs.map (·.id) ∨ o.id ∉ taken
  | [], _, out, h, _, _ => by
    simp only [fixAll, Except.ok.injEq] at h
    subst h
    simp
  | r :: rs, taken, out, h, hmem, hnd => by
    unfold fixAll at h
    split at h
    · simp at h
    · rename_i r' t' h1
      split at h
      · simp at h
      · rename_i out' h2
        simp only [Except.ok.injEq] at h
        subst h
        have p := fixRecordNameId_spec h1
        have hr : r.id ∈ taken := hmem r (List.mem_cons_self)
        have hmem' : ∀ x ∈ rs, x.id ∈ t' := fun x hx => p.sub _ (hmem x (List.mem_cons_of_mem _ hx))
        simp only [List.map_cons, List.nodup_cons] at hnd
        obtain ⟨ih1, ih2⟩ := fixAll_distinct h2 hmem' hnd.2
        have hr't' : r'.id ∈ t' := p.mem hr
        refine ⟨?_, ?_⟩
        · simp only [List.map_cons, List.nodup_cons]
          refine ⟨?_, ih1⟩
          intro hin
          obtain ⟨o, ho, hoid⟩ := List.mem_map.mp hin
          rcases ih2 o ho with hrs | hnt
          · rcases p.fresh with heq | hfresh
            · exact hnd.1 (heq ▸ hoid ▸ hrs)
            · obtain ⟨x, hx, hxid⟩ := List.mem_map.mp hrs
              exact hfresh (hoid ▸ hxid ▸ hmem x (List.mem_cons_of_mem _ hx))
          · exact hnt (hoid ▸ hr't')
        · intro o ho
          rcases List.mem_cons.mp ho with rfl | ho
          · rcases p.fresh with heq | hfresh
            · exact Or.inl (by simp [heq])
            · exact Or.inr hfresh
          · rcases ih2 o ho with hrs | hnt
            · exact Or.inl (by simp only [List.map_cons, List.mem_cons]; exact Or.inr hrs)
            · exact Or.inr fun hm => hnt (p.sub _ hm)

/-- pointwise relation between the records going into and coming out of the loop -/
theorem fixAll_forall₂ {al : Bool} : ∀ {rs : List Rec} {taken : List Str} {out : List Rec},
    fixAll al taken rs = .ok out →
    List.Forall₂ (fun r r' => ∃ t t', (∀ y ∈ taken, y ∈ t) ∧ FixPost al t r r' t') rs out
  | [], _, out, h => by
    simp only [fixAll, Except.ok.injEq] at h
    subst h
    exact List.Forall₂.nil
  | r :: rs, taken, out, h => by
    unfold fixAll at h
    split at h
    · simp at h
    · rename_i r' t' h1
      split at h
      · simp at h
      · rename_i out' h2
        simp only [Except.ok.injEq] at h
        subst h
        have p := fixRecordNameId_spec h1
        refine List.Forall₂.cons ⟨taken, t', fun _ h => h, p⟩ ?_
        refine (fixAll_forall₂ h2).imp ?_
        rintro a b ⟨t, t'', hsub, hp⟩
        exact ⟨t, t'', fun y hy => hsub y (p.sub y hy), hp⟩

/-- a record without id keeps its empty id (so the final check rejects the input) -/
theorem fixRecordNameId_nil {al : Bool} {taken : List Str} {r r' : Rec} {t' : List Str}
    (h : fixRecordNameId al taken r = .ok (r', t')) (hid : r.id = []) : r'.id = [] := by
  unfold fixRecordNameId shortenStep stripStep at h
  simp [hid, strip] at h
  rw [← h.1]

theorem fixAll_keeps_nil {al : Bool} : ∀ {rs : List Rec} {taken : List Str} {out : List Rec},
    fixAll al taken rs = .ok out → (∃ r ∈ rs, r.id = []) → ∃ o ∈ out, o.id = []
  | [], _, _, _, ⟨_, hr, _⟩ => by simp at hr
  | r :: rs, taken, out, h, ⟨x, hx, hxid⟩ => by
    unfold fixAll at h
    split at h
    · simp at h
    · rename_i r' t' h1
      split at h
      · simp at h
      · rename_i out' h2
        simp only [Except.ok.injEq] at h
        subst h
        rcases List.mem_cons.mp hx with rfl | hx
        · exact ⟨r', List.mem_cons_self, fixRecordNameId_nil h1 hxid⟩
        · obtain ⟨o, ho, hoid⟩ := fixAll_keeps_nil h2 ⟨x, hx, hxid⟩
          exact ⟨o, List.mem_cons_of_mem _ ho, hoid⟩

/-! ### the duplicate pass -/

/-- what the duplicate pass does to one record: nothing, or a rename that remembers the old id
    (which some earlier record still carries, so it is in the final set) -/
def DupRel (t : List Str) (r o : Rec) : Prop :=
  o = r ∨ (o.id ≠ r.id ∧ o.orig = some r.id ∧ o.name = r.name ∧ o.index = r.index ∧ r.id ∈ t)

theorem dupPass_spec : ∀ {rs : List Rec} {taken : List Str} {out : List Rec} {t : List Str},
    dupPass rs taken = .ok (out, t) → taken.Nodup →
    (out.map (·.id)).Nodup ∧ (∀ o ∈ out, o.id ∉ taken) ∧ (∀ y, y ∈ t ↔ y ∈ taken ∨ y ∈ out.map (·.id)) ∧
    t.Nodup ∧ t.length = taken.length + rs.length ∧ List.Forall₂ (DupRel t) rs out
  | [], taken, out, t, h, hnd => by
    simp only [dupPass, Except.ok.injEq, Prod.mk.injEq] at h
    obtain ⟨rfl, rfl⟩ := h
    simp [hnd]
  | r :: rs, taken, out, t, h, hnd => by
    unfold dupPass at h
    split at h
    · rename_i hin
      have hin : r.id ∈ taken := by simpa using hin
      split at h
      · simp at h
      · rename_i n k hg
        split at h
        · simp at h
        · rename_i out' t'' h2
          simp only [Except.ok.injEq, Prod.mk.injEq] at h
          obtain ⟨rfl, rfl⟩ := h
          have g := generateUniqueId_ok hg
          obtain ⟨i1, i2, i3, i4, i5, i6⟩ := dupPass_spec h2 (setAdd_nodup hnd)
          refine ⟨?_, ?_, ?_, i4, ?_, ?_⟩
          · simp only [List.map_cons, List.nodup_cons]
            refine ⟨fun hm => ?_, i1⟩
            obtain ⟨o, ho, hoid⟩ := List.mem_map.mp hm
            exact i2 o ho (hoid ▸ mem_setAdd.mpr (Or.inl rfl))
          · intro o ho
            rcases List.mem_cons.mp ho with rfl | ho
            · exact g.2.1
            · exact fun hm => i2 o ho (mem_setAdd.mpr (Or.inr hm))
          · intro y
            rw [i3 y, mem_setAdd]
            simp only [List.map_cons, List.mem_cons]
            tauto
          · rw [i5, setAdd_length_of_not_mem g.2.1]
            simp only [List.length_cons]
            omega
          · refine List.Forall₂.cons (Or.inr ⟨?_, rfl, rfl, rfl, ?_⟩) i6
            · intro heq
              simp only at heq
              exact g.2.1 (heq ▸ hin)
            · exact (i3 _).mpr (Or.inl (mem_setAdd.mpr (Or.inr hin)))
    · rename_i hin
      have hin : r.id ∉ taken := by simpa using hin
      split at h
      · simp at h
      · rename_i out' t'' h2
        simp only [Except.ok.injEq, Prod.mk.injEq] at h
        obtain ⟨rfl, rfl⟩ := h
        obtain ⟨i1, i2, i3, i4, i5, i6⟩ := dupPass_spec h2 (setAdd_nodup hnd)
        refine ⟨?_, ?_, ?_, i4, ?_, List.Forall₂.cons (Or.inl rfl) i6⟩
        · simp only [List.map_cons, List.nodup_cons]
          refine ⟨fun hm => ?_, i1⟩
          obtain ⟨o, ho, hoid⟩ := List.mem_map.mp hm
          exact i2 o ho (hoid ▸ mem_setAdd.mpr (Or.inl rfl))
        · intro o ho
          rcases List.mem_cons.mp ho with rfl | ho
          · exact hin
          · exact fun hm => i2 o ho (mem_setAdd.mpr (Or.inr hm))
        · intro y
          rw [i3 y, mem_setAdd]
          simp only [List.map_cons, List.mem_cons]
          tauto
        · rw [i5, setAdd_length_of_not_mem hin]
          simp only [List.length_cons]
          omega

/-- the duplicate pass cannot fail -/
theorem dupPass_total : ∀ (rs : List Rec) (taken : List Str), ∃ out t, dupPass rs taken = .ok (out, t)
  | [], taken => ⟨[], taken, rfl⟩
  | r :: rs, taken => by
    unfold dupPass
    split
    · obtain ⟨n, k, hg⟩ := generateUniqueId_total (pre := r.id) (taken := taken) (start := 0) (maxLength := -1) (by decide)
      obtain ⟨out, t, h2⟩ := dupPass_total rs (setAdd n taken)
      simp only [hg, h2]
      exact ⟨_, _, rfl⟩
    · obtain ⟨out, t, h2⟩ := dupPass_total rs (setAdd r.id taken)
      simp only [h2]
      exact ⟨_, _, rfl⟩

/-- the first record without id is not renamed (generated names are never empty) -/
theorem dupPass_keeps_nil : ∀ {rs : List Rec} {taken : List Str} {out : List Rec} {t : List Str},
    dupPass rs taken = .ok (out, t) → [] ∉ taken → (∃ r ∈ rs, r.id = []) → ∃ o ∈ out, o.id = []
  | [], _, _, _, _, _, ⟨_, hr, _⟩ => by simp at hr
  | r :: rs, taken, out, t, h, hnil, ⟨x, hx, hxid⟩ => by
    unfold dupPass at h
    split at h
    · rename_i hin
      have hin : r.id ∈ taken := by simpa using hin
      split at h
      · simp at h
      · rename_i n k hg
        split at h
        · simp at h
        · rename_i out' t'' h2
          simp only [Except.ok.injEq, Prod.mk.injEq] at h
          obtain ⟨rfl, rfl⟩ := h
          have hn : n ≠ [] := (generateUniqueId_ok hg).1 ▸ mkName_ne_nil _ _
          have hx' : x ∈ rs := by
            rcases List.mem_cons.mp hx with rfl | hx
            · exact absurd (hxid ▸ hin) hnil
            · exact hx
          have hnil' : [] ∉ setAdd n taken := fun hm => by
            rcases mem_setAdd.mp hm with h | h
            · exact hn h.symm
            · exact hnil h
          obtain ⟨o, ho, hoid⟩ := dupPass_keeps_nil h2 hnil' ⟨x, hx', hxid⟩
          exact ⟨o, List.mem_cons_of_mem _ ho, hoid⟩
    · split at h
      · simp at h
      · rename_i out' t'' h2
        simp only [Except.ok.injEq, Prod.mk.injEq] at h
        obtain ⟨rfl, rfl⟩ := h
        by_cases hr : r.id = []
        · exact ⟨r, List.mem_cons_self, hr⟩
        · have hx' : x ∈ rs := by
            rcases List.mem_cons.mp hx with rfl | hx
            · exact absurd hxid hr
            · exact hx
          have hnil' : [] ∉ setAdd r.id taken := fun hm => by
            rcases mem_setAdd.mp hm with h | h
            · exact hr h.symm
            · exact hnil h
          obtain ⟨o, ho, hoid⟩ := dupPass_keeps_nil h2 hnil' ⟨x, hx', hxid⟩
          exact ⟨o, List.mem_cons_of_mem _ ho, hoid⟩

end ASV.Ids
