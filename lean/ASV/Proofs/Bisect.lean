/-
  The literal binary search returns the partition point whenever the list is partitioned by the test
  (all elements passing it come before all elements failing it) — bisect's documented contract.
-/
import ASV.Model.Bisect
namespace ASV.Bisect

/-- positions below `k` pass the test, positions from `k` on fail it -/
def PartitionedAt {α} (keep : α → Bool) (a : List α) (k : Nat) : Prop :=
  k ≤ a.length ∧ (∀ i y, a[i]? = some y → i < k → keep y = true) ∧ (∀ i y, a[i]? = some y → k ≤ i → keep y = false)

theorem loop_eq {α} (keep : α → Bool) (a : List α) (k : Nat) (hp : PartitionedAt keep a k) :
    ∀ (fuel lo hi : Nat), lo ≤ k → k ≤ hi → hi ≤ a.length → hi - lo ≤ fuel → loop keep a fuel lo hi = k
  | 0, lo, hi, h1, h2, _, hf => by simp only [loop]; omega
  | fuel + 1, lo, hi, h1, h2, h3, hf => by
    simp only [loop]
    by_cases hlt : lo < hi
    · simp only [hlt, if_true]
      have hmid : (lo + hi) / 2 < a.length := by omega
      have hget : a[(lo + hi) / 2]? = some a[(lo + hi) / 2] := List.getElem?_eq_getElem hmid
      rw [hget]
      simp only []
      by_cases hk : keep a[(lo + hi) / 2] = true
      · simp only [hk, if_true]
        have : (lo + hi) / 2 < k := by
          rcases Nat.lt_or_ge ((lo + hi) / 2) k with hc | hc
          · exact hc
          · have := hp.2.2 _ _ hget hc
            rw [hk] at this; cases this
        exact loop_eq keep a k hp fuel _ hi (by omega) h2 h3 (by omega)
      · have hk' : keep a[(lo + hi) / 2] = false := by simpa using hk
        simp only [hk', Bool.false_eq_true, if_false]
        have : k ≤ (lo + hi) / 2 := by
          rcases Nat.lt_or_ge ((lo + hi) / 2) k with hc | hc
          · have := hp.2.1 _ _ hget hc
            rw [hk'] at this; cases this
          · exact hc
        exact loop_eq keep a k hp fuel lo _ h1 this (by omega) (by omega)
    · simp only [hlt, if_false]; omega

/-- the binary search finds the partition point -/
theorem bisect_eq {α} (keep : α → Bool) (a : List α) (k lo : Nat) (hp : PartitionedAt keep a k) (h : lo ≤ k) :
    bisect keep a lo = k :=
  loop_eq keep a k hp _ lo a.length h hp.1 (Nat.le_refl _) (Nat.le_refl _)

/-- a list whose `dropWhile` part fails the test everywhere is partitioned at the length of its `takeWhile` part -/
theorem partitioned_takeWhile {α} (keep : α → Bool) (a : List α) (h : ∀ y ∈ a.dropWhile keep, keep y = false) :
    PartitionedAt keep a (a.takeWhile keep).length := by
  have hsplit : a.takeWhile keep ++ a.dropWhile keep = a := List.takeWhile_append_dropWhile
  refine ⟨?_, ?_, ?_⟩
  · have := congrArg List.length hsplit
    simp only [List.length_append] at this; omega
  · intro i y hy hi
    have : (a.takeWhile keep ++ a.dropWhile keep)[i]? = some y := by rw [hsplit]; exact hy
    rw [List.getElem?_append_left hi] at this
    have hm : y ∈ a.takeWhile keep := List.mem_of_getElem? this
    clear this hy hsplit h
    induction a generalizing i with
    | nil => simp at hm
    | cons x l ih =>
      simp only [List.takeWhile_cons] at hm hi
      split at hm
      · rename_i hx
        rcases List.mem_cons.1 hm with rfl | hm'
        · exact hx
        · cases i with
          | zero =>
            -- any position will do for the recursive call; take the one `hm'` provides
            obtain ⟨j, hj, _⟩ := List.getElem_of_mem hm'
            exact ih j (by simpa using hj) hm'
          | succ j =>
            obtain ⟨j', hj', _⟩ := List.getElem_of_mem hm'
            exact ih j' (by simpa using hj') hm'
      · simp at hm
  · intro i y hy hi
    have : (a.takeWhile keep ++ a.dropWhile keep)[i]? = some y := by rw [hsplit]; exact hy
    rw [List.getElem?_append_right hi] at this
    exact h y (List.mem_of_getElem? this)

end ASV.Bisect
