/-
  C16 helper lemmas, gene level: `_sanitise_id_value` and the name/location bookkeeping of
  `Record.add_cds_feature`.
-/
import ASV.Proofs.Ids
namespace ASV.Ids
open ASV.Generated.Ids

/-- no character of the (regenerated) gene-level illegal set occurs -/
def GSafe (s : Str) : Prop := ∀ c ∈ s, c ∉ illegalGeneChars

theorem gsafe_iff (s : Str) : GSafe s ↔ IdSpec.geneSafe s = true := by
  unfold GSafe IdSpec.geneSafe
  simp only [List.all_eq_true, Bool.not_eq_true']
  constructor
  · intro h bad hb
    have : bad ∉ s := fun hs => h bad hs hb
    simpa using this
  · intro h c hc hb
    have := h c hb
    simp [hc] at this

/-- table fact: the replacement character is itself legal -/
theorem underscore_gene_legal : '_' ∉ illegalGeneChars := by decide

theorem sanitise_safe (s : Str) : GSafe (sanitiseIdValue s) := by
  intro c hc
  unfold sanitiseIdValue at hc
  obtain ⟨a, _, rfl⟩ := List.mem_map.mp hc
  split
  · exact underscore_gene_legal
  · rename_i h
    simpa using h

theorem sanitise_length (s : Str) : (sanitiseIdValue s).length = s.length := by
  unfold sanitiseIdValue; simp

/-- already legal values are left alone -/
theorem sanitise_id_of_safe {s : Str} (h : GSafe s) : sanitiseIdValue s = s := by
  unfold sanitiseIdValue
  conv => rhs; rw [← List.map_id s]
  refine List.map_congr_left fun c hc => ?_
  have : c ∉ illegalGeneChars := h c hc
  simp [this]

theorem truthy_some {o : Option Str} (h : truthy o = true) : ∃ s, o = some s ∧ s ≠ [] := by
  match o, h with
  | some (c :: cs), _ => exact ⟨c :: cs, rfl, by simp⟩

theorem mkCds_getName_safe {loc : Loc} {lt g p : Option Str} {n : Str}
    (h : (mkCds loc lt g p).getName = some n) : GSafe n ∧ n ≠ [] := by
  unfold Cds.getName mkCds at h
  simp only at h
  have key : ∀ o : Option Str, truthy (o.map sanitiseIdValue) = true → o.map sanitiseIdValue = some n →
      GSafe n ∧ n ≠ [] := by
    intro o ht he
    obtain ⟨s, hs, hne⟩ := truthy_some ht
    cases o with
    | none => simp at he
    | some x =>
      simp only [Option.map_some, Option.some.injEq] at he hs
      exact ⟨he ▸ sanitise_safe x, he ▸ hs ▸ hne⟩
  split at h
  · rename_i ht; exact key _ ht h
  · split at h
    · rename_i ht; exact key _ ht h
    · split at h
      · rename_i ht; exact key _ ht h
      · simp at h

theorem cdsByName_none {s : GState} {n : Str} : s.cdsByName n = none ↔ n ∉ s.cdss.map (·.1) := by
  unfold GState.cdsByName
  simp only [Option.map_eq_none_iff, List.find?_eq_none, List.mem_map, not_exists, not_and]
  constructor
  · intro h x hx heq
    have := h x hx
    simp [heq] at this
  · intro h x hx
    have := h x hx
    simpa using this

theorem hasLocation_false {s : GState} {l : Loc} :
    s.hasLocation l = false ↔ locChars l ∉ s.cdss.map (fun x => locChars x.2) := by
  unfold GState.hasLocation
  simp only [List.any_eq_false, List.mem_map, not_exists, not_and]
  constructor
  · intro h x hx heq
    have := h x hx
    simp [heq] at this
  · intro h x hx
    have := h x hx
    simpa using this

/-! ### the checksum is made of hex digits, which are legal gene-id characters -/

def hexChars : List Char := ['0', '1', '2', '3', '4', '5', '6', '7', '8', '9', 'a', 'b', 'c', 'd', 'e', 'f']

theorem hexChar_mem : ∀ d, d < 16 → hexChar d ∈ hexChars := by decide

/-- table fact: no hex digit is an illegal gene-id character -/
theorem hexChars_legal : hexChars.all (fun c => !illegalGeneChars.contains c) = true := by decide

theorem hexAux_mem : ∀ (fuel n : Nat) (acc : Str), (∀ c ∈ acc, c ∈ hexChars) → ∀ c ∈ hexAux fuel n acc, c ∈ hexChars
  | 0, _, acc, h => by simpa [hexAux] using h
  | fuel + 1, n, acc, h => by
    have hd : hexChar (n % 16) ∈ hexChars := hexChar_mem _ (Nat.mod_lt _ (by decide))
    have h' : ∀ c ∈ hexChar (n % 16) :: acc, c ∈ hexChars := by
      intro c hc
      rcases List.mem_cons.mp hc with rfl | hc
      · exact hd
      · exact h c hc
    unfold hexAux
    split
    · exact h'
    · exact hexAux_mem fuel (n / 16) _ h'

theorem locationChecksum_safe (l : Loc) : GSafe (locationChecksum l) := by
  intro c hc hill
  have hm : c ∈ hexChars := hexAux_mem 8 _ [] (by simp) c hc
  have := List.all_eq_true.mp hexChars_legal c hm
  simp [hill] at this

/-- a successful `add_cds_feature`: the feature is appended under a name and a location that no
    earlier CDS feature of the record has; the name is `get_name()` or `get_name()_checksum` -/
theorem addCds_ok {s s' : GState} {c : Cds} {n : Str} (h : addCds s c = .ok (s', n)) :
    n ∉ s.cdss.map (·.1) ∧ locChars c.loc ∉ s.cdss.map (fun x => locChars x.2) ∧
    s'.cdss = s.cdss ++ [(n, c.loc)] ∧ s'.genes = s.genes ∧
    ∃ name, c.getName = some name ∧ (n = name ∨ n = name ++ '_' :: locationChecksum c.loc) := by
  unfold addCds at h
  split at h
  · simp at h
  · rename_i name hname
    split at h
    · simp at h
    · rename_i hloc
      have hloc := hasLocation_false.mp (by simpa using hloc)
      split at h
      · rename_i hn
        simp only [Except.ok.injEq, Prod.mk.injEq] at h
        obtain ⟨rfl, rfl⟩ := h
        exact ⟨cdsByName_none.mp hn, hloc, rfl, rfl, name, hname, Or.inl rfl⟩
      · split at h
        · simp at h
        · split at h
          · simp at h
          · simp only at h
            split at h
            · simp at h
            · rename_i hnew
              simp only [Except.ok.injEq, Prod.mk.injEq] at h
              obtain ⟨rfl, rfl⟩ := h
              have : s.cdsByName (name ++ '_' :: locationChecksum c.loc) = none := by
                cases hc : s.cdsByName (name ++ '_' :: locationChecksum c.loc) with
                | none => rfl
                | some _ => simp [hc] at hnew
              exact ⟨cdsByName_none.mp this, hloc, rfl, rfl, name, hname, Or.inr rfl⟩

/-- the bookkeeping invariant: pairwise distinct names, pairwise distinct locations -/
def GInv (s : GState) : Prop := (s.cdss.map (·.1)).Nodup ∧ (s.cdss.map (fun x => locChars x.2)).Nodup

theorem nodup_append_singleton {α} {l : List α} {x : α} (h : l.Nodup) (hx : x ∉ l) : (l ++ [x]).Nodup := by
  rw [List.nodup_append]
  refine ⟨h, List.nodup_singleton x, ?_⟩
  intro a ha b hb
  simp only [List.mem_singleton] at hb
  exact fun heq => hx (hb ▸ heq ▸ ha)

theorem applyOp_inv {s : GState} (op : GOp) (h : GInv s) : GInv (applyOp s op) := by
  cases op with
  | gene name loc => exact h
  | cds loc lt g p =>
    cases hok : addCds s (mkCds loc lt g p) with
    | error e => simp only [applyOp, hok]; exact h
    | ok r =>
      obtain ⟨s', n⟩ := r
      simp only [applyOp, hok]
      obtain ⟨h1, h2, h3, _, _⟩ := addCds_ok hok
      unfold GInv
      rw [h3]
      simp only [List.map_append, List.map_cons, List.map_nil]
      exact ⟨nodup_append_singleton h.1 h1, nodup_append_singleton h.2 h2⟩

theorem runOps_inv : ∀ (ops : List GOp) {s : GState}, GInv s → GInv (runOps s ops)
  | [], _, h => h
  | op :: ops, s, h => by
    unfold runOps
    simp only [List.foldl_cons]
    exact runOps_inv ops (applyOp_inv op h)

/-- names stay free of illegal characters -/
theorem applyOp_safe {s : GState} (op : GOp) (h : ∀ x ∈ s.cdss, GSafe x.1) :
    ∀ x ∈ (applyOp s op).cdss, GSafe x.1 := by
  cases op with
  | gene name loc => exact h
  | cds loc lt g p =>
    cases hok : addCds s (mkCds loc lt g p) with
    | error e => simp only [applyOp, hok]; exact h
    | ok r =>
      obtain ⟨s', n⟩ := r
      simp only [applyOp, hok]
      obtain ⟨_, _, h3, _, name, hname, hn⟩ := addCds_ok hok
      rw [h3]
      intro x hx
      rcases List.mem_append.mp hx with hx | hx
      · exact h x hx
      · simp only [List.mem_singleton] at hx
        subst hx
        have hs := (mkCds_getName_safe hname).1
        rcases hn with rfl | rfl
        · exact hs
        · intro c hm
          rcases List.mem_append.mp hm with hm | hm
          · exact hs c hm
          · rcases List.mem_cons.mp hm with rfl | hm
            · exact underscore_gene_legal
            · exact locationChecksum_safe _ c hm

theorem runOps_safe : ∀ (ops : List GOp) {s : GState}, (∀ x ∈ s.cdss, GSafe x.1) →
    ∀ x ∈ (runOps s ops).cdss, GSafe x.1
  | [], _, h => h
  | op :: ops, s, h => by
    unfold runOps
    simp only [List.foldl_cons]
    exact runOps_safe ops (applyOp_safe op h)

/-- distinct textual keys mean distinct locations -/
theorem locs_nodup_of_keys {l : List (Str × Loc)} (h : (l.map (fun x => locChars x.2)).Nodup) :
    (l.map (·.2)).Nodup := by
  have : l.map (fun x => locChars x.2) = (l.map (·.2)).map locChars := by simp [List.map_map]
  rw [this] at h
  exact List.Nodup.of_map _ h

/-- the three input errors are the only rejections; a rejected call leaves the record as it was -/
theorem applyOp_rejected {s : GState} {loc : Loc} {lt g p : Option Str} {e : GErr}
    (h : addCds s (mkCds loc lt g p) = .error e) : applyOp s (.cds loc lt g p) = s := by
  simp only [applyOp, h]

/-! ### `Record.from_biopython` -/

theorem addCds_inv {s s' : GState} {c : Cds} {n : Str} (hok : addCds s c = .ok (s', n)) (h : GInv s) : GInv s' := by
  obtain ⟨h1, h2, h3, _, _⟩ := addCds_ok hok
  unfold GInv
  rw [h3]
  simp only [List.map_append, List.map_cons, List.map_nil]
  exact ⟨nodup_append_singleton h.1 h1, nodup_append_singleton h.2 h2⟩

theorem addCds_safe {s s' : GState} {loc : Loc} {lt g p : Option Str} {n : Str}
    (hok : addCds s (mkCds loc lt g p) = .ok (s', n)) (h : ∀ x ∈ s.cdss, GSafe x.1) : ∀ x ∈ s'.cdss, GSafe x.1 := by
  obtain ⟨_, _, h3, _, name, hname, hn⟩ := addCds_ok hok
  rw [h3]
  intro x hx
  rcases List.mem_append.mp hx with hx | hx
  · exact h x hx
  · simp only [List.mem_singleton] at hx
    subst hx
    have hs := (mkCds_getName_safe hname).1
    rcases hn with rfl | rfl
    · exact hs
    · intro c hm
      rcases List.mem_append.mp hm with hm | hm
      · exact hs c hm
      · rcases List.mem_cons.mp hm with rfl | hm
        · exact underscore_gene_legal
        · exact locationChecksum_safe _ c hm

theorem fromBiopython_inv : ∀ (fs : List BioFeat) {s s' : GState}, fromBiopython s fs = .ok s' →
    GInv s → (∀ x ∈ s.cdss, GSafe x.1) → GInv s' ∧ ∀ x ∈ s'.cdss, GSafe x.1
  | [], s, s', h, hi, hs => by
    simp only [fromBiopython, Except.ok.injEq] at h
    exact h ▸ ⟨hi, hs⟩
  | f :: fs, s, s', h, hi, hs => by
    unfold fromBiopython at h
    split at h
    · split at h
      · simp at h
      · rename_i s1 n hok
        exact fromBiopython_inv fs h (addCds_inv hok hi) (addCds_safe (by unfold cdsOfBio at hok; exact hok) hs)
    · exact fromBiopython_inv fs h hi hs

theorem truthy_map_sanitise (o : Option Str) : truthy (o.map sanitiseIdValue) = truthy o := by
  cases o with
  | none => rfl
  | some x => cases x <;> rfl

theorem truthy_ne_none {o : Option Str} (h : truthy o = true) : o ≠ none := by
  cases o with
  | none => simp [truthy] at h
  | some _ => simp

theorem getName_ne_none {c : Cds} (h : (truthy c.locusTag || truthy c.gene || truthy c.proteinId) = true) :
    c.getName ≠ none := by
  unfold Cds.getName
  split
  · rename_i h1; exact truthy_ne_none h1
  · split
    · rename_i h2; exact truthy_ne_none h2
    · split
      · rename_i h3; exact truthy_ne_none h3
      · simp_all

theorem positionalName_truthy (pre : Str) (l : Loc) : truthy (some (positionalName pre l)) = true := by
  unfold positionalName
  cases pre with
  | nil =>
    cases h : intChars l.start with
    | nil => rfl
    | cons _ _ => rfl
  | cons _ _ => rfl

/-- a CDS feature read from a file always has an identifier (position-based if need be) -/
theorem cdsOfBio_named (f : BioFeat) : (cdsOfBio f).getName ≠ none := by
  apply getName_ne_none
  unfold cdsOfBio mkCds
  simp only [truthy_map_sanitise]
  split
  · rename_i h
    simp only [Bool.or_eq_true] at h ⊢
    tauto
  · simp [positionalName_truthy]

theorem pairwiseDistinct_iff' {α} [BEq α] [LawfulBEq α] : ∀ {l : List α}, IdSpec.pairwiseDistinct l = true ↔ l.Nodup
  | [] => by simp [IdSpec.pairwiseDistinct]
  | x :: xs => by
    simp only [IdSpec.pairwiseDistinct, Bool.and_eq_true, List.nodup_cons, pairwiseDistinct_iff' (l := xs),
      List.all_eq_true, Bool.not_eq_true', beq_eq_false_iff_ne, ne_eq]
    constructor
    · exact fun ⟨h1, h2⟩ => ⟨fun hm => h1 x hm rfl, h2⟩
    · exact fun ⟨h1, h2⟩ => ⟨fun y hy heq => h1 (heq ▸ hy), h2⟩

theorem addCds_noIdentifier {s : GState} {c : Cds} (h : addCds s c = .error .noIdentifier) : c.getName = none := by
  unfold addCds at h
  split at h
  · rename_i hn; exact hn
  · split at h
    · simp at h
    · split at h
      · simp at h
      · split at h
        · simp at h
        · split at h
          · simp at h
          · simp only at h
            split at h <;> simp at h

theorem fromBiopython_err : ∀ (fs : List BioFeat) {s : GState} {e : GErr}, fromBiopython s fs = .error e →
    e = .dupLocation ∨ e = .dupName
  | [], _, _, h => by simp [fromBiopython] at h
  | f :: fs, s, e, h => by
    unfold fromBiopython at h
    split at h
    · split at h
      · rename_i e' herr
        simp only [Except.error.injEq] at h
        subst h
        cases e' with
        | noIdentifier => exact absurd (addCds_noIdentifier herr) (cdsOfBio_named f)
        | dupLocation => exact Or.inl rfl
        | dupName => exact Or.inr rfl
      · exact fromBiopython_err fs h
    · exact fromBiopython_err fs h

theorem genesOk_of_inv {s : GState} (h : GInv s) (hs : ∀ x ∈ s.cdss, GSafe x.1) : IdSpec.genesOk s.cdss = true := by
  unfold IdSpec.genesOk
  simp only [Bool.and_eq_true, List.all_eq_true]
  exact ⟨⟨pairwiseDistinct_iff'.mpr h.1, pairwiseDistinct_iff'.mpr (locs_nodup_of_keys h.2)⟩,
    fun x hx => (gsafe_iff _).mp (hs x hx)⟩

theorem genesOk_of_runOps (ops : List GOp) : IdSpec.genesOk (runOps {} ops).cdss = true := by
  have h := runOps_inv ops (s := {}) ⟨List.nodup_nil, List.nodup_nil⟩
  have hs := runOps_safe ops (s := {}) (by simp)
  unfold IdSpec.genesOk
  simp only [Bool.and_eq_true, List.all_eq_true]
  exact ⟨⟨pairwiseDistinct_iff'.mpr h.1, pairwiseDistinct_iff'.mpr (locs_nodup_of_keys h.2)⟩,
    fun x hx => (gsafe_iff _).mp (hs x hx)⟩

end ASV.Ids
