/-
  Helper lemmas for C18 (pool machine).  Core Lean only.
-/
import ASV.Spec.Parallel
namespace ASV.Parallel

variable {α ε β : Type}

/-! ### the list comprehension -/

theorem comprehension_eq_mapM (f : α → Except ε β) (l : List α) :
    comprehension f l = l.mapM f := by
  induction l with
  | nil => rfl
  | cons a rest ih =>
    simp only [comprehension, List.mapM_cons, ih]
    cases f a with
    | error e => rfl
    | ok b =>
      cases List.mapM f rest with
      | error e => rfl
      | ok bs => rfl

theorem comprehension_eq_sequential (f : α → Except ε β) (l : List α) :
    comprehension f l = sequential f l := comprehension_eq_mapM f l

end ASV.Parallel
