/-
  Helper lemmas for C18 (pool machine).  Core Lean only.
-/
import ASV.Spec.Parallel
namespace ASV.Parallel

variable {α ε β γ : Type}

/-! ### the list comprehension -/

theorem comprehension_eq_mapM (f : α → Except ε β) (l : List α) :
    comprehension f l = l.mapM f := by
  induction l with
  | nil => rfl
  | cons a rest ih =>
    simp only [comprehension, List.mapM_cons, ih]
    cases f a with
    | error e => rfl
    | ok b =>
      cases List.mapM f rest with
      | error e => rfl
      | ok bs => rfl

theorem comprehension_eq_sequential (f : α → Except ε β) (l : List α) :
    comprehension f l = sequential f l := comprehension_eq_mapM f l

theorem comprehension_length (f : α → Except ε β) :
    ∀ (l : List α) (r : List β), comprehension f l = .ok r → r.length = l.length
  | [], r, h => by simp [comprehension] at h; subst h; rfl
  | a :: rest, r, h => by
    simp only [comprehension] at h
    split at h
    · cases h
    · split at h
      · cases h
      · rename_i bs hbs
        cases h
        simp [comprehension_length f rest bs hbs]

/-- a failing comprehension fails with the error of one of its calls -/
theorem comprehension_error_mem (f : α → Except ε β) :
    ∀ (l : List α) (e : ε), comprehension f l = .error e → ∃ a ∈ l, f a = .error e
  | [], e, h => by simp [comprehension] at h
  | a :: rest, e, h => by
    simp only [comprehension] at h
    split at h
    · rename_i e' he'
      cases h
      exact ⟨a, by simp, he'⟩
    · split at h
      · rename_i e' he'
        cases h
        obtain ⟨x, hx, hfx⟩ := comprehension_error_mem f rest e he'
        exact ⟨x, by simp [hx], hfx⟩
      · cases h

theorem comprehension_append (f : α → Except ε β) (l₁ l₂ : List α) :
    comprehension f (l₁ ++ l₂) =
      match comprehension f l₁ with
      | .error e => .error e
      | .ok r₁ =>
        match comprehension f l₂ with
        | .error e => .error e
        | .ok r₂ => .ok (r₁ ++ r₂) := by
  induction l₁ with
  | nil =>
    simp only [List.nil_append, comprehension]
    cases comprehension f l₂ <;> rfl
  | cons a rest ih =>
    simp only [List.cons_append, comprehension, ih]
    cases f a with
    | error e => rfl
    | ok b =>
      cases comprehension f rest with
      | error e => rfl
      | ok r₁ =>
        cases comprehension f l₂ with
        | error e => rfl
        | ok r₂ => rfl

end ASV.Parallel
