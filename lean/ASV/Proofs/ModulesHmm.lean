/-
  C14 helper lemmas, part 12: HMMResult JSON round trip and the subtype chain.
-/
import ASV.Model.ModulesHmm
namespace ASV.Modules

theorem Hmm.allOverlap_eq_all (parent : Hmm) : ∀ l : List Hmm,
    Hmm.allOverlap parent l = l.all (fun h => h.overlapsWith parent)
  | [] => rfl
  | h :: t => by simp [Hmm.allOverlap, Hmm.allOverlap_eq_all parent t]

mutual
theorem Hmm.roundtrip : ∀ h : Hmm, h.WF = true → Hmm.fromJson h.toJson = .ok h
  | .mk i s e ev bs [], _ => by
    simp [Hmm.toJson, Hmm.fromJson, Hmm.construct]
  | .mk i s e ev bs (x :: xs), hw => by
    simp only [Hmm.WF, Bool.and_eq_true] at hw
    have ih := Hmm.roundtripL (x :: xs) hw.2
    simp only [Hmm.toJsonL] at ih
    simp only [Hmm.toJson, Hmm.fromJson, ih, Hmm.construct]
    rw [← Hmm.allOverlap_eq_all, hw.1]; rfl
theorem Hmm.roundtripL : ∀ l : List Hmm, Hmm.WFL l = true → Hmm.fromJsonL (Hmm.toJsonL l) = .ok l
  | [], _ => rfl
  | h :: t, hw => by
    simp only [Hmm.WFL, Bool.and_eq_true] at hw
    simp only [Hmm.toJsonL, Hmm.fromJsonL, Hmm.roundtrip h hw.1, Hmm.roundtripL t hw.2]
end

/-- the constructor accepts exactly well-formed trees built from well-formed parts -/
theorem Hmm.construct_ok (i : String) (s e ev bs : Int) (l : List Hmm) (hl : Hmm.WFL l = true) :
    (∃ h, Hmm.construct i s e ev bs l = .ok h ∧ h.WF = true ∧ h = .mk i s e ev bs l)
    ∨ (Hmm.construct i s e ev bs l = .error .valueError ∧ Hmm.allOverlap (.mk i s e ev bs []) l = false) := by
  unfold Hmm.construct
  cases hc : l.all (fun h => h.overlapsWith (.mk i s e ev bs [])) with
  | true =>
    left
    refine ⟨_, by rw [if_pos hc], ?_, rfl⟩
    simp only [Hmm.WF, Bool.and_eq_true]
    exact ⟨by rw [Hmm.allOverlap_eq_all]; exact hc, hl⟩
  | false =>
    right
    exact ⟨by rw [if_neg (by rw [hc]; simp)], by rw [Hmm.allOverlap_eq_all]; exact hc⟩

mutual
/-- whatever `from_json` returns is well-formed -/
theorem Hmm.fromJson_wf : ∀ (j : HmmJson) (h : Hmm), Hmm.fromJson j = .ok h → h.WF = true
  | .mk i s e ev bs none, h, hj => by
    simp only [Hmm.fromJson] at hj
    rcases Hmm.construct_ok i s e ev bs [] rfl with ⟨h', h1, h2, _⟩ | ⟨h1, _⟩
    · rw [h1] at hj; injection hj with hj; subst hj; exact h2
    · rw [h1] at hj; cases hj
  | .mk i s e ev bs (some l), h, hj => by
    simp only [Hmm.fromJson] at hj
    cases hl : Hmm.fromJsonL l with
    | error err => rw [hl] at hj; cases hj
    | ok hits =>
      rw [hl] at hj
      simp only at hj
      rcases Hmm.construct_ok i s e ev bs hits (Hmm.fromJsonL_wf l hits hl) with ⟨h', h1, h2, _⟩ | ⟨h1, _⟩
      · rw [h1] at hj; injection hj with hj; subst hj; exact h2
      · rw [h1] at hj; cases hj
theorem Hmm.fromJsonL_wf : ∀ (l : List HmmJson) (hs : List Hmm), Hmm.fromJsonL l = .ok hs → Hmm.WFL hs = true
  | [], hs, hl => by simp only [Hmm.fromJsonL] at hl; injection hl with hl; subst hl; rfl
  | j :: t, hs, hl => by
    simp only [Hmm.fromJsonL] at hl
    cases hj : Hmm.fromJson j with
    | error err => rw [hj] at hl; cases hl
    | ok h =>
      rw [hj] at hl
      simp only at hl
      cases ht : Hmm.fromJsonL t with
      | error err => rw [ht] at hl; cases hl
      | ok hs' =>
        rw [ht] at hl
        simp only at hl
        injection hl with hl; subst hl
        simp only [Hmm.WFL, Bool.and_eq_true]
        exact ⟨Hmm.fromJson_wf j h hj, Hmm.fromJsonL_wf t hs' ht⟩
end


mutual
/-- constructing a tree bottom-up succeeds exactly on well-formed trees and returns the tree -/
theorem Hmm.validate_ok : ∀ (raw h : Hmm), Hmm.validate raw = .ok h → h = raw ∧ h.WF = true
  | .mk i s e ev bs l, h, hv => by
    simp only [Hmm.validate] at hv
    cases hl : Hmm.validateL l with
    | error err => rw [hl] at hv; cases hv
    | ok hits =>
      rw [hl] at hv
      simp only at hv
      obtain ⟨e1, e2⟩ := Hmm.validateL_ok l hits hl
      subst e1
      rcases Hmm.construct_ok i s e ev bs hits e2 with ⟨h', h1, h2, h3⟩ | ⟨h1, _⟩
      · rw [h1] at hv; injection hv with hv; subst hv; exact ⟨h3, h2⟩
      · rw [h1] at hv; cases hv
theorem Hmm.validateL_ok : ∀ (raw hs : List Hmm), Hmm.validateL raw = .ok hs → hs = raw ∧ Hmm.WFL hs = true
  | [], hs, hv => by simp only [Hmm.validateL] at hv; injection hv with hv; subst hv; exact ⟨rfl, rfl⟩
  | x :: t, hs, hv => by
    simp only [Hmm.validateL] at hv
    cases hx : Hmm.validate x with
    | error err => rw [hx] at hv; cases hv
    | ok x' =>
      rw [hx] at hv
      simp only at hv
      cases ht : Hmm.validateL t with
      | error err => rw [ht] at hv; cases hv
      | ok t' =>
        rw [ht] at hv
        simp only at hv
        injection hv with hv; subst hv
        obtain ⟨a1, a2⟩ := Hmm.validate_ok x x' hx
        obtain ⟨b1, b2⟩ := Hmm.validateL_ok t t' ht
        subst a1; subst b1
        exact ⟨rfl, by simp only [Hmm.WFL, a2, b2]; rfl⟩
end

mutual
theorem Hmm.validate_wf : ∀ (h : Hmm), h.WF = true → Hmm.validate h = .ok h
  | .mk i s e ev bs l, hw => by
    simp only [Hmm.WF, Bool.and_eq_true] at hw
    simp only [Hmm.validate, Hmm.validateL_wf l hw.2, Hmm.construct]
    rw [← Hmm.allOverlap_eq_all, hw.1]; rfl
theorem Hmm.validateL_wf : ∀ (l : List Hmm), Hmm.WFL l = true → Hmm.validateL l = .ok l
  | [], _ => rfl
  | x :: t, hw => by
    simp only [Hmm.WFL, Bool.and_eq_true] at hw
    simp only [Hmm.validateL, Hmm.validate_wf x hw.1, Hmm.validateL_wf t hw.2]
end

end ASV.Modules
