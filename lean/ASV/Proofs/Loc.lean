/-
  Helper lemmas about the location model (C04, used by C01/C03/...).
-/
import ASV.Spec.Bases
namespace ASV


theorem Part.mem_iff (p : Part) (i : Int) : p.mem i = true ↔ p.lo ≤ i ∧ i < p.hi := by
  simp [Part.mem]

theorem partsOverlap_iff (p q : Part) (hp : p.lo < p.hi) (hq : q.lo < q.hi) :
    partsOverlap p q = true ↔ p.SharesBase q := by
  unfold Part.SharesBase
  simp only [partsOverlap, Bool.or_eq_true, Part.mem_iff]
  constructor
  · intro h
    rcases h with ((h | h) | h) | h
    · exact ⟨p.lo, by omega, by omega⟩
    · exact ⟨p.hi - 1, by omega, by omega⟩
    · exact ⟨q.lo, by omega, by omega⟩
    · exact ⟨q.hi - 1, by omega, by omega⟩
  · rintro ⟨i, h1, h2⟩
    omega

theorem partsOverlap_comm (p q : Part) : partsOverlap p q = partsOverlap q p := by
  simp only [partsOverlap]
  cases h1 : q.mem p.lo <;> cases h2 : q.mem (p.hi - 1) <;> cases h3 : p.mem q.lo <;> cases h4 : p.mem (q.hi - 1) <;> rfl

def Loc.PartsNonEmpty (l : Loc) : Prop := ∀ p ∈ l.parts, p.lo < p.hi

theorem locationsOverlap_iff (a b : Loc) (ha : a.PartsNonEmpty) (hb : b.PartsNonEmpty) :
    locationsOverlap a b = true ↔ a.SharesBase b := by
  unfold Loc.SharesBase
  simp only [locationsOverlap, List.any_eq_true, Loc.mem]
  constructor
  · rintro ⟨p, hp, q, hq, h⟩
    obtain ⟨i, h1, h2⟩ := (partsOverlap_iff p q (ha p hp) (hb q hq)).1 h
    exact ⟨i, ⟨p, hp, h1⟩, ⟨q, hq, h2⟩⟩
  · rintro ⟨i, ⟨p, hp, h1⟩, ⟨q, hq, h2⟩⟩
    exact ⟨p, hp, q, hq, (partsOverlap_iff p q (ha p hp) (hb q hq)).2 ⟨i, h1, h2⟩⟩

theorem locationsOverlap_comm (a b : Loc) : locationsOverlap a b = locationsOverlap b a := by
  simp only [locationsOverlap]
  rw [Bool.eq_iff_iff]
  simp only [List.any_eq_true]
  constructor
  · rintro ⟨p, hp, q, hq, h⟩; exact ⟨q, hq, p, hp, by rw [partsOverlap_comm]; exact h⟩
  · rintro ⟨p, hp, q, hq, h⟩; exact ⟨q, hq, p, hp, by rw [partsOverlap_comm]; exact h⟩



/-- the property's wording: each part of the inner lies inside one part of the outer -/
theorem contains_iff_parts (outer inner : Loc) (hw : ∀ q ∈ inner.parts, q.lo ≤ q.hi) :
    locationContainsOther outer inner = true ↔
      ∀ q ∈ inner.parts, ∃ p ∈ outer.parts, p.lo ≤ q.lo ∧ q.hi ≤ p.hi := by
  simp only [locationContainsOther, List.all_eq_true, List.any_eq_true, partContains,
    Bool.and_eq_true, decide_eq_true_eq]
  constructor
  · intro h q hq
    obtain ⟨p, hp, h1⟩ := h q hq
    exact ⟨p, hp, h1.1.1, h1.2⟩
  · intro h q hq
    obtain ⟨p, hp, h1, h2⟩ := h q hq
    exact ⟨p, hp, ⟨h1, hw q hq⟩, h2⟩

theorem contains_subset (outer inner : Loc) (h : locationContainsOther outer inner = true) :
    ∀ i, inner.mem i = true → outer.mem i = true := by
  intro i hi
  simp only [locationContainsOther, List.all_eq_true, List.any_eq_true, partContains,
    Bool.and_eq_true, decide_eq_true_eq] at h
  simp only [Loc.mem, List.any_eq_true, Part.mem_iff] at hi ⊢
  obtain ⟨q, hq, h1, h2⟩ := hi
  obtain ⟨p, hp, h3⟩ := h q hq
  exact ⟨p, hp, by omega, by omega⟩


def Part.OK (L : Int) (p : Part) : Prop := 0 ≤ p.lo ∧ p.lo < p.hi ∧ (L ≠ 0 → p.hi ≤ L)
theorem iabs_def (x : Int) : iabs x = if x < 0 then -x else x := rfl

theorem ring_variants_before (L a1 a2 b1 b2 : Int) (h0 : 0 ≤ a1) (h1 : a1 < a2) (h2 : a2 ≤ b1) (h3 : b1 < b2) (h4 : b2 ≤ L) :
    min (min (iabs (a1 - b2 + L)) (iabs (a2 - b1 + L))) (min (iabs (b1 - a2 + L)) (iabs (b2 - a1 + L))) = a1 + L - b2 := by
  simp only [iabs_def, Int.min_def]
  grind

theorem line_variants_before (a1 a2 b1 b2 : Int) (h1 : a1 < a2) (h2 : a2 ≤ b1) (h3 : b1 < b2) :
    min (min (iabs (a1 - b2 + 0)) (iabs (a2 - b1 + 0))) (min (iabs (b1 - a2 + 0)) (iabs (b2 - a1 + 0))) = b1 - a2 := by
  simp only [iabs_def, Int.min_def]
  grind

theorem ring_variants_after (L a1 a2 b1 b2 : Int) (h0 : 0 ≤ b1) (h1 : b1 < b2) (h2 : b2 ≤ a1) (h3 : a1 < a2) (h4 : a2 ≤ L) :
    min (min (iabs (a1 - b2 + L)) (iabs (a2 - b1 + L))) (min (iabs (b1 - a2 + L)) (iabs (b2 - a1 + L))) = b1 + L - a2 := by
  simp only [iabs_def, Int.min_def]
  grind

theorem line_variants_after (a1 a2 b1 b2 : Int) (h1 : b1 < b2) (h2 : b2 ≤ a1) (h3 : a1 < a2) :
    min (min (iabs (a1 - b2 + 0)) (iabs (a2 - b1 + 0))) (min (iabs (b1 - a2 + 0)) (iabs (b2 - a1 + 0))) = a1 - b2 := by
  simp only [iabs_def, Int.min_def]
  grind

theorem partDistance_eq_spec (L : Int) (p q : Part) (hp : p.OK L) (hq : q.OK L)
    (hno : partsOverlap p q = false) : partDistance p q L = specPartDist L p q := by
  obtain ⟨hp0, hp1, hp2⟩ := hp
  obtain ⟨hq0, hq1, hq2⟩ := hq
  have hdis : p.hi ≤ q.lo ∨ q.hi ≤ p.lo := by
    simp only [partsOverlap, Part.mem, Bool.or_eq_false_iff, Bool.and_eq_false_iff, decide_eq_false_iff_not] at hno
    omega
  simp only [partDistance, hno, Bool.false_eq_true, if_false, simpleDistance, distVariants, Loc.start, Loc.end, specPartDist, lineGap]
  by_cases h0 : L = 0
  · subst h0
    simp only [if_true]
    rcases hdis with hd | hd
    · rw [line_variants_before _ _ _ _ hp1 hd hq1]; simp [hd]
    · rw [line_variants_after _ _ _ _ hq1 hd hp1]
      have : ¬ p.hi ≤ q.lo := by omega
      simp [this, hd]
  · simp only [h0, if_false]
    have hpL := hp2 h0
    have hqL := hq2 h0
    rcases hdis with hd | hd
    · rw [ring_variants_before L _ _ _ _ hp0 hp1 hd hq1 hqL, line_variants_before _ _ _ _ hp1 hd hq1]
      rw [Int.emod_eq_of_lt (by omega) (by omega)]
      simp only [hd, if_true]
      rw [Int.min_comm]
    · rw [ring_variants_after L _ _ _ _ hq0 hq1 hd hp1 hpL, line_variants_after _ _ _ _ hq1 hd hp1]
      rw [Int.emod_eq_of_lt (by omega) (by omega)]
      have : ¬ p.hi ≤ q.lo := by omega
      simp only [this, hd, if_false, if_true]
      rw [Int.min_comm]


theorem between_lower (L : Int) (p q : Part) (hp : p.OK L) (hq : q.OK L)
    (hdis : p.hi ≤ q.lo ∨ q.hi ≤ p.lo) (i j : Int) (hi : p.mem i = true) (hj : q.mem j = true) :
    specPartDist L p q ≤ between L i j := by
  obtain ⟨hp0, hp1, hp2⟩ := hp
  obtain ⟨hq0, hq1, hq2⟩ := hq
  rw [Part.mem_iff] at hi hj
  simp only [specPartDist, between, lineBetween, ringBetween, lineGap, iabs_def, Int.min_def]
  by_cases h0 : L = 0
  · simp only [h0, if_true]; grind
  · have := hp2 h0; have := hq2 h0
    simp only [h0, if_false]; grind

theorem between_attained (L : Int) (p q : Part) (hp : p.OK L) (hq : q.OK L)
    (hdis : p.hi ≤ q.lo ∨ q.hi ≤ p.lo) :
    ∃ i j, p.mem i = true ∧ q.mem j = true ∧ between L i j = specPartDist L p q := by
  obtain ⟨hp0, hp1, hp2⟩ := hp
  obtain ⟨hq0, hq1, hq2⟩ := hq
  simp only [Part.mem_iff]
  by_cases h0 : L = 0
  · rcases hdis with hd | hd
    · refine ⟨p.hi - 1, q.lo, ⟨by omega, by omega⟩, ⟨by omega, by omega⟩, ?_⟩
      simp only [specPartDist, between, lineBetween, lineGap, iabs_def, h0, if_true]; grind
    · refine ⟨p.lo, q.hi - 1, ⟨by omega, by omega⟩, ⟨by omega, by omega⟩, ?_⟩
      simp only [specPartDist, between, lineBetween, lineGap, iabs_def, h0, if_true]; grind
  · have := hp2 h0; have := hq2 h0
    rcases hdis with hd | hd
    · by_cases hc : q.lo - p.hi ≤ p.lo + L - q.hi
      · refine ⟨p.hi - 1, q.lo, ⟨by omega, by omega⟩, ⟨by omega, by omega⟩, ?_⟩
        simp only [specPartDist, between, ringBetween, iabs_def, h0, if_false, Int.min_def]; grind
      · refine ⟨p.lo, q.hi - 1, ⟨by omega, by omega⟩, ⟨by omega, by omega⟩, ?_⟩
        simp only [specPartDist, between, ringBetween, iabs_def, h0, if_false, Int.min_def]; grind
    · by_cases hc : p.lo - q.hi ≤ q.lo + L - p.hi
      · refine ⟨p.lo, q.hi - 1, ⟨by omega, by omega⟩, ⟨by omega, by omega⟩, ?_⟩
        simp only [specPartDist, between, ringBetween, iabs_def, h0, if_false, Int.min_def]; grind
      · refine ⟨p.hi - 1, q.lo, ⟨by omega, by omega⟩, ⟨by omega, by omega⟩, ?_⟩
        simp only [specPartDist, between, ringBetween, iabs_def, h0, if_false, Int.min_def]; grind



theorem foldl_min_le_init (l : List Int) (x : Int) : l.foldl min x ≤ x := by
  induction l generalizing x with
  | nil => simp
  | cons y ys ih => simp only [List.foldl_cons]; exact Int.le_trans (ih _) (Int.min_le_left _ _)

theorem foldl_min_le_mem (l : List Int) (x y : Int) (hy : y ∈ l) : l.foldl min x ≤ y := by
  induction l generalizing x with
  | nil => cases hy
  | cons z zs ih =>
    simp only [List.foldl_cons]
    rcases List.mem_cons.1 hy with rfl | h
    · exact Int.le_trans (foldl_min_le_init _ _) (Int.min_le_right _ _)
    · exact ih _ h

theorem foldl_min_mem (l : List Int) (x : Int) : l.foldl min x = x ∨ l.foldl min x ∈ l := by
  induction l generalizing x with
  | nil => simp
  | cons z zs ih =>
    simp only [List.foldl_cons]
    rcases ih (min x z) with h | h
    · rw [h]
      rcases Int.le_total x z with hxz | hxz
      · left; exact Int.min_eq_left hxz
      · right; rw [Int.min_eq_right hxz]; simp
    · right; exact List.mem_cons_of_mem _ h

theorem minList_le_of_mem {l : List Int} {y : Int} (hy : y ∈ l) : minList l ≤ y := by
  cases l with
  | nil => cases hy
  | cons x xs =>
    simp only [minList]
    rcases List.mem_cons.1 hy with rfl | h
    · exact foldl_min_le_init _ _
    · exact foldl_min_le_mem _ _ _ h

theorem minList_mem {l : List Int} (h : l ≠ []) : minList l ∈ l := by
  cases l with
  | nil => exact absurd rfl h
  | cons x xs =>
    simp only [minList]
    rcases foldl_min_mem xs x with h | h
    · rw [h]; simp
    · exact List.mem_cons_of_mem _ h

def Loc.OK (L : Int) (l : Loc) : Prop := l.parts ≠ [] ∧ ∀ p ∈ l.parts, p.OK L

theorem Loc.OK.nonEmpty {L : Int} {l : Loc} (h : l.OK L) : l.PartsNonEmpty := fun p hp => (h.2 p hp).2.1

theorem noOverlap_parts {a b : Loc} (h : locationsOverlap a b = false) :
    ∀ p ∈ a.parts, ∀ q ∈ b.parts, partsOverlap p q = false := by
  intro p hp q hq
  simp only [locationsOverlap, List.any_eq_false] at h
  have h1 := h p hp
  simp only [Bool.not_eq_true, List.any_eq_false] at h1
  simpa using h1 q hq

theorem pairs_congr (a b : Loc) (L : Int) (ha : a.OK L) (hb : b.OK L) (h : locationsOverlap a b = false) :
    (a.parts.flatMap fun p => b.parts.map fun q => partDistance p q L)
      = (a.parts.flatMap fun p => b.parts.map fun q => specPartDist L p q) := by
  have key : ∀ (as : List Part), (∀ p ∈ as, p ∈ a.parts) →
      (as.flatMap fun p => b.parts.map fun q => partDistance p q L)
        = (as.flatMap fun p => b.parts.map fun q => specPartDist L p q) := by
    intro as
    induction as with
    | nil => intro _; rfl
    | cons p ps ih =>
      intro hsub
      simp only [List.flatMap_cons]
      rw [ih (fun x hx => hsub x (List.mem_cons_of_mem _ hx))]
      congr 1
      apply List.map_congr_left
      intro q hq
      exact partDistance_eq_spec L p q (ha.2 p (hsub p (by simp))) (hb.2 q hq)
        (noOverlap_parts h p (hsub p (by simp)) q hq)
  exact key a.parts (fun _ h => h)

theorem start_single (l : Loc) (p : Part) (h : l.parts = [p]) : l.start = p.lo ∧ l.end = p.hi := by
  cases l with
  | simple x => simp [Loc.parts] at h; subst h; simp [Loc.start, Loc.end]
  | compound ps => simp [Loc.parts] at h; subst h; simp [Loc.start, Loc.end, minList, maxList]

theorem simpleDistance_single (a b : Loc) (p q : Part) (ha : a.parts = [p]) (hb : b.parts = [q]) (L : Int) :
    simpleDistance a b L = simpleDistance (.simple p) (.simple q) L := by
  obtain ⟨h1, h2⟩ := start_single a p ha
  obtain ⟨h3, h4⟩ := start_single b q hb
  unfold simpleDistance distVariants
  rw [h1, h2, h3, h4]
  rfl

/-- the distance computed by the code is the set-of-bases distance in closed form -/
theorem getDistance_eq_spec (a b : Loc) (L : Int) (ha : a.OK L) (hb : b.OK L) :
    getDistance a b L = if locationsOverlap a b then 0 else specDist L a b := by
  unfold getDistance
  cases hov : locationsOverlap a b
  · simp only [Bool.false_eq_true, if_false]
    split
    · next hmulti => rw [pairs_congr a b L ha hb hov]; rfl
    · next hsingle =>
      simp only [Bool.or_eq_true, decide_eq_true_eq, not_or, Nat.not_lt] at hsingle
      have hpa : ∃ p, a.parts = [p] := by
        match hm : a.parts with
        | [] => exact absurd hm ha.1
        | [p] => exact ⟨p, rfl⟩
        | _ :: _ :: _ => rw [hm] at hsingle; simp at hsingle
      have hqb : ∃ q, b.parts = [q] := by
        match hm : b.parts with
        | [] => exact absurd hm hb.1
        | [q] => exact ⟨q, rfl⟩
        | _ :: _ :: _ => rw [hm] at hsingle; simp at hsingle
      obtain ⟨p, hp⟩ := hpa
      obtain ⟨q, hq⟩ := hqb
      rw [simpleDistance_single a b p q hp hq L]
      have hno : partsOverlap p q = false := noOverlap_parts hov p (by simp [hp]) q (by simp [hq])
      have := partDistance_eq_spec L p q (ha.2 p (by simp [hp])) (hb.2 q (by simp [hq])) hno
      simp only [partDistance, hno, Bool.false_eq_true, if_false] at this
      rw [this]
      simp [specDist, hp, hq, minList]
  · simp




theorem noOverlap_disjoint {p q : Part} (_hp : p.lo < p.hi) (_hq : q.lo < q.hi) (h : partsOverlap p q = false) :
    p.hi ≤ q.lo ∨ q.hi ≤ p.lo := by
  simp only [partsOverlap, Part.mem, Bool.or_eq_false_iff, Bool.and_eq_false_iff, decide_eq_false_iff_not] at h
  omega

/-- the value computed by `get_distance_between_locations` is the distance of the two sets of
    bases: 0 iff they share a base, otherwise the least number of bases strictly between a base
    of one and a base of the other, the shorter way round on a ring -/
theorem getDistance_isDist (a b : Loc) (L : Int) (ha : a.OK L) (hb : b.OK L) :
    IsDist L a b (getDistance a b L) := by
  rw [getDistance_eq_spec a b L ha hb]
  cases hov : locationsOverlap a b
  · right
    have hns : ¬ a.SharesBase b := by
      intro h
      have := (locationsOverlap_iff a b ha.nonEmpty hb.nonEmpty).2 h
      rw [hov] at this; cases this
    refine ⟨hns, ?_, ?_⟩
    · -- attained
      have hne : (a.parts.flatMap fun p => b.parts.map fun q => specPartDist L p q) ≠ [] := by
        obtain ⟨p, hp⟩ := List.exists_mem_of_ne_nil _ ha.1
        obtain ⟨q, hq⟩ := List.exists_mem_of_ne_nil _ hb.1
        intro h
        have : specPartDist L p q ∈ (a.parts.flatMap fun p => b.parts.map fun q => specPartDist L p q) := by
          simp only [List.mem_flatMap, List.mem_map]
          exact ⟨p, hp, q, hq, rfl⟩
        rw [h] at this; cases this
      have hm := minList_mem hne
      simp only [List.mem_flatMap, List.mem_map] at hm
      obtain ⟨p, hp, q, hq, hpq⟩ := hm
      have hno := noOverlap_parts hov p hp q hq
      obtain ⟨i, j, hi, hj, hbt⟩ := between_attained L p q (ha.2 p hp) (hb.2 q hq)
        (noOverlap_disjoint (ha.2 p hp).2.1 (hb.2 q hq).2.1 hno)
      refine ⟨i, j, ?_, ?_, ?_⟩
      · simp only [Loc.mem, List.any_eq_true]; exact ⟨p, hp, hi⟩
      · simp only [Loc.mem, List.any_eq_true]; exact ⟨q, hq, hj⟩
      · simp only [Bool.false_eq_true, if_false, specDist]; rw [hbt, hpq]
    · intro i j hi hj
      simp only [Loc.mem, List.any_eq_true] at hi hj
      obtain ⟨p, hp, hi⟩ := hi
      obtain ⟨q, hq, hj⟩ := hj
      have hno := noOverlap_parts hov p hp q hq
      have h1 := between_lower L p q (ha.2 p hp) (hb.2 q hq)
        (noOverlap_disjoint (ha.2 p hp).2.1 (hb.2 q hq).2.1 hno) i j hi hj
      have h2 : specDist L a b ≤ specPartDist L p q := by
        apply minList_le_of_mem
        simp only [List.mem_flatMap, List.mem_map]
        exact ⟨p, hp, q, hq, rfl⟩
      simp only [Bool.false_eq_true, if_false]
      omega
  · left
    exact ⟨(locationsOverlap_iff a b ha.nonEmpty hb.nonEmpty).1 hov, by simp⟩

theorem between_comm (L i j : Int) : between L i j = between L j i := by
  simp only [between, lineBetween, ringBetween, iabs_def, Int.min_def]
  grind

theorem SharesBase_comm (a b : Loc) : a.SharesBase b ↔ b.SharesBase a := by
  constructor <;> (rintro ⟨i, h1, h2⟩; exact ⟨i, h2, h1⟩)

theorem IsDist.symm {L : Int} {a b : Loc} {d : Int} (h : IsDist L a b d) : IsDist L b a d := by
  rcases h with ⟨hs, hd⟩ | ⟨hns, ⟨i, j, hi, hj, hb⟩, hlow⟩
  · left; exact ⟨(SharesBase_comm a b).1 hs, hd⟩
  · right
    refine ⟨fun h => hns ((SharesBase_comm a b).2 h), ⟨j, i, hj, hi, by rw [between_comm]; exact hb⟩, ?_⟩
    intro i' j' hi' hj'
    rw [between_comm]
    exact hlow j' i' hj' hi'

theorem IsDist.unique {L : Int} {a b : Loc} {d d' : Int} (h : IsDist L a b d) (h' : IsDist L a b d') :
    d = d' := by
  rcases h with ⟨hs, hd⟩ | ⟨hns, ⟨i, j, hi, hj, hb⟩, hlow⟩
  · rcases h' with ⟨_, hd'⟩ | ⟨hns', _⟩
    · omega
    · exact absurd hs hns'
  · rcases h' with ⟨hs', _⟩ | ⟨_, ⟨i', j', hi', hj', hb'⟩, hlow'⟩
    · exact absurd hs' hns
    · have h1 := hlow i' j' hi' hj'
      have h2 := hlow' i j hi hj
      omega

theorem getDistance_comm (a b : Loc) (L : Int) (ha : a.OK L) (hb : b.OK L) :
    getDistance a b L = getDistance b a L :=
  (getDistance_isDist a b L ha hb).unique (getDistance_isDist b a L hb ha).symm


theorem getDistance_simple (a b : Part) (w : Int) :
    getDistance (.simple a) (.simple b) w = partDistance a b w := by
  simp [getDistance, partDistance, locationsOverlap, Loc.parts]

theorem partDistance_line (a b : Part) (ha : a.lo < a.hi) (hb : b.lo < b.hi) :
    partDistance a b 0 = lineGap a b := by
  simp only [partDistance, simpleDistance, partsOverlap, Part.mem, distVariants, iabs, Loc.start,
    Loc.end, lineGap]
  simp only [Bool.or_eq_true, Bool.and_eq_true, decide_eq_true_eq]
  simp only [Int.min_def]
  grind

theorem getDistance_simple_line (a b : Part) (ha : a.lo < a.hi) (hb : b.lo < b.hi) :
    getDistance (.simple a) (.simple b) 0 = lineGap a b := by
  rw [getDistance_simple, partDistance_line a b ha hb]


theorem sharesPts_iff (a b : Loc) : sharesPts a b = true ↔ a.SharesBase b := by
  unfold Loc.SharesBase sharesPts
  constructor
  · intro h
    rw [List.any_eq_true] at h
    obtain ⟨i, _, hi⟩ := h
    simp only [Bool.and_eq_true] at hi
    exact ⟨i, hi.1, hi.2⟩
  · rintro ⟨i, ha, hb⟩
    simp only [Loc.mem, List.any_eq_true, Part.mem_iff] at ha hb
    obtain ⟨p, hp, hp1, hp2⟩ := ha
    obtain ⟨q, hq, hq1, hq2⟩ := hb
    rw [List.any_eq_true]
    by_cases hc : p.lo ≤ q.lo
    · refine ⟨q.lo, by simp only [List.mem_append, List.mem_map]; exact Or.inr ⟨q, hq, rfl⟩, ?_⟩
      simp only [Bool.and_eq_true, Loc.mem, List.any_eq_true, Part.mem_iff]
      exact ⟨⟨p, hp, by omega, by omega⟩, ⟨q, hq, by omega, by omega⟩⟩
    · refine ⟨p.lo, by simp only [List.mem_append, List.mem_map]; exact Or.inl ⟨p, hp, rfl⟩, ?_⟩
      simp only [Bool.and_eq_true, Loc.mem, List.any_eq_true, Part.mem_iff]
      exact ⟨⟨p, hp, by omega, by omega⟩, ⟨q, hq, by omega, by omega⟩⟩

theorem sharesPts_eq_overlap (a b : Loc) (ha : a.PartsNonEmpty) (hb : b.PartsNonEmpty) :
    sharesPts a b = locationsOverlap a b := by
  rw [Bool.eq_iff_iff, sharesPts_iff, locationsOverlap_iff a b ha hb]

/-- the code's distance equals the executable set-of-bases distance -/
theorem getDistance_eq_specFull (a b : Loc) (L : Int) (ha : a.OK L) (hb : b.OK L) :
    getDistance a b L = specDistFull L a b := by
  rw [getDistance_eq_spec a b L ha hb, specDistFull, sharesPts_eq_overlap a b ha.nonEmpty hb.nonEmpty]

end ASV
