/-
  Helper lemmas about the location model (C04, used by C01/C03/...).
-/
import ASV.Spec.Bases
namespace ASV

theorem getDistance_simple_line (a b : Part) (ha : a.lo < a.hi) (hb : b.lo < b.hi) :
    getDistance (.simple a) (.simple b) 0 = lineGap a b := by
  simp only [getDistance, locationsOverlap, Loc.parts, List.any_cons, List.any_nil, Bool.or_false,
    partsOverlap, Part.mem, distVariants, iabs, Loc.start, Loc.end, lineGap]
  simp only [Bool.or_eq_true, Bool.and_eq_true, decide_eq_true_eq]
  simp only [Int.min_def]
  grind

end ASV
