/-
  `offset_location` on a ring, any number of parts: the general rotation lemma of the C12 proofs
  (`offset_rotates_full`, Proofs/RegionExtractRotate.lean) in the vocabulary of C04 — `RotOf`, `partsDisjoint`,
  `Loc.strand`.
-/
import ASV.Proofs.RegionExtractRotate
set_option linter.unusedSimpArgs false
namespace ASV
open ASV.RegionExtract

/-- in a list of mutually disjoint non-empty parts every base lies in at most one part -/
theorem cnt_le_one_of_disjoint : ∀ (ps : List Part), (∀ p ∈ ps, p.lo < p.hi) → partsDisjoint ps = true →
    ∀ j, cnt ps j ≤ 1
  | [], _, _, j => by simp [cnt]
  | p :: ps, hne, hd, j => by
    simp only [partsDisjoint, Bool.and_eq_true, List.all_eq_true, Bool.not_eq_true'] at hd
    have ih := cnt_le_one_of_disjoint ps (fun q hq => hne q (by simp [hq])) hd.2 j
    rw [cnt_cons]
    by_cases hp : p.mem j = true
    · have : cnt ps j = 0 := by
        unfold cnt
        rw [List.countP_eq_zero]
        intro q hq hqj
        have hov := (partsOverlap_iff p q (hne p (by simp)) (hne q (by simp [hq]))).2 ⟨j, hp, hqj⟩
        rw [hd.1 q hq] at hov
        cases hov
      simp [hp, this]
    · simp [hp]; exact ih

/-- … and conversely -/
theorem disjoint_of_cnt_le_one : ∀ (ps : List Part), (∀ p ∈ ps, p.lo < p.hi) → (∀ j, cnt ps j ≤ 1) →
    partsDisjoint ps = true
  | [], _, _ => rfl
  | p :: ps, hne, h => by
    simp only [partsDisjoint, Bool.and_eq_true, List.all_eq_true, Bool.not_eq_true']
    constructor
    · intro q hq
      cases hov : partsOverlap p q with
      | false => rfl
      | true =>
        exfalso
        obtain ⟨j, hpj, hqj⟩ := (partsOverlap_iff p q (hne p (by simp)) (hne q (by simp [hq]))).1 hov
        have := h j
        rw [cnt_cons] at this
        have hpos : 0 < cnt ps j := by
          unfold cnt
          exact List.countP_pos_iff.2 ⟨q, hq, hqj⟩
        simp [hpj] at this
        omega
    · refine disjoint_of_cnt_le_one ps (fun q hq => hne q (by simp [hq])) (fun j => ?_)
      have := h j
      rw [cnt_cons] at this
      omega

theorem strand_of_parts (r : Loc) (s : Strand) (hne : r.parts ≠ []) (h : ∀ p ∈ r.parts, p.strand = s) : r.strand = s := by
  cases r with
  | simple p => exact h p (by simp [Loc.parts])
  | compound ps =>
    match ps, hne, h with
    | p :: ps, _, h =>
      have hall : ps.all (·.strand == p.strand) = true := by
        simp only [List.all_eq_true, beq_iff_eq]
        intro q hq
        rw [h q (by simp [Loc.parts, hq]), h p (by simp [Loc.parts])]
      simp [Loc.strand, hall]
      exact h p (by simp [Loc.parts])

/-- `(i - k) mod L` is the base that `k` moves to `i` -/
theorem rot_iff_emod (L k i : Int) (hL : 0 < L) (l : Loc) (hin : ∀ j, l.mem j = true → 0 ≤ j ∧ j < L) :
    l.mem ((i - k) % L) = true ↔ ∃ j, l.mem j = true ∧ RotOf L k i j := by
  constructor
  · intro h
    obtain ⟨q, hq, _, _⟩ := emod_shift (i - k) L hL
    exact ⟨_, h, q, by omega⟩
  · rintro ⟨j, hj, c, hc⟩
    have hb := hin j hj
    have : (i - k) % L = j := by
      have e : i - k = j + c * L := by omega
      rw [e, Int.add_mul_emod_self_right]
      exact Int.emod_eq_of_lt hb.1 hb.2
    rw [this]; exact hj

/-- `offset_location` on a ring, any number of parts -/
theorem offset_ring_general (l : Loc) (k L : Int) (s : Strand) (hne : l.parts ≠ [])
    (hparts : ∀ p ∈ l.parts, 0 ≤ p.lo ∧ p.lo < p.hi ∧ p.hi ≤ L) (hs : ∀ p ∈ l.parts, p.strand = s)
    (hdis : partsDisjoint l.parts = true) (hlen : l.len ≠ L) (hk : k ≠ 0) (hk0 : -L < k) (hk1 : k < L) :
    ∃ r, offsetLocation l k L = .ok r ∧
      (∀ i, r.mem i = true ↔ (0 ≤ i ∧ i < L ∧ ∃ j, l.mem j = true ∧ RotOf L k i j)) ∧
      r.len = l.len ∧ r.strand = s ∧
      (∀ p ∈ r.parts, 0 ≤ p.lo ∧ p.lo < p.hi ∧ p.hi ≤ L) ∧ partsDisjoint r.parts = true := by
  obtain ⟨p0, hp0⟩ := List.exists_mem_of_ne_nil _ hne
  have hL : 0 < L := by have := hparts p0 hp0; omega
  obtain ⟨r, hr, hin, hrl, hmem, hcnt, hstr⟩ := offset_rotates_full l k L s hne hparts hs hk hk0 hk1 hlen
  have hlin : ∀ j, l.mem j = true → 0 ≤ j ∧ j < L := by
    intro j hj
    simp only [Loc.mem, List.any_eq_true, Part.mem_iff] at hj
    obtain ⟨p, hp, h1, h2⟩ := hj
    have := hparts p hp
    omega
  have hrne : r.parts ≠ [] := by
    intro he
    have h0 := len_pos_of_parts' L l hne hparts
    rw [← hrl] at h0
    simp [Loc.len, he] at h0
  refine ⟨r, hr, fun i => ?_, hrl, strand_of_parts r s hrne hstr, hin, ?_⟩
  · rw [hmem i, rot_iff_emod L k i hL l hlin]
  · refine disjoint_of_cnt_le_one r.parts (fun p hp => (hin p hp).2.1) (fun i => ?_)
    rw [hcnt i]
    split
    · exact cnt_le_one_of_disjoint l.parts (fun p hp => (hparts p hp).2.1) hdis _
    · omega

end ASV
