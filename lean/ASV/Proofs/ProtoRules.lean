/-
  C03 helper lemmas: the per-cutoff cache, the anchoring-gene sets, the protoclusters of a rule on a
  linear record, the redundancy test.
-/
import ASV.Proofs.ChainLinked
import ASV.Proofs.Rules
namespace ASV.Proto
open ASV ASV.Rules ASV.Chains ASV.ChainSweep

instance instDecEqExcept {ε α : Type} [DecidableEq ε] [DecidableEq α] : DecidableEq (Except ε α) := fun a b =>
  match a, b with
  | .ok x, .ok y => if h : x = y then isTrue (by rw [h]) else isFalse (by intro e; cases e; exact h rfl)
  | .error x, .error y => if h : x = y then isTrue (by rw [h]) else isFalse (by intro e; cases e; exact h rfl)
  | .ok _, .error _ => isFalse (by intro e; cases e)
  | .error _, .ok _ => isFalse (by intro e; cases e)

/-! ### the per-cutoff cache is transparent -/

/-- every cached entry is what a recomputation would give -/
def CacheOK (within : Lookup) (r : Rec) (g : GeneInfo) (cache : List (Int × NearInfo)) : Prop :=
  ∀ c ni, cache.lookup c = some ni → nearInfo within r g c = .ok ni

theorem evalRulesCached_eq (within : Lookup) (r : Rec) (g : GeneInfo) :
    ∀ (rules : List RuleM) (cache : List (Int × NearInfo)), CacheOK within r g cache →
      evalRulesCached within r g cache rules = evalRulesDirect within r g rules := by
  intro rules
  induction rules with
  | nil => intro cache _; rfl
  | cons rule rest ih =>
    intro cache hok
    simp only [evalRulesCached, evalRulesDirect, List.mapM_cons, bind, Except.bind, pure, Except.pure]
    cases hl : cache.lookup rule.cutoff with
    | some ni =>
      simp only [hok _ _ hl]
      have := ih cache hok
      simp only [evalRulesDirect] at this
      rw [this]
      rfl
    | none =>
      cases hn : nearInfo within r g rule.cutoff with
      | error e => rfl
      | ok ni =>
        simp only
        have hok' : CacheOK within r g ((rule.cutoff, ni) :: cache) := by
          intro c ni' hc
          simp only [List.lookup_cons] at hc
          split at hc
          · next heq =>
            have : c = rule.cutoff := by simpa using heq
            subst this
            cases hc; exact hn
          · exact hok c ni' hc
        have := ih _ hok'
        simp only [evalRulesDirect] at this
        rw [this]
        rfl

/-! ### members of a successful `mapM` -/

theorem mapM_ok_mem {α β : Type} (f : α → E β) : ∀ (l : List α) (out : List β), l.mapM f = .ok out →
    ∀ y ∈ out, ∃ a ∈ l, f a = .ok y := by
  intro l
  induction l with
  | nil => intro out h y hy; simp [List.mapM_nil, pure, Except.pure] at h; subst h; cases hy
  | cons a l ih =>
    intro out h y hy
    simp only [List.mapM_cons, bind, Except.bind, pure, Except.pure] at h
    cases hfa : f a with
    | error e => simp [hfa] at h
    | ok b =>
      simp only [hfa] at h
      cases hrest : l.mapM f with
      | error e => simp [hrest] at h
      | ok bs =>
        simp only [hrest, Except.ok.injEq] at h
        subst h
        simp only [List.mem_cons] at hy
        rcases hy with rfl | hy
        · exact ⟨a, by simp, hfa⟩
        · obtain ⟨a', ha', hfa'⟩ := ih bs hrest y hy
          exact ⟨a', by simp [ha'], hfa'⟩

theorem mapM_ok_mem' {α β : Type} (f : α → E β) : ∀ (l : List α) (out : List β), l.mapM f = .ok out →
    ∀ a ∈ l, ∃ y ∈ out, f a = .ok y := by
  intro l
  induction l with
  | nil => intro out _ a ha; cases ha
  | cons a l ih =>
    intro out h x hx
    simp only [List.mapM_cons, bind, Except.bind, pure, Except.pure] at h
    cases hfa : f a with
    | error e => simp [hfa] at h
    | ok b =>
      simp only [hfa] at h
      cases hrest : l.mapM f with
      | error e => simp [hrest] at h
      | ok bs =>
        simp only [hrest, Except.ok.injEq] at h
        subst h
        simp only [List.mem_cons] at hx
        rcases hx with rfl | hx
        · exact ⟨b, by simp, hfa⟩
        · obtain ⟨y, hy, hfy⟩ := ih bs hrest x hx
          exact ⟨y, by simp [hy], hfy⟩

/-! ### the anchoring-gene sets -/

theorem mem_hitsFor (res : RuleResults) (name : String) (g : Gene) :
    g ∈ hitsFor res name ↔
      ∃ x ∈ res, ∃ y ∈ x.2, y.1.name = name ∧ Met.fires y.2 = true ∧
        (g = x.1.id ∨ g ∈ y.2.ancillary.map (·.1)) := by
  simp only [hitsFor, List.mem_flatMap]
  constructor
  · rintro ⟨x, hx, y, hy, hg⟩
    refine ⟨x, hx, y, hy, ?_⟩
    split at hg
    · next hc =>
      simp only [Bool.and_eq_true, beq_iff_eq] at hc
      simp only [List.mem_cons] at hg
      exact ⟨hc.1, hc.2, hg⟩
    · cases hg
  · rintro ⟨x, hx, y, hy, hn, hf, hg⟩
    refine ⟨x, hx, y, hy, ?_⟩
    have hc : (y.1.name == name && Met.fires y.2) = true := by simp [hn, hf]
    simp only [hc, if_true, List.mem_cons]
    exact hg

theorem evalRulesDirect_mem (within : Lookup) (r : Rec) (g : GeneInfo) (rules : List RuleM)
    (out : List (RuleM × Met)) (h : evalRulesDirect within r g rules = .ok out) :
    (∀ y ∈ out, ∃ rule ∈ rules, ∃ ni, nearInfo within r g rule.cutoff = .ok ni ∧
        y = (rule, detect (envOf ni rule.cutoff) g.id rule.cond)) ∧
    (∀ rule ∈ rules, ∀ ni, nearInfo within r g rule.cutoff = .ok ni →
        (rule, detect (envOf ni rule.cutoff) g.id rule.cond) ∈ out) := by
  constructor
  · intro y hy
    obtain ⟨rule, hr, hf⟩ := mapM_ok_mem _ rules out h y hy
    refine ⟨rule, hr, ?_⟩
    simp only [bind, Except.bind, pure, Except.pure] at hf
    cases hn : nearInfo within r g rule.cutoff with
    | error e => simp [hn] at hf
    | ok ni =>
      simp only [hn, Except.ok.injEq] at hf
      exact ⟨ni, rfl, hf.symm⟩
  · intro rule hr ni hn
    obtain ⟨y, hy, hf⟩ := mapM_ok_mem' _ rules out h rule hr
    simp only [bind, Except.bind, pure, Except.pure, hn, Except.ok.injEq] at hf
    rw [hf]; exact hy

theorem ruleResults_mem (within : Lookup) (r : Rec) (rules : List RuleM) (res : RuleResults)
    (h : ruleResults within r rules = .ok res) :
    (∀ x ∈ res, x.1 ∈ r.genes ∧ x.1.hasRes = true ∧ evalRulesDirect within r x.1 rules = .ok x.2) ∧
    (∀ g ∈ r.genes, g.hasRes = true → ∃ x ∈ res, x.1 = g) := by
  have hcache : ∀ g, CacheOK within r g [] := by intro g c ni hc; simp [List.lookup] at hc
  constructor
  · intro x hx
    obtain ⟨g, hg, hf⟩ := mapM_ok_mem _ _ res h x hx
    simp only [List.mem_filter] at hg
    simp only [bind, Except.bind, pure, Except.pure, evalRulesCached_eq within r g rules [] (hcache g)] at hf
    cases he : evalRulesDirect within r g rules with
    | error e => simp [he] at hf
    | ok out =>
      simp only [he, Except.ok.injEq] at hf
      subst hf
      exact ⟨hg.1, hg.2, he⟩
  · intro g hg hres
    obtain ⟨y, hy, hf⟩ := mapM_ok_mem' _ _ res h g (by simp [List.mem_filter, hg, hres])
    simp only [bind, Except.bind, pure, Except.pure] at hf
    cases he : evalRulesCached within r g [] rules with
    | error e => simp [he] at hf
    | ok out =>
      simp only [he, Except.ok.injEq] at hf
      exact ⟨y, hy, by rw [← hf]⟩

/-- the environment handed to `detect` satisfies what C01 assumes of it -/
theorem envOf_wf (ni : NearInfo) (c : Int) (hres : ∀ x ∈ ni.nearby, x.hits ≠ [] → x.hasRes = true) :
    (envOf ni c).WF := by
  constructor
  · intro h hh
    simp only [envOf, Env.ofLocs, List.mem_map, List.mem_filter] at hh ⊢
    obtain ⟨x, ⟨hx, _⟩, e⟩ := hh
    exact ⟨x, hx, e⟩
  · intro h _ hne
    simp only [envOf, Env.ofLocs] at hne ⊢
    cases hf : ni.nearby.find? (·.id == h) with
    | none => simp [hf] at hne
    | some x =>
      simp only [hf] at hne
      have hx : x ∈ ni.nearby := List.mem_of_find?_eq_some hf
      have hid : (x.id == h) = true := by
        have := List.find?_some hf
        simpa using this
      simp only [List.mem_map, List.mem_filter]
      exact ⟨x, ⟨hx, hres x hx hne⟩, by simpa using hid⟩

/-! ### the protoclusters of one rule on a linear record -/

theorem mkPC_simple (rule : String) (p q : Part) (h1 : 0 ≤ q.lo) (h2 : q.lo ≤ q.hi) :
    mkPC rule (.simple p) (.simple q) = .ok ⟨rule, .simple p, .simple q⟩ := by
  have h3 : ¬ q.lo > q.hi := by omega
  have h4 : ¬ q.lo < 0 := by omega
  simp [mkPC, bridgesOrigin, Loc.parts, Loc.start, Loc.end, h3, h4, pure, Except.pure]

theorem _root_.ASV.Chains.Paired.with_mem_right {α β : Type} {R : α → β → Prop} :
    ∀ {l1 : List α} {l2 : List β}, Paired R l1 l2 → Paired (fun a b => R a b ∧ b ∈ l2) l1 l2
  | _, _, .nil => .nil
  | _, _, .cons hab t =>
    .cons ⟨hab, by simp⟩ ((ASV.Chains.Paired.with_mem_right t).imp (fun _ _ h => ⟨h.1, by simp [h.2]⟩))

theorem mapM_paired {α β γ : Type} (f : α → E β) {R : α → γ → Prop} {S : β → γ → Prop}
    (h : ∀ a c, R a c → ∃ b, f a = .ok b ∧ S b c) :
    ∀ {l1 : List α} {l2 : List γ}, Paired R l1 l2 → ∃ out, l1.mapM f = .ok out ∧ Paired S out l2
  | _, _, .nil => ⟨[], rfl, .nil⟩
  | _, _, .cons hab t => by
    obtain ⟨b, hb, hs⟩ := h _ _ hab
    obtain ⟨out, ho, hp⟩ := mapM_paired f h t
    exact ⟨b :: out, by simp only [List.mapM_cons, hb, ho, pure, Except.pure, bind, Except.bind], .cons hs hp⟩

/-! ### the redundancy test -/

/-- what makes `other` (a cluster of a superior rule) remove `pc`: its core contains `pc`'s core, or
    neither does its last core gene sort before `pc`'s first one nor `pc`'s last before its first -/
def Removes (within : Lookup) (pc : PC) (first last : Loc) (other : PC) : Prop :=
  locationContainsOther other.core pc.core = true ∨
    ∃ otherFirst otherLast, firstLast within other = .ok (otherFirst, otherLast) ∧
      featureLt otherLast first = .ok false ∧ featureLt last otherFirst = .ok false

theorem redundantInner_spec (within : Lookup) (pc : PC) (first last : Loc) :
    ∀ (others : List PC) (red b : Bool), redundantInner within pc first last red others = .ok b →
      (b = true ↔ red = true ∨ ∃ o ∈ others, Removes within pc first last o) := by
  intro others
  induction others with
  | nil =>
    intro red b h
    simp only [redundantInner, pure, Except.pure, Except.ok.injEq] at h
    subst h; simp
  | cons other rest ih =>
    intro red b h
    simp only [redundantInner] at h
    by_cases hc : locationContainsOther other.core pc.core = true
    · simp only [hc, if_true] at h
      have := ih true b h
      simp only [true_or, iff_true] at this
      subst this
      simp only [true_iff]
      exact Or.inr ⟨other, by simp, Or.inl hc⟩
    · simp only [hc, Bool.false_eq_true, if_false, bind, Except.bind] at h
      cases hfl : firstLast within other with
      | error e => simp [hfl] at h
      | ok fl =>
        obtain ⟨otherFirst, otherLast⟩ := fl
        simp only [hfl] at h
        cases h1 : featureLt otherLast first with
        | error e => simp [h1] at h
        | ok x1 =>
          simp only [h1] at h
          have notRem1 : x1 = true → ¬ Removes within pc first last other := by
            rintro rfl (hcon | ⟨f, l, hfl', ha, _⟩)
            · exact hc hcon
            · rw [hfl] at hfl'; cases hfl'; rw [h1] at ha; cases ha
          cases x1 with
          | true =>
            simp only [if_true] at h
            rw [ih red b h]
            constructor
            · rintro (hr | ⟨o, ho, hrem⟩)
              · exact Or.inl hr
              · exact Or.inr ⟨o, by simp [ho], hrem⟩
            · rintro (hr | ⟨o, ho, hrem⟩)
              · exact Or.inl hr
              · simp only [List.mem_cons] at ho
                rcases ho with rfl | ho
                · exact absurd hrem (notRem1 rfl)
                · exact Or.inr ⟨o, ho, hrem⟩
          | false =>
            simp only [Bool.false_eq_true, if_false] at h
            cases h2 : featureLt last otherFirst with
            | error e => simp [h2] at h
            | ok x2 =>
              simp only [h2] at h
              cases x2 with
              | true =>
                simp only [if_true] at h
                rw [ih red b h]
                constructor
                · rintro (hr | ⟨o, ho, hrem⟩)
                  · exact Or.inl hr
                  · exact Or.inr ⟨o, by simp [ho], hrem⟩
                · rintro (hr | ⟨o, ho, hrem⟩)
                  · exact Or.inl hr
                  · simp only [List.mem_cons] at ho
                    rcases ho with rfl | ho
                    · rcases hrem with hcon | ⟨f, l, hfl', _, hb⟩
                      · exact absurd hcon hc
                      · rw [hfl] at hfl'; cases hfl'; rw [h2] at hb; cases hb
                    · exact Or.inr ⟨o, ho, hrem⟩
              | false =>
                simp only [Bool.false_eq_true, if_false, pure, Except.pure, Except.ok.injEq] at h
                subst h
                simp only [true_iff]
                exact Or.inr ⟨other, by simp, Or.inr ⟨otherFirst, otherLast, hfl, h1, h2⟩⟩

theorem redundantOuter_spec (within : Lookup) (clusters : List PC) (pc : PC) (first last : Loc) :
    ∀ (sups : List String) (b : Bool), redundantOuter within clusters pc first last sups = .ok b →
      (b = true ↔ ∃ s ∈ sups, ∃ o ∈ clusters, o.rule = s ∧ Removes within pc first last o) := by
  intro sups
  induction sups with
  | nil =>
    intro b h
    simp only [redundantOuter, pure, Except.pure, Except.ok.injEq] at h
    subst h; simp
  | cons s more ih =>
    intro b h
    simp only [redundantOuter, bind, Except.bind] at h
    cases hi : redundantInner within pc first last false (clusters.filter (·.rule == s)) with
    | error e => simp [hi] at h
    | ok x =>
      have hx := redundantInner_spec within pc first last _ false x hi
      simp only [Bool.false_eq_true, false_or, List.mem_filter, beq_iff_eq] at hx
      simp only [hi] at h
      cases x with
      | true =>
        simp only [if_true, pure, Except.pure, Except.ok.injEq] at h
        subst h
        obtain ⟨o, ⟨ho, hs⟩, hrem⟩ := hx.1 rfl
        simp only [true_iff]
        exact ⟨s, by simp, o, ho, hs, hrem⟩
      | false =>
        simp only [Bool.false_eq_true, if_false] at h
        rw [ih b h]
        constructor
        · rintro ⟨s', hs', o, ho, hos, hrem⟩
          exact ⟨s', by simp [hs'], o, ho, hos, hrem⟩
        · rintro ⟨s', hs', o, ho, hos, hrem⟩
          simp only [List.mem_cons] at hs'
          rcases hs' with rfl | hs'
          · have : false = true := hx.2 ⟨o, ⟨ho, hos⟩, hrem⟩
            cases this
          · exact ⟨s', hs', o, ho, hos, hrem⟩

end ASV.Proto
