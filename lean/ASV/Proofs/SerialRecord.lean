/-
  C10 helper lemmas: the record level.  The written feature list keeps each area class in its list
  order (`filter_sorted_*`), so re-reading re-inserts every area at the end (front, for candidate
  clusters) of its list and the numbering is reproduced.
-/
import ASV.Proofs.SerialArea
namespace ASV.Serial
open ASV

def isSubE : Ent → Bool | .sub _ => true | _ => false
def isProtoE : Ent → Bool | .proto _ => true | _ => false
def isCandE : Ent → Bool | .cand _ => true | _ => false
def isRegE : Ent → Bool | .reg _ => true | _ => false

theorem mem_plainEnts {r : Rec} {ranks : List Nat} {e : Ent} (h : e ∈ plainEnts r ranks) :
    ∃ k f, e = .plain k f ∧ f ∈ r.others := by
  unfold plainEnts at h
  simp only [List.mem_flatMap, List.mem_filter, List.mem_filterMap, List.mem_range, Option.map_eq_some_iff] at h
  obtain ⟨_, _, ⟨i, _, f, hf, rfl⟩, _⟩ := h
  exact ⟨i, f, rfl, List.mem_of_getElem? hf⟩

theorem mem_cdsEnts {r : Rec} {e : Ent} (h : e ∈ cdsEnts r) : ∃ k f, e = .cds k f ∧ f ∈ r.cdss := by
  unfold cdsEnts at h
  simp only [List.mem_filterMap, List.mem_range, Option.map_eq_some_iff] at h
  obtain ⟨i, _, f, hf, rfl⟩ := h
  exact ⟨i, f, rfl, List.mem_of_getElem? hf⟩

theorem filter_nil_of {α : Type} (p : α → Bool) (l : List α) (h : ∀ x ∈ l, p x = false) : l.filter p = [] := by
  rw [List.filter_eq_nil_iff]; intro x hx; rw [h x hx]; simp

theorem filter_self_of {α : Type} (p : α → Bool) (l : List α) (h : ∀ x ∈ l, p x = true) : l.filter p = l := by
  rw [List.filter_eq_self]; exact h

/-- the elements of one class inside `all_features` -/
theorem filter_allEntries (r : Rec) :
    (allEntries r).filter isSubE = subEnts r ∧ (allEntries r).filter isProtoE = protoEnts r ∧
    (allEntries r).filter isCandE = candEnts r ∧ (allEntries r).filter isRegE = regEnts r := by
  have hp : ∀ ranks (p : Ent → Bool), (∀ k f, p (.plain k f) = false) → (plainEnts r ranks).filter p = [] :=
    fun ranks p hpf => filter_nil_of p _ (fun x hx => by obtain ⟨k, f, rfl, _⟩ := mem_plainEnts hx; exact hpf k f)
  have hc : ∀ (p : Ent → Bool), (∀ k f, p (.cds k f) = false) → (cdsEnts r).filter p = [] :=
    fun p hpf => filter_nil_of p _ (fun x hx => by obtain ⟨k, f, rfl, _⟩ := mem_cdsEnts hx; exact hpf k f)
  have e1 : ∀ (p : Ent → Bool) (c : Nat → Ent) (n : Nat), (∀ i, p (c i) = false) → ((List.range n).map c).filter p = [] :=
    fun p c n hpf => filter_nil_of p _ (fun x hx => by obtain ⟨i, _, rfl⟩ := List.mem_map.1 hx; exact hpf i)
  have e2 : ∀ (p : Ent → Bool) (c : Nat → Ent) (n : Nat), (∀ i, p (c i) = true) → ((List.range n).map c).filter p = (List.range n).map c :=
    fun p c n hpf => filter_self_of p _ (fun x hx => by obtain ⟨i, _, rfl⟩ := List.mem_map.1 hx; exact hpf i)
  unfold allEntries
  simp only [List.filter_append]
  refine ⟨?_, ?_, ?_, ?_⟩
  · rw [hp _ _ (fun _ _ => rfl), hp _ _ (fun _ _ => rfl), hc _ (fun _ _ => rfl)]
    unfold subEnts protoEnts candEnts regEnts
    rw [e2 _ _ _ (fun _ => rfl), e1 _ _ _ (fun _ => rfl), e1 _ _ _ (fun _ => rfl), e1 _ _ _ (fun _ => rfl)]
    simp
  · rw [hp _ _ (fun _ _ => rfl), hp _ _ (fun _ _ => rfl), hc _ (fun _ _ => rfl)]
    unfold subEnts protoEnts candEnts regEnts
    rw [e1 isProtoE Ent.sub _ (fun _ => rfl), e2 _ _ _ (fun _ => rfl), e1 _ _ _ (fun _ => rfl), e1 _ _ _ (fun _ => rfl)]
    simp
  · rw [hp _ _ (fun _ _ => rfl), hp _ _ (fun _ _ => rfl), hc _ (fun _ _ => rfl)]
    unfold subEnts protoEnts candEnts regEnts
    rw [e1 isCandE Ent.sub _ (fun _ => rfl), e1 isCandE Ent.proto _ (fun _ => rfl), e2 _ _ _ (fun _ => rfl), e1 _ _ _ (fun _ => rfl)]
    simp
  · rw [hp _ _ (fun _ _ => rfl), hp _ _ (fun _ _ => rfl), hc _ (fun _ _ => rfl)]
    unfold subEnts protoEnts candEnts regEnts
    rw [e1 isRegE Ent.sub _ (fun _ => rfl), e1 isRegE Ent.proto _ (fun _ => rfl), e1 isRegE Ent.cand _ (fun _ => rfl), e2 _ _ _ (fun _ => rfl)]
    simp

/-- a list of areas in non-descending order gives entries in non-descending order -/
theorem sorted_ents {β : Type} (r : Rec) (l : List β) (loc : β → Loc) (c : Nat → Ent)
    (hloc : ∀ i (hi : i < l.length), entLoc r (c i) = loc l[i])
    (harea : ∀ i, (c i).isArea = true) (hchild : ∀ i j, isChild r (c i) (c j) = false)
    (hs : Sorted (fun a b => areaLt (loc a) (loc b)) l) :
    Sorted (entLt r) ((List.range l.length).map c) := by
  unfold Sorted at *
  rw [List.pairwise_map]
  have hr : (List.range l.length).Pairwise (· < ·) := List.pairwise_lt_range
  refine hr.imp_of_mem ?_
  intro i j hi hj hij
  have hi' : i < l.length := List.mem_range.1 hi
  have hj' : j < l.length := List.mem_range.1 hj
  have := (List.pairwise_iff_getElem.1 hs) i j hi' hj' hij
  unfold entLt
  by_cases he : (c j == c i) = true
  · simp [he]
  · simp only [he, Bool.false_eq_true, if_false, harea j, if_true, hchild j i, hloc j hj', hloc i hi']
    exact this

/-! ### one step of the reading loop -/

structure AreaPart where
  len : Int
  circular : Bool
  subs : List Sub
  protos : List Proto
  cands : List Cand
  regs : List Reg
  postCands : List Bio
  postRegs : List Bio

def areaPart (acc : Rec × List Bio) : AreaPart :=
  ⟨acc.1.len, acc.1.circular, acc.1.subs, acc.1.protos, acc.1.cands, acc.1.regs,
   acc.2.filter (·.type == "cand_cluster"), acc.2.filter (·.type == "region")⟩

def areaType (t : String) : Prop := t = "protocluster" ∨ t = "subregion" ∨ t = "cand_cluster" ∨ t = "region"

theorem prefilter_type (b : Bio) : (prefilter b).type = b.type := by
  unfold prefilter; split <;> rfl

theorem addBio_plain (r r' : Rec) (b : Bio) (ht : ¬ areaType b.type) (h : addBio r b = .ok r') :
    r'.len = r.len ∧ r'.circular = r.circular ∧ r'.subs = r.subs ∧ r'.protos = r.protos ∧ r'.cands = r.cands ∧ r'.regs = r.regs := by
  simp only [areaType, not_or] at ht
  unfold addBio at h
  by_cases h1 : (b.type == "CDS") = true
  · simp only [h1, if_true, bind, Except.bind, pure, Except.pure] at h
    cases hp : plainFromBio b with
    | error e => rw [hp] at h; cases h
    | ok f => rw [hp] at h; cases h; simp [addCds]
  · have hp1 : (b.type == "protocluster") = false := by simpa using ht.1
    have hp2 : (b.type == "subregion") = false := by simpa using ht.2.1
    simp only [h1, Bool.false_eq_true, if_false, hp1, hp2] at h
    by_cases h2 : (b.type == "proto_core") = true
    · simp only [h2, if_true, pure, Except.pure] at h; cases h; simp
    · simp only [h2, Bool.false_eq_true, if_false] at h
      by_cases h3 : (b.type == "CDS_motif") = true
      · simp only [h3, if_true] at h
        split at h
        · simp only [pure, Except.pure] at h; cases h; simp
        · simp only [bind, Except.bind, pure, Except.pure] at h
          cases hp : plainFromBio b with
          | error e => rw [hp] at h; cases h
          | ok f => rw [hp] at h; cases h; simp
      · simp only [h3, Bool.false_eq_true, if_false, bind, Except.bind, pure, Except.pure] at h
        cases hp : plainFromBio b with
        | error e => rw [hp] at h; cases h
        | ok f => rw [hp] at h; cases h; simp

theorem readStep_plain (acc acc' : Rec × List Bio) (b0 : Bio) (ht : ¬ areaType b0.type)
    (h : readStep acc b0 = .ok acc') : areaPart acc' = areaPart acc := by
  unfold readStep at h
  split at h
  · cases h
  · have hty := prefilter_type b0
    generalize prefilter b0 = b at h hty
    have ht' : ¬ areaType b.type := by rw [hty]; exact ht
    have ht2 := ht'
    simp only [areaType, not_or] at ht2
    unfold dispatch at h
    have hc : (b.type == "cand_cluster") = false := by simpa using ht2.2.2.1
    have hr : (b.type == "region") = false := by simpa using ht2.2.2.2
    by_cases hm : (b.type == "aSModule") = true
    · simp only [hc, hr, hm, Bool.or_true, if_true, pure, Except.pure] at h
      cases h
      simp [areaPart, List.filter_append, hc, hr]
    · simp only [hc, hr, hm, Bool.or_self, Bool.false_eq_true, if_false] at h
      split at h
      · simp only [bind, Except.bind, pure, Except.pure] at h
        cases ha : addBio acc.1 b with
        | error e => rw [ha] at h; cases h
        | ok r' =>
          rw [ha] at h; cases h
          obtain ⟨a1, a2, a3, a4, a5, a6⟩ := addBio_plain _ _ _ ht' ha
          simp [areaPart, a1, a2, a3, a4, a5, a6]
      · simp only [pure, Except.pure] at h; cases h; rfl


theorem prefilter_id (b : Bio) (h : b.type ≠ "misc_feature") : prefilter b = b := by
  unfold prefilter
  have : (b.type == "misc_feature") = false := by simpa using h
  simp [this]

theorem inRecord_ok (r : Rec) (l : Loc) (h : 0 ≤ l.start ∧ l.end ≤ r.len) : inRecord r l = .ok () := by
  unfold inRecord
  have : ¬ (l.start < 0 ∨ l.end > r.len) := by omega
  simp [this, pure, Except.pure]

/-- a protocluster feature that sorts after every protocluster already present is appended -/
theorem readStep_proto (acc : Rec × List Bio) (nb : Bio) (p' : Proto) (hty : nb.type = "protocluster")
    (hspan : linearSpan acc.1 nb = false) (hfrom : Proto.fromBio nb = .ok p')
    (hin : 0 ≤ p'.feat.loc.start ∧ p'.feat.loc.end ≤ acc.1.len)
    (hlast : ∀ e ∈ acc.1.protos, areaLt p'.feat.loc e.feat.loc = false) (hc : acc.1.cands = []) :
    readStep acc nb = .ok ({ acc.1 with protos := acc.1.protos ++ [p'] }, acc.2) := by
  unfold readStep
  rw [hspan, prefilter_id nb (by rw [hty]; decide)]
  unfold dispatch addBio addProto
  simp only [hty, Bool.false_eq_true, if_false, hfrom, inRecord_ok _ _ hin, bind, Except.bind, pure, Except.pure,
    show (("protocluster" : String) == "cand_cluster") = false by decide,
    show (("protocluster" : String) == "region") = false by decide,
    show (("protocluster" : String) == "aSModule") = false by decide,
    show (("protocluster" : String) != "CDS") = true by decide,
    show (("protocluster" : String) == "CDS") = false by decide,
    show (("protocluster" : String) == "protocluster") = true by decide, Bool.or_self, Bool.true_or, if_true]
  have := bisectR_end (fun (a b : Proto) => areaLt a.feat.loc b.feat.loc) p' acc.1.protos hlast
  rw [this, hc]
  rfl

theorem readStep_core (acc : Rec × List Bio) (b : Bio) (hty : b.type = "proto_core")
    (hspan : linearSpan acc.1 b = false) : readStep acc b = .ok acc := by
  unfold readStep
  rw [hspan, prefilter_id b (by rw [hty]; decide)]
  unfold dispatch addBio
  simp only [hty, Bool.false_eq_true, if_false, bind, Except.bind, pure, Except.pure,
    show (("proto_core" : String) == "cand_cluster") = false by decide,
    show (("proto_core" : String) == "region") = false by decide,
    show (("proto_core" : String) == "aSModule") = false by decide,
    show (("proto_core" : String) != "CDS") = true by decide,
    show (("proto_core" : String) == "CDS") = false by decide,
    show (("proto_core" : String) == "protocluster") = false by decide,
    show (("proto_core" : String) == "proto_core") = true by decide, Bool.or_self, Bool.true_or, if_true]

theorem readStep_sub (acc : Rec × List Bio) (b : Bio) (s' : Sub) (hty : b.type = "subregion")
    (hspan : linearSpan acc.1 b = false) (hfrom : Sub.fromBio b = .ok s')
    (hin : 0 ≤ s'.feat.loc.start ∧ s'.feat.loc.end ≤ acc.1.len)
    (hlast : ∀ e ∈ acc.1.subs, areaLt s'.feat.loc e.feat.loc = false) (hc : acc.1.regs = []) :
    readStep acc b = .ok ({ acc.1 with subs := acc.1.subs ++ [s'] }, acc.2) := by
  unfold readStep
  rw [hspan, prefilter_id b (by rw [hty]; decide)]
  unfold dispatch addBio addSub
  simp only [hty, Bool.false_eq_true, if_false, hfrom, inRecord_ok _ _ hin, bind, Except.bind, pure, Except.pure,
    show (("subregion" : String) == "cand_cluster") = false by decide,
    show (("subregion" : String) == "region") = false by decide,
    show (("subregion" : String) == "aSModule") = false by decide,
    show (("subregion" : String) != "CDS") = true by decide,
    show (("subregion" : String) == "CDS") = false by decide,
    show (("subregion" : String) == "protocluster") = false by decide,
    show (("subregion" : String) == "proto_core") = false by decide,
    show (("subregion" : String) == "subregion") = true by decide, Bool.or_self, Bool.true_or, if_true]
  have := bisectR_end (fun (a b : Sub) => areaLt a.feat.loc b.feat.loc) s' acc.1.subs hlast
  rw [this, hc]
  rfl

theorem readStep_post (acc : Rec × List Bio) (b : Bio) (hty : b.type = "cand_cluster" ∨ b.type = "region")
    (hspan : linearSpan acc.1 b = false) : readStep acc b = .ok (acc.1, acc.2 ++ [b]) := by
  unfold readStep
  have hm : b.type ≠ "misc_feature" := by rcases hty with h | h <;> (rw [h]; decide)
  rw [hspan, prefilter_id b hm]
  unfold dispatch
  rcases hty with h | h <;> simp [h, pure, Except.pure]


/-! ### the reading loop over the sorted entries -/

def subIdx : Ent → Option Nat | .sub i => some i | _ => none
def protoIdx : Ent → Option Nat | .proto i => some i | _ => none
def candIdx : Ent → Option Nat | .cand i => some i | _ => none
def regIdx : Ent → Option Nat | .reg i => some i | _ => none

/-- the features written for one entry (empty when the conversion fails) -/
def entBios (r : Rec) (e : Ent) : List Bio := match entToBio r e with | .ok bs => bs | .error _ => []

/-- the protocluster / subregion read back from what was written for position `i` -/
def reP (r : Rec) (i : Nat) : Proto :=
  match entBios r (.proto i) with
  | nb :: _ => (match Proto.fromBio nb with | .ok p' => p' | .error _ => default)
  | [] => default
def reS (r : Rec) (i : Nat) : Sub :=
  match entBios r (.sub i) with
  | b :: _ => (match Sub.fromBio b with | .ok s' => s' | .error _ => default)
  | [] => default
def candB (r : Rec) (i : Nat) : Bio := (entBios r (.cand i)).headD default
def regB (r : Rec) (i : Nat) : Bio := (entBios r (.reg i)).headD default

/-- the effect of reading one entry's features on the area part of the loop state -/
def stepArea (r : Rec) (e : Ent) (a : AreaPart) : AreaPart :=
  match e with
  | .plain _ _ | .cds _ _ => a
  | .sub i => { a with subs := a.subs ++ [reS r i] }
  | .proto i => { a with protos := a.protos ++ [reP r i] }
  | .cand i => { a with postCands := a.postCands ++ [candB r i] }
  | .reg i => { a with postRegs := a.postRegs ++ [regB r i] }

def a0 (r : Rec) : AreaPart := ⟨r.len, r.circular, [], [], [], [], [], []⟩

theorem foldl_stepArea (r : Rec) : ∀ (l : List Ent) (a : AreaPart),
    let z := l.foldl (fun a e => stepArea r e a) a
    z.len = a.len ∧ z.circular = a.circular ∧ z.cands = a.cands ∧ z.regs = a.regs ∧
    z.subs = a.subs ++ (l.filterMap subIdx).map (reS r) ∧
    z.protos = a.protos ++ (l.filterMap protoIdx).map (reP r) ∧
    z.postCands = a.postCands ++ (l.filterMap candIdx).map (candB r) ∧
    z.postRegs = a.postRegs ++ (l.filterMap regIdx).map (regB r) := by
  intro l
  induction l with
  | nil => intro a; simp
  | cons e rest ih =>
    intro a
    have := ih (stepArea r e a)
    simp only [List.foldl_cons]
    obtain ⟨h1, h2, h3, h4, h5, h6, h7, h8⟩ := this
    cases e <;>
      simp_all [stepArea, subIdx, protoIdx, candIdx, regIdx, List.filterMap_cons]

theorem filterMap_idx (l : List Ent) :
    l.filterMap subIdx = (l.filter isSubE).filterMap subIdx ∧ l.filterMap protoIdx = (l.filter isProtoE).filterMap protoIdx ∧
    l.filterMap candIdx = (l.filter isCandE).filterMap candIdx ∧ l.filterMap regIdx = (l.filter isRegE).filterMap regIdx := by
  induction l with
  | nil => simp
  | cons e rest ih =>
    obtain ⟨h1, h2, h3, h4⟩ := ih
    cases e <;> simp_all [List.filterMap_cons, List.filter_cons, subIdx, protoIdx, candIdx, regIdx, isSubE, isProtoE, isCandE, isRegE]

theorem filterMap_ents (r : Rec) :
    (subEnts r).filterMap subIdx = List.range r.subs.length ∧ (protoEnts r).filterMap protoIdx = List.range r.protos.length ∧
    (candEnts r).filterMap candIdx = List.range r.cands.length ∧ (regEnts r).filterMap regIdx = List.range r.regs.length := by
  unfold subEnts protoEnts candEnts regEnts
  refine ⟨?_, ?_, ?_, ?_⟩ <;>
    (rw [List.filterMap_map]; simp [Function.comp_def, subIdx, protoIdx, candIdx, regIdx])

/-- in an increasing list, everything before a position is smaller than what is at the position -/
theorem lt_of_range_split {A B : List Nat} {j n : Nat} (h : A ++ j :: B = List.range n) : (∀ i ∈ A, i < j) ∧ j < n := by
  have hp : (A ++ j :: B).Pairwise (· < ·) := by rw [h]; exact List.pairwise_lt_range
  have hj : j ∈ List.range n := by rw [← h]; simp
  refine ⟨fun i hi => (List.pairwise_append.1 hp).2.2 i hi j (by simp), List.mem_range.1 hj⟩


/-! ### the records in scope -/

theorem toBio_type_loc (f : Feat) (X : Quals) (b : Bio) (h : f.toBio X = .ok b) :
    b.type = f.type ∧ (f.codon = none → b.loc = f.loc) := by
  rw [toBio_eq] at h
  cases hc : f.codon with
  | none => rw [hc] at h; cases h; exact ⟨rfl, fun _ => rfl⟩
  | some c =>
    rw [hc] at h
    dsimp only at h
    cases hf : frameshift f.loc (c + 1) true with
    | error e => rw [hf] at h; cases h
    | ok l => rw [hf] at h; cases h; exact ⟨rfl, fun e => by cases e⟩

/-- well-formed candidate cluster of record `r`: exactly what `CandidateCluster.from_biopython`
    rebuilds — location derived from the children with the record's wrap point, no notes or free
    qualifiers, children present in the record -/
structure Cand.WF (r : Rec) (c : Cand) : Prop where
  feat : c.feat = ⟨c.feat.loc, "cand_cluster", [], [], true, none⟩
  kind : c.kind ∈ kinds
  nonempty : c.children ≠ []
  children : ∀ i ∈ c.children, i < r.protos.length
  wrap : c.wrap = if r.circular then some r.len else none
  loc : connect (c.children.filterMap fun i => (r.protos[i]?).map (·.feat.loc)) c.wrap = .ok c.feat.loc

structure Reg.WF (r : Rec) (g : Reg) : Prop where
  feat : g.feat = ⟨g.feat.loc, "region", [], [], true, none⟩
  nonempty : g.cands ≠ [] ∨ g.subs ≠ []
  cands : ∀ i ∈ g.cands, i < r.cands.length
  subs : ∀ i ∈ g.subs, i < r.subs.length
  loc : regionLoc ((g.subs.filterMap fun i => (r.subs[i]?).map (·.feat.loc)) ++
                   (g.cands.filterMap fun i => (r.cands[i]?).map (·.feat.loc))) = .ok g.feat.loc

/-- inside the record, and with two parts only on a circular record -/
def inside (r : Rec) (l : Loc) : Prop := 0 ≤ l.start ∧ l.end ≤ r.len ∧ (l.parts.length > 1 → r.circular = true)

/-- the records the numbering theorem speaks about -/
structure Rec.Scope (r : Rec) : Prop where
  swo : SWO (entLt r) (· ∈ allEntries r)
  plain : ∀ f, f ∈ r.others ∨ f ∈ r.cdss → ¬ areaType f.type
  subsWF : ∀ s ∈ r.subs, s.WF ∧ s.side = none ∧ inside r s.feat.loc
  protosWF : ∀ p ∈ r.protos, p.WF ∧ p.side = none ∧ inside r p.feat.loc ∧ (p.core.parts.length > 1 → r.circular = true)
  candsWF : ∀ c ∈ r.cands, c.WF r ∧ inside r c.feat.loc
  regsWF : ∀ g ∈ r.regs, g.WF r ∧ inside r g.feat.loc
  sortedS : Sorted (fun (a b : Sub) => areaLt a.feat.loc b.feat.loc) r.subs
  sortedP : Sorted (fun (a b : Proto) => areaLt a.feat.loc b.feat.loc) r.protos
  sortedC : Sorted (fun (a b : Cand) => areaLt a.feat.loc b.feat.loc) r.cands
  sortedR : Sorted (fun (a b : Reg) => areaLt a.feat.loc b.feat.loc) r.regs
  disjoint : r.regs.Pairwise (fun a b => locationsOverlap b.feat.loc a.feat.loc = false)

theorem linearSpan_false (r r' : Rec) (b : Bio) (l : Loc) (hl : b.loc = l) (hc : r'.circular = r.circular)
    (h : l.parts.length > 1 → r.circular = true) : linearSpan r' b = false := by
  unfold linearSpan
  rw [hl, hc]
  by_cases hp : l.parts.length > 1
  · simp [h hp]
  · simp [hp]

theorem Cand.toBio_shape (r : Rec) (c : Cand) (num : Option Nat) (bs : List Bio) (h : c.toBio r num = .ok bs) :
    ∃ b, bs = [b] ∧ c.feat.toBio (candX r c num) = .ok b ∧ b.type = c.feat.type ∧ (c.feat.codon = none → b.loc = c.feat.loc) := by
  unfold Cand.toBio at h
  split at h
  · cases h
  · cases hb : c.feat.toBio (candX r c num) with
    | error e => rw [hb] at h; cases h
    | ok b =>
      rw [hb] at h; cases h
      exact ⟨b, rfl, rfl, toBio_type_loc _ _ _ hb⟩

theorem Reg.toBio_shape (r : Rec) (g : Reg) (num : Option Nat) (bs : List Bio) (h : g.toBio r num = .ok bs) :
    ∃ b, bs = [b] ∧ g.feat.toBio (regX r g num) = .ok b ∧ b.type = g.feat.type ∧ (g.feat.codon = none → b.loc = g.feat.loc) := by
  unfold Reg.toBio at h
  split at h
  · cases h
  · cases hb : g.feat.toBio (regX r g num) with
    | error e => rw [hb] at h; cases h
    | ok b =>
      rw [hb] at h; cases h
      exact ⟨b, rfl, rfl, toBio_type_loc _ _ _ hb⟩



theorem foldlM_single (acc : Rec × List Bio) (b : Bio) : [b].foldlM readStep acc = readStep acc b := by
  simp [List.foldlM_cons, List.foldlM_nil, bind, Except.bind, pure, Except.pure]
  cases readStep acc b <;> rfl

theorem foldlM_pair (acc : Rec × List Bio) (b c : Bio) :
    [b, c].foldlM readStep acc = (readStep acc b).bind fun a => readStep a c := by
  simp [List.foldlM_cons, List.foldlM_nil, bind, Except.bind, pure, Except.pure]
  cases readStep acc b with
  | error e => rfl
  | ok a => simp; cases readStep a c <;> rfl

/-- what is written for subregion `j` and what is read back from it -/
theorem reS_spec (t : Bool) (r : Rec) (H : r.Scope) (j : Nat) (hj : j < r.subs.length) :
    ∃ b, entToBio r (.sub j) = .ok [b] ∧ b.type = "subregion" ∧ b.loc = r.subs[j].feat.loc ∧
      Sub.fromBio b = .ok (reS r j) ∧ (reS r j).view t = r.subs[j].view t ∧
      (reS r j).feat.loc = r.subs[j].feat.loc := by
  have hsj : r.subs[j]? = some r.subs[j] := List.getElem?_eq_getElem hj
  obtain ⟨hwf, hside, _⟩ := H.subsWF _ (List.getElem_mem hj)
  cases hp : (r.subs[j]).toBio (some (j + 1)) ((r.subs[j]).edge r.len) with
  | error e =>
    rw [Sub.toBio_eq, toBio_eq, hwf.codon] at hp
    cases hp
  | ok bs =>
    obtain ⟨b, rfl, bty, bloc, s', hfrom, hview, hloc, _, _⟩ := sub_roundtrip t _ hwf hside _ _ _ hp
    have hre : reS r j = s' := by simp [reS, entBios, entToBio, hsj, hp, hfrom]
    exact ⟨b, by simp [entToBio, hsj, hp], bty, bloc, by rw [hre]; exact hfrom, by rw [hre]; exact hview,
      by rw [hre]; exact hloc⟩

theorem reP_spec (t : Bool) (r : Rec) (H : r.Scope) (j : Nat) (hj : j < r.protos.length) :
    ∃ nb cb, entToBio r (.proto j) = .ok [nb, cb] ∧ nb.type = "protocluster" ∧ nb.loc = r.protos[j].feat.loc ∧
      cb.type = "proto_core" ∧ cb.loc = r.protos[j].core ∧
      Proto.fromBio nb = .ok (reP r j) ∧ (reP r j).view t = r.protos[j].view t ∧
      (reP r j).feat.loc = r.protos[j].feat.loc ∧ (reP r j).core = r.protos[j].core ∧
      (reP r j).cutoff = r.protos[j].cutoff ∧ (reP r j).side = none := by
  have hsj : r.protos[j]? = some r.protos[j] := List.getElem?_eq_getElem hj
  obtain ⟨hwf, hside, _⟩ := H.protosWF _ (List.getElem_mem hj)
  cases hp : (r.protos[j]).toBio (some (j + 1)) ((r.protos[j]).edge r.len) with
  | error e =>
    rw [Proto.toBio_eq, toBio_eq, hwf.codon] at hp
    cases hp
  | ok bs =>
    obtain ⟨nb, rfl, bty, bloc, p', hfrom, hview, hloc, _, hs', hcore, hcut⟩ := proto_roundtrip t _ hwf hside _ _ _ hp
    have hre : reP r j = p' := by simp [reP, entBios, entToBio, hsj, hp, hfrom]
    exact ⟨nb, coreBio r.protos[j] (some (j + 1)), by simp [entToBio, hsj, hp], bty, bloc, rfl, rfl, by rw [hre]; exact hfrom, by rw [hre]; exact hview,
      by rw [hre]; exact hloc, by rw [hre]; exact hcore, by rw [hre]; exact hcut, by rw [hre]; exact hs'⟩



theorem mem_all_plain (r : Rec) (k : Nat) (f : Feat) (h : Ent.plain k f ∈ allEntries r) : f ∈ r.others := by
  unfold allEntries at h
  simp only [List.mem_append] at h
  rcases h with (((((hm | hm) | hm) | hm) | hm) | hm) | hm
  · obtain ⟨_, _, e, hf'⟩ := mem_plainEnts hm; cases e; exact hf'
  · obtain ⟨_, _, e, _⟩ := mem_cdsEnts hm; cases e
  · obtain ⟨_, _, e, hf'⟩ := mem_plainEnts hm; cases e; exact hf'
  · simp [subEnts] at hm
  · simp [protoEnts] at hm
  · simp [candEnts] at hm
  · simp [regEnts] at hm

theorem mem_all_cds (r : Rec) (k : Nat) (f : Feat) (h : Ent.cds k f ∈ allEntries r) : f ∈ r.cdss := by
  unfold allEntries at h
  simp only [List.mem_append] at h
  rcases h with (((((hm | hm) | hm) | hm) | hm) | hm) | hm
  · obtain ⟨_, _, e, _⟩ := mem_plainEnts hm; cases e
  · obtain ⟨_, _, e, hf'⟩ := mem_cdsEnts hm; cases e; exact hf'
  · obtain ⟨_, _, e, _⟩ := mem_plainEnts hm; cases e
  · simp [subEnts] at hm
  · simp [protoEnts] at hm
  · simp [candEnts] at hm
  · simp [regEnts] at hm

/-- the indices of each area class occur in increasing order among the sorted entries -/
theorem sorted_indices (r : Rec) (H : r.Scope) :
    (pySort (entLt r) (allEntries r)).filterMap subIdx = List.range r.subs.length ∧
    (pySort (entLt r) (allEntries r)).filterMap protoIdx = List.range r.protos.length ∧
    (pySort (entLt r) (allEntries r)).filterMap candIdx = List.range r.cands.length ∧
    (pySort (entLt r) (allEntries r)).filterMap regIdx = List.range r.regs.length := by
  obtain ⟨fS, fP, fC, fR⟩ := filter_allEntries r
  obtain ⟨mS, mP, mC, mR⟩ := filterMap_ents r
  refine ⟨?_, ?_, ?_, ?_⟩
  · rw [(filterMap_idx _).1, pySort_filter_class _ H.swo isSubE, fS, mS]
    rw [fS]
    exact sorted_ents r r.subs (·.feat.loc) Ent.sub (fun i hi => by simp [entLoc, hi]) (fun _ => rfl) (fun _ _ => rfl) H.sortedS
  · rw [(filterMap_idx _).2.1, pySort_filter_class _ H.swo isProtoE, fP, mP]
    rw [fP]
    exact sorted_ents r r.protos (·.feat.loc) Ent.proto (fun i hi => by simp [entLoc, hi]) (fun _ => rfl) (fun _ _ => rfl) H.sortedP
  · rw [(filterMap_idx _).2.2.1, pySort_filter_class _ H.swo isCandE, fC, mC]
    rw [fC]
    exact sorted_ents r r.cands (·.feat.loc) Ent.cand (fun i hi => by simp [entLoc, hi]) (fun _ => rfl) (fun _ _ => rfl) H.sortedC
  · rw [(filterMap_idx _).2.2.2, pySort_filter_class _ H.swo isRegE, fR, mR]
    rw [fR]
    exact sorted_ents r r.regs (·.feat.loc) Ent.reg (fun i hi => by simp [entLoc, hi]) (fun _ => rfl) (fun _ _ => rfl) H.sortedR

/-- reading the features written for one entry changes the area part of the state by `stepArea` -/
theorem entry_step (r : Rec) (H : r.Scope) (pre es : List Ent) (e : Ent)
    (hE : pre ++ e :: es = pySort (entLt r) (allEntries r))
    (acc acc1 : Rec × List Bio) (p : List Bio)
    (hacc : areaPart acc = pre.foldl (fun a e => stepArea r e a) (a0 r))
    (hp : entToBio r e = .ok p) (hf : p.foldlM readStep acc = .ok acc1) :
    areaPart acc1 = stepArea r e (areaPart acc) := by
  obtain ⟨_, hperm, _⟩ := pySort_spec (allEntries r) H.swo
  have hmem : e ∈ allEntries r := hperm.mem_iff.1 (by rw [← hE]; simp)
  obtain ⟨z1, z2, z3, z4, z5, z6, z7, z8⟩ := foldl_stepArea r pre (a0 r)
  rw [← hacc] at z1 z2 z3 z4 z5 z6 z7 z8
  simp only [areaPart, a0, List.nil_append] at z1 z2 z3 z4 z5 z6 z7 z8
  obtain ⟨hclsS, hclsP, _, _⟩ := sorted_indices r H
  cases e with
  | plain k f =>
    simp only [entToBio, bind, Except.bind, pure, Except.pure] at hp
    cases hb : f.toBio with
    | error e => rw [hb] at hp; cases hp
    | ok b =>
      rw [hb] at hp; cases hp
      rw [foldlM_single] at hf
      have hty := (toBio_type_loc f [] b hb).1
      exact readStep_plain acc acc1 b (by rw [hty]; exact H.plain f (Or.inl (mem_all_plain r k f hmem))) hf
  | cds k f =>
    simp only [entToBio, bind, Except.bind, pure, Except.pure] at hp
    cases hb : f.toBio with
    | error e => rw [hb] at hp; cases hp
    | ok b =>
      rw [hb] at hp; cases hp
      rw [foldlM_single] at hf
      have hty := (toBio_type_loc f [] b hb).1
      exact readStep_plain acc acc1 b (by rw [hty]; exact H.plain f (Or.inr (mem_all_cds r k f hmem))) hf
  | sub i =>
    have hsplit : pre.filterMap subIdx ++ i :: es.filterMap subIdx = List.range r.subs.length := by
      rw [← hclsS, ← hE]; simp [List.filterMap_append, List.filterMap_cons, subIdx]
    obtain ⟨hlt, hi⟩ := lt_of_range_split hsplit
    obtain ⟨b, hw, bty, bloc, hfrom, _, hloc⟩ := reS_spec false r H i hi
    rw [hw] at hp; cases hp
    rw [foldlM_single] at hf
    obtain ⟨_, _, hin1, hin2, hin3⟩ := H.subsWF _ (List.getElem_mem hi)
    have hstep := readStep_sub acc b (reS r i) bty
      (linearSpan_false r acc.1 b _ bloc z2 hin3) hfrom (by rw [hloc, z1]; exact ⟨hin1, hin2⟩)
      (by
        intro x hx
        rw [z5] at hx
        obtain ⟨j, hj, rfl⟩ := List.mem_map.1 hx
        have hji := hlt j hj
        have hjl : j < r.subs.length := by omega
        obtain ⟨_, _, _, _, _, _, hlocj⟩ := reS_spec false r H j hjl
        rw [hloc, hlocj]
        exact (List.pairwise_iff_getElem.1 H.sortedS) j i hjl hi hji)
      z4
    rw [hstep] at hf
    cases hf
    simp [areaPart, stepArea]
  | proto i =>
    have hsplit : pre.filterMap protoIdx ++ i :: es.filterMap protoIdx = List.range r.protos.length := by
      rw [← hclsP, ← hE]; simp [List.filterMap_append, List.filterMap_cons, protoIdx]
    obtain ⟨hlt, hi⟩ := lt_of_range_split hsplit
    obtain ⟨nb, cb, hw, bty, bloc, cty, cloc, hfrom, _, hloc, _, _, _⟩ := reP_spec false r H i hi
    rw [hw] at hp; cases hp
    rw [foldlM_pair] at hf
    obtain ⟨_, _, ⟨hin1, hin2, hin3⟩, hin4⟩ := H.protosWF _ (List.getElem_mem hi)
    have hstep := readStep_proto acc nb (reP r i) bty
      (linearSpan_false r acc.1 nb _ bloc z2 hin3) hfrom (by rw [hloc, z1]; exact ⟨hin1, hin2⟩)
      (by
        intro x hx
        rw [z6] at hx
        obtain ⟨j, hj, rfl⟩ := List.mem_map.1 hx
        have hji := hlt j hj
        have hjl : j < r.protos.length := by omega
        obtain ⟨_, _, _, _, _, _, _, _, _, hlocj, _⟩ := reP_spec false r H j hjl
        rw [hloc, hlocj]
        exact (List.pairwise_iff_getElem.1 H.sortedP) j i hjl hi hji)
      z3
    rw [hstep] at hf
    simp only [Except.bind] at hf
    rw [readStep_core _ cb cty (linearSpan_false r _ cb _ cloc (by simpa using z2) hin4)] at hf
    cases hf
    simp [areaPart, stepArea]
  | cand i =>
    cases hc : r.cands[i]? with
    | none => simp [entToBio, hc] at hp
    | some c =>
      simp only [entToBio, hc] at hp
      obtain ⟨hwf, hin1, hin2, hin3⟩ := H.candsWF c (List.mem_of_getElem? hc)
      obtain ⟨b, rfl, _, bty, bloc⟩ := Cand.toBio_shape r c _ _ hp
      have hcod : c.feat.codon = none := by rw [hwf.feat]
      have hty : b.type = "cand_cluster" := by rw [bty, hwf.feat]
      rw [foldlM_single, readStep_post acc b (Or.inl hty) (linearSpan_false r acc.1 b _ (bloc hcod) z2 hin3)] at hf
      cases hf
      have hcb : candB r i = b := by simp [candB, entBios, entToBio, hc, hp]
      simp [areaPart, stepArea, List.filter_append, hty, hcb]
  | reg i =>
    cases hc : r.regs[i]? with
    | none => simp [entToBio, hc] at hp
    | some g =>
      simp only [entToBio, hc] at hp
      obtain ⟨hwf, hin1, hin2, hin3⟩ := H.regsWF g (List.mem_of_getElem? hc)
      obtain ⟨b, rfl, _, bty, bloc⟩ := Reg.toBio_shape r g _ _ hp
      have hcod : g.feat.codon = none := by rw [hwf.feat]
      have hty : b.type = "region" := by rw [bty, hwf.feat]
      rw [foldlM_single, readStep_post acc b (Or.inr hty) (linearSpan_false r acc.1 b _ (bloc hcod) z2 hin3)] at hf
      cases hf
      have hcb : regB r i = b := by simp [regB, entBios, entToBio, hc, hp]
      simp [areaPart, stepArea, List.filter_append, hty, hcb]



theorem mapM_cons_ok {α β : Type} (f : α → E β) (a : α) (l : List α) (out : List β) (h : (a :: l).mapM f = .ok out) :
    ∃ b bs, f a = .ok b ∧ l.mapM f = .ok bs ∧ out = b :: bs := by
  rw [List.mapM_cons] at h
  simp only [bind, Except.bind, pure, Except.pure] at h
  cases hb : f a with
  | error e => rw [hb] at h; cases h
  | ok b =>
    rw [hb] at h
    cases hbs : l.mapM f with
    | error e => rw [hbs] at h; cases h
    | ok bs => rw [hbs] at h; cases h; exact ⟨b, bs, rfl, rfl, rfl⟩

theorem foldlM_append_ok {α β : Type} (f : β → α → E β) (l1 l2 : List α) (acc acc' : β)
    (h : (l1 ++ l2).foldlM f acc = .ok acc') : ∃ acc1, l1.foldlM f acc = .ok acc1 ∧ l2.foldlM f acc1 = .ok acc' := by
  rw [List.foldlM_append] at h
  simp only [bind, Except.bind] at h
  cases h1 : l1.foldlM f acc with
  | error e => rw [h1] at h; cases h
  | ok acc1 => rw [h1] at h; exact ⟨acc1, rfl, h⟩

/-- the reading loop over all written features -/
theorem fold_main (r : Rec) (H : r.Scope) :
    ∀ (es pre : List Ent), pre ++ es = pySort (entLt r) (allEntries r) →
      ∀ (acc acc' : Rec × List Bio) (parts : List (List Bio)),
        areaPart acc = pre.foldl (fun a e => stepArea r e a) (a0 r) →
        es.mapM (entToBio r) = .ok parts → parts.flatten.foldlM readStep acc = .ok acc' →
        areaPart acc' = (pre ++ es).foldl (fun a e => stepArea r e a) (a0 r) := by
  intro es
  induction es with
  | nil =>
    intro pre _ acc acc' parts hacc hm hf
    simp only [List.mapM_nil, pure, Except.pure] at hm
    cases hm
    simp only [List.flatten_nil, List.foldlM_nil, pure, Except.pure] at hf
    cases hf
    simpa using hacc
  | cons e es ih =>
    intro pre hE acc acc' parts hacc hm hf
    obtain ⟨p, ps, hp, hps, rfl⟩ := mapM_cons_ok _ _ _ _ hm
    rw [List.flatten_cons] at hf
    obtain ⟨acc1, h1, h2⟩ := foldlM_append_ok _ _ _ _ _ hf
    have hstep := entry_step r H pre es e hE acc acc1 p hacc hp h1
    have hE' : (pre ++ [e]) ++ es = pySort (entLt r) (allEntries r) := by rw [← hE]; simp
    have := ih (pre ++ [e]) hE' acc1 acc' ps (by rw [hstep, hacc]; simp [List.foldl_append]) hps h2
    rw [this]; simp


/-! ### candidate clusters and regions are rebuilt from the record -/

theorem nodup_candX (r : Rec) (c : Cand) (num : Option Nat) : Q.Nodup (candX r c num) := by
  unfold candX
  cases num <;> cases c.smiles <;> cases c.polymer <;>
    first
    | (simp [Q.Nodup, Q.keys, optQ]; done)
    | (apply Q.nodup_set; simp [Q.Nodup, Q.keys, optQ])

theorem get?_candX (r : Rec) (c : Cand) (k : Nat) :
    Q.get? (candX r c (some k)) "protoclusters" = some (c.children.map fun (i : Nat) => strOfInt (i + 1)) ∧
    Q.get? (candX r c (some k)) "kind" = some [c.kind] ∧
    Q.get? (candX r c (some k)) "candidate_cluster_number" = some [strOfInt k] ∧
    Q.get? (candX r c (some k)) "SMILES" = c.smiles.map (fun v => [v]) ∧
    Q.get? (candX r c (some k)) "polymer" = c.polymer.map (fun v => [v]) ∧
    Q.get? (candX r c (some k)) "note" = none ∧ Q.get? (candX r c (some k)) "codon_start" = none := by
  unfold candX
  cases c.smiles <;> cases c.polymer <;> simp [Q.get?_set, Q.get?, optQ]

theorem parseNums_map (l : List Nat) :
    parseNums (l.map fun (i : Nat) => strOfInt (i + 1)) = .ok (l.map fun (i : Nat) => ((i : Int) + 1)) := by
  unfold parseNums
  induction l with
  | nil => rfl
  | cons x xs ih =>
    rw [List.map_cons, List.mapM_cons, ih]
    simp [intOfStr_strOfInt, bind, Except.bind, pure, Except.pure]

theorem maxList_le_of_all (l : List Int) (m : Int) (hne : l ≠ []) (h : ∀ x ∈ l, x ≤ m) : maxList l ≤ m :=
  h _ (maxList_mem hne)

theorem filterMap_locs_congr {α β : Type} (l1 : List α) (l2 : List β) (f : α → Loc) (g : β → Loc) (idx : List Nat)
    (hlen : l1.length = l2.length) (h : ∀ i (hi : i < l2.length) (hi' : i < l1.length), f l1[i] = g l2[i]) :
    idx.filterMap (fun i => (l1[i]?).map f) = idx.filterMap (fun i => (l2[i]?).map g) := by
  induction idx with
  | nil => rfl
  | cons i rest ih =>
    simp only [List.filterMap_cons]
    by_cases hi : i < l2.length
    · have hi' : i < l1.length := by omega
      rw [List.getElem?_eq_getElem hi, List.getElem?_eq_getElem hi']
      simp [h i hi hi', ih]
    · have hi' : ¬ i < l1.length := by omega
      rw [List.getElem?_eq_none (by omega), List.getElem?_eq_none (by omega)]
      simp [ih]

/-- a candidate cluster is rebuilt exactly from its written feature, given a record with the same
    protocluster locations in the same positions -/
theorem cand_fromBio (r r1 : Rec) (c : Cand) (k : Nat) (b : Bio) (hwf : c.WF r)
    (hb : c.feat.toBio (candX r c (some k)) = .ok b)
    (hlen : r1.len = r.len) (hcirc : r1.circular = r.circular) (hpl : r1.protos.length = r.protos.length)
    (hlocs : ∀ i (hi : i < r.protos.length) (hi' : i < r1.protos.length), r1.protos[i].feat.loc = r.protos[i].feat.loc) :
    Cand.fromBio r1 b = .ok c ∧ storedNumber b = k := by
  have hX := nodup_candX r c (some k)
  obtain ⟨g1, g2, g3, g4, g5, g6, g7⟩ := get?_candX r c k
  have hfeat := hwf.feat
  have hcod : c.feat.codon = none := by rw [hfeat]
  have hq : c.feat.quals = [] := by rw [hfeat]
  have hFQ := nodup_finalQuals c.feat (candX r c (some k)) (by rw [hq]; exact nodupNil)
  rw [toBio_eq, hcod] at hb
  cases hb
  have look : ∀ key, Q.get? (Q.sortKeys (finalQuals c.feat (candX r c (some k)))) key
      = Q.get? (finalQuals c.feat (candX r c (some k))) key := fun key => Q.get?_sortKeys hFQ key
  have ext : ∀ key v, key ≠ "tool" → key ≠ "note" → Q.get? (candX r c (some k)) key = some v →
      Q.get? (Q.sortKeys (finalQuals c.feat (candX r c (some k)))) key = some v :=
    fun key v h2 h3 hk => by rw [look]; exact get?_FQ_extra c.feat _ hX key v hcod h2 h3 hk
  have rest : ∀ key, key ≠ "tool" → key ≠ "note" → Q.get? (candX r c (some k)) key = none →
      Q.get? (Q.sortKeys (finalQuals c.feat (candX r c (some k)))) key = none :=
    fun key h2 h3 hk => by rw [look, get?_FQ_rest c.feat _ hX key hcod h2 h3 hk, hq]; rfl
  have L1 := ext "protoclusters" _ (by decide) (by decide) g1
  have L2 := ext "kind" _ (by decide) (by decide) g2
  have L3 := ext "candidate_cluster_number" _ (by decide) (by decide) g3
  refine ⟨?_, by simp [storedNumber, L3, intOfStr_strOfInt]⟩
  have hne : (c.children.map fun (i : Nat) => ((i : Int) + 1)) ≠ [] := by simpa using hwf.nonempty
  have hemp : (c.children.map fun (i : Nat) => ((i : Int) + 1)).isEmpty = false := by
    cases hl : c.children.map fun (i : Nat) => ((i : Int) + 1) with
    | nil => exact absurd hl hne
    | cons _ _ => rfl
  have hmax : ¬ (maxList (c.children.map fun (i : Nat) => ((i : Int) + 1)) > (r1.protos.length : Int)) := by
    have := maxList_le_of_all _ (r1.protos.length : Int) hne (by
      intro x hx
      obtain ⟨i, hi, rfl⟩ := List.mem_map.1 hx
      have := hwf.children i hi
      omega)
    omega
  have K2 : Q.get? (Q.erase (Q.sortKeys (finalQuals c.feat (candX r c (some k)))) "protoclusters") "kind" = some [c.kind] := by
    rw [Q.get?_erase_other _ _ _ (by decide)]; exact L2
  have hkind : kinds.contains c.kind = true := by simpa using hwf.kind
  have hsm : (Q.get? (Q.erase (Q.erase (Q.sortKeys (finalQuals c.feat (candX r c (some k)))) "protoclusters") "kind") "SMILES").bind List.head? = c.smiles := by
    rw [Q.get?_erase_other _ _ _ (by decide), Q.get?_erase_other _ _ _ (by decide)]
    cases hs : c.smiles with
    | none => rw [rest "SMILES" (by decide) (by decide) (by rw [g4, hs]; rfl)]; rfl
    | some v => rw [ext "SMILES" [v] (by decide) (by decide) (by rw [g4, hs]; rfl)]; rfl
  have hpo : (Q.get? (Q.erase (Q.erase (Q.sortKeys (finalQuals c.feat (candX r c (some k)))) "protoclusters") "kind") "polymer").bind List.head? = c.polymer := by
    rw [Q.get?_erase_other _ _ _ (by decide), Q.get?_erase_other _ _ _ (by decide)]
    cases hs : c.polymer with
    | none => rw [rest "polymer" (by decide) (by decide) (by rw [g5, hs]; rfl)]; rfl
    | some v => rw [ext "polymer" [v] (by decide) (by decide) (by rw [g5, hs]; rfl)]; rfl
  have hany : (c.children.map fun (i : Nat) => ((i : Int) + 1)).any (· < 1) = false := by
    rw [List.any_eq_false]; intro x hx
    obtain ⟨i, _, rfl⟩ := List.mem_map.1 hx
    simp; omega
  have hch : (c.children.map fun (i : Nat) => ((i : Int) + 1)).map (fun n => (n - 1).toNat) = c.children := by
    rw [List.map_map]
    conv => rhs; rw [← List.map_id c.children]
    apply List.map_congr_left
    intro i _
    simp
  have hwrap : (if r1.circular then some r1.len else none) = c.wrap := by rw [hcirc, hlen, hwf.wrap]
  have hloc : connect (c.children.filterMap fun i => (r1.protos[i]?).map (·.feat.loc)) c.wrap = .ok c.feat.loc := by
    rw [filterMap_locs_congr r1.protos r.protos (·.feat.loc) (·.feat.loc) c.children hpl
      (fun i hi hi' => hlocs i hi hi')]
    exact hwf.loc
  unfold Cand.fromBio
  simp only [L1, parseNums_map, hemp, Bool.false_eq_true, if_false, hmax, popReq_of_get? K2, hkind, Bool.not_true, hsm, hpo,
    hany, hch, hwrap, hloc, Except.map]
  congr 1
  cases c with
  | mk feat kind children smiles polymer wrap =>
    simp only at hfeat ⊢
    conv => rhs; rw [hfeat]



theorem nodup_regX (r : Rec) (g : Reg) (num : Option Nat) : Q.Nodup (regX r g num) := by
  unfold regX
  cases num
  · simp [Q.Nodup, Q.keys]
  · apply Q.nodup_set; simp [Q.Nodup, Q.keys]

theorem get?_regX (r : Rec) (g : Reg) (k : Nat) :
    Q.get? (regX r g (some k)) "candidate_cluster_numbers" = some (g.cands.map fun (i : Nat) => strOfInt (i + 1)) ∧
    Q.get? (regX r g (some k)) "subregion_numbers" = some (g.subs.map fun (i : Nat) => strOfInt (i + 1)) := by
  unfold regX
  simp [Q.get?_set, Q.get?]

theorem nums_facts (l : List Nat) (m : Nat) (h : ∀ i ∈ l, i < m) :
    (¬ ((!(l.map fun (i : Nat) => ((i : Int) + 1)).isEmpty && decide (maxList (l.map fun (i : Nat) => ((i : Int) + 1)) > (m : Int))) = true)) ∧
    (l.map fun (i : Nat) => ((i : Int) + 1)).any (· < 1) = false ∧
    (l.map fun (i : Nat) => ((i : Int) + 1)).map (fun n => (n - 1).toNat) = l ∧
    ((l.map fun (i : Nat) => ((i : Int) + 1)).isEmpty = l.isEmpty) := by
  refine ⟨?_, ?_, ?_, ?_⟩
  · cases hl : l with
    | nil => simp
    | cons x xs =>
      have hne : ((x :: xs).map fun (i : Nat) => ((i : Int) + 1)) ≠ [] := by simp
      have := maxList_le_of_all _ (m : Int) hne (by
        intro y hy
        obtain ⟨i, hi, rfl⟩ := List.mem_map.1 hy
        have := h i (by rw [hl]; exact hi)
        omega)
      simp only [Bool.and_eq_true, decide_eq_true_eq, not_and]
      intro _; omega
  · rw [List.any_eq_false]; intro x hx
    obtain ⟨i, _, rfl⟩ := List.mem_map.1 hx
    simp; omega
  · rw [List.map_map]
    conv => rhs; rw [← List.map_id l]
    apply List.map_congr_left
    intro i _
    simp
  · cases l <;> rfl

theorem reg_fromBio (r r1 : Rec) (g : Reg) (k : Nat) (b : Bio) (hwf : g.WF r)
    (hb : g.feat.toBio (regX r g (some k)) = .ok b)
    (hcl : r1.cands.length = r.cands.length) (hsl : r1.subs.length = r.subs.length)
    (hclocs : ∀ i (hi : i < r.cands.length) (hi' : i < r1.cands.length), r1.cands[i].feat.loc = r.cands[i].feat.loc)
    (hslocs : ∀ i (hi : i < r.subs.length) (hi' : i < r1.subs.length), r1.subs[i].feat.loc = r.subs[i].feat.loc) :
    Reg.fromBio r1 b = .ok g := by
  have hX := nodup_regX r g (some k)
  obtain ⟨g1, g2⟩ := get?_regX r g k
  have hfeat := hwf.feat
  have hcod : g.feat.codon = none := by rw [hfeat]
  have hq : g.feat.quals = [] := by rw [hfeat]
  have hFQ := nodup_finalQuals g.feat (regX r g (some k)) (by rw [hq]; exact nodupNil)
  rw [toBio_eq, hcod] at hb
  cases hb
  have ext : ∀ key v, key ≠ "tool" → key ≠ "note" → Q.get? (regX r g (some k)) key = some v →
      Q.get? (Q.sortKeys (finalQuals g.feat (regX r g (some k)))) key = some v :=
    fun key v h2 h3 hk => by rw [Q.get?_sortKeys hFQ]; exact get?_FQ_extra g.feat _ hX key v hcod h2 h3 hk
  have L1 := ext "candidate_cluster_numbers" _ (by decide) (by decide) g1
  have L2 := ext "subregion_numbers" _ (by decide) (by decide) g2
  obtain ⟨c1, c2, c3, c4⟩ := nums_facts g.cands r1.cands.length (by rw [hcl]; exact hwf.cands)
  obtain ⟨s1, s2, s3, s4⟩ := nums_facts g.subs r1.subs.length (by rw [hsl]; exact hwf.subs)
  have hboth : ((g.cands.map fun (i : Nat) => ((i : Int) + 1)).isEmpty && (g.subs.map fun (i : Nat) => ((i : Int) + 1)).isEmpty) = false := by
    rw [c4, s4]
    rcases hwf.nonempty with h | h
    · cases hc : g.cands with
      | nil => exact absurd hc h
      | cons _ _ => rfl
    · cases hc : g.subs with
      | nil => exact absurd hc h
      | cons _ _ => simp
  have hloc : regionLoc ((g.subs.filterMap fun i => (r1.subs[i]?).map (·.feat.loc)) ++
      (g.cands.filterMap fun i => (r1.cands[i]?).map (·.feat.loc))) = .ok g.feat.loc := by
    rw [filterMap_locs_congr r1.subs r.subs (·.feat.loc) (·.feat.loc) g.subs hsl (fun i hi hi' => hslocs i hi hi'),
      filterMap_locs_congr r1.cands r.cands (·.feat.loc) (·.feat.loc) g.cands hcl (fun i hi hi' => hclocs i hi hi')]
    exact hwf.loc
  unfold Reg.fromBio
  simp only [L1, L2, Option.getD_some, parseNums_map, c1, s1, c2, s2, c3, s3, hboth, if_false, Bool.or_self,
    Bool.false_eq_true, hloc, Except.map]
  congr 1
  cases g with
  | mk feat cands subs =>
    simp only at hfeat ⊢
    conv => rhs; rw [hfeat]



/-! ### the postponed candidate clusters -/

theorem insertByNumberDesc_end (x : Bio) : ∀ (acc : List Bio), (∀ y ∈ acc, storedNumber x ≤ storedNumber y) →
    insertByNumberDesc x acc = acc ++ [x] := by
  intro acc
  induction acc with
  | nil => intro _; rfl
  | cons y ys ih =>
    intro h
    have hy := h y (by simp)
    have : ¬ storedNumber x > storedNumber y := by omega
    simp [insertByNumberDesc, this, ih (fun z hz => h z (List.mem_cons_of_mem _ hz))]

theorem foldl_insertDesc : ∀ (m acc : List Bio), (acc ++ m).Pairwise (fun a b => storedNumber b ≤ storedNumber a) →
    m.foldl (fun acc x => insertByNumberDesc x acc) acc = acc ++ m := by
  intro m
  induction m with
  | nil => intro acc _; simp
  | cons x rest ih =>
    intro acc hp
    simp only [List.foldl_cons]
    have hx : ∀ y ∈ acc, storedNumber x ≤ storedNumber y := fun y hy =>
      (List.pairwise_append.1 hp).2.2 y hy x (by simp)
    rw [insertByNumberDesc_end x acc hx, ih (acc ++ [x]) (by simpa using hp)]
    simp

/-- candidate features written with increasing numbers are added from the last to the first -/
theorem candOrder_increasing (l : List Bio) (h : l.Pairwise (fun a b => storedNumber a ≤ storedNumber b)) :
    candOrder l = l.reverse := by
  unfold candOrder
  have := foldl_insertDesc l.reverse [] (by
    simp only [List.nil_append]
    rw [List.pairwise_reverse]
    exact h)
  simpa using this

/-- adding the candidates `k-1, …, 0` in front of `k, k+1, …` gives all of them -/
theorem cand_phase (r : Rec) (H : r.Scope) : ∀ (k : Nat) (hk : k ≤ r.cands.length) (rk r' : Rec),
    rk.len = r.len → rk.circular = r.circular → rk.protos.length = r.protos.length →
    (∀ i (hi : i < r.protos.length) (hi' : i < rk.protos.length), rk.protos[i].feat.loc = r.protos[i].feat.loc) →
    rk.cands = r.cands.drop k → rk.regs = [] →
    ((List.range k).reverse.map (candB r)).foldlM (fun r b => do addCand r (← Cand.fromBio r b)) rk = .ok r' →
    r'.cands = r.cands ∧ r'.protos = rk.protos ∧ r'.subs = rk.subs ∧ r'.regs = [] ∧ r'.len = r.len ∧ r'.circular = r.circular := by
  intro k
  induction k with
  | zero =>
    intro _ rk r' h1 h2 _ _ hc hr hf
    simp only [List.range_zero, List.reverse_nil, List.map_nil, List.foldlM_nil, pure, Except.pure] at hf
    cases hf
    exact ⟨by simpa using hc, rfl, rfl, hr, h1, h2⟩
  | succ k ih =>
    intro hk rk r' h1 h2 h3 h4 hc hr hf
    have hkl : k < r.cands.length := by omega
    rw [List.range_succ, List.reverse_append, List.reverse_singleton, List.singleton_append, List.map_cons,
      List.foldlM_cons] at hf
    -- the feature written for candidate k
    have hck : r.cands[k]? = some r.cands[k] := List.getElem?_eq_getElem hkl
    obtain ⟨hwf, hin1, hin2, _⟩ := H.candsWF _ (List.getElem_mem hkl)
    have hcod : (r.cands[k]).feat.codon = none := by rw [hwf.feat]
    cases hw : (r.cands[k]).toBio r (some (k + 1)) with
    | error e =>
      unfold Cand.toBio at hw
      have hany : (r.cands[k].children.any fun i => decide (i ≥ r.protos.length)) = false := by
        rw [List.any_eq_false]; intro i hi; have := hwf.children i hi; simp; omega
      rw [hany] at hw
      simp only [Bool.false_eq_true, if_false, toBio_eq, hcod, Except.map] at hw
      cases hw
    | ok bs =>
      obtain ⟨b, rfl, hb, _, _⟩ := Cand.toBio_shape r _ _ _ hw
      have hcb : candB r k = b := by simp [candB, entBios, entToBio, hck, hw]
      obtain ⟨hfrom, _⟩ := cand_fromBio r rk _ (k + 1) b hwf hb h1 h2 h3 h4
      rw [hcb] at hf
      simp only [hfrom, bind, Except.bind] at hf
      have hadd : addCand rk r.cands[k] = .ok { rk with cands := r.cands[k] :: rk.cands } := by
        unfold addCand
        rw [inRecord_ok rk _ (by rw [h1]; exact ⟨hin1, hin2⟩)]
        simp only [bind, Except.bind, pure, Except.pure]
        have hfront := bisectL_front (fun (a b : Cand) => areaLt a.feat.loc b.feat.loc) r.cands[k] rk.cands (by
          intro e he
          rw [hc] at he
          obtain ⟨j, hj, rfl⟩ := List.mem_iff_getElem.1 he
          rw [List.getElem_drop]
          have hjl : k + 1 + j < r.cands.length := by simp at hj; omega
          exact (List.pairwise_iff_getElem.1 H.sortedC) k (k + 1 + j) hkl hjl (by omega))
        rw [hfront, hr]
        rfl
      rw [hadd] at hf
      have := ih (by omega) _ r' (by simpa using h1) (by simpa using h2) (by simpa using h3) (by simpa using h4)
        (by simp only [hc]; exact (List.drop_eq_getElem_cons hkl).symm) (by simpa using hr) hf
      simpa using this



/-! ### the postponed regions -/

theorem regionIndex_end (g : Reg) : ∀ (existing : List Reg) (i : Nat),
    (∀ e ∈ existing, locationsOverlap g.feat.loc e.feat.loc = false ∧ areaLt g.feat.loc e.feat.loc = false) →
    regionIndex g existing i = .ok (i + existing.length) := by
  intro existing
  induction existing with
  | nil => intro i _; simp [regionIndex, pure, Except.pure]
  | cons e rest ih =>
    intro i h
    obtain ⟨h1, h2⟩ := h e (by simp)
    unfold regionIndex
    simp only [h1, h2, Bool.false_eq_true, if_false]
    rw [ih (i + 1) (fun x hx => h x (List.mem_cons_of_mem _ hx))]
    simp only [List.length_cons]; congr 1; omega

theorem reg_phase (r : Rec) (H : r.Scope) : ∀ (m k : Nat) (hk : k + m = r.regs.length) (rk r' : Rec),
    rk.len = r.len → rk.cands.length = r.cands.length → rk.subs.length = r.subs.length →
    (∀ i (hi : i < r.cands.length) (hi' : i < rk.cands.length), rk.cands[i].feat.loc = r.cands[i].feat.loc) →
    (∀ i (hi : i < r.subs.length) (hi' : i < rk.subs.length), rk.subs[i].feat.loc = r.subs[i].feat.loc) →
    rk.regs = r.regs.take k →
    ((List.range' k m).map (regB r)).foldlM (fun r b => do addReg r (← Reg.fromBio r b)) rk = .ok r' →
    r'.regs = r.regs ∧ r'.cands = rk.cands ∧ r'.protos = rk.protos ∧ r'.subs = rk.subs ∧ r'.len = rk.len ∧ r'.circular = rk.circular := by
  intro m
  induction m with
  | zero =>
    intro k hk rk r' _ _ _ _ _ hr hf
    simp only [List.range'_zero, List.map_nil, List.foldlM_nil, pure, Except.pure] at hf
    cases hf
    refine ⟨?_, rfl, rfl, rfl, rfl, rfl⟩
    rw [hr, List.take_of_length_le (by omega)]
  | succ m ih =>
    intro k hk rk r' h1 h2 h3 h4 h5 hr hf
    have hkl : k < r.regs.length := by omega
    rw [List.range'_succ, List.map_cons, List.foldlM_cons] at hf
    have hgk : r.regs[k]? = some r.regs[k] := List.getElem?_eq_getElem hkl
    obtain ⟨hwf, hin1, hin2, _⟩ := H.regsWF _ (List.getElem_mem hkl)
    have hcod : (r.regs[k]).feat.codon = none := by rw [hwf.feat]
    cases hw : (r.regs[k]).toBio r (some (k + 1)) with
    | error e =>
      unfold Reg.toBio at hw
      have hany : ((r.regs[k]).cands.any (fun i => decide (i ≥ r.cands.length)) || (r.regs[k]).subs.any (fun i => decide (i ≥ r.subs.length))) = false := by
        rw [Bool.or_eq_false_iff, List.any_eq_false, List.any_eq_false]
        exact ⟨fun i hi => by have := hwf.cands i hi; simp; omega, fun i hi => by have := hwf.subs i hi; simp; omega⟩
      rw [hany] at hw
      simp only [Bool.false_eq_true, if_false, toBio_eq, hcod, Except.map] at hw
      cases hw
    | ok bs =>
      obtain ⟨b, rfl, hb, _, _⟩ := Reg.toBio_shape r _ _ _ hw
      have hcb : regB r k = b := by simp [regB, entBios, entToBio, hgk, hw]
      have hfrom := reg_fromBio r rk _ (k + 1) b hwf hb h2 h3 h4 h5
      rw [hcb] at hf
      simp only [hfrom, bind, Except.bind] at hf
      have hadd : addReg rk r.regs[k] = .ok { rk with regs := rk.regs ++ [r.regs[k]] } := by
        unfold addReg
        rw [inRecord_ok rk _ (by rw [h1]; exact ⟨hin1, hin2⟩)]
        simp only [bind, Except.bind, pure, Except.pure]
        rw [regionIndex_end _ rk.regs 0 (by
          intro e he
          rw [hr] at he
          obtain ⟨j, hj, rfl⟩ := List.mem_iff_getElem.1 he
          rw [List.getElem_take]
          have hjk : j < k := by simp at hj; omega
          have hjl : j < r.regs.length := by omega
          exact ⟨(List.pairwise_iff_getElem.1 H.disjoint) j k hjl hkl hjk,
                 (List.pairwise_iff_getElem.1 H.sortedR) j k hjl hkl hjk⟩)]
        simp [insertAt]
      rw [hadd] at hf
      have := ih (k + 1) (by omega) _ r' (by simpa using h1) (by simpa using h2) (by simpa using h3) (by simpa using h4)
        (by simpa using h5) (by simp only [hr]; rw [List.take_add_one, List.getElem?_eq_getElem hkl]; rfl) hf
      simpa using this

/-- modules (postponed as well) touch no area list -/
theorem module_phase : ∀ (l : List Bio) (rk r' : Rec),
    l.foldlM (fun r b => do pure { r with others := r.others ++ [← plainFromBio b] }) rk = .ok r' →
    r'.regs = rk.regs ∧ r'.cands = rk.cands ∧ r'.protos = rk.protos ∧ r'.subs = rk.subs ∧ r'.len = rk.len ∧ r'.circular = rk.circular := by
  intro l
  induction l with
  | nil => intro rk r' hf; simp only [List.foldlM_nil, pure, Except.pure] at hf; cases hf; simp
  | cons b rest ih =>
    intro rk r' hf
    rw [List.foldlM_cons] at hf
    simp only [bind, Except.bind, pure, Except.pure] at hf
    cases hp : plainFromBio b with
    | error e => rw [hp] at hf; cases hf
    | ok f =>
      rw [hp] at hf
      have := ih _ r' hf
      simpa using this


/-! ### the whole round trip -/

theorem map_range_eq {α β : Type} (l : List α) (f : Nat → β) (g : α → β)
    (h : ∀ i (hi : i < l.length), f i = g l[i]) : (List.range l.length).map f = l.map g := by
  apply List.ext_getElem
  · simp
  · intro i h1 h2
    simp only [List.getElem_map, List.getElem_range]
    exact h i (by simpa using h2)

/-- the re-read record has the same area lists, in the same order, with the same cross references -/
theorem numbering_main (t : Bool) (r : Rec) (H : r.Scope) (bios : List Bio) (r' : Rec)
    (hw : writeRecord r = .ok bios) (hr : readRecord r.len r.circular bios = .ok r') :
    r'.subs.map (Sub.view t) = r.subs.map (Sub.view t) ∧
    r'.protos.map (Proto.view t) = r.protos.map (Proto.view t) ∧
    r'.cands = r.cands ∧ r'.cands.map (Cand.view t r') = r.cands.map (Cand.view t r) ∧
    r'.regs = r.regs := by
  -- the written features, entry by entry
  unfold writeRecord at hw
  simp only [bind, Except.bind, pure, Except.pure] at hw
  cases hparts : (pySort (entLt r) (allEntries r)).mapM (entToBio r) with
  | error e => rw [hparts] at hw; cases hw
  | ok parts =>
    rw [hparts] at hw
    cases hw
    unfold readRecord at hr
    simp only [bind, Except.bind] at hr
    cases hloop : parts.flatten.foldlM readStep (({ len := r.len, circular := r.circular } : Rec), []) with
    | error e => rw [hloop] at hr; cases hr
    | ok st =>
      rw [hloop] at hr
      obtain ⟨r1, post⟩ := st
      simp only at hr
      have hmain := fold_main r H _ [] (by simp) _ _ parts (by simp [areaPart, a0]) hparts hloop
      obtain ⟨z1, z2, z3, z4, z5, z6, z7, z8⟩ := foldl_stepArea r (pySort (entLt r) (allEntries r)) (a0 r)
      simp only [List.nil_append] at hmain
      rw [← hmain] at z1 z2 z3 z4 z5 z6 z7 z8
      obtain ⟨iS, iP, iC, iR⟩ := sorted_indices r H
      simp only [areaPart, a0, List.nil_append, iS, iP, iC, iR] at z1 z2 z3 z4 z5 z6 z7 z8
      -- candidate clusters
      have hnum : ∀ i (hi : i < r.cands.length), storedNumber (candB r i) = ((i + 1 : Nat) : Int) := by
        intro i hi
        have hck : r.cands[i]? = some r.cands[i] := List.getElem?_eq_getElem hi
        obtain ⟨hwf, _⟩ := H.candsWF _ (List.getElem_mem hi)
        have hcod : (r.cands[i]).feat.codon = none := by rw [hwf.feat]
        cases hwc : (r.cands[i]).toBio r (some (i + 1)) with
        | error e =>
          unfold Cand.toBio at hwc
          have hany : (r.cands[i].children.any fun j => decide (j ≥ r.protos.length)) = false := by
            rw [List.any_eq_false]; intro j hj; have := hwf.children j hj; simp; omega
          rw [hany] at hwc
          simp only [Bool.false_eq_true, if_false, toBio_eq, hcod, Except.map] at hwc
          cases hwc
        | ok bs =>
          obtain ⟨b, rfl, hb, _, _⟩ := Cand.toBio_shape r _ _ _ hwc
          have hcb : candB r i = b := by simp [candB, entBios, entToBio, hck, hwc]
          rw [hcb]
          exact (cand_fromBio r r _ (i + 1) b hwf hb rfl rfl rfl (fun _ _ _ => rfl)).2
      have horder : candOrder (post.filter (·.type == "cand_cluster")) = (List.range r.cands.length).reverse.map (candB r) := by
        rw [z7, candOrder_increasing, List.map_reverse]
        rw [List.pairwise_map]
        refine List.pairwise_lt_range.imp_of_mem ?_
        intro i j hi hj hij
        rw [hnum i (List.mem_range.1 hi), hnum j (List.mem_range.1 hj)]
        omega
      rw [horder] at hr
      cases hcp : ((List.range r.cands.length).reverse.map (candB r)).foldlM (fun r b => do addCand r (← Cand.fromBio r b)) r1 with
      | error e => simp only [bind, Except.bind] at hcp; rw [hcp] at hr; cases hr
      | ok r2 =>
        simp only [bind, Except.bind] at hcp
        rw [hcp] at hr
        simp only at hr
        have hP1 : ∀ i (hi : i < r.protos.length) (hi' : i < r1.protos.length), r1.protos[i].feat.loc = r.protos[i].feat.loc := by
          intro i hi hi'
          have : r1.protos[i] = reP r i := by simp [z6]
          rw [this]
          obtain ⟨_, _, _, _, _, _, _, _, _, hloc, _⟩ := reP_spec t r H i hi
          exact hloc
        obtain ⟨c1, c2, c3, c4, c5, c6⟩ := cand_phase r H r.cands.length (Nat.le_refl _) r1 r2 z1 z2 (by simp [z6]) hP1
          (by rw [z3]; simp) z4 hcp
        -- regions
        rw [z8] at hr
        cases hrp : ((List.range r.regs.length).map (regB r)).foldlM (fun r b => do addReg r (← Reg.fromBio r b)) r2 with
        | error e => simp only [bind, Except.bind] at hrp; rw [hrp] at hr; cases hr
        | ok r3 =>
          simp only [bind, Except.bind] at hrp
          rw [hrp] at hr
          simp only at hr
          have hS2 : ∀ i (hi : i < r.subs.length) (hi' : i < r2.subs.length), r2.subs[i].feat.loc = r.subs[i].feat.loc := by
            intro i hi hi'
            have : r2.subs[i] = reS r i := by simp [c3, z5]
            rw [this]
            obtain ⟨_, _, _, _, _, _, hloc⟩ := reS_spec t r H i hi
            exact hloc
          obtain ⟨g1, g2, g3, g4, g5, g6⟩ := reg_phase r H r.regs.length 0 (by simp) r2 r3 c5 (by rw [c1]) (by simp [c3, z5])
            (fun i hi hi' => by simp [c1]) hS2 (by rw [c4]; simp)
            (by rw [← List.range_eq_range']; exact hrp)
          obtain ⟨m1, m2, m3, m4, m5, m6⟩ := module_phase _ r3 r' hr
          have hsubs : r'.subs = (List.range r.subs.length).map (reS r) := by rw [m4, g4, c3, z5]
          have hprotos : r'.protos = (List.range r.protos.length).map (reP r) := by rw [m3, g3, c2, z6]
          have hcands : r'.cands = r.cands := by rw [m2, g2, c1]
          refine ⟨?_, ?_, hcands, ?_, by rw [m1, g1]⟩
          · rw [hsubs, List.map_map]
            exact map_range_eq r.subs _ _ (fun i hi => by
              obtain ⟨_, _, _, _, _, hv, _⟩ := reS_spec t r H i hi
              exact hv)
          · rw [hprotos, List.map_map]
            exact map_range_eq r.protos _ _ (fun i hi => by
              obtain ⟨_, _, _, _, _, _, _, _, hv, _⟩ := reP_spec t r H i hi
              exact hv)
          · rw [hcands]
            apply List.map_congr_left
            intro c hc
            unfold Cand.view Cand.coreLoc
            have hcore : (childProtos r' c).map (·.core) = (childProtos r c).map (·.core) := by
              unfold childProtos
              rw [List.map_filterMap, List.map_filterMap, hprotos]
              exact filterMap_locs_congr (List.map (reP r) (List.range r.protos.length)) r.protos
                (fun x => x.core) (fun x => x.core) c.children (by simp) (fun i hi hi' => by
                  simp only [List.getElem_map, List.getElem_range]
                  obtain ⟨_, _, _, _, _, _, _, _, _, _, hcore, _⟩ := reP_spec t r H i hi
                  exact hcore)
            rw [hcore]


/-! ### the taxon -/

theorem readStepT_true (acc : Rec × List Bio) (b : Bio) : readStepT true acc b = readStep acc b := by
  unfold readStepT readStep; simp

theorem readStepT_noclean (bact : Bool) (acc : Rec × List Bio) (b : Bio) (h : prefilter b = b) :
    readStepT bact acc b = readStep acc b := by
  unfold readStepT readStep
  cases bact <;> simp [h]

theorem foldlM_readStepT (bact : Bool) : ∀ (bios : List Bio) (acc : Rec × List Bio), (∀ b ∈ bios, prefilter b = b) →
    bios.foldlM (readStepT bact) acc = bios.foldlM readStep acc
  | [], _, _ => rfl
  | b :: rest, acc, h => by
    simp only [List.foldlM_cons, readStepT_noclean bact acc b (h b (by simp))]
    cases readStep acc b with
    | error e => rfl
    | ok acc' => exact foldlM_readStepT bact rest acc' (fun x hx => h x (by simp [hx]))

/-- reading does not depend on the taxon when no `misc_feature` needs the NCBI clean-up -/
theorem readRecordT_eq (bact : Bool) (len : Int) (circ : Bool) (bios : List Bio) (h : ∀ b ∈ bios, prefilter b = b) :
    readRecordT bact len circ bios = readRecord len circ bios := by
  unfold readRecordT readRecord
  rw [foldlM_readStepT bact bios _ h]

/-! ### the clean-up of `misc_feature` locations never reorders exons -/

theorem insertBySizeDesc_mem (x : Part) : ∀ (l : List Part) (y : Part), y ∈ insertBySizeDesc x l → y = x ∨ y ∈ l
  | [], y, h => by simp [insertBySizeDesc] at h; exact Or.inl h
  | z :: zs, y, h => by
    simp only [insertBySizeDesc] at h
    split at h
    · simp only [List.mem_cons] at h ⊢
      rcases h with e | e | e
      · exact Or.inl e
      · exact Or.inr (Or.inl e)
      · exact Or.inr (Or.inr e)
    · simp only [List.mem_cons] at h ⊢
      rcases h with e | e
      · exact Or.inr (Or.inl e)
      · rcases insertBySizeDesc_mem x zs y e with e' | e'
        · exact Or.inl e'
        · exact Or.inr (Or.inr e')

theorem sortBySizeDesc_mem_aux : ∀ (l acc : List Part) (y : Part),
    y ∈ l.foldl (fun acc x => insertBySizeDesc x acc) acc → y ∈ l ∨ y ∈ acc
  | [], _, _, h => Or.inr h
  | x :: rest, acc, y, h => by
    rcases sortBySizeDesc_mem_aux rest (insertBySizeDesc x acc) y h with e | e
    · exact Or.inl (List.mem_cons_of_mem _ e)
    · rcases insertBySizeDesc_mem x acc y e with e' | e'
      · exact Or.inl (by simp [e'])
      · exact Or.inr e'

theorem sortBySizeDesc_mem (l : List Part) (y : Part) (h : y ∈ sortBySizeDesc l) : y ∈ l := by
  rcases sortBySizeDesc_mem_aux l.reverse [] y h with e | e
  · simpa using e
  · cases e

theorem kept_mem_aux : ∀ (l acc : List Part) (y : Part),
    y ∈ l.foldl (fun (acc : List Part) p => if acc.any (partContains · p) then acc else acc ++ [p]) acc → y ∈ l ∨ y ∈ acc
  | [], _, _, h => Or.inr h
  | x :: rest, acc, y, h => by
    simp only [List.foldl_cons] at h
    rcases kept_mem_aux rest _ y h with e | e
    · exact Or.inl (List.mem_cons_of_mem _ e)
    · split at e
      · exact Or.inr e
      · rcases List.mem_append.1 e with e' | e'
        · exact Or.inr e'
        · exact Or.inl (by simp at e'; simp [e'])

/-- `remove_redundant_exons` keeps the remaining exons in the order they had -/
theorem removeRedundantExons_sublist (l : Loc) : (removeRedundantExons l).parts.Sublist l.parts := by
  cases l with
  | simple p => exact List.Sublist.refl _
  | compound ps =>
    simp only [removeRedundantExons]
    split
    · rename_i p hk
      have hp : p ∈ ps := by
        have : p ∈ (sortBySizeDesc ps).foldl (fun (acc : List Part) p => if acc.any (partContains · p) then acc else acc ++ [p]) [] := by
          rw [hk]; simp
        rcases kept_mem_aux _ [] p this with e | e
        · exact sortBySizeDesc_mem ps p e
        · cases e
      simpa [Loc.parts] using hp
    · exact List.filter_sublist

/-- the clean-up `Record.from_biopython` applies to `misc_feature` locations only ever drops exons: what is left is in
    the order it was written in -/
theorem prefilter_sublist (b : Bio) : (prefilter b).loc.parts.Sublist b.loc.parts := by
  unfold prefilter
  split
  · exact removeRedundantExons_sublist b.loc
  · exact List.Sublist.refl _

end ASV.Serial
