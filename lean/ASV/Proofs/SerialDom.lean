/-
  C10: domains and motifs (`AntismashFeature` → `Domain` → `AntismashDomain` / `CDSMotif`) read back
  from their Biopython form with every attribute unchanged.
-/
import ASV.Proofs.SerialArea
import ASV.Spec.SerialQual
namespace ASV.Serial
open ASV

theorem isEmpty_toList_eq (s : String) : s.isEmpty = s.toList.isEmpty := by
  cases h : s.toList.isEmpty
  · cases h2 : s.isEmpty
    · rfl
    · rw [String.isEmpty_iff] at h2
      subst h2
      simp at h
  · rw [List.isEmpty_iff, String.toList_eq_nil_iff] at h
    subst h
    rfl

/-! ### the class's own qualifiers -/

/-- the entry `if value: mine[key] = [value]` makes -/
def optV (o : Option String) : Option (List String) :=
  match o with
  | some s => if s.isEmpty then none else some [s]
  | none => none

theorem get?_setOpt (q : Quals) (k : String) (v : Option String) (k2 : String) :
    Q.get? (setOpt q k v) k2 = if k2 = k then (match optV v with | some x => some x | none => Q.get? q k2) else Q.get? q k2 := by
  unfold setOpt optV
  cases v with
  | none => simp
  | some s =>
    simp only
    cases hs : s.isEmpty
    · simp [Q.get?_set]
    · simp

theorem get?_setSome (q : Quals) (k : String) (v : Option String) (k2 : String) :
    Q.get? (setSome q k v) k2 = if k2 = k then (match v with | some x => some [x] | none => Q.get? q k2) else Q.get? q k2 := by
  unfold setSome
  cases v with
  | none => simp
  | some s => simp only [Q.get?_set]

theorem nodup_setOpt {q : Quals} (h : Q.Nodup q) (k : String) (v : Option String) : Q.Nodup (setOpt q k v) := by
  unfold setOpt
  cases v with
  | none => exact h
  | some s =>
    simp only
    split
    · exact h
    · exact Q.nodup_set h _ _

theorem nodup_setSome {q : Quals} (h : Q.Nodup q) (k : String) (v : Option String) : Q.Nodup (setSome q k v) := by
  unfold setSome
  cases v with
  | none => exact h
  | some s => exact Q.nodup_set h _ _

theorem nodup_mineDomain (d : Dom) : Q.Nodup d.mineDomain := by
  unfold Dom.mineDomain
  have h := nodup_setOpt (Q.nodup_set (Q.nodup_set nodupNil "protein_start" [strOfInt d.pStart]) "protein_end" [strOfInt d.pEnd])
    "aSDomain" d.domain
  simp only
  split
  · exact h
  · exact Q.nodup_set h _ _

theorem nodup_mine (d : Dom) : Q.Nodup d.mine := by
  unfold Dom.mine
  apply Q.nodup_update
  apply nodup_setOpt
  have h := nodup_setOpt (nodup_setOpt (nodup_setOpt (nodup_setOpt (nodup_setSome (nodup_setSome (nodup_setOpt nodupNil "label" d.label)
    "score" d.score) "evalue" d.evalue) "locus_tag" (some d.locusTag)) "translation" (some d.translation)) "database" d.database)
    "detection" d.detection
  split
  · exact nodup_setOpt h _ _
  · exact h

def asfQ (l : List String) : Option (List String) := if l.isEmpty then none else some l

theorem get?_mineDomain (d : Dom) (k : String) :
    Q.get? d.mineDomain k =
      if k = "ASF" then asfQ d.asf
      else if k = "aSDomain" then optV d.domain
      else if k = "protein_end" then some [strOfInt d.pEnd]
      else if k = "protein_start" then some [strOfInt d.pStart]
      else none := by
  unfold Dom.mineDomain asfQ
  simp only
  by_cases a1 : k = "ASF"
  · subst a1
    cases d.asf.isEmpty <;> cases hq : optV d.domain <;> simp [Q.get?_set, get?_setOpt, Q.get?, hq]
  · by_cases a2 : k = "aSDomain"
    · subst a2
      cases d.asf.isEmpty <;> cases hq : optV d.domain <;> simp [Q.get?_set, get?_setOpt, Q.get?, hq]
    · by_cases a3 : k = "protein_end" <;> by_cases a4 : k = "protein_start" <;>
        cases d.asf.isEmpty <;> simp_all [Q.get?_set, get?_setOpt, Q.get?]

theorem get?_mine (d : Dom) (hb : d.feat.byAS = true) (k : String) :
    Q.get? d.mine k =
      if k = "ASF" then asfQ d.asf
      else if k = "aSDomain" then optV d.domain
      else if k = "protein_end" then some [strOfInt d.pEnd]
      else if k = "protein_start" then some [strOfInt d.pStart]
      else if k = "aSTool" then optV (some d.tool)
      else if k = "domain_id" then optV d.domainId
      else if k = "detection" then optV d.detection
      else if k = "database" then optV d.database
      else if k = "translation" then optV (some d.translation)
      else if k = "locus_tag" then optV (some d.locusTag)
      else if k = "evalue" then d.evalue.map ([·])
      else if k = "score" then d.score.map ([·])
      else if k = "label" then optV d.label
      else none := by
  unfold Dom.mine
  rw [Q.get?_update _ _ (nodup_mineDomain d), get?_mineDomain]
  simp only [hb, if_true, get?_setOpt, get?_setSome, Q.get?]
  by_cases a1 : k = "ASF"
  · subst a1; cases asfQ d.asf <;> simp
  by_cases a2 : k = "aSDomain"
  · subst a2; cases optV d.domain <;> simp
  by_cases a3 : k = "protein_end"
  · subst a3; simp
  by_cases a4 : k = "protein_start"
  · subst a4; simp
  simp only [a1, a2, a3, a4, if_false]
  by_cases a5 : k = "aSTool"
  · subst a5; cases optV (some d.tool) <;> simp
  by_cases a6 : k = "domain_id"
  · subst a6; cases optV d.domainId <;> simp
  by_cases a7 : k = "detection"
  · subst a7; cases optV d.detection <;> simp
  by_cases a8 : k = "database"
  · subst a8; cases optV d.database <;> simp
  by_cases a9 : k = "translation"
  · subst a9; cases optV (some d.translation) <;> simp
  by_cases a10 : k = "locus_tag"
  · subst a10; cases optV (some d.locusTag) <;> simp
  by_cases a11 : k = "evalue"
  · subst a11; cases d.evalue <;> simp
  by_cases a12 : k = "score"
  · subst a12; cases d.score <;> simp
  by_cases a13 : k = "label"
  · subst a13; cases optV d.label <;> simp
  simp [a5, a6, a7, a8, a9, a10, a11, a12, a13]

/-! ### reading -/

theorem firstOr_erase (q : Quals) (a k : String) (h : k ≠ a) : firstOr (Q.erase q a) k = firstOr q k := by
  unfold firstOr; rw [Q.get?_erase_other q a k h]

theorem popNumber_erase (q : Quals) (a k : String) (h : k ≠ a) : popNumber (Q.erase q a) k = popNumber q k := by
  unfold popNumber; rw [Q.get?_erase_other q a k h]

theorem protLoc_erase (q : Quals) (a : String) (h1 : "protein_start" ≠ a) (h2 : "protein_end" ≠ a) (h3 : "translation" ≠ a) :
    protLoc (Q.erase q a) = protLoc q := by
  unfold protLoc
  rw [firstOr_erase q a _ h1, firstOr_erase q a _ h2, Q.get?_erase_other q a _ h3]

theorem firstOr_of {q : Quals} {k : String} {o : Option String} (h : Q.get? q k = optV o) : firstOr q k = .ok (o.getD "") := by
  unfold firstOr
  rw [h]
  unfold optV
  cases o with
  | none => rfl
  | some s =>
    simp only
    cases hs : s.isEmpty
    · rfl
    · rw [String.isEmpty_iff] at hs
      subst hs
      rfl

theorem orNone_getD {o : Option String} (h : o ≠ some "") : orNone (o.getD "") = o := by
  unfold orNone
  cases o with
  | none => rfl
  | some s =>
    simp only [Option.getD_some]
    cases hs : s.isEmpty
    · rfl
    · rw [String.isEmpty_iff] at hs
      subst hs
      exact absurd rfl h

theorem popNumber_of {q : Quals} {k : String} {o : Option String} (h : Q.get? q k = o.map ([·])) : popNumber q k = .ok o := by
  unfold popNumber
  rw [h]
  cases o <;> rfl

theorem strOfInt_isEmpty (i : Int) : (strOfInt i).isEmpty = false := by
  rw [isEmpty_toList_eq]
  unfold strOfInt
  rw [String.toList_ofList]
  cases h : intChars i with
  | nil => exact absurd h (intChars_ne_nil i)
  | cons _ _ => rfl

theorem protLoc_of {q : Quals} {s e : Int} (h1 : Q.get? q "protein_start" = some [strOfInt s])
    (h2 : Q.get? q "protein_end" = some [strOfInt e]) (hle : s ≤ e) : protLoc q = .ok (s, e) := by
  unfold protLoc firstOr
  simp only [h1, h2, bind, Except.bind, pure, Except.pure, strOfInt_isEmpty, Bool.false_eq_true, if_false, intOfStr_strOfInt]
  have : ¬ e < s := by omega
  simp [this]

/-! ### the base-class part, for any class that writes qualifiers of its own and pops them on reading -/

theorem class_leftovers_roundtrip (t : Bool) (f : Feat) (X : Quals) (K : List String) (L : Quals)
    (hf : f.WF) (hby : f.byAS = true) (hcod : f.codon = none) (hX : Q.Nodup X)
    (hKX : ∀ k, k ∉ K → Q.get? X k = none)
    (hK : "note" ∉ K ∧ "tool" ∉ K ∧ "codon_start" ∉ K)
    (hres : ∀ k ∈ K, Q.get? f.quals k = none)
    (hLn : Q.Nodup L)
    (hL : ∀ k, Q.get? L k = if k ∈ K then none else Q.get? (Q.sortKeys (finalQuals f X)) k) :
    ∃ f', applyLeftovers ⟨f.loc, f.type, [], [], true, none⟩ L = .ok f' ∧ f'.view t = f.view t ∧ f'.loc = f.loc ∧ f'.WF ∧
      f'.byAS = true ∧ f'.codon = none ∧ f'.type = f.type ∧ (∀ k ∈ K, Q.get? f'.quals k = none) ∧
      (∀ k, k ≠ "codon_start" → k ≠ "note" → k ≠ "tool" → Q.get? f'.quals k = Q.get? f.quals k) ∧
      sortStrs (allNotes f' []) = sortStrs (allNotes f []) := by
  have hFQ := nodup_finalQuals f X hf.quals
  have look : ∀ k, Q.get? (Q.sortKeys (finalQuals f X)) k = Q.get? (finalQuals f X) k := fun k => Q.get?_sortKeys hFQ k
  have hnoteX : Q.get? X "note" = none := hKX _ hK.1
  have hcodL : Q.get? L "codon_start" = none := by
    rw [hL, look, get?_FQ_rest f X hX _ hcod (by decide) (by decide) (hKX _ hK.2.2)]
    simp [hK.2.2, hf.noCodonKey]
  have htoolL : Q.get? L "tool" = some ["antismash"] := by
    rw [hL, look, get?_FQ_toolX f X hX hby hcod]
    simp [hK.2.1]
  have hnoteL : Q.get? L "note" = Q.get? (finalQuals f X) "note" := by
    rw [hL, look]; simp [hK.1]
  rw [applyLeftovers_plain _ L rfl hLn hcodL]
  have hbyAS : (!L.isEmpty && (Q.get? L "tool" == some ["antismash"])) = true := by
    simp [htoolL, Q.isEmpty_of_get? htoolL]
  have hwf' : ({ (⟨f.loc, f.type, [], [], true, none⟩ : Feat) with
      byAS := !L.isEmpty && (Q.get? L "tool" == some ["antismash"]), quals := L } : Feat).WF := by
    refine ⟨hLn, hcodL, ?_, fun _ => hbyAS, hf.parts, fun c l' hc _ => by cases hc⟩
    show Q.get? L "note" ≠ some []
    rw [hnoteL]
    have := get?_FQ_noteX f X hX hby hcod hnoteX hf
    intro e
    rw [e] at this
    have hemp : (sortStrs (allNotes f [])).isEmpty = true := by rw [← this]; rfl
    rw [sortStrs_isEmpty] at hemp
    have hax : allNotes f X = allNotes f [] := by simp [allNotes, hnoteX, Q.get?]
    rw [get?_finalQuals f X hX, hax] at e
    simp only [hcod, hemp, hnoteX] at e
    simp at e
    exact hf.noEmptyNote e
  have hnotes : sortStrs (allNotes ({ (⟨f.loc, f.type, [], [], true, none⟩ : Feat) with
      byAS := !L.isEmpty && (Q.get? L "tool" == some ["antismash"]), quals := L } : Feat) []) = sortStrs (allNotes f []) := by
    rw [allNotes_nil]
    show sortStrs ((Q.get? L "note").getD [] ++ []) = _
    rw [hnoteL, List.append_nil, get?_FQ_noteX f X hX hby hcod hnoteX hf, sortStrs_idem]
  have hq : ∀ k, k ≠ "codon_start" → k ≠ "note" → k ≠ "tool" → Q.get? L k = Q.get? f.quals k := by
    intro k h1 h3 h2
    rw [hL]
    by_cases hk : k ∈ K
    · simp only [hk, if_true]; exact (hres k hk).symm
    · simp only [hk, if_false]
      rw [look, get?_FQ_rest f X hX k hcod h2 h3 (hKX k hk)]
  refine ⟨_, rfl, ?_, rfl, hwf', hbyAS, rfl, rfl, ?_, hq, hnotes⟩
  · exact view_congr t f _ hf hwf' rfl rfl (by rw [hby]; exact hbyAS) (by rw [hcod]) hnotes hq
  · intro k hk
    show Q.get? L k = none
    rw [hL]; simp [hk]

/-! ### the round trip -/

def domKeys : List String :=
  ["aSTool", "locus_tag", "protein_start", "protein_end", "aSDomain", "ASF", "domain_id", "database", "detection", "label",
   "translation", "evalue", "score"]

/-- a domain / motif object as the constructors and setters leave it, made by antiSMASH, whose free
    qualifiers use none of the keys the classes write themselves -/
structure Dom.WF (kind : DomKind) (d : Dom) : Prop where
  feat : d.feat.WF
  byAS : d.feat.byAS = true
  codon : d.feat.codon = none
  type : d.feat.type = kind.type
  reserved : ∀ k ∈ domKeys, Q.get? d.feat.quals k = none
  tool : d.tool ≠ ""
  tag : d.locusTag ≠ "" ∧ noSpaces d.locusTag = d.locusTag
  prot : d.pStart ≤ d.pEnd
  domain : d.domain ≠ some ""
  asf : canonSet d.asf = d.asf
  domainId : d.domainId ≠ some "" ∧ d.domainId.map noSpaces = d.domainId ∧ (kind = .asDomain → d.domainId ≠ none)
  database : d.database ≠ some ""
  detection : d.detection ≠ some ""
  label : d.label ≠ some "" ∧ d.label.map noSpaces = d.label
  translation : '*' ∉ d.translation.toList

def domLeft (q : Quals) : Quals :=
  Q.erase (Q.erase (Q.erase (Q.erase (Q.erase (Q.erase (Q.erase (Q.erase (Q.erase (Q.erase (Q.erase (Q.erase (Q.erase q
    "aSTool") "locus_tag") "protein_start") "protein_end") "aSDomain") "ASF") "domain_id") "database") "detection") "label")
    "translation") "evalue") "score"

theorem optV_some_ne {s : String} (h : s ≠ "") : optV (some s) = some [s] := by
  have hs : s.isEmpty = false := by
    cases hs : s.isEmpty
    · rfl
    · exact absurd (String.isEmpty_iff.1 hs) h
  simp [optV, hs]

theorem isEmpty_false_of_ne {s : String} (h : s ≠ "") : s.isEmpty = false := by
  cases hs : s.isEmpty
  · rfl
  · exact absurd (String.isEmpty_iff.1 hs) h

/-- reading a feature whose lookups are those of a written domain -/
theorem domFromBio_spec (kind : DomKind) (d : Dom) (h : d.WF kind) (loc : Loc) (W : Quals)
    (hlook : ∀ k ∈ domKeys, Q.get? W k = Q.get? d.mine k) :
    Dom.fromBio kind ⟨loc, kind.type, W⟩ =
      (applyLeftovers ⟨loc, kind.type, [], [], true, none⟩ (domLeft W)).map fun feat => { d with feat := feat } := by
  have lk : ∀ k, k ∈ domKeys → Q.get? W k = _ := fun k hk => (hlook k hk).trans (get?_mine d h.byAS k)
  have l1 : Q.get? W "aSTool" = some [d.tool] := by rw [lk _ (by simp [domKeys])]; simp [optV_some_ne h.tool]
  have l2 : Q.get? W "locus_tag" = optV (some d.locusTag) := by rw [lk _ (by simp [domKeys])]; simp
  have l3 : Q.get? W "protein_start" = some [strOfInt d.pStart] := by rw [lk _ (by simp [domKeys])]; simp
  have l4 : Q.get? W "protein_end" = some [strOfInt d.pEnd] := by rw [lk _ (by simp [domKeys])]; simp
  have l5 : Q.get? W "aSDomain" = optV d.domain := by rw [lk _ (by simp [domKeys])]; simp
  have l6 : Q.get? W "ASF" = asfQ d.asf := by rw [lk _ (by simp [domKeys])]; simp
  have l7 : Q.get? W "domain_id" = optV d.domainId := by rw [lk _ (by simp [domKeys])]; simp
  have l8 : Q.get? W "database" = optV d.database := by rw [lk _ (by simp [domKeys])]; simp
  have l9 : Q.get? W "detection" = optV d.detection := by rw [lk _ (by simp [domKeys])]; simp
  have l10 : Q.get? W "label" = optV d.label := by rw [lk _ (by simp [domKeys])]; simp
  have l11 : Q.get? W "translation" = optV (some d.translation) := by rw [lk _ (by simp [domKeys])]; simp
  have l12 : Q.get? W "evalue" = d.evalue.map ([·]) := by rw [lk _ (by simp [domKeys])]; simp
  have l13 : Q.get? W "score" = d.score.map ([·]) := by rw [lk _ (by simp [domKeys])]; simp
  have l1' : Q.get? W "aSTool" = optV (some d.tool) := by rw [l1, optV_some_ne h.tool]
  have hasf : canonSet ((asfQ d.asf).getD []) = d.asf := by
    unfold asfQ
    cases he : d.asf.isEmpty
    · simpa using h.asf
    · rw [List.isEmpty_iff] at he
      rw [he]
      rfl
  have hstar : d.translation.toList.contains '*' = false := by
    simpa using h.translation
  have hdid : (orNone (d.domainId.getD "")).map noSpaces = d.domainId := by rw [orNone_getD h.domainId.1]; exact h.domainId.2.1
  have hassert : (kind == .asDomain && (d.domainId.getD "").isEmpty) = false := by
    cases kind
    · have := h.domainId.2.2 rfl
      cases hd : d.domainId with
      | none => exact absurd hd this
      | some s =>
        have : s ≠ "" := fun e => h.domainId.1 (by rw [hd, e])
        simp [isEmpty_false_of_ne this]
    · rfl
    · rfl
  unfold Dom.fromBio
  cases kind
  all_goals simp only [l1, firstOr_of l1', Option.getD_some, isEmpty_false_of_ne h.tool, Bool.false_eq_true, if_false, bind,
    Except.bind, pure, Except.pure]
  all_goals simp (disch := decide) only [firstOr_erase, popNumber_erase, protLoc_erase, Q.get?_erase_other]
  all_goals rw [protLoc_of l3 l4 h.prot, firstOr_of l2, firstOr_of l5, firstOr_of l7, firstOr_of l8, firstOr_of l9, firstOr_of l10,
    firstOr_of l11, popNumber_of l12, popNumber_of l13, l6]
  all_goals simp only [Option.getD_some, isEmpty_false_of_ne h.tag.1, isEmpty_false_of_ne h.tool, Bool.false_eq_true, if_false, h.tag.2,
    Bool.or_self, hstar, hasf, hdid, hassert, orNone_getD h.domain, orNone_getD h.database, orNone_getD h.detection,
    orNone_getD h.label.1, h.label.2]
  all_goals unfold domLeft
  all_goals (cases applyLeftovers _ _ <;> rfl)

theorem get?_domLeft (q : Quals) (k : String) : Q.get? (domLeft q) k = if k ∈ domKeys then none else Q.get? q k := by
  unfold domLeft
  simp only [Q.get?_erase]
  by_cases hk : k ∈ domKeys
  · simp only [hk, if_true]
    simp only [domKeys, List.mem_cons, List.mem_nil_iff, or_false] at hk
    rcases hk with e | e | e | e | e | e | e | e | e | e | e | e | e <;> subst e <;> simp
  · simp only [hk, if_false]
    simp only [domKeys, List.mem_cons, List.mem_nil_iff, or_false, not_or] at hk
    simp [hk]

theorem nodup_domLeft {q : Quals} (h : Q.Nodup q) : Q.Nodup (domLeft q) := by
  unfold domLeft
  repeat apply Q.nodup_erase
  exact h

theorem get?_mine_other (d : Dom) (hb : d.feat.byAS = true) (k : String) (hk : k ∉ domKeys) : Q.get? d.mine k = none := by
  rw [get?_mine d hb]
  simp only [domKeys, List.mem_cons, List.mem_nil_iff, or_false, not_or] at hk
  simp [hk]

/-- a written domain / motif is read back with every attribute unchanged, the same base-feature view, and
    as an object the theorem applies to again -/
theorem dom_roundtrip (t : Bool) (kind : DomKind) (d : Dom) (h : d.WF kind) (b : Bio) (hb : d.toBio = .ok b) :
    ∃ d', Dom.fromBio kind b = .ok d' ∧ d' = { d with feat := d'.feat } ∧ d'.feat.view t = d.feat.view t ∧
      d'.feat.loc = d.feat.loc ∧ d'.WF kind ∧ d'.toBio = .ok b := by
  have hX := nodup_mine d
  have hFQ := nodup_finalQuals d.feat d.mine h.feat.quals
  unfold Dom.toBio at hb
  rw [toBio_eq, h.codon] at hb
  simp only [Except.ok.injEq] at hb
  subst hb
  have look : ∀ k, Q.get? (Q.sortKeys (finalQuals d.feat d.mine)) k = Q.get? (finalQuals d.feat d.mine) k :=
    fun k => Q.get?_sortKeys hFQ k
  have hlook : ∀ k ∈ domKeys, Q.get? (Q.sortKeys (finalQuals d.feat d.mine)) k = Q.get? d.mine k := by
    intro k hk
    have h2 : k ≠ "tool" := by intro e; subst e; simp [domKeys] at hk
    have h3 : k ≠ "note" := by intro e; subst e; simp [domKeys] at hk
    rw [look]
    cases hm : Q.get? d.mine k with
    | none => rw [get?_FQ_rest d.feat _ hX k h.codon h2 h3 hm]; exact h.reserved k hk
    | some v => exact get?_FQ_extra d.feat _ hX k v h.codon h2 h3 hm
  rw [h.type, domFromBio_spec kind d h _ _ hlook]
  obtain ⟨f', e1, e2, e3, e4, e5, e6, e7, e8, e9, e10⟩ := class_leftovers_roundtrip t d.feat d.mine domKeys
    (domLeft (Q.sortKeys (finalQuals d.feat d.mine))) h.feat h.byAS h.codon hX (get?_mine_other d h.byAS)
    (by simp [domKeys]) h.reserved (nodup_domLeft (Q.nodup_sortKeys hFQ)) (get?_domLeft _)
  rw [h.type] at e1
  rw [e1]
  refine ⟨{ d with feat := f' }, rfl, rfl, e2, e3, ?_, ?_⟩
  · exact ⟨e4, e5, e6, by rw [e7, h.type], e8, h.tool, h.tag, h.prot, h.domain, h.asf, h.domainId, h.database, h.detection,
      h.label, h.translation⟩
  · -- the second write: same location and type, and the same dictionary because every lookup agrees
    have hmine : ({ d with feat := f' } : Dom).mine = d.mine := by
      unfold Dom.mine Dom.mineDomain
      simp only [e5, h.byAS]
    unfold Dom.toBio
    rw [hmine, toBio_eq, e6]
    simp only [e3, e7, h.type, Except.ok.injEq, Bio.mk.injEq, true_and]
    apply Q.sortKeys_congr (nodup_finalQuals f' d.mine e4.quals) hFQ
    intro k
    have hax : ∀ g : Feat, allNotes g d.mine = allNotes g [] := by
      intro g; simp [allNotes, get?_mine_other d h.byAS "note" (by simp [domKeys]), Q.get?]
    have hemp : (allNotes f' []).isEmpty = (allNotes d.feat []).isEmpty := by
      rw [← sortStrs_isEmpty, e10, sortStrs_isEmpty]
    rw [get?_finalQuals f' _ hX, get?_finalQuals d.feat _ hX, hax, hax, e10, hemp, e5, e6, h.byAS, h.codon]
    by_cases h1 : k = "codon_start"
    · subst h1
      simp [get?_mine_other d h.byAS "codon_start" (by simp [domKeys]), e4.noCodonKey, h.feat.noCodonKey]
    · by_cases h2 : k = "tool"
      · subst h2; simp
      · by_cases h3 : k = "note"
        · subst h3
          cases hn : (allNotes d.feat []).isEmpty
          · simp
          · -- no notes at all on either side
            have n1 : allNotes d.feat [] = [] := List.isEmpty_iff.1 hn
            have n2 : allNotes f' [] = [] := List.isEmpty_iff.1 (hemp.trans hn)
            rw [allNotes_nil] at n1 n2
            have s1 : Q.get? d.feat.quals "note" = none := by
              cases hq : Q.get? d.feat.quals "note" with
              | none => rfl
              | some v =>
                rw [hq] at n1
                have : v = [] := (List.append_eq_nil_iff.1 n1).1
                exact absurd (this ▸ hq) h.feat.noEmptyNote
            have s2 : Q.get? f'.quals "note" = none := by
              cases hq : Q.get? f'.quals "note" with
              | none => rfl
              | some v =>
                rw [hq] at n2
                have : v = [] := (List.append_eq_nil_iff.1 n2).1
                exact absurd (this ▸ hq) e4.noEmptyNote
            simp [s1, s2]
        · simp only [h1, h2, h3, false_and, if_false]
          rw [e9 k h1 h3 h2]

/-- the Boolean form evaluated by the driver implies the hypotheses of the theorem -/
theorem Dom.WF_of_b (kind : DomKind) (d : Dom) (h : domWFb kind d = true) : d.WF kind := by
  unfold domWFb featWFb nodupKeys at h
  simp only [Bool.and_eq_true, decide_eq_true_eq, Option.isNone_iff_eq_none, bne_iff_ne, ne_eq, beq_iff_eq,
    Bool.or_eq_true, List.all_eq_true, Bool.not_eq_true', Option.isSome_iff_ne_none] at h
  obtain ⟨⟨⟨⟨⟨⟨⟨⟨⟨⟨⟨⟨⟨⟨⟨⟨⟨⟨⟨⟨⟨⟨f1, f2⟩, f3⟩, f4⟩, f5⟩, hby⟩, hcod⟩, hty⟩, hres⟩, htool⟩, htag1⟩, htag2⟩, hprot⟩, hdom⟩, hasf⟩, hid1⟩, hid2⟩,
    hid3⟩, hdb⟩, hdet⟩, hlab1⟩, hlab2⟩, htr⟩ := h
  refine ⟨⟨f1, f2, f3, ?_, fun p hp => f5 p hp, fun c l' hc _ => by rw [hcod] at hc; cases hc⟩, hby, hcod, hty,
    ?_, htool, ⟨htag1, htag2⟩, hprot, hdom, hasf, ⟨hid1, hid2, ?_⟩, hdb, hdet, ⟨hlab1, hlab2⟩, ?_⟩
  · intro ht
    rcases f4 with f4 | f4
    · exact absurd ht f4
    · exact f4
  · intro k hk
    exact hres k hk
  · intro hk
    rcases hid3 with e | e
    · exact absurd hk e
    · exact e
  · simpa using htr

end ASV.Serial
