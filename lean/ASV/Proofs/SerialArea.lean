/-
  C10 helper lemmas: round trips of the area classes (protocluster, subregion and their sideloaded
  variants) through their Biopython form.
-/
import ASV.Proofs.SerialFeat
namespace ASV.Serial
open ASV

theorem popReq_of_get? {q : Quals} {k m v : String} {rest : List String} (h : Q.get? q k = some (v :: rest)) :
    popReq q k m = .ok (v, Q.erase q k) := by
  simp [popReq, h, pure, Except.pure]

theorem popInt_of_get? {q : Quals} {k m : String} {i : Int} {rest : List String}
    (h : Q.get? q k = some (strOfInt i :: rest)) : popInt q k m = .ok (i, Q.erase q k) := by
  simp [popInt, popReq_of_get? h, intOfStr_strOfInt, bind, Except.bind, pure, Except.pure]

theorem parseLoc_locToString (l : Loc) (h : l.parts ≠ []) : parseLoc (locToString l) = .ok l := by
  simp [parseLoc, locFromString_locToString l h, pure, Except.pure]

theorem Q.first_of_get? {q : Quals} {k d v : String} {rest : List String} (h : Q.get? q k = some (v :: rest)) :
    Q.first q k d = v := by
  simp [Q.first, h]

theorem Q.first_of_none {q : Quals} {k d : String} (h : Q.get? q k = none) : Q.first q k d = d := by
  simp [Q.first, h]

/-- lookups in a written collection feature: a key the class supplies itself (`extra`) wins -/
theorem get?_FQ_extra (f : Feat) (X : Quals) (hX : Q.Nodup X) (k : String) (v : List String)
    (hc : f.codon = none) (h2 : k ≠ "tool") (h3 : k ≠ "note") (hk : Q.get? X k = some v) :
    Q.get? (finalQuals f X) k = some v := by
  rw [get?_finalQuals f X hX]
  simp [hc, h2, h3, hk]

theorem get?_FQ_rest (f : Feat) (X : Quals) (hX : Q.Nodup X) (k : String)
    (hc : f.codon = none) (h2 : k ≠ "tool") (h3 : k ≠ "note") (hk : Q.get? X k = none) :
    Q.get? (finalQuals f X) k = Q.get? f.quals k := by
  rw [get?_finalQuals f X hX]
  simp [hc, h2, h3, hk]

theorem get?_FQ_toolX (f : Feat) (X : Quals) (hX : Q.Nodup X) (hb : f.byAS = true) (hc : f.codon = none) :
    Q.get? (finalQuals f X) "tool" = some ["antismash"] := by
  rw [get?_finalQuals f X hX]
  simp [hb, hc]

theorem get?_FQ_noteX (f : Feat) (X : Quals) (hX : Q.Nodup X) (hb : f.byAS = true) (hc : f.codon = none)
    (hn : Q.get? X "note" = none) (h : f.WF) :
    (Q.get? (finalQuals f X) "note").getD [] = sortStrs (allNotes f []) := by
  have ha : allNotes f X = allNotes f [] := by simp [allNotes, hn, Q.get?]
  rw [get?_finalQuals f X hX, ha]
  cases he : (allNotes f []).isEmpty
  · simp [hc]
  · have hnil : allNotes f [] = [] := List.isEmpty_iff.1 he
    have hs : (Q.get? f.quals "note").getD [] = [] := by
      rw [allNotes_nil] at hnil; exact (List.append_eq_nil_iff.1 hnil).1
    simp [hc, hnil, sortStrs, hs]

end ASV.Serial

namespace ASV.Serial
open ASV

/-! ### subregions -/

def subReserved (k : String) : Prop :=
  k = "aStool" ∨ k = "label" ∨ k = "anchor" ∨ k = "subregion_number" ∨ k = "contig_edge"

instance (k : String) : Decidable (subReserved k) := by unfold subReserved; infer_instance

/-- what `SubRegion.from_biopython`'s common part leaves, given the lookups of the feature read -/
theorem subTail_spec (b : Bio) (side : Option Quals) (tool lab : String) (hn : Q.Nodup b.quals)
    (htool : Q.get? b.quals "aStool" = some [tool])
    (hlab : if lab = "" then Q.get? b.quals "label" = none else Q.get? b.quals "label" = some [lab])
    (hanchor : Q.get? b.quals "anchor" = none)
    (hcodon : Q.get? b.quals "codon_start" = none)
    (has : Q.get? b.quals "tool" = some ["antismash"]) :
    ∃ s', subTail b b.quals side = .ok s' ∧ s'.tool = tool ∧ s'.label = lab ∧ s'.side = side ∧
      s'.feat.loc = b.loc ∧ s'.feat.type = "subregion" ∧ s'.feat.notes = [] ∧ s'.feat.byAS = true ∧
      s'.feat.codon = none ∧ Q.Nodup s'.feat.quals ∧
      ∀ k, Q.get? s'.feat.quals k = if subReserved k then none else Q.get? b.quals k := by
  unfold subTail
  rw [popReq_of_get? htool]
  simp only [bind, Except.bind]
  by_cases hl : lab = ""
  · subst hl
    simp only [if_true] at hlab
    have h1 : Q.get? (Q.erase b.quals "aStool") "label" = none := by rw [Q.get?_erase]; simp [hlab]
    have h2 : Q.get? (Q.erase (Q.erase b.quals "aStool") "label") "anchor" = none := by
      rw [Q.get?_erase, Q.get?_erase]; simp [hanchor]
    simp only [Q.first_of_none h1, String.isEmpty, Q.first_of_none h2]
    have hL : Q.Nodup (Q.erase (Q.erase (Q.erase (Q.erase (Q.erase b.quals "aStool") "label") "anchor") "subregion_number") "contig_edge") :=
      Q.nodup_erase (Q.nodup_erase (Q.nodup_erase (Q.nodup_erase (Q.nodup_erase hn _) _) _) _) _
    have hcod : Q.get? (Q.erase (Q.erase (Q.erase (Q.erase (Q.erase b.quals "aStool") "label") "anchor") "subregion_number") "contig_edge") "codon_start" = none := by
      simp [Q.get?_erase, hcodon]
    have htl : Q.get? (Q.erase (Q.erase (Q.erase (Q.erase (Q.erase b.quals "aStool") "label") "anchor") "subregion_number") "contig_edge") "tool" = some ["antismash"] := by
      simp [Q.get?_erase, has]
    have hap := applyLeftovers_plain (⟨b.loc, "subregion", [], [], true, none⟩ : Feat) _ rfl hL hcod
    simp only [show ("" : String).utf8ByteSize = 0 from rfl, beq_self_eq_true, if_true, collTail, hap, pure, Except.pure]
    refine ⟨_, rfl, rfl, rfl, rfl, rfl, rfl, rfl, by simp [htl, Q.isEmpty_of_get? htl], rfl, hL, ?_⟩
    intro k
    simp only [Q.get?_erase, subReserved]
    by_cases a1 : k = "aStool" <;> by_cases a2 : k = "label" <;> by_cases a3 : k = "anchor" <;>
      by_cases a4 : k = "subregion_number" <;> by_cases a5 : k = "contig_edge" <;> simp [a1, a2, a3, a4, a5]
  · simp only [hl, if_false] at hlab
    have h1 : Q.get? (Q.erase b.quals "aStool") "label" = some [lab] := by rw [Q.get?_erase]; simp [hlab]
    have hne : lab.isEmpty = false := by
      cases he : lab.isEmpty
      · rfl
      · exact absurd (String.isEmpty_iff.1 he) hl
    simp only [Q.first_of_get? h1, hne, Bool.false_eq_true, if_false]
    have hL : Q.Nodup (Q.erase (Q.erase (Q.erase (Q.erase b.quals "aStool") "label") "subregion_number") "contig_edge") :=
      Q.nodup_erase (Q.nodup_erase (Q.nodup_erase (Q.nodup_erase hn _) _) _) _
    have hcod : Q.get? (Q.erase (Q.erase (Q.erase (Q.erase b.quals "aStool") "label") "subregion_number") "contig_edge") "codon_start" = none := by
      simp [Q.get?_erase, hcodon]
    have htl : Q.get? (Q.erase (Q.erase (Q.erase (Q.erase b.quals "aStool") "label") "subregion_number") "contig_edge") "tool" = some ["antismash"] := by
      simp [Q.get?_erase, has]
    have hap := applyLeftovers_plain (⟨b.loc, "subregion", [], [], true, none⟩ : Feat) _ rfl hL hcod
    simp only [collTail, hap, pure, Except.pure]
    refine ⟨_, rfl, rfl, rfl, rfl, rfl, rfl, rfl, by simp [htl, Q.isEmpty_of_get? htl], rfl, hL, ?_⟩
    intro k
    simp only [Q.get?_erase, subReserved]
    by_cases a1 : k = "aStool" <;> by_cases a2 : k = "label" <;> by_cases a3 : k = "anchor" <;>
      by_cases a4 : k = "subregion_number" <;> by_cases a5 : k = "contig_edge" <;> simp [a1, a2, a3, a4, a5, hanchor]

end ASV.Serial

namespace ASV.Serial
open ASV

def subX (s : Sub) (num : Option Nat) (ce : Bool) : Quals :=
  let q : Quals := match num with | some n => [("subregion_number", [strOfInt n])] | none => []
  let q := Q.set q "aStool" [s.tool]
  let q := if s.label.isEmpty then q else Q.set q "label" [s.label]
  match num.map fun _ => ce with
  | some b => Q.set q "contig_edge" [boolStr b]
  | none => q

theorem Sub.toBio_eq (s : Sub) (num : Option Nat) (ce : Bool) :
    s.toBio num ce = (s.feat.toBio (subX s num ce)).map fun b => [sideload s.tool s.side b] := by
  unfold Sub.toBio collToBio subX
  simp only [bind, Except.bind, pure, Except.pure, Except.map]
  cases s.feat.toBio _ <;> rfl

theorem nodup_subX (s : Sub) (num : Option Nat) (ce : Bool) : Q.Nodup (subX s num ce) := by
  unfold subX
  cases num with
  | none =>
    have h0 : Q.Nodup ([] : Quals) := nodupNil
    have h1 := Q.nodup_set h0 "aStool" [s.tool]
    simp only [Option.map_none]
    split
    · exact h1
    · exact Q.nodup_set h1 _ _
  | some n =>
    have h0 : Q.Nodup ([("subregion_number", [strOfInt n])] : Quals) := by simp [Q.Nodup, Q.keys]
    have h1 := Q.nodup_set h0 "aStool" [s.tool]
    simp only [Option.map_some]
    apply Q.nodup_set
    split
    · exact h1
    · exact Q.nodup_set h1 _ _

theorem get?_subX (s : Sub) (num : Option Nat) (ce : Bool) (k : String) :
    Q.get? (subX s num ce) k =
      if k = "contig_edge" then num.map (fun _ => [boolStr ce])
      else if k = "label" then (if s.label.isEmpty then none else some [s.label])
      else if k = "aStool" then some [s.tool]
      else if k = "subregion_number" then num.map (fun (n : Nat) => [strOfInt n])
      else none := by
  unfold subX
  cases num <;> cases hl : s.label.isEmpty <;>
    by_cases a1 : k = "contig_edge" <;> by_cases a2 : k = "label" <;> by_cases a3 : k = "aStool" <;>
    by_cases a4 : k = "subregion_number" <;> simp_all [Q.get?_set, Q.get?] <;>
    (intro e; exact a4 e.symm)

/-- well-formed subregion: made by antiSMASH, no codon start, and its free qualifiers use none of the
    keys the class itself writes -/
structure Sub.WF (s : Sub) : Prop where
  feat : s.feat.WF
  byAS : s.feat.byAS = true
  codon : s.feat.codon = none
  type : s.feat.type = "subregion"
  reserved : ∀ k, subReserved k → Q.get? s.feat.quals k = none
  plainTool : isExternal s.tool = false

theorem isEmpty_eq_false_of_ne {s : String} (h : s ≠ "") : s.isEmpty = false := by
  cases he : s.isEmpty
  · rfl
  · exact absurd (String.isEmpty_iff.1 he) h

theorem sub_roundtrip (t : Bool) (s : Sub) (h : s.WF) (hside : s.side = none) (num : Option Nat) (ce : Bool)
    (bs : List Bio) (hb : s.toBio num ce = .ok bs) :
    ∃ b, bs = [b] ∧ b.type = "subregion" ∧ b.loc = s.feat.loc ∧
      ∃ s', Sub.fromBio b = .ok s' ∧ s'.view t = s.view t ∧ s'.feat.loc = s.feat.loc ∧ s'.WF ∧ s'.side = none := by
  have hX := nodup_subX s num ce
  have hFQ := nodup_finalQuals s.feat (subX s num ce) h.feat.quals
  rw [Sub.toBio_eq, toBio_eq, h.codon] at hb
  simp only [Except.map, hside, sideload] at hb
  cases hb
  refine ⟨_, rfl, h.type, rfl, ?_⟩
  -- lookups in the written feature
  have look : ∀ k, Q.get? (Q.sortKeys (finalQuals s.feat (subX s num ce))) k = Q.get? (finalQuals s.feat (subX s num ce)) k :=
    fun k => Q.get?_sortKeys hFQ k
  have l_tool : Q.get? (Q.sortKeys (finalQuals s.feat (subX s num ce))) "aStool" = some [s.tool] := by
    rw [look, get?_FQ_extra s.feat _ hX "aStool" [s.tool] h.codon (by decide) (by decide)]
    rw [get?_subX]; simp
  have l_label : if s.label = "" then Q.get? (Q.sortKeys (finalQuals s.feat (subX s num ce))) "label" = none
      else Q.get? (Q.sortKeys (finalQuals s.feat (subX s num ce))) "label" = some [s.label] := by
    by_cases hl : s.label = ""
    · simp only [hl, if_true]
      rw [look, get?_FQ_rest s.feat _ hX "label" h.codon (by decide) (by decide)]
      · exact h.reserved "label" (by simp [subReserved])
      · rw [get?_subX]; simp [hl, String.isEmpty]
    · simp only [hl, if_false]
      rw [look, get?_FQ_extra s.feat _ hX "label" [s.label] h.codon (by decide) (by decide)]
      rw [get?_subX]; simp [isEmpty_eq_false_of_ne hl]
  have l_anchor : Q.get? (Q.sortKeys (finalQuals s.feat (subX s num ce))) "anchor" = none := by
    rw [look, get?_FQ_rest s.feat _ hX "anchor" h.codon (by decide) (by decide)]
    · exact h.reserved "anchor" (by simp [subReserved])
    · rw [get?_subX]; simp
  have l_codon : Q.get? (Q.sortKeys (finalQuals s.feat (subX s num ce))) "codon_start" = none := by
    rw [look, get?_FQ_rest s.feat _ hX "codon_start" h.codon (by decide) (by decide)]
    · exact h.feat.noCodonKey
    · rw [get?_subX]; simp
  have l_as : Q.get? (Q.sortKeys (finalQuals s.feat (subX s num ce))) "tool" = some ["antismash"] := by
    rw [look, get?_FQ_toolX s.feat _ hX h.byAS h.codon]
  obtain ⟨s', e1, e2, e3, e4, e5, e6, e7, e8, e9, e10, e11⟩ :=
    subTail_spec ⟨s.feat.loc, s.feat.type, Q.sortKeys (finalQuals s.feat (subX s num ce))⟩ none s.tool s.label
      (Q.nodup_sortKeys hFQ) l_tool l_label l_anchor l_codon l_as
  refine ⟨s', ?_, ?_, e5, ?_, e4⟩
  · unfold Sub.fromBio
    simp only [l_tool, h.plainTool, Bool.false_eq_true, if_false]
    exact e1
  · -- the view is unchanged
    have hnoteX : Q.get? (subX s num ce) "note" = none := by rw [get?_subX]; simp
    have hnote' : Q.get? s'.feat.quals "note" = Q.get? (finalQuals s.feat (subX s num ce)) "note" := by
      rw [e11, look]; simp [subReserved]
    have hwf' : s'.feat.WF := by
      refine ⟨e10, ?_, ?_, fun _ => e8, by rw [e5]; exact h.feat.parts, fun c l' hc _ => by rw [e9] at hc; cases hc⟩
      · rw [e11]; simp [subReserved, l_codon]
      · rw [hnote']
        have := get?_FQ_noteX s.feat _ hX h.byAS h.codon hnoteX h.feat
        intro e
        rw [e] at this
        have hemp : (sortStrs (allNotes s.feat [])).isEmpty = true := by rw [← this]; rfl
        rw [sortStrs_isEmpty] at hemp
        -- all notes empty: the stored note would have to be the empty list
        have hnil : allNotes s.feat [] = [] := List.isEmpty_iff.1 hemp
        have hax : allNotes s.feat (subX s num ce) = allNotes s.feat [] := by simp [allNotes, hnoteX, Q.get?]
        rw [get?_finalQuals s.feat _ hX, hax] at e
        simp only [h.codon, hemp, hnoteX] at e
        simp at e
        exact h.feat.noEmptyNote e
    unfold Sub.view
    rw [e2, e3, e4, hside]
    congr 1
    apply view_congr t s.feat s'.feat h.feat hwf' e5 (by rw [e6, h.type]) (by rw [e8, h.byAS]) (by rw [e9, h.codon])
    · rw [allNotes_nil s'.feat, e7, hnote', List.append_nil,
        get?_FQ_noteX s.feat _ hX h.byAS h.codon hnoteX h.feat, sortStrs_idem]
    · intro k h1 h3 h2
      rw [e11]
      by_cases hr : subReserved k
      · simp only [hr, if_true]; exact (h.reserved k hr).symm
      · simp only [hr, if_false]
        rw [look, get?_FQ_rest s.feat _ hX k h.codon h2 h3]
        rw [get?_subX]
        simp only [subReserved, not_or] at hr
        simp [hr.1, hr.2.1, hr.2.2.2.1, hr.2.2.2.2]
  · refine ⟨?_, e8, e9, e6, ?_, by rw [e2]; exact h.plainTool⟩
    · -- as above
      refine ⟨e10, ?_, ?_, fun _ => e8, by rw [e5]; exact h.feat.parts, fun c l' hc _ => by rw [e9] at hc; cases hc⟩
      · rw [e11]; simp [subReserved, l_codon]
      · have hnoteX : Q.get? (subX s num ce) "note" = none := by rw [get?_subX]; simp
        have hnote' : Q.get? s'.feat.quals "note" = Q.get? (finalQuals s.feat (subX s num ce)) "note" := by
          rw [e11, look]; simp [subReserved]
        rw [hnote']
        have := get?_FQ_noteX s.feat _ hX h.byAS h.codon hnoteX h.feat
        intro e
        rw [e] at this
        have hemp : (sortStrs (allNotes s.feat [])).isEmpty = true := by rw [← this]; rfl
        rw [sortStrs_isEmpty] at hemp
        have hax : allNotes s.feat (subX s num ce) = allNotes s.feat [] := by simp [allNotes, hnoteX, Q.get?]
        rw [get?_finalQuals s.feat _ hX, hax] at e
        simp only [h.codon, hemp, hnoteX] at e
        simp at e
        exact h.feat.noEmptyNote e
    · intro k hr
      rw [e11]; simp [hr]

end ASV.Serial

namespace ASV.Serial
open ASV

/-! ### protoclusters -/

def protoReserved (k : String) : Prop :=
  k = "category" ∨ k = "neighbourhood" ∨ k = "cutoff" ∨ k = "product" ∨ k = "aStool" ∨ k = "detection_rule" ∨
  k = "core_location" ∨ k = "protocluster_number" ∨ k = "contig_edge"

instance (k : String) : Decidable (protoReserved k) := by unfold protoReserved; infer_instance

def protoX (p : Proto) (num : Option Nat) (ce : Bool) : Quals :=
  let shared := Q.set (p.common num) "core_location" [locToString p.core]
  let shared := if p.category.isEmpty then shared else Q.set shared "category" [p.category]
  match num.map fun _ => ce with
  | some b => Q.set shared "contig_edge" [boolStr b]
  | none => shared

def coreBio (p : Proto) (num : Option Nat) : Bio :=
  ⟨p.core, "proto_core", coreQuals (Q.sortKeys (Q.update (Q.erase p.feat.quals "note") (p.common num)))⟩

theorem Proto.toBio_eq (p : Proto) (num : Option Nat) (ce : Bool) :
    p.toBio num ce = (p.feat.toBio (protoX p num ce)).map fun nb =>
      [sideload p.tool p.side nb, sideload p.tool p.side (coreBio p num)] := by
  unfold Proto.toBio collToBio protoX coreBio
  simp only [bind, Except.bind, pure, Except.pure, Except.map]
  cases p.feat.toBio _ <;> rfl

theorem nodup_common (p : Proto) (num : Option Nat) : Q.Nodup (p.common num) := by
  cases num <;> simp [Proto.common, Q.Nodup, Q.keys]

theorem nodup_protoX (p : Proto) (num : Option Nat) (ce : Bool) : Q.Nodup (protoX p num ce) := by
  unfold protoX
  have h1 := Q.nodup_set (nodup_common p num) "core_location" [locToString p.core]
  have h2 : Q.Nodup (if p.category.isEmpty then Q.set (p.common num) "core_location" [locToString p.core]
      else Q.set (Q.set (p.common num) "core_location" [locToString p.core]) "category" [p.category]) := by
    split
    · exact h1
    · exact Q.nodup_set h1 _ _
  cases num with
  | none => exact h2
  | some n => exact Q.nodup_set h2 _ _

theorem get?_common (p : Proto) (num : Option Nat) (k : String) :
    Q.get? (p.common num) k =
      if "neighbourhood" = k then some [strOfInt p.nbhd]
      else if "cutoff" = k then some [strOfInt p.cutoff]
      else if "product" = k then some [p.product]
      else if "aStool" = k then some [p.tool]
      else if "detection_rule" = k then some [p.rule]
      else if "protocluster_number" = k then num.map (fun (n : Nat) => [strOfInt n])
      else none := by
  cases num
  · simp only [Proto.common, List.append_nil, Q.get?, Option.map_none, ite_self]
  · rfl

theorem get?_protoX (p : Proto) (num : Option Nat) (ce : Bool) (k : String) :
    Q.get? (protoX p num ce) k =
      if k = "contig_edge" then num.map (fun _ => [boolStr ce])
      else if k = "category" then (if p.category.isEmpty then none else some [p.category])
      else if k = "core_location" then some [locToString p.core]
      else Q.get? (p.common num) k := by
  unfold protoX
  cases num <;> cases hl : p.category.isEmpty <;>
    by_cases a1 : k = "contig_edge" <;> by_cases a2 : k = "category" <;> by_cases a3 : k = "core_location" <;>
    simp_all [Q.get?_set, get?_common]

/-- well-formed protocluster (not sideloaded): made by antiSMASH, no codon start, a core location with
    at least one part, free qualifiers using none of the class's own keys, a tool name that does not
    look like a sideloaded one -/
structure Proto.WF (p : Proto) : Prop where
  feat : p.feat.WF
  byAS : p.feat.byAS = true
  codon : p.feat.codon = none
  type : p.feat.type = "protocluster"
  core : p.core.parts ≠ []
  reserved : ∀ k, protoReserved k → Q.get? p.feat.quals k = none
  plainTool : isExternal p.tool = false

theorem proto_roundtrip (t : Bool) (p : Proto) (h : p.WF) (hside : p.side = none) (num : Option Nat) (ce : Bool)
    (bs : List Bio) (hb : p.toBio num ce = .ok bs) :
    ∃ nb, bs = [nb, coreBio p num] ∧ nb.type = "protocluster" ∧ nb.loc = p.feat.loc ∧
      ∃ p', Proto.fromBio nb = .ok p' ∧ p'.view t = p.view t ∧ p'.feat.loc = p.feat.loc ∧ p'.WF ∧ p'.side = none ∧
        p'.core = p.core ∧ p'.cutoff = p.cutoff := by
  have hX := nodup_protoX p num ce
  have hFQ := nodup_finalQuals p.feat (protoX p num ce) h.feat.quals
  rw [Proto.toBio_eq, toBio_eq, h.codon] at hb
  simp only [Except.map, hside, sideload] at hb
  cases hb
  refine ⟨_, rfl, h.type, rfl, ?_⟩
  -- abbreviations
  generalize hl0 : Q.sortKeys (finalQuals p.feat (protoX p num ce)) = l0
  have hl0n : Q.Nodup l0 := by rw [← hl0]; exact Q.nodup_sortKeys hFQ
  have look : ∀ k, Q.get? l0 k = Q.get? (finalQuals p.feat (protoX p num ce)) k := by
    intro k; rw [← hl0]; exact Q.get?_sortKeys hFQ k
  have ext : ∀ k v, k ≠ "tool" → k ≠ "note" → Q.get? (protoX p num ce) k = some v → Q.get? l0 k = some v :=
    fun k v h2 h3 hk => by rw [look]; exact get?_FQ_extra p.feat _ hX k v h.codon h2 h3 hk
  have L_nb : Q.get? l0 "neighbourhood" = some [strOfInt p.nbhd] :=
    ext _ _ (by decide) (by decide) (by rw [get?_protoX, get?_common]; simp)
  have L_cut : Q.get? l0 "cutoff" = some [strOfInt p.cutoff] :=
    ext _ _ (by decide) (by decide) (by rw [get?_protoX, get?_common]; simp)
  have L_prod : Q.get? l0 "product" = some [p.product] :=
    ext _ _ (by decide) (by decide) (by rw [get?_protoX, get?_common]; simp)
  have L_tool : Q.get? l0 "aStool" = some [p.tool] :=
    ext _ _ (by decide) (by decide) (by rw [get?_protoX, get?_common]; simp)
  have L_rule : Q.get? l0 "detection_rule" = some [p.rule] :=
    ext _ _ (by decide) (by decide) (by rw [get?_protoX, get?_common]; simp)
  have L_core : Q.get? l0 "core_location" = some [locToString p.core] :=
    ext _ _ (by decide) (by decide) (by rw [get?_protoX]; simp)
  have L_cat : Q.first l0 "category" "" = p.category := by
    by_cases hc : p.category = ""
    · rw [hc]
      apply Q.first_of_none
      rw [look, get?_FQ_rest p.feat _ hX "category" h.codon (by decide) (by decide)]
      · exact h.reserved "category" (by simp [protoReserved])
      · rw [get?_protoX]; simp [hc, String.isEmpty]
    · exact Q.first_of_get? (ext "category" [p.category] (by decide) (by decide)
        (by rw [get?_protoX]; simp [isEmpty_eq_false_of_ne hc]))
  have L_codon : Q.get? l0 "codon_start" = none := by
    rw [look, get?_FQ_rest p.feat _ hX "codon_start" h.codon (by decide) (by decide)]
    · exact h.feat.noCodonKey
    · rw [get?_protoX, get?_common]; simp
  have L_as : Q.get? l0 "tool" = some ["antismash"] := by
    rw [look, get?_FQ_toolX p.feat _ hX h.byAS h.codon]
  -- run `Protocluster.from_biopython`
  have k1 : Q.get? (Q.erase l0 "category") "neighbourhood" = some [strOfInt p.nbhd] := by simp [Q.get?_erase, L_nb]
  have k2 : Q.get? (Q.erase (Q.erase l0 "category") "neighbourhood") "cutoff" = some [strOfInt p.cutoff] := by
    simp [Q.get?_erase, L_cut]
  have k3 : Q.get? (Q.erase (Q.erase (Q.erase l0 "category") "neighbourhood") "cutoff") "product" = some [p.product] := by
    simp [Q.get?_erase, L_prod]
  have k4 : Q.get? (Q.erase (Q.erase (Q.erase (Q.erase l0 "category") "neighbourhood") "cutoff") "product") "aStool"
      = some [p.tool] := by simp [Q.get?_erase, L_tool]
  have k5 : Q.get? (Q.erase (Q.erase (Q.erase (Q.erase (Q.erase l0 "category") "neighbourhood") "cutoff") "product") "aStool")
      "detection_rule" = some [p.rule] := by simp [Q.get?_erase, L_rule]
  have k6 : Q.get? (Q.erase (Q.erase (Q.erase (Q.erase (Q.erase (Q.erase l0 "category") "neighbourhood") "cutoff") "product")
      "aStool") "detection_rule") "core_location" = some [locToString p.core] := by simp [Q.get?_erase, L_core]
  generalize hLf : Q.erase (Q.erase (Q.erase (Q.erase (Q.erase (Q.erase (Q.erase (Q.erase (Q.erase l0 "category")
      "neighbourhood") "cutoff") "product") "aStool") "detection_rule") "core_location") "protocluster_number")
      "contig_edge" = Lf
  have hLfn : Q.Nodup Lf := by
    rw [← hLf]
    exact Q.nodup_erase (Q.nodup_erase (Q.nodup_erase (Q.nodup_erase (Q.nodup_erase (Q.nodup_erase (Q.nodup_erase
      (Q.nodup_erase (Q.nodup_erase hl0n _) _) _) _) _) _) _) _) _
  have hLf_get : ∀ k, Q.get? Lf k = if protoReserved k then none else Q.get? l0 k := by
    intro k
    rw [← hLf]
    simp only [Q.get?_erase, protoReserved]
    by_cases a1 : k = "category" <;> by_cases a2 : k = "neighbourhood" <;> by_cases a3 : k = "cutoff" <;>
      by_cases a4 : k = "product" <;> by_cases a5 : k = "aStool" <;> by_cases a6 : k = "detection_rule" <;>
      by_cases a7 : k = "core_location" <;> by_cases a8 : k = "protocluster_number" <;>
      by_cases a9 : k = "contig_edge" <;> simp [a1, a2, a3, a4, a5, a6, a7, a8, a9]
  have hcodf : Q.get? Lf "codon_start" = none := by rw [hLf_get]; simp [protoReserved, L_codon]
  have hasf : Q.get? Lf "tool" = some ["antismash"] := by rw [hLf_get]; simp [protoReserved, L_as]
  have hap := applyLeftovers_plain (⟨p.feat.loc, "protocluster", [], [], true, none⟩ : Feat) Lf rfl hLfn hcodf
  have hrun : Proto.fromBio ⟨p.feat.loc, p.feat.type, l0⟩ = .ok
      ⟨{ loc := p.feat.loc, type := "protocluster", notes := [], quals := Lf, byAS := true, codon := none },
       p.core, p.tool, p.product, p.cutoff, p.nbhd, p.rule, p.category, none⟩ := by
    unfold Proto.fromBio
    simp only [Q.first_of_get? L_tool, h.plainTool, Bool.false_eq_true, if_false, L_cat,
      popInt_of_get? k1, popInt_of_get? k2, popReq_of_get? k3, popReq_of_get? k4, popReq_of_get? k5,
      popReq_of_get? k6, parseLoc_locToString p.core h.core, bind, Except.bind, collTail, hLf, hap, pure, Except.pure]
    simp [hasf, Q.isEmpty_of_get? hasf]
  refine ⟨_, hrun, ?_, rfl, ?_, rfl, rfl, rfl⟩
  · -- the view is unchanged
    have hnoteX : Q.get? (protoX p num ce) "note" = none := by rw [get?_protoX, get?_common]; simp
    have hnote' : Q.get? Lf "note" = Q.get? (finalQuals p.feat (protoX p num ce)) "note" := by
      rw [hLf_get, look]; simp [protoReserved]
    have hwf' : Feat.WF { loc := p.feat.loc, type := "protocluster", notes := [], quals := Lf, byAS := true, codon := none } := by
      refine ⟨hLfn, hcodf, ?_, fun _ => rfl, h.feat.parts, fun c l' hc _ => by cases hc⟩
      show Q.get? Lf "note" ≠ some []
      rw [hnote']
      have := get?_FQ_noteX p.feat _ hX h.byAS h.codon hnoteX h.feat
      intro e
      rw [e] at this
      have hemp : (sortStrs (allNotes p.feat [])).isEmpty = true := by rw [← this]; rfl
      rw [sortStrs_isEmpty] at hemp
      have hax : allNotes p.feat (protoX p num ce) = allNotes p.feat [] := by simp [allNotes, hnoteX, Q.get?]
      rw [get?_finalQuals p.feat _ hX, hax] at e
      simp only [h.codon, hemp, hnoteX] at e
      simp at e
      exact h.feat.noEmptyNote e
    unfold Proto.view
    simp only [hside]
    congr 1
    apply view_congr t p.feat _ h.feat hwf' rfl (by simp [h.type]) (by simp [h.byAS]) (by simp [h.codon])
    · rw [allNotes_nil]
      show sortStrs ((Q.get? Lf "note").getD [] ++ []) = _
      rw [hnote', List.append_nil, get?_FQ_noteX p.feat _ hX h.byAS h.codon hnoteX h.feat, sortStrs_idem]
    · intro k h1 h3 h2
      show Q.get? Lf k = _
      rw [hLf_get]
      by_cases hr : protoReserved k
      · simp only [hr, if_true]; exact (h.reserved k hr).symm
      · simp only [hr, if_false]
        rw [look, get?_FQ_rest p.feat _ hX k h.codon h2 h3]
        rw [get?_protoX, get?_common]
        simp only [protoReserved, not_or] at hr
        obtain ⟨r1, r2, r3, r4, r5, r6, r7, r8, r9⟩ := hr
        simp [r1, r7, r9, Ne.symm r2, Ne.symm r3, Ne.symm r4, Ne.symm r5, Ne.symm r6, Ne.symm r8]
  · refine ⟨?_, rfl, rfl, rfl, h.core, ?_, h.plainTool⟩
    · have hnoteX : Q.get? (protoX p num ce) "note" = none := by rw [get?_protoX, get?_common]; simp
      have hnote' : Q.get? Lf "note" = Q.get? (finalQuals p.feat (protoX p num ce)) "note" := by
        rw [hLf_get, look]; simp [protoReserved]
      refine ⟨hLfn, hcodf, ?_, fun _ => rfl, h.feat.parts, fun c l' hc _ => by cases hc⟩
      show Q.get? Lf "note" ≠ some []
      rw [hnote']
      have := get?_FQ_noteX p.feat _ hX h.byAS h.codon hnoteX h.feat
      intro e
      rw [e] at this
      have hemp : (sortStrs (allNotes p.feat [])).isEmpty = true := by rw [← this]; rfl
      rw [sortStrs_isEmpty] at hemp
      have hax : allNotes p.feat (protoX p num ce) = allNotes p.feat [] := by simp [allNotes, hnoteX, Q.get?]
      rw [get?_finalQuals p.feat _ hX, hax] at e
      simp only [h.codon, hemp, hnoteX] at e
      simp at e
      exact h.feat.noEmptyNote e
    · intro k hr
      show Q.get? Lf k = none
      rw [hLf_get]; simp [hr]

end ASV.Serial
