/-
  `_split_sections_around_origin` on reduced locations (single parts and origin-spanning
  two-part spans) in closed form (C04, ring).
-/
import ASV.Proofs.LocRingSort
set_option linter.unusedSimpArgs false
set_option linter.unusedVariables false
namespace ASV

/-- a reduced location as `connect_locations` sees it after `_reduce_parts_to_location`:
    one part, or the origin-spanning pair `[x, L) + [0, y)` (forward strand) -/
inductive RLoc where
  | one (p : Part)
  | two (x y : Int)
deriving DecidableEq, Repr

namespace RLoc
def toLoc (L : Int) : RLoc → Loc
  | .one p => .simple p
  | .two x y => .compound [fl x L, fl 0 y]

def OK (L : Int) : RLoc → Prop
  | .one p => 0 ≤ p.lo ∧ p.lo < p.hi ∧ p.hi ≤ L
  | .two x y => 0 < y ∧ y ≤ x ∧ x < L

def isTwo : RLoc → Bool
  | .one _ => false
  | .two _ _ => true

/-- what the location contributes to `pre_chunks` -/
def pre (L : Int) : RLoc → List Part
  | .one p => if p.lo < L - p.hi then [] else [fl p.lo p.hi]
  | .two x _ => [fl x L]
/-- what the location contributes to `post_chunks` -/
def post (L : Int) : RLoc → List Part
  | .one p => if p.lo < L - p.hi then [fl p.lo p.hi] else []
  | .two _ y => [fl 0 y]
end RLoc

/-- the loop body of `_split_sections_around_origin` -/
def splitStep (origin : Int) (acc : List Loc × List Loc) (l : Loc) : E (List Loc × List Loc) := do
  if bridgesOrigin l then
    let (lower, upper) ← splitBridging l
    let u ← reduceParts upper (some origin)
    let lo ← reduceParts lower (some origin)
    pure (acc.1 ++ [u], acc.2 ++ [lo])
  else
    let s : Loc := .simple (fl l.start l.end)
    if l.start < origin - l.end then pure (acc.1, acc.2 ++ [s]) else pure (acc.1 ++ [s], acc.2)

theorem splitSections_eq (ls : List Loc) (origin : Int) :
    splitSections ls origin =
      if !isWrappingShorter ls origin then pure (ls, []) else ls.foldlM (splitStep origin) ([], []) := rfl

theorem bridges_two (x y L : Int) (hy0 : 0 < y) (hyx : y ≤ x) :
    bridgesOrigin (.compound [fl x L, fl 0 y]) = true := by
  have : x > 0 := by omega
  simp [bridgesOrigin, Loc.strand, fl, orderInvalid, this]

theorem bridges_toLoc (L : Int) (r : RLoc) (h : r.OK L) : bridgesOrigin (r.toLoc L) = r.isTwo := by
  cases r with
  | one p => rfl
  | two x y => exact bridges_two x y L h.1 h.2.1

theorem splitBridging_two (x y L : Int) (s : Strand) (hs : s ≠ .rev) (hy0 : 0 < y) (hyx : y ≤ x) (hxL : x < L) :
    splitBridging (.compound [⟨x, L, s⟩, ⟨0, y, s⟩]) = .ok ([⟨0, y, s⟩], [⟨x, L, s⟩]) := by
  have c1 : ¬ (0 > x) := by omega
  have hno : locationsOverlap (partsHull [(⟨0, y, s⟩ : Part)]) (partsHull [(⟨x, L, s⟩ : Part)]) = false := by
    simp only [partsHull, hullOf, List.map, minList, maxList, List.foldl, Loc.start, Loc.end, locationsOverlap,
      Loc.parts, List.any_cons, List.any_nil, Bool.or_false, partsOverlap, Part.mem, Bool.or_eq_false_iff,
      Bool.and_eq_false_iff, decide_eq_false_iff_not]
    omega
  have hstr : (Loc.compound [(⟨x, L, s⟩ : Part), ⟨0, y, s⟩]).strand = s := by simp [Loc.strand]
  have hsr : (s != Strand.rev) = true := by simpa using hs
  have hsr2 : (s == Strand.rev) = false := by simpa using hs
  simp only [splitBridging, strandsUsed, List.foldl, List.contains_nil, Bool.false_eq_true, if_false, List.nil_append,
    List.contains_cons, beq_self_eq_true, Bool.true_or, if_true, List.length_singleton, hstr, hsr, splitFwd, c1,
    gt_iff_lt, List.reverse_cons, List.reverse_nil, List.isEmpty_cons, Bool.or_self, isValidSplit, hno, hsr2,
    List.map, sortInts, List.foldr, insertInt, beq_self_eq_true, Bool.and_self, Bool.not_true,
    bind, Except.bind, pure, Except.pure, throw, throwThe, MonadExceptOf.throw]
  simp

theorem splitStep_one (L : Int) (acc : List Loc × List Loc) (p : Part) :
    splitStep L acc (.simple p) =
      .ok (acc.1 ++ ((RLoc.one p).pre L).map .simple, acc.2 ++ ((RLoc.one p).post L).map .simple) := by
  by_cases h : p.lo < L - p.hi
  · simp [splitStep, bridgesOrigin, Loc.start, Loc.end, RLoc.pre, RLoc.post, h, pure, Except.pure]
  · simp [splitStep, bridgesOrigin, Loc.start, Loc.end, RLoc.pre, RLoc.post, h, pure, Except.pure]

theorem splitStep_two (L : Int) (acc : List Loc × List Loc) (x y : Int) (hy0 : 0 < y) (hyx : y ≤ x) (hxL : x < L) :
    splitStep L acc (.compound [fl x L, fl 0 y]) =
      .ok (acc.1 ++ ((RLoc.two x y).pre L).map .simple, acc.2 ++ ((RLoc.two x y).post L).map .simple) := by
  have hb := bridges_two x y L hy0 hyx
  have hsb := splitBridging_two x y L .fwd (by decide) hy0 hyx hxL
  simp only [fl] at hb hsb
  simp only [splitStep, fl, hb, if_true, hsb, reduceParts, RLoc.pre, RLoc.post, List.map, bind, Except.bind, pure, Except.pure]

theorem splitStep_toLoc (L : Int) (acc : List Loc × List Loc) (r : RLoc) (h : r.OK L) :
    splitStep L acc (r.toLoc L) = .ok (acc.1 ++ (r.pre L).map .simple, acc.2 ++ (r.post L).map .simple) := by
  cases r with
  | one p => exact splitStep_one L acc p
  | two x y => exact splitStep_two L acc x y h.1 h.2.1 h.2.2

theorem foldlM_splitStep (L : Int) (rs : List RLoc) (h : ∀ r ∈ rs, r.OK L) (acc : List Loc × List Loc) :
    (rs.map (RLoc.toLoc L)).foldlM (splitStep L) acc =
      .ok (acc.1 ++ (rs.flatMap (RLoc.pre L)).map .simple, acc.2 ++ (rs.flatMap (RLoc.post L)).map .simple) := by
  induction rs generalizing acc with
  | nil => simp [pure, Except.pure]
  | cons r rs ih =>
    rw [List.map_cons, List.foldlM_cons, splitStep_toLoc L acc r (h r (by simp))]
    show (List.map (RLoc.toLoc L) rs).foldlM (splitStep L) _ = _
    rw [ih (fun x hx => h x (List.mem_cons_of_mem _ hx))]
    simp [List.flatMap_cons, List.append_assoc]

/-- `_split_sections_around_origin` when going over the origin is judged shorter -/
theorem splitSections_wrap (L : Int) (rs : List RLoc) (h : ∀ r ∈ rs, r.OK L)
    (hw : isWrappingShorter (rs.map (RLoc.toLoc L)) L = true) :
    splitSections (rs.map (RLoc.toLoc L)) L =
      .ok ((rs.flatMap (RLoc.pre L)).map .simple, (rs.flatMap (RLoc.post L)).map .simple) := by
  rw [splitSections_eq, hw]
  simp only [Bool.not_true, Bool.false_eq_true, if_false]
  rw [foldlM_splitStep L rs h]
  simp

theorem splitSections_nowrap (ls : List Loc) (L : Int) (hw : isWrappingShorter ls L = false) :
    splitSections ls L = .ok (ls, []) := by
  rw [splitSections_eq, hw]; rfl

end ASV
