/-
  C19 helper lemmas, part 6: `convert_cds_features` — every gene is drawn in range, exactly once
  (or as two linked halves), at the genome distance from the region's first base.
-/
import ASV.Proofs.PackingBase
namespace ASV.Packing
open ASV ASV.Packing.Spec

structure GoodOrf (c : Ctx) (v : GeneView) (gid : Int) (os : List Orf) : Prop where
  range : ∀ o ∈ os, orfInRange (drawRange c).1 (drawRange c).2 o = true
  drawn : (∃ o, os = [o] ∧ o.group = 0 ∧ DrawnOrf.shown c.L (.whole o) = some (expectedOrf v) ∧
            orfPlaced c v o = true) ∨
    (∃ a b, os = [a, b] ∧ a.group = gid ∧ b.group = gid ∧
      DrawnOrf.shown c.L (.halves a b) = some (expectedOrf v))

theorem orfInRange_iff (lo hi : Int) (o : Orf) : orfInRange lo hi o = true ↔
    lo + 1 ≤ o.start ∧ o.start ≤ o.end ∧ o.end ≤ hi := by
  simp only [orfInRange, Bool.and_eq_true, decide_eq_true_eq]
  omega

local macro "gfin" : tactic =>
  `(tactic| ((try rw [orfInRange_iff]); (try dsimp only [drawRange, Loc.start, Loc.end, orfPlaced]); (try simp [drawRange, Loc.start, Loc.end, DrawnOrf.shown, expectedOrf, orfPlaced,
      ringOffset, foldS, foldE]) <;> (try intros) <;> omega))

theorem convertOne_good {c : Ctx} {v : GeneView} (hc : regionOK c = true) (hv : viewOK c v = true)
    (gid : Int) : GoodOrf c v gid (convertOne c v gid) := by
  obtain ⟨region, L, circ⟩ := c
  obtain ⟨vs, ve, vx, vl, vst⟩ := v
  simp only [regionOK, Bool.and_eq_true] at hc
  rcases collOK_cases hc.1 with ⟨R, rfl, hR1, hR2, hR3⟩ | ⟨S, E, rfl, hE1, hE2, hE3⟩
  · -- ordinary region
    have hrc : Ctx.regionCrosses ⟨.simple R, L, circ⟩ = false := by simp [Ctx.regionCrosses, Loc.parts]
    simp only [viewOK, Bool.and_eq_true, Bool.or_eq_true, beq_iff_eq] at hv
    obtain ⟨hst, hv⟩ := hv
    cases vx
    · -- not across the origin: one orf
      simp only [Bool.false_eq_true, ↓reduceIte, Bool.and_eq_true, decide_eq_true_eq] at hv
      try simp only [decide_eq_true_eq] at hv
      have hone : convertOne ⟨.simple R, L, circ⟩ ⟨vs, ve, false, vl, vst⟩ gid =
          [{ start := vs + 1, «end» := ve, strand := if vst == 0 then 1 else vst }] := by
        simp [convertOne, hrc]
      rw [hone]
      refine ⟨?_, Or.inl ⟨_, rfl, rfl, ?_, ?_⟩⟩
      · intro o ho
        simp only [List.mem_singleton] at ho
        subst ho; gfin
      · rcases hst with (rfl | rfl) | rfl <;> gfin
      · gfin
    · -- across the origin in a whole-record region: two halves
      simp only [↓reduceIte, Bool.and_eq_true, decide_eq_true_eq, beq_iff_eq] at hv
      try simp only [decide_eq_true_eq] at hv
      obtain ⟨⟨⟨⟨⟨_, hlo⟩, hhi⟩, h1⟩, h2⟩, h3⟩ := hv
      rcases hst with (rfl | rfl) | rfl
      · simp [convertOne, hrc]
        refine ⟨?_, Or.inr ⟨_, _, rfl, rfl, rfl, ?_⟩⟩
        · intro o ho
          simp only [List.mem_cons, List.not_mem_nil, or_false] at ho
          rcases ho with rfl | rfl <;> gfin
        · gfin
      · simp [convertOne, hrc]
        refine ⟨?_, Or.inr ⟨_, _, rfl, rfl, rfl, ?_⟩⟩
        · intro o ho
          simp only [List.mem_cons, List.not_mem_nil, or_false] at ho
          rcases ho with rfl | rfl <;> gfin
        · gfin
      · simp [convertOne, hrc]
        refine ⟨?_, Or.inr ⟨_, _, rfl, rfl, rfl, ?_⟩⟩
        · intro o ho
          simp only [List.mem_cons, List.not_mem_nil, or_false] at ho
          rcases ho with rfl | rfl <;> gfin
        · gfin
  · -- origin-spanning region: always one orf
    have hrc : Ctx.regionCrosses ⟨.compound [⟨S, L, .fwd⟩, ⟨0, E, .fwd⟩], L, circ⟩ = true := by
      simp [Ctx.regionCrosses, Loc.parts]
    simp only [viewOK, Bool.and_eq_true, Bool.or_eq_true, beq_iff_eq] at hv
    obtain ⟨hst, hv⟩ := hv
    cases vx <;> cases vl <;>
      simp only [Bool.false_eq_true, ↓reduceIte, Bool.and_eq_true, decide_eq_true_eq, Bool.not_true,
        Bool.not_false, Bool.true_and, Bool.false_and] at hv <;>
      try simp only [decide_eq_true_eq] at hv
    · have hone : convertOne ⟨.compound [⟨S, L, .fwd⟩, ⟨0, E, .fwd⟩], L, circ⟩ ⟨vs, ve, false, false, vst⟩ gid =
          [{ start := vs + 1, «end» := ve, strand := if vst == 0 then 1 else vst }] := by
        simp [convertOne, hrc]
      rw [hone]
      refine ⟨?_, Or.inl ⟨_, rfl, rfl, ?_, ?_⟩⟩
      · intro o ho
        simp only [List.mem_singleton] at ho
        subst ho; gfin
      · rcases hst with (rfl | rfl) | rfl <;> gfin
      · gfin
    · have hone : convertOne ⟨.compound [⟨S, L, .fwd⟩, ⟨0, E, .fwd⟩], L, circ⟩ ⟨vs, ve, false, true, vst⟩ gid =
          [{ start := vs + 1 + L, «end» := ve + L, strand := if vst == 0 then 1 else vst }] := by
        simp [convertOne, hrc]
      rw [hone]
      refine ⟨?_, Or.inl ⟨_, rfl, rfl, ?_, ?_⟩⟩
      · intro o ho
        simp only [List.mem_singleton] at ho
        subst ho; gfin
      · rcases hst with (rfl | rfl) | rfl <;> gfin
      · gfin
    · have hone : convertOne ⟨.compound [⟨S, L, .fwd⟩, ⟨0, E, .fwd⟩], L, circ⟩ ⟨vs, ve, true, false, vst⟩ gid =
          [{ start := vs + 1, «end» := ve + L, strand := if vst == 0 then 1 else vst }] := by
        simp [convertOne, hrc]
      rw [hone]
      refine ⟨?_, Or.inl ⟨_, rfl, rfl, ?_, ?_⟩⟩
      · intro o ho
        simp only [List.mem_singleton] at ho
        subst ho; gfin
      · rcases hst with (rfl | rfl) | rfl <;> gfin
      · gfin

/-! ### the whole gene list -/

theorem convertCdsFrom_mem {c : Ctx} : ∀ (views : List GeneView) (k : Nat) (o : Orf),
    o ∈ convertCdsFrom c views k → ∃ v ∈ views, ∃ gid, o ∈ convertOne c v gid
  | [], _, o, h => by simp [convertCdsFrom] at h
  | v :: vs, k, o, h => by
    simp only [convertCdsFrom, List.mem_append] at h
    rcases h with h | h
    · exact ⟨v, by simp, _, h⟩
    · obtain ⟨v', hv', gid, hm⟩ := convertCdsFrom_mem vs (k + 1) o h
      exact ⟨v', by simp [hv'], gid, hm⟩

theorem convertCdsFrom_parse {c : Ctx} (hc : regionOK c = true) : ∀ (views : List GeneView) (k : Nat),
    (∀ v ∈ views, viewOK c v = true) →
    ∃ ds, parseOrfsGo none (convertCdsFrom c views k) = some ds ∧
      ds.mapM (DrawnOrf.shown c.L) = some (views.map expectedOrf) ∧
      (ds.filterMap DrawnOrf.groupId).Pairwise (· < ·) ∧
      ∀ g ∈ ds.filterMap DrawnOrf.groupId, (k : Int) < g
  | [], k, _ => ⟨[], by simp [convertCdsFrom, parseOrfsGo], by simp, by simp, by simp⟩
  | v :: vs, k, hall => by
    obtain ⟨ds, hp, hs, hlt, hgt⟩ := convertCdsFrom_parse hc vs (k + 1) (fun x hx => hall x (by simp [hx]))
    have good := convertOne_good hc (hall v (by simp)) ((k : Int) + 1)
    rcases good.drawn with ⟨o, ho, hg0, hsh, _⟩ | ⟨a, b, ho, hga, hgb, hsh⟩
    · refine ⟨DrawnOrf.whole o :: ds, ?_, ?_, ?_, ?_⟩
      · simp [convertCdsFrom, ho, parseOrfsGo, hg0, hp]
      · simp [List.mapM_cons, hsh, hs, bind, pure]
      · simp only [List.filterMap_cons, DrawnOrf.groupId]; exact hlt
      · intro g hg
        simp only [List.filterMap_cons, DrawnOrf.groupId] at hg
        have := hgt g hg
        push_cast at this; omega
    · have hk : ¬ ((k : Int) + 1 = 0) := by omega
      refine ⟨DrawnOrf.halves a b :: ds, ?_, ?_, ?_, ?_⟩
      · simp [convertCdsFrom, ho, parseOrfsGo, hga, hgb, hp, hk]
      · simp [List.mapM_cons, hsh, hs, bind, pure]
      · simp only [List.filterMap_cons, DrawnOrf.groupId, List.pairwise_cons]
        refine ⟨?_, hlt⟩
        intro g hg
        have := hgt g hg
        push_cast at this; omega
      · intro g hg
        simp only [List.filterMap_cons, DrawnOrf.groupId, List.mem_cons] at hg
        rcases hg with rfl | hg
        · omega
        · have := hgt g hg
          push_cast at this; omega

theorem convertCds_complete {c : Ctx} (hc : regionOK c = true) (views : List GeneView)
    (hall : ∀ v ∈ views, viewOK c v = true) : orfsCompleteB c.L views (convertCds c views) = true := by
  obtain ⟨ds, hp, hs, hlt, _⟩ := convertCdsFrom_parse hc views 0 hall
  have hnd : (ds.filterMap DrawnOrf.groupId).Nodup := hlt.imp fun h => Int.ne_of_lt h
  simp [orfsCompleteB, convertCds, hp, hs, hnd]

end ASV.Packing

namespace ASV.Packing
open ASV ASV.Packing.Spec

set_option linter.unusedSimpArgs false in
/-- for genes of one or two exons the hypothesis of the gene theorems follows from the shape of
    the location: `Feature.start/end`, `crosses_origin` and `is_contained_by(parts[-1])` computed
    from the location satisfy `viewOK` -/
theorem geneView_ok {c : Ctx} {g : Loc} (hc : regionOK c = true) (hg : geneOK c g = true) :
    viewOK c (geneView c g) = true := by
  obtain ⟨region, L, circ⟩ := c
  simp only [regionOK, Bool.and_eq_true] at hc
  rcases collOK_cases hc.1 with ⟨R, rfl, hR1, hR2, hR3⟩ | ⟨S, E, rfl, hE1, hE2, hE3⟩
  · -- ordinary region
    cases g with
    | simple p =>
      obtain ⟨plo, phi, ps⟩ := p
      simp only [geneOK, hullIn, Bool.and_eq_true, decide_eq_true_eq] at hg
      cases ps <;>
        simp [viewOK, geneView, bridgesOrigin, locationContainsOther, Loc.parts, partContains, Ctx.lastPart,
          strandInt, Loc.strand] <;> grind
    | compound ps =>
      match ps, hg with
      | [], hg => simp [geneOK] at hg
      | [_], hg => simp [geneOK] at hg
      | _ :: _ :: _ :: _, hg => simp [geneOK] at hg
      | [⟨plo, phi, ps⟩, ⟨qlo, qhi, qs⟩], hg =>
        simp only [geneOK, Bool.and_eq_true, Bool.or_eq_true, beq_iff_eq] at hg
        obtain ⟨⟨hst, hs2⟩, hg⟩ := hg
        subst hst
        rcases hs2 with rfl | rfl
        · try simp only [beq_self_eq_true, ↓reduceIte] at hg
          split at hg <;>
            simp only [hullIn, bridgeIn, Bool.and_eq_true, decide_eq_true_eq, beq_iff_eq] at hg <;>
            simp [viewOK, geneView, bridgesOrigin, orderInvalid, locationContainsOther, Loc.parts, partContains,
              Ctx.lastPart, strandInt, Loc.strand, locStart, locEnd] <;> grind
        · try simp only [show (Strand.rev == Strand.fwd) = false from rfl, Bool.false_eq_true, ↓reduceIte] at hg
          split at hg <;>
            simp only [hullIn, bridgeIn, Bool.and_eq_true, decide_eq_true_eq, beq_iff_eq] at hg <;>
            simp [viewOK, geneView, bridgesOrigin, orderInvalid, locationContainsOther, Loc.parts, partContains,
              Ctx.lastPart, strandInt, Loc.strand, locStart, locEnd] <;> grind
  · -- origin-spanning region
    cases g with
    | simple p =>
      obtain ⟨plo, phi, ps⟩ := p
      simp only [geneOK, hullIn, Bool.and_eq_true, Bool.or_eq_true, decide_eq_true_eq] at hg
      cases ps <;>
        simp [viewOK, geneView, bridgesOrigin, locationContainsOther, Loc.parts, partContains, Ctx.lastPart,
          strandInt, Loc.strand] <;> grind
    | compound ps =>
      match ps, hg with
      | [], hg => simp [geneOK] at hg
      | [_], hg => simp [geneOK] at hg
      | _ :: _ :: _ :: _, hg => simp [geneOK] at hg
      | [⟨plo, phi, ps⟩, ⟨qlo, qhi, qs⟩], hg =>
        simp only [geneOK, Bool.and_eq_true, Bool.or_eq_true, beq_iff_eq] at hg
        obtain ⟨⟨hst, hs2⟩, hg⟩ := hg
        subst hst
        rcases hs2 with rfl | rfl
        · try simp only [beq_self_eq_true, ↓reduceIte] at hg
          split at hg <;>
            simp only [hullIn, bridgeIn, Bool.and_eq_true, Bool.or_eq_true, decide_eq_true_eq, beq_iff_eq] at hg <;>
            simp [viewOK, geneView, bridgesOrigin, orderInvalid, locationContainsOther, Loc.parts, partContains,
              Ctx.lastPart, strandInt, Loc.strand, locStart, locEnd] <;> grind
        · try simp only [show (Strand.rev == Strand.fwd) = false from rfl, Bool.false_eq_true, ↓reduceIte] at hg
          split at hg <;>
            simp only [hullIn, bridgeIn, Bool.and_eq_true, Bool.or_eq_true, decide_eq_true_eq, beq_iff_eq] at hg <;>
            simp [viewOK, geneView, bridgesOrigin, orderInvalid, locationContainsOther, Loc.parts, partContains,
              Ctx.lastPart, strandInt, Loc.strand, locStart, locEnd] <;> grind

end ASV.Packing
