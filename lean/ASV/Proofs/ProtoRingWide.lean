/-
  C03, circular records: the arc in which `find_protoclusters` provably computes the maximal chains is
  widened from "the cutoff away from both record ends" (`InnerArc`) to "the arc and the cutoff together fit
  into the record" (`WideArc`): the arc may touch the origin on either side, cutoff windows may wrap over
  the origin or be capped to the whole record.
-/
import ASV.Proofs.ProtoRingSep
namespace ASV.Proto
open ASV ASV.ChainSweep ASV.Chains

/-- what the sweep needs from `_extend_area_location` and `connect_locations` inside the arc `[A, B)`:
    widening a core succeeds, does not shrink it, and a gene of the arc starting at or after the core
    shares a base with the widened core iff it starts fewer than `c` positions after the core's end -/
structure ArcOps (r : Rec) (c A B : Int) : Prop where
  ext : ∀ p : Part, A ≤ p.lo → p.lo < p.hi → p.hi ≤ B →
    ∃ W, extendArea r (.simple p) c false = .ok W ∧ ¬ (W.len < (Loc.simple p).len) ∧
      ∀ y, GeneIn r.len A B y → p.lo ≤ y.start → (locationsOverlap y W = true ↔ y.start < p.hi + c)
  conn1 : ∀ cds, GeneIn r.len A B cds → connect [cds] r.wrap = .ok (.simple ⟨cds.start, cds.end, cds.strand⟩)
  conn2 : ∀ (p : Part) cds, A ≤ p.lo → p.lo < p.hi → p.hi ≤ B → GeneIn r.len A B cds →
    ∃ s, connect [Loc.simple p, cds] r.wrap = .ok (.simple ⟨min p.lo cds.start, max p.hi cds.end, s⟩)

theorem sweepCores_arcW (r : Rec) (c A B : Int) (hc : 0 ≤ c) (hA : 0 ≤ A) (hB : B ≤ r.len) (ops : ArcOps r c A B)
    (rest : List Loc) :
    ∀ (cur : Grp Loc) (p : Part) (older : List Loc),
      p.lo = cur.glo → p.hi = cur.ghi → A ≤ p.lo → p.lo < p.hi → p.hi ≤ B →
      (∀ y ∈ rest, GeneIn r.len A B y) → (∀ y ∈ rest, p.lo ≤ y.start) → Sorted Loc.start rest →
      ∃ out, sweepCores r c (.simple p :: older) rest = .ok (out ++ older) ∧
        out.map ivOf = ((go Loc.start Loc.end c cur rest).map fun g => (g.glo, g.ghi)).reverse ∧
        ∀ l ∈ out, IsSimple l := by
  induction rest with
  | nil =>
    intro cur p older e1 e2 _ _ _ _ _ _
    refine ⟨[.simple p], by simp [sweepCores, pure, Except.pure], ?_, ?_⟩
    · simp [go, ivOf, Loc.start, Loc.end, e1, e2]
    · intro l hl; simp at hl; exact ⟨p, hl⟩
  | cons y ys ih =>
    intro cur p older e1 e2 h0 h1 h2 hok hge hsorted
    have hy := hok y (by simp)
    obtain ⟨W, hW, hlen, hwinAll⟩ := ops.ext p h0 h1 h2
    have hwin := hwinAll y hy (hge y (by simp))
    simp only [sweepCores, hW, bind, Except.bind, hlen, if_false]
    by_cases hlt : y.start < p.hi + c
    · have hov := hwin.2 hlt
      obtain ⟨s, hconn⟩ := ops.conn2 p y h0 h1 h2 hy
      simp only [hov, if_true, hconn]
      have hlt' : y.start < cur.ghi + c := by omega
      have hylo := hy.lo; have hyhi := hy.hi; have hylt := hy.ok.start_lt_end
      obtain ⟨out, ho, hm, hsimple⟩ := ih ⟨min cur.glo y.start, max cur.ghi y.end, cur.members ++ [y]⟩
        ⟨min p.lo y.start, max p.hi y.end, s⟩ older (by simp only; omega) (by simp only; omega)
        (by simp only; omega) (by simp only; omega) (by simp only; omega) (fun z hz => hok z (by simp [hz]))
        (fun z hz => by have := hge z (by simp [hz]); simp only; omega) hsorted.tail
      refine ⟨out, ho, ?_, hsimple⟩
      simp only [go, hlt', if_true]
      exact hm
    · have hov : locationsOverlap y W = false := by
        cases hb : locationsOverlap y W
        · rfl
        · exact absurd (hwin.1 hb) hlt
      simp only [hov, Bool.false_eq_true, if_false, ops.conn1 y hy]
      have hlt' : ¬ y.start < cur.ghi + c := by omega
      obtain ⟨out, ho, hm, hsimple⟩ := ih ⟨y.start, y.end, [y]⟩ ⟨y.start, y.end, y.strand⟩ (.simple p :: older)
        rfl rfl hy.lo hy.ok.start_lt_end hy.hi (fun z hz => hok z (by simp [hz]))
        (fun z hz => hsorted.head_le z hz) hsorted.tail
      refine ⟨out ++ [.simple p], by simpa using ho, ?_, ?_⟩
      · simp only [go, hlt', if_false, List.map_append, hm, List.map_cons, List.map_nil, List.reverse_cons]
        simp [ivOf, Loc.start, Loc.end, e1, e2]
      · intro l hl
        simp only [List.mem_append, List.mem_singleton] at hl
        rcases hl with hl | rfl
        · exact hsimple l hl
        · exact ⟨p, rfl⟩

/-- `find_protoclusters`' cores are the hulls of the sweep groups whenever the anchors lie in an arc
    on which widening and joining behave as on a line -/
theorem findCores_arcW (r : Rec) (c A B : Int) (hc : 0 ≤ c) (hA : 0 ≤ A) (hB : B ≤ r.len) (ops : ArcOps r c A B)
    (anchors : List Loc) (hne : anchors ≠ []) (hok : ∀ l ∈ anchors, GeneIn r.len A B l) :
    ∃ sorted cores, sorted.Perm anchors ∧ Sorted Loc.start sorted ∧ findCores r c anchors = .ok cores ∧
      cores.map ivOf = (sweep Loc.start Loc.end c sorted).map (fun g => (g.glo, g.ghi)) ∧
      ∀ l ∈ cores, IsSimple l := by
  obtain ⟨s1, h1, p1, _⟩ := sortFeats_ok anchors (fun l hl => (hok l hl).ok.nb)
  have hnb1 : ∀ l ∈ s1, bridgesOrigin l = false := fun l hl => (hok l (p1.mem_iff.1 hl)).ok.nb
  obtain ⟨s2, h2, p2, sorted2⟩ := sortFeats_ok s1 hnb1
  have hperm : s2.Perm anchors := p2.trans p1
  have hok2 : ∀ l ∈ s2, GeneIn r.len A B l := fun l hl => hok l (hperm.mem_iff.1 hl)
  have hf1 : s1.filter bridgesOrigin = [] := filter_all_false _ _ hnb1
  have hf2 : (s1.filter fun l => !bridgesOrigin l) = s1 := filter_all_true _ _ (fun l hl => by simp [hnb1 l hl])
  cases s2 with
  | nil => exact absurd (List.perm_nil.1 hperm.symm) hne
  | cons y ys =>
    have hy := hok2 y (by simp)
    obtain ⟨out, ho, hm, hsimple⟩ := sweepCores_arcW r c A B hc hA hB ops ys ⟨y.start, y.end, [y]⟩
      ⟨y.start, y.end, y.strand⟩ [] rfl rfl hy.lo hy.ok.start_lt_end hy.hi
      (fun z hz => hok2 z (by simp [hz])) (fun z hz => sorted2.head_le z hz) sorted2.tail
    obtain ⟨⟨g0, grest, hgo, hg0⟩, hall⟩ := go_glo Loc.start Loc.end c ys ⟨y.start, y.end, [y]⟩
      (fun z hz => sorted2.head_le z hz) sorted2.tail
    have hrev : out.reverse.map ivOf = (go Loc.start Loc.end c ⟨y.start, y.end, [y]⟩ ys).map fun g => (g.glo, g.ghi) := by
      rw [List.map_reverse, hm, List.reverse_reverse]
    -- the cores ascend from the first one
    have hcores : ∃ first rest, out.reverse = first :: rest ∧ ∀ l ∈ out.reverse, first.start ≤ l.start := by
      rw [hgo] at hrev
      cases hor : out.reverse with
      | nil => rw [hor] at hrev; simp at hrev
      | cons first rest =>
        refine ⟨first, rest, rfl, ?_⟩
        rw [hor] at hrev
        simp only [List.map_cons, List.cons.injEq, ivOf, Prod.mk.injEq] at hrev
        intro l hl
        have hl' : ivOf l ∈ (first :: rest).map ivOf := List.mem_map.2 ⟨l, hl, rfl⟩
        have hl2 : ivOf l ∈ (g0 :: grest).map fun g => (g.glo, g.ghi) := by
          simp only [List.map_cons, ivOf]
          rw [← hrev.1.1, ← hrev.1.2, ← hrev.2]
          simpa [ivOf] using hl'
        obtain ⟨g, hg, e⟩ := List.mem_map.1 hl2
        have hge := hall g (by rw [hgo]; exact hg)
        simp only [ivOf, Prod.mk.injEq] at e
        have h1' := hrev.1.1
        have h2' := e.1
        have h3' := hg0
        simp only at hge h3'
        omega
    obtain ⟨first, rest', hfr, hasc⟩ := hcores
    refine ⟨y :: ys, out.reverse, hperm, sorted2, ?_, ?_, ?_⟩
    · simp only [findCores, h1, bind, Except.bind, hf1, hf2, h2, List.mapM_nil, pure, Except.pure, List.reverse_nil]
      simp only [sweepCores, ops.conn1 y hy, bind, Except.bind]
      rw [ho]
      simp only [List.append_nil]
      exact fixFirstLast_sorted r c out.reverse first rest' hfr hasc
    · rw [hrev]; rfl
    · intro l hl
      exact hsimple l (by simpa using hl)


/-! ### the wide arc of a ring -/

/-- the arc `[A, B)` lies in the record, the arc and the distance `c` together fit into the record
    (so nothing reaches a gene of the arc the other way round), and the arc is at most half of it -/
structure WideArc (L c A B : Int) : Prop where
  cpos : 0 ≤ c
  lo : 0 ≤ A
  hi : B ≤ L
  room : (B - A) + c ≤ L
  half : 2 * (B - A) ≤ L

theorem InnerArc.wide {L c A B : Int} (h : InnerArc L c A B) (hA : 0 ≤ A) : WideArc L c A B :=
  ⟨h.dpos, hA, by have := h.right; have := h.dpos; omega, by have := h.left; have := h.right; omega, h.half⟩

/-- the widened single-part core on a ring is an area at least as long as the core -/
theorem extSimpleRing_area (lo hi d L : Int) (hL : 0 < L) (h0 : 0 ≤ lo) (h1 : lo < hi) (h2 : hi ≤ L)
    (hd : 0 ≤ d) (hdL : d ≤ L) :
    RingArea L (extSimpleRing ⟨lo, hi, .fwd⟩ d L) ∧ hi - lo ≤ (extSimpleRing ⟨lo, hi, .fwd⟩ d L).len := by
  unfold extSimpleRing
  simp only [beq_iff_eq, reduceCtorEq, if_false]
  by_cases hW : lo - d < 0 ∧ lo - d + L ≤ hi + d
  · rw [if_pos hW]
    refine ⟨⟨by simp [areaWF, Loc.parts]; omega, Or.inl ⟨_, rfl⟩⟩, by simp [Loc.len, Loc.parts, Part.len]; omega⟩
  · rw [if_neg hW]
    by_cases hA : lo - d < 0
    · rw [if_pos hA]
      refine ⟨⟨by simp [areaWF, Loc.parts]; omega, Or.inr ⟨L + (lo - d), hi + d, rfl⟩⟩, by simp [Loc.len, Loc.parts, Part.len]; omega⟩
    · rw [if_neg hA]
      by_cases hB : hi + d > L
      · rw [if_pos hB]
        by_cases hC : hi + d - L > lo - d
        · rw [if_pos hC]
          refine ⟨⟨by simp [areaWF, Loc.parts]; omega, Or.inl ⟨_, rfl⟩⟩, by simp [Loc.len, Loc.parts, Part.len]; omega⟩
        · rw [if_neg hC]
          refine ⟨⟨by simp [areaWF, Loc.parts]; omega, Or.inr ⟨lo - d, hi + d - L, rfl⟩⟩, by simp [Loc.len, Loc.parts, Part.len]; omega⟩
      · rw [if_neg hB]
        refine ⟨⟨by simp [areaWF, Loc.parts]; omega, Or.inl ⟨_, rfl⟩⟩, by simp [Loc.len, Loc.parts, Part.len]; omega⟩

/-- `_extend_area_location` of a single-part core on any circular record, in closed form: the capped
    distance, then `extend_location`'s closed form; the result is an area -/
theorem extendArea_ring_simple (r : Rec) (hcirc : r.circular = true) (hL : 0 < r.len) (p : Part) (c : Int)
    (h0 : 0 ≤ p.lo) (h1 : p.lo < p.hi) (h2 : p.hi ≤ r.len) (hc : 0 ≤ c) (force : Bool) :
    extendArea r (.simple p) c force =
      .ok (extSimpleRing ⟨p.lo, p.hi, .fwd⟩ (min c ((r.len - (p.hi - p.lo)) / 2 + 1)) r.len) := by
  have hd0 : 0 ≤ min c ((r.len - (p.hi - p.lo)) / 2 + 1) := by omega
  have hdL : min c ((r.len - (p.hi - p.lo)) / 2 + 1) ≤ r.len := by omega
  obtain ⟨⟨hwf, hshape⟩, _⟩ := extSimpleRing_area p.lo p.hi _ r.len hL h0 h1 h2 hd0 hdL
  have hext := extend_simple_ring_eq ⟨p.lo, p.hi, .fwd⟩ (min c ((r.len - (p.hi - p.lo)) / 2 + 1)) r.len h0 h1 h2 hd0 hdL
  have hconn := connect_self _ r.len hL hwf hshape
  have hlen : (Loc.simple p).len = p.hi - p.lo := by simp [Loc.len, Loc.parts, Part.len]
  have hnb : bridgesOrigin (Loc.simple p) = false := rfl
  have hparts : ¬ ((extSimpleRing ⟨p.lo, p.hi, .fwd⟩ (min c ((r.len - (p.hi - p.lo)) / 2 + 1)) r.len).parts.length > 2) := by
    rcases hshape with ⟨q, hq⟩ | ⟨a, b, hq⟩ <;> rw [hq] <;> simp [Loc.parts]
  obtain ⟨lo, hi, st⟩ := p
  simp only at hext hconn hlen hparts ⊢
  cases st <;>
  simp [extendArea, hcirc, Rec.wrap, Loc.parts, hnb, Loc.strand, makeForwards_simple, hlen,
    hext, hconn, hparts, bind, Except.bind, pure, Except.pure] <;>
  (simp only [Loc.parts] at hparts; omega)

theorem WideArc.Lpos {L c A B : Int} (h : WideArc L c A B) (hab : A < B) : 0 < L := by
  have := h.lo; have := h.hi; omega

/-- inside a wide arc the (possibly wrapped or capped) cutoff window of a core meets a gene that starts
    at or after the core exactly when the gene starts fewer than `c` positions after the core's end -/
theorem overlap_ring_window_iff (L c A B : Int) (harc : WideArc L c A B) (p : Part) (hp0 : A ≤ p.lo) (hp1 : p.lo < p.hi)
    (hp2 : p.hi ≤ B) (y : Loc) (hy : GeneIn L A B y) (hge : p.lo ≤ y.start) :
    locationsOverlap y (extSimpleRing ⟨p.lo, p.hi, .fwd⟩ (min c ((L - (p.hi - p.lo)) / 2 + 1)) L) = true ↔
      y.start < p.hi + c := by
  have hc := harc.cpos; have hlo := harc.lo; have hhi := harc.hi; have hroom := harc.room
  have hL : 0 < L := harc.Lpos (by omega)
  have hd0 : 0 ≤ min c ((L - (p.hi - p.lo)) / 2 + 1) := by omega
  have hdL : min c ((L - (p.hi - p.lo)) / 2 + 1) ≤ L := by omega
  obtain ⟨⟨hwf, hshape⟩, _⟩ := extSimpleRing_area p.lo p.hi _ L hL (by omega) hp1 (by omega) hd0 hdL
  have hWne : (extSimpleRing ⟨p.lo, p.hi, .fwd⟩ (min c ((L - (p.hi - p.lo)) / 2 + 1)) L).PartsNonEmpty := by
    intro q hq
    rcases hshape with ⟨q', e⟩ | ⟨a, b, e⟩
    · rw [e] at hq hwf
      simp only [Loc.parts, List.mem_singleton] at hq; subst hq
      simp only [areaWF, Loc.parts, Bool.and_eq_true, decide_eq_true_eq] at hwf; omega
    · rw [e] at hq hwf
      simp only [areaWF, Loc.parts, Bool.and_eq_true, decide_eq_true_eq] at hwf
      simp only [Loc.parts, List.mem_cons, List.mem_nil_iff, or_false] at hq
      rcases hq with rfl | rfl <;> simp only <;> omega
  have hyne : y.PartsNonEmpty := fun q hq => (hy.ok.parts q hq).2.1
  rw [locationsOverlap_iff y _ hyne hWne]
  constructor
  · rintro ⟨i, hi, hW⟩
    rw [extSimpleRing_mem ⟨p.lo, p.hi, .fwd⟩ _ L (by simp only; omega) hp1 (by simp only; omega) hd0 i] at hW
    obtain ⟨hi0, hiL, j, hj, hr⟩ := hW
    simp only [Part.mem_iff] at hj
    simp only [Loc.mem, List.any_eq_true, Part.mem_iff] at hi
    obtain ⟨q, hq, hq1, hq2⟩ := hi
    have hs := start_le_part y q hq
    have hyhi := hy.hi; have hylo := hy.lo
    simp only [ringAbs, iabs_def] at hr
    split at hr <;> omega
  · intro hlt
    obtain ⟨q, hq, e⟩ := start_attained y hy.ok.ne
    have hqq := hy.ok.parts q hq
    have hyhi := hy.hi
    have hqe := (start_le_part y q hq).2
    refine ⟨y.start, ?_, ?_⟩
    · simp only [Loc.mem, List.any_eq_true, Part.mem_iff]
      exact ⟨q, hq, by omega, by omega⟩
    · rw [extSimpleRing_mem ⟨p.lo, p.hi, .fwd⟩ _ L (by simp only; omega) hp1 (by simp only; omega) hd0 y.start]
      refine ⟨by omega, by omega, ?_⟩
      by_cases hin : y.start < p.hi
      · refine ⟨y.start, by simp only [Part.mem_iff]; omega, ?_⟩
        simp only [ringAbs, iabs_def]
        split <;> omega
      · refine ⟨p.hi - 1, by simp only [Part.mem_iff]; omega, ?_⟩
        simp only [ringAbs, iabs_def]
        split <;> omega

theorem connect_gene_ringW (L c A B : Int) (harc : WideArc L c A B) (cds : Loc) (h : GeneIn L A B cds) :
    connect [cds] (some L) = .ok (.simple ⟨cds.start, cds.end, cds.strand⟩) := by
  have hlt := h.ok.start_lt_end
  have hL : 0 < L := harc.Lpos (by have := h.lo; have := h.hi; omega)
  rw [connect_ring_nowrap [cds] L (by simp) hL (by intro l hl; simp at hl; subst hl; exact ⟨h.ok.ne, h.ok.nb⟩)
    (by intro l hl; simp at hl; subst hl; exact hlt)
    (by intro f hf s hs; simp at hf hs; subst hf; subst hs; have := harc.half; have := h.lo; have := h.hi; omega)]
  simp [minList, maxList, commonStrand]

theorem connect_pair_ringW (L c A B : Int) (harc : WideArc L c A B) (p : Part) (hp0 : A ≤ p.lo) (hp1 : p.lo < p.hi)
    (hp2 : p.hi ≤ B) (cds : Loc) (h : GeneIn L A B cds) :
    ∃ s, connect [Loc.simple p, cds] (some L) = .ok (.simple ⟨min p.lo cds.start, max p.hi cds.end, s⟩) := by
  have hlt := h.ok.start_lt_end
  have hL : 0 < L := harc.Lpos (by omega)
  have hh := harc.half
  rw [connect_ring_nowrap [Loc.simple p, cds] L (by simp) hL
    (by intro l hl; simp at hl; rcases hl with rfl | rfl
        · simp [Loc.parts, bridgesOrigin]
        · exact ⟨h.ok.ne, h.ok.nb⟩)
    (by intro l hl; simp at hl; rcases hl with rfl | rfl
        · exact hp1
        · exact hlt)
    (by intro f hf s hs
        have := h.lo; have := h.hi
        simp only [List.mem_cons, List.mem_nil_iff, or_false] at hf hs
        have e1 : (Loc.simple p).start = p.lo := rfl
        have e2 : (Loc.simple p).end = p.hi := rfl
        rcases hf with rfl | rfl <;> rcases hs with rfl | rfl <;> (try rw [e1]) <;> (try rw [e2]) <;> omega)]
  exact ⟨commonStrand [Loc.simple p, cds], by simp [minList, maxList, Loc.start, Loc.end]⟩

theorem arcOps_ring_wide (r : Rec) (hcirc : r.circular = true) (c A B : Int) (harc : WideArc r.len c A B) :
    ArcOps r c A B := by
  have hw : r.wrap = some r.len := by simp [Rec.wrap, hcirc]
  refine ⟨?_, ?_, ?_⟩
  · intro p h0 h1 h2
    have hlo := harc.lo; have hhi := harc.hi
    have hL : 0 < r.len := harc.Lpos (by omega)
    have hd0 : 0 ≤ min c ((r.len - (p.hi - p.lo)) / 2 + 1) := by have := harc.cpos; omega
    have hdL : min c ((r.len - (p.hi - p.lo)) / 2 + 1) ≤ r.len := by omega
    refine ⟨_, extendArea_ring_simple r hcirc hL p c (by omega) h1 (by omega) harc.cpos false, ?_, ?_⟩
    · have := (extSimpleRing_area p.lo p.hi _ r.len hL (by omega) h1 (by omega) hd0 hdL).2
      simp only [Loc.len, Loc.parts, List.map_cons, List.map_nil, List.sum_cons, List.sum_nil, Part.len] at this ⊢
      omega
    · intro y hy hge
      exact overlap_ring_window_iff r.len c A B harc p h0 h1 h2 y hy hge
  · intro cds h; rw [hw]; exact connect_gene_ringW r.len c A B harc cds h
  · intro p cds h0 h1 h2 h; rw [hw]; exact connect_pair_ringW r.len c A B harc p h0 h1 h2 cds h

/-- the ring relation of two genes of a wide arc is `reach` on their spans -/
theorem nearB_ring_wide_iff (L c A B : Int) (harc : WideArc L c A B) (a b : Loc)
    (ha : GeneIn L A B a) (hb : GeneIn L A B b) :
    nearB L c a b = true ↔ reach Loc.start Loc.end c a b := by
  have hlt := ha.ok.start_lt_end
  have hL : L ≠ 0 := by have := harc.Lpos (by have := ha.lo; have := ha.hi; omega); omega
  simp only [nearB, spanLoc_nb L a ha.ok.nb, spanLoc_nb L b hb.ok.nb, reach]
  exact nearB_simple_ring L c A B harc.cpos hL harc.half _ _ ha.ok.start_lt_end hb.ok.start_lt_end ha.lo ha.hi hb.lo hb.hi

/-- `Protocluster(core, surrounds)` succeeds for a single-part core and an area around it -/
theorem mkPC_simple_area (rule : String) (p : Part) (L : Int) (s : Loc) (hs : RingArea L s) :
    mkPC rule (.simple p) s = .ok ⟨rule, .simple p, s⟩ := by
  obtain ⟨hwf, ⟨q, rfl⟩ | ⟨a, b, rfl⟩⟩ := hs
  · simp only [areaWF, Loc.parts, Bool.and_eq_true, decide_eq_true_eq] at hwf
    exact mkPC_simple rule p q (by omega) (by omega)
  · simp only [areaWF, Loc.parts, Bool.and_eq_true, decide_eq_true_eq] at hwf
    have h1 : ¬ (L = b) := by omega
    have h2 : ¬ (minList [a, 0] > maxList [L, b]) := by simp [minList, maxList]; omega
    have h3 : ¬ (minList [a, 0] < 0) := by simp [minList]; omega
    have h1' : ¬ (b = L) := by omega
    simp [mkPC, bridgesOrigin, Loc.parts, Loc.start, Loc.end, Loc.strand, dupEnds, h1', h2, h3, pure, Except.pure]

/-! ### later groups of the sweep start at least the cutoff after earlier groups end -/

theorem go_hull_sep (lo hi : Loc → Int) (c : Int) : ∀ (ys : List Loc) (cur : Grp Loc), (∀ y ∈ ys, cur.glo ≤ lo y) →
    Sorted lo ys → ∀ gs₁ g gs₂, go lo hi c cur ys = gs₁ ++ g :: gs₂ → ∀ g' ∈ gs₂, g.ghi + c ≤ g'.glo := by
  intro ys
  induction ys with
  | nil =>
    intro cur _ _ gs₁ g gs₂ h g' hg'
    simp only [go] at h
    have : gs₂ = [] := by
      have hl := congrArg List.length h
      simp only [List.length_cons, List.length_nil, List.length_append] at hl
      exact List.eq_nil_of_length_eq_zero (by omega)
    subst this; cases hg'
  | cons y ys ih =>
    intro cur hs hsorted gs₁ g gs₂ h g' hg'
    simp only [go] at h
    split at h
    · exact ih _ (fun z hz => by have := hs z (by simp [hz]); simp only; omega) hsorted.tail gs₁ g gs₂ h g' hg'
    · next hge =>
      cases gs₁ with
      | nil =>
        simp only [List.nil_append, List.cons.injEq] at h
        obtain ⟨rfl, hrest⟩ := h
        have := (go_glo lo hi c ys ⟨lo y, hi y, [y]⟩ (fun z hz => hsorted.head_le z hz) hsorted.tail).2 g'
          (by rw [hrest]; exact hg')
        simp only at this
        omega
      | cons g₀ t =>
        simp only [List.cons_append, List.cons.injEq] at h
        exact ih _ (fun z hz => hsorted.head_le z hz) hsorted.tail t g gs₂ h.2 g' hg'

theorem pairwise_of_split {α : Type} (R : α → α → Prop) : ∀ (l : List α),
    (∀ l₁ a l₂, l = l₁ ++ a :: l₂ → ∀ b ∈ l₂, R a b) → l.Pairwise R := by
  intro l
  induction l with
  | nil => intro _; exact List.Pairwise.nil
  | cons x xs ih =>
    intro h
    rw [List.pairwise_cons]
    refine ⟨fun b hb => h [] x xs rfl b hb, ih ?_⟩
    intro l₁ a l₂ e b hb
    exact h (x :: l₁) a l₂ (by rw [e]; rfl) b hb

theorem sweep_hulls_apart (c : Int) (xs : List Loc) (hsorted : Sorted Loc.start xs) :
    ((sweep Loc.start Loc.end c xs).map fun g => (g.glo, g.ghi)).Pairwise (fun a b => a.2 + c ≤ b.1) := by
  rw [List.pairwise_map]
  apply pairwise_of_split
  intro l₁ a l₂ e b hb
  cases xs with
  | nil => simp [sweep] at e
  | cons x rest =>
    exact go_hull_sep Loc.start Loc.end c rest ⟨x.start, x.end, [x]⟩ (fun z hz => hsorted.head_le z hz) hsorted.tail
      l₁ a l₂ e b hb

end ASV.Proto
