/-
  Helper lemmas for C12: `_number_by_position` sorts the region's areas by position and numbers
  them 1..n; the dictionaries have distinct keys.
-/
import ASV.Proofs.RegionExtract
set_option linter.unusedSimpArgs false
namespace ASV.RegionExtract
open ASV

/-! ### the order on position keys -/

theorem keyLe_iff (a b : PosKey) :
    keyLe a b = true ↔ a.1 < b.1 ∨ (a.1 = b.1 ∧ (a.2.1 < b.2.1 ∨ (a.2.1 = b.2.1 ∧ a.2.2 ≤ b.2.2))) := by
  simp [keyLe]

theorem keyLe_total (a b : PosKey) : keyLe a b = true ∨ keyLe b a = true := by
  rw [keyLe_iff, keyLe_iff]; omega

theorem keyLe_trans (a b c : PosKey) (h1 : keyLe a b = true) (h2 : keyLe b c = true) : keyLe a c = true := by
  rw [keyLe_iff] at *; omega

theorem keyLe_antisymm (a b : PosKey) (h1 : keyLe a b = true) (h2 : keyLe b a = true) : a = b := by
  rw [keyLe_iff] at *
  obtain ⟨a1, a2, a3⟩ := a
  obtain ⟨b1, b2, b3⟩ := b
  simp only at h1 h2
  have : a1 = b1 ∧ a2 = b2 ∧ a3 = b3 := by omega
  simp [this]

/-! ### insertion sort -/

theorem insertKey_perm (x : PosKey) : ∀ l : List PosKey, (insertKey x l).Perm (x :: l)
  | [] => .refl _
  | y :: ys => by
    unfold insertKey
    split
    · exact .refl _
    · exact ((insertKey_perm x ys).cons y).trans (.swap x y ys)

theorem sortKeys_perm : ∀ l : List PosKey, (sortKeys l).Perm l
  | [] => .refl _
  | x :: xs => by
    show (insertKey x (sortKeys xs)).Perm (x :: xs)
    exact (insertKey_perm x _).trans ((sortKeys_perm xs).cons x)

theorem insertKey_sorted (x : PosKey) : ∀ l : List PosKey, l.Pairwise (fun a b => keyLe a b = true) →
    (insertKey x l).Pairwise (fun a b => keyLe a b = true)
  | [], _ => by simp [insertKey]
  | y :: ys, h => by
    unfold insertKey
    have hy := List.pairwise_cons.1 h
    split
    · rename_i hxy
      refine List.pairwise_cons.2 ⟨?_, h⟩
      intro z hz
      rcases List.mem_cons.1 hz with rfl | hz
      · exact hxy
      · exact keyLe_trans x y z hxy (hy.1 z hz)
    · rename_i hxy
      have hyx : keyLe y x = true := by
        rcases keyLe_total x y with h | h
        · exact absurd h hxy
        · exact h
      refine List.pairwise_cons.2 ⟨?_, insertKey_sorted x ys hy.2⟩
      intro z hz
      rcases List.mem_cons.1 ((insertKey_perm x ys).mem_iff.1 hz) with rfl | hz
      · exact hyx
      · exact hy.1 z hz

theorem sortKeys_sorted : ∀ l : List PosKey, (sortKeys l).Pairwise (fun a b => keyLe a b = true)
  | [] => List.Pairwise.nil
  | x :: xs => insertKey_sorted x _ (sortKeys_sorted xs)

/-! ### numbering from one -/

theorem enumerateFrom_keys (n : Int) : ∀ ks : List PosKey, (enumerateFrom n ks).map (·.1) = ks.map (·.2.2)
  | [] => rfl
  | k :: ks => by simp [enumerateFrom, enumerateFrom_keys (n + 1) ks]

theorem enumerateFrom_length (n : Int) : ∀ ks : List PosKey, (enumerateFrom n ks).length = ks.length
  | [] => rfl
  | k :: ks => by simp [enumerateFrom, enumerateFrom_length (n + 1) ks]

/-- the `j`-th entry pairs the number of the `j`-th key with `n + j` -/
theorem enumerateFrom_get (n : Int) : ∀ (ks : List PosKey) (j : Nat) (k : PosKey), ks[j]? = some k →
    (enumerateFrom n ks)[j]? = some (k.2.2, n + j)
  | [], j, k, h => by simp at h
  | k' :: ks, 0, k, h => by
    simp at h; subst h; simp [enumerateFrom]
  | k' :: ks, j + 1, k, h => by
    simp at h
    have := enumerateFrom_get (n + 1) ks j k h
    simp [enumerateFrom, this]
    omega

theorem enumerateFrom_mem (n : Int) (ks : List PosKey) (a m : Int) (h : (a, m) ∈ enumerateFrom n ks) :
    ∃ (j : Nat) (k : PosKey), ks[j]? = some k ∧ k.2.2 = a ∧ m = n + j := by
  induction ks generalizing n with
  | nil => simp [enumerateFrom] at h
  | cons k ks ih =>
    simp only [enumerateFrom, List.mem_cons, Prod.mk.injEq] at h
    rcases h with ⟨h1, h2⟩ | h
    · exact ⟨0, k, by simp, h1.symm, by simp [h2]⟩
    · obtain ⟨j, k', hk, ha, hm⟩ := ih (n + 1) h
      exact ⟨j + 1, k', by simp [hk], ha, by rw [hm]; push_cast; omega⟩

/-! ### dictionaries -/

theorem dictSet_keys {α} (d : List (Int × α)) (k : Int) (v : α) :
    ∀ x, x ∈ (dictSet d k v).map (·.1) ↔ x = k ∨ x ∈ d.map (·.1) := by
  induction d with
  | nil => intro x; simp [dictSet]
  | cons kv rest ih =>
    intro x
    unfold dictSet
    split
    · rename_i hk
      simp [hk]
    · simp only [List.map_cons, List.mem_cons, ih x]
      constructor
      · rintro (h | h | h)
        · exact .inr (.inl h)
        · exact .inl h
        · exact .inr (.inr h)
      · rintro (h | h | h)
        · exact .inr (.inl h)
        · exact .inl h
        · exact .inr (.inr h)

theorem dictSet_nodup {α} (d : List (Int × α)) (k : Int) (v : α) (h : (d.map (·.1)).Nodup) :
    ((dictSet d k v).map (·.1)).Nodup := by
  induction d with
  | nil => simp [dictSet]
  | cons kv rest ih =>
    unfold dictSet
    have hc : kv.1 ∉ rest.map (·.1) ∧ (rest.map (·.1)).Nodup := List.nodup_cons.1 h
    split
    · rename_i hk
      simp only [List.map_cons]
      rw [← hk]
      exact List.nodup_cons.2 hc
    · rename_i hk
      simp only [List.map_cons]
      refine List.nodup_cons.2 ⟨?_, ih hc.2⟩
      intro hmem
      rcases (dictSet_keys rest k v kv.1).1 hmem with h | h
      · exact hk h
      · exact hc.1 h

theorem dictGet_of_mem {α} (d : List (Int × α)) (hd : (d.map (·.1)).Nodup) (k : Int) (v : α) (h : (k, v) ∈ d) :
    dictGet d k = .ok v := by
  induction d with
  | nil => simp at h
  | cons kv rest ih =>
    have hc : kv.1 ∉ rest.map (·.1) ∧ (rest.map (·.1)).Nodup := List.nodup_cons.1 hd
    rcases List.mem_cons.1 h with rfl | h
    · simp [dictGet, List.find?, pure, Except.pure]
    · have hne : kv.1 ≠ k := by
        intro e
        apply hc.1
        rw [e]
        exact List.mem_map.2 ⟨(k, v), h, rfl⟩
      have := ih hc.2 h
      unfold dictGet at this ⊢
      rw [List.find?_cons_of_neg (by simpa using hne)]
      exact this

theorem dictGet_mem {α} (d : List (Int × α)) (k : Int) (v : α) (h : dictGet d k = .ok v) : (k, v) ∈ d := by
  unfold dictGet at h
  split at h
  · rename_i kv hf
    injection h with h
    have h1 := List.find?_some hf
    have h2 := List.mem_of_find?_eq_some hf
    simp at h1
    rw [← h, ← h1]
    exact h2
  · cases h

/-! ### `_number_by_position` -/

theorem fst_unique {α} (d : List (Int × α)) (hd : (d.map (·.1)).Nodup) (k : Int) (x y : α)
    (hx : (k, x) ∈ d) (hy : (k, y) ∈ d) : x = y := by
  have h1 := dictGet_of_mem d hd k x hx
  have h2 := dictGet_of_mem d hd k y hy
  rw [h1] at h2
  injection h2

/-- the sorted key list behind `_number_by_position` -/
def sortedKeys (areas : List (Int × Loc)) (rd : RegionData) (L : Int) : List PosKey :=
  sortKeys (areas.map fun a => positionKey rd L a.1 a.2)

theorem positionKey_number (rd : RegionData) (L n : Int) (l : Loc) : (positionKey rd L n l).2.2 = n := rfl

theorem sortedKeys_nodup (areas : List (Int × Loc)) (rd : RegionData) (L : Int) (hnd : (areas.map (·.1)).Nodup) :
    (sortedKeys areas rd L).Nodup := by
  unfold sortedKeys
  rw [(sortKeys_perm _).nodup_iff]
  have : (areas.map fun a => positionKey rd L a.1 a.2).map (·.2.2) = areas.map (·.1) := by
    rw [List.map_map]; rfl
  rw [← this] at hnd
  exact List.Pairwise.of_map (fun k : PosKey => k.2.2) (fun a b h e => h (by rw [e])) hnd

theorem numbers_nodup_keys (areas : List (Int × Loc)) (rd : RegionData) (L : Int) (hnd : (areas.map (·.1)).Nodup) :
    ((numberByPosition areas rd L).map (·.1)).Nodup := by
  unfold numberByPosition
  rw [enumerateFrom_keys]
  have hp : ((sortKeys (areas.map fun a => positionKey rd L a.1 a.2)).map (·.2.2)).Perm (areas.map (·.1)) := by
    have := (sortKeys_perm (areas.map fun a => positionKey rd L a.1 a.2)).map (·.2.2)
    rw [List.map_map] at this
    exact this
  exact hp.nodup_iff.2 hnd

/-- `_number_by_position` is a bijection from the areas' numbers onto `1..n` that follows the
    position keys: every area gets a number; numbers are within `1..n`; different areas get
    different numbers; and an area gets the smaller number iff its position key is the smaller -/
theorem numberByPosition_spec (areas : List (Int × Loc)) (rd : RegionData) (L : Int)
    (hnd : (areas.map (·.1)).Nodup) :
    (∀ a la, (a, la) ∈ areas → ∃ m, dictGet (numberByPosition areas rd L) a = .ok m) ∧
    (∀ a m, dictGet (numberByPosition areas rd L) a = .ok m → 1 ≤ m ∧ m ≤ areas.length ∧ ∃ la, (a, la) ∈ areas) ∧
    (∀ a b la lb m m', (a, la) ∈ areas → (b, lb) ∈ areas →
      dictGet (numberByPosition areas rd L) a = .ok m → dictGet (numberByPosition areas rd L) b = .ok m' →
      ((m ≤ m' ↔ keyLe (positionKey rd L a la) (positionKey rd L b lb) = true) ∧ (m = m' → a = b))) := by
  have hnk := numbers_nodup_keys areas rd L hnd
  have hperm := sortKeys_perm (areas.map fun a => positionKey rd L a.1 a.2)
  have hsorted := sortKeys_sorted (areas.map fun a => positionKey rd L a.1 a.2)
  have hnodup : (sortKeys (areas.map fun a => positionKey rd L a.1 a.2)).Nodup := sortedKeys_nodup areas rd L hnd
  have hlen : (sortKeys (areas.map fun a => positionKey rd L a.1 a.2)).length = areas.length := by
    rw [hperm.length_eq]; simp
  -- entries of the numbering come from positions in the sorted list
  have entry : ∀ a m, dictGet (numberByPosition areas rd L) a = .ok m →
      ∃ (j : Nat) (la : Loc), (a, la) ∈ areas ∧
        (sortKeys (areas.map fun a => positionKey rd L a.1 a.2))[j]? = some (positionKey rd L a la) ∧ m = 1 + j := by
    intro a m h
    obtain ⟨j, k, hk, ha, hm⟩ := enumerateFrom_mem 1 _ a m (dictGet_mem _ a m h)
    have hkm : k ∈ areas.map fun a => positionKey rd L a.1 a.2 := hperm.mem_iff.1 (List.mem_iff_getElem?.2 ⟨j, hk⟩)
    obtain ⟨⟨a0, l0⟩, h0, hk0⟩ := List.mem_map.1 hkm
    simp only at hk0
    have : a0 = a := by rw [← ha, ← hk0]; rfl
    subst this
    exact ⟨j, l0, h0, by rw [hk, hk0], hm⟩
  refine ⟨?_, ?_, ?_⟩
  · intro a la hmem
    have hk : positionKey rd L a la ∈ sortKeys (areas.map fun a => positionKey rd L a.1 a.2) :=
      hperm.mem_iff.2 (List.mem_map.2 ⟨(a, la), hmem, rfl⟩)
    obtain ⟨j, hj⟩ := List.mem_iff_getElem?.1 hk
    have := enumerateFrom_get 1 _ j _ hj
    refine ⟨1 + j, dictGet_of_mem _ hnk a (1 + j) ?_⟩
    exact List.mem_iff_getElem?.2 ⟨j, this⟩
  · intro a m h
    obtain ⟨j, la, hmem, hj, hm⟩ := entry a m h
    obtain ⟨hjl, _⟩ := List.getElem?_eq_some_iff.1 hj
    refine ⟨by omega, by omega, la, hmem⟩
  · intro a b la lb m m' ha hb hm hm'
    obtain ⟨j, la', hmema, hj, hmj⟩ := entry a m hm
    obtain ⟨j', lb', hmemb, hj', hmj'⟩ := entry b m' hm'
    have e1 : la' = la := fst_unique areas hnd a la' la hmema ha
    have e2 : lb' = lb := fst_unique areas hnd b lb' lb hmemb hb
    subst e1 e2
    obtain ⟨hjl, hje⟩ := List.getElem?_eq_some_iff.1 hj
    obtain ⟨hjl', hje'⟩ := List.getElem?_eq_some_iff.1 hj'
    have hs := List.pairwise_iff_getElem.1 hsorted
    have hn := List.pairwise_iff_getElem.1 hnodup
    constructor
    · constructor
      · intro hle
        rcases Nat.lt_or_ge j j' with hlt | hge
        · have := hs j j' hjl hjl' hlt
          rw [hje, hje'] at this; exact this
        · have : j = j' := by omega
          subst this
          rw [hje] at hje'
          rw [← hje']
          rw [keyLe_iff]; omega
      · intro hk
        rcases Nat.lt_or_ge j' j with hlt | hge
        · exfalso
          have h2 := hs j' j hjl' hjl hlt
          rw [hje, hje'] at h2
          have := keyLe_antisymm _ _ hk h2
          have h3 := hn j' j hjl' hjl hlt
          rw [hje, hje'] at h3
          exact h3 this.symm
        · omega
    · intro hmm
      have : j = j' := by omega
      subst this
      rw [hje] at hje'
      have := congrArg (·.2.2) hje'
      simpa [positionKey_number] using this

/-! ### the region's dictionaries have distinct keys -/

theorem foldl_dictSet_nodup {α β} (key : β → Int) (val : β → α) : ∀ (xs : List β) (d : List (Int × α)),
    (d.map (·.1)).Nodup → ((xs.foldl (fun d x => dictSet d (key x) (val x)) d).map (·.1)).Nodup
  | [], d, h => h
  | x :: xs, d, h => foldl_dictSet_nodup key val xs _ (dictSet_nodup d (key x) (val x) h)

theorem candDict_nodup (rd : RegionData) : ((candDict rd).map (·.1)).Nodup :=
  foldl_dictSet_nodup (fun c : CandArea => c.number) (fun c => c.loc) rd.cands [] List.nodup_nil

theorem subDict_nodup (rd : RegionData) : ((subDict rd).map (·.1)).Nodup :=
  foldl_dictSet_nodup (fun c : Area => c.number) (fun c => c.loc) rd.subs [] List.nodup_nil

theorem protoDict_nodup (rd : RegionData) : ((protoDict rd).map (·.1)).Nodup := by
  unfold protoDict
  have : ∀ (cs : List CandArea) (d : List (Int × ProtoArea)), (d.map (·.1)).Nodup →
      ((cs.foldl (fun d c => c.protos.foldl (fun d p => dictSet d p.number p) d) d).map (·.1)).Nodup := by
    intro cs
    induction cs with
    | nil => intro d h; exact h
    | cons c cs ih =>
      intro d h
      exact ih _ (foldl_dictSet_nodup (fun p : ProtoArea => p.number) (fun p => p) c.protos d h)
  exact this rd.cands [] List.nodup_nil

end ASV.RegionExtract
