/-
  `sorted(locations, key=(start, end))` and `_is_wrapping_shorter` for any number of locations (C04, ring).
-/
import ASV.Proofs.LocOffsetArea
set_option linter.unusedSimpArgs false
set_option linter.unusedVariables false
namespace ASV

/-- the sort key order of `_is_wrapping_shorter`: `(start, end)` lexicographically -/
def KeyLe (x y : Loc) : Prop := x.start < y.start ∨ (x.start = y.start ∧ x.end ≤ y.end)

instance (x y : Loc) : Decidable (KeyLe x y) := by unfold KeyLe; infer_instance

theorem keyLe_iff (x y : Loc) :
    (decide (x.start < y.start) || (x.start == y.start && decide (x.end ≤ y.end))) = true ↔ KeyLe x y := by
  simp only [KeyLe, Bool.or_eq_true, Bool.and_eq_true, beq_iff_eq, decide_eq_true_eq]

theorem insertLocBy_cons (x y : Loc) (ys : List Loc) :
    insertLocBy x (y :: ys) = if KeyLe x y then x :: y :: ys else y :: insertLocBy x ys := by
  by_cases h : KeyLe x y
  · rw [if_pos h]; simp only [insertLocBy]; rw [if_pos ((keyLe_iff x y).2 h)]
  · rw [if_neg h]; simp only [insertLocBy]; rw [if_neg (fun hh => h ((keyLe_iff x y).1 hh))]

theorem KeyLe.trans {x y z : Loc} (h1 : KeyLe x y) (h2 : KeyLe y z) : KeyLe x z := by
  unfold KeyLe at *; omega

theorem KeyLe.total (x y : Loc) : KeyLe x y ∨ KeyLe y x := by
  unfold KeyLe; omega

theorem KeyLe.refl (x : Loc) : KeyLe x x := by
  unfold KeyLe; omega

theorem insertLocBy_perm (x : Loc) (l : List Loc) : (insertLocBy x l).Perm (x :: l) := by
  induction l with
  | nil => simp [insertLocBy]
  | cons y ys ih =>
    rw [insertLocBy_cons]
    by_cases h : KeyLe x y
    · rw [if_pos h]
    · rw [if_neg h]
      exact (List.Perm.cons y ih).trans (List.Perm.swap x y ys)

theorem sortLocs_cons (x : Loc) (l : List Loc) : sortLocs (x :: l) = insertLocBy x (sortLocs l) := rfl

theorem sortLocs_perm (l : List Loc) : (sortLocs l).Perm l := by
  induction l with
  | nil => exact List.Perm.refl _
  | cons x xs ih =>
    rw [sortLocs_cons]
    exact (insertLocBy_perm x _).trans (List.Perm.cons x ih)

/-- the head of a list is minimal for the sort key -/
def HeadMin : List Loc → Prop
  | [] => True
  | f :: rest => ∀ z ∈ f :: rest, KeyLe f z

theorem insertLocBy_headMin (x : Loc) (l : List Loc) (h : HeadMin l) : HeadMin (insertLocBy x l) := by
  cases l with
  | nil => simp [insertLocBy, HeadMin, KeyLe.refl]
  | cons y ys =>
    rw [insertLocBy_cons]
    by_cases hxy : KeyLe x y
    · rw [if_pos hxy]
      intro z hz
      rcases List.mem_cons.1 hz with rfl | hz
      · exact KeyLe.refl _
      · exact hxy.trans (h z hz)
    · rw [if_neg hxy]
      have hyx : KeyLe y x := (KeyLe.total x y).resolve_left hxy
      intro z hz
      rcases List.mem_cons.1 hz with rfl | hz
      · exact KeyLe.refl _
      · have : z ∈ x :: ys := (insertLocBy_perm x ys).mem_iff.1 hz
        rcases List.mem_cons.1 this with rfl | hz'
        · exact hyx
        · exact h z (List.mem_cons_of_mem _ hz')

theorem sortLocs_headMin (l : List Loc) : HeadMin (sortLocs l) := by
  induction l with
  | nil => trivial
  | cons x xs ih => rw [sortLocs_cons]; exact insertLocBy_headMin x _ ih

/-- the sorted list starts with an element of the list that is minimal for the key -/
theorem sortLocs_head (l : List Loc) (hne : l ≠ []) :
    ∃ f rest, sortLocs l = f :: rest ∧ f ∈ l ∧ (∀ z ∈ l, KeyLe f z) ∧ (f :: rest).Perm l := by
  have hp := sortLocs_perm l
  match hs : sortLocs l with
  | [] => rw [hs] at hp; exact absurd (List.nil_perm.1 hp) hne
  | f :: rest =>
    rw [hs] at hp
    refine ⟨f, rest, rfl, hp.mem_iff.1 (by simp), ?_, hp⟩
    have hm := sortLocs_headMin l
    rw [hs] at hm
    intro z hz
    exact hm z (hp.mem_iff.2 hz)

/-- `_is_wrapping_shorter` for locations none of which bridges the origin: with `f` any location
    that is minimal for `(start, end)`, some location starts more than half the record after `f` ends -/
theorem isWrappingShorter_iff (ls : List Loc) (L : Int) (hL : 0 ≤ L)
    (hnb : ls.any bridgesOrigin = false) (hpos : ∀ l ∈ ls, l.start ≤ l.end)
    (f : Loc) (hf : f ∈ ls) (hmin : ∀ z ∈ ls, KeyLe f z) :
    isWrappingShorter ls L = true ↔ ∃ s ∈ ls, s.start - f.end > L / 2 := by
  have hne : ls ≠ [] := List.ne_nil_of_mem hf
  obtain ⟨g, rest, hs, hg, hgmin, hperm⟩ := sortLocs_head ls hne
  have hfg : f.end = g.end ∧ f.start = g.start := by
    have a := hmin g hg
    have b := hgmin f hf
    unfold KeyLe at a b; omega
  have hdiv : 0 ≤ L / 2 := Int.ediv_nonneg hL (by omega)
  unfold isWrappingShorter
  rw [hnb]
  simp only [Bool.false_eq_true, if_false, hs, List.any_eq_true, decide_eq_true_eq]
  constructor
  · rintro ⟨s, hsr, hgt⟩
    exact ⟨s, hperm.mem_iff.1 (List.mem_cons_of_mem _ hsr), by omega⟩
  · rintro ⟨s, hsl, hgt⟩
    have : s ∈ g :: rest := hperm.mem_iff.2 hsl
    rcases List.mem_cons.1 this with rfl | hr
    · have := hpos s hsl; omega
    · exact ⟨s, hr, by omega⟩

/-- `_is_wrapping_shorter` does not depend on the order of the locations -/
theorem isWrappingShorter_perm {l₁ l₂ : List Loc} (hp : l₁.Perm l₂) (L : Int) (hL : 0 ≤ L)
    (hpos : ∀ l ∈ l₁, l.start ≤ l.end) : isWrappingShorter l₁ L = isWrappingShorter l₂ L := by
  have hany : l₁.any bridgesOrigin = l₂.any bridgesOrigin := by
    rw [Bool.eq_iff_iff, List.any_eq_true, List.any_eq_true]
    exact ⟨fun ⟨x, hx, h⟩ => ⟨x, hp.mem_iff.1 hx, h⟩, fun ⟨x, hx, h⟩ => ⟨x, hp.mem_iff.2 hx, h⟩⟩
  cases hb : l₁.any bridgesOrigin
  · by_cases hne : l₁ = []
    · subst hne; rw [List.nil_perm.1 hp]
    · obtain ⟨f, rest, _, hf, hmin, _⟩ := sortLocs_head l₁ hne
      rw [Bool.eq_iff_iff, isWrappingShorter_iff l₁ L hL hb hpos f hf hmin,
        isWrappingShorter_iff l₂ L hL (hany ▸ hb) (fun l hl => hpos l (hp.mem_iff.2 hl)) f (hp.mem_iff.1 hf)
          (fun z hz => hmin z (hp.mem_iff.2 hz))]
      exact ⟨fun ⟨s, hs, h⟩ => ⟨s, hp.mem_iff.1 hs, h⟩, fun ⟨s, hs, h⟩ => ⟨s, hp.mem_iff.2 hs, h⟩⟩
  · unfold isWrappingShorter
    rw [← hany, hb]; rfl

end ASV
