/-
  C02 thm 7, part 4: the printed condition is the rendering of well-spaced layout items whose
  texts are `printTexts c`; hence the tokeniser returns exactly those tokens.
-/
import ASV.Proofs.Parser.Reprint3
namespace ASV.Reprint
open ASV ASV.Rules ASV.Parser ASV.Grammar ASV.Layout

/-- `I` is a well-spaced item list starting without filler, rendering to `chars`, with texts `ts` -/
structure Inv (I : List Item) (chars : List Char) (ts : List String) : Prop where
  first : firstEmpty I
  chain : chain I = true
  render : render I = chars
  texts : texts I = ts

theorem Inv.append {A B : List Item} {ca cb : List Char} {ta tb : List String} (a : Inv A ca ta) (b : Inv B cb tb)
    (h : lastWord A = false ∨ fs B = true) : Inv (A ++ B) (ca ++ cb) (ta ++ tb) := by
  obtain ⟨w, r, rfl⟩ := a.first
  exact ⟨⟨w, r ++ B, rfl⟩, chain_append _ _ a.chain b.chain h, by rw [render_append, a.render, b.render],
    by rw [texts_append, a.texts, b.texts]⟩

/-- `B` after a blank -/
theorem Inv.append_sp {A B : List Item} {ca cb : List Char} {ta tb : List String} (a : Inv A ca ta) (b : Inv B cb tb) :
    Inv (A ++ lead sp B) (ca ++ ' ' :: cb) (ta ++ tb) := by
  obtain ⟨w, r, rfl⟩ := a.first
  exact ⟨⟨w, r ++ lead sp B, rfl⟩, chain_append _ _ a.chain (chain_lead b.chain) (Or.inr fs_lead),
    by rw [render_append, a.render, render_lead_sp b.first, b.render],
    by rw [texts_append, a.texts, texts_lead, b.texts]⟩

def preI (neg : Bool) (I : List Item) : List Item := if neg then ([], W "not") :: lead sp I else I

theorem inv_not : Inv [([], W "not")] notSp.dropLast ["not"] :=
  ⟨⟨_, _, rfl⟩, by decide +kernel, by decide +kernel, by decide +kernel⟩

theorem Inv.pre {I : List Item} {c : List Char} {t : List String} (neg : Bool) (a : Inv I c t) :
    Inv (preI neg I) (notPrefix neg ++ c) (notT neg ++ t) := by
  cases neg with
  | false => simpa [preI, notPrefix_false, notT] using a
  | true =>
    have := inv_not.append_sp a
    simpa [preI, notPrefix_true, notT, notSp] using this

theorem inv_sym (c : Char) (h : isSingleCharToken c = true) : Inv [([], S c)] [c] [String.singleton c] :=
  ⟨⟨_, _, rfl⟩, by simp [chain, itemOk, S, Word.ok, h, Word.isWord, fs], by simp [render, gapChars, S, Word.chars],
    by simp [texts, S, Word.text]⟩

theorem inv_open : Inv [([], S '(')] ['('] ["("] := by
  have := inv_sym '(' (by decide +kernel); simpa using this
theorem inv_close : Inv [([], S ')')] [')'] [")"] := by
  have := inv_sym ')' (by decide +kernel); simpa using this
theorem inv_comma : Inv [([], S ',')] [','] [","] := by
  have := inv_sym ',' (by decide +kernel); simpa using this
theorem inv_lopen : Inv [([], S '[')] ['['] ["["] := by
  have := inv_sym '[' (by decide +kernel); simpa using this
theorem inv_lclose : Inv [([], S ']')] [']'] ["]"] := by
  have := inv_sym ']' (by decide +kernel); simpa using this

theorem inv_word {t : String} (hne : t.toList ≠ []) (hok : (W t).ok = true) : Inv [([], W t)] t.toList [t] :=
  ⟨⟨_, _, rfl⟩, by simp [chain, itemOk, hok, fs], by simp [render, gapChars, W_chars hne], by simp [texts, W_text hne]⟩

theorem inv_name {n : String} (h : classify n = .identifier) : Inv [([], W n)] n.toList [n] :=
  inv_word (W_name h).1 (W_name h).2.1

theorem inv_digits (v : Nat) : Inv [([], W (toString v))] (toString v).toList [toString v] :=
  inv_word (digits_ne v) (W_digits v).1

theorem inv_kw (t : String) (hne : t.toList ≠ []) (hok : (W t).ok = true) : Inv [([], W t)] t.toList [t] :=
  inv_word hne hok

theorem fs_sym (c : Char) (r : List Item) : fs (([], S c) :: r) = true := by simp [fs, S, Word.isWord]
theorem lastWord_symg (A : List Item) (g : List Filler) (c : Char) : lastWord (A ++ [(g, S c)]) = false := by
  induction A with
  | nil => simp [lastWord, S, Word.isWord]
  | cons it r ih =>
    cases r with
    | nil => simp [lastWord, S, Word.isWord]
    | cons it2 r2 => simpa [lastWord] using ih
theorem lastWord_sym (A : List Item) (c : Char) : lastWord (A ++ [([], S c)]) = false := lastWord_symg A [] c

def idsI : List String → List Item
  | [] => []
  | [a] => [([], W a)]
  | a :: rest => ([], W a) :: ([], S ',') :: lead sp (idsI rest)

theorem inv_ids : ∀ (l : List String), l ≠ [] → (∀ n ∈ l, classify n = .identifier) →
    Inv (idsI l) (joinChars ", ".toList (l.map String.toList)) (idsT l)
  | [], h, _ => absurd rfl h
  | [a], _, hn => by simpa [idsI, joinChars, idsT] using inv_name (hn a (by simp))
  | a :: b :: r, _, hn => by
      have ha := inv_name (hn a (by simp))
      have hr := inv_ids (b :: r) (by simp) (fun n h => hn n (by simp [h]))
      have := (ha.append inv_comma (Or.inr (fs_sym _ _))).append_sp hr
      have hs : ", ".toList = [',', ' '] := by decide
      simpa [idsI, joinChars, idsT, hs] using this

mutual
def items : Cond → List Item
  | .single neg n => preI neg [([], W n)]
  | .score neg n s =>
      preI neg ([([], W "minscore"), ([], S '('), ([], W n), ([], S ',')] ++ lead sp [([], W (toString s.toNat))]
        ++ [([], S ')')])
  | .minimum neg c opts =>
      preI neg ([([], W "minimum"), ([], S '('), ([], W (toString c)), ([], S ',')] ++ lead sp [([], S '[')]
        ++ idsI (sortDedupStr opts) ++ [([], S ']'), ([], S ')')])
  | .cds neg subs =>
      let J := joinI "or" subs
      let t := printJoin orSep subs
      let B := if isSingleton subs && subs.all Cond.isGroup && !(t.head? == some '(') then
        ([], S '(') :: J ++ [([], S ')')] else J
      preI neg ([([], W "cds"), ([], S '(')] ++ B ++ [([], S ')')])
  | .group neg subs =>
      let J := joinI "or" subs
      let t := printJoin orSep subs
      if isSingleton subs && !(subs.all Cond.isConj) then
        if neg && notSpC.isPrefixOf t then [([], W "not")] ++ lead sp (([], S '(') :: J ++ [([], S ')')])
        else preI neg J
      else preI neg (([], S '(') :: J ++ [([], S ')')])
  | .conj subs => joinI "and" subs
def joinI (op : String) : List Cond → List Item
  | [] => []
  | [c] => items c
  | c :: cs => items c ++ lead sp [([], W op)] ++ lead sp (joinI op cs)
end

end ASV.Reprint

namespace ASV.Reprint
open ASV ASV.Rules ASV.Parser ASV.Grammar ASV.Layout

mutual
/-- what the printer needs: scores are not negative, no empty operand or option list -/
def printable : Cond → Bool
  | .single _ _ => true
  | .score _ _ s => decide (0 ≤ s)
  | .minimum _ _ opts => !opts.isEmpty
  | .cds _ subs => !subs.isEmpty && printableL subs
  | .group _ subs => !subs.isEmpty && printableL subs
  | .conj subs => !subs.isEmpty && printableL subs
def printableL : List Cond → Bool
  | [] => true
  | c :: cs => printable c && printableL cs
end

theorem inv_ms : Inv [([], W "minscore"), ([], S '(')] "minscore(".toList ["minscore", "("] :=
  ⟨⟨_, _, rfl⟩, by decide +kernel, by decide +kernel, by decide +kernel⟩
theorem inv_min : Inv [([], W "minimum"), ([], S '(')] "minimum(".toList ["minimum", "("] :=
  ⟨⟨_, _, rfl⟩, by decide +kernel, by decide +kernel, by decide +kernel⟩
theorem inv_cds : Inv [([], W "cds"), ([], S '(')] "cds(".toList ["cds", "("] :=
  ⟨⟨_, _, rfl⟩, by decide +kernel, by decide +kernel, by decide +kernel⟩
theorem inv_or : Inv [([], W "or")] "or".toList ["or"] :=
  ⟨⟨_, _, rfl⟩, by decide +kernel, by decide +kernel, by decide +kernel⟩
theorem inv_and : Inv [([], W "and")] "and".toList ["and"] :=
  ⟨⟨_, _, rfl⟩, by decide +kernel, by decide +kernel, by decide +kernel⟩

theorem lw2 (a : Item) (c : Char) : lastWord [a, ([], S c)] = false := by simp [lastWord, S, Word.isWord]

theorem toString_int_nonneg {s : Int} (h : 0 ≤ s) : toString s = toString s.toNat := by
  obtain ⟨n, rfl⟩ := Int.eq_ofNat_of_zero_le h
  rfl

theorem sep_or : orSep = ' ' :: "or".toList ++ [' '] := by decide
theorem sep_and : andSep = ' ' :: "and".toList ++ [' '] := by decide
theorem lit_comma_sp : ", ".toList = [',', ' '] := by decide
theorem lit_comma_sp_l : ", [".toList = [',', ' ', '['] := by decide
theorem lit_close2 : "])".toList = [']', ')'] := by decide

end ASV.Reprint
