/-
  C02, completeness direction (parse_pp): every token string whose keys are the flattening of a
  well-shaped condition list without repeated operands is parsed into exactly that list —
  for every nesting depth and operator mix: `not` binds tighter than `and`, `and` tighter than `or`,
  parentheses and `cds(...)` group.  Strong induction on the number of tokens.
-/
import ASV.Proofs.Parser.Stream
namespace ASV.Parser
open ASV ASV.Rules ASV.Grammar

/-- an operand of an `or`: a lone atom, or the `and`-chain of `a` and `atoms` -/
def operand (a : Cond) (atoms : List Cond) : Cond :=
  match atoms with
  | [] => a
  | _ :: _ => .conj (a :: atoms)

def NotBinop (k : List Tok) : Prop := headType k ≠ some .andOp ∧ headType k ≠ some .orOp

theorem flatC_operand (a : Cond) (atoms : List Cond) :
    flatC (operand a atoms) = flatC a ++ joinTail .andOp atoms := by
  cases atoms with
  | nil => simp [operand, joinTail]
  | cons b more => simp only [operand, flatC]; rw [flatJoin_cons]

/-- an `or`-operand of the documented shape is an atom or an `and`-chain of at least two atoms -/
theorem operand_of_shape {allow : Bool} {c : Cond} (h : shapeOk allow c = true) (hn : noRepeat c = true) :
    ∃ a atoms, c = operand a atoms ∧ Good allow a ∧ a.isAtomish = true ∧ Goods allow atoms ∧
      atoms.all Cond.isAtomish = true ∧ (atoms ≠ [] → hasDupStr (printConds (a :: atoms)) = false) := by
  cases c with
  | conj subs =>
    simp only [shapeOk, Bool.and_eq_true, decide_eq_true_eq] at h
    obtain ⟨⟨hl, hat⟩, hs⟩ := h
    simp only [noRepeat, Bool.and_eq_true, Bool.not_eq_true'] at hn
    match subs, hl with
    | a :: b :: more, _ =>
      simp only [List.all_cons, Bool.and_eq_true] at hat
      simp only [shapeOks, Bool.and_eq_true] at hs
      simp only [noRepeats, Bool.and_eq_true] at hn
      refine ⟨a, b :: more, rfl, ⟨hs.1, hn.2.1⟩, hat.1, ⟨?_, ?_⟩, ?_, fun _ => hn.1⟩
      · simp [shapeOks, hs.2.1, hs.2.2]
      · simp [noRepeats, hn.2.2.1, hn.2.2.2]
      · simp [hat.2.1, hat.2.2]
  | single neg n => exact ⟨_, [], rfl, ⟨h, hn⟩, rfl, Goods.nil _, rfl, fun h => absurd rfl h⟩
  | score neg n s => exact ⟨_, [], rfl, ⟨h, hn⟩, rfl, Goods.nil _, rfl, fun h => absurd rfl h⟩
  | minimum neg n o => exact ⟨_, [], rfl, ⟨h, hn⟩, rfl, Goods.nil _, rfl, fun h => absurd rfl h⟩
  | cds neg s => exact ⟨_, [], rfl, ⟨h, hn⟩, rfl, Goods.nil _, rfl, fun h => absurd rfl h⟩
  | group neg s => exact ⟨_, [], rfl, ⟨h, hn⟩, rfl, Goods.nil _, rfl, fun h => absurd rfl h⟩

theorem Goods.of_cons {al : Bool} {c : Cond} {cs : List Cond} (h : Goods al (c :: cs)) : Good al c ∧ Goods al cs := by
  obtain ⟨h1, h2⟩ := h
  simp only [shapeOks, Bool.and_eq_true] at h1
  simp only [noRepeats, Bool.and_eq_true] at h2
  exact ⟨⟨h1.1, h2.1⟩, ⟨h1.2, h2.2⟩⟩

/-- the four statements, for token strings of at most `n` tokens -/
def SC (n : Nat) : Prop :=
  ∀ (allow : Bool) (c : Cond) (fuel : Nat) (w k cons : List Tok) (r : List Rule), w.length ≤ n →
    Good allow c → c.isAtomish = true → w.map Tok.key = flatC c → 3 * w.length + 1 ≤ fuel →
    parseSingle fuel allow (ofStream (w ++ k) cons r) = .ok (c, ofStream k (w.reverse ++ cons) r)

def CC (n : Nat) : Prop :=
  ∀ (allow isGroup : Bool) (L : List Cond) (fuel : Nat) (w k cons : List Tok) (r : List Rule), w.length ≤ n →
    L ≠ [] → Goods allow L → w.map Tok.key = flatJoin .orOp L → NotBinop k →
    (∀ c r, endCheck isGroup (ofStream k c r) = .ok ()) → 3 * w.length + 2 ≤ fuel →
    parseConditions fuel allow isGroup (ofStream (w ++ k) cons r) = .ok (L, ofStream k (w.reverse ++ cons) r)

def LC (n : Nat) : Prop :=
  ∀ (allow : Bool) (a : Cond) (atoms cs : List Cond) (fuel : Nat) (acc : List Cond) (w k cons : List Tok)
    (r : List Rule), w.length ≤ n → Goods allow atoms → atoms.all Cond.isAtomish = true →
    (atoms ≠ [] → hasDupStr (printConds (a :: atoms)) = false) → Goods allow cs →
    w.map Tok.key = joinTail .andOp atoms ++ joinTail .orOp cs → NotBinop k → 3 * w.length + 2 ≤ fuel →
    condLoop fuel allow acc a true (ofStream (w ++ k) cons r) =
      .ok (acc ++ operand a atoms :: cs, ofStream k (w.reverse ++ cons) r)

def AC (n : Nat) : Prop :=
  ∀ (allow : Bool) (more : List Cond) (fuel : Nat) (acc : List Cond) (w k cons : List Tok) (r : List Rule),
    w.length ≤ n → Goods allow more → more.all Cond.isAtomish = true → w.map Tok.key = joinTail .andOp more →
    headType k ≠ some .andOp → 3 * w.length + 1 ≤ fuel →
    andLoop fuel allow acc (ofStream (w ++ k) cons r) = .ok (acc ++ more, ofStream k (w.reverse ++ cons) r)

theorem SC.mono {n m : Nat} (h : SC n) (hm : m ≤ n) : SC m :=
  fun al c f w k cons r hw => h al c f w k cons r (Nat.le_trans hw hm)
theorem CC.mono {n m : Nat} (h : CC n) (hm : m ≤ n) : CC m :=
  fun al g L f w k cons r hw => h al g L f w k cons r (Nat.le_trans hw hm)
theorem LC.mono {n m : Nat} (h : LC n) (hm : m ≤ n) : LC m :=
  fun al a ats cs f acc w k cons r hw => h al a ats cs f acc w k cons r (Nat.le_trans hw hm)
theorem AC.mono {n m : Nat} (h : AC n) (hm : m ≤ n) : AC m :=
  fun al more f acc w k cons r hw => h al more f acc w k cons r (Nat.le_trans hw hm)

/-- first key of an atom's flattening is never a binary operator or a `not` when not negated … we only
    need: what the parser looks at after `[not]` -/
theorem headType_append_of_ne {w k : List Tok} (h : w ≠ []) : headType (w ++ k) = headType w := by
  cases w with
  | nil => exact absurd rfl h
  | cons t ts => rfl

theorem map_key_ne_nil {w : List Tok} {ks : List Key} (h : w.map Tok.key = ks) (hk : ks ≠ []) : w ≠ [] := by
  intro hw; subst hw; simp at h; exact hk h

/-- the type of the first token of `w`, read off its keys -/
theorem headType_of_keys {w : List Tok} {k0 : Key} {ks : List Key} (h : w.map Tok.key = k0 :: ks) :
    headType w = some k0.type := by
  obtain ⟨t, w', rfl, ht, _⟩ := List.map_eq_cons_iff.mp h
  simp [key_type ht]

end ASV.Parser

namespace ASV.Parser
open ASV ASV.Rules ASV.Grammar

theorem flatIds_length (opts : List String) : opts.length ≤ (flatIds opts).length := by
  induction opts with
  | nil => simp
  | cons a rest ih =>
    rw [flatIds_cons]
    cases rest with
    | nil => simp
    | cons b r => rw [flatIds_cons] at ih; simp [idsTail] at ih ⊢; omega

theorem flatNot_length (neg : Bool) : (flatNot neg).length ≤ 1 := by cases neg <;> simp [flatNot]

theorem flatC_atom_ne_nil {c : Cond} (h : c.isAtomish = true) : flatC c ≠ [] := by
  cases c <;> simp [flatC, Cond.isAtomish] at h ⊢

theorem ac_step (n : Nat) (hS : ∀ m < n, SC m) (hA : ∀ m < n, AC m) : AC n := by
  intro allow more fuel acc w k cons r hwn g hat hw hk hf
  obtain ⟨f, rfl⟩ : ∃ f, fuel = f + 1 := ⟨fuel - 1, by omega⟩
  cases more with
  | nil =>
    simp [joinTail] at hw; subst hw
    simp [andLoop, curIs_ofStream, hk]
  | cons m ms =>
    simp only [joinTail, List.flatMap_cons, List.cons_append] at hw
    obtain ⟨t, w1, rfl, ht, hw⟩ := List.map_eq_cons_iff.mp hw
    obtain ⟨wm, w', rfl, hm, hw'⟩ := List.map_eq_append_iff.mp hw
    obtain ⟨gm, gms⟩ := g.of_cons
    simp only [List.all_cons, Bool.and_eq_true] at hat
    simp only [List.length_cons, List.length_append] at hwn hf
    have h1 := hS wm.length (by omega) allow m f wm (w' ++ k) (t :: cons) r (Nat.le_refl _) gm hat.1 hm (by omega)
    have h2 := hA w'.length (by omega) allow ms f (acc ++ [m]) w' k (wm.reverse ++ t :: cons) r (Nat.le_refl _) gms hat.2
      (by simpa [joinTail] using hw') hk (by omega)
    rw [andLoop]
    simp only [List.cons_append, List.append_assoc, curIs_ofStream, headType_cons, key_kOf ht, beq_self_eq_true,
      ↓reduceIte, consumeKw_ofStream ht, bind, Except.bind, h1, h2]
    simp

/-- one `or` step of the loop of `_parse_conditions` -/
theorem or_step (n : Nat) (hS : ∀ m < n, SC m) (hL : ∀ m < n, LC m)
    (allow : Bool) (lv : Cond) (pending : Bool) (c' : Cond) (cs' : List Cond) (f : Nat) (acc : List Cond)
    (w k cons : List Tok) (r : List Rule) (hwn : w.length ≤ n) (g : Goods allow (c' :: cs'))
    (hw : w.map Tok.key = joinTail .orOp (c' :: cs')) (hk : NotBinop k) (hf : 3 * w.length + 2 ≤ f + 1) :
    condLoop (f + 1) allow acc lv pending (ofStream (w ++ k) cons r) =
      .ok ((if pending then acc ++ [lv] else acc) ++ c' :: cs', ofStream k (w.reverse ++ cons) r) := by
  obtain ⟨gc, gcs⟩ := g.of_cons
  obtain ⟨a', atoms', rfl, ga, hata, gat, hatat, hdup⟩ := operand_of_shape gc.shape gc.norep
  simp only [joinTail, List.flatMap_cons, List.cons_append] at hw
  obtain ⟨t, w1, rfl, ht, hw⟩ := List.map_eq_cons_iff.mp hw
  obtain ⟨wc, wr, rfl, hc, hr⟩ := List.map_eq_append_iff.mp hw
  rw [flatC_operand] at hc
  obtain ⟨wa, wt, rfl, ha, hta⟩ := List.map_eq_append_iff.mp hc
  simp only [List.length_cons, List.length_append] at hwn hf
  have h1 := hS wa.length (by omega) allow a' f wa (wt ++ wr ++ k) (t :: cons) r (Nat.le_refl _) ga hata ha (by omega)
  have h2 := hL (wt ++ wr).length (by simp; omega) allow a' atoms' cs' f (if pending then acc ++ [lv] else acc)
    (wt ++ wr) k (wa.reverse ++ t :: cons) r (Nat.le_refl _) gat hatat hdup gcs
    (by rw [List.map_append, hta]; simp [joinTail, hr]) hk (by simp; omega)
  simp only [List.append_assoc] at h1 h2
  rw [condLoop]
  simp only [List.cons_append, List.append_assoc, curIs_ofStream, headType_cons, key_kOf ht, beq_self_eq_true,
    ↓reduceIte, consumeKw_ofStream ht, bind, Except.bind, h1]
  simp [h2]

theorem lc_step (n : Nat) (hS : ∀ m < n, SC m) (hA : ∀ m < n, AC m) (hL : ∀ m < n, LC m) : LC n := by
  intro allow a atoms cs fuel acc w k cons r hwn gat hatat hdup gcs hw hk hf
  obtain ⟨f, rfl⟩ : ∃ f, fuel = f + 1 := ⟨fuel - 1, by omega⟩
  cases atoms with
  | nil =>
    simp only [joinTail, List.flatMap_nil, List.nil_append] at hw
    cases cs with
    | nil =>
      simp at hw; subst hw
      simp [condLoop, curIs_ofStream, hk.1, hk.2, operand]
    | cons c' cs' =>
      have := or_step n hS hL allow a true c' cs' f acc w k cons r hwn gcs (by simpa [joinTail] using hw) hk hf
      simpa [operand] using this
  | cons b more =>
    simp only [joinTail, List.flatMap_cons, List.cons_append, List.append_assoc] at hw
    obtain ⟨t, w1, rfl, ht, hw⟩ := List.map_eq_cons_iff.mp hw
    obtain ⟨wb, w2, rfl, hb, hw⟩ := List.map_eq_append_iff.mp hw
    obtain ⟨wm, wo, rfl, hm, ho⟩ := List.map_eq_append_iff.mp hw
    obtain ⟨gb, gmore⟩ := gat.of_cons
    simp only [List.all_cons, Bool.and_eq_true] at hatat
    simp only [List.length_cons, List.length_append] at hwn hf
    obtain ⟨g, rfl⟩ : ∃ g, f = g + 1 := ⟨f - 1, by omega⟩
    have hko : headType (wo ++ k) ≠ some .andOp := by
      cases cs with
      | nil => simp at ho; subst ho; simpa using hk.1
      | cons c' cs' =>
        simp only [List.flatMap_cons, List.cons_append] at ho
        obtain ⟨t', wo', rfl, ht', _⟩ := List.map_eq_cons_iff.mp ho
        simp [key_kOf ht']
    have h1 := hS wb.length (by omega) allow b g wb (wm ++ (wo ++ k)) (t :: cons) r (Nat.le_refl _) gb hatat.1 hb (by omega)
    have h2 := hA wm.length (by omega) allow more g [a, b] wm (wo ++ k) (wb.reverse ++ t :: cons) r (Nat.le_refl _)
      gmore hatat.2 (by simpa [joinTail] using hm) hko (by omega)
    have hmk : mkConj ([a, b] ++ more) = .ok (.conj (a :: b :: more)) := by
      have := hdup (by simp)
      simp [mkConj, checkOperands, this, bind, Except.bind, pure, Except.pure]
    -- what follows the `and`-chain
    have h3 : condLoop (g + 1) allow (acc ++ [.conj (a :: b :: more)]) a false
        (ofStream (wo ++ k) (wm.reverse ++ (wb.reverse ++ t :: cons)) r) =
        .ok (acc ++ [.conj (a :: b :: more)] ++ cs, ofStream k (wo.reverse ++ (wm.reverse ++ (wb.reverse ++ t :: cons))) r) := by
      cases cs with
      | nil =>
        simp at ho; subst ho
        simp [condLoop, curIs_ofStream, hk.1, hk.2]
      | cons c' cs' =>
        have := or_step n hS hL allow a false c' cs' g (acc ++ [.conj (a :: b :: more)]) wo k
          (wm.reverse ++ (wb.reverse ++ t :: cons)) r (by omega) gcs (by simpa [joinTail] using ho) hk (by omega)
        simpa using this
    rw [condLoop]
    simp only [List.cons_append, List.append_assoc, curIs_ofStream, headType_cons, key_kOf ht, beq_self_eq_true,
      ↓reduceIte, bind, Except.bind]
    rw [parseAnds]
    simp only [consumeKw_ofStream ht, bind, Except.bind, h1, h2, hmk, pure, Except.pure, h3]
    simp [operand]

end ASV.Parser

namespace ASV.Parser
open ASV ASV.Rules ASV.Grammar

theorem cc_step (n : Nat) (hS : SC n) (hL : ∀ m < n, LC m) : CC n := by
  intro allow isGroup L fuel w k cons r hwn ne g hw hk hend hf
  obtain ⟨f, rfl⟩ : ∃ f, fuel = f + 1 := ⟨fuel - 1, by omega⟩
  cases L with
  | nil => exact absurd rfl ne
  | cons c cs =>
    obtain ⟨gc, gcs⟩ := g.of_cons
    obtain ⟨a, atoms, rfl, ga, hata, gat, hatat, hdup⟩ := operand_of_shape gc.shape gc.norep
    rw [flatJoin_cons, flatC_operand] at hw
    obtain ⟨wc, wr, rfl, hc, hr⟩ := List.map_eq_append_iff.mp hw
    obtain ⟨wa, wt, rfl, ha, hta⟩ := List.map_eq_append_iff.mp hc
    have hane : wa ≠ [] := map_key_ne_nil ha (flatC_atom_ne_nil hata)
    simp only [List.length_append] at hwn hf
    have hapos : 1 ≤ wa.length := by
      cases wa with
      | nil => exact absurd rfl hane
      | cons _ _ => simp
    have h1 := hS allow a f wa (wt ++ wr ++ k) cons r (by omega) ga hata ha (by omega)
    have h2 := hL (wt ++ wr).length (by simp; omega) allow a atoms cs f [] (wt ++ wr) k (wa.reverse ++ cons) r
      (Nat.le_refl _) gat hatat hdup gcs (by rw [List.map_append, hta, hr]) hk (by simp; omega)
    simp only [List.append_assoc] at h1 h2
    have hcur : (ofStream (wa ++ (wt ++ (wr ++ k))) cons r).cur.isNone = false := by
      cases wa with
      | nil => exact absurd rfl hane
      | cons t ts => simp
    rw [parseConditions]
    simp only [List.append_assoc, hcur, Bool.false_eq_true, ↓reduceIte, bind, Except.bind, h1, h2]
    simp [hend, pure, Except.pure]

theorem sc_step (n : Nat) (hC : ∀ m < n, CC m) : SC n := by
  intro allow c fuel w k cons r hwn g hat hw hf
  obtain ⟨f, rfl⟩ : ∃ f, fuel = f + 1 := ⟨fuel - 1, by omega⟩
  cases c with
  | conj subs => simp [Cond.isAtomish] at hat
  | single neg nm =>
    simp only [flatC] at hw
    obtain ⟨wn, wi, rfl, hn, hi⟩ := List.map_eq_append_iff.mp hw
    obtain ⟨t, w', rfl, ht, hw'⟩ := List.map_eq_cons_iff.mp hi
    simp at hw'; subst hw'
    obtain ⟨hty, htx⟩ := key_kId ht
    have h0 := isNot_ofStream (k := t :: k) (c := cons) (r := r) hn (by simp [hty])
    rw [parseSingle]
    simp only [List.append_assoc, List.cons_append, List.nil_append, bind, Except.bind, h0, ofStream_cur_cons, hty]
    simp [consumeId_ofStream ht, bind, Except.bind, pure, Except.pure]
  | score neg nm sc =>
    simp only [flatC] at hw
    obtain ⟨wn, wi, rfl, hn, hi⟩ := List.map_eq_append_iff.mp hw
    obtain ⟨t, w', rfl, ht, hw'⟩ := List.map_eq_cons_iff.mp hi
    have hty := key_kOf ht
    have h0 := isNot_ofStream (k := (t :: w') ++ k) (c := cons) (r := r) hn (by simp [hty])
    have h1 := parseScore_ofStream (neg := neg) (k := k) (c := wn.reverse ++ cons) (r := r) hi
    have hsc : 0 ≤ sc := by
      have := g.shape
      simpa only [shapeOk, decide_eq_true_eq] using this
    rw [parseSingle]
    simp only [List.append_assoc, bind, Except.bind, h0]
    simp only [List.cons_append, ofStream_cur_cons, hty]
    simp only [List.cons_append] at h1
    simp [h1]
    omega
  | minimum neg count opts =>
    have hs := g.shape
    have hr := g.norep
    simp only [shapeOk, Bool.and_eq_true, Bool.not_eq_true', List.isEmpty_eq_false_iff] at hs
    simp only [noRepeat, Bool.and_eq_true, Bool.not_eq_true', decide_eq_true_eq] at hr
    obtain ⟨rfl, hne⟩ := hs
    simp only [flatC, List.append_assoc] at hw
    obtain ⟨wn, wi, rfl, hn, hi⟩ := List.map_eq_append_iff.mp hw
    have hi' : wi.map Tok.key = [kOf .minimum, kOf .groupOpen, kInt count, kOf .comma, kOf .listOpen] ++ flatIds opts
        ++ [kOf .listClose, kOf .groupClose] := by simpa using hi
    obtain ⟨t, w', rfl, ht, hw'⟩ := List.map_eq_cons_iff.mp hi
    have hty := key_kOf ht
    have h0 := isNot_ofStream (k := (t :: w') ++ k) (c := cons) (r := r) hn (by simp [hty])
    have hlen : opts.length ≤ f := by
      have h1 := flatIds_length opts
      have h2 : (List.map Tok.key (t :: w')).length = (t :: w').length := List.length_map _
      rw [hi'] at h2
      simp only [List.length_append, List.length_cons, List.length_nil] at h2 hf
      omega
    have h1 := parseMinimum_ofStream (neg := neg) (count := count) hne hr.1 hr.2 (fuel := f) (k := k)
      (c := wn.reverse ++ cons) (r := r) hi' hlen
    rw [parseSingle]
    simp only [List.append_assoc, bind, Except.bind, h0]
    simp only [List.cons_append, ofStream_cur_cons, hty]
    simp only [List.cons_append] at h1
    simp [h1]
  | cds neg subs =>
    have hs := g.shape
    have hr := g.norep
    simp only [shapeOk, Bool.and_eq_true, Bool.not_eq_true', List.isEmpty_eq_false_iff] at hs
    simp only [noRepeat, Bool.and_eq_true, Bool.not_eq_true'] at hr
    obtain ⟨⟨⟨rfl, hne⟩, hsubs⟩, hlone⟩ := hs
    simp only [flatC, List.append_assoc, List.cons_append, List.nil_append] at hw
    obtain ⟨wn, wi, rfl, hn, hi⟩ := List.map_eq_append_iff.mp hw
    obtain ⟨t1, w1, rfl, ht1, hi⟩ := List.map_eq_cons_iff.mp hi
    obtain ⟨t2, w2, rfl, ht2, hi⟩ := List.map_eq_cons_iff.mp hi
    obtain ⟨wb, we, rfl, hb, he⟩ := List.map_eq_append_iff.mp hi
    obtain ⟨t3, w3, rfl, ht3, he⟩ := List.map_eq_cons_iff.mp he
    simp at he; subst he
    have hty1 := key_kOf ht1
    have h0 := isNot_ofStream (k := (t1 :: t2 :: (wb ++ [t3])) ++ k) (c := cons) (r := r) hn (by simp [hty1])
    simp only [List.length_cons, List.length_append, List.length_nil] at hwn hf
    obtain ⟨f', rfl⟩ : ∃ f', f = f' + 1 := ⟨f - 1, by omega⟩
    have h1 := hC wb.length (by omega) false true subs f' wb (t3 :: k) (t2 :: t1 :: (wn.reverse ++ cons)) r
      (Nat.le_refl _) hne ⟨hsubs, hr.2⟩ hb (by simp [NotBinop, key_kOf ht3])
      (by intro c r; simp [endCheck, key_kOf ht3]) (by omega)
    have hmk : mkCds neg subs = .ok (.cds neg subs) := by
      simp [mkCds, checkOperands, hr.1, bind, Except.bind, pure, Except.pure]
    rw [parseSingle]
    simp only [List.append_assoc, bind, Except.bind, h0]
    simp only [List.cons_append, ofStream_cur_cons, hty1]
    rw [parseCds]
    simp only [List.cons_append, List.nil_append, List.append_assoc] at h1 ⊢
    simp [consumeKw_ofStream ht1, consumeKw_ofStream ht2, bind, Except.bind, h1, hlone, consumeKw_ofStream ht3, hmk,
      pure, Except.pure]
  | group neg subs =>
    have hs := g.shape
    have hr := g.norep
    simp only [shapeOk, Bool.and_eq_true, Bool.not_eq_true', List.isEmpty_eq_false_iff] at hs
    simp only [noRepeat, Bool.and_eq_true, Bool.not_eq_true'] at hr
    obtain ⟨hne, hsubs⟩ := hs
    simp only [flatC, List.append_assoc, List.cons_append, List.nil_append] at hw
    obtain ⟨wn, wi, rfl, hn, hi⟩ := List.map_eq_append_iff.mp hw
    obtain ⟨t1, w1, rfl, ht1, hi⟩ := List.map_eq_cons_iff.mp hi
    obtain ⟨wb, we, rfl, hb, he⟩ := List.map_eq_append_iff.mp hi
    obtain ⟨t3, w3, rfl, ht3, he⟩ := List.map_eq_cons_iff.mp he
    simp at he; subst he
    have hty1 := key_kOf ht1
    have h0 := isNot_ofStream (k := (t1 :: (wb ++ [t3])) ++ k) (c := cons) (r := r) hn (by simp [hty1])
    simp only [List.length_cons, List.length_append, List.length_nil] at hwn hf
    obtain ⟨f', rfl⟩ : ∃ f', f = f' + 1 := ⟨f - 1, by omega⟩
    have h1 := hC wb.length (by omega) allow true subs f' wb (t3 :: k) (t1 :: (wn.reverse ++ cons)) r
      (Nat.le_refl _) hne ⟨hsubs, hr.2⟩ hb (by simp [NotBinop, key_kOf ht3])
      (by intro c r; simp [endCheck, key_kOf ht3]) (by omega)
    have hmk : mkGroup neg subs = .ok (.group neg subs) := by
      simp [mkGroup, checkOperands, hr.1, bind, Except.bind, pure, Except.pure]
    rw [parseSingle]
    simp only [List.append_assoc, bind, Except.bind, h0]
    simp only [List.cons_append, ofStream_cur_cons, hty1]
    rw [parseGroup]
    simp only [List.cons_append, List.nil_append, List.append_assoc] at h1 ⊢
    simp [consumeKw_ofStream ht1, bind, Except.bind, h1, consumeKw_ofStream ht3, hmk, pure, Except.pure]

end ASV.Parser

namespace ASV.Parser
open ASV ASV.Rules ASV.Grammar

theorem all_complete : ∀ n, SC n ∧ CC n ∧ LC n ∧ AC n := by
  intro n
  induction n using Nat.strongRecOn with
  | _ n ih =>
    have hS : ∀ m < n, SC m := fun m h => (ih m h).1
    have hC : ∀ m < n, CC m := fun m h => (ih m h).2.1
    have hL : ∀ m < n, LC m := fun m h => (ih m h).2.2.1
    have hA : ∀ m < n, AC m := fun m h => (ih m h).2.2.2
    have s := sc_step n hC
    exact ⟨s, cc_step n s hL, lc_step n hS hA hL, ac_step n hS hA⟩

/-- completeness of `_parse_conditions` on alias-free input, at the level of keys -/
theorem parseConditions_complete (allow isGroup : Bool) (L : List Cond) (fuel : Nat) (w k cons : List Tok)
    (r : List Rule) (ne : L ≠ []) (hs : shapeOks allow L = true) (hr : noRepeats L = true)
    (hw : w.map Tok.key = flatJoin .orOp L) (hk : NotBinop k)
    (hend : ∀ c r, endCheck isGroup (ofStream k c r) = .ok ()) (hf : 3 * w.length + 2 ≤ fuel) :
    parseConditions fuel allow isGroup (ofStream (w ++ k) cons r) = .ok (L, ofStream k (w.reverse ++ cons) r) :=
  (all_complete w.length).2.1 allow isGroup L fuel w k cons r (Nat.le_refl _) ne ⟨hs, hr⟩ hw hk hend hf

end ASV.Parser
