/-
  Helper lemmas for C02: how the primitive parser steps move the state
  (`consumed` only grows, `rules`/`aliases` are untouched) and which keys they record.
-/
import ASV.Spec.Grammar
namespace ASV.Parser
open ASV ASV.Rules ASV.Grammar

theorem bind_ok {ε α β} {x : Except ε α} {f : α → Except ε β} {b : β} :
    (x >>= f) = .ok b ↔ ∃ a, x = .ok a ∧ f a = .ok b := by
  cases x <;> simp [bind, Except.bind]

/-- the keys of the tokens consumed by a step, in reading order (`new` is newest-first) -/
def ks (new : List Tok) : List Key := new.reverse.map Tok.key

@[simp] theorem ks_nil : ks [] = [] := rfl
@[simp] theorem ks_single (c : Tok) : ks [c] = [c.key] := rfl
theorem ks_append (a b : List Tok) : ks (a ++ b) = ks b ++ ks a := by simp [ks]
@[simp] theorem ks_cons (c : Tok) (a : List Tok) : ks (c :: a) = ks a ++ [c.key] := by simp [ks]

/-- tokens not yet consumed (alias-free reading) -/
def PS.pending (s : PS) : Nat := (if s.cur.isSome then 1 else 0) + s.rest.length

def isStarter (t : Tok) : Bool := t.type == .rule || t.type == .define

/-- `RULE`/`DEFINE` tokens not yet consumed -/
def PS.starters (s : PS) : Nat := (s.cur.toList ++ s.rest).countP isStarter

/-- no alias definition contains a rule keyword -/
def NoKwA (A : Aliases) : Prop := ∀ p ∈ A, ∀ t ∈ p.2, t.type.isRuleKeyword = false

/-- a step from `s` to `s'` that consumed exactly `new` and left rules and aliases alone; it never
    adds unread tokens (without aliases) nor unread `RULE`/`DEFINE` tokens -/
structure Adv (s s' : PS) (new : List Tok) : Prop where
  consumed : s'.consumed = new ++ s.consumed
  rules : s'.rules = s.rules
  aliases : s'.aliases = s.aliases
  pot : s.aliases = [] → s'.pending + new.length ≤ s.pending
  starters : NoKwA s.aliases → s'.starters + new.countP isStarter ≤ s.starters

theorem Adv.refl (s : PS) : Adv s s [] := ⟨rfl, rfl, rfl, fun _ => by simp, fun _ => by simp⟩

theorem Adv.trans {s s1 s2 : PS} {n1 n2 : List Tok} (a : Adv s s1 n1) (b : Adv s1 s2 n2) :
    Adv s s2 (n2 ++ n1) :=
  ⟨by rw [b.consumed, a.consumed, List.append_assoc], by rw [b.rules, a.rules], by rw [b.aliases, a.aliases],
   fun h => by
     have h1 := a.pot h
     have h2 := b.pot (by rw [a.aliases, h])
     simp only [List.length_append]; omega,
   fun h => by
     have h1 := a.starters h
     have h2 := b.starters (by rw [a.aliases]; exact h)
     simp only [List.countP_append]; omega⟩

theorem isStarter_kw {t : Tok} (h : isStarter t = true) : t.type.isRuleKeyword = true := by
  simp only [isStarter, Bool.or_eq_true, beq_iff_eq] at h
  rcases h with h | h <;> rw [h] <;> rfl

theorem countP_starter_nokw {l : List Tok} (h : ∀ t ∈ l, t.type.isRuleKeyword = false) : l.countP isStarter = 0 := by
  rw [List.countP_eq_zero]
  intro t ht hs
  have := isStarter_kw hs
  rw [h t ht] at this; cases this

/-- skipping raw tokens: the new position is a suffix of the old stream -/
theorem Adv.of_suffix {s : PS} {c c' : Tok} {pre rest' : List Tok} (hc : s.cur = some c)
    (h : c :: s.rest = pre ++ c' :: rest') : Adv s { s with cur := some c', rest := rest' } [] := by
  refine ⟨rfl, rfl, rfl, fun _ => ?_, fun _ => ?_⟩
  · have := congrArg List.length h
    simp only [PS.pending, hc, List.length_cons, List.length_append] at this ⊢
    simp; omega
  · have := congrArg (List.countP isStarter) h
    simp only [PS.starters, hc, Option.toList_some, List.cons_append, List.nil_append, List.countP_append] at this ⊢
    simp only [List.countP_nil, Nat.add_zero]
    omega

/-- re-flagging the current token -/
theorem Adv.of_flag {s : PS} {c : Tok} (hc : s.cur = some c) :
    Adv s { s with cur := some { c with aliased := true } } [] := by
  refine ⟨rfl, rfl, rfl, fun _ => ?_, fun _ => ?_⟩
  · simp [PS.pending, hc]
  · simp [PS.starters, hc, List.countP_cons, isStarter]

theorem advance_adv {s s' : PS} (h : s.advance = .ok s') :
    Adv s s' [] ∧ (s.aliases = [] → s'.pending = s.rest.length) ∧
      (NoKwA s.aliases → s'.starters ≤ s.rest.countP isStarter) := by
  unfold PS.advance at h
  split at h
  · rename_i hr
    cases h
    refine ⟨⟨rfl, rfl, rfl, fun _ => by simp [PS.pending], fun _ => by simp [PS.starters, hr]⟩,
      fun _ => by simp [PS.pending, hr], fun _ => by simp [PS.starters, hr]⟩
  · rename_i n r hr
    have key : ∀ (b : Tok) (more : List Tok), (NoKwA s.aliases → (b :: more).countP isStarter ≤ (n :: r).countP isStarter) →
        (s.aliases = [] → more.length = r.length) →
        Adv s { s with cur := some b, rest := more } [] ∧
          (s.aliases = [] → ({ s with cur := some b, rest := more } : PS).pending = s.rest.length) ∧
          (NoKwA s.aliases → ({ s with cur := some b, rest := more } : PS).starters ≤ s.rest.countP isStarter) := by
      intro b more hst hlen
      refine ⟨⟨rfl, rfl, rfl, fun ha => ?_, fun hk => ?_⟩, fun ha => ?_, fun hk => ?_⟩
      · have := hlen ha
        simp only [PS.pending, hr, List.length_cons, List.length_nil]
        simp; split <;> omega
      · have := hst hk
        simp only [PS.starters, hr, Option.toList_some, List.cons_append, List.nil_append, List.countP_nil] at this ⊢
        cases s.cur <;> simp [List.countP_cons] at this ⊢ <;> omega
      · have := hlen ha
        simp [PS.pending, hr, this]; omega
      · have := hst hk
        simpa [PS.starters, hr] using this
    split at h
    · rename_i hid
      split at h
      · rename_i body hl
        split at h
        · cases h
        · rename_i b more hbm
          cases h
          refine key b more (fun hk => ?_) (fun ha => ?_)
          · rw [← hbm, List.countP_append]
            have hmem : ∃ k', (k', body) ∈ s.aliases := by
              clear hbm
              revert hl
              generalize s.aliases = A
              intro hl
              induction A with
              | nil => cases hl
              | cons p ps ih =>
                obtain ⟨a, bb⟩ := p
                simp only [List.lookup] at hl
                split at hl
                · cases hl; exact ⟨a, by simp⟩
                · obtain ⟨k', hk'⟩ := ih hl; exact ⟨k', by simp [hk']⟩
            obtain ⟨k', hm⟩ := hmem
            rw [countP_starter_nokw (hk _ hm)]
            simp [List.countP_cons]
          · rw [ha] at hl; cases hl
      · cases h
        exact key n r (fun _ => Nat.le_refl _) (fun _ => rfl)
    · cases h
      exact key n r (fun _ => Nat.le_refl _) (fun _ => rfl)

theorem consume_post {t : TT} {s s' : PS} {c : Tok} (h : consume t s = .ok (c, s')) :
    Adv s s' [c] ∧ c.type = t ∧ s.cur = some c := by
  unfold consume at h
  split at h
  · cases h
  · rename_i c' hc
    split at h
    · cases h
    · rename_i hne
      rw [bind_ok] at h
      obtain ⟨s1, h1, h⟩ := h
      cases h
      obtain ⟨this, hp, hs⟩ := advance_adv h1
      refine ⟨⟨by simpa using this.consumed, this.rules, this.aliases, fun ha => ?_, fun hk => ?_⟩,
        by simpa using hne, hc⟩
      · have := hp ha
        simp only at this
        simp only [PS.pending] at this
        simp only [PS.pending, hc, Option.isSome_some, ↓reduceIte, List.length_cons, List.length_nil]
        omega
      · have := hs hk
        simp only at this
        simp only [PS.starters, hc, Option.toList_some, List.cons_append, List.nil_append, List.countP_cons,
          List.countP_nil] at this ⊢
        omega

theorem skipText_spec (rest : List Tok) : ∀ (c : Tok) (acc sk : List Tok) (c' : Tok) (rest' : List Tok),
    skipText c rest acc = some (sk, c', rest') → ∃ pre, c :: rest = pre ++ c' :: rest' := by
  induction rest with
  | nil =>
    intro c acc sk c' rest' h
    unfold skipText at h
    split at h
    · cases h; exact ⟨[], rfl⟩
    · cases h
  | cons n r ih =>
    intro c acc sk c' rest' h
    unfold skipText at h
    split at h
    · cases h; exact ⟨[], rfl⟩
    · obtain ⟨pre, hp⟩ := ih n _ _ _ _ h
      exact ⟨c :: pre, by rw [hp]; rfl⟩

theorem key_of_type {c : Tok} {t : TT} (h : c.type = t) (h1 : t ≠ .identifier) (h2 : t ≠ .int) :
    c.key = kOf t := by
  subst h; simp [Tok.key, kOf, h1, h2]

theorem consumeId_post {s s' : PS} {n : String} (h : consumeId s = .ok (n, s')) :
    ∃ c, Adv s s' [c] ∧ c.key = kId n ∧ s.cur = some c := by
  unfold consumeId at h
  simp only [bind_ok, Prod.exists] at h
  obtain ⟨c, s1, h1, h⟩ := h
  cases h
  obtain ⟨a, ht, hc⟩ := consume_post h1
  exact ⟨c, a, by simp [Tok.key, kId, ht], hc⟩

theorem consumeInt_post {s s' : PS} {v : Nat} (h : consumeInt s = .ok (v, s')) :
    ∃ c, Adv s s' [c] ∧ c.key = kInt v ∧ s.cur = some c := by
  unfold consumeInt at h
  simp only [bind_ok, Prod.exists] at h
  obtain ⟨c, s1, h1, h⟩ := h
  cases h
  obtain ⟨a, ht, hc⟩ := consume_post h1
  exact ⟨c, a, by simp [Tok.key, kInt, ht], hc⟩

theorem curIs_iff {s : PS} {t : TT} : s.curIs t = true ↔ ∃ c, s.cur = some c ∧ c.type = t := by
  unfold PS.curIs
  cases s.cur <;> simp

theorem isNot_post {s s' : PS} {neg : Bool} (h : isNot s = .ok (neg, s')) :
    ∃ new, Adv s s' new ∧ ks new = flatNot neg := by
  unfold isNot at h
  split at h
  · simp only [bind_ok, Prod.exists] at h
    obtain ⟨c, s1, h1, h⟩ := h
    cases h
    obtain ⟨a, ht, _⟩ := consume_post h1
    exact ⟨[c], a, by simp [flatNot, key_of_type ht]⟩
  · cases h
    exact ⟨[], Adv.refl _, by simp [flatNot]⟩

/-! ### identifier lists -/

def idsTail (more : List String) : List Key := more.flatMap fun n => [kOf .comma, kId n]

theorem flatIds_cons (a : String) (more : List String) : flatIds (a :: more) = kId a :: idsTail more := by
  induction more generalizing a with
  | nil => simp [flatIds, idsTail]
  | cons b rest ih => simp [flatIds, idsTail, ih b]

theorem idsTail_append (a b : List String) : idsTail (a ++ b) = idsTail a ++ idsTail b := by
  simp [idsTail]

theorem idsLoop_post (fuel : Nat) : ∀ {acc : List String} {s s' : PS} {ids : List String},
    idsLoop fuel acc s = .ok (ids, s') →
    ∃ new more, ids = acc ++ more ∧ Adv s s' new ∧ ks new = idsTail more := by
  induction fuel with
  | zero => intro acc s s' ids h; simp [idsLoop] at h
  | succ n ih =>
    intro acc s s' ids h
    rw [idsLoop] at h
    split at h
    · simp only [bind_ok, Prod.exists] at h
      obtain ⟨c, s1, h1, m, s2, h2, h⟩ := h
      obtain ⟨a1, t1, _⟩ := consume_post h1
      obtain ⟨c2, a2, k2, _⟩ := consumeId_post h2
      obtain ⟨new, more, rfl, a3, k3⟩ := ih h
      refine ⟨new ++ ([c2] ++ [c]), m :: more, by simp, (a1.trans a2).trans a3, ?_⟩
      simp [ks_append, k3, k2, key_of_type t1, idsTail]
    · cases h
      exact ⟨[], [], by simp, Adv.refl _, by simp [idsTail]⟩

theorem parseIds_post {fuel : Nat} {s s' : PS} {ids : List String} (h : parseIds fuel s = .ok (ids, s')) :
    ∃ new, Adv s s' new ∧ ks new = flatIds ids ∧ ids ≠ [] := by
  unfold parseIds at h
  simp only [bind_ok, Prod.exists] at h
  obtain ⟨n, s1, h1, h⟩ := h
  obtain ⟨c, a1, k1, _⟩ := consumeId_post h1
  obtain ⟨new, more, rfl, a2, k2⟩ := idsLoop_post fuel h
  refine ⟨new ++ [c], a1.trans a2, ?_, by simp⟩
  simp [ks_append, k1, k2, flatIds_cons]

theorem parseList_post {fuel : Nat} {s s' : PS} {ids : List String} (h : parseList fuel s = .ok (ids, s')) :
    ∃ new, Adv s s' new ∧ ks new = kOf .listOpen :: flatIds ids ++ [kOf .listClose] ∧ ids ≠ [] := by
  unfold parseList at h
  simp only [bind_ok, Prod.exists] at h
  obtain ⟨c1, s1, h1, ids', s2, h2, c3, s3, h3, h⟩ := h
  cases h
  obtain ⟨a1, t1, _⟩ := consume_post h1
  obtain ⟨new, a2, k2, ne⟩ := parseIds_post h2
  obtain ⟨a3, t3, _⟩ := consume_post h3
  refine ⟨[c3] ++ (new ++ [c1]), (a1.trans a2).trans a3, ?_, ne⟩
  simp [ks_append, k2, key_of_type t1, key_of_type t3]

theorem mkMinimum_ok {neg : Bool} {count : Nat} {opts : List String} {c : Cond}
    (h : mkMinimum neg count opts = .ok c) :
    c = .minimum neg count opts ∧ hasDupStr opts = false ∧ 1 ≤ count := by
  unfold mkMinimum at h
  split at h
  · cases h
  · split at h
    · cases h
    · cases h
      rename_i h1 h2
      exact ⟨rfl, by simpa using h1, by omega⟩

theorem parseMinimum_post {fuel : Nat} {neg : Bool} {s s' : PS} {c : Cond}
    (h : parseMinimum fuel neg s = .ok (c, s')) :
    ∃ new count opts, c = .minimum neg count opts ∧ Adv s s' new ∧
      ks new = [kOf .minimum, kOf .groupOpen, kInt count, kOf .comma, kOf .listOpen] ++ flatIds opts
        ++ [kOf .listClose, kOf .groupClose] ∧
      opts ≠ [] ∧ hasDupStr opts = false ∧ 1 ≤ count := by
  unfold parseMinimum at h
  simp only [bind_ok, Prod.exists] at h
  obtain ⟨c1, s1, h1, c2, s2, h2, count, s3, h3, c4, s4, h4, opts, s5, h5, c6, s6, h6,
    c', h7, h⟩ := h
  cases h
  obtain ⟨a1, t1, _⟩ := consume_post h1
  obtain ⟨a2, t2, _⟩ := consume_post h2
  obtain ⟨c3, a3, k3, _⟩ := consumeInt_post h3
  obtain ⟨a4, t4, _⟩ := consume_post h4
  obtain ⟨new, a5, k5, ne⟩ := parseList_post h5
  obtain ⟨a6, t6, _⟩ := consume_post h6
  obtain ⟨rfl, nd, pos⟩ := mkMinimum_ok h7
  refine ⟨_, count, opts, rfl, ((((a1.trans a2).trans a3).trans a4).trans a5).trans a6, ?_, ne, nd, pos⟩
  simp [ks_append, k3, k5, key_of_type t1, key_of_type t2, key_of_type t4, key_of_type t6]

theorem parseScore_post {neg : Bool} {s s' : PS} {c : Cond} (h : parseScore neg s = .ok (c, s')) :
    ∃ new n v, c = .score neg n (Int.ofNat v) ∧ Adv s s' new ∧
      ks new = [kOf .score, kOf .groupOpen, kId n, kOf .comma, kInt v, kOf .groupClose] := by
  unfold parseScore at h
  simp only [bind_ok, Prod.exists] at h
  obtain ⟨c1, s1, h1, c2, s2, h2, n, s3, h3, c4, s4, h4, v, s5, h5, c6, s6, h6, h⟩ := h
  cases h
  obtain ⟨a1, t1, _⟩ := consume_post h1
  obtain ⟨a2, t2, _⟩ := consume_post h2
  obtain ⟨c3, a3, k3, _⟩ := consumeId_post h3
  obtain ⟨a4, t4, _⟩ := consume_post h4
  obtain ⟨c5, a5, k5, _⟩ := consumeInt_post h5
  obtain ⟨a6, t6, _⟩ := consume_post h6
  refine ⟨_, n, v, rfl, ((((a1.trans a2).trans a3).trans a4).trans a5).trans a6, ?_⟩
  simp [k3, k5, key_of_type t1, key_of_type t2, key_of_type t4, key_of_type t6]

end ASV.Parser
