/-
  Helper lemmas for C02: how the primitive parser steps move the state
  (`consumed` only grows, `rules`/`aliases` are untouched) and which keys they record.
-/
import ASV.Spec.Grammar
namespace ASV.Parser
open ASV ASV.Rules ASV.Grammar

theorem bind_ok {ε α β} {x : Except ε α} {f : α → Except ε β} {b : β} :
    (x >>= f) = .ok b ↔ ∃ a, x = .ok a ∧ f a = .ok b := by
  cases x <;> simp [bind, Except.bind]

/-- the keys of the tokens consumed by a step, in reading order (`new` is newest-first) -/
def ks (new : List Tok) : List Key := new.reverse.map Tok.key

@[simp] theorem ks_nil : ks [] = [] := rfl
@[simp] theorem ks_single (c : Tok) : ks [c] = [c.key] := rfl
theorem ks_append (a b : List Tok) : ks (a ++ b) = ks b ++ ks a := by simp [ks]
@[simp] theorem ks_cons (c : Tok) (a : List Tok) : ks (c :: a) = ks a ++ [c.key] := by simp [ks]

/-- a step from `s` to `s'` that consumed exactly `new` and left rules and aliases alone -/
structure Adv (s s' : PS) (new : List Tok) : Prop where
  consumed : s'.consumed = new ++ s.consumed
  rules : s'.rules = s.rules
  aliases : s'.aliases = s.aliases

theorem Adv.refl (s : PS) : Adv s s [] := ⟨rfl, rfl, rfl⟩

theorem Adv.trans {s s1 s2 : PS} {n1 n2 : List Tok} (a : Adv s s1 n1) (b : Adv s1 s2 n2) :
    Adv s s2 (n2 ++ n1) :=
  ⟨by rw [b.consumed, a.consumed, List.append_assoc], by rw [b.rules, a.rules], by rw [b.aliases, a.aliases]⟩

/-- changing only the stream position -/
theorem Adv.of_pos {s : PS} {c : Option Tok} {r : List Tok} : Adv s { s with cur := c, rest := r } [] :=
  ⟨rfl, rfl, rfl⟩

theorem advance_adv {s s' : PS} (h : s.advance = .ok s') : Adv s s' [] := by
  unfold PS.advance at h
  split at h
  · cases h; exact ⟨rfl, rfl, rfl⟩
  · split at h
    · split at h
      · split at h
        · cases h
        · cases h; exact ⟨rfl, rfl, rfl⟩
      · cases h; exact ⟨rfl, rfl, rfl⟩
    · cases h; exact ⟨rfl, rfl, rfl⟩

theorem consume_post {t : TT} {s s' : PS} {c : Tok} (h : consume t s = .ok (c, s')) :
    Adv s s' [c] ∧ c.type = t ∧ s.cur = some c := by
  unfold consume at h
  split at h
  · cases h
  · rename_i c' hc
    split at h
    · cases h
    · rename_i hne
      rw [bind_ok] at h
      obtain ⟨s1, h1, h⟩ := h
      cases h
      have := advance_adv h1
      exact ⟨⟨by simpa using this.consumed, this.rules, this.aliases⟩, by simpa using hne, hc⟩

theorem key_of_type {c : Tok} {t : TT} (h : c.type = t) (h1 : t ≠ .identifier) (h2 : t ≠ .int) :
    c.key = kOf t := by
  subst h; simp [Tok.key, kOf, h1, h2]

theorem consumeId_post {s s' : PS} {n : String} (h : consumeId s = .ok (n, s')) :
    ∃ c, Adv s s' [c] ∧ c.key = kId n ∧ s.cur = some c := by
  unfold consumeId at h
  simp only [bind_ok, Prod.exists] at h
  obtain ⟨c, s1, h1, h⟩ := h
  cases h
  obtain ⟨a, ht, hc⟩ := consume_post h1
  exact ⟨c, a, by simp [Tok.key, kId, ht], hc⟩

theorem consumeInt_post {s s' : PS} {v : Nat} (h : consumeInt s = .ok (v, s')) :
    ∃ c, Adv s s' [c] ∧ c.key = kInt v ∧ s.cur = some c := by
  unfold consumeInt at h
  simp only [bind_ok, Prod.exists] at h
  obtain ⟨c, s1, h1, h⟩ := h
  cases h
  obtain ⟨a, ht, hc⟩ := consume_post h1
  exact ⟨c, a, by simp [Tok.key, kInt, ht], hc⟩

theorem curIs_iff {s : PS} {t : TT} : s.curIs t = true ↔ ∃ c, s.cur = some c ∧ c.type = t := by
  unfold PS.curIs
  cases s.cur <;> simp

theorem isNot_post {s s' : PS} {neg : Bool} (h : isNot s = .ok (neg, s')) :
    ∃ new, Adv s s' new ∧ ks new = flatNot neg := by
  unfold isNot at h
  split at h
  · simp only [bind_ok, Prod.exists] at h
    obtain ⟨c, s1, h1, h⟩ := h
    cases h
    obtain ⟨a, ht, _⟩ := consume_post h1
    exact ⟨[c], a, by simp [flatNot, key_of_type ht]⟩
  · cases h
    exact ⟨[], Adv.refl _, by simp [flatNot]⟩

/-! ### identifier lists -/

def idsTail (more : List String) : List Key := more.flatMap fun n => [kOf .comma, kId n]

theorem flatIds_cons (a : String) (more : List String) : flatIds (a :: more) = kId a :: idsTail more := by
  induction more generalizing a with
  | nil => simp [flatIds, idsTail]
  | cons b rest ih => simp [flatIds, idsTail, ih b]

theorem idsTail_append (a b : List String) : idsTail (a ++ b) = idsTail a ++ idsTail b := by
  simp [idsTail]

theorem idsLoop_post (fuel : Nat) : ∀ {acc : List String} {s s' : PS} {ids : List String},
    idsLoop fuel acc s = .ok (ids, s') →
    ∃ new more, ids = acc ++ more ∧ Adv s s' new ∧ ks new = idsTail more := by
  induction fuel with
  | zero => intro acc s s' ids h; simp [idsLoop] at h
  | succ n ih =>
    intro acc s s' ids h
    rw [idsLoop] at h
    split at h
    · simp only [bind_ok, Prod.exists] at h
      obtain ⟨c, s1, h1, m, s2, h2, h⟩ := h
      obtain ⟨a1, t1, _⟩ := consume_post h1
      obtain ⟨c2, a2, k2, _⟩ := consumeId_post h2
      obtain ⟨new, more, rfl, a3, k3⟩ := ih h
      refine ⟨new ++ ([c2] ++ [c]), m :: more, by simp, (a1.trans a2).trans a3, ?_⟩
      simp [ks_append, k3, k2, key_of_type t1, idsTail]
    · cases h
      exact ⟨[], [], by simp, Adv.refl _, by simp [idsTail]⟩

theorem parseIds_post {fuel : Nat} {s s' : PS} {ids : List String} (h : parseIds fuel s = .ok (ids, s')) :
    ∃ new, Adv s s' new ∧ ks new = flatIds ids ∧ ids ≠ [] := by
  unfold parseIds at h
  simp only [bind_ok, Prod.exists] at h
  obtain ⟨n, s1, h1, h⟩ := h
  obtain ⟨c, a1, k1, _⟩ := consumeId_post h1
  obtain ⟨new, more, rfl, a2, k2⟩ := idsLoop_post fuel h
  refine ⟨new ++ [c], a1.trans a2, ?_, by simp⟩
  simp [ks_append, k1, k2, flatIds_cons]

theorem parseList_post {fuel : Nat} {s s' : PS} {ids : List String} (h : parseList fuel s = .ok (ids, s')) :
    ∃ new, Adv s s' new ∧ ks new = kOf .listOpen :: flatIds ids ++ [kOf .listClose] ∧ ids ≠ [] := by
  unfold parseList at h
  simp only [bind_ok, Prod.exists] at h
  obtain ⟨c1, s1, h1, ids', s2, h2, c3, s3, h3, h⟩ := h
  cases h
  obtain ⟨a1, t1, _⟩ := consume_post h1
  obtain ⟨new, a2, k2, ne⟩ := parseIds_post h2
  obtain ⟨a3, t3, _⟩ := consume_post h3
  refine ⟨[c3] ++ (new ++ [c1]), (a1.trans a2).trans a3, ?_, ne⟩
  simp [ks_append, k2, key_of_type t1, key_of_type t3]

theorem mkMinimum_ok {neg : Bool} {count : Nat} {opts : List String} {c : Cond}
    (h : mkMinimum neg count opts = .ok c) :
    c = .minimum neg count opts ∧ hasDupStr opts = false ∧ 1 ≤ count := by
  unfold mkMinimum at h
  split at h
  · cases h
  · split at h
    · cases h
    · cases h
      rename_i h1 h2
      exact ⟨rfl, by simpa using h1, by omega⟩

theorem parseMinimum_post {fuel : Nat} {neg : Bool} {s s' : PS} {c : Cond}
    (h : parseMinimum fuel neg s = .ok (c, s')) :
    ∃ new count opts, c = .minimum neg count opts ∧ Adv s s' new ∧
      ks new = [kOf .minimum, kOf .groupOpen, kInt count, kOf .comma, kOf .listOpen] ++ flatIds opts
        ++ [kOf .listClose, kOf .groupClose] ∧
      opts ≠ [] ∧ hasDupStr opts = false ∧ 1 ≤ count := by
  unfold parseMinimum at h
  simp only [bind_ok, Prod.exists] at h
  obtain ⟨c1, s1, h1, c2, s2, h2, count, s3, h3, c4, s4, h4, opts, s5, h5, c6, s6, h6,
    c', h7, h⟩ := h
  cases h
  obtain ⟨a1, t1, _⟩ := consume_post h1
  obtain ⟨a2, t2, _⟩ := consume_post h2
  obtain ⟨c3, a3, k3, _⟩ := consumeInt_post h3
  obtain ⟨a4, t4, _⟩ := consume_post h4
  obtain ⟨new, a5, k5, ne⟩ := parseList_post h5
  obtain ⟨a6, t6, _⟩ := consume_post h6
  obtain ⟨rfl, nd, pos⟩ := mkMinimum_ok h7
  refine ⟨_, count, opts, rfl, ((((a1.trans a2).trans a3).trans a4).trans a5).trans a6, ?_, ne, nd, pos⟩
  simp [ks_append, k3, k5, key_of_type t1, key_of_type t2, key_of_type t4, key_of_type t6]

theorem parseScore_post {neg : Bool} {s s' : PS} {c : Cond} (h : parseScore neg s = .ok (c, s')) :
    ∃ new n v, c = .score neg n (Int.ofNat v) ∧ Adv s s' new ∧
      ks new = [kOf .score, kOf .groupOpen, kId n, kOf .comma, kInt v, kOf .groupClose] := by
  unfold parseScore at h
  simp only [bind_ok, Prod.exists] at h
  obtain ⟨c1, s1, h1, c2, s2, h2, n, s3, h3, c4, s4, h4, v, s5, h5, c6, s6, h6, h⟩ := h
  cases h
  obtain ⟨a1, t1, _⟩ := consume_post h1
  obtain ⟨a2, t2, _⟩ := consume_post h2
  obtain ⟨c3, a3, k3, _⟩ := consumeId_post h3
  obtain ⟨a4, t4, _⟩ := consume_post h4
  obtain ⟨c5, a5, k5, _⟩ := consumeInt_post h5
  obtain ⟨a6, t6, _⟩ := consume_post h6
  refine ⟨_, n, v, rfl, ((((a1.trans a2).trans a3).trans a4).trans a5).trans a6, ?_⟩
  simp [k3, k5, key_of_type t1, key_of_type t2, key_of_type t4, key_of_type t6]

end ASV.Parser
