/-
  C02: a whole alias-free rule file (several rules, optional SUPERIORS sections) is parsed into the
  rules it denotes — main loop, superiors closure, multipliers, duplicate-name check, final
  identifier check.
-/
import ASV.Proofs.Parser.RulePP
namespace ASV.Parser
open ASV ASV.Rules ASV.Grammar

@[simp] theorem ofStream_rules (k c : List Tok) (r : List Rule) : (ofStream k c r).rules = r := by
  cases k <;> rfl

def supOf (rules : List Rule) (n : String) : List String :=
  match rules.find? (·.name == n) with
  | some p => p.superiors
  | none => []

theorem supFold_ok (rules : List Rule) : ∀ (l : List String) (acc : List String),
    (∀ n ∈ l, (rules.find? (·.name == n)).isSome = true) →
    l.foldlM (fun (acc : List String) name =>
      match rules.find? (·.name == name) with
      | none => (.error .value : Except Err (List String))
      | some r => .ok (acc ++ r.superiors)) acc = .ok (acc ++ l.flatMap (supOf rules)) := by
  intro l
  induction l with
  | nil => intro acc _; simp [pure, Except.pure]
  | cons n ns ih =>
    intro acc h
    have hn := h n (by simp)
    cases hf : rules.find? (·.name == n) with
    | none => rw [hf] at hn; cases hn
    | some p =>
      simp only [List.foldlM_cons, hf, bind, Except.bind]
      rw [ih _ (fun x hx => h x (by simp [hx]))]
      simp [supOf, hf]

theorem closeSup_eq (rules : List Rule) (decl : List String) (h : decl ≠ []) :
    closeSup rules decl = sortDedupStr (decl ++ decl.flatMap (supOf rules)) := by
  unfold closeSup
  have : decl.isEmpty = false := by cases decl <;> simp_all
  simp only [this, Bool.false_eq_true, ↓reduceIte]
  rfl

theorem parseSuperiors_ofStream (rules : List Rule) (decl : List String) (hne : decl ≠ []) (fuel : Nat)
    (k cons : List Tok) (hk : headType k ≠ some .comma) (hf : decl.length ≤ fuel)
    (hd : hasDupStr decl = false) (hfound : ∀ n ∈ decl, (rules.find? (·.name == n)).isSome = true) :
    parseSuperiors fuel (ofStream (kw "SUPERIORS" .superiors :: ppIds decl ++ k) cons rules) =
      .ok (closeSup rules decl,
        ofStream k ((kw "SUPERIORS" .superiors :: ppIds decl).reverse ++ cons) rules) := by
  have h1 := consume_ofStream (t := kw "SUPERIORS" .superiors) (k := ppIds decl ++ k) (c := cons) (r := rules)
    (exp := .superiors) rfl
  have h2 := parseIds_ofStream hne (fuel := fuel) (w := ppIds decl) (k := k) (c := kw "SUPERIORS" .superiors :: cons)
    (r := rules) (ppIds_keys decl) hk hf
  unfold parseSuperiors
  simp only [List.cons_append, bind, Except.bind, h1, h2, hd, Bool.false_eq_true, ↓reduceIte]
  have hfold := supFold_ok rules decl [] hfound
  simp only [PS.ruleByName, ofStream_rules, closeSup_eq rules decl hne]
  erw [hfold]
  simp [pure, Except.pure]

end ASV.Parser

namespace ASV.Parser
open ASV ASV.Rules ASV.Grammar

theorem parseMeta_sup (f : Nat) (rules : List Rule) (decl : List String) (x : Tok) (k cons : List Tok)
    (hx : x.type = .cutoff) (hf : decl.length ≤ f + 1) (hd : hasDupStr decl = false)
    (hfound : ∀ n ∈ decl, (rules.find? (·.name == n)).isSome = true) :
    parseMeta (f + 1) (ofStream (superiorsToks decl ++ x :: k) cons rules) =
      .ok (([], [], [], closeSup rules decl), ofStream (x :: k) ((superiorsToks decl).reverse ++ cons) rules) := by
  by_cases hne : decl = []
  · subst hne
    simpa [superiorsToks, closeSup] using parseMeta_ofStream f x k cons rules hx
  · have hemp : decl.isEmpty = false := by cases decl <;> simp_all
    have hs := parseSuperiors_ofStream rules decl hne (f + 1) (x :: k) cons (by simp [hx]) hf hd hfound
    simp only [superiorsToks, hemp, Bool.false_eq_true, ↓reduceIte, List.cons_append]
    unfold parseMeta parseRelated
    simp only [curIs_ofStream, headType_cons, kw, bind, Except.bind]
    simp only [kw, List.reverse_cons, List.append_assoc, List.cons_append, List.nil_append] at hs
    simp [examplesLoop, curIs_ofStream, hs, pure, Except.pure]

/-- one written rule, in a state that already holds `rules` -/
theorem parseRule_src (cfg : Cfg) (r : RuleSrc) (k cons : List Tok) (rules : List Rule)
    (hcat : cfg.cats.contains r.category = true) (ht : okTop r.conds = true)
    (hpos : positive (shapeTop r.conds) = true) (hd : hasDupStr r.superiors = false)
    (hfound : ∀ n ∈ r.superiors, (rules.find? (·.name == n)).isSome = true)
    (hk : headType k = none ∨ headType k = some .rule ∨ headType k = some .define) :
    parseRule cfg (ofStream (ruleSrcToks r ++ k) cons rules) =
      .ok ({ name := r.name, category := r.category, cutoff := r.cutoffKb * 1000, neighbourhood := r.nbhKb * 1000,
             conditions := shapeTop r.conds, superiors := closeSup rules r.superiors },
           ofStream k ((ruleSrcToks r).reverse ++ cons) rules) := by
  have hnb : NotBinop k := by
    rcases hk with h | h | h <;> simp [NotBinop, h]
  have hend : ∀ c r, endCheck false (ofStream k c r) = .ok () := by
    intro c r
    cases k with
    | nil => simp [endCheck, ofStream]
    | cons x xs =>
      simp only [headType_cons] at hk
      rcases hk with h | h | h
      · cases h
      · simp at h; simp [endCheck, ofStream, h]
      · simp at h; simp [endCheck, ofStream, h]
  have hend' : ∀ c, ruleEnd (ofStream k c rules) = .ok () := by
    intro c
    cases k with
    | nil => simp [ruleEnd, ofStream, pure, Except.pure]
    | cons x xs =>
      simp only [headType_cons] at hk
      rcases hk with h | h | h
      · cases h
      · simp at h; simp [ruleEnd, ofStream, h, pure, Except.pure]
      · simp at h; simp [ruleEnd, ofStream, h, pure, Except.pure]
  have hext : ∀ n c, parseExtenders n (ofStream k c rules) = .ok (none, ofStream k c rules) := by
    intro n c
    have : (ofStream k c rules).curIs .extenders = false := by
      rw [curIs_ofStream]
      rcases hk with h | h | h <;> simp [h]
    simp only [parseExtenders, this, Bool.false_eq_true, ↓reduceIte]
    rfl
  have hgroup : mkGroup false (shapeOr r.conds) = .ok (shapeTop r.conds) := by
    simp only [okTop, Bool.and_eq_true, Bool.not_eq_true'] at ht
    simp [mkGroup, checkOperands, ht.2, bind, Except.bind, pure, Except.pure, shapeTop]
  have hsuplen : (superiorsToks r.superiors).length ≥ r.superiors.length := by
    unfold superiorsToks
    split
    · rename_i h; simp at h; simp [h]
    · have := flatIds_length r.superiors
      have h2 : (ppIds r.superiors).length = (flatIds r.superiors).length := by
        rw [← ppIds_keys]; simp
      simp; omega
  have hbud : 3 * (ppOr r.conds).length + 2 ≤ (ofStream (ruleSrcToks r ++ k) cons rules).budget ∧
      r.superiors.length ≤ (ofStream (ruleSrcToks r ++ k) cons rules).budget := by
    rw [budget_ofStream]
    simp only [ruleSrcToks, ofStream, List.cons_append, List.nil_append, List.append_assoc, List.length_append,
      List.length_cons, List.length_nil]
    omega
  obtain ⟨f, hf⟩ : ∃ f, (ofStream (ruleSrcToks r ++ k) cons rules).budget = f + 1 := by
    rw [budget_ofStream]; exact ⟨_, rfl⟩
  rw [hf] at hbud
  have hmeta := parseMeta_sup f rules r.superiors (kw "CUTOFF" .cutoff)
    (tInt r.cutoffKb :: kw "NEIGHBOURHOOD" .neighbourhood :: tInt r.nbhKb :: kw "CONDITIONS" .conditions ::
      (ppOr r.conds ++ k))
    (tId r.category :: kw "CATEGORY" .category :: tId r.name :: kw "RULE" .rule :: cons) rfl hbud.2 hd hfound
  have hpp := parse_pp_aux r.conds ht (f + 1) k
    (kw "CONDITIONS" .conditions :: tInt r.nbhKb :: kw "NEIGHBOURHOOD" .neighbourhood :: tInt r.cutoffKb ::
      kw "CUTOFF" .cutoff :: ((superiorsToks r.superiors).reverse ++
      (tId r.category :: kw "CATEGORY" .category :: tId r.name :: kw "RULE" .rule :: cons))) rules hnb hend hbud.1
  have hc := consume_ofStream (t := kw "CONDITIONS" .conditions) (k := ppOr r.conds ++ k)
    (c := tInt r.nbhKb :: kw "NEIGHBOURHOOD" .neighbourhood :: tInt r.cutoffKb :: kw "CUTOFF" .cutoff ::
      ((superiorsToks r.superiors).reverse ++
      (tId r.category :: kw "CATEGORY" .category :: tId r.name :: kw "RULE" .rule :: cons))) (r := rules)
    (exp := .conditions) rfl
  have hhead := parseHead_ofStream cfg r.name r.category
  unfold parseRule parseRuleWith
  rw [hf]
  simp only [ruleSrcToks, List.cons_append, List.nil_append, List.append_assoc] at hmeta ⊢
  -- the head needs a token after the category: the first of the SUPERIORS section or CUTOFF
  have hsplit : ∃ y ys, superiorsToks r.superiors ++ kw "CUTOFF" .cutoff :: tInt r.cutoffKb ::
      kw "NEIGHBOURHOOD" .neighbourhood :: tInt r.nbhKb :: kw "CONDITIONS" .conditions :: (ppOr r.conds ++ k) = y :: ys := by
    cases superiorsToks r.superiors with
    | nil => exact ⟨_, _, rfl⟩
    | cons a b => exact ⟨_, _, rfl⟩
  obtain ⟨y, ys, hy⟩ := hsplit
  rw [hy] at hmeta ⊢
  simp only [bind, Except.bind, hhead y ys cons rules hcat, hmeta]
  simp only [parseDistances_ofStream, hc, hpp, hgroup, hext, hend']
  simp [hpos, extendersNegative, pure, Except.pure, List.reverse_cons, List.reverse_append]

end ASV.Parser

namespace ASV.Parser
open ASV ASV.Rules ASV.Grammar

theorem ofStream_with_rules (k c : List Tok) (r r' : List Rule) :
    ({ ofStream k c r with rules := r' } : PS) = ofStream k c r' := by
  cases k <;> rfl

theorem headType_fileToks (rs : List RuleSrc) :
    headType (rs.flatMap ruleSrcToks) = none ∨ headType (rs.flatMap ruleSrcToks) = some .rule ∨
      headType (rs.flatMap ruleSrcToks) = some .define := by
  cases rs with
  | nil => left; rfl
  | cons r rest => right; left; simp [ruleSrcToks, kw]

theorem find_isSome_of_any {rules : List Rule} {n : String} (h : rules.any (·.name == n) = true) :
    (rules.find? (·.name == n)).isSome = true := by
  rw [List.find?_isSome]
  obtain ⟨x, hx, hp⟩ := List.any_eq_true.mp h
  exact ⟨x, hx, hp⟩

/-- the main loop over a written file -/
theorem mainLoop_file (cfg : Cfg) : ∀ (rs : List RuleSrc) (earlier : List Rule) (cons : List Tok) (fuel : Nat),
    srcsOk cfg earlier rs = true → rs.length + 1 ≤ fuel →
    mainLoop fuel cfg (ofStream (rs.flatMap ruleSrcToks) cons earlier) =
      .ok (ofStream [] ((rs.flatMap ruleSrcToks).reverse ++ cons) (denote cfg earlier rs)) := by
  intro rs
  induction rs with
  | nil =>
    intro earlier cons fuel _ hf
    obtain ⟨f, rfl⟩ : ∃ f, fuel = f + 1 := ⟨fuel - 1, by simp at hf; omega⟩
    simp [mainLoop, ofStream, denote]
  | cons r rest ih =>
    intro earlier cons fuel hok hf
    obtain ⟨f, rfl⟩ : ∃ f, fuel = f + 1 := ⟨fuel - 1, by simp at hf; omega⟩
    simp only [srcsOk, srcOk, Bool.and_eq_true, Bool.not_eq_true', List.all_eq_true] at hok
    obtain ⟨⟨⟨⟨⟨⟨⟨hcat, hnew⟩, ht⟩, hpos⟩, _⟩, hdup⟩, hsup⟩, hrest⟩ := hok
    have hp := parseRule_src cfg r (rest.flatMap ruleSrcToks) cons earlier hcat ht hpos hdup
      (fun n hn => find_isSome_of_any (hsup n hn)) (headType_fileToks rest)
    have hih := ih (earlier ++ [denoteRule cfg earlier r]) ((ruleSrcToks r).reverse ++ cons) f hrest
      (by simp at hf; omega)
    have hcur : (ofStream (ruleSrcToks r ++ rest.flatMap ruleSrcToks) cons earlier).cur = some (kw "RULE" .rule) := by
      simp [ruleSrcToks, ofStream]
    rw [mainLoop]
    simp only [List.flatMap_cons, hcur, bind, Except.bind]
    have hty : ((kw "RULE" .rule).type == TT.define) = false := rfl
    have hty2 : ((kw "RULE" .rule).type == TT.rule) = true := rfl
    simp only [hty, hty2, Bool.false_eq_true, ↓reduceIte, hp, ofStream_rules, hnew, ofStream_with_rules]
    show mainLoop f cfg (ofStream (rest.flatMap ruleSrcToks) ((ruleSrcToks r).reverse ++ cons)
      (earlier ++ [denoteRule cfg earlier r])) = _
    rw [hih]
    simp [denote]

end ASV.Parser

namespace ASV.Parser
open ASV ASV.Rules ASV.Grammar

theorem kId_ne_kOf (p : String) (t : TT) (h : t ≠ .identifier) : kId p ≠ kOf t := by
  intro he; have := congrArg Key.type he; simp [kId, kOf] at this; exact h this.symm

theorem mem_flatNot_not_id {p : String} {neg : Bool} : kId p ∉ flatNot neg := by
  cases neg <;> simp [flatNot, kId, kOf]

theorem mem_flatIds_id {p : String} {opts : List String} (h : kId p ∈ flatIds opts) : p ∈ opts := by
  cases opts with
  | nil => simp [flatIds] at h
  | cons a rest =>
    rw [flatIds_cons] at h
    rcases List.mem_cons.mp h with h | h
    · have : p = a := by simpa [kId] using h
      simp [this]
    · simp only [idsTail, List.mem_flatMap, List.mem_cons, List.not_mem_nil, or_false] at h
      obtain ⟨n, hn, h | h⟩ := h
      · simp [kId, kOf] at h
      · have : p = n := by simpa [kId] using h
        subst this; exact List.mem_cons_of_mem _ hn

mutual
theorem ids_flatC (p : String) : ∀ c : Cond, kId p ∈ flatC c → p ∈ c.profiles
  | .single neg n, h => by
      simp only [flatC, List.mem_append, List.mem_singleton] at h
      rcases h with h | h
      · exact absurd h mem_flatNot_not_id
      · have : p = n := by simpa [kId] using h
        simp [Cond.profiles, this]
  | .score neg n s, h => by
      simp only [flatC, List.mem_append, List.mem_cons, List.not_mem_nil, or_false] at h
      rcases h with h | h | h | h | h | h | h
      · exact absurd h mem_flatNot_not_id
      · simp [kId, kOf] at h
      · simp [kId, kOf] at h
      · have : p = n := by simpa [kId] using h
        simp [Cond.profiles, this]
      · simp [kId, kOf] at h
      · simp [kId, kInt] at h
      · simp [kId, kOf] at h
  | .minimum neg c opts, h => by
      simp only [flatC, List.mem_append, List.mem_cons, List.not_mem_nil, or_false] at h
      rcases h with ((h | h | h | h | h | h) | h) | h | h
      · exact absurd h mem_flatNot_not_id
      · simp [kId, kOf] at h
      · simp [kId, kOf] at h
      · simp [kId, kInt] at h
      · simp [kId, kOf] at h
      · simp [kId, kOf] at h
      · simpa [Cond.profiles] using mem_flatIds_id h
      · simp [kId, kOf] at h
      · simp [kId, kOf] at h
  | .cds neg subs, h => by
      simp only [flatC, List.mem_append, List.mem_cons, List.not_mem_nil, or_false] at h
      rcases h with ((h | h | h) | h) | h
      · exact absurd h mem_flatNot_not_id
      · simp [kId, kOf] at h
      · simp [kId, kOf] at h
      · simpa [Cond.profiles] using ids_flatJoin p .orOp (by decide) subs h
      · simp [kId, kOf] at h
  | .group neg subs, h => by
      simp only [flatC, List.mem_append, List.mem_cons, List.not_mem_nil, or_false] at h
      rcases h with ((h | h) | h) | h
      · exact absurd h mem_flatNot_not_id
      · simp [kId, kOf] at h
      · simpa [Cond.profiles] using ids_flatJoin p .orOp (by decide) subs h
      · simp [kId, kOf] at h
  | .conj subs, h => by
      simp only [flatC] at h
      simpa [Cond.profiles] using ids_flatJoin p .andOp (by decide) subs h
theorem ids_flatJoin (p : String) (op : TT) (hop : op ≠ .identifier) : ∀ cs : List Cond,
    kId p ∈ flatJoin op cs → p ∈ profilesL cs
  | [], h => by simp [flatJoin] at h
  | c :: cs, h => by
      rw [flatJoin_cons] at h
      simp only [profilesL, List.mem_append]
      rcases List.mem_append.mp h with h | h
      · exact Or.inl (ids_flatC p c h)
      · cases cs with
        | nil => simp [joinTail] at h
        | cons d ds =>
          rw [joinTail_eq op (by simp)] at h
          rcases List.mem_cons.mp h with h | h
          · exact absurd h (kId_ne_kOf p op hop)
          · exact Or.inr (ids_flatJoin p op hop (d :: ds) h)
end

/-- the identifier tokens of a rendered condition are the profiles of its shape -/
theorem idsOf_ppOr (t : OrE) : ∀ x ∈ idsOf (ppOr t), x ∈ profilesL (shapeOr t) := by
  intro x hx
  simp only [idsOf, List.mem_map, List.mem_filter] at hx
  obtain ⟨tok, ⟨hm, hty⟩, rfl⟩ := hx
  have hk : tok.key = kId tok.text := by
    have : tok.type = .identifier := by simpa using hty
    simp [Tok.key, kId, this]
  have : kId tok.text ∈ (ppOr t).map Tok.key := by rw [← hk]; exact List.mem_map_of_mem hm
  rw [ppOr_keys] at this
  exact ids_flatJoin _ .orOp (by decide) _ this

theorem ppOr_noKeyword (t : OrE) : ∀ tok ∈ ppOr t, tok.type.isRuleKeyword = false := by
  intro tok hm
  have : tok.key ∈ (ppOr t).map Tok.key := List.mem_map_of_mem hm
  rw [ppOr_keys] at this
  simpa [Tok.key] using flatJoin_noKeyword .orOp (by decide) _ _ this

end ASV.Parser

namespace ASV.Parser
open ASV ASV.Rules ASV.Grammar

theorem condIds_skip (l X : List Tok) (h : ∀ t ∈ l, t.type.isRuleKeyword = false) :
    conditionIdentifiers (l ++ X) false = conditionIdentifiers X false := by
  induction l with
  | nil => rfl
  | cons t ts ih =>
    have ht := h t (by simp)
    have hc : (t.type == .conditions) = false := by
      cases hty : t.type <;> simp_all [TT.isRuleKeyword]
    simp [conditionIdentifiers, hc, ht, ih (fun x hx => h x (by simp [hx]))]

theorem ppIds_noKeyword (l : List String) : ∀ tok ∈ ppIds l, tok.type.isRuleKeyword = false := by
  intro tok hm
  have : tok.key ∈ (ppIds l).map Tok.key := List.mem_map_of_mem hm
  rw [ppIds_keys] at this
  simpa [Tok.key] using flatIds_noKeyword _ this

theorem condIds_rule (r : RuleSrc) (X : List Tok) (b : Bool) :
    conditionIdentifiers (ruleSrcToks r ++ X) b = idsOf (ppOr r.conds) ++ conditionIdentifiers X true := by
  have hsup : ∀ Y, conditionIdentifiers (superiorsToks r.superiors ++ Y) false = conditionIdentifiers Y false := by
    intro Y
    unfold superiorsToks
    split
    · rfl
    · simp only [List.cons_append, conditionIdentifiers, kw]
      simp only [show (TT.superiors == TT.conditions) = false from rfl, TT.isRuleKeyword, Bool.false_eq_true, ↓reduceIte]
      exact condIds_skip _ _ (ppIds_noKeyword _)
  simp only [ruleSrcToks, List.cons_append, List.nil_append, List.append_assoc, conditionIdentifiers, kw, tId, tInt]
  simp only [show (TT.rule == TT.conditions) = false from rfl, show (TT.identifier == TT.conditions) = false from rfl,
    show (TT.category == TT.conditions) = false from rfl, show (TT.cutoff == TT.conditions) = false from rfl,
    show (TT.int == TT.conditions) = false from rfl, show (TT.neighbourhood == TT.conditions) = false from rfl,
    TT.isRuleKeyword, Bool.false_eq_true, ↓reduceIte, Bool.false_and, hsup, beq_self_eq_true]
  exact condIds_section _ _ (ppOr_noKeyword _)

theorem condIds_file : ∀ (rs : List RuleSrc) (b : Bool) (x : String),
    x ∈ conditionIdentifiers (rs.flatMap ruleSrcToks) b → ∃ r ∈ rs, x ∈ idsOf (ppOr r.conds) := by
  intro rs
  induction rs with
  | nil => intro b x h; simp [conditionIdentifiers] at h
  | cons r rest ih =>
    intro b x h
    rw [List.flatMap_cons, condIds_rule] at h
    rcases List.mem_append.mp h with h | h
    · exact ⟨r, by simp, h⟩
    · obtain ⟨r', hr', hx⟩ := ih true x h
      exact ⟨r', by simp [hr'], hx⟩

theorem srcsOk_profiles (cfg : Cfg) : ∀ (rs : List RuleSrc) (earlier : List Rule), srcsOk cfg earlier rs = true →
    ∀ r ∈ rs, ∀ x ∈ profilesL (shapeOr r.conds), cfg.sigs.contains x = true := by
  intro rs
  induction rs with
  | nil => intro _ _ r hr; cases hr
  | cons a rest ih =>
    intro earlier hok r hr x hx
    simp only [srcsOk, srcOk, Bool.and_eq_true, List.all_eq_true] at hok
    rcases List.mem_cons.mp hr with rfl | hr
    · exact hok.1.1.1.2 x hx
    · exact ih _ hok.2 r hr x hx

theorem fileToks_length (rs : List RuleSrc) : rs.length ≤ (rs.flatMap ruleSrcToks).length := by
  induction rs with
  | nil => simp
  | cons r rest ih =>
    have h1 : 1 ≤ (ruleSrcToks r).length := by simp [ruleSrcToks]
    rw [List.flatMap_cons, List.length_append, List.length_cons]
    omega

/-- `Parser.__init__` on a written, alias-free file, after the rules of earlier files -/
theorem parseTokens_file (cfg : Cfg) (earlier : List Rule) (rs : List RuleSrc) (hne : rs ≠ [])
    (hok : srcsOk cfg earlier rs = true) :
    parseTokens cfg earlier [] (rs.flatMap ruleSrcToks) = .ok (denote cfg earlier rs, []) := by
  have hloop := mainLoop_file cfg rs earlier [] ((rs.flatMap ruleSrcToks).length + 1) hok
    (by have := fileToks_length rs; omega)
  have hids : (conditionIdentifiers (rs.flatMap ruleSrcToks) false).any (fun n => !cfg.sigs.contains n) = false := by
    rw [List.any_eq_false]
    intro x hx
    obtain ⟨r, hr, hxr⟩ := condIds_file rs false x hx
    have := srcsOk_profiles cfg rs earlier hok r hr x (idsOf_ppOr r.conds x hxr)
    rw [this]; simp
  unfold parseTokens
  cases htoks : rs.flatMap ruleSrcToks with
  | nil =>
    cases rs with
    | nil => exact absurd rfl hne
    | cons r rest => simp [List.flatMap_cons, ruleSrcToks] at htoks
  | cons t rest =>
    rw [htoks] at hloop hids
    have hst : ({ cur := some t, rest := rest, aliases := [], rules := earlier } : PS) = ofStream (t :: rest) [] earlier := rfl
    simp only [List.forM_nil, List.map_nil, bind, Except.bind, pure, Except.pure, hst, hloop]
    have hc : (ofStream [] ((t :: rest).reverse ++ []) (denote cfg earlier rs)).consumed.reverse = t :: rest := by
      simp [ofStream]
    have hr : (ofStream [] ((t :: rest).reverse ++ []) (denote cfg earlier rs)).rules = denote cfg earlier rs := rfl
    have ha : (ofStream [] ((t :: rest).reverse ++ []) (denote cfg earlier rs)).aliases = [] := rfl
    simp only [hc, hids, hr, ha]
    rfl

theorem denote_append (cfg : Cfg) : ∀ (a b : List RuleSrc) (earlier : List Rule),
    denote cfg earlier (a ++ b) = denote cfg (denote cfg earlier a) b := by
  intro a
  induction a with
  | nil => intro b earlier; rfl
  | cons r rest ih => intro b earlier; simp only [List.cons_append, denote, ih]

theorem srcsOk_append (cfg : Cfg) : ∀ (a b : List RuleSrc) (earlier : List Rule),
    srcsOk cfg earlier (a ++ b) = (srcsOk cfg earlier a && srcsOk cfg (denote cfg earlier a) b) := by
  intro a
  induction a with
  | nil => intro b earlier; simp [srcsOk, denote]
  | cons r rest ih => intro b earlier; simp only [List.cons_append, srcsOk, denote, ih, Bool.and_assoc]

/-- `create_rules` on several alias-free files: the rules of all files in order, each file seeing
    the rules of the files before it -/
theorem createRules_files (cfg : Cfg) : ∀ (files : List (String × List RuleSrc)) (earlier : List Rule),
    (∀ f ∈ files, f.2 ≠ [] ∧ tokenise f.1 = .ok (f.2.flatMap ruleSrcToks)) →
    srcsOk cfg earlier (files.flatMap (·.2)) = true →
    createRules cfg (files.map (·.1)) earlier [] = .ok (denote cfg earlier (files.flatMap (·.2))) := by
  intro files
  induction files with
  | nil => intro earlier _ _; rfl
  | cons f rest ih =>
    intro earlier hf hok
    rw [List.flatMap_cons, srcsOk_append, Bool.and_eq_true] at hok
    obtain ⟨hne, htok⟩ := hf f (by simp)
    have := ih (denote cfg earlier f.2) (fun g hg => hf g (by simp [hg])) hok.2
    simp only [List.map_cons, createRules, parseText, bind, Except.bind, htok,
      parseTokens_file cfg earlier f.2 hne hok.1, List.flatMap_cons, denote_append]
    exact this

end ASV.Parser

namespace ASV.Parser
open ASV ASV.Rules ASV.Grammar

/-- the superiors loop succeeded: every listed name is a stored rule, the result is the inherited names in order -/
theorem supFold_inv (rules : List Rule) : ∀ (l : List String) (acc r : List String),
    l.foldlM (fun (acc : List String) name =>
      match rules.find? (·.name == name) with
      | none => (.error .value : Except Err (List String))
      | some r => .ok (acc ++ r.superiors)) acc = .ok r →
    (∀ n ∈ l, (rules.find? (·.name == n)).isSome = true) ∧ r = acc ++ l.flatMap (supOf rules) := by
  intro l
  induction l with
  | nil => intro acc r h; simp [pure, Except.pure] at h; simp [h]
  | cons n ns ih =>
    intro acc r h
    cases hf : rules.find? (·.name == n) with
    | none => simp [List.foldlM_cons, hf, bind, Except.bind] at h
    | some p =>
      simp only [List.foldlM_cons, hf, bind, Except.bind] at h
      obtain ⟨h1, h2⟩ := ih _ _ h
      refine ⟨?_, ?_⟩
      · intro x hx
        rcases List.mem_cons.mp hx with rfl | hx
        · simp [hf]
        · exact h1 x hx
      · simp [h2, supOf, hf]

/-- `_parse_superiors` accepts only a list without repeated names, all of them rules stored before;
    what it returns is the sorted set of the listed names and the (closed) superiors of each -/
theorem parseSuperiors_sound (fuel : Nat) (s s' : PS) (sup : List String)
    (h : parseSuperiors fuel s = .ok (sup, s')) :
    ∃ x s1 decl, consume .superiors s = .ok (x, s1) ∧ parseIds fuel s1 = .ok (decl, s') ∧
      hasDupStr decl = false ∧ (∀ n ∈ decl, (s'.rules.find? (·.name == n)).isSome = true) ∧
      sup = sortDedupStr (decl ++ decl.flatMap (supOf s'.rules)) := by
  unfold parseSuperiors at h
  simp only [bind_ok, Prod.exists] at h
  obtain ⟨x, s1, hc, decl, s2, hi, h⟩ := h
  split at h
  · cases h
  · rename_i hd
    simp only [bind_ok] at h
    obtain ⟨trans, hfold, h⟩ := h
    simp only [pure, Except.pure, Except.ok.injEq, Prod.mk.injEq] at h
    obtain ⟨rfl, rfl⟩ := h
    obtain ⟨hfound, ht⟩ := supFold_inv s2.rules decl [] trans hfold
    refine ⟨x, s1, decl, hc, hi, by simpa using hd, hfound, ?_⟩
    rw [ht]; rfl

end ASV.Parser
