/-
  C02 (3), first half: more fuel never changes a result other than "out of fuel".
  `Le x y`: `x` ran out of fuel, or `x = y`.
-/
import ASV.Proofs.Parser.Main
namespace ASV.Parser
open ASV ASV.Rules ASV.Grammar

def Le {α} (x y : Except Err α) : Prop := x = .error .fuel ∨ x = y

theorem Le.refl {α} (x : Except Err α) : Le x x := Or.inr rfl
theorem Le.fuel {α} (y : Except Err α) : Le (.error .fuel) y := Or.inl rfl

theorem Le.trans {α} {x y z : Except Err α} (h1 : Le x y) (h2 : Le y z) : Le x z := by
  rcases h1 with h | h
  · exact Or.inl h
  · subst h; exact h2

theorem Le.bind {α β} {x y : Except Err α} {k k' : α → Except Err β} (h1 : Le x y)
    (h2 : ∀ a, y = .ok a → Le (k a) (k' a)) : Le (x >>= k) (y >>= k') := by
  rcases h1 with h | h
  · subst h; exact Or.inl rfl
  · subst h
    cases x with
    | error e => exact Or.inr rfl
    | ok a => exact h2 a rfl

/-- a result that is not "out of fuel" is the result for any larger fuel -/
theorem Le.eq_of_ne {α} {x y : Except Err α} (h : Le x y) (hx : x ≠ .error .fuel) : y = x := by
  rcases h with h | h
  · exact absurd h hx
  · exact h.symm

theorem idsLoop_mono : ∀ (n m : Nat), n ≤ m → ∀ (acc : List String) (s : PS), Le (idsLoop n acc s) (idsLoop m acc s) := by
  intro n
  induction n with
  | zero => intro m _ acc s; exact Le.fuel _
  | succ n ih =>
    intro m hm acc s
    obtain ⟨m', rfl⟩ : ∃ m', m = m' + 1 := ⟨m - 1, by omega⟩
    rw [idsLoop, idsLoop]
    split
    · refine Le.bind (Le.refl _) fun p _ => ?_
      refine Le.bind (Le.refl _) fun q _ => ?_
      exact ih m' (by omega) _ _
    · exact Le.refl _

theorem parseIds_mono {n m : Nat} (h : n ≤ m) (s : PS) : Le (parseIds n s) (parseIds m s) := by
  unfold parseIds
  exact Le.bind (Le.refl _) fun p _ => idsLoop_mono n m h _ _

theorem parseList_mono {n m : Nat} (h : n ≤ m) (s : PS) : Le (parseList n s) (parseList m s) := by
  unfold parseList
  refine Le.bind (Le.refl _) fun p _ => ?_
  refine Le.bind (parseIds_mono h _) fun q _ => ?_
  exact Le.refl _

theorem parseMinimum_mono {n m : Nat} (h : n ≤ m) (neg : Bool) (s : PS) :
    Le (parseMinimum n neg s) (parseMinimum m neg s) := by
  unfold parseMinimum
  refine Le.bind (Le.refl _) fun _ _ => ?_
  refine Le.bind (Le.refl _) fun _ _ => ?_
  refine Le.bind (Le.refl _) fun _ _ => ?_
  refine Le.bind (Le.refl _) fun _ _ => ?_
  refine Le.bind (parseList_mono h _) fun _ _ => ?_
  exact Le.refl _

structure BlockMono (n : Nat) : Prop where
  single : ∀ m, n ≤ m → ∀ (allow : Bool) (s : PS), Le (parseSingle n allow s) (parseSingle m allow s)
  group : ∀ m, n ≤ m → ∀ (allow : Bool) (s : PS), Le (parseGroup n allow s) (parseGroup m allow s)
  cds : ∀ m, n ≤ m → ∀ (s : PS), Le (parseCds n s) (parseCds m s)
  conds : ∀ m, n ≤ m → ∀ (allow g : Bool) (s : PS), Le (parseConditions n allow g s) (parseConditions m allow g s)
  loop : ∀ m, n ≤ m → ∀ (allow : Bool) (acc : List Cond) (lv : Cond) (p : Bool) (s : PS),
    Le (condLoop n allow acc lv p s) (condLoop m allow acc lv p s)
  ands : ∀ m, n ≤ m → ∀ (lv : Cond) (allow : Bool) (s : PS), Le (parseAnds n lv allow s) (parseAnds m lv allow s)
  andLoop : ∀ m, n ≤ m → ∀ (allow : Bool) (acc : List Cond) (s : PS), Le (andLoop n allow acc s) (andLoop m allow acc s)

theorem blockMono (n : Nat) : BlockMono n := by
  induction n with
  | zero =>
    constructor <;> intros <;> exact Le.fuel _
  | succ n ih =>
    constructor
    · intro m hm allow s
      obtain ⟨m', rfl⟩ : ∃ m', m = m' + 1 := ⟨m - 1, by omega⟩
      have hm' : n ≤ m' := by omega
      rw [parseSingle, parseSingle]
      refine Le.bind (Le.refl _) fun p _ => ?_
      obtain ⟨neg, s1⟩ := p
      simp only
      cases s1.cur with
      | none => exact Le.refl _
      | some c =>
        simp only
        split
        · refine Le.bind (ih.group m' hm' _ _) fun _ _ => ?_
          exact Le.refl _
        · split
          · exact parseMinimum_mono hm' _ _
          · split
            · refine Le.bind (ih.cds m' hm' _) fun _ _ => ?_
              exact Le.refl _
            · exact Le.refl _
    · intro m hm allow s
      obtain ⟨m', rfl⟩ : ∃ m', m = m' + 1 := ⟨m - 1, by omega⟩
      have hm' : n ≤ m' := by omega
      rw [parseGroup, parseGroup]
      refine Le.bind (Le.refl _) fun _ _ => ?_
      refine Le.bind (ih.conds m' hm' _ _ _) fun _ _ => ?_
      exact Le.refl _
    · intro m hm s
      obtain ⟨m', rfl⟩ : ∃ m', m = m' + 1 := ⟨m - 1, by omega⟩
      have hm' : n ≤ m' := by omega
      rw [parseCds, parseCds]
      refine Le.bind (Le.refl _) fun _ _ => ?_
      refine Le.bind (Le.refl _) fun _ _ => ?_
      refine Le.bind (ih.conds m' hm' _ _ _) fun _ _ => ?_
      exact Le.refl _
    · intro m hm allow g s
      obtain ⟨m', rfl⟩ : ∃ m', m = m' + 1 := ⟨m - 1, by omega⟩
      have hm' : n ≤ m' := by omega
      rw [parseConditions, parseConditions]
      split
      · exact Le.refl _
      · refine Le.bind (ih.single m' hm' _ _) fun _ _ => ?_
        refine Le.bind (ih.loop m' hm' _ _ _ _ _) fun _ _ => ?_
        exact Le.refl _
    · intro m hm allow acc lv p s
      obtain ⟨m', rfl⟩ : ∃ m', m = m' + 1 := ⟨m - 1, by omega⟩
      have hm' : n ≤ m' := by omega
      rw [condLoop, condLoop]
      split
      · refine Le.bind (ih.ands m' hm' _ _ _) fun _ _ => ?_
        exact ih.loop m' hm' _ _ _ _ _
      · split
        · refine Le.bind (Le.refl _) fun _ _ => ?_
          refine Le.bind (ih.single m' hm' _ _) fun _ _ => ?_
          exact ih.loop m' hm' _ _ _ _ _
        · exact Le.refl _
    · intro m hm lv allow s
      obtain ⟨m', rfl⟩ : ∃ m', m = m' + 1 := ⟨m - 1, by omega⟩
      have hm' : n ≤ m' := by omega
      rw [parseAnds, parseAnds]
      refine Le.bind (Le.refl _) fun _ _ => ?_
      refine Le.bind (ih.single m' hm' _ _) fun _ _ => ?_
      refine Le.bind (ih.andLoop m' hm' _ _ _) fun _ _ => ?_
      exact Le.refl _
    · intro m hm allow acc s
      obtain ⟨m', rfl⟩ : ∃ m', m = m' + 1 := ⟨m - 1, by omega⟩
      have hm' : n ≤ m' := by omega
      rw [andLoop, andLoop]
      split
      · refine Le.bind (Le.refl _) fun _ _ => ?_
        refine Le.bind (ih.single m' hm' _ _) fun _ _ => ?_
        exact ih.andLoop m' hm' _ _ _
      · exact Le.refl _

theorem examplesLoop_mono : ∀ (n m : Nat), n ≤ m → ∀ (acc : List Example) (s : PS),
    Le (examplesLoop n acc s) (examplesLoop m acc s) := by
  intro n
  induction n with
  | zero => intro m _ acc s; exact Le.fuel _
  | succ n ih =>
    intro m hm acc s
    obtain ⟨m', rfl⟩ : ∃ m', m = m' + 1 := ⟨m - 1, by omega⟩
    rw [examplesLoop, examplesLoop]
    cases s.cur with
    | none => exact Le.refl _
    | some c =>
      simp only
      split
      · refine Le.bind (Le.refl _) fun _ _ => ?_
        exact ih m' (by omega) _ _
      · exact Le.refl _

theorem parseRelated_mono {n m : Nat} (h : n ≤ m) (s : PS) : Le (parseRelated n s) (parseRelated m s) := by
  unfold parseRelated
  split
  · exact Le.bind (Le.refl _) fun _ _ => parseIds_mono h _
  · exact Le.refl _

theorem parseSuperiors_mono {n m : Nat} (h : n ≤ m) (s : PS) : Le (parseSuperiors n s) (parseSuperiors m s) := by
  unfold parseSuperiors
  refine Le.bind (Le.refl _) fun _ _ => ?_
  refine Le.bind (parseIds_mono h _) fun _ _ => ?_
  exact Le.refl _

theorem parseMeta_mono {n m : Nat} (h : n ≤ m) (s : PS) : Le (parseMeta n s) (parseMeta m s) := by
  unfold parseMeta
  refine Le.bind (Le.refl _) fun _ _ => ?_
  refine Le.bind (examplesLoop_mono n m h _ _) fun _ _ => ?_
  refine Le.bind (parseRelated_mono h _) fun _ _ => ?_
  simp only
  split
  · exact Le.refl _
  · refine Le.bind ?_ fun _ _ => Le.refl _
    split
    · exact parseSuperiors_mono h _
    · exact Le.refl _

theorem parseExtenders_mono {n m : Nat} (h : n ≤ m) (s : PS) : Le (parseExtenders n s) (parseExtenders m s) := by
  unfold parseExtenders
  split
  · refine Le.bind (Le.refl _) fun p _ => ?_
    obtain ⟨_, s1⟩ := p
    simp only
    cases s1.cur with
    | none => exact Le.refl _
    | some c =>
      simp only
      split
      · refine Le.bind ((blockMono n).cds m h _) fun _ _ => ?_
        exact Le.refl _
      · split
        · refine Le.bind ((blockMono n).single m h _ _) fun _ _ => ?_
          exact Le.refl _
        · exact Le.refl _
  · exact Le.refl _

theorem parseRuleWith_mono {n m : Nat} (h : n ≤ m) (cfg : Cfg) (s : PS) :
    Le (parseRuleWith n cfg s) (parseRuleWith m cfg s) := by
  unfold parseRuleWith
  refine Le.bind (Le.refl _) fun _ _ => ?_
  refine Le.bind (parseMeta_mono h _) fun _ _ => ?_
  refine Le.bind (Le.refl _) fun _ _ => ?_
  refine Le.bind (Le.refl _) fun _ _ => ?_
  refine Le.bind ((blockMono n).conds m h _ _ _) fun _ _ => ?_
  refine Le.bind (Le.refl _) fun _ _ => ?_
  refine Le.bind (parseExtenders_mono h _) fun _ _ => ?_
  exact Le.refl _

theorem aliasLoop_mono : ∀ (n m : Nat), n ≤ m → ∀ (acc : List Tok) (s : PS),
    Le (aliasLoop n acc s) (aliasLoop m acc s) := by
  intro n
  induction n with
  | zero => intro m _ acc s; exact Le.fuel _
  | succ n ih =>
    intro m hm acc s
    obtain ⟨m', rfl⟩ : ∃ m', m = m' + 1 := ⟨m - 1, by omega⟩
    rw [aliasLoop, aliasLoop]
    cases s.cur with
    | none => exact Le.refl _
    | some c =>
      simp only
      split
      · exact Le.refl _
      · split
        · exact Le.refl _
        · refine Le.bind (Le.refl _) fun _ _ => ?_
          exact ih m' (by omega) _ _

theorem parseAliasWith_mono {n m : Nat} (h : n ≤ m) (s : PS) : Le (parseAliasWith n s) (parseAliasWith m s) := by
  unfold parseAliasWith
  refine Le.bind (Le.refl _) fun _ _ => ?_
  simp only
  split
  · exact Le.refl _
  · refine Le.bind (Le.refl _) fun _ _ => ?_
    refine Le.bind (Le.refl _) fun _ _ => ?_
    refine Le.bind (aliasLoop_mono n m h _ _) fun _ _ => ?_
    exact Le.refl _

end ASV.Parser
