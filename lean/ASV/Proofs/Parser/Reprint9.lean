/-
  C02 thm 7, part 9: tokenising and parsing the printed operands gives `normL`, with the same meaning.
-/
import ASV.Proofs.Parser.Reprint8
namespace ASV.Reprint
open ASV ASV.Rules ASV.Parser ASV.Grammar ASV.Layout

mutual
theorem printable_of_shape : ∀ (c : Cond) (allow : Bool), shapeOk allow c = true → printable c = true
  | .single _ _, _, _ => rfl
  | .score _ _ s, _, h => by simpa [shapeOk, printable] using h
  | .minimum _ _ opts, _, h => by
      simp only [shapeOk, Bool.and_eq_true] at h; simpa [printable] using h.2
  | .cds _ subs, _, h => by
      simp only [shapeOk, Bool.and_eq_true] at h
      simp only [printable, Bool.and_eq_true]
      exact ⟨h.1.1.2, printableL_of_shape subs false h.1.2⟩
  | .group _ subs, allow, h => by
      simp only [shapeOk, Bool.and_eq_true] at h
      simp only [printable, Bool.and_eq_true]
      exact ⟨h.1, printableL_of_shape subs allow h.2⟩
  | .conj subs, allow, h => by
      simp only [shapeOk, Bool.and_eq_true, decide_eq_true_eq] at h
      simp only [printable, Bool.and_eq_true, Bool.not_eq_true', List.isEmpty_eq_false_iff]
      refine ⟨?_, printableL_of_shape subs allow h.2⟩
      intro he; rw [he] at h; simp at h
theorem printableL_of_shape : ∀ (l : List Cond) (allow : Bool), shapeOks allow l = true → printableL l = true
  | [], _, _ => rfl
  | c :: r, allow, h => by
      simp only [shapeOks, Bool.and_eq_true] at h
      simp only [printableL, Bool.and_eq_true]
      exact ⟨printable_of_shape c allow h.1, printableL_of_shape r allow h.2⟩
end

/-- the tokeniser on the printed operands: exactly the printed tokens -/
theorem tokenise_printJoin (L : List Cond) (hne : L ≠ []) (hn : NamesOkL L) (hp : printableL L = true) :
    tokenise (String.ofList (printJoin orSep L)) = .ok ((joinTexts "or" L).map mkTok) := by
  have inv := inv_join L hne hn hp "or" orSep sep_or inv_or
  have hok := okSeq_of_chain _ false inv.chain (Or.inl rfl)
  have := tokenise_render (joinI "or" L) ⟨[], none⟩ hok (by simp [Tail.ok])
  simp only [Tail.chars, gapChars, List.flatMap_nil, List.append_nil, inv.render] at this
  rw [this, ← inv.texts]
  simp [texts]

theorem normL_ne_nil {L : List Cond} (h : L ≠ []) : normL L ≠ [] := by
  cases L with
  | nil => exact absurd rfl h
  | cons c r => simp [normL_cons]

/-- thm 7 for a list of `or`-operands (a CONDITIONS section, the inside of a group or of `cds`) -/
theorem reparse_operands (L : List Cond) (allow : Bool) (hne : L ≠ []) (hn : NamesOkL L)
    (hs : shapeOks allow L = true) (hr : noRepeats L = true) :
    ∃ toks, tokenise (String.ofList (printJoin orSep L)) = .ok toks ∧
      (∀ (fuel : Nat) (isGroup : Bool) (k cons : List Tok) (rules : List Rule), NotBinop k →
        (∀ c r, endCheck isGroup (ofStream k c r) = .ok ()) → 3 * toks.length + 2 ≤ fuel →
        parseConditions fuel allow isGroup (ofStream (toks ++ k) cons rules) =
          .ok (normL L, ofStream k (toks.reverse ++ cons) rules)) ∧
      (∀ e g, semAny e g (normL L) = semAny e g L) ∧
      printConds (normL L) = printConds L ∧ shapeOks allow (normL L) = true ∧ noRepeats (normL L) = true := by
  refine ⟨_, tokenise_printJoin L hne hn (printableL_of_shape L allow hs), ?_, ?_, printConds_normL L hn, ?_, ?_⟩
  · intro fuel isGroup k cons rules hk hend hf
    obtain ⟨gs, gr⟩ := goods_norm L allow hn hs hr
    refine parseConditions_complete allow isGroup (normL L) fuel _ k cons rules (normL_ne_nil hne) gs gr ?_ hk hend hf
    have := keys_normL L hn "or" .orOp tk_or
    rw [List.map_map]
    exact this
  · intro e g; exact (sem_normL e g L hn hr).1
  · exact (goods_norm L allow hn hs hr).1
  · exact (goods_norm L allow hn hs hr).2

end ASV.Reprint
