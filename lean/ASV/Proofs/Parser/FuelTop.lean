/-
  C02 (3): the fuel the model hands to the parser is never exhausted — `Err.fuel` is unreachable
  from `createRules`.  Aliased states are reduced to alias-free ones by `strip` (same fuel).
-/
import ASV.Proofs.Parser.FuelEnough
import ASV.Proofs.Parser.SubstRule
namespace ASV.Parser
open ASV ASV.Rules ASV.Grammar

theorem RelS.fuel_left {α} {R : α → α → Prop} {x' x : Except Err (α × PS)} (h : RelS R x' x)
    (hx : x = .error .fuel) : x' = .error .fuel := by
  subst hx
  cases x' with
  | error e => simp only [RelS] at h; subst h; rfl
  | ok p => exact absurd h (by simp [RelS])

theorem mapS_fuel {α} {x : Except Err (α × PS)} (h : x = .error .fuel) : mapS x = .error .fuel := by
  subst h; rfl

/-! ### the budget covers the substituted input -/

theorem foldl_max_ge (l : List Nat) : ∀ init, init ≤ l.foldl max init ∧ ∀ x ∈ l, x ≤ l.foldl max init := by
  induction l with
  | nil => intro init; simp
  | cons a as ih =>
    intro init
    obtain ⟨h1, h2⟩ := ih (max init a)
    simp only [List.foldl_cons, List.mem_cons]
    refine ⟨by omega, ?_⟩
    rintro x (rfl | hx)
    · omega
    · exact h2 x hx

def longest (A : Aliases) : Nat := (A.map (·.2.length)).foldl max 1

theorem subst_length_le (A : Aliases) (l : List Tok) : (subst A l).length ≤ l.length * longest A := by
  have hL := foldl_max_ge (A.map (·.2.length)) 1
  have h1 : 1 ≤ longest A := hL.1
  induction l with
  | nil => simp [subst]
  | cons t ts ih =>
    simp only [subst, List.length_cons, Nat.succ_mul]
    split
    · split
      · rename_i body hl
        obtain ⟨k', hm⟩ := lookup_mem hl
        have : body.length ≤ longest A := hL.2 _ (List.mem_map.mpr ⟨_, hm, rfl⟩)
        simp only [List.length_append]; omega
      · simp only [List.length_cons]; omega
    · simp only [List.length_cons]; omega

theorem strip_pending_le (s : PS) : (strip s).pending ≤ 1 + s.rest.length * longest s.aliases := by
  obtain ⟨cur, rest, A, rules, cons⟩ := s
  have := subst_length_le A rest
  cases cur with
  | none => simp only [PS.pending, strip]; simp; omega
  | some c => simp only [PS.pending, strip]; simp; omega

theorem budget_enough (s : PS) : 3 * (strip s).pending + 3 ≤ s.budget := by
  have h := strip_pending_le s
  have hb : s.budget = 4 * ((s.rest.length + 2) * (longest s.aliases + 1)) + 8 := rfl
  rw [hb, Nat.add_mul, Nat.mul_add, Nat.mul_add]
  omega

/-! ### one rule, one alias definition -/

theorem parseRuleWith_nf_aliased {n : Nat} {cfg : Cfg} {s : PS} (hf : Flat s.aliases)
    (hn : 3 * (strip s).pending + 3 ≤ n) : parseRuleWith n cfg s ≠ .error .fuel := by
  intro h
  have := (parseRuleWith_rel hf n cfg).fuel_left h
  exact parseRuleWith_nf (s := strip s) (p := (strip s).pending) ⟨rfl, Nat.le_refl _⟩ hn this

theorem parseRule_nf {cfg : Cfg} {s : PS} (hf : Flat s.aliases) : parseRule cfg s ≠ .error .fuel :=
  parseRuleWith_nf_aliased hf (budget_enough s)

theorem aliasLoop_strip (fuel : Nat) : ∀ {s : PS} (_ : Flat s.aliases) (acc : List Tok),
    aliasLoop fuel acc (strip s) = mapS (aliasLoop fuel acc s) := by
  induction fuel with
  | zero => intro s _ acc; rfl
  | succ n ih =>
    intro s hf acc
    rw [aliasLoop, aliasLoop]
    simp only [strip_cur]
    cases hc : s.cur with
    | none => rfl
    | some c =>
      simp only
      split
      · rfl
      · split
        · rfl
        · have hf0 : Flat ({ s with cur := some { c with aliased := true } } : PS).aliases := hf
          have h0 : ({ strip s with cur := some { c with aliased := true } } : PS)
              = strip { s with cur := some { c with aliased := true } } := rfl
          rw [h0]
          refine sim_bind (consume_strip hf0 _) fun _ s1 h1 => ?_
          exact ih (hf0.of_eq (consume_aliases h1)) _

theorem parseAliasWith_strip {s : PS} (hf : Flat s.aliases) (fuel : Nat) :
    parseAliasWith fuel (strip s) = mapS (parseAliasWith fuel s) := by
  unfold parseAliasWith
  refine sim_bind (consume_strip hf _) fun _ s1 h1 => ?_
  have hf1 := hf.of_eq (consume_aliases h1)
  simp only [strip_curAliased]
  by_cases ha : s1.curAliased = true
  · simp only [ha, ↓reduceIte]; rfl
  · simp only [ha, Bool.false_eq_true, ↓reduceIte]
    refine sim_bind (consumeId_strip hf1) fun _ s2 h2 => ?_
    have hf2 := hf1.of_eq (consumeId_aliases h2)
    refine sim_bind (consume_strip hf2 _) fun _ s3 h3 => ?_
    have hf3 := hf2.of_eq (consume_aliases h3)
    refine sim_bind (aliasLoop_strip fuel hf3 _) fun _ s4 _ => ?_
    simp only
    split <;> rfl

theorem aliasLoop_nf : ∀ (n : Nat) (acc : List Tok) (s : PS) (p : Nat), AF s p → p + 1 ≤ n →
    aliasLoop n acc s ≠ .error .fuel := by
  intro n
  induction n with
  | zero => intro acc s p _ h; omega
  | succ n ih =>
    intro acc s p hp hn
    rw [aliasLoop]
    split
    · simp
    · rename_i c hc
      split
      · simp
      · split
        · simp
        · refine nf_bind (consume_nf _ _) fun x h1 => ?_
          obtain ⟨c1, s1⟩ := x
          have hp0 : AF ({ s with cur := some { c with aliased := true } } : PS) p :=
            ⟨hp.1, by have := hp.2; simpa [PS.pending, hc] using this⟩
          obtain ⟨hp1, _⟩ := hp0.consume h1
          exact ih _ s1 (p - 1) hp1 (by omega)

theorem parseAliasWith_nf {n : Nat} {s : PS} {p : Nat} (hp : AF s p) (hn : p + 1 ≤ n) :
    parseAliasWith n s ≠ .error .fuel := by
  unfold parseAliasWith
  refine nf_bind (consume_nf _ _) fun x h1 => ?_
  obtain ⟨hp1, _⟩ := hp.consume h1
  try simp only
  split
  · simp
  · refine nf_bind (consumeId_nf _) fun x h2 => ?_
    obtain ⟨hp2, _⟩ := hp1.consumeId h2
    refine nf_bind (consume_nf _ _) fun x h3 => ?_
    obtain ⟨hp3, _⟩ := hp2.consume h3
    refine nf_bind (aliasLoop_nf n _ _ (p - 1 - 1 - 1) hp3 (by omega)) fun _ _ => ?_
    try simp only
    split <;> simp [pure, Except.pure]

theorem parseAlias_nf {s : PS} (hf : Flat s.aliases) : parseAlias s ≠ .error .fuel := by
  intro h
  have h' : parseAliasWith s.budget (strip s) = .error .fuel := by
    rw [parseAliasWith_strip hf]; exact mapS_fuel h
  have hb := budget_enough s
  exact parseAliasWith_nf (s := strip s) (p := (strip s).pending) ⟨rfl, Nat.le_refl _⟩ (by omega) h'

end ASV.Parser

namespace ASV.Parser
open ASV ASV.Rules ASV.Grammar

/-! ### the main loop: every iteration consumes a `RULE` or `DEFINE` token -/

theorem parseHead_starter {cfg : Cfg} {s s' : PS} {x : String × String} (h : parseHead cfg s = .ok (x, s')) :
    ∃ new, Adv s s' new ∧ 1 ≤ new.countP isStarter := by
  unfold parseHead at h
  simp only [bind_ok, Prod.exists] at h
  obtain ⟨c1, s1, h1, h⟩ := h
  split at h
  · cases h
  · simp only [bind_ok, Prod.exists] at h
    obtain ⟨nm, s2, h2, h⟩ := h
    split at h
    · cases h
    · simp only [bind_ok, Prod.exists] at h
      obtain ⟨c3, s3, h3, cat, s4, h4, h⟩ := h
      split at h
      · cases h
      · split at h
        · cases h
        · cases h
          obtain ⟨a1, t1, _⟩ := consume_post h1
          obtain ⟨_, a2, _, _⟩ := consumeId_post h2
          obtain ⟨a3, _, _⟩ := consume_post h3
          obtain ⟨_, a4, _, _⟩ := consumeId_post h4
          refine ⟨_, ((a1.trans a2).trans a3).trans a4, ?_⟩
          simp [List.countP_cons, isStarter, t1]
          omega

theorem parseRuleWith_starter {n : Nat} {cfg : Cfg} {s s' : PS} {r : Rule} (h : parseRuleWith n cfg s = .ok (r, s')) :
    ∃ new, Adv s s' new ∧ 1 ≤ new.countP isStarter := by
  unfold parseRuleWith at h
  simp only [bind_ok, Prod.exists] at h
  obtain ⟨name, cat, s1, h1, d, ex, rel, sup, s2, h2, cut, nb, s3, h3, c4, s4, h4, subs, s5, h5,
    conds, h6, ext, s6, h7, u, h8, h⟩ := h
  obtain ⟨n1, a1, k1⟩ := parseHead_starter h1
  obtain ⟨n2, a2⟩ := parseMeta_adv h2
  obtain ⟨n3, a3⟩ := parseDistances_adv h3
  obtain ⟨a4, _, _⟩ := consume_post h4
  obtain ⟨n5, a5, _⟩ := (blockPost _).conds _ _ _ _ _ h5
  obtain ⟨⟨n7, a7⟩, _⟩ := parseExtenders_post h7
  split at h
  · cases h
  · split at h
    · cases h
    · cases h
      refine ⟨_, (((((a1.trans a2).trans a3).trans a4).trans a5).trans a7), ?_⟩
      simp only [List.countP_append]; omega

theorem parseAliasWith_starter {n : Nat} {s s' : PS} {x : String × List Tok} (h : parseAliasWith n s = .ok (x, s')) :
    ∃ new, Adv s s' new ∧ 1 ≤ new.countP isStarter := by
  unfold parseAliasWith at h
  simp only [bind_ok, Prod.exists] at h
  obtain ⟨c1, s1, h1, h⟩ := h
  split at h
  · cases h
  · simp only [bind_ok, Prod.exists] at h
    obtain ⟨nm, s2, h2, c3, s3, h3, toks, s4, h4, h⟩ := h
    split at h
    · cases h
    · cases h
      obtain ⟨a1, t1, _⟩ := consume_post h1
      obtain ⟨_, a2, _, _⟩ := consumeId_post h2
      obtain ⟨a3, _, _⟩ := consume_post h3
      obtain ⟨n4, a4⟩ := aliasLoop_adv _ h4
      refine ⟨_, ((a1.trans a2).trans a3).trans a4, ?_⟩
      simp [List.countP_append, List.countP_cons, isStarter, t1]
      omega

theorem verifyAliasName_nf (cfg : Cfg) (rules : List Rule) (name : String) :
    verifyAliasName cfg rules name ≠ .error .fuel := by
  unfold verifyAliasName
  repeat' split
  all_goals simp

theorem mainLoop_nf (cfg : Cfg) : ∀ (n : Nat) (s : PS), Flat s.aliases → s.starters + 1 ≤ n →
    mainLoop n cfg s ≠ .error .fuel := by
  intro n
  induction n with
  | zero => intro s _ h; omega
  | succ n ih =>
    intro s hf hn
    rw [mainLoop]
    split
    · simp
    · split
      · refine nf_bind (parseAlias_nf hf) fun x h1 => ?_
        obtain ⟨⟨nm, toks⟩, s1⟩ := x
        obtain ⟨ht, hne, ha⟩ := parseAlias_flat h1 hf
        obtain ⟨new, a, hk⟩ := parseAliasWith_starter h1
        have hs := a.starters hf.noKw
        refine nf_bind (verifyAliasName_nf _ _ _) fun _ _ => ?_
        try simp only
        split
        · simp
        · rename_i hnew
          split
          · simp
          · rename_i huse
            simp only [Bool.or_eq_true, not_or, Bool.not_eq_true] at huse
            rw [ha] at hnew huse
            refine ih _ ?_ ?_
            · show Flat (s1.aliases ++ [(nm, toks)])
              rw [ha]
              exact flat_extend hf (by cases hx : s.aliases.lookup nm <;> simp_all) ht hne huse.1 huse.2
            · show s1.starters + 1 ≤ n
              omega
      · split
        · refine nf_bind (parseRule_nf hf) fun x h1 => ?_
          obtain ⟨r, s1⟩ := x
          obtain ⟨new, a, hk⟩ := parseRuleWith_starter h1
          have hs := a.starters hf.noKw
          try simp only
          split
          · simp
          · refine ih _ ?_ ?_
            · show Flat s1.aliases
              rw [a.aliases]; exact hf
            · show s1.starters + 1 ≤ n
              omega
        · simp

theorem forM_verify_nf (cfg : Cfg) (rules : List Rule) : ∀ (A : Aliases),
    (A.forM fun a => verifyAliasName cfg rules a.1) ≠ .error .fuel := by
  intro A
  induction A with
  | nil => show (pure () : Except Err Unit) ≠ _; simp [pure, Except.pure]
  | cons a as ih =>
    show (verifyAliasName cfg rules a.1 >>= fun _ => as.forM fun a => verifyAliasName cfg rules a.1) ≠ _
    exact nf_bind (verifyAliasName_nf _ _ _) fun _ _ => ih

theorem parseTokens_nf {cfg : Cfg} {rules : List Rule} {aliases : Aliases} {toks : List Tok} (hf : Flat aliases) :
    parseTokens cfg rules aliases toks ≠ .error .fuel := by
  unfold parseTokens
  refine nf_bind (forM_verify_nf _ _ _) fun _ _ => ?_
  split
  · simp
  · rename_i t rest
    refine nf_bind (mainLoop_nf cfg _ _ (flat_markAliased hf) ?_) fun _ _ => ?_
    · have : (t :: rest).countP isStarter ≤ (t :: rest).length := List.countP_le_length
      simpa [PS.starters] using this
    · split <;> simp [pure, Except.pure]

theorem tokGo_err : ∀ (cs : List Char) (b : Bool) (sym : List Char) (acc : List Tok) (e : Err),
    tokGo cs b sym acc = .error e → e = .syntax := by
  intro cs
  induction cs with
  | nil => intro b sym acc e h; simp [tokGo] at h
  | cons c cs ih =>
    intro b sym acc e h
    cases b with
    | true => rw [tokGo] at h; exact ih _ _ _ _ h
    | false =>
      rw [tokGo] at h
      repeat' split at h
      all_goals first | exact ih _ _ _ _ h | (cases h; rfl)

theorem tokenise_nf (text : String) : tokenise text ≠ .error .fuel := by
  intro h
  have := tokGo_err _ _ _ _ _ h
  cases this

theorem parseText_nf {cfg : Cfg} {rules : List Rule} {aliases : Aliases} {text : String} (hf : Flat aliases) :
    parseText cfg rules aliases text ≠ .error .fuel := by
  unfold parseText
  refine nf_bind (forM_verify_nf _ _ _) fun _ _ => ?_
  refine nf_bind (tokenise_nf _) fun _ _ => ?_
  exact parseTokens_nf hf

theorem parseText_flat {cfg : Cfg} {rules rules' : List Rule} {aliases aliases' : Aliases} {text : String}
    (h : parseText cfg rules aliases text = .ok (rules', aliases')) (hf : Flat aliases) : Flat aliases' := by
  unfold parseText at h
  simp only [bind_ok] at h
  obtain ⟨_, _, toks, _, h⟩ := h
  exact parseTokens_flat h hf

/-- the fuel error is unreachable from `create_rules` -/
theorem createRules_nf (cfg : Cfg) : ∀ (files : List String) (rules : List Rule) (aliases : Aliases),
    Flat aliases → createRules cfg files rules aliases ≠ .error .fuel
  | [], _, _, _ => by simp [createRules]
  | text :: more, rules, aliases, hf => by
    rw [createRules]
    refine nf_bind (parseText_nf hf) fun x h1 => ?_
    obtain ⟨rules1, aliases1⟩ := x
    exact createRules_nf cfg more rules1 aliases1 (parseText_flat h1 hf)

end ASV.Parser

namespace ASV.Parser
open ASV ASV.Rules ASV.Grammar

theorem subst_nil (l : List Tok) : subst [] l = l := by
  induction l with
  | nil => rfl
  | cons t ts ih => simp [subst, ih, List.lookup]

theorem strip_strip_pending (s : PS) : (strip (strip s)).pending = (strip s).pending := by
  obtain ⟨cur, rest, A, rules, cons⟩ := s
  cases cur <;> simp [strip, PS.pending, subst_nil]

/-- with the fuel each side computes for itself: a rule is parsed on the aliased state as on the
    substituted alias-free state -/
theorem parseRule_rel {s : PS} (hf : Flat s.aliases) (cfg : Cfg) :
    RelS RuleRel (parseRule cfg (strip s)) (parseRule cfg s) := by
  have hrel := parseRuleWith_rel hf s.budget cfg
  have hk : AF (strip s) (strip s).pending := ⟨rfl, Nat.le_refl _⟩
  have h1 := budget_enough s
  have h2 := budget_enough (strip s)
  rw [strip_strip_pending] at h2
  -- both budgets are enough for the alias-free side, so they give the same result there
  have e1 := (parseRuleWith_mono h1 cfg (strip s)).eq_of_ne (parseRuleWith_nf hk (Nat.le_refl _))
  have e2 := (parseRuleWith_mono h2 cfg (strip s)).eq_of_ne (parseRuleWith_nf hk (Nat.le_refl _))
  unfold parseRule
  rw [e2, ← e1]
  exact hrel

end ASV.Parser
