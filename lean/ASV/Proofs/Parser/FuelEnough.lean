/-
  C02 (3), second half: on an alias-free state every call of the condition parser consumes a
  token before it recurses, so fuel `3 · (unread tokens) + 3` is never exhausted.
-/
import ASV.Proofs.Parser.FuelMono
import ASV.Proofs.Parser.Complete
import ASV.Proofs.Parser.Alias
namespace ASV.Parser
open ASV ASV.Rules ASV.Grammar

theorem nf_bind {α β} {x : Except Err α} {k : α → Except Err β} (h1 : x ≠ .error .fuel)
    (h2 : ∀ a, x = .ok a → k a ≠ .error .fuel) : (x >>= k) ≠ .error .fuel := by
  cases x with
  | error e =>
    intro h
    have : e = .fuel := by simpa [bind, Except.bind] using h
    subst this; exact h1 rfl
  | ok a => exact h2 a rfl

theorem advance_nf (s : PS) : s.advance ≠ .error .fuel := by
  unfold PS.advance
  split
  · simp
  · split
    · split
      · split <;> simp
      · simp
    · simp

theorem consume_nf (t : TT) (s : PS) : consume t s ≠ .error .fuel := by
  unfold consume
  split
  · simp
  · split
    · simp
    · exact nf_bind (advance_nf _) fun _ _ => by simp [pure, Except.pure]

theorem consumeId_nf (s : PS) : consumeId s ≠ .error .fuel := by
  unfold consumeId
  exact nf_bind (consume_nf _ _) fun _ _ => by simp [pure, Except.pure]

theorem consumeInt_nf (s : PS) : consumeInt s ≠ .error .fuel := by
  unfold consumeInt
  exact nf_bind (consume_nf _ _) fun _ _ => by simp [pure, Except.pure]

theorem isNot_nf (s : PS) : isNot s ≠ .error .fuel := by
  unfold isNot
  split
  · exact nf_bind (consume_nf _ _) fun _ _ => by simp [pure, Except.pure]
  · simp

theorem checkOperands_nf (l : List Cond) : checkOperands l ≠ .error .fuel := by
  unfold checkOperands; split <;> simp
theorem mkGroup_nf (b : Bool) (l : List Cond) : mkGroup b l ≠ .error .fuel := by
  unfold mkGroup; exact nf_bind (checkOperands_nf _) fun _ _ => by simp [pure, Except.pure]
theorem mkCds_nf (b : Bool) (l : List Cond) : mkCds b l ≠ .error .fuel := by
  unfold mkCds; exact nf_bind (checkOperands_nf _) fun _ _ => by simp [pure, Except.pure]
theorem mkConj_nf (l : List Cond) : mkConj l ≠ .error .fuel := by
  unfold mkConj; exact nf_bind (checkOperands_nf _) fun _ _ => by simp [pure, Except.pure]
theorem mkMinimum_nf (b : Bool) (c : Nat) (l : List String) : mkMinimum b c l ≠ .error .fuel := by
  unfold mkMinimum; repeat' split
  all_goals simp
theorem endCheck_nf (g : Bool) (s : PS) : endCheck g s ≠ .error .fuel := by
  unfold endCheck
  repeat' split
  all_goals simp

theorem parseScore_nf (neg : Bool) (s : PS) : parseScore neg s ≠ .error .fuel := by
  unfold parseScore
  refine nf_bind (consume_nf _ _) fun _ _ => ?_
  refine nf_bind (consume_nf _ _) fun _ _ => ?_
  refine nf_bind (consumeId_nf _) fun _ _ => ?_
  refine nf_bind (consume_nf _ _) fun _ _ => ?_
  refine nf_bind (consumeInt_nf _) fun _ _ => ?_
  refine nf_bind (consume_nf _ _) fun _ _ => ?_
  simp [pure, Except.pure]

/-! ### progress on alias-free states -/

/-- alias-free, with at most `p` unread tokens -/
def AF (s : PS) (p : Nat) : Prop := s.aliases = [] ∧ s.pending ≤ p

theorem AF.step {s s' : PS} {new : List Tok} {p : Nat} (h : AF s p) (a : Adv s s' new) :
    AF s' (p - new.length) := by
  obtain ⟨h1, h2⟩ := h
  have := a.pot h1
  exact ⟨by rw [a.aliases, h1], by omega⟩

theorem AF.mono {s : PS} {p q : Nat} (h : AF s p) (hq : p ≤ q) : AF s q := ⟨h.1, Nat.le_trans h.2 hq⟩

theorem AF.consume {s s' : PS} {t : TT} {c : Tok} {p : Nat} (h : AF s p) (hc : consume t s = .ok (c, s')) :
    AF s' (p - 1) ∧ 1 ≤ p := by
  obtain ⟨a, _, hcur⟩ := consume_post hc
  have := a.pot h.1
  have hp : 1 ≤ s.pending := by simp [PS.pending, hcur]
  exact ⟨by simpa using h.step a, by have := h.2; omega⟩

theorem AF.consumeId {s s' : PS} {n : String} {p : Nat} (h : AF s p) (hc : consumeId s = .ok (n, s')) :
    AF s' (p - 1) ∧ 1 ≤ p := by
  unfold ASV.Parser.consumeId at hc
  simp only [bind_ok, Prod.exists] at hc
  obtain ⟨c, s1, h1, h2⟩ := hc
  cases h2
  exact h.consume h1

theorem AF.consumeInt {s s' : PS} {n : Nat} {p : Nat} (h : AF s p) (hc : consumeInt s = .ok (n, s')) :
    AF s' (p - 1) ∧ 1 ≤ p := by
  unfold ASV.Parser.consumeInt at hc
  simp only [bind_ok, Prod.exists] at hc
  obtain ⟨c, s1, h1, h2⟩ := hc
  cases h2
  exact h.consume h1

theorem AF.isNot {s s' : PS} {b : Bool} {p : Nat} (h : AF s p) (hc : isNot s = .ok (b, s')) : AF s' p := by
  obtain ⟨new, a, _⟩ := isNot_post hc
  exact (h.step a).mono (by omega)

theorem ks_length (new : List Tok) : (ks new).length = new.length := by simp [ks]

theorem AF.single {fuel : Nat} {allow : Bool} {s s' : PS} {c : Cond} {p : Nat} (h : AF s p)
    (hc : parseSingle fuel allow s = .ok (c, s')) : AF s' (p - 1) ∧ 1 ≤ p := by
  obtain ⟨new, a, k, _, hat⟩ := (blockPost fuel).single _ _ _ _ hc
  have hne : 1 ≤ new.length := by
    have := flatC_atom_ne_nil hat
    rw [← k] at this
    have hl := ks_length new
    cases hn : ks new with
    | nil => exact absurd hn this
    | cons _ _ => rw [hn] at hl; simp at hl; omega
  have := a.pot h.1
  exact ⟨(h.step a).mono (by omega), by have := h.2; omega⟩

theorem idsLoop_nf : ∀ (n : Nat) (acc : List String) (s : PS) (p : Nat), AF s p → p + 1 ≤ n →
    idsLoop n acc s ≠ .error .fuel := by
  intro n
  induction n with
  | zero => intro acc s p _ h; omega
  | succ n ih =>
    intro acc s p hp hn
    rw [idsLoop]
    split
    · refine nf_bind (consume_nf _ _) fun x h1 => ?_
      obtain ⟨c, s1⟩ := x
      obtain ⟨hp1, _⟩ := hp.consume h1
      refine nf_bind (consumeId_nf _) fun y h2 => ?_
      obtain ⟨m, s2⟩ := y
      obtain ⟨hp2, _⟩ := hp1.consumeId h2
      exact ih _ s2 (p - 1 - 1) hp2 (by omega)
    · simp

theorem parseIds_nf {n : Nat} {s : PS} {p : Nat} (hp : AF s p) (hn : p + 1 ≤ n) : parseIds n s ≠ .error .fuel := by
  unfold parseIds
  refine nf_bind (consumeId_nf _) fun x h1 => ?_
  obtain ⟨m, s1⟩ := x
  obtain ⟨hp1, _⟩ := hp.consumeId h1
  exact idsLoop_nf n _ s1 (p - 1) hp1 (by omega)

theorem parseMinimum_nf {n : Nat} {neg : Bool} {s : PS} {p : Nat} (hp : AF s p) (hn : p + 1 ≤ n) :
    parseMinimum n neg s ≠ .error .fuel := by
  unfold parseMinimum parseList
  refine nf_bind (consume_nf _ _) fun x h1 => ?_
  obtain ⟨hp1, _⟩ := hp.consume h1
  refine nf_bind (consume_nf _ _) fun x h2 => ?_
  obtain ⟨hp2, _⟩ := hp1.consume h2
  refine nf_bind (consumeInt_nf _) fun x h3 => ?_
  obtain ⟨hp3, _⟩ := hp2.consumeInt h3
  refine nf_bind (consume_nf _ _) fun x h4 => ?_
  obtain ⟨hp4, _⟩ := hp3.consume h4
  refine nf_bind ?_ fun x _ => ?_
  · refine nf_bind (consume_nf _ _) fun x h5 => ?_
    obtain ⟨hp5, _⟩ := hp4.consume h5
    refine nf_bind (parseIds_nf hp5 (by omega)) fun x _ => ?_
    refine nf_bind (consume_nf _ _) fun x _ => ?_
    simp [pure, Except.pure]
  · refine nf_bind (consume_nf _ _) fun x _ => ?_
    refine nf_bind (mkMinimum_nf _ _ _) fun x _ => ?_
    simp [pure, Except.pure]

end ASV.Parser

namespace ASV.Parser
open ASV ASV.Rules ASV.Grammar

theorem AF.ands {fuel : Nat} {allow : Bool} {lv : Cond} {s s' : PS} {c : Cond} {p : Nat} (h : AF s p)
    (hc : parseAnds fuel lv allow s = .ok (c, s')) : AF s' (p - 1) ∧ 1 ≤ p := by
  obtain ⟨new, more, _, hne, a, k, _, _⟩ := (blockPost fuel).ands _ _ _ _ _ hc
  have hl : 1 ≤ new.length := by
    have hl := ks_length new
    rw [k] at hl
    cases more with
    | nil => exact absurd rfl hne
    | cons x xs => simp [joinTail] at hl; omega
  have := a.pot h.1
  exact ⟨(h.step a).mono (by omega), by have := h.2; omega⟩

theorem AF.conds {fuel : Nat} {allow g : Bool} {s s' : PS} {c : List Cond} {p : Nat} (h : AF s p)
    (hc : parseConditions fuel allow g s = .ok (c, s')) : AF s' p := by
  obtain ⟨new, a, _⟩ := (blockPost fuel).conds _ _ _ _ _ hc
  exact (h.step a).mono (by omega)

theorem AF.andLoop {fuel : Nat} {allow : Bool} {acc : List Cond} {s s' : PS} {c : List Cond} {p : Nat} (h : AF s p)
    (hc : andLoop fuel allow acc s = .ok (c, s')) : AF s' p := by
  obtain ⟨new, _, _, a, _⟩ := (blockPost fuel).andLoop _ _ _ _ _ hc
  exact (h.step a).mono (by omega)

structure BlockNF (n : Nat) : Prop where
  single : ∀ (allow : Bool) (s : PS) (p : Nat), AF s p → 3 * p + 2 ≤ n → parseSingle n allow s ≠ .error .fuel
  group : ∀ (allow : Bool) (s : PS) (p : Nat), AF s p → 3 * p + 1 ≤ n → parseGroup n allow s ≠ .error .fuel
  cds : ∀ (s : PS) (p : Nat), AF s p → 3 * p + 1 ≤ n → parseCds n s ≠ .error .fuel
  conds : ∀ (allow g : Bool) (s : PS) (p : Nat), AF s p → 3 * p + 3 ≤ n →
    parseConditions n allow g s ≠ .error .fuel
  loop : ∀ (allow : Bool) (acc : List Cond) (lv : Cond) (pe : Bool) (s : PS) (p : Nat), AF s p → 3 * p + 3 ≤ n →
    condLoop n allow acc lv pe s ≠ .error .fuel
  ands : ∀ (lv : Cond) (allow : Bool) (s : PS) (p : Nat), AF s p → 3 * p + 2 ≤ n →
    parseAnds n lv allow s ≠ .error .fuel
  andLoop : ∀ (allow : Bool) (acc : List Cond) (s : PS) (p : Nat), AF s p → 3 * p + 2 ≤ n →
    andLoop n allow acc s ≠ .error .fuel

theorem blockNF (n : Nat) : BlockNF n := by
  induction n with
  | zero => constructor <;> intros <;> omega
  | succ n ih =>
    constructor
    · intro allow s p hp hn
      rw [parseSingle]
      refine nf_bind (isNot_nf _) fun x h1 => ?_
      obtain ⟨neg, s1⟩ := x
      have hp1 := hp.isNot h1
      simp only
      split
      · simp
      · split
        · refine nf_bind (ih.group _ s1 p hp1 (by omega)) fun _ _ => ?_
          exact nf_bind (mkGroup_nf _ _) fun _ _ => by simp [pure, Except.pure]
        · split
          · exact parseMinimum_nf hp1 (by omega)
          · split
            · refine nf_bind (ih.cds s1 p hp1 (by omega)) fun _ _ => ?_
              exact nf_bind (mkCds_nf _ _) fun _ _ => by simp [pure, Except.pure]
            · split
              · exact parseScore_nf _ _
              · exact nf_bind (consumeId_nf _) fun _ _ => by simp [pure, Except.pure]
    · intro allow s p hp hn
      rw [parseGroup]
      refine nf_bind (consume_nf _ _) fun x h1 => ?_
      obtain ⟨hp1, _⟩ := hp.consume h1
      refine nf_bind (ih.conds _ _ _ (p - 1) hp1 (by omega)) fun x _ => ?_
      exact nf_bind (consume_nf _ _) fun _ _ => by simp [pure, Except.pure]
    · intro s p hp hn
      rw [parseCds]
      refine nf_bind (consume_nf _ _) fun x h1 => ?_
      obtain ⟨hp1, _⟩ := hp.consume h1
      refine nf_bind (consume_nf _ _) fun x h2 => ?_
      obtain ⟨hp2, _⟩ := hp1.consume h2
      refine nf_bind (ih.conds _ _ _ (p - 1 - 1) hp2 (by omega)) fun x _ => ?_
      simp only
      split
      · simp
      · exact nf_bind (consume_nf _ _) fun _ _ => by simp [pure, Except.pure]
    · intro allow g s p hp hn
      rw [parseConditions]
      split
      · simp
      · refine nf_bind (ih.single _ s p hp (by omega)) fun x h1 => ?_
        obtain ⟨hp1, _⟩ := hp.single h1
        refine nf_bind (ih.loop _ _ _ _ _ (p - 1) hp1 (by omega)) fun x _ => ?_
        exact nf_bind (endCheck_nf _ _) fun _ _ => by simp [pure, Except.pure]
    · intro allow acc lv pe s p hp hn
      rw [condLoop]
      split
      · refine nf_bind (ih.ands _ _ s p hp (by omega)) fun x h1 => ?_
        obtain ⟨hp1, _⟩ := hp.ands h1
        exact ih.loop _ _ _ _ _ (p - 1) hp1 (by omega)
      · split
        · refine nf_bind (consume_nf _ _) fun x h1 => ?_
          obtain ⟨hp1, _⟩ := hp.consume h1
          refine nf_bind (ih.single _ _ (p - 1) hp1 (by omega)) fun x h2 => ?_
          obtain ⟨hp2, _⟩ := hp1.single h2
          exact ih.loop _ _ _ _ _ (p - 1 - 1) hp2 (by omega)
        · simp
    · intro lv allow s p hp hn
      rw [parseAnds]
      refine nf_bind (consume_nf _ _) fun x h1 => ?_
      obtain ⟨hp1, _⟩ := hp.consume h1
      refine nf_bind (ih.single _ _ (p - 1) hp1 (by omega)) fun x h2 => ?_
      obtain ⟨hp2, _⟩ := hp1.single h2
      refine nf_bind (ih.andLoop _ _ _ (p - 1 - 1) hp2 (by omega)) fun x _ => ?_
      exact nf_bind (mkConj_nf _) fun _ _ => by simp [pure, Except.pure]
    · intro allow acc s p hp hn
      rw [andLoop]
      split
      · refine nf_bind (consume_nf _ _) fun x h1 => ?_
        obtain ⟨hp1, _⟩ := hp.consume h1
        refine nf_bind (ih.single _ _ (p - 1) hp1 (by omega)) fun x h2 => ?_
        obtain ⟨hp2, _⟩ := hp1.single h2
        exact ih.andLoop _ _ _ (p - 1 - 1) hp2 (by omega)
      · simp

end ASV.Parser

namespace ASV.Parser
open ASV ASV.Rules ASV.Grammar

theorem skipFree_nf (s : PS) : skipFree s ≠ .error .fuel := by
  unfold skipFree
  repeat' split
  all_goals simp [pure, Except.pure]

theorem exampleRange_nf (d : String) (v : Nat) (r : String) : exampleRange d v r ≠ .error .fuel := by
  unfold exampleRange
  repeat' split
  all_goals simp [pure, Except.pure]

theorem parseExample_nf (s : PS) : parseExample s ≠ .error .fuel := by
  unfold parseExample mkExample
  refine nf_bind (consume_nf _ _) fun _ _ => ?_
  refine nf_bind (consumeId_nf _) fun _ _ => ?_
  refine nf_bind (consumeId_nf _) fun _ _ => ?_
  refine nf_bind (consume_nf _ _) fun _ _ => ?_
  refine nf_bind (consumeInt_nf _) fun _ _ => ?_
  refine nf_bind (consume_nf _ _) fun _ _ => ?_
  refine nf_bind (skipFree_nf _) fun _ _ => ?_
  refine nf_bind ?_ fun _ _ => by simp [pure, Except.pure]
  exact nf_bind (exampleRange_nf _ _ _) fun _ _ => by simp [pure, Except.pure]

theorem examplesLoop_nf : ∀ (n : Nat) (acc : List Example) (s : PS) (p : Nat), AF s p → p + 1 ≤ n →
    examplesLoop n acc s ≠ .error .fuel := by
  intro n
  induction n with
  | zero => intro acc s p _ h; omega
  | succ n ih =>
    intro acc s p hp hn
    rw [examplesLoop]
    split
    · simp
    · split
      · refine nf_bind (parseExample_nf _) fun x h1 => ?_
        obtain ⟨e, s1⟩ := x
        obtain ⟨new, a, hne⟩ := parseExample_adv h1
        have hl : 1 ≤ new.length := by cases new <;> simp_all
        have := a.pot hp.1
        have := hp.2
        exact ih _ s1 (p - 1) ((hp.step a).mono (by omega)) (by omega)
      · simp

theorem parseDescription_nf (s : PS) : parseDescription s ≠ .error .fuel := by
  unfold parseDescription
  refine nf_bind (consume_nf _ _) fun _ _ => ?_
  try simp only
  repeat' split
  all_goals simp [pure, Except.pure]

theorem parseRelated_nf {n : Nat} {s : PS} {p : Nat} (hp : AF s p) (hn : p + 1 ≤ n) :
    parseRelated n s ≠ .error .fuel := by
  unfold parseRelated
  split
  · refine nf_bind (consume_nf _ _) fun x h1 => ?_
    obtain ⟨hp1, _⟩ := hp.consume h1
    exact parseIds_nf hp1 (by omega)
  · simp [pure, Except.pure]

theorem supFold_nf (rules : List Rule) : ∀ (l : List String) (acc : List String),
    l.foldlM (fun (acc : List String) name =>
      match rules.find? (·.name == name) with
      | none => (.error .value : Except Err (List String))
      | some r => .ok (acc ++ r.superiors)) acc ≠ .error .fuel := by
  intro l
  induction l with
  | nil => intro acc; simp [pure, Except.pure]
  | cons a as ih =>
    intro acc
    simp only [List.foldlM_cons]
    refine nf_bind ?_ fun _ _ => ih _
    split <;> simp

theorem parseSuperiors_nf {n : Nat} {s : PS} {p : Nat} (hp : AF s p) (hn : p + 1 ≤ n) :
    parseSuperiors n s ≠ .error .fuel := by
  unfold parseSuperiors
  refine nf_bind (consume_nf _ _) fun x h1 => ?_
  obtain ⟨hp1, _⟩ := hp.consume h1
  refine nf_bind (parseIds_nf hp1 (by omega)) fun x _ => ?_
  try simp only
  split
  · simp
  · unfold PS.ruleByName
    exact nf_bind (supFold_nf _ _ _) fun _ _ => by simp [pure, Except.pure]

theorem parseHead_nf (cfg : Cfg) (s : PS) : parseHead cfg s ≠ .error .fuel := by
  unfold parseHead
  refine nf_bind (consume_nf _ _) fun _ _ => ?_
  try simp only
  split
  · simp
  · refine nf_bind (consumeId_nf _) fun _ _ => ?_
    try simp only
    split
    · simp
    · refine nf_bind (consume_nf _ _) fun _ _ => ?_
      refine nf_bind (consumeId_nf _) fun _ _ => ?_
      try simp only
      repeat' split
      all_goals simp [pure, Except.pure]

theorem parseDistances_nf (s : PS) : parseDistances s ≠ .error .fuel := by
  unfold parseDistances
  refine nf_bind (consume_nf _ _) fun _ _ => ?_
  refine nf_bind (consumeInt_nf _) fun _ _ => ?_
  refine nf_bind (consume_nf _ _) fun _ _ => ?_
  refine nf_bind (consumeInt_nf _) fun _ _ => ?_
  simp [pure, Except.pure]

theorem parseMeta_nf {n : Nat} {s : PS} {p : Nat} (hp : AF s p) (hn : p + 1 ≤ n) :
    parseMeta n s ≠ .error .fuel := by
  unfold parseMeta
  refine nf_bind ?_ fun x h1 => ?_
  · split
    · exact parseDescription_nf _
    · simp [pure, Except.pure]
  obtain ⟨d, s1⟩ := x
  have hp1 : AF s1 p := by
    split at h1
    · obtain ⟨_, a⟩ := parseDescription_adv h1; exact (hp.step a).mono (by omega)
    · cases h1; exact hp
  refine nf_bind (examplesLoop_nf n _ s1 p hp1 hn) fun x h2 => ?_
  obtain ⟨ex, s2⟩ := x
  obtain ⟨_, a2⟩ := examplesLoop_adv n h2
  have hp2 : AF s2 p := (hp1.step a2).mono (by omega)
  refine nf_bind (parseRelated_nf hp2 hn) fun x h3 => ?_
  obtain ⟨rel, s3⟩ := x
  obtain ⟨_, a3⟩ := parseRelated_adv h3
  have hp3 : AF s3 p := (hp2.step a3).mono (by omega)
  try simp only
  split
  · simp
  · refine nf_bind ?_ fun _ _ => by simp [pure, Except.pure]
    split
    · exact parseSuperiors_nf hp3 hn
    · simp [pure, Except.pure]

theorem parseExtenders_nf {n : Nat} {s : PS} {p : Nat} (hp : AF s p) (hn : 3 * p + 2 ≤ n) :
    parseExtenders n s ≠ .error .fuel := by
  unfold parseExtenders
  split
  · refine nf_bind (consume_nf _ _) fun x h1 => ?_
    obtain ⟨hp1, _⟩ := hp.consume h1
    try simp only
    split
    · simp
    · split
      · refine nf_bind ((blockNF n).cds _ (p - 1) hp1 (by omega)) fun _ _ => ?_
        exact nf_bind (mkCds_nf _ _) fun _ _ => by simp [pure, Except.pure]
      · split
        · refine nf_bind ((blockNF n).single _ _ (p - 1) hp1 (by omega)) fun _ _ => ?_
          try simp only
          repeat' split
          all_goals simp [pure, Except.pure]
        · simp
  · simp [pure, Except.pure]

theorem ruleEnd_nf (s : PS) : ruleEnd s ≠ .error .fuel := by
  unfold ruleEnd
  repeat' split
  all_goals simp [pure, Except.pure]

/-- on an alias-free state with at most `p` unread tokens, fuel `3p + 3` suffices for a rule -/
theorem parseRuleWith_nf {n : Nat} {cfg : Cfg} {s : PS} {p : Nat} (hp : AF s p) (hn : 3 * p + 3 ≤ n) :
    parseRuleWith n cfg s ≠ .error .fuel := by
  unfold parseRuleWith
  refine nf_bind (parseHead_nf _ _) fun x h1 => ?_
  obtain ⟨⟨name, cat⟩, s1⟩ := x
  obtain ⟨⟨_, a1⟩, _⟩ := parseHead_post h1
  have hp1 : AF s1 p := (hp.step a1).mono (by omega)
  refine nf_bind (parseMeta_nf hp1 (by omega)) fun x h2 => ?_
  obtain ⟨m, s2⟩ := x
  obtain ⟨_, a2⟩ := parseMeta_adv h2
  have hp2 : AF s2 p := (hp1.step a2).mono (by omega)
  refine nf_bind (parseDistances_nf _) fun x h3 => ?_
  obtain ⟨d, s3⟩ := x
  obtain ⟨_, a3⟩ := parseDistances_adv h3
  have hp3 : AF s3 p := (hp2.step a3).mono (by omega)
  refine nf_bind (consume_nf _ _) fun x h4 => ?_
  obtain ⟨hp4, _⟩ := hp3.consume h4
  refine nf_bind ((blockNF n).conds _ _ _ (p - 1) hp4 (by omega)) fun x h5 => ?_
  have hp5 := hp4.conds h5
  refine nf_bind (mkGroup_nf _ _) fun _ _ => ?_
  refine nf_bind (parseExtenders_nf hp5 (by omega)) fun _ _ => ?_
  refine nf_bind (ruleEnd_nf _) fun _ _ => ?_
  repeat' split
  all_goals simp [pure, Except.pure]

end ASV.Parser
