/-
  C02 thm 7, part 8: `normC c` has the same (C01) meaning as `c`.
-/
import ASV.Proofs.Parser.Reprint7
namespace ASV.Reprint
open ASV ASV.Rules ASV.Parser ASV.Grammar

theorem perm_insertStr {x : String} {l : List String} (h : x ∉ l) : (insertStr x l).Perm (x :: l) := by
  induction l with
  | nil => simp [insertStr]
  | cons y ys ih =>
    simp only [insertStr]
    split
    · exact List.Perm.refl _
    · split
      · rename_i hxy
        have : x = y := by simpa using hxy
        subst this
        exact absurd (List.mem_cons_self) h
      · have hx : x ∉ ys := fun hm => h (List.mem_cons_of_mem _ hm)
        exact ((ih hx).cons y).trans (List.Perm.swap x y ys)

theorem perm_sortDedupStr : ∀ (l : List String), l.Nodup → (sortDedupStr l).Perm l := by
  intro l
  induction l with
  | nil => intro _; exact List.Perm.refl _
  | cons a r ih =>
    intro hn
    rw [List.nodup_cons] at hn
    have h1 : sortDedupStr (a :: r) = insertStr a (sortDedupStr r) := rfl
    rw [h1]
    have hnot : a ∉ sortDedupStr r := fun hm => hn.1 (mem_sortDedupStr.mp hm)
    exact (perm_insertStr hnot).trans ((ih hn.2).cons a)

theorem filter_length_sortDedup (p : String → Bool) (l : List String) (h : hasDupStr l = false) :
    ((sortDedupStr l).filter p).length = (l.filter p).length :=
  ((perm_sortDedupStr l (hasDupStr_false_iff.mp h)).filter p).length_eq

theorem sem_setNeg (e : Env) (g : Gene) {a : Cond} (hc : Cond.isConj a = false) (hn : negFlag a = false) :
    sem e g (setNeg a) = !sem e g a ∧ semLocal e g (setNeg a) = !semLocal e g a := by
  cases a <;> simp_all [negFlag, setNeg, sem, semLocal, Cond.isConj]

mutual
theorem sem_norm (e : Env) (g : Gene) : ∀ c : Cond, NamesOk c → noRepeat c = true →
    sem e g (normC c) = sem e g c ∧ semLocal e g (normC c) = semLocal e g c
  | .single neg n, _, _ => ⟨rfl, rfl⟩
  | .score neg n s, _, _ => ⟨rfl, rfl⟩
  | .minimum neg c opts, _, hr => by
      simp only [noRepeat, Bool.and_eq_true, Bool.not_eq_true'] at hr
      simp only [normC, sem, semLocal, filter_length_sortDedup _ opts hr.1]
      exact ⟨trivial, trivial⟩
  | .cds neg subs, h, hr => by
      have hnl : NamesOkL subs := by simpa [NamesOk, NamesOkL, Cond.profiles] using h
      simp only [noRepeat, Bool.and_eq_true] at hr
      have hl : ∀ g', semLocalAny e g' (normL subs) = semLocalAny e g' subs := fun g' =>
        (sem_normL e g' subs hnl hr.2).2.2.1
      simp only [normC]
      split
      · simp [sem, semLocal, semLocalAny, hl]
      · simp [sem, semLocal, hl]
  | .group neg [], _, _ => by simp [normC, isSingleton, normL]
  | .group neg [x], h, hr => by
      have hx : NamesOk x := by intro n hn; exact h n (by simp [Cond.profiles, profilesL, hn])
      simp only [noRepeat, noRepeats, Bool.and_eq_true, Bool.and_true] at hr
      obtain ⟨s1, s2⟩ := sem_norm e g x hx hr.2
      by_cases hc : Cond.isConj x = true
      · simp only [normC, isSingleton, List.all_cons, List.all_nil, hc, Bool.and_true, Bool.not_true, Bool.and_false,
          Bool.false_eq_true, ↓reduceIte, normL_single]
        simp [sem, semLocal, semAny, semLocalAny, s1, s2]
      · have hc' : Cond.isConj x = false := Bool.eq_false_iff.mpr hc
        obtain ⟨hhead, hnc⟩ := (keys_normC x hx).2 hc'
        simp only [normC, isSingleton, List.all_cons, List.all_nil, hc', Bool.and_true, Bool.not_false, Bool.true_and,
          ↓reduceIte, normL_single, unwrap, joinTexts_single]
        split
        · rename_i hd
          simp only [Bool.and_eq_true] at hd
          obtain ⟨rfl, _⟩ := hd
          simp [sem, semLocal, semAny, semLocalAny, s1, s2]
        · rename_i hd
          split
          · rename_i hneg
            subst hneg
            have hd' : ((printTexts x).head? == some "not") = false := by
              simpa using hd
            have hflag : negFlag (normC x) = false := by rw [← hhead]; exact hd'
            obtain ⟨t1, t2⟩ := sem_setNeg e g hnc hflag
            simp [t1, t2, sem, semLocal, semAny, semLocalAny, s1, s2]
          · rename_i hneg
            have : neg = false := by simpa using hneg
            subst this
            simp [sem, semLocal, semAny, semLocalAny, s1, s2]
  | .group neg (x :: y :: r), h, hr => by
      have hnl : NamesOkL (x :: y :: r) := by simpa [NamesOk, NamesOkL, Cond.profiles] using h
      simp only [noRepeat, Bool.and_eq_true] at hr
      obtain ⟨a1, _, a3, _⟩ := sem_normL e g (x :: y :: r) hnl hr.2
      simp only [normC, isSingleton, Bool.false_and, Bool.false_eq_true, ↓reduceIte, sem, semLocal, a1, a3]
      exact ⟨trivial, trivial⟩
  | .conj subs, h, hr => by
      have hnl : NamesOkL subs := by simpa [NamesOk, NamesOkL, Cond.profiles] using h
      simp only [noRepeat, Bool.and_eq_true] at hr
      obtain ⟨_, a2, _, a4⟩ := sem_normL e g subs hnl hr.2
      simp only [normC, sem, semLocal, a2, a4]
      exact ⟨trivial, trivial⟩
theorem sem_normL (e : Env) (g : Gene) : ∀ l : List Cond, NamesOkL l → noRepeats l = true →
    semAny e g (normL l) = semAny e g l ∧ semAll e g (normL l) = semAll e g l ∧
    semLocalAny e g (normL l) = semLocalAny e g l ∧ semLocalAll e g (normL l) = semLocalAll e g l
  | [], _, _ => ⟨rfl, rfl, rfl, rfl⟩
  | c :: r, h, hr => by
      simp only [noRepeats, Bool.and_eq_true] at hr
      obtain ⟨s1, s2⟩ := sem_norm e g c (by intro n hn; exact h n (by simp [profilesL, hn])) hr.1
      obtain ⟨a1, a2, a3, a4⟩ := sem_normL e g r (by intro n hn; exact h n (by simp [profilesL, hn])) hr.2
      simp [normL_cons, semAny, semAll, semLocalAny, semLocalAll, s1, s2, a1, a2, a3, a4]
end

end ASV.Reprint
