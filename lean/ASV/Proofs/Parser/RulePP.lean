/-
  C02: a whole rule written with the mandatory sections is parsed into the rule the grammar denotes,
  distances read in kilobases.
-/
import ASV.Proofs.Parser.Grammar
namespace ASV.Parser
open ASV ASV.Rules ASV.Grammar

theorem budget_ofStream (toks cons : List Tok) (r : List Rule) :
    (ofStream toks cons r).budget = 8 * ((ofStream toks cons r).rest.length + 2) + 8 := by
  cases toks <;> simp [ofStream, PS.budget] <;> omega

theorem examplesLoop_none {fuel : Nat} {t : Tok} {k cons : List Tok} {r : List Rule} (ht : t.type ≠ .example) :
    examplesLoop (fuel + 1) [] (ofStream (t :: k) cons r) = .ok ([], ofStream (t :: k) cons r) := by
  simp [examplesLoop, ht]

theorem parseHead_ofStream (cfg : Cfg) (name cat : String) (x : Tok) (k cons : List Tok) (rules : List Rule)
    (hcat : cfg.cats.contains cat = true) :
    parseHead cfg (ofStream (kw "RULE" .rule :: tId name :: kw "CATEGORY" .category :: tId cat :: x :: k) cons rules) =
      .ok ((name, cat), ofStream (x :: k) (tId cat :: kw "CATEGORY" .category :: tId name :: kw "RULE" .rule :: cons) rules) := by
  have h1 := consume_ofStream (t := kw "RULE" .rule) (k := tId name :: kw "CATEGORY" .category :: tId cat :: x :: k)
    (c := cons) (r := rules) (exp := .rule) rfl
  have h2 := consumeId_ofStream (t := tId name) (k := kw "CATEGORY" .category :: tId cat :: x :: k)
    (c := kw "RULE" .rule :: cons) (r := rules) (key_tId name)
  have h3 := consume_ofStream (t := kw "CATEGORY" .category) (k := tId cat :: x :: k)
    (c := tId name :: kw "RULE" .rule :: cons) (r := rules) (exp := .category) rfl
  have h4 := consumeId_ofStream (t := tId cat) (k := x :: k)
    (c := kw "CATEGORY" .category :: tId name :: kw "RULE" .rule :: cons) (r := rules) (key_tId cat)
  unfold parseHead
  simp only [bind, Except.bind, h1]
  have ha : (ofStream (tId name :: kw "CATEGORY" .category :: tId cat :: x :: k) (kw "RULE" .rule :: cons) rules).curAliased = false := rfl
  simp only [ha, Bool.false_eq_true, ↓reduceIte, h2, ofStream_cur_cons, Option.isNone_some, h3, h4, hcat,
    Bool.not_true, pure, Except.pure]

theorem parseMeta_ofStream (fuel : Nat) (x : Tok) (k cons : List Tok) (rules : List Rule) (hx : x.type = .cutoff) :
    parseMeta (fuel + 1) (ofStream (x :: k) cons rules) = .ok (([], [], [], []), ofStream (x :: k) cons rules) := by
  unfold parseMeta parseRelated
  simp [curIs_ofStream, hx, examplesLoop, bind, Except.bind, pure, Except.pure]

theorem parseDistances_ofStream (ckb nkb : Nat) (k cons : List Tok) (rules : List Rule) :
    parseDistances (ofStream (kw "CUTOFF" .cutoff :: tInt ckb :: kw "NEIGHBOURHOOD" .neighbourhood :: tInt nkb :: k) cons rules) =
      .ok ((ckb * 1000, nkb * 1000),
        ofStream k (tInt nkb :: kw "NEIGHBOURHOOD" .neighbourhood :: tInt ckb :: kw "CUTOFF" .cutoff :: cons) rules) := by
  have h1 := consume_ofStream (t := kw "CUTOFF" .cutoff) (k := tInt ckb :: kw "NEIGHBOURHOOD" .neighbourhood :: tInt nkb :: k)
    (c := cons) (r := rules) (exp := .cutoff) rfl
  have h2 := consumeInt_ofStream (t := tInt ckb) (k := kw "NEIGHBOURHOOD" .neighbourhood :: tInt nkb :: k)
    (c := kw "CUTOFF" .cutoff :: cons) (r := rules) (key_tInt ckb)
  have h3 := consume_ofStream (t := kw "NEIGHBOURHOOD" .neighbourhood) (k := tInt nkb :: k)
    (c := tInt ckb :: kw "CUTOFF" .cutoff :: cons) (r := rules) (exp := .neighbourhood) rfl
  have h4 := consumeInt_ofStream (t := tInt nkb) (k := k)
    (c := kw "NEIGHBOURHOOD" .neighbourhood :: tInt ckb :: kw "CUTOFF" .cutoff :: cons) (r := rules) (key_tInt nkb)
  unfold parseDistances
  simp only [bind, Except.bind, h1, h2, h3, h4, pure, Except.pure]

theorem parseRule_ruleToks (cfg : Cfg) (name cat : String) (ckb nkb : Nat) (t : OrE) (k cons : List Tok)
    (rules : List Rule) (hcat : cfg.cats.contains cat = true) (ht : okTop t = true)
    (hpos : positive (shapeTop t) = true)
    (hk : headType k = none ∨ headType k = some .rule ∨ headType k = some .define) :
    parseRule cfg (ofStream (ruleToks name cat ckb nkb t ++ k) cons rules) =
      .ok ({ name := name, category := cat, cutoff := ckb * 1000, neighbourhood := nkb * 1000,
             conditions := shapeTop t },
           ofStream k ((ruleToks name cat ckb nkb t).reverse ++ cons) rules) := by
  have hnb : NotBinop k := by
    rcases hk with h | h | h <;> simp [NotBinop, h]
  have hend : ∀ c r, endCheck false (ofStream k c r) = .ok () := by
    intro c r
    cases k with
    | nil => simp [endCheck, ofStream]
    | cons x xs =>
      simp only [headType_cons] at hk
      rcases hk with h | h | h
      · cases h
      · simp at h; simp [endCheck, ofStream, h]
      · simp at h; simp [endCheck, ofStream, h]
  have hend' : ruleEnd (ofStream k ((ruleToks name cat ckb nkb t).reverse ++ cons) rules) = .ok () := by
    cases k with
    | nil => simp [ruleEnd, ofStream, pure, Except.pure]
    | cons x xs =>
      simp only [headType_cons] at hk
      rcases hk with h | h | h
      · cases h
      · simp at h; simp [ruleEnd, ofStream, h, pure, Except.pure]
      · simp at h; simp [ruleEnd, ofStream, h, pure, Except.pure]
  have hext : parseExtenders ((ofStream (ruleToks name cat ckb nkb t ++ k) cons rules).budget)
      (ofStream k ((ruleToks name cat ckb nkb t).reverse ++ cons) rules) =
      .ok (none, ofStream k ((ruleToks name cat ckb nkb t).reverse ++ cons) rules) := by
    have : (ofStream k ((ruleToks name cat ckb nkb t).reverse ++ cons) rules).curIs .extenders = false := by
      rw [curIs_ofStream]
      rcases hk with h | h | h <;> simp [h]
    simp [parseExtenders, this, pure, Except.pure]
  have hgroup : mkGroup false (shapeOr t) = .ok (shapeTop t) := by
    simp only [okTop, Bool.and_eq_true, Bool.not_eq_true'] at ht
    simp [mkGroup, checkOperands, ht.2, bind, Except.bind, pure, Except.pure, shapeTop]
  have hfuel : 3 * (ppOr t).length + 2 ≤ (ofStream (ruleToks name cat ckb nkb t ++ k) cons rules).budget := by
    rw [budget_ofStream]
    simp [ruleToks, ofStream]
    omega
  obtain ⟨f, hf⟩ : ∃ f, (ofStream (ruleToks name cat ckb nkb t ++ k) cons rules).budget = f + 1 := by
    rw [budget_ofStream]; exact ⟨_, rfl⟩
  have hpp := parse_pp_aux t ht _ k
    (kw "CONDITIONS" .conditions :: tInt nkb :: kw "NEIGHBOURHOOD" .neighbourhood :: tInt ckb :: kw "CUTOFF" .cutoff ::
      tId cat :: kw "CATEGORY" .category :: tId name :: kw "RULE" .rule :: cons) rules hnb hend hfuel
  have hc := consume_ofStream (t := kw "CONDITIONS" .conditions) (k := ppOr t ++ k)
    (c := tInt nkb :: kw "NEIGHBOURHOOD" .neighbourhood :: tInt ckb :: kw "CUTOFF" .cutoff ::
      tId cat :: kw "CATEGORY" .category :: tId name :: kw "RULE" .rule :: cons) (r := rules) (exp := .conditions) rfl
  unfold parseRule parseRuleWith
  generalize hb : (ofStream (ruleToks name cat ckb nkb t ++ k) cons rules).budget = fuel at hpp hext hf
  subst hf
  simp only [ruleToks, List.cons_append, List.nil_append, List.append_assoc] at hext hend' ⊢
  simp only [bind, Except.bind, parseHead_ofStream cfg name cat _ _ cons rules hcat,
    parseMeta_ofStream f (kw "CUTOFF" .cutoff) _ _ rules rfl, parseDistances_ofStream, hc, hpp, hgroup]
  simp only [List.reverse_cons, List.reverse_append, List.append_assoc, List.cons_append, List.nil_append,
    List.reverse_nil, List.reverse_reverse] at hext hend' ⊢
  simp [hext, hend', hpos, extendersNegative, bind, Except.bind, pure, Except.pure]

end ASV.Parser

namespace ASV.Parser
open ASV ASV.Rules ASV.Grammar

/-- the mandatory sections before the conditions -/
def hdrToks (name cat : String) (ckb nkb : Nat) : List Tok :=
  [kw "RULE" .rule, tId name, kw "CATEGORY" .category, tId cat, kw "CUTOFF" .cutoff, tInt ckb,
   kw "NEIGHBOURHOOD" .neighbourhood, tInt nkb, kw "CONDITIONS" .conditions]

/-- `parseRule_ruleToks` with the conditions given by their keys -/
theorem parseRule_keys (cfg : Cfg) (name cat : String) (ckb nkb : Nat) (Lr : List Cond) (w k cons : List Tok)
    (rules : List Rule) (hcat : cfg.cats.contains cat = true) (hne : Lr ≠ []) (hs : shapeOks true Lr = true)
    (hr : noRepeats Lr = true) (hd : hasDupStr (printConds Lr) = false) (hw : w.map Tok.key = flatJoin .orOp Lr)
    (hpos : positive (.group false Lr) = true)
    (hk : headType k = none ∨ headType k = some .rule ∨ headType k = some .define) :
    parseRule cfg (ofStream (hdrToks name cat ckb nkb ++ w ++ k) cons rules) =
      .ok ({ name := name, category := cat, cutoff := ckb * 1000, neighbourhood := nkb * 1000,
             conditions := .group false Lr },
           ofStream k ((hdrToks name cat ckb nkb ++ w).reverse ++ cons) rules) := by
  have hnb : NotBinop k := by
    rcases hk with h | h | h <;> simp [NotBinop, h]
  have hend : ∀ c r, endCheck false (ofStream k c r) = .ok () := by
    intro c r
    cases k with
    | nil => simp [endCheck, ofStream]
    | cons x xs =>
      simp only [headType_cons] at hk
      rcases hk with h | h | h
      · cases h
      · simp at h; simp [endCheck, ofStream, h]
      · simp at h; simp [endCheck, ofStream, h]
  have hend' : ruleEnd (ofStream k ((hdrToks name cat ckb nkb ++ w).reverse ++ cons) rules) = .ok () := by
    cases k with
    | nil => simp [ruleEnd, ofStream, pure, Except.pure]
    | cons x xs =>
      simp only [headType_cons] at hk
      rcases hk with h | h | h
      · cases h
      · simp at h; simp [ruleEnd, ofStream, h, pure, Except.pure]
      · simp at h; simp [ruleEnd, ofStream, h, pure, Except.pure]
  have hext : parseExtenders ((ofStream (hdrToks name cat ckb nkb ++ w ++ k) cons rules).budget)
      (ofStream k ((hdrToks name cat ckb nkb ++ w).reverse ++ cons) rules) =
      .ok (none, ofStream k ((hdrToks name cat ckb nkb ++ w).reverse ++ cons) rules) := by
    have : (ofStream k ((hdrToks name cat ckb nkb ++ w).reverse ++ cons) rules).curIs .extenders = false := by
      rw [curIs_ofStream]
      rcases hk with h | h | h <;> simp [h]
    simp only [parseExtenders, this, Bool.false_eq_true, ↓reduceIte]
    rfl
  have hgroup : mkGroup false Lr = .ok (.group false Lr) := by
    simp [mkGroup, checkOperands, hd, bind, Except.bind, pure, Except.pure]
  have hfuel : 3 * w.length + 2 ≤ (ofStream (hdrToks name cat ckb nkb ++ w ++ k) cons rules).budget := by
    rw [budget_ofStream]
    simp [hdrToks, ofStream]
    omega
  obtain ⟨f, hf⟩ : ∃ f, (ofStream (hdrToks name cat ckb nkb ++ w ++ k) cons rules).budget = f + 1 := by
    rw [budget_ofStream]; exact ⟨_, rfl⟩
  have hpp := parseConditions_complete true false Lr _ w k
    (kw "CONDITIONS" .conditions :: tInt nkb :: kw "NEIGHBOURHOOD" .neighbourhood :: tInt ckb :: kw "CUTOFF" .cutoff ::
      tId cat :: kw "CATEGORY" .category :: tId name :: kw "RULE" .rule :: cons) rules hne hs hr hw hnb hend hfuel
  have hc := consume_ofStream (t := kw "CONDITIONS" .conditions) (k := w ++ k)
    (c := tInt nkb :: kw "NEIGHBOURHOOD" .neighbourhood :: tInt ckb :: kw "CUTOFF" .cutoff ::
      tId cat :: kw "CATEGORY" .category :: tId name :: kw "RULE" .rule :: cons) (r := rules) (exp := .conditions) rfl
  unfold parseRule parseRuleWith
  generalize hb : (ofStream (hdrToks name cat ckb nkb ++ w ++ k) cons rules).budget = fuel at hpp hext hf
  subst hf
  simp only [hdrToks, List.cons_append, List.nil_append, List.append_assoc] at hext hend' ⊢
  simp only [bind, Except.bind, parseHead_ofStream cfg name cat _ _ cons rules hcat,
    parseMeta_ofStream f (kw "CUTOFF" .cutoff) _ _ rules rfl, parseDistances_ofStream, hc, hpp, hgroup]
  simp only [List.reverse_cons, List.reverse_append, List.append_assoc, List.cons_append, List.nil_append,
    List.reverse_nil, List.reverse_reverse] at hext hend' ⊢
  simp [hext, hend', hpos, extendersNegative, bind, Except.bind, pure, Except.pure]

end ASV.Parser
