/-
  C02 thm 4 (partial): DEFINE aliases as token substitution.  With a *flat* alias table (no
  definition mentions an alias name, none is empty) every step of the parser reads the next token
  of the substituted stream; the main loop keeps the table flat (this is what fixes/D25 buys).
-/
import ASV.Proofs.Parser.Main
namespace ASV.Parser
open ASV ASV.Rules ASV.Grammar

/-- `t` is an identifier that names an alias -/
def aliasName (A : Aliases) (t : Tok) : Bool := t.type == .identifier && (A.lookup t.text).isSome

structure Flat (A : Aliases) : Prop where
  noRef : ∀ p ∈ A, ∀ t ∈ p.2, aliasName A t = false
  nonEmpty : ∀ p ∈ A, p.2 ≠ []
  noKw : ∀ p ∈ A, ∀ t ∈ p.2, t.type.isRuleKeyword = false

theorem subst_id (A : Aliases) (l : List Tok) (h : ∀ t ∈ l, aliasName A t = false) : subst A l = l := by
  induction l with
  | nil => rfl
  | cons t ts ih =>
    have ht := h t (by simp)
    have ih' := ih (fun x hx => h x (by simp [hx]))
    simp only [aliasName, Bool.and_eq_false_iff] at ht
    simp only [subst]
    split
    · rename_i hid
      rcases ht with ht | ht
      · simp [hid] at ht
      · cases hl : A.lookup t.text with
        | none => simp [ih']
        | some b => simp [hl] at ht
    · simp [ih']

theorem subst_append (A : Aliases) (a b : List Tok) : subst A (a ++ b) = subst A a ++ subst A b := by
  induction a with
  | nil => rfl
  | cons t ts ih =>
    simp only [List.cons_append, subst]
    split
    · split <;> simp [ih]
    · simp [ih]

theorem lookup_mem {A : Aliases} {k : String} {v : List Tok} (h : A.lookup k = some v) : ∃ k', (k', v) ∈ A := by
  induction A with
  | nil => cases h
  | cons p ps ih =>
    obtain ⟨a, b⟩ := p
    simp only [List.lookup] at h
    split at h
    · cases h; exact ⟨a, by simp⟩
    · obtain ⟨k', hk⟩ := ih h; exact ⟨k', by simp [hk]⟩

/-- the stream the parser is about to read: the current token, then the rest with every alias
    identifier replaced by its definition -/
def view (s : PS) : List Tok :=
  match s.cur with
  | none => []
  | some c => c :: subst s.aliases s.rest

/-- thm 4, the core: stepping to the next token is stepping along the substituted stream -/
theorem advance_view {s s' : PS} (hf : Flat s.aliases) (h : s.advance = .ok s') :
    view s' = subst s.aliases s.rest ∧ s'.aliases = s.aliases ∧
      (∀ c, s'.cur = some c → aliasName s.aliases c = false) ∧ (s'.cur = none → s'.rest = [] ∨ s.rest = []) := by
  unfold PS.advance at h
  split at h
  · rename_i hr
    cases h
    simp [view, hr, subst]
  · rename_i n r hr
    split at h
    · rename_i hid
      split at h
      · rename_i body hl
        obtain ⟨k', hmem⟩ := lookup_mem hl
        have hne := hf.nonEmpty _ hmem
        have hnr := hf.noRef _ hmem
        cases body with
        | nil => exact absurd rfl hne
        | cons b more =>
          simp only [List.cons_append] at h
          cases h
          refine ⟨?_, rfl, ?_, by simp⟩
          · simp only [view, hr, subst, hid, ↓reduceIte, hl, subst_append]
            rw [subst_id _ more (fun t ht => hnr t (by simp [ht]))]
            simp
          · intro c hc
            simp only [Option.some.injEq] at hc
            subst hc
            exact hnr b (by simp)
      · rename_i hl
        cases h
        refine ⟨by simp [view, hr, subst, hid, hl], rfl, ?_, by simp⟩
        intro c hc
        simp only [Option.some.injEq] at hc
        subst hc
        simp [aliasName, hl]
    · rename_i hid
      cases h
      refine ⟨by simp [view, hr, subst, hid], rfl, ?_, by simp⟩
      intro c hc
      simp only [Option.some.injEq] at hc
      subst hc
      simp [aliasName, hid]

/-- `_consume` hands out the head of the substituted stream and moves to its tail -/
theorem consume_view {s s' : PS} {exp : TT} {c : Tok} (hf : Flat s.aliases) (h : consume exp s = .ok (c, s')) :
    view s = c :: view s' ∧ s'.aliases = s.aliases ∧ ∀ c', s'.cur = some c' → aliasName s.aliases c' = false := by
  unfold consume at h
  split at h
  · cases h
  · rename_i c0 hc0
    split at h
    · cases h
    · simp only [bind_ok] at h
      obtain ⟨s1, h1, h⟩ := h
      cases h
      obtain ⟨hv, ha, hn, _⟩ := advance_view (s := { s with consumed := c :: s.consumed }) hf h1
      simp only at hv ha hn
      exact ⟨by rw [hv]; simp [view, hc0], ha, hn⟩

end ASV.Parser

namespace ASV.Parser
open ASV ASV.Rules ASV.Grammar

theorem consumeId_view {s s' : PS} {n : String} (hf : Flat s.aliases) (h : consumeId s = .ok (n, s')) :
    s'.aliases = s.aliases ∧ ∀ c', s'.cur = some c' → aliasName s.aliases c' = false := by
  unfold consumeId at h
  simp only [bind_ok, Prod.exists] at h
  obtain ⟨c, s1, h1, h⟩ := h
  cases h
  exact (consume_view hf h1).2

theorem aliasLoop_flat (fuel : Nat) : ∀ {acc : List Tok} {s s' : PS} {toks : List Tok},
    aliasLoop fuel acc s = .ok (toks, s') → Flat s.aliases →
    (∀ c, s.cur = some c → aliasName s.aliases c = false) →
    (∀ t ∈ acc, aliasName s.aliases t = false ∧ t.type.isRuleKeyword = false) →
    ∀ t ∈ toks, aliasName s.aliases t = false ∧ t.type.isRuleKeyword = false := by
  induction fuel with
  | zero => intro acc s s' toks h; simp [aliasLoop] at h
  | succ n ih =>
    intro acc s s' toks h hf hcur hacc
    rw [aliasLoop] at h
    split at h
    · cases h; exact hacc
    · rename_i c hc
      split at h
      · cases h; exact hacc
      · rename_i hkw
        split at h
        · cases h
        · simp only [bind_ok, Prod.exists] at h
          obtain ⟨c1, s1, h1, h⟩ := h
          have hf' : Flat ({ s with cur := some { c with aliased := true } } : PS).aliases := hf
          obtain ⟨_, ha, hn⟩ := consume_view hf' h1
          simp only at ha hn
          have hc' : aliasName s.aliases { c with aliased := true } = false := by
            have := hcur c hc
            simpa [aliasName] using this
          have := ih h (by rw [ha]; exact hf) (by rw [ha]; exact hn)
            (by
              rw [ha]
              intro t ht
              rcases List.mem_append.mp ht with ht | ht
              · exact hacc t ht
              · simp at ht; subst ht; exact ⟨hc', by simpa using hkw⟩)
          rw [ha] at this
          exact this

theorem parseAlias_flat {s s' : PS} {name : String} {toks : List Tok}
    (h : parseAlias s = .ok ((name, toks), s')) (hf : Flat s.aliases) :
    (∀ t ∈ toks, aliasName s.aliases t = false ∧ t.type.isRuleKeyword = false) ∧ toks ≠ [] ∧ s'.aliases = s.aliases := by
  have hadv := parseAlias_adv h
  unfold parseAlias parseAliasWith at h
  simp only [bind_ok, Prod.exists] at h
  obtain ⟨c1, s1, h1, h⟩ := h
  split at h
  · cases h
  · simp only [bind_ok, Prod.exists] at h
    obtain ⟨nm, s2, h2, c3, s3, h3, tk, s4, h4, h⟩ := h
    split at h
    · cases h
    · rename_i hne
      cases h
      obtain ⟨_, a1, _⟩ := consume_view hf h1
      have hf1 : Flat s1.aliases := by rw [a1]; exact hf
      obtain ⟨a2, _⟩ := consumeId_view hf1 h2
      have hf2 : Flat s2.aliases := by rw [a2]; exact hf1
      obtain ⟨_, a3, n3⟩ := consume_view hf2 h3
      have hf3 : Flat s3.aliases := by rw [a3]; exact hf2
      have := aliasLoop_flat _ h4 hf3 (by rw [a3]; exact n3) (by simp)
      obtain ⟨new, adv⟩ := hadv
      refine ⟨?_, by simpa using hne, adv.aliases⟩
      rw [a3, a2, a1] at this
      exact this

theorem flat_extend {A : Aliases} {name : String} {toks : List Tok} (hf : Flat A)
    (hnew : (A.lookup name).isSome = false)
    (htoks : ∀ t ∈ toks, aliasName A t = false ∧ t.type.isRuleKeyword = false) (hne : toks ≠ [])
    (hself : usesIdentifier name toks = false) (hothers : A.any (fun a => usesIdentifier name a.2) = false) :
    Flat (A ++ [(name, toks)]) := by
  have hlook : ∀ t : Tok, aliasName (A ++ [(name, toks)]) t =
      (aliasName A t || (t.type == .identifier && t.text == name)) := by
    intro t
    simp only [aliasName, List.lookup_append]
    cases hl : A.lookup t.text with
    | some b => simp; intro h _; exact h
    | none =>
      simp only [Option.isSome_none, Bool.and_false, Bool.false_or, Option.none_or, List.lookup]
      by_cases hn : t.text = name
      · simp [hn]
      · have : (t.text == name) = false := by simpa using hn
        simp [this]
  have huse : ∀ l : List Tok, usesIdentifier name l = false → ∀ t ∈ l, (t.type == .identifier && t.text == name) = false := by
    intro l hl t ht
    simp only [usesIdentifier, List.any_eq_false] at hl
    simpa using hl t ht
  constructor
  · intro p hp t ht
    rw [hlook]
    rcases List.mem_append.mp hp with hp | hp
    · have h1 := hf.noRef p hp t ht
      have h2 : usesIdentifier name p.2 = false := by
        simp only [List.any_eq_false] at hothers
        simpa using hothers p hp
      simp [h1, huse p.2 h2 t ht]
    · simp at hp; subst hp
      simp [(htoks t ht).1, huse toks hself t ht]
  · intro p hp
    rcases List.mem_append.mp hp with hp | hp
    · exact hf.nonEmpty p hp
    · simp at hp; subst hp; exact hne
  · intro p hp t ht
    rcases List.mem_append.mp hp with hp | hp
    · exact hf.noKw p hp t ht
    · simp at hp; subst hp; exact (htoks t ht).2

theorem parseSuperiors_adv {fuel : Nat} {s s' : PS} {sup : List String}
    (h : parseSuperiors fuel s = .ok (sup, s')) : ∃ new, Adv s s' new := by
  unfold parseSuperiors at h
  simp only [bind_ok, Prod.exists] at h
  obtain ⟨c1, s1, h1, decl, s2, h2, h⟩ := h
  obtain ⟨a1, _, _⟩ := consume_post h1
  obtain ⟨n2, a2, _, _⟩ := parseIds_post h2
  split at h
  · cases h
  · simp only [bind_ok] at h
    obtain ⟨trans, h3, h⟩ := h
    cases h
    exact ⟨_, a1.trans a2⟩

theorem parseMeta_adv {fuel : Nat} {s s' : PS} {x : List String × List Example × List String × List String}
    (h : parseMeta fuel s = .ok (x, s')) : ∃ new, Adv s s' new := by
  unfold parseMeta at h
  simp only [bind_ok, Prod.exists] at h
  obtain ⟨d', s1, h1, ex', s2, h2, rel', s3, h3, h⟩ := h
  have ⟨n1, a1⟩ : ∃ new, Adv s s1 new := by
    split at h1
    · exact parseDescription_adv h1
    · cases h1; exact ⟨_, Adv.refl _⟩
  obtain ⟨n2, a2⟩ := examplesLoop_adv fuel h2
  obtain ⟨n3, a3⟩ := parseRelated_adv h3
  split at h
  · cases h
  · simp only [bind_ok, Prod.exists] at h
    obtain ⟨sup', s4, h4, h⟩ := h
    cases h
    have a123 := (a1.trans a2).trans a3
    split at h4
    · obtain ⟨n4, a4⟩ := parseSuperiors_adv h4
      exact ⟨_, a123.trans a4⟩
    · cases h4
      exact ⟨_, a123⟩

theorem parseRule_adv {cfg : Cfg} {s s' : PS} {r : Rule} (h : parseRule cfg s = .ok (r, s')) :
    ∃ new, Adv s s' new := by
  unfold parseRule parseRuleWith at h
  simp only [bind_ok, Prod.exists] at h
  obtain ⟨name, cat, s1, h1, d, ex, rel, sup, s2, h2, cut, nb, s3, h3, c4, s4, h4, subs, s5, h5,
    conds, h6, ext, s6, h7, u, h8, h⟩ := h
  obtain ⟨⟨n1, a1⟩, _⟩ := parseHead_post h1
  obtain ⟨n2, a2⟩ := parseMeta_adv h2
  obtain ⟨n3, a3⟩ := parseDistances_adv h3
  obtain ⟨a4, _, _⟩ := consume_post h4
  obtain ⟨n5, a5, _⟩ := (blockPost _).conds _ _ _ _ _ h5
  obtain ⟨⟨n7, a7⟩, _⟩ := parseExtenders_post h7
  split at h
  · cases h
  · split at h
    · cases h
    · cases h
      exact ⟨_, (((((a1.trans a2).trans a3).trans a4).trans a5).trans a7)⟩

theorem mainLoop_flat (fuel : Nat) (cfg : Cfg) : ∀ {s s' : PS},
    mainLoop fuel cfg s = .ok s' → Flat s.aliases → Flat s'.aliases := by
  induction fuel with
  | zero => intro s s' h; simp [mainLoop] at h
  | succ n ih =>
    intro s s' h hf
    rw [mainLoop] at h
    split at h
    · cases h; exact hf
    · split at h
      · simp only [bind_ok, Prod.exists] at h
        obtain ⟨nm, toks, s1, h1, u, h2, h⟩ := h
        obtain ⟨ht, hne, ha⟩ := parseAlias_flat h1 hf
        split at h
        · cases h
        · rename_i hnew
          split at h
          · cases h
          · rename_i huse
            refine ih h ?_
            simp only [Bool.or_eq_true, not_or, Bool.not_eq_true] at huse
            show Flat (s1.aliases ++ [(nm, toks)])
            rw [ha]
            rw [ha] at hnew huse
            exact flat_extend hf (by cases hx : s.aliases.lookup nm <;> simp_all) ht hne huse.1 huse.2
      · split at h
        · simp only [bind_ok, Prod.exists] at h
          obtain ⟨r, s1, h1, h⟩ := h
          obtain ⟨new, a1⟩ := parseRule_adv h1
          split at h
          · cases h
          · refine ih h ?_
            show Flat s1.aliases
            rw [a1.aliases]; exact hf
        · cases h

end ASV.Parser

namespace ASV.Parser
open ASV ASV.Rules ASV.Grammar

def markAliased (A : Aliases) : Aliases := A.map fun a => (a.1, a.2.map fun t => { t with aliased := true })

theorem lookup_markAliased (A : Aliases) (k : String) :
    ((markAliased A).lookup k).isSome = (A.lookup k).isSome := by
  induction A with
  | nil => rfl
  | cons p ps ih =>
    obtain ⟨a, b⟩ := p
    simp only [markAliased, List.map_cons, List.lookup] at ih ⊢
    split <;> simp_all [markAliased]

theorem flat_markAliased {A : Aliases} (hf : Flat A) : Flat (markAliased A) := by
  constructor
  · intro p hp t ht
    simp only [markAliased, List.mem_map] at hp
    obtain ⟨q, hq, rfl⟩ := hp
    simp only [List.mem_map] at ht
    obtain ⟨t0, ht0, rfl⟩ := ht
    have := hf.noRef q hq t0 ht0
    simpa [aliasName, lookup_markAliased] using this
  · intro p hp
    simp only [markAliased, List.mem_map] at hp
    obtain ⟨q, hq, rfl⟩ := hp
    have := hf.nonEmpty q hq
    simpa using this
  · intro p hp t ht
    simp only [markAliased, List.mem_map] at hp
    obtain ⟨q, hq, rfl⟩ := hp
    simp only [List.mem_map] at ht
    obtain ⟨t0, ht0, rfl⟩ := ht
    exact hf.noKw q hq t0 ht0

/-- a `Parser` run turns a flat alias table into a flat alias table -/
theorem parseTokens_flat {cfg : Cfg} {rules rules' : List Rule} {aliases aliases' : Aliases} {toks : List Tok}
    (h : parseTokens cfg rules aliases toks = .ok (rules', aliases')) (hf : Flat aliases) : Flat aliases' := by
  unfold parseTokens at h
  simp only [bind_ok] at h
  obtain ⟨_, _, h⟩ := h
  split at h
  · cases h
  · simp only [bind_ok] at h
    obtain ⟨s, hs, h⟩ := h
    split at h
    · cases h
    · cases h
      exact mainLoop_flat _ cfg hs (flat_markAliased hf)

end ASV.Parser
