/-
  C02: the stratified grammar of the spec (`OrE`/`AndE`/`Atom`) against the condition objects:
  its token rendering has the keys of the flattening of its shape, legal syntax has a legal shape,
  and the C01 meaning of the shape is the grammar's denotation.
-/
import ASV.Proofs.Parser.Complete
namespace ASV.Parser
open ASV ASV.Rules ASV.Grammar

theorem digitsVal_toDigits (v : Nat) : digitsVal (Nat.toDigits 10 v) = v := by
  rw [digitsVal, ← Nat.ofDigitChars_eq_foldl]
  exact Nat.ofDigitChars_ten_toDigits

theorem digitsVal_toString (v : Nat) : digitsVal (toString v).toList = v := by
  have h1 : (toString v).toList = Nat.toDigits 10 v := Nat.toList_repr
  rw [h1, digitsVal_toDigits]

@[simp] theorem key_kw (s : String) (t : TT) (h1 : t ≠ .identifier) (h2 : t ≠ .int) : (kw s t).key = kOf t := by
  simp [kw, Tok.key, kOf, h1, h2]
@[simp] theorem key_tId (n : String) : (tId n).key = kId n := by simp [tId, Tok.key, kId]
@[simp] theorem key_tInt (v : Nat) : (tInt v).key = kInt v := by
  simp [tInt, Tok.key, kInt, digitsVal_toString, digitsVal_toDigits]
@[simp] theorem key_tOpen : tOpen.key = kOf .groupOpen := by simp [tOpen]
@[simp] theorem key_tClose : tClose.key = kOf .groupClose := by simp [tClose]
@[simp] theorem key_tComma : tComma.key = kOf .comma := by simp [tComma]

theorem tNot_keys (neg : Bool) : (tNot neg).map Tok.key = flatNot neg := by
  cases neg <;> simp [tNot, flatNot]

theorem ppIds_keys (opts : List String) : (ppIds opts).map Tok.key = flatIds opts := by
  induction opts with
  | nil => simp [ppIds, flatIds]
  | cons a rest ih =>
    cases rest with
    | nil => simp [ppIds, flatIds]
    | cons b r => rw [ppIds, flatIds] <;> simp [ih]

mutual
theorem ppOr_keys : ∀ t : OrE, (ppOr t).map Tok.key = flatJoin .orOp (shapeOr t)
  | .one a => by simp [ppOr, shapeOr, flatJoin, ppAnd_keys a]
  | .or a rest => by
      rw [ppOr, shapeOr, flatJoin_cons, List.map_append, ppAnd_keys a, List.map_cons, ppOr_keys rest]
      rw [joinTail_eq .orOp (shapeOr_ne_nil rest)]
      simp
theorem ppAnd_keys : ∀ a : AndE, (ppAnd a).map Tok.key = flatC (shapeAnd a)
  | .one a => by simp [ppAnd, shapeAnd, ppAtom_keys a]
  | .and a rest => by
      rw [ppAnd, shapeAnd, flatC, flatJoin_cons, List.map_append, ppAtom_keys a, List.map_cons, ppAnds_keys rest]
      rw [joinTail_eq .andOp (shapeAtoms_ne_nil rest)]
      simp
theorem ppAnds_keys : ∀ a : AndE, (ppAnd a).map Tok.key = flatJoin .andOp (shapeAtoms a)
  | .one a => by simp [ppAnd, shapeAtoms, flatJoin, ppAtom_keys a]
  | .and a rest => by
      rw [ppAnd, shapeAtoms, flatJoin_cons, List.map_append, ppAtom_keys a, List.map_cons, ppAnds_keys rest]
      rw [joinTail_eq .andOp (shapeAtoms_ne_nil rest)]
      simp
theorem ppAtom_keys : ∀ a : Atom, (ppAtom a).map Tok.key = flatC (shapeAtom a)
  | .id neg n => by simp [ppAtom, shapeAtom, flatC, tNot_keys]
  | .paren neg e => by simp [ppAtom, shapeAtom, flatC, tNot_keys, ppOr_keys e]
  | .cds neg e => by simp [ppAtom, shapeAtom, flatC, tNot_keys, ppOr_keys e]
  | .minimum neg c opts => by simp [ppAtom, shapeAtom, flatC, tNot_keys, ppIds_keys]
  | .minscore neg n s => by simp [ppAtom, shapeAtom, flatC, tNot_keys]
theorem shapeOr_ne_nil : ∀ t : OrE, shapeOr t ≠ []
  | .one _ => by simp [shapeOr]
  | .or _ _ => by simp [shapeOr]
theorem shapeAtoms_ne_nil : ∀ a : AndE, shapeAtoms a ≠ []
  | .one _ => by simp [shapeAtoms]
  | .and _ _ => by simp [shapeAtoms]
end

end ASV.Parser

namespace ASV.Parser
open ASV ASV.Rules ASV.Grammar

theorem isEmpty_false_of_ne {α} {l : List α} (h : l ≠ []) : l.isEmpty = false := by
  cases l with
  | nil => exact absurd rfl h
  | cons _ _ => rfl

mutual
theorem okOr_goods (b : Bool) : ∀ t : OrE, okOr b t = true → distinctOr t = true → Goods (!b) (shapeOr t)
  | .one a, h, d => by
      simp only [okOr] at h; simp only [distinctOr] at d
      exact Goods.single (okAnd_good b a h d)
  | .or a rest, h, d => by
      simp only [okOr, Bool.and_eq_true] at h; simp only [distinctOr, Bool.and_eq_true] at d
      exact Goods.cons (okAnd_good b a h.1 d.1) (okOr_goods b rest h.2 d.2)
theorem okAnd_good (b : Bool) : ∀ a : AndE, okAnd b a = true → distinctAnd a = true → Good (!b) (shapeAnd a)
  | .one a, h, d => by
      simp only [okAnd] at h; simp only [distinctAnd] at d
      exact (okAtom_good b a h d).1
  | .and a rest, h, d => by
      simp only [okAnd, Bool.and_eq_true] at h
      simp only [distinctAnd, andDistinct, Bool.and_eq_true, Bool.not_eq_true'] at d
      obtain ⟨ga, ata⟩ := okAtom_good b a h.1 d.1.2
      obtain ⟨gr, atr⟩ := okAnds_goods b rest h.2 d.2
      have ne := shapeAtoms_ne_nil rest
      have hl : 2 ≤ (shapeAtom a :: shapeAtoms rest).length := by
        cases hsr : shapeAtoms rest with
        | nil => exact absurd hsr ne
        | cons _ _ => simp
      refine ⟨?_, ?_⟩
      · simp only [shapeAnd, shapeOk, shapeOks, Bool.and_eq_true, decide_eq_true_eq, List.all_cons]
        exact ⟨⟨hl, ata, atr⟩, ga.shape, gr.shape⟩
      · simp only [shapeAnd, noRepeat, noRepeats, Bool.and_eq_true, Bool.not_eq_true']
        exact ⟨d.1.1, ga.norep, gr.norep⟩
theorem okAnds_goods (b : Bool) : ∀ a : AndE, okAnd b a = true → distinctAnds a = true →
    Goods (!b) (shapeAtoms a) ∧ (shapeAtoms a).all Cond.isAtomish = true
  | .one a, h, d => by
      simp only [okAnd] at h; simp only [distinctAnds] at d
      obtain ⟨ga, ata⟩ := okAtom_good b a h d
      exact ⟨Goods.single ga, by simp [shapeAtoms, ata]⟩
  | .and a rest, h, d => by
      simp only [okAnd, Bool.and_eq_true] at h; simp only [distinctAnds, Bool.and_eq_true] at d
      obtain ⟨ga, ata⟩ := okAtom_good b a h.1 d.1
      obtain ⟨gr, atr⟩ := okAnds_goods b rest h.2 d.2
      exact ⟨Goods.cons ga gr, by simp only [shapeAtoms, List.all_cons, ata, atr, Bool.and_self]⟩
theorem okAtom_good (b : Bool) : ∀ a : Atom, okAtom b a = true → distinctAtom a = true →
    Good (!b) (shapeAtom a) ∧ (shapeAtom a).isAtomish = true
  | .id neg n, _, _ => ⟨⟨by simp [shapeAtom, shapeOk], by simp [shapeAtom, noRepeat]⟩, rfl⟩
  | .minscore neg n s, _, _ => ⟨⟨by simp [shapeAtom, shapeOk], by simp [shapeAtom, noRepeat]⟩, rfl⟩
  | .minimum neg c opts, h, _ => by
      simp only [okAtom, Bool.and_eq_true, Bool.not_eq_true', decide_eq_true_eq] at h
      obtain ⟨⟨⟨hb, hc⟩, he⟩, hd⟩ := h
      refine ⟨⟨?_, ?_⟩, rfl⟩
      · simp [shapeAtom, shapeOk, hb, he]
      · simp [shapeAtom, noRepeat, hd, hc]
  | .paren neg e, h, d => by
      simp only [okAtom, Bool.and_eq_true, Bool.not_eq_true'] at h
      simp only [distinctAtom] at d
      have g := okOr_goods b e h.1 d
      refine ⟨⟨?_, ?_⟩, rfl⟩
      · simp [shapeAtom, shapeOk, g.shape, isEmpty_false_of_ne (shapeOr_ne_nil e)]
      · simp [shapeAtom, noRepeat, g.norep, h.2]
  | .cds neg e, h, d => by
      simp only [okAtom, Bool.and_eq_true, Bool.not_eq_true'] at h
      simp only [distinctAtom] at d
      obtain ⟨⟨⟨hb, ho⟩, hd⟩, hl⟩ := h
      have g := okOr_goods true e ho d
      subst hb
      refine ⟨⟨?_, ?_⟩, rfl⟩
      · have := g.shape
        simp only [Bool.not_true] at this
        simp [shapeAtom, shapeOk, this, isEmpty_false_of_ne (shapeOr_ne_nil e), hl]
      · simp [shapeAtom, noRepeat, g.norep, hd]
end

/-! ### thm 3: the C01 meaning of the shape is the grammar's denotation -/

mutual
theorem semLocalAny_shapeOr (e : Env) (g : Gene) : ∀ t : OrE, semLocalAny e g (shapeOr t) = locOr e g t
  | .one a => by simp [shapeOr, semLocalAny, locOr, semLocal_shapeAnd e g a]
  | .or a r => by simp [shapeOr, semLocalAny, locOr, semLocal_shapeAnd e g a, semLocalAny_shapeOr e g r]
theorem semLocal_shapeAnd (e : Env) (g : Gene) : ∀ a : AndE, semLocal e g (shapeAnd a) = locAnd e g a
  | .one a => by simp [shapeAnd, locAnd, semLocal_shapeAtom e g a]
  | .and a r => by
      simp [shapeAnd, semLocal, semLocalAll, locAnd, semLocal_shapeAtom e g a, semLocalAll_shapeAtoms e g r]
theorem semLocalAll_shapeAtoms (e : Env) (g : Gene) : ∀ a : AndE, semLocalAll e g (shapeAtoms a) = locAnd e g a
  | .one a => by simp [shapeAtoms, semLocalAll, locAnd, semLocal_shapeAtom e g a]
  | .and a r => by
      simp [shapeAtoms, semLocalAll, locAnd, semLocal_shapeAtom e g a, semLocalAll_shapeAtoms e g r]
theorem semLocal_shapeAtom (e : Env) (g : Gene) : ∀ a : Atom, semLocal e g (shapeAtom a) = locAtom e g a
  | .id neg n => by simp [shapeAtom, semLocal, locAtom]
  | .paren neg x => by simp [shapeAtom, semLocal, locAtom, semLocalAny_shapeOr e g x]
  | .cds neg x => by simp [shapeAtom, semLocal, locAtom, semLocalAny_shapeOr e g x]
  | .minimum neg c opts => by simp [shapeAtom, semLocal, locAtom]
  | .minscore neg n s => by simp [shapeAtom, semLocal, locAtom]
end

mutual
theorem semAny_shapeOr (e : Env) (g : Gene) : ∀ t : OrE, semAny e g (shapeOr t) = denOr e g t
  | .one a => by simp [shapeOr, semAny, denOr, sem_shapeAnd e g a]
  | .or a r => by simp [shapeOr, semAny, denOr, sem_shapeAnd e g a, semAny_shapeOr e g r]
theorem sem_shapeAnd (e : Env) (g : Gene) : ∀ a : AndE, sem e g (shapeAnd a) = denAnd e g a
  | .one a => by simp [shapeAnd, denAnd, sem_shapeAtom e g a]
  | .and a r => by simp [shapeAnd, sem, semAll, denAnd, sem_shapeAtom e g a, semAll_shapeAtoms e g r]
theorem semAll_shapeAtoms (e : Env) (g : Gene) : ∀ a : AndE, semAll e g (shapeAtoms a) = denAnd e g a
  | .one a => by simp [shapeAtoms, semAll, denAnd, sem_shapeAtom e g a]
  | .and a r => by simp [shapeAtoms, semAll, denAnd, sem_shapeAtom e g a, semAll_shapeAtoms e g r]
theorem sem_shapeAtom (e : Env) (g : Gene) : ∀ a : Atom, sem e g (shapeAtom a) = denAtom e g a
  | .id neg n => by simp [shapeAtom, sem, denAtom]
  | .paren neg x => by simp [shapeAtom, sem, denAtom, semAny_shapeOr e g x]
  | .cds neg x => by
      simp only [shapeAtom, sem, denAtom, semLocalAny_shapeOr]
  | .minimum neg c opts => by simp [shapeAtom, sem, denAtom]
  | .minscore neg n s => by simp [shapeAtom, sem, denAtom]
end

end ASV.Parser

namespace ASV.Parser
open ASV ASV.Rules ASV.Grammar

/-- `parse_pp` (restated in Props/C02) -/
theorem parse_pp_aux (t : OrE) (ht : okTop t = true) (fuel : Nat) (k consumed : List Tok) (rules : List Rule)
    (hk : NotBinop k) (hend : ∀ c r, endCheck false (ofStream k c r) = .ok ())
    (hf : 3 * (ppOr t).length + 2 ≤ fuel) :
    parseConditions fuel true false (ofStream (ppOr t ++ k) consumed rules) =
      .ok (shapeOr t, ofStream k ((ppOr t).reverse ++ consumed) rules) := by
  simp only [okTop, Bool.and_eq_true] at ht
  have g := okOr_goods false t ht.1.1 ht.1.2
  exact parseConditions_complete true false (shapeOr t) fuel (ppOr t) k consumed rules (shapeOr_ne_nil t)
    g.shape g.norep (ppOr_keys t) hk hend hf

end ASV.Parser
