/-
  C02 thm 7, part 7: `normC c` has the documented shape and no repeated operand when `c` does.
-/
import ASV.Proofs.Parser.Reprint6
namespace ASV.Reprint
open ASV ASV.Rules ASV.Parser ASV.Grammar

theorem shapeOk_setNeg (allow : Bool) (a : Cond) : shapeOk allow (setNeg a) = shapeOk allow a := by
  cases a <;> simp [setNeg, shapeOk]
theorem noRepeat_setNeg (a : Cond) : noRepeat (setNeg a) = noRepeat a := by
  cases a <;> simp [setNeg, noRepeat]

theorem normL_length (l : List Cond) : (normL l).length = l.length := by
  induction l with
  | nil => rfl
  | cons c r ih => simp [normL_cons, ih]

theorem normL_isEmpty (l : List Cond) : (normL l).isEmpty = l.isEmpty := by
  cases l <;> simp [normL]

/-- only a lone identifier, or a parenthesised chain ending in one, normalises to an identifier -/
theorem lone_normL {subs : List Cond} (hn : NamesOkL subs) (h : loneIdentifier (normL subs) = true) :
    loneIdentifier subs = true ∨
      (isSingleton subs && subs.all Cond.isGroup && !((joinTexts "or" subs).head? == some "(")) = true := by
  match subs, hn, h with
  | [], _, h => simp [normL, loneIdentifier] at h
  | _ :: _ :: _, _, h => simp [normL_cons, loneIdentifier] at h
  | [g], hn, h =>
    have hng : NamesOk g := by intro n hx; exact hn n (by simp [profilesL, hx])
    simp only [normL_single] at h
    cases g with
    | single a b => left; rfl
    | score _ _ _ => simp [normC, loneIdentifier] at h
    | minimum _ _ _ => simp [normC, loneIdentifier] at h
    | conj _ => simp [normC, loneIdentifier] at h
    | cds neg l =>
      exfalso
      simp only [normC] at h
      split at h <;> simp [loneIdentifier] at h
    | group neg l =>
      right
      obtain ⟨a, b, hab⟩ : ∃ a b, normC (.group neg l) = .single a b := by
        cases hx : normC (.group neg l) <;> simp_all [loneIdentifier]
      have hk := (keys_normC _ hng).1
      rw [hab] at hk
      simp only [isSingleton, List.all_cons, List.all_nil, Cond.isGroup, Bool.and_true, Bool.true_and,
        joinTexts_single, Bool.not_eq_true']
      cases ht : printTexts (.group neg l) with
      | nil => rfl
      | cons t ts =>
        rw [ht] at hk
        simp only [List.map_cons, flatC] at hk
        cases hto : t == "(" with
        | false => simp [hto]
        | true =>
          exfalso
          have : t = "(" := by simpa using hto
          subst this
          cases a <;> simp [flatNot, tk_open, kOf, kId] at hk

mutual
theorem good_norm : ∀ (c : Cond) (allow : Bool), NamesOk c → shapeOk allow c = true → noRepeat c = true →
    shapeOk allow (normC c) = true ∧ noRepeat (normC c) = true
  | .single neg n, _, _, hs, hr => ⟨hs, hr⟩
  | .score neg n s, _, _, hs, hr => ⟨hs, hr⟩
  | .minimum neg c opts, allow, _, hs, hr => by
      simp only [shapeOk, Bool.and_eq_true, Bool.not_eq_true', List.isEmpty_eq_false_iff] at hs
      simp only [noRepeat, Bool.and_eq_true, Bool.not_eq_true', decide_eq_true_eq] at hr
      refine ⟨?_, ?_⟩
      · simp only [normC, shapeOk, hs.1, Bool.true_and, Bool.not_eq_true', List.isEmpty_eq_false_iff]
        obtain ⟨a, ha⟩ := List.exists_mem_of_ne_nil _ hs.2
        intro he
        have := mem_sortDedupStr.mpr ha
        rw [he] at this; cases this
      · simp only [normC, noRepeat, Bool.and_eq_true, Bool.not_eq_true', decide_eq_true_eq]
        refine ⟨?_, hr.2⟩
        rw [hasDupStr_false_iff]
        exact (sortDedupStr_sorted opts).imp (fun h => String.ne_of_lt h)
  | .cds neg subs, allow, h, hs, hr => by
      have hnl : NamesOkL subs := by simpa [NamesOk, NamesOkL, Cond.profiles] using h
      simp only [shapeOk, Bool.and_eq_true, Bool.not_eq_true', List.isEmpty_eq_false_iff] at hs
      simp only [noRepeat, Bool.and_eq_true, Bool.not_eq_true'] at hr
      obtain ⟨⟨⟨hal, hne⟩, hsub⟩, hlone⟩ := hs
      obtain ⟨gs, gr⟩ := goods_norm subs false hnl hsub hr.2
      have hemp : (normL subs).isEmpty = false := by
        rw [normL_isEmpty]; cases subs <;> simp_all
      have hdup : hasDupStr (printConds (normL subs)) = false := by rw [printConds_normL subs hnl]; exact hr.1
      simp only [normC]
      split
      · refine ⟨?_, ?_⟩
        · simp [shapeOk, shapeOks, hal, hemp, gs, loneIdentifier]
        · have hdup' : hasDupStr (List.map printCond (normL subs)) = false := hdup
          simp [noRepeat, noRepeats, hasDupStr, printConds, hdup', gr]
      · rename_i hcond
        refine ⟨?_, ?_⟩
        · have hl : loneIdentifier (normL subs) = false := by
            cases hx : loneIdentifier (normL subs) with
            | false => rfl
            | true =>
              rcases lone_normL hnl hx with h1 | h1
              · rw [hlone] at h1; cases h1
              · exact absurd h1 hcond
          simp [shapeOk, hal, hemp, gs, hl]
        · simp [noRepeat, hdup, gr]
  | .group neg [], _, _, hs, _ => by simp [shapeOk] at hs
  | .group neg [x], allow, h, hs, hr => by
      have hx : NamesOk x := by intro n hn; exact h n (by simp [Cond.profiles, profilesL, hn])
      simp only [shapeOk, shapeOks, Bool.and_eq_true, Bool.not_eq_true', List.isEmpty_cons, Bool.and_true, Bool.true_and]
        at hs
      simp only [noRepeat, noRepeats, Bool.and_eq_true, Bool.not_eq_true', Bool.and_true] at hr
      obtain ⟨sx, rx⟩ := good_norm x allow hx hs.2 hr.2
      by_cases hc : Cond.isConj x = true
      · simp only [normC, isSingleton, List.all_cons, List.all_nil, hc, Bool.and_true, Bool.not_true, Bool.and_false,
          Bool.false_eq_true, ↓reduceIte, normL_single]
        exact ⟨by simp [shapeOk, shapeOks, sx], by simp [noRepeat, noRepeats, rx, hasDupStr, printConds]⟩
      · have hc' : Cond.isConj x = false := Bool.eq_false_iff.mpr hc
        simp only [normC, isSingleton, List.all_cons, List.all_nil, hc', Bool.and_true, Bool.not_false, Bool.true_and,
          ↓reduceIte, normL_single, unwrap]
        split
        · exact ⟨by simp [shapeOk, shapeOks, sx], by simp [noRepeat, noRepeats, rx, hasDupStr, printConds]⟩
        · split
          · exact ⟨by rw [shapeOk_setNeg]; exact sx, by rw [noRepeat_setNeg]; exact rx⟩
          · exact ⟨sx, rx⟩
  | .group neg (x :: y :: r), allow, h, hs, hr => by
      have hnl : NamesOkL (x :: y :: r) := by simpa [NamesOk, NamesOkL, Cond.profiles] using h
      simp only [shapeOk, Bool.and_eq_true, Bool.not_eq_true'] at hs
      simp only [noRepeat, Bool.and_eq_true, Bool.not_eq_true'] at hr
      obtain ⟨gs, gr⟩ := goods_norm (x :: y :: r) allow hnl hs.2 hr.2
      have hdup : hasDupStr (printConds (normL (x :: y :: r))) = false := by rw [printConds_normL _ hnl]; exact hr.1
      simp only [normC, isSingleton, Bool.false_and, Bool.false_eq_true, ↓reduceIte]
      exact ⟨by simp only [normL_cons] at gs ⊢; simp [shapeOk, gs], by simp [noRepeat, hdup, gr]⟩
  | .conj subs, allow, h, hs, hr => by
      have hnl : NamesOkL subs := by simpa [NamesOk, NamesOkL, Cond.profiles] using h
      simp only [shapeOk, Bool.and_eq_true, decide_eq_true_eq] at hs
      simp only [noRepeat, Bool.and_eq_true, Bool.not_eq_true'] at hr
      obtain ⟨gs, gr⟩ := goods_norm subs allow hnl hs.2 hr.2
      have hdup : hasDupStr (printConds (normL subs)) = false := by rw [printConds_normL subs hnl]; exact hr.1
      have hat : (normL subs).all Cond.isAtomish = true := atomish_normL subs hnl hs.1.2
      simp only [normC]
      exact ⟨by simp [shapeOk, normL_length, hs.1.1, hat, gs], by simp [noRepeat, hdup, gr]⟩
theorem goods_norm : ∀ (l : List Cond) (allow : Bool), NamesOkL l → shapeOks allow l = true → noRepeats l = true →
    shapeOks allow (normL l) = true ∧ noRepeats (normL l) = true
  | [], _, _, _, _ => ⟨rfl, rfl⟩
  | c :: r, allow, h, hs, hr => by
      simp only [shapeOks, Bool.and_eq_true] at hs
      simp only [noRepeats, Bool.and_eq_true] at hr
      obtain ⟨s1, r1⟩ := good_norm c allow (by intro n hn; exact h n (by simp [profilesL, hn])) hs.1 hr.1
      obtain ⟨s2, r2⟩ := goods_norm r allow (by intro n hn; exact h n (by simp [profilesL, hn])) hs.2 hr.2
      exact ⟨by simp [normL_cons, shapeOks, s1, s2], by simp [normL_cons, noRepeats, r1, r2]⟩
theorem atomish_normL : ∀ (l : List Cond), NamesOkL l → l.all Cond.isAtomish = true → (normL l).all Cond.isAtomish = true
  | [], _, _ => rfl
  | c :: r, h, hat => by
      simp only [List.all_cons, Bool.and_eq_true] at hat
      have hc : Cond.isConj c = false := by cases c <;> simp_all [Cond.isAtomish, Cond.isConj]
      have := ((keys_normC c (by intro n hn; exact h n (by simp [profilesL, hn]))).2 hc).2
      have h2 := atomish_normL r (by intro n hn; exact h n (by simp [profilesL, hn])) hat.2
      have hna : Cond.isAtomish (normC c) = true := by cases hx : normC c <;> simp_all [Cond.isAtomish, Cond.isConj]
      simp [normL_cons, hna, h2]
end

end ASV.Reprint
