/-
  C02 thm 7, part 11: a whole regenerated rule (mandatory sections) parses back.
-/
import ASV.Proofs.Parser.Reprint10
import ASV.Proofs.Parser.RulePP
namespace ASV.Reprint
open ASV ASV.Rules ASV.Parser ASV.Grammar ASV.Layout

theorem classify_digits (v : Nat) : classify (toString v) = .int :=
  key_type (t := mkTok (toString v)) (tk_nat v)

theorem mkTok_name {n : String} (h : classify n = .identifier) : mkTok n = tId n := by simp [mkTok, tId, h]
theorem mkTok_nat (v : Nat) : mkTok (toString v) = tInt v := by
  show (⟨toString v, classify (toString v), false⟩ : Tok) = ⟨toString v, .int, false⟩
  rw [classify_digits]
theorem mkTok_rule : mkTok "RULE" = kw "RULE" .rule := by decide +kernel
theorem mkTok_category : mkTok "CATEGORY" = kw "CATEGORY" .category := by decide +kernel
theorem mkTok_cutoff : mkTok "CUTOFF" = kw "CUTOFF" .cutoff := by decide +kernel
theorem mkTok_nbh : mkTok "NEIGHBOURHOOD" = kw "NEIGHBOURHOOD" .neighbourhood := by decide +kernel
theorem mkTok_conditions : mkTok "CONDITIONS" = kw "CONDITIONS" .conditions := by decide +kernel

theorem inv_RULE : Inv [([], W "RULE")] "RULE".toList ["RULE"] :=
  ⟨⟨_, _, rfl⟩, by decide +kernel, by decide +kernel, by decide +kernel⟩
theorem inv_CATEGORY : Inv [([], W "CATEGORY")] "CATEGORY".toList ["CATEGORY"] :=
  ⟨⟨_, _, rfl⟩, by decide +kernel, by decide +kernel, by decide +kernel⟩
theorem inv_CUTOFF : Inv [([], W "CUTOFF")] "CUTOFF".toList ["CUTOFF"] :=
  ⟨⟨_, _, rfl⟩, by decide +kernel, by decide +kernel, by decide +kernel⟩
theorem inv_NEIGHBOURHOOD : Inv [([], W "NEIGHBOURHOOD")] "NEIGHBOURHOOD".toList ["NEIGHBOURHOOD"] :=
  ⟨⟨_, _, rfl⟩, by decide +kernel, by decide +kernel, by decide +kernel⟩
theorem inv_CONDITIONS : Inv [([], W "CONDITIONS")] "CONDITIONS".toList ["CONDITIONS"] :=
  ⟨⟨_, _, rfl⟩, by decide +kernel, by decide +kernel, by decide +kernel⟩

theorem tokenise_toList (s : String) : tokenise s = tokenise (String.ofList s.toList) := by
  simp [tokenise]

/-- thm 7 for a whole rule with any distances: the regenerated text carries whole kilobases
    (`cutoff // 1000`), so the distances come back rounded down to the kilobase -/
theorem reparse_rule_gen (cfg : Cfg) (r : Rule) (L : List Cond) (rules : List Rule)
    (hc : r.conditions = .group false L) (hne : L ≠ []) (hn : NamesOkL L) (hs : shapeOks true L = true)
    (hr : noRepeats L = true) (hd : hasDupStr (printConds L) = false)
    (hname : classify r.name = .identifier) (hcat : classify r.category = .identifier)
    (hcats : cfg.cats.contains r.category = true) (hpos : positive r.conditions = true)
    (hdesc : r.description = []) (hex : r.examples = []) :
    ∃ toks r', tokenise r.reconstruct = .ok toks ∧
      parseRule cfg (ofStream toks [] rules) = .ok (r', ofStream [] toks.reverse rules) ∧
      r'.name = r.name ∧ r'.category = r.category ∧ r'.cutoff = r.cutoff / 1000 * 1000 ∧
      r'.neighbourhood = r.neighbourhood / 1000 * 1000 ∧
      ∀ e g, sem e g r'.conditions = sem e g r.conditions := by
  obtain ⟨E, htop, rd⟩ := topChars_reads L hne hn hs hr hd
  have hpE := printableL_of_shape E true rd.shape
  have invJ := inv_join E rd.ne rd.names hpE "or" orSep sep_or inv_or
  have inv := ((((((((inv_RULE.append_sp (inv_name hname)).append_sp inv_CATEGORY).append_sp (inv_name hcat)).append_sp
    inv_CUTOFF).append_sp (inv_digits (r.cutoff / 1000))).append_sp inv_NEIGHBOURHOOD).append_sp
      (inv_digits (r.neighbourhood / 1000))).append_sp inv_CONDITIONS).append_sp invJ
  have hchars : r.reconstruct.toList =
      "RULE".toList ++ ' ' :: r.name.toList ++ ' ' :: "CATEGORY".toList ++ ' ' :: r.category.toList ++
        ' ' :: "CUTOFF".toList ++ ' ' :: (toString (r.cutoff / 1000)).toList ++ ' ' :: "NEIGHBOURHOOD".toList ++
        ' ' :: (toString (r.neighbourhood / 1000)).toList ++ ' ' :: "CONDITIONS".toList ++ ' ' :: printJoin orSep E := by
    simp only [Rule.reconstruct, hdesc, hex, hc, htop, String.toList_append, String.toList_ofList, List.isEmpty_nil,
      ↓reduceIte, List.map_nil, String.join]
    simp
  have hrender := inv.render
  have hok := okSeq_of_chain _ false inv.chain (Or.inl rfl)
  have htok := tokenise_render _ ⟨[], none⟩ hok (by simp [Tail.ok])
  simp only [Tail.chars, gapChars, List.flatMap_nil, List.append_nil] at htok
  rw [hrender, ← hchars, ← tokenise_toList] at htok
  -- the tokens
  have htexts := inv.texts
  obtain ⟨gs, gr⟩ := goods_norm E true rd.names rd.shape rd.norep
  have hkeys : ((joinTexts "or" E).map mkTok).map Tok.key = flatJoin .orOp (normL E) := by
    rw [List.map_map]; exact keys_normL E rd.names "or" .orOp tk_or
  have hdup : hasDupStr (printConds (normL E)) = false := by rw [printConds_normL E rd.names]; exact rd.nodup
  have hposE : positive (.group false (normL E)) = true := by
    have h1 : positive (.group false L) = true := by rw [← hc]; exact hpos
    have hLe : L.isEmpty = false := isEmpty_false_of_ne hne
    have hEe : (normL E).isEmpty = false := by rw [normL_isEmpty]; exact isEmpty_false_of_ne rd.ne
    simp only [positive, Bool.not_false, Bool.true_and, hLe, Bool.false_or] at h1
    simp only [positive, Bool.not_false, Bool.true_and, hEe, Bool.false_or, positive_normL, rd.pos, h1]
  have hparse := parseRule_keys cfg r.name r.category (r.cutoff / 1000) (r.neighbourhood / 1000) (normL E)
    ((joinTexts "or" E).map mkTok) [] [] rules hcats (normL_ne_nil rd.ne) gs gr hdup hkeys hposE (Or.inl rfl)
  have htoks : List.map (fun (x : Item) => mkTok x.2.text)
      ([([], W "RULE")] ++ lead sp [([], W r.name)] ++ lead sp [([], W "CATEGORY")] ++ lead sp [([], W r.category)] ++
        lead sp [([], W "CUTOFF")] ++ lead sp [([], W (toString (r.cutoff / 1000)))] ++
        lead sp [([], W "NEIGHBOURHOOD")] ++ lead sp [([], W (toString (r.neighbourhood / 1000)))] ++
        lead sp [([], W "CONDITIONS")] ++ lead sp (joinI "or" E)) =
      hdrToks r.name r.category (r.cutoff / 1000) (r.neighbourhood / 1000) ++ (joinTexts "or" E).map mkTok := by
    have := congrArg (List.map mkTok) htexts
    simp only [texts, List.map_map] at this
    rw [Function.comp_def] at this
    rw [this]
    simp only [List.map_append, List.map_cons, List.map_nil, hdrToks, mkTok_rule, mkTok_category, mkTok_cutoff, mkTok_nbh,
      mkTok_conditions, mkTok_name hname, mkTok_name hcat, mkTok_nat, List.cons_append, List.nil_append]
  rw [htoks] at htok
  refine ⟨_, (⟨r.name, r.category, r.cutoff / 1000 * 1000, r.neighbourhood / 1000 * 1000, Cond.group false (normL E),
    [], [], [], [], none⟩ : Rule), htok, ?_, rfl, rfl, ?_, ?_, ?_⟩
  · simpa using hparse
  · rfl
  · rfl
  · intro e g
    show sem e g (.group false (normL E)) = sem e g r.conditions
    simp only [hc, sem, Bool.false_xor]
    rw [(sem_normL e g E rd.names rd.norep).1, rd.sem]

/-- thm 7 for a whole rule -/
theorem reparse_rule (cfg : Cfg) (r : Rule) (L : List Cond) (rules : List Rule)
    (hc : r.conditions = .group false L) (hne : L ≠ []) (hn : NamesOkL L) (hs : shapeOks true L = true)
    (hr : noRepeats L = true) (hd : hasDupStr (printConds L) = false)
    (hname : classify r.name = .identifier) (hcat : classify r.category = .identifier)
    (hcats : cfg.cats.contains r.category = true) (hpos : positive r.conditions = true)
    (hdesc : r.description = []) (hex : r.examples = [])
    (hkc : r.cutoff % 1000 = 0) (hkn : r.neighbourhood % 1000 = 0) :
    ∃ toks r', tokenise r.reconstruct = .ok toks ∧
      parseRule cfg (ofStream toks [] rules) = .ok (r', ofStream [] toks.reverse rules) ∧
      r'.name = r.name ∧ r'.category = r.category ∧ r'.cutoff = r.cutoff ∧ r'.neighbourhood = r.neighbourhood ∧
      ∀ e g, sem e g r'.conditions = sem e g r.conditions := by
  obtain ⟨toks, r', h1, h2, h3, h4, h5, h6, h7⟩ :=
    reparse_rule_gen cfg r L rules hc hne hn hs hr hd hname hcat hcats hpos hdesc hex
  exact ⟨toks, r', h1, h2, h3, h4, by omega, by omega, h7⟩

end ASV.Reprint
