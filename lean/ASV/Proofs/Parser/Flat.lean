/-
  C02: pure facts about the flattening `flatC` (which identifiers it mentions, that it holds no
  rule keyword), about `find_condition_identifiers`, `sorted(set(..))` and the SUPERIORS invariant.
-/
import ASV.Proofs.Parser.Post
namespace ASV.Parser
open ASV ASV.Rules ASV.Grammar

/-! ### identifiers and keywords in a flattening -/

theorem mem_flatIds {p : String} {opts : List String} (h : p ∈ opts) : kId p ∈ flatIds opts := by
  induction opts with
  | nil => cases h
  | cons a rest ih =>
    rw [flatIds_cons]
    rcases List.mem_cons.mp h with rfl | h
    · simp
    · cases rest with
      | nil => cases h
      | cons b r =>
        have := ih h
        rw [flatIds_cons] at this
        simp only [idsTail, List.flatMap_cons, List.mem_cons, List.mem_append] at this ⊢
        rcases this with h1 | h1
        · right; left; right; left; exact h1
        · right; right; simpa [idsTail] using h1

theorem flatIds_noKeyword {opts : List String} : ∀ k ∈ flatIds opts, k.type.isRuleKeyword = false := by
  induction opts with
  | nil => simp [flatIds]
  | cons a rest ih =>
    cases rest with
    | nil => simp [flatIds, kId, TT.isRuleKeyword]
    | cons b r =>
      intro k hk
      rw [flatIds] at hk
      · simp only [List.mem_cons] at hk
        rcases hk with rfl | rfl | hk
        · simp [kId, TT.isRuleKeyword]
        · simp [kOf, TT.isRuleKeyword]
        · exact ih k hk
      · simp

theorem flatNot_noKeyword {neg : Bool} : ∀ k ∈ flatNot neg, k.type.isRuleKeyword = false := by
  cases neg <;> simp [flatNot, kOf, TT.isRuleKeyword]

mutual
theorem profiles_in_flat (p : String) : ∀ c : Cond, p ∈ c.profiles → kId p ∈ flatC c
  | .single neg n, h => by simp [Cond.profiles] at h; subst h; simp [flatC]
  | .score neg n s, h => by simp [Cond.profiles] at h; subst h; simp [flatC]
  | .minimum neg c opts, h => by
      simp [Cond.profiles] at h
      simp [flatC, mem_flatIds h]
  | .cds neg subs, h => by
      simp [Cond.profiles] at h
      simp [flatC, profilesL_in_flat p .orOp subs h]
  | .group neg subs, h => by
      simp [Cond.profiles] at h
      simp [flatC, profilesL_in_flat p .orOp subs h]
  | .conj subs, h => by
      simp [Cond.profiles] at h
      simp [flatC, profilesL_in_flat p .andOp subs h]
theorem profilesL_in_flat (p : String) (op : TT) : ∀ cs : List Cond, p ∈ profilesL cs → kId p ∈ flatJoin op cs
  | [], h => by simp [profilesL] at h
  | c :: cs, h => by
      simp [profilesL] at h
      rw [flatJoin_cons]
      rcases h with h | h
      · exact List.mem_append_left _ (profiles_in_flat p c h)
      · have := profilesL_in_flat p op cs h
        cases cs with
        | nil => simp [profilesL] at h
        | cons d ds =>
          rw [joinTail_eq op (by simp)]
          exact List.mem_append_right _ (List.mem_cons_of_mem _ this)
end

mutual
theorem flatC_noKeyword : ∀ c : Cond, ∀ k ∈ flatC c, k.type.isRuleKeyword = false
  | .single neg n, k, h => by
      simp [flatC] at h
      rcases h with h | rfl
      · exact flatNot_noKeyword k h
      · simp [kId, TT.isRuleKeyword]
  | .score neg n s, k, h => by
      simp [flatC] at h
      rcases h with h | rfl | rfl | rfl | rfl | rfl | rfl <;>
        first | exact flatNot_noKeyword k h | simp [kId, kOf, kInt, TT.isRuleKeyword]
  | .minimum neg c opts, k, h => by
      simp [flatC] at h
      rcases h with h | rfl | rfl | rfl | rfl | rfl | h | rfl | rfl <;>
        first | exact flatNot_noKeyword k h | exact flatIds_noKeyword k h | simp [kId, kOf, kInt, TT.isRuleKeyword]
  | .cds neg subs, k, h => by
      simp [flatC] at h
      rcases h with h | rfl | rfl | h | rfl <;>
        first | exact flatNot_noKeyword k h | exact flatJoin_noKeyword .orOp (by decide) subs k h
              | simp [kOf, TT.isRuleKeyword]
  | .group neg subs, k, h => by
      simp [flatC] at h
      rcases h with h | rfl | h | rfl <;>
        first | exact flatNot_noKeyword k h | exact flatJoin_noKeyword .orOp (by decide) subs k h
              | simp [kOf, TT.isRuleKeyword]
  | .conj subs, k, h => by
      simp [flatC] at h
      exact flatJoin_noKeyword .andOp (by decide) subs k h
theorem flatJoin_noKeyword (op : TT) (hop : op.isRuleKeyword = false) :
    ∀ cs : List Cond, ∀ k ∈ flatJoin op cs, k.type.isRuleKeyword = false
  | [], k, h => by simp [flatJoin] at h
  | c :: cs, k, h => by
      rw [flatJoin_cons] at h
      rcases List.mem_append.mp h with h | h
      · exact flatC_noKeyword c k h
      · cases cs with
        | nil => simp [joinTail] at h
        | cons d ds =>
          rw [joinTail_eq op (by simp)] at h
          rcases List.mem_cons.mp h with rfl | h
          · simpa [kOf] using hop
          · exact flatJoin_noKeyword op hop (d :: ds) k h
end

/-! ### `find_condition_identifiers` -/

def idsOf (m : List Tok) : List String := (m.filter (·.type == .identifier)).map (·.text)

theorem condIds_section (m q : List Tok) (h : ∀ t ∈ m, t.type.isRuleKeyword = false) :
    conditionIdentifiers (m ++ q) true = idsOf m ++ conditionIdentifiers q true := by
  induction m with
  | nil => simp [idsOf]
  | cons t ts ih =>
    have ht := h t (by simp)
    have hc : (t.type == .conditions) = false := by
      cases hty : t.type <;> simp_all [TT.isRuleKeyword]
    have ih' := ih (fun x hx => h x (by simp [hx]))
    by_cases hid : t.type = .identifier
    · simp [conditionIdentifiers, hid, ih', idsOf, TT.isRuleKeyword]
    · simp [conditionIdentifiers, hc, ht, hid, ih', idsOf]

theorem condIds_after (p : List Tok) (c : Tok) (rest : List Tok) (hc : c.type = .conditions) (b : Bool)
    (x : String) (hx : x ∈ conditionIdentifiers rest true) : x ∈ conditionIdentifiers (p ++ c :: rest) b := by
  induction p generalizing b with
  | nil => simpa [conditionIdentifiers, hc] using hx
  | cons t ts ih =>
    simp only [List.cons_append, conditionIdentifiers]
    split
    · exact ih true
    · split
      · exact ih false
      · split
        · exact List.mem_cons_of_mem _ (ih b)
        · exact ih b

/-- every profile of the parsed conditions is among the identifiers recorded for its section -/
theorem profiles_recorded {p q m : List Tok} {c : Tok} {subs : List Cond} {b : Bool}
    (hc : c.type = .conditions) (hm : m.map Tok.key = flatJoin .orOp subs) (x : String)
    (hx : x ∈ profilesL subs) : x ∈ conditionIdentifiers (p ++ c :: m ++ q) b := by
  have hk : ∀ t ∈ m, t.type.isRuleKeyword = false := by
    intro t ht
    have : t.key ∈ flatJoin .orOp subs := by rw [← hm]; exact List.mem_map_of_mem ht
    simpa [Tok.key] using flatJoin_noKeyword .orOp (by decide) subs _ this
  have : kId x ∈ m.map Tok.key := by rw [hm]; exact profilesL_in_flat x .orOp subs hx
  obtain ⟨t, ht, hkey⟩ := List.mem_map.mp this
  have hty : t.type = .identifier := by
    have := congrArg Key.type hkey; simpa [Tok.key, kId] using this
  have htx : t.text = x := by
    have := congrArg Key.text hkey; simpa [Tok.key, kId, hty] using this
  have : x ∈ idsOf m := by
    simp only [idsOf, List.mem_map, List.mem_filter]
    exact ⟨t, ⟨ht, by simp [hty]⟩, htx⟩
  have h1 : x ∈ conditionIdentifiers (m ++ q) true := by
    rw [condIds_section m q hk]; exact List.mem_append_left _ this
  have := condIds_after p c (m ++ q) hc b x h1
  simpa using this

/-! ### `sorted(set(…))` -/

theorem mem_insertStr {x a : String} {l : List String} : x ∈ insertStr a l ↔ x = a ∨ x ∈ l := by
  induction l with
  | nil => simp [insertStr]
  | cons y ys ih =>
    simp only [insertStr]
    split
    · simp
    · split
      · rename_i h; have : a = y := by simpa using h
        subst this; simp
      · simp [ih]; constructor
        · rintro (h | h | h) <;> simp [h]
        · rintro (h | h | h) <;> simp [h]

theorem mem_sortDedupStr {x : String} {l : List String} : x ∈ sortDedupStr l ↔ x ∈ l := by
  induction l with
  | nil => simp [sortDedupStr]
  | cons a as ih =>
    have : sortDedupStr (a :: as) = insertStr a (sortDedupStr as) := rfl
    rw [this, mem_insertStr, ih]; simp

theorem hasDupStr_false_iff {l : List String} : hasDupStr l = false ↔ l.Nodup := by
  induction l with
  | nil => simp [hasDupStr]
  | cons a as ih => simp [hasDupStr, ih]

/-! ### SUPERIORS -/

theorem supClosedFrom_append (e l : List Rule) (r : Rule) :
    supClosedFrom e (l ++ [r]) = (supClosedFrom e l && supOk (e ++ l) r) := by
  induction l generalizing e with
  | nil => simp [supClosedFrom]
  | cons x xs ih => simp [supClosedFrom, ih, Bool.and_assoc]

/-- the invariant in the form the proofs use -/
def SupInv (rules : List Rule) : Prop :=
  ∀ p ∈ rules, ∀ m ∈ p.superiors, ∃ q, rules.find? (·.name == m) = some q ∧ ∀ x ∈ q.superiors, x ∈ p.superiors

theorem supOk_iff {e : List Rule} {r : Rule} :
    supOk e r = true ↔ ∀ m ∈ r.superiors, ∃ q, e.find? (·.name == m) = some q ∧ ∀ x ∈ q.superiors, x ∈ r.superiors := by
  unfold supOk
  simp only [List.all_eq_true]
  constructor
  · intro h m hm
    have := h m hm
    split at this
    · rename_i q hq; exact ⟨q, hq, by simpa using this⟩
    · cases this
  · intro h m hm
    obtain ⟨q, hq, hs⟩ := h m hm
    simp [hq]; exact hs

theorem supInv_of_closedFrom (e l : List Rule) (h : supClosedFrom e l = true) :
    ∀ p ∈ l, ∀ m ∈ p.superiors, ∃ q, (e ++ l).find? (·.name == m) = some q ∧ ∀ x ∈ q.superiors, x ∈ p.superiors := by
  induction l generalizing e with
  | nil => intro p hp; cases hp
  | cons r rest ih =>
    simp only [supClosedFrom, Bool.and_eq_true] at h
    intro p hp m hm
    rcases List.mem_cons.mp hp with rfl | hp
    · obtain ⟨q, hq, hs⟩ := supOk_iff.mp h.1 m hm
      exact ⟨q, by simp [List.find?_append, hq], hs⟩
    · have := ih (e ++ [r]) (by simpa using h.2) p hp m hm
      simpa using this

theorem supInv_of_closed {rules : List Rule} (h : supClosed rules = true) : SupInv rules := by
  have := supInv_of_closedFrom [] rules h
  simpa [SupInv] using this

end ASV.Parser
