/-
  C02 thm 4: aliases are token substitution.  `strip s` is the alias-free parser state whose
  remaining input is the current token followed by `subst A rest`.  With a flat table every parser
  function commutes with `strip` (same fuel on both sides): it returns on the aliased state what
  it returns on the substituted, alias-free one.
-/
import ASV.Proofs.Parser.Alias
namespace ASV.Parser
open ASV ASV.Rules ASV.Grammar

/-- forget the alias table after substituting it into the unread input -/
def strip (s : PS) : PS :=
  { cur := s.cur, rest := subst s.aliases s.rest, aliases := [], rules := s.rules, consumed := s.consumed }

/-- map `strip` over the state a parser function returns -/
def mapS {α} (r : Except Err (α × PS)) : Except Err (α × PS) :=
  match r with
  | .ok (a, s) => .ok (a, strip s)
  | .error e => .error e

@[simp] theorem mapS_ok {α} (a : α) (s : PS) : mapS (.ok (a, s)) = .ok (a, strip s) := rfl
@[simp] theorem mapS_error {α} (e : Err) : mapS (.error e : Except Err (α × PS)) = .error e := rfl
@[simp] theorem mapS_pure {α} (a : α) (s : PS) : mapS (pure (a, s)) = pure (a, strip s) := rfl

@[simp] theorem strip_cur (s : PS) : (strip s).cur = s.cur := rfl
@[simp] theorem strip_rules (s : PS) : (strip s).rules = s.rules := rfl
@[simp] theorem strip_consumed (s : PS) : (strip s).consumed = s.consumed := rfl
@[simp] theorem strip_curIs (s : PS) (t : TT) : (strip s).curIs t = s.curIs t := rfl
@[simp] theorem strip_curAliased (s : PS) : (strip s).curAliased = s.curAliased := rfl
@[simp] theorem strip_ruleByName (s : PS) (n : String) : (strip s).ruleByName n = s.ruleByName n := rfl

theorem sim_bind {α β} {x x' : Except Err (α × PS)} {k k' : α × PS → Except Err (β × PS)}
    (h1 : x' = mapS x) (h2 : ∀ a s1, x = .ok (a, s1) → k' (a, strip s1) = mapS (k (a, s1))) :
    (x' >>= k') = mapS (x >>= k) := by
  subst h1
  cases x with
  | error e => rfl
  | ok p => obtain ⟨a, s1⟩ := p; exact h2 a s1 rfl

/-- a step that does not touch the state (constructor checks) -/
theorem sim_bind_pure {α β} {x : Except Err α} {k k' : α → Except Err (β × PS)}
    (h : ∀ a, x = .ok a → k' a = mapS (k a)) : (x >>= k') = mapS (x >>= k) := by
  cases x with
  | error e => rfl
  | ok a => exact h a rfl

theorem advance_strip {s : PS} (hf : Flat s.aliases) :
    (strip s).advance = (match s.advance with | .ok s' => .ok (strip s') | .error e => .error e) := by
  unfold PS.advance
  cases hr : s.rest with
  | nil => simp [strip, hr, subst]
  | cons n r =>
    by_cases hid : n.type = .identifier
    · cases hl : s.aliases.lookup n.text with
      | none =>
        simp only [strip, hr, subst, hid, beq_self_eq_true, ↓reduceIte, hl, List.lookup]
      | some body =>
        obtain ⟨k', hmem⟩ := lookup_mem hl
        have hne := hf.nonEmpty _ hmem
        have hnr := hf.noRef _ hmem
        cases body with
        | nil => exact absurd rfl hne
        | cons b more =>
          have hs : subst s.aliases more = more := subst_id _ more (fun t ht => hnr t (by simp [ht]))
          simp only [strip, hr, subst, hid, beq_self_eq_true, ↓reduceIte, hl, List.cons_append, List.lookup,
            subst_append, hs]
          split <;> rfl
    · simp [strip, hr, subst, hid]

theorem consume_aliases {s s' : PS} {exp : TT} {c : Tok} (h : consume exp s = .ok (c, s')) :
    s'.aliases = s.aliases := (consume_post h).1.aliases

theorem consume_strip {s : PS} (hf : Flat s.aliases) (exp : TT) :
    consume exp (strip s) = mapS (consume exp s) := by
  obtain ⟨cur, rest, A, rules, cons⟩ := s
  unfold consume
  simp only [strip]
  cases cur with
  | none => rfl
  | some c =>
    simp only
    split
    · rfl
    · have h := advance_strip (s := ⟨some c, rest, A, rules, c :: cons⟩) hf
      simp only [strip] at h
      simp only [bind, Except.bind, h]
      cases (⟨some c, rest, A, rules, c :: cons⟩ : PS).advance <;> rfl

theorem consumeId_strip {s : PS} (hf : Flat s.aliases) : consumeId (strip s) = mapS (consumeId s) := by
  unfold consumeId
  refine sim_bind (consume_strip hf _) fun c s1 _ => ?_
  rfl

theorem consumeInt_strip {s : PS} (hf : Flat s.aliases) : consumeInt (strip s) = mapS (consumeInt s) := by
  unfold consumeInt
  refine sim_bind (consume_strip hf _) fun c s1 _ => ?_
  rfl

theorem consumeId_aliases {s s' : PS} {n : String} (h : consumeId s = .ok (n, s')) : s'.aliases = s.aliases := by
  obtain ⟨_, a, _⟩ := consumeId_post h; exact a.aliases
theorem consumeInt_aliases {s s' : PS} {n : Nat} (h : consumeInt s = .ok (n, s')) : s'.aliases = s.aliases := by
  obtain ⟨_, a, _⟩ := consumeInt_post h; exact a.aliases

theorem isNot_strip {s : PS} (hf : Flat s.aliases) : isNot (strip s) = mapS (isNot s) := by
  unfold isNot
  simp only [strip_curIs]
  by_cases h : s.curIs .notOp = true
  · simp only [h, ↓reduceIte]
    refine sim_bind (consume_strip hf _) fun c s1 _ => ?_
    rfl
  · simp only [h, Bool.false_eq_true, ↓reduceIte]
    rfl

theorem isNot_aliases {s s' : PS} {b : Bool} (h : isNot s = .ok (b, s')) : s'.aliases = s.aliases := by
  obtain ⟨_, a, _⟩ := isNot_post h; exact a.aliases

theorem parseScore_strip {s : PS} (hf : Flat s.aliases) (neg : Bool) :
    parseScore neg (strip s) = mapS (parseScore neg s) := by
  unfold parseScore
  refine sim_bind (consume_strip hf _) fun _ s1 h1 => ?_
  have hf1 : Flat s1.aliases := by rw [consume_aliases h1]; exact hf
  refine sim_bind (consume_strip hf1 _) fun _ s2 h2 => ?_
  have hf2 : Flat s2.aliases := by rw [consume_aliases h2]; exact hf1
  refine sim_bind (consumeId_strip hf2) fun _ s3 h3 => ?_
  have hf3 : Flat s3.aliases := by rw [consumeId_aliases h3]; exact hf2
  refine sim_bind (consume_strip hf3 _) fun _ s4 h4 => ?_
  have hf4 : Flat s4.aliases := by rw [consume_aliases h4]; exact hf3
  refine sim_bind (consumeInt_strip hf4) fun _ s5 h5 => ?_
  have hf5 : Flat s5.aliases := by rw [consumeInt_aliases h5]; exact hf4
  refine sim_bind (consume_strip hf5 _) fun _ s6 _ => ?_
  rfl

end ASV.Parser

namespace ASV.Parser
open ASV ASV.Rules ASV.Grammar

theorem Flat.of_eq {A B : Aliases} (hf : Flat A) (h : B = A) : Flat B := h ▸ hf

theorem idsLoop_strip (fuel : Nat) : ∀ {s : PS} (_ : Flat s.aliases) (acc : List String),
    idsLoop fuel acc (strip s) = mapS (idsLoop fuel acc s) := by
  induction fuel with
  | zero => intro s _ acc; rfl
  | succ n ih =>
    intro s hf acc
    rw [idsLoop, idsLoop]
    simp only [strip_curIs]
    by_cases h : s.curIs .comma = true
    · simp only [h, ↓reduceIte]
      refine sim_bind (consume_strip hf _) fun _ s1 h1 => ?_
      have hf1 := hf.of_eq (consume_aliases h1)
      refine sim_bind (consumeId_strip hf1) fun _ s2 h2 => ?_
      exact ih (hf1.of_eq (consumeId_aliases h2)) _
    · simp only [h, Bool.false_eq_true, ↓reduceIte]; rfl

theorem parseIds_strip {s : PS} (hf : Flat s.aliases) (fuel : Nat) :
    parseIds fuel (strip s) = mapS (parseIds fuel s) := by
  unfold parseIds
  refine sim_bind (consumeId_strip hf) fun _ s1 h1 => ?_
  exact idsLoop_strip fuel (hf.of_eq (consumeId_aliases h1)) _

theorem parseIds_aliases {fuel : Nat} {s s' : PS} {ids : List String} (h : parseIds fuel s = .ok (ids, s')) :
    s'.aliases = s.aliases := by
  obtain ⟨_, a, _⟩ := parseIds_post h; exact a.aliases

theorem parseList_strip {s : PS} (hf : Flat s.aliases) (fuel : Nat) :
    parseList fuel (strip s) = mapS (parseList fuel s) := by
  unfold parseList
  refine sim_bind (consume_strip hf _) fun _ s1 h1 => ?_
  have hf1 := hf.of_eq (consume_aliases h1)
  refine sim_bind (parseIds_strip hf1 fuel) fun _ s2 h2 => ?_
  have hf2 := hf1.of_eq (parseIds_aliases h2)
  refine sim_bind (consume_strip hf2 _) fun _ s3 _ => ?_
  rfl

theorem parseList_aliases {fuel : Nat} {s s' : PS} {ids : List String} (h : parseList fuel s = .ok (ids, s')) :
    s'.aliases = s.aliases := by
  obtain ⟨_, a, _⟩ := parseList_post h; exact a.aliases

theorem parseMinimum_strip {s : PS} (hf : Flat s.aliases) (fuel : Nat) (neg : Bool) :
    parseMinimum fuel neg (strip s) = mapS (parseMinimum fuel neg s) := by
  unfold parseMinimum
  refine sim_bind (consume_strip hf _) fun _ s1 h1 => ?_
  have hf1 := hf.of_eq (consume_aliases h1)
  refine sim_bind (consume_strip hf1 _) fun _ s2 h2 => ?_
  have hf2 := hf1.of_eq (consume_aliases h2)
  refine sim_bind (consumeInt_strip hf2) fun _ s3 h3 => ?_
  have hf3 := hf2.of_eq (consumeInt_aliases h3)
  refine sim_bind (consume_strip hf3 _) fun _ s4 h4 => ?_
  have hf4 := hf3.of_eq (consume_aliases h4)
  refine sim_bind (parseList_strip hf4 fuel) fun _ s5 h5 => ?_
  have hf5 := hf4.of_eq (parseList_aliases h5)
  refine sim_bind (consume_strip hf5 _) fun _ s6 _ => ?_
  refine sim_bind_pure fun _ _ => ?_
  rfl

theorem endCheck_strip (g : Bool) (s : PS) : endCheck g (strip s) = endCheck g s := rfl

/-- the seven mutually recursive functions commute with `strip` -/
structure BlockSim (fuel : Nat) : Prop where
  single : ∀ (allow : Bool) (s : PS), Flat s.aliases → parseSingle fuel allow (strip s) = mapS (parseSingle fuel allow s)
  group : ∀ (allow : Bool) (s : PS), Flat s.aliases → parseGroup fuel allow (strip s) = mapS (parseGroup fuel allow s)
  cds : ∀ (s : PS), Flat s.aliases → parseCds fuel (strip s) = mapS (parseCds fuel s)
  conds : ∀ (allow g : Bool) (s : PS), Flat s.aliases →
    parseConditions fuel allow g (strip s) = mapS (parseConditions fuel allow g s)
  loop : ∀ (allow : Bool) (acc : List Cond) (lv : Cond) (p : Bool) (s : PS), Flat s.aliases →
    condLoop fuel allow acc lv p (strip s) = mapS (condLoop fuel allow acc lv p s)
  ands : ∀ (lv : Cond) (allow : Bool) (s : PS), Flat s.aliases →
    parseAnds fuel lv allow (strip s) = mapS (parseAnds fuel lv allow s)
  andLoop : ∀ (allow : Bool) (acc : List Cond) (s : PS), Flat s.aliases →
    andLoop fuel allow acc (strip s) = mapS (andLoop fuel allow acc s)

theorem single_aliases {fuel : Nat} {allow : Bool} {s s' : PS} {c : Cond}
    (h : parseSingle fuel allow s = .ok (c, s')) : s'.aliases = s.aliases := by
  obtain ⟨_, a, _⟩ := (blockPost fuel).single _ _ _ _ h; exact a.aliases
theorem group_aliases {fuel : Nat} {allow : Bool} {s s' : PS} {c : List Cond}
    (h : parseGroup fuel allow s = .ok (c, s')) : s'.aliases = s.aliases := by
  obtain ⟨_, a, _⟩ := (blockPost fuel).group _ _ _ _ h; exact a.aliases
theorem cds_aliases {fuel : Nat} {s s' : PS} {c : List Cond}
    (h : parseCds fuel s = .ok (c, s')) : s'.aliases = s.aliases := by
  obtain ⟨_, a, _⟩ := (blockPost fuel).cds _ _ _ h; exact a.aliases
theorem conds_aliases {fuel : Nat} {allow g : Bool} {s s' : PS} {c : List Cond}
    (h : parseConditions fuel allow g s = .ok (c, s')) : s'.aliases = s.aliases := by
  obtain ⟨_, a, _⟩ := (blockPost fuel).conds _ _ _ _ _ h; exact a.aliases
theorem ands_aliases {fuel : Nat} {allow : Bool} {lv : Cond} {s s' : PS} {c : Cond}
    (h : parseAnds fuel lv allow s = .ok (c, s')) : s'.aliases = s.aliases := by
  obtain ⟨_, _, _, _, a, _⟩ := (blockPost fuel).ands _ _ _ _ _ h; exact a.aliases

theorem blockSim (fuel : Nat) : BlockSim fuel := by
  induction fuel with
  | zero => constructor <;> intros <;> rfl
  | succ n ih =>
    constructor
    · -- parseSingle
      intro allow s hf
      rw [parseSingle, parseSingle]
      refine sim_bind (isNot_strip hf) fun neg s1 h1 => ?_
      have hf1 := hf.of_eq (isNot_aliases h1)
      simp only [strip_cur]
      cases hc : s1.cur with
      | none => rfl
      | some c =>
        simp only
        by_cases h0 : (c.type == .groupOpen) = true
        · simp only [h0, ↓reduceIte]
          refine sim_bind (ih.group allow s1 hf1) fun _ s2 _ => ?_
          refine sim_bind_pure fun _ _ => ?_
          rfl
        · simp only [h0, Bool.false_eq_true, ↓reduceIte]
          by_cases h2 : (allow && c.type == .minimum) = true
          · simp only [h2, ↓reduceIte]
            exact parseMinimum_strip hf1 n neg
          · simp only [h2, Bool.false_eq_true, ↓reduceIte]
            by_cases h3 : (allow && c.type == .cds) = true
            · simp only [h3, ↓reduceIte]
              refine sim_bind (ih.cds s1 hf1) fun _ s2 _ => ?_
              refine sim_bind_pure fun _ _ => ?_
              rfl
            · simp only [h3, Bool.false_eq_true, ↓reduceIte]
              by_cases h4 : (c.type == .score) = true
              · simp only [h4, ↓reduceIte]
                exact parseScore_strip hf1 neg
              · simp only [h4, Bool.false_eq_true, ↓reduceIte]
                refine sim_bind (consumeId_strip hf1) fun _ s2 _ => ?_
                rfl
    · -- parseGroup
      intro allow s hf
      rw [parseGroup, parseGroup]
      refine sim_bind (consume_strip hf _) fun _ s1 h1 => ?_
      have hf1 := hf.of_eq (consume_aliases h1)
      refine sim_bind (ih.conds allow true s1 hf1) fun _ s2 h2 => ?_
      have hf2 := hf1.of_eq (conds_aliases h2)
      refine sim_bind (consume_strip hf2 _) fun _ s3 _ => ?_
      rfl
    · -- parseCds
      intro s hf
      rw [parseCds, parseCds]
      refine sim_bind (consume_strip hf _) fun _ s1 h1 => ?_
      have hf1 := hf.of_eq (consume_aliases h1)
      refine sim_bind (consume_strip hf1 _) fun _ s2 h2 => ?_
      have hf2 := hf1.of_eq (consume_aliases h2)
      refine sim_bind (ih.conds false true s2 hf2) fun subs s3 h3 => ?_
      have hf3 := hf2.of_eq (conds_aliases h3)
      simp only
      split
      · rfl
      · refine sim_bind (consume_strip hf3 _) fun _ s4 _ => ?_
        rfl
    · -- parseConditions
      intro allow g s hf
      rw [parseConditions, parseConditions]
      simp only [strip_cur]
      by_cases hnone : s.cur.isNone = true
      · simp only [hnone, ↓reduceIte]; rfl
      · simp only [hnone, Bool.false_eq_true, ↓reduceIte]
        refine sim_bind (ih.single allow s hf) fun _ s1 h1 => ?_
        have hf1 := hf.of_eq (single_aliases h1)
        refine sim_bind (ih.loop allow [] _ true s1 hf1) fun _ s2 _ => ?_
        simp only [endCheck_strip]
        refine sim_bind_pure fun _ _ => ?_
        rfl
    · -- condLoop
      intro allow acc lv p s hf
      rw [condLoop, condLoop]
      simp only [strip_curIs]
      by_cases h1 : s.curIs .andOp = true
      · simp only [h1, ↓reduceIte]
        refine sim_bind (ih.ands lv allow s hf) fun _ s1 h => ?_
        exact ih.loop allow _ lv false s1 (hf.of_eq (ands_aliases h))
      · simp only [h1, Bool.false_eq_true, ↓reduceIte]
        by_cases h2 : s.curIs .orOp = true
        · simp only [h2, ↓reduceIte]
          refine sim_bind (consume_strip hf _) fun _ s1 h => ?_
          have hf1 := hf.of_eq (consume_aliases h)
          refine sim_bind (ih.single allow s1 hf1) fun _ s2 h' => ?_
          exact ih.loop allow _ _ true s2 (hf1.of_eq (single_aliases h'))
        · simp only [h2, Bool.false_eq_true, ↓reduceIte]; rfl
    · -- parseAnds
      intro lv allow s hf
      rw [parseAnds, parseAnds]
      refine sim_bind (consume_strip hf _) fun _ s1 h1 => ?_
      have hf1 := hf.of_eq (consume_aliases h1)
      refine sim_bind (ih.single allow s1 hf1) fun _ s2 h2 => ?_
      have hf2 := hf1.of_eq (single_aliases h2)
      refine sim_bind (ih.andLoop allow _ s2 hf2) fun _ s3 _ => ?_
      refine sim_bind_pure fun _ _ => ?_
      rfl
    · -- andLoop
      intro allow acc s hf
      rw [andLoop, andLoop]
      simp only [strip_curIs]
      by_cases h1 : s.curIs .andOp = true
      · simp only [h1, ↓reduceIte]
        refine sim_bind (consume_strip hf _) fun _ s1 h => ?_
        have hf1 := hf.of_eq (consume_aliases h)
        refine sim_bind (ih.single allow s1 hf1) fun _ s2 h' => ?_
        exact ih.andLoop allow _ s2 (hf1.of_eq (single_aliases h'))
      · simp only [h1, Bool.false_eq_true, ↓reduceIte]; rfl

end ASV.Parser
