/-
  C02 thm 4, rule level: a whole rule is parsed on the aliased state as on the substituted alias-free
  state, up to the free text (DESCRIPTION words, EXAMPLE compound names), which is skipped raw.
-/
import ASV.Proofs.Parser.Subst
namespace ASV.Parser
open ASV ASV.Rules ASV.Grammar

/-- results related by `R` on the value and by `strip` on the state; equal errors -/
def RelS {α} (R : α → α → Prop) (x' x : Except Err (α × PS)) : Prop :=
  match x', x with
  | .ok (a', t), .ok (a, s1) => R a' a ∧ t = strip s1
  | .error e', .error e => e' = e
  | _, _ => False

theorem RelS.of_eq {α} {x' x : Except Err (α × PS)} (h : x' = mapS x) : RelS Eq x' x := by
  subst h
  cases x with
  | error e => rfl
  | ok p => obtain ⟨a, s⟩ := p; exact ⟨rfl, rfl⟩

theorem RelS.to_eq {α} {x' x : Except Err (α × PS)} (h : RelS Eq x' x) : x' = mapS x := by
  cases x with
  | error e => cases x' with
    | error e' => simp only [RelS] at h; subst h; rfl
    | ok p => exact absurd h (by simp [RelS])
  | ok p => cases x' with
    | error e' => exact absurd h (by simp [RelS])
    | ok p' =>
      obtain ⟨a, s⟩ := p; obtain ⟨a', s'⟩ := p'
      simp only [RelS] at h
      obtain ⟨rfl, rfl⟩ := h; rfl

theorem RelS.bind {α β} {R : α → α → Prop} {Q : β → β → Prop} {x' x : Except Err (α × PS)}
    {k' k : α × PS → Except Err (β × PS)} (h1 : RelS R x' x)
    (h2 : ∀ a' a s1, R a' a → x = .ok (a, s1) → RelS Q (k' (a', strip s1)) (k (a, s1))) :
    RelS Q (x' >>= k') (x >>= k) := by
  cases x with
  | error e => cases x' with
    | error e' => simp only [RelS] at h1; subst h1; rfl
    | ok p => exact absurd h1 (by simp [RelS])
  | ok p => cases x' with
    | error e' => exact absurd h1 (by simp [RelS])
    | ok p' =>
      obtain ⟨a, s⟩ := p; obtain ⟨a', s'⟩ := p'
      simp only [RelS] at h1
      obtain ⟨hr, rfl⟩ := h1
      exact h2 a' a s hr rfl

theorem RelS.bind_pure {α β} {Q : β → β → Prop} {x : Except Err α} {k' k : α → Except Err (β × PS)}
    (h : ∀ a, x = .ok a → RelS Q (k' a) (k a)) : RelS Q (x >>= k') (x >>= k) := by
  cases x with
  | error e => rfl
  | ok a => exact h a rfl

theorem RelS.pure {α} {R : α → α → Prop} {a' a : α} {s : PS} (h : R a' a) :
    RelS R (Pure.pure (a', strip s)) (Pure.pure (a, s)) := ⟨h, rfl⟩

/-! ### raw skipping -/

/-- the first rule keyword of a list and what follows it -/
def skipList : List Tok → Option (Tok × List Tok)
  | [] => none
  | t :: ts => if t.type.isRuleKeyword then some (t, ts) else skipList ts

theorem skipText_eq (rest : List Tok) : ∀ (c : Tok) (acc : List Tok),
    (skipText c rest acc).map (fun x => (x.2.1, x.2.2)) = skipList (c :: rest) := by
  induction rest with
  | nil => intro c acc; unfold skipText; by_cases h : c.type.isRuleKeyword = true <;> simp [skipList, h]
  | cons n r ih =>
    intro c acc
    unfold skipText
    by_cases h : c.type.isRuleKeyword = true
    · simp [skipList, h]
    · simp only [h, Bool.false_eq_true, ↓reduceIte]
      rw [ih n (c :: acc)]
      simp [skipList, h]

theorem skipList_nokw (l x : List Tok) (h : ∀ t ∈ l, t.type.isRuleKeyword = false) :
    skipList (l ++ x) = skipList x := by
  induction l with
  | nil => rfl
  | cons t ts ih =>
    simp only [List.cons_append, skipList, h t (by simp), Bool.false_eq_true, ↓reduceIte]
    exact ih (fun y hy => h y (by simp [hy]))

theorem skipList_subst {A : Aliases} (hf : Flat A) (l : List Tok) :
    skipList (subst A l) = (skipList l).map fun p => (p.1, subst A p.2) := by
  induction l with
  | nil => rfl
  | cons t ts ih =>
    simp only [subst]
    by_cases hid : (t.type == .identifier) = true
    · have hk : t.type.isRuleKeyword = false := by
        have : t.type = .identifier := by simpa using hid
        rw [this]; rfl
      simp only [hid, ↓reduceIte]
      cases hl : A.lookup t.text with
      | none => simp [skipList, hk, ih]
      | some body =>
        obtain ⟨k', hmem⟩ := lookup_mem hl
        simp only
        rw [skipList_nokw body _ (hf.noKw _ hmem), ih]
        simp [skipList, hk]
    · simp only [hid, Bool.false_eq_true, ↓reduceIte, skipList]
      by_cases hk : t.type.isRuleKeyword = true
      · simp [hk]
      · simp [hk, ih]

/-- skipping to the next keyword stops at the same keyword on the substituted input -/
theorem skipText_subst {A : Aliases} (hf : Flat A) (c : Tok) (rest acc acc' : List Tok) :
    (skipText c (subst A rest) acc').map (fun x => (x.2.1, x.2.2)) =
      ((skipText c rest acc).map (fun x => (x.2.1, x.2.2))).map fun p => (p.1, subst A p.2) := by
  rw [skipText_eq, skipText_eq]
  simp only [skipList]
  by_cases hk : c.type.isRuleKeyword = true
  · simp [hk]
  · simp [hk, skipList_subst hf]

theorem skipFree_rel {s : PS} (hf : Flat s.aliases) :
    RelS (fun _ _ => True) (skipFree (strip s)) (skipFree s) := by
  obtain ⟨cur, rest, A, rules, cons⟩ := s
  unfold skipFree
  simp only [strip]
  cases cur with
  | none => exact ⟨trivial, rfl⟩
  | some c =>
    simp only
    have h := skipText_subst hf c rest [] []
    cases h1 : skipText c rest [] with
    | none =>
      rw [h1] at h
      cases h2 : skipText c (subst A rest) [] with
      | none => rfl
      | some p => rw [h2] at h; simp at h
    | some p =>
      obtain ⟨sk, k, post⟩ := p
      rw [h1] at h
      cases h2 : skipText c (subst A rest) [] with
      | none => rw [h2] at h; simp at h
      | some p' =>
        obtain ⟨sk', k', post'⟩ := p'
        rw [h2] at h
        simp only [Option.map_some, Option.some.injEq, Prod.mk.injEq] at h
        obtain ⟨rfl, rfl⟩ := h
        exact ⟨trivial, rfl⟩

theorem skipFree_aliases {s s' : PS} {x : List Tok} (h : skipFree s = .ok (x, s')) : s'.aliases = s.aliases := by
  unfold skipFree at h
  split at h
  · cases h; rfl
  · split at h
    · cases h
    · cases h; rfl

end ASV.Parser

namespace ASV.Parser
open ASV ASV.Rules ASV.Grammar

/-- examples equal up to the compound name (free text) -/
def ExRel (e' e : Example) : Prop :=
  e'.database = e.database ∧ e'.accession = e.accession ∧ e'.version = e.version ∧ e'.start = e.start ∧
    e'.stop = e.stop

theorem mkExample_rel (db acc : String) (v : Nat) (range : String) (c' c : List Tok) :
    match mkExample db acc v range c', mkExample db acc v range c with
    | .ok e', .ok e => ExRel e' e
    | .error a, .error b => a = b
    | _, _ => False := by
  unfold mkExample
  cases exampleRange db v range with
  | error a => rfl
  | ok p => obtain ⟨a, b⟩ := p; exact ⟨rfl, rfl, rfl, rfl, rfl⟩

theorem parseDescription_rel {s : PS} (hf : Flat s.aliases) :
    RelS (fun _ _ => True) (parseDescription (strip s)) (parseDescription s) := by
  unfold parseDescription
  refine RelS.bind (RelS.of_eq (consume_strip hf _)) fun _ _ s1 _ h1 => ?_
  have hf1 := hf.of_eq (consume_aliases h1)
  obtain ⟨cur, rest, A, rules, cons⟩ := s1
  simp only [strip]
  cases cur with
  | none => rfl
  | some c =>
    simp only
    have h := skipText_subst hf1 c rest [] []
    simp only at h
    cases h1 : skipText c rest [] with
    | none =>
      rw [h1] at h
      cases h2 : skipText c (subst A rest) [] with
      | none => rfl
      | some p => rw [h2] at h; simp at h
    | some p =>
      obtain ⟨sk, k, post⟩ := p
      rw [h1] at h
      cases h2 : skipText c (subst A rest) [] with
      | none => rw [h2] at h; simp at h
      | some p' =>
        obtain ⟨sk', k', post'⟩ := p'
        rw [h2] at h
        simp only [Option.map_some, Option.some.injEq, Prod.mk.injEq] at h
        obtain ⟨rfl, rfl⟩ := h
        exact ⟨trivial, rfl⟩

theorem parseExample_rel {s : PS} (hf : Flat s.aliases) : RelS ExRel (parseExample (strip s)) (parseExample s) := by
  unfold parseExample
  refine RelS.bind (RelS.of_eq (consume_strip hf _)) fun _ _ s1 e h1 => ?_
  have hf1 := hf.of_eq (consume_aliases h1)
  refine RelS.bind (RelS.of_eq (consumeId_strip hf1)) fun db' db s2 e h2 => ?_
  subst e
  have hf2 := hf1.of_eq (consumeId_aliases h2)
  refine RelS.bind (RelS.of_eq (consumeId_strip hf2)) fun acc' acc s3 e h3 => ?_
  subst e
  have hf3 := hf2.of_eq (consumeId_aliases h3)
  refine RelS.bind (RelS.of_eq (consume_strip hf3 _)) fun _ _ s4 _ h4 => ?_
  have hf4 := hf3.of_eq (consume_aliases h4)
  refine RelS.bind (RelS.of_eq (consumeInt_strip hf4)) fun v' v s5 e h5 => ?_
  subst e
  have hf5 := hf4.of_eq (consumeInt_aliases h5)
  refine RelS.bind (RelS.of_eq (consume_strip hf5 _)) fun r' r s6 e h6 => ?_
  subst e
  have hf6 := hf5.of_eq (consume_aliases h6)
  refine RelS.bind (skipFree_rel hf6) fun c' c s7 _ _ => ?_
  simp only
  have := mkExample_rel db' acc' v' r'.text c' c
  cases h1 : mkExample db' acc' v' r'.text c' with
  | error a =>
    cases h2 : mkExample db' acc' v' r'.text c with
    | error b => rw [h1, h2] at this; simp only at this; subst this; rfl
    | ok e => rw [h1, h2] at this; exact this.elim
  | ok e' =>
    cases h2 : mkExample db' acc' v' r'.text c with
    | error b => rw [h1, h2] at this; exact this.elim
    | ok e => rw [h1, h2] at this; exact ⟨this, rfl⟩

theorem parseExample_aliases {s s' : PS} {e : Example} (h : parseExample s = .ok (e, s')) :
    s'.aliases = s.aliases := by
  obtain ⟨_, a, _⟩ := parseExample_adv h; exact a.aliases

inductive ExsRel : List Example → List Example → Prop
  | nil : ExsRel [] []
  | cons {a' a : Example} {l' l : List Example} : ExRel a' a → ExsRel l' l → ExsRel (a' :: l') (a :: l)

theorem ExsRel.snoc {l' l : List Example} {a' a : Example} (h : ExsRel l' l) (ha : ExRel a' a) :
    ExsRel (l' ++ [a']) (l ++ [a]) := by
  induction h with
  | nil => exact .cons ha .nil
  | cons hx _ ih => exact .cons hx ih

theorem examplesLoop_rel (fuel : Nat) : ∀ {s : PS} (_ : Flat s.aliases) (acc' acc : List Example),
    ExsRel acc' acc → RelS ExsRel (examplesLoop fuel acc' (strip s)) (examplesLoop fuel acc s) := by
  induction fuel with
  | zero => intro s _ _ _ _; rfl
  | succ n ih =>
    intro s hf acc' acc hacc
    rw [examplesLoop, examplesLoop]
    simp only [strip_cur]
    cases hc : s.cur with
    | none => rfl
    | some c =>
      simp only
      by_cases h : (c.type == .example) = true
      · simp only [h, ↓reduceIte]
        refine RelS.bind (parseExample_rel hf) fun e' e s1 he h1 => ?_
        exact ih (hf.of_eq (parseExample_aliases h1)) _ _ (hacc.snoc he)
      · simp only [h, Bool.false_eq_true, ↓reduceIte]
        exact ⟨hacc, rfl⟩

end ASV.Parser

namespace ASV.Parser
open ASV ASV.Rules ASV.Grammar

theorem examplesLoop_aliases {fuel : Nat} {acc ex : List Example} {s s' : PS}
    (h : examplesLoop fuel acc s = .ok (ex, s')) : s'.aliases = s.aliases := by
  obtain ⟨_, a⟩ := examplesLoop_adv fuel h; exact a.aliases

theorem parseRelated_strip {s : PS} (hf : Flat s.aliases) (fuel : Nat) :
    parseRelated fuel (strip s) = mapS (parseRelated fuel s) := by
  unfold parseRelated
  simp only [strip_curIs]
  by_cases h : s.curIs .related = true
  · simp only [h, ↓reduceIte]
    refine sim_bind (consume_strip hf _) fun _ s1 h1 => ?_
    exact parseIds_strip (hf.of_eq (consume_aliases h1)) fuel
  · simp only [h, Bool.false_eq_true, ↓reduceIte]; rfl

theorem parseRelated_aliases {fuel : Nat} {rel : List String} {s s' : PS}
    (h : parseRelated fuel s = .ok (rel, s')) : s'.aliases = s.aliases := by
  obtain ⟨_, a⟩ := parseRelated_adv h; exact a.aliases

theorem parseSuperiors_strip {s : PS} (hf : Flat s.aliases) (fuel : Nat) :
    parseSuperiors fuel (strip s) = mapS (parseSuperiors fuel s) := by
  unfold parseSuperiors
  refine sim_bind (consume_strip hf _) fun _ s1 h1 => ?_
  have hf1 := hf.of_eq (consume_aliases h1)
  refine sim_bind (parseIds_strip hf1 fuel) fun sup s2 _ => ?_
  simp only [strip_ruleByName]
  split
  · rfl
  · refine sim_bind_pure fun _ _ => ?_
    rfl

theorem parseHead_strip {s : PS} (hf : Flat s.aliases) (cfg : Cfg) :
    parseHead cfg (strip s) = mapS (parseHead cfg s) := by
  unfold parseHead
  refine sim_bind (consume_strip hf _) fun _ s1 h1 => ?_
  have hf1 := hf.of_eq (consume_aliases h1)
  simp only [strip_curAliased]
  by_cases ha : s1.curAliased = true
  · simp only [ha, ↓reduceIte]; rfl
  · simp only [ha, Bool.false_eq_true, ↓reduceIte]
    refine sim_bind (consumeId_strip hf1) fun name s2 h2 => ?_
    have hf2 := hf1.of_eq (consumeId_aliases h2)
    simp only [strip_cur]
    by_cases hn : s2.cur.isNone = true
    · simp only [hn, ↓reduceIte]; rfl
    · simp only [hn, Bool.false_eq_true, ↓reduceIte]
      refine sim_bind (consume_strip hf2 _) fun _ s3 h3 => ?_
      have hf3 := hf2.of_eq (consume_aliases h3)
      refine sim_bind (consumeId_strip hf3) fun cat s4 _ => ?_
      simp only [strip_cur]
      split
      · rfl
      · by_cases hn4 : s4.cur.isNone = true
        · simp only [hn4, ↓reduceIte]; rfl
        · simp only [hn4, Bool.false_eq_true, ↓reduceIte]; rfl

theorem parseHead_aliases {cfg : Cfg} {x : String × String} {s s' : PS}
    (h : parseHead cfg s = .ok (x, s')) : s'.aliases = s.aliases := by
  obtain ⟨a, b⟩ := x
  obtain ⟨⟨_, a⟩, _⟩ := parseHead_post h; exact a.aliases

theorem parseDistances_strip {s : PS} (hf : Flat s.aliases) :
    parseDistances (strip s) = mapS (parseDistances s) := by
  unfold parseDistances
  refine sim_bind (consume_strip hf _) fun _ s1 h1 => ?_
  have hf1 := hf.of_eq (consume_aliases h1)
  refine sim_bind (consumeInt_strip hf1) fun _ s2 h2 => ?_
  have hf2 := hf1.of_eq (consumeInt_aliases h2)
  refine sim_bind (consume_strip hf2 _) fun _ s3 h3 => ?_
  have hf3 := hf2.of_eq (consume_aliases h3)
  refine sim_bind (consumeInt_strip hf3) fun _ s4 _ => ?_
  rfl

theorem parseDistances_aliases {x : Nat × Nat} {s s' : PS}
    (h : parseDistances s = .ok (x, s')) : s'.aliases = s.aliases := by
  obtain ⟨_, a⟩ := parseDistances_adv h; exact a.aliases

theorem parseExtenders_strip {s : PS} (hf : Flat s.aliases) (fuel : Nat) :
    parseExtenders fuel (strip s) = mapS (parseExtenders fuel s) := by
  unfold parseExtenders
  simp only [strip_curIs]
  by_cases h : s.curIs .extenders = true
  · simp only [h, ↓reduceIte]
    refine sim_bind (consume_strip hf _) fun _ s1 h1 => ?_
    have hf1 := hf.of_eq (consume_aliases h1)
    simp only [strip_cur]
    cases hc : s1.cur with
    | none => rfl
    | some c =>
      simp only
      by_cases h0 : (c.type == .cds) = true
      · simp only [h0, ↓reduceIte]
        refine sim_bind ((blockSim fuel).cds s1 hf1) fun _ s2 _ => ?_
        refine sim_bind_pure fun _ _ => ?_
        rfl
      · simp only [h0, Bool.false_eq_true, ↓reduceIte]
        by_cases h2 : (c.type == .identifier) = true
        · simp only [h2, ↓reduceIte]
          refine sim_bind ((blockSim fuel).single false s1 hf1) fun e s2 _ => ?_
          simp only [strip_cur]
          cases s2.cur with
          | none => rfl
          | some c' => simp only; split <;> rfl
        · simp only [h2, Bool.false_eq_true, ↓reduceIte]; rfl
  · simp only [h, Bool.false_eq_true, ↓reduceIte]; rfl

theorem ruleEnd_strip (s : PS) : ruleEnd (strip s) = ruleEnd s := rfl

/-- what the optional sections return, up to the free text -/
def MetaRel (m' m : List String × List Example × List String × List String) : Prop :=
  ExsRel m'.2.1 m.2.1 ∧ m'.2.2.1 = m.2.2.1 ∧ m'.2.2.2 = m.2.2.2

theorem parseMeta_rel {s : PS} (hf : Flat s.aliases) (fuel : Nat) :
    RelS MetaRel (parseMeta fuel (strip s)) (parseMeta fuel s) := by
  unfold parseMeta
  have hd : RelS (fun _ _ => True)
      (if (strip s).curIs .description = true then parseDescription (strip s) else pure ([], strip s))
      (if s.curIs .description = true then parseDescription s else pure ([], s)) := by
    simp only [strip_curIs]
    by_cases h : s.curIs .description = true
    · simp only [h, ↓reduceIte]; exact parseDescription_rel hf
    · simp only [h, Bool.false_eq_true, ↓reduceIte]; exact ⟨trivial, rfl⟩
  refine RelS.bind hd fun _ _ s1 _ h1 => ?_
  have hf1 : Flat s1.aliases := by
    split at h1
    · obtain ⟨_, a⟩ := parseDescription_adv h1; exact hf.of_eq a.aliases
    · cases h1; exact hf
  refine RelS.bind (examplesLoop_rel fuel hf1 [] [] .nil) fun ex' ex s2 hex h2 => ?_
  have hf2 := hf1.of_eq (examplesLoop_aliases h2)
  refine RelS.bind (RelS.of_eq (parseRelated_strip hf2 fuel)) fun rel' rel s3 e h3 => ?_
  subst e
  have hf3 := hf2.of_eq (parseRelated_aliases h3)
  simp only [strip_cur]
  by_cases hn : s3.cur.isNone = true
  · simp only [hn, ↓reduceIte]; rfl
  · simp only [hn, Bool.false_eq_true, ↓reduceIte]
    have hs : RelS Eq
        (if (strip s3).curIs .superiors = true then parseSuperiors fuel (strip s3) else pure ([], strip s3))
        (if s3.curIs .superiors = true then parseSuperiors fuel s3 else pure ([], s3)) := by
      simp only [strip_curIs]
      by_cases h : s3.curIs .superiors = true
      · simp only [h, ↓reduceIte]; exact RelS.of_eq (parseSuperiors_strip hf3 fuel)
      · simp only [h, Bool.false_eq_true, ↓reduceIte]; exact ⟨rfl, rfl⟩
    refine RelS.bind hs fun sup' sup s4 e _ => ?_
    subst e
    exact ⟨⟨hex, rfl, rfl⟩, rfl⟩

theorem parseMeta_aliases {fuel : Nat} {x : List String × List Example × List String × List String} {s s' : PS}
    (h : parseMeta fuel s = .ok (x, s')) : s'.aliases = s.aliases := by
  obtain ⟨_, a⟩ := parseMeta_adv h; exact a.aliases

/-- rules equal up to the free text (DESCRIPTION words, EXAMPLE compound names) -/
def RuleRel (r' r : Rule) : Prop :=
  r'.name = r.name ∧ r'.category = r.category ∧ r'.cutoff = r.cutoff ∧ r'.neighbourhood = r.neighbourhood ∧
    r'.conditions = r.conditions ∧ r'.superiors = r.superiors ∧ r'.related = r.related ∧
    r'.extenders = r.extenders ∧ ExsRel r'.examples r.examples

theorem parseRuleWith_rel {s : PS} (hf : Flat s.aliases) (fuel : Nat) (cfg : Cfg) :
    RelS RuleRel (parseRuleWith fuel cfg (strip s)) (parseRuleWith fuel cfg s) := by
  unfold parseRuleWith
  refine RelS.bind (RelS.of_eq (parseHead_strip hf cfg)) fun nc' nc s1 e h1 => ?_
  subst e
  have hf1 := hf.of_eq (parseHead_aliases h1)
  obtain ⟨name, cat⟩ := nc'
  refine RelS.bind (parseMeta_rel hf1 fuel) fun m' m s2 hm h2 => ?_
  have hf2 := hf1.of_eq (parseMeta_aliases h2)
  obtain ⟨d', ex', rel', sup'⟩ := m'
  obtain ⟨d, ex, rel, sup⟩ := m
  obtain ⟨hex, hrel, hsup⟩ := hm
  simp only at hex hrel hsup
  subst hrel hsup
  refine RelS.bind (RelS.of_eq (parseDistances_strip hf2)) fun cn' cn s3 e h3 => ?_
  subst e
  have hf3 := hf2.of_eq (parseDistances_aliases h3)
  obtain ⟨cut, nb⟩ := cn'
  refine RelS.bind (RelS.of_eq (consume_strip hf3 _)) fun _ _ s4 _ h4 => ?_
  have hf4 := hf3.of_eq (consume_aliases h4)
  refine RelS.bind (RelS.of_eq ((blockSim fuel).conds true false s4 hf4)) fun subs' subs s5 e h5 => ?_
  subst e
  have hf5 := hf4.of_eq (conds_aliases h5)
  refine RelS.bind_pure fun conds _ => ?_
  refine RelS.bind (RelS.of_eq (parseExtenders_strip hf5 fuel)) fun ext' ext s6 e _ => ?_
  subst e
  simp only [ruleEnd_strip]
  refine RelS.bind_pure fun _ _ => ?_
  split
  · rfl
  · split
    · rfl
    · exact ⟨⟨rfl, rfl, rfl, rfl, rfl, rfl, rfl, rfl, hex⟩, rfl⟩

end ASV.Parser
