/-
  C02 thm 1: the tokeniser returns exactly the written tokens, whatever filler (whitespace of any
  kind, comments) stands between them.
-/
import ASV.Spec.TokenLayout
namespace ASV.Parser
open ASV ASV.Layout

def singleKeys (l : List (String × String)) : List Char :=
  l.filterMap fun p => match p.1.toList with
    | [c] => some c
    | _ => none

theorem singleton_beq (c : Char) (k : String) : (String.singleton c == k) = (k.toList == [c]) := by
  rw [Bool.eq_iff_iff]; simp [← String.toList_inj]; constructor <;> intro h <;> simp [h]

theorem lookup_singleton (l : List (String × String)) (c : Char) :
    (l.lookup (String.singleton c)).isSome = (singleKeys l).contains c := by
  induction l with
  | nil => simp [singleKeys]
  | cons p ps ih =>
    obtain ⟨a, b⟩ := p
    simp only [List.lookup, singleKeys, List.filterMap_cons]
    rw [singleton_beq]
    cases hl : a.toList with
    | nil => simpa [singleKeys] using ih
    | cons x xs =>
      cases xs with
      | nil =>
        by_cases hx : x = c
        · subst hx; simp
        · have : ([x] == [c]) = false := by simp [hx]
          simp only [this]
          have hne : (c == x) = false := by simp; exact fun h => hx h.symm
          simpa [singleKeys, List.contains_cons, hne] using ih
      | cons y ys => simpa [singleKeys] using ih

theorem single_table : singleKeys Generated.RuleTokens.mapping = ['(', ')', '[', ']', ',', '.'] := by
  decide +kernel

theorem isSingle_iff (c : Char) : isSingleCharToken c = ['(', ')', '[', ']', ',', '.'].contains c := by
  rw [isSingleCharToken, lookup_singleton, single_table]

theorem symChar_not_ws {c : Char} (h : symChar c = true) : isWs c = false := by
  cases hw : isWs c with
  | false => rfl
  | true =>
    simp only [isWs, Bool.or_eq_true, beq_iff_eq] at hw
    rcases hw with ((((rfl | rfl) | rfl) | rfl) | rfl) | rfl <;> simp [symChar] at h <;> revert h <;> decide

theorem symChar_not_single {c : Char} (h : symChar c = true) : isSingleCharToken c = false := by
  cases hs : isSingleCharToken c with
  | false => rfl
  | true =>
    rw [isSingle_iff] at hs
    simp only [List.contains_cons, List.contains_nil, Bool.or_false, Bool.or_eq_true, beq_iff_eq] at hs
    rcases hs with rfl | rfl | rfl | rfl | rfl | rfl <;> revert h <;> decide

theorem single_not_ws {c : Char} (h : isSingleCharToken c = true) : isWs c = false := by
  rw [isSingle_iff] at h
  simp only [List.contains_cons, List.contains_nil, Bool.or_false, Bool.or_eq_true, beq_iff_eq] at h
  rcases h with rfl | rfl | rfl | rfl | rfl | rfl <;> decide

/-- a first or later character of a word, on a non-empty or empty pending symbol -/
theorem tokGo_symChar {c : Char} (h : symChar c = true) (cs sym : List Char) (acc : List Tok) :
    tokGo (c :: cs) false sym acc = tokGo cs false (c :: sym) acc := by
  have h1 := symChar_not_ws h
  have h2 := symChar_not_single h
  have h3 : (c.isAlphanum || c == '-' || c == '_' || c == '.') = true := by
    simp only [symChar] at h; simp [h]
  rw [tokGo]; simp only [h1, h2, h3, Bool.false_eq_true, ↓reduceIte]

theorem tokGo_contChar {c : Char} (h : contChar c = true) (cs sym : List Char) (acc : List Tok) (hs : sym ≠ []) :
    tokGo (c :: cs) false sym acc = tokGo cs false (c :: sym) acc := by
  by_cases hsym : symChar c = true
  · exact tokGo_symChar hsym cs sym acc
  · have hc : c = ':' ∨ c = '/' := by
      simp only [contChar, Bool.or_eq_true, beq_iff_eq] at h
      rcases h with (h | h) | h
      · exact absurd h hsym
      · exact Or.inl h
      · exact Or.inr h
    have hne : sym.isEmpty = false := by cases sym <;> simp_all
    rcases hc with rfl | rfl
    · rw [tokGo]
      have : isSingleCharToken ':' = false := by rw [isSingle_iff]; decide
      simp [isWs, this, hne]
    · rw [tokGo]
      have : isSingleCharToken '/' = false := by rw [isSingle_iff]; decide
      simp [isWs, this, hne]

theorem tokGo_more (more : List Char) (hm : more.all contChar = true) : ∀ (rest sym : List Char) (acc : List Tok),
    sym ≠ [] → tokGo (more ++ rest) false sym acc = tokGo rest false (more.reverse ++ sym) acc := by
  induction more with
  | nil => intro rest sym acc _; simp
  | cons c cs ih =>
    intro rest sym acc hs
    simp only [List.all_cons, Bool.and_eq_true] at hm
    rw [List.cons_append, tokGo_contChar hm.1 _ _ _ hs, ih hm.2 rest (c :: sym) acc (by simp)]
    simp

theorem tokGo_comment_body (body : List Char) (hb : body.all (· != '\n') = true) (rest sym : List Char)
    (acc : List Tok) : tokGo (body ++ '\n' :: rest) true sym acc = tokGo rest false sym acc := by
  induction body with
  | nil => simp [tokGo]
  | cons c cs ih =>
    simp only [List.all_cons, Bool.and_eq_true] at hb
    rw [List.cons_append, tokGo]
    simp only [hb.1]
    exact ih hb.2

theorem tokGo_open_comment (body : List Char) (hb : body.all (· != '\n') = true) (sym : List Char) (acc : List Tok) :
    tokGo body true sym acc = .ok (finalise sym acc).reverse := by
  induction body with
  | nil => simp [tokGo]
  | cons c cs ih =>
    simp only [List.all_cons, Bool.and_eq_true] at hb
    rw [tokGo]; simp only [hb.1]; exact ih hb.2

theorem tokGo_filler (f : Filler) (hf : f.ok = true) (rest sym : List Char) (acc : List Tok) :
    tokGo (f.chars ++ rest) false sym acc = tokGo rest false [] (finalise sym acc) := by
  cases f with
  | ws c =>
    simp only [Filler.ok] at hf
    simp only [Filler.chars, List.cons_append, List.nil_append]
    rw [tokGo]; simp [hf]
  | comment body =>
    simp only [Filler.ok] at hf
    simp only [Filler.chars, List.cons_append, List.append_assoc, List.nil_append]
    have hs : isSingleCharToken '#' = false := by rw [isSingle_iff]; decide
    rw [tokGo]
    simp only [isWs, hs]
    simp only [show ('#' == ' ' || '#' == '\t' || '#' == '\n' || '#' == '\r' || '#' == '\x0b' || '#' == '\x0c') = false by decide,
      show ('#'.isAlphanum || '#' == '-' || '#' == '_' || '#' == '.') = false by decide, Bool.false_eq_true, ↓reduceIte,
      beq_self_eq_true]
    exact tokGo_comment_body body hf rest [] _

theorem finalise_nil (acc : List Tok) : finalise [] acc = acc := by simp [finalise]

theorem tokGo_gap (g : List Filler) (hg : g.all Filler.ok = true) (rest sym : List Char) (acc : List Tok) :
    ∃ sym' acc', tokGo (gapChars g ++ rest) false sym acc = tokGo rest false sym' acc' ∧
      finalise sym' acc' = finalise sym acc ∧ (g ≠ [] → sym' = []) ∧ (g = [] → sym' = sym ∧ acc' = acc) := by
  induction g generalizing sym acc with
  | nil => exact ⟨sym, acc, by simp [gapChars], rfl, by simp, by simp⟩
  | cons f fs ih =>
    simp only [List.all_cons, Bool.and_eq_true] at hg
    obtain ⟨sym', acc', h1, h2, h3, h4⟩ := ih hg.2 [] (finalise sym acc)
    refine ⟨sym', acc', ?_, ?_, ?_, by simp⟩
    · simp only [gapChars, List.flatMap_cons, List.append_assoc]
      rw [tokGo_filler f hg.1]
      simpa [gapChars] using h1
    · rw [h2, finalise_nil]
    · intro _
      by_cases hfs : fs = []
      · exact (h4 hfs).1
      · exact h3 hfs

/-- one written token after its filler -/
theorem tokGo_item (g : List Filler) (w : Word) (hg : g.all Filler.ok = true) (hw : w.ok = true)
    (rest sym : List Char) (acc : List Tok) (hsep : ¬ (sym ≠ [] ∧ w.isWord = true ∧ g = [])) :
    ∃ sym' acc', tokGo (gapChars g ++ w.chars ++ rest) false sym acc = tokGo rest false sym' acc' ∧
      finalise sym' acc' = mkTok w.text :: finalise sym acc ∧ (sym' ≠ [] ↔ w.isWord = true) := by
  obtain ⟨s1, a1, h1, h2, h3, h4⟩ := tokGo_gap g hg (w.chars ++ rest) sym acc
  rw [List.append_assoc, h1]
  cases w with
  | sym c =>
    simp only [Word.ok] at hw
    refine ⟨[], mkTok (String.singleton c) :: finalise s1 a1, ?_, by simp [finalise_nil, h2, Word.text], by simp [Word.isWord]⟩
    simp only [Word.chars, List.cons_append, List.nil_append]
    rw [tokGo]; simp [single_not_ws hw, hw]
  | word f more =>
    simp only [Word.ok, Bool.and_eq_true] at hw
    have hs1 : s1 = [] := by
      by_cases hgn : g = []
      · have := (h4 hgn).1
        by_cases hs : sym = []
        · rw [this, hs]
        · exact absurd ⟨hs, rfl, hgn⟩ hsep
      · exact h3 hgn
    subst hs1
    refine ⟨more.reverse ++ [f], a1, ?_, ?_, by simp [Word.isWord]⟩
    · simp only [Word.chars, List.cons_append]
      rw [tokGo_symChar hw.1, tokGo_more more hw.2 rest [f] a1 (by simp)]
    · rw [← h2]
      simp [finalise, Word.text]

theorem tokGo_items : ∀ (items : List (List Filler × Word)) (rest sym : List Char) (acc : List Tok),
    okSeq (!sym.isEmpty) items = true →
    ∃ sym' acc', tokGo (render items ++ rest) false sym acc = tokGo rest false sym' acc' ∧
      finalise sym' acc' = (items.map fun x => mkTok x.2.text).reverse ++ finalise sym acc := by
  intro items
  induction items with
  | nil => intro rest sym acc _; exact ⟨sym, acc, by simp [render], by simp⟩
  | cons it its ih =>
    intro rest sym acc hok
    obtain ⟨g, w⟩ := it
    simp only [okSeq, Bool.and_eq_true, Bool.not_eq_true', Bool.and_eq_false_iff] at hok
    obtain ⟨⟨⟨hg, hw⟩, hsep⟩, hrest⟩ := hok
    have hsep' : ¬ (sym ≠ [] ∧ w.isWord = true ∧ g = []) := by
      rintro ⟨h1, h2, h3⟩
      rcases hsep with (h | h) | h
      · cases sym <;> simp_all
      · simp [h2] at h
      · simp [h3] at h
    obtain ⟨s1, a1, h1, h2, h3⟩ := tokGo_item g w hg hw (render its ++ rest) sym acc hsep'
    have hprev : (!s1.isEmpty) = w.isWord := by
      cases hwd : w.isWord with
      | true => have := h3.mpr hwd; cases s1 <;> simp_all
      | false =>
        have : ¬ (s1 ≠ []) := fun h => by rw [h3.mp h] at hwd; cases hwd
        cases s1 <;> simp_all
    obtain ⟨s2, a2, h4, h5⟩ := ih rest s1 a1 (by rw [hprev]; exact hrest)
    refine ⟨s2, a2, ?_, ?_⟩
    · simp only [render, List.append_assoc] at h1 ⊢
      rw [h1, h4]
    · rw [h5, h2]; simp

/-- thm 1 -/
theorem tokenise_render (items : List (List Filler × Word)) (tail : Tail)
    (hok : okSeq false items = true) (ht : tail.ok = true) :
    tokenise (String.ofList (render items ++ tail.chars)) = .ok (items.map fun x => mkTok x.2.text) := by
  simp only [tokenise, String.toList_ofList]
  obtain ⟨gap, oc⟩ := tail
  simp only [Tail.ok, Bool.and_eq_true] at ht
  cases oc with
  | none =>
    simp only [Tail.chars, List.append_nil]
    obtain ⟨s1, a1, h1, h2⟩ := tokGo_items items (gapChars gap) [] [] (by simpa using hok)
    obtain ⟨s2, a2, h3, h4, _, _⟩ := tokGo_gap gap ht.1 [] s1 a1
    simp only [List.append_nil] at h3
    rw [h1, h3, tokGo, h4, h2]
    simp [finalise_nil]
  | some b =>
    have hb : b.all (· != '\n') = true := by simpa using ht.2
    simp only [Tail.chars]
    obtain ⟨s1, a1, h1, h2⟩ := tokGo_items items (gapChars gap ++ '#' :: b) [] [] (by simpa using hok)
    obtain ⟨s2, a2, h3, h4, _, _⟩ := tokGo_gap gap ht.1 ('#' :: b) s1 a1
    have hs : isSingleCharToken '#' = false := by rw [isSingle_iff]; decide
    rw [h1, h3, tokGo]
    simp only [isWs, hs]
    simp only [show ('#' == ' ' || '#' == '\t' || '#' == '\n' || '#' == '\r' || '#' == '\x0b' || '#' == '\x0c') = false by decide,
      show ('#'.isAlphanum || '#' == '-' || '#' == '_' || '#' == '.') = false by decide, Bool.false_eq_true, ↓reduceIte,
      beq_self_eq_true]
    rw [tokGo_open_comment b hb, finalise_nil, h4, h2]
    simp [finalise_nil]

end ASV.Parser
