/-
  C02 thm 7, part 10: the CONDITIONS text of `reconstruct_rule_text` (outer parentheses stripped).
-/
import ASV.Proofs.Parser.Reprint9
namespace ASV.Reprint
open ASV ASV.Rules ASV.Parser ASV.Grammar ASV.Layout

theorem profiles_setNeg (a : Cond) : (setNeg a).profiles = a.profiles := by cases a <;> rfl

mutual
theorem profiles_norm : ∀ (c : Cond) (n : String), n ∈ (normC c).profiles → n ∈ c.profiles
  | .single _ _, _, h => h
  | .score _ _ _, _, h => h
  | .minimum _ _ opts, n, h => by
      simp only [normC, Cond.profiles] at h ⊢
      exact mem_sortDedupStr.mp h
  | .cds neg subs, n, h => by
      simp only [Cond.profiles]
      apply profiles_normL subs n
      simp only [normC] at h
      split at h
      · simpa [Cond.profiles, profilesL] using h
      · simpa [Cond.profiles] using h
  | .group neg [], _, h => by simpa [normC, isSingleton, normL] using h
  | .group neg [x], n, h => by
      have ih := profiles_norm x n
      simp only [Cond.profiles, profilesL, List.append_nil]
      apply ih
      simp only [normC, normL_single, unwrap] at h
      split at h
      · split at h
        · simpa [Cond.profiles, profilesL] using h
        · split at h
          · simpa [profiles_setNeg] using h
          · exact h
      · simpa [Cond.profiles, profilesL] using h
  | .group neg (x :: y :: r), n, h => by
      simp only [Cond.profiles]
      apply profiles_normL (x :: y :: r) n
      simpa [normC, isSingleton, Cond.profiles] using h
  | .conj subs, n, h => by
      simp only [Cond.profiles]
      apply profiles_normL subs n
      simpa [normC, Cond.profiles] using h
theorem profiles_normL : ∀ (l : List Cond) (n : String), n ∈ profilesL (normL l) → n ∈ profilesL l
  | [], _, h => by simpa [normL] using h
  | c :: r, n, h => by
      simp only [normL_cons, profilesL, List.mem_append] at h ⊢
      rcases h with h | h
      · exact Or.inl (profiles_norm c n h)
      · exact Or.inr (profiles_normL r n h)
end

theorem isConj_norm : ∀ c : Cond, Cond.isConj (normC c) = Cond.isConj c
  | .single _ _ => rfl
  | .score _ _ _ => rfl
  | .minimum _ _ _ => rfl
  | .conj _ => rfl
  | .cds neg subs => by simp only [normC]; split <;> rfl
  | .group neg [] => by simp [normC, isSingleton, Cond.isConj]
  | .group neg (x :: y :: r) => by simp [normC, isSingleton, Cond.isConj]
  | .group neg [x] => by
      have ih := isConj_norm x
      simp only [normC, normL_single, unwrap]
      split
      · split
        · rfl
        · split
          · rw [isConj_setNeg, ih]
            rename_i h _ _
            simpa [isSingleton, Cond.isConj] using h
          · rw [ih]
            rename_i h _ _
            simpa [isSingleton, Cond.isConj] using h
      · rfl

theorem positive_setNeg {a : Cond} (hc : Cond.isConj a = false) : positive (setNeg a) = false := by
  cases a <;> simp_all [setNeg, positive, Cond.isConj]

mutual
theorem positive_norm : ∀ c : Cond, positive (normC c) = positive c
  | .single _ _ => rfl
  | .score _ _ _ => rfl
  | .minimum _ _ _ => rfl
  | .cds neg subs => by
      have hl := positive_normL subs
      simp only [normC]
      split
      · simp [positive, anyPositive, hl, normL_isEmpty]
      · simp [positive, hl, normL_isEmpty]
  | .group neg [] => by simp [normC, isSingleton, normL]
  | .group neg [x] => by
      have ih := positive_norm x
      by_cases hc : Cond.isConj x = true
      · simp [normC, isSingleton, hc, positive, anyPositive, ih]
      · have hc' : Cond.isConj x = false := Bool.eq_false_iff.mpr hc
        simp only [normC, isSingleton, List.all_cons, List.all_nil, hc', Bool.and_true, Bool.not_false, Bool.true_and,
          ↓reduceIte, normL_single, unwrap]
        split
        · rename_i hd
          simp only [Bool.and_eq_true] at hd
          obtain ⟨rfl, _⟩ := hd
          simp [positive]
        · split
          · rename_i hneg
            subst hneg
            have hnc : Cond.isConj (normC x) = false := by rw [isConj_norm]; exact hc'
            simp [positive, positive_setNeg hnc]
          · rename_i hneg
            have : neg = false := by simpa using hneg
            subst this
            simp [positive, anyPositive, ih]
  | .group neg (x :: y :: r) => by
      have hl := positive_normL (x :: y :: r)
      simp only [normC, isSingleton, Bool.false_and, Bool.false_eq_true, ↓reduceIte, positive, hl, normL_isEmpty]
  | .conj subs => by
      have hl := positive_normL subs
      simp [normC, positive, hl, normL_isEmpty]
theorem positive_normL : ∀ l : List Cond, anyPositive (normL l) = anyPositive l
  | [] => rfl
  | c :: r => by simp [normL_cons, anyPositive, positive_norm c, positive_normL r]
end

theorem namesOk_norm {c : Cond} (h : NamesOk c) : NamesOk (normC c) := fun n hn => h n (profiles_norm c n hn)

/-- an operand list for which `reparse_printed` applies, meaning what `L` means -/
structure Reads (allow : Bool) (E L : List Cond) : Prop where
  ne : E ≠ []
  names : NamesOkL E
  shape : shapeOks allow E = true
  norep : noRepeats E = true
  nodup : hasDupStr (printConds E) = false
  sem : ∀ e g, semAny e g E = semAny e g L
  pos : anyPositive E = anyPositive L

theorem dropLast_append_single (l : List Char) (c : Char) : (l ++ [c]).dropLast = l := by simp

/-- the condition text of the regenerated rule is the printed list of some operands that mean the same -/
theorem topChars_reads (L : List Cond) (hne : L ≠ []) (hn : NamesOkL L) (hs : shapeOks true L = true)
    (hr : noRepeats L = true) (hd : hasDupStr (printConds L) = false) :
    ∃ E, topChars (.group false L) = printJoin orSep E ∧ Reads true E L := by
  have hself : Reads true L L := ⟨hne, hn, hs, hr, hd, fun _ _ => rfl, rfl⟩
  have hparen : ∀ (M : List Cond), (('(' :: printJoin orSep M ++ [')']).head? == some '(' &&
      ('(' :: printJoin orSep M ++ [')']).getLast? == some ')') = true := by
    intro M
    have : ('(' :: (printJoin orSep M ++ [')'])).getLast? = some ')' := by
      rw [← List.cons_append, List.getLast?_append]; simp
    simp [this]
  by_cases hcond : (isSingleton L && !(L.all Cond.isConj)) = true
  · match L, hcond, hn, hs, hr, hself with
    | [x], hcond, hn, hs, hr, hself =>
      have hc' : Cond.isConj x = false := by simpa [isSingleton] using hcond
      have hx : NamesOk x := by intro n h; exact hn n (by simp [profilesL, h])
      have hpc : printChars (.group false [x]) = printChars x := by
        simp [printChars, isSingleton, hc', notPrefix]
      by_cases hh : ((printChars x).head? == some '(') = true
      · -- the operand prints with parentheses: its normal form is a non-negated group
        obtain ⟨sx, rx⟩ := good_norm x true hx (by simpa [shapeOks] using hs) (by simpa [noRepeats] using hr)
        obtain ⟨px, tx⟩ := print_norm x hx
        have hfc := (first_chars x hx hc').2
        have hk := (keys_normC x hx).1
        obtain ⟨M, hM⟩ : ∃ M, normC x = .group false M := by
          rw [hfc] at hh
          cases ht : printTexts x with
          | nil => rw [ht] at hh; simp at hh
          | cons t ts =>
            rw [ht] at hh hk
            have : t = "(" := by simpa using hh
            subst this
            simp only [List.map_cons, tk_open] at hk
            cases hnx : normC x with
            | group neg M =>
              cases neg with
              | false => exact ⟨M, rfl⟩
              | true => rw [hnx] at hk; simp [flatC, flatNot, kOf] at hk
            | single neg n => rw [hnx] at hk; cases neg <;> simp [flatC, flatNot, kOf, kId] at hk
            | score neg n s => rw [hnx] at hk; cases neg <;> simp [flatC, flatNot, kOf] at hk
            | minimum neg n o => rw [hnx] at hk; cases neg <;> simp [flatC, flatNot, kOf] at hk
            | cds neg s => rw [hnx] at hk; cases neg <;> simp [flatC, flatNot, kOf] at hk
            | conj s =>
              have := ((keys_normC x hx).2 hc').2
              rw [hnx] at this; simp [Cond.isConj] at this
        rw [hM] at sx rx px tx
        have hnotsingle : (isSingleton M && !(M.all Cond.isConj)) = false := by
          match M, tx with
          | [], _ => rfl
          | [y], tx => simp only [tight] at tx; simp [isSingleton, tx]
          | _ :: _ :: _, _ => rfl
        have hprint : printChars x = '(' :: printJoin orSep M ++ [')'] := by
          rw [← px]; simp [printChars, hnotsingle, notPrefix]
        simp only [shapeOk, Bool.and_eq_true, Bool.not_eq_true', List.isEmpty_eq_false_iff] at sx
        simp only [noRepeat, Bool.and_eq_true, Bool.not_eq_true'] at rx
        refine ⟨M, ?_, ⟨sx.1, ?_, sx.2, rx.2, rx.1, ?_, ?_⟩⟩
        · simp only [topChars, hpc, hprint, hparen M, ↓reduceIte]
          simp
        · intro n hnm
          exact (namesOk_norm hx) n (by rw [hM]; simpa [Cond.profiles] using hnm)
        · intro e g
          have h1 := (sem_norm e g x hx (by simpa [noRepeats] using hr)).1
          rw [hM] at h1
          simp only [sem, Bool.false_xor] at h1
          simp [semAny, h1]
        · have hp := positive_norm x
          rw [hM] at hp
          have hMe : M.isEmpty = false := by cases M <;> simp_all
          simp only [positive, Bool.not_false, Bool.true_and, hMe, Bool.false_or] at hp
          simp [anyPositive, hp]
      · refine ⟨[x], ?_, hself⟩
        have hh' : ((printChars x).head? == some '(') = false := Bool.eq_false_iff.mpr hh
        simp [topChars, hpc, hh']
    | [], hcond, _, _, _, _ => simp [isSingleton] at hcond
    | _ :: _ :: _, hcond, _, _, _, _ => simp [isSingleton] at hcond
  · refine ⟨L, ?_, hself⟩
    have hcond' : (isSingleton L && !(L.all Cond.isConj)) = false := Bool.eq_false_iff.mpr hcond
    have : printChars (.group false L) = '(' :: printJoin orSep L ++ [')'] := by
      simp [printChars, hcond', notPrefix]
    simp only [topChars, this, hparen L, ↓reduceIte]
    simp

end ASV.Reprint
