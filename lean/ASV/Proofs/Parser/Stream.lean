/-
  C02, completeness direction: the parser on an alias-free state is a function of the remaining
  token stream; primitive steps on such states.
-/
import ASV.Proofs.Parser.Flat
namespace ASV.Parser
open ASV ASV.Rules ASV.Grammar

/-- the parser state with no aliases whose remaining input is `toks` -/
def ofStream (toks : List Tok) (consumed : List Tok) (rules : List Rule) : PS :=
  match toks with
  | [] => { cur := none, rest := [], aliases := [], rules := rules, consumed := consumed }
  | t :: r => { cur := some t, rest := r, aliases := [], rules := rules, consumed := consumed }

@[simp] theorem ofStream_cur_cons (t : Tok) (k c : List Tok) (r : List Rule) :
    (ofStream (t :: k) c r).cur = some t := rfl
@[simp] theorem ofStream_cur_nil (c : List Tok) (r : List Rule) : (ofStream [] c r).cur = none := rfl

/-- type of the next token, if any -/
def headType (k : List Tok) : Option TT := k.head?.map (·.type)

@[simp] theorem headType_cons (t : Tok) (k : List Tok) : headType (t :: k) = some t.type := rfl
@[simp] theorem headType_nil : headType [] = none := rfl

theorem curIs_ofStream (k c : List Tok) (r : List Rule) (x : TT) :
    (ofStream k c r).curIs x = (headType k == some x) := by
  cases k with
  | nil => simp [ofStream, PS.curIs]
  | cons t ts => simp [ofStream, PS.curIs]

theorem advance_ofStream (t : Tok) (k c : List Tok) (r : List Rule) :
    PS.advance { cur := some t, rest := k, aliases := [], rules := r, consumed := c } = .ok (ofStream k c r) := by
  cases k with
  | nil => simp [PS.advance, ofStream]
  | cons n ns =>
    by_cases h : n.type = .identifier <;> simp [PS.advance, ofStream, h, List.lookup]

theorem consume_ofStream {t : Tok} {k c : List Tok} {r : List Rule} {exp : TT} (h : t.type = exp) :
    consume exp (ofStream (t :: k) c r) = .ok (t, ofStream k (t :: c) r) := by
  simp only [consume, ofStream, h, bne_self_eq_false, Bool.false_eq_true, ↓reduceIte]
  rw [advance_ofStream]
  rfl

theorem key_type {t : Tok} {k : Key} (h : t.key = k) : t.type = k.type := by
  subst h; rfl

theorem key_kOf {t : Tok} {x : TT} (h : t.key = kOf x) : t.type = x := key_type h

theorem key_kId {t : Tok} {n : String} (h : t.key = kId n) : t.type = .identifier ∧ t.text = n := by
  have ht : t.type = .identifier := key_type h
  have := congrArg Key.text h
  simp [Tok.key, kId, ht] at this
  exact ⟨ht, this⟩

theorem key_kInt {t : Tok} {v : Nat} (h : t.key = kInt v) : t.type = .int ∧ digitsVal t.text.toList = v := by
  have ht : t.type = .int := key_type h
  have := congrArg Key.val h
  simp [Tok.key, kInt, ht] at this
  exact ⟨ht, this⟩

theorem consumeKw_ofStream {t : Tok} {k c : List Tok} {r : List Rule} {x : TT} (h : t.key = kOf x) :
    consume x (ofStream (t :: k) c r) = .ok (t, ofStream k (t :: c) r) := consume_ofStream (key_kOf h)

theorem consumeId_ofStream {t : Tok} {k c : List Tok} {r : List Rule} {n : String} (h : t.key = kId n) :
    consumeId (ofStream (t :: k) c r) = .ok (n, ofStream k (t :: c) r) := by
  obtain ⟨ht, hn⟩ := key_kId h
  simp [consumeId, consume_ofStream ht, bind, Except.bind, hn, pure, Except.pure]

theorem consumeInt_ofStream {t : Tok} {k c : List Tok} {r : List Rule} {v : Nat} (h : t.key = kInt v) :
    consumeInt (ofStream (t :: k) c r) = .ok (v, ofStream k (t :: c) r) := by
  obtain ⟨ht, hv⟩ := key_kInt h
  simp [consumeInt, consume_ofStream ht, bind, Except.bind, hv, pure, Except.pure]

/-- `[not]` -/
theorem isNot_ofStream {neg : Bool} {wn k c : List Tok} {r : List Rule} (hw : wn.map Tok.key = flatNot neg)
    (hk : neg = false → headType k ≠ some .notOp) :
    isNot (ofStream (wn ++ k) c r) = .ok (neg, ofStream k (wn.reverse ++ c) r) := by
  cases neg with
  | false =>
    simp [flatNot] at hw; subst hw
    have := hk rfl
    simp [isNot, curIs_ofStream, this]
  | true =>
    simp only [flatNot, ↓reduceIte] at hw
    obtain ⟨t, w', rfl, ht, hw'⟩ := List.map_eq_cons_iff.mp hw
    simp at hw'; subst hw'
    simp [isNot, curIs_ofStream, key_kOf ht, consumeKw_ofStream ht, bind, Except.bind, pure, Except.pure]

/-! ### identifier lists, `minimum`, `minscore` -/

theorem idsLoop_ofStream (more : List String) : ∀ (fuel : Nat) (acc : List String) (w k c : List Tok) (r : List Rule),
    w.map Tok.key = idsTail more → headType k ≠ some .comma → more.length < fuel →
    idsLoop fuel acc (ofStream (w ++ k) c r) = .ok (acc ++ more, ofStream k (w.reverse ++ c) r) := by
  induction more with
  | nil =>
    intro fuel acc w k c r hw hk hf
    simp [idsTail] at hw; subst hw
    obtain ⟨f, rfl⟩ : ∃ f, fuel = f + 1 := ⟨fuel - 1, by simp at hf; omega⟩
    simp [idsLoop, curIs_ofStream, hk]
  | cons m ms ih =>
    intro fuel acc w k c r hw hk hf
    obtain ⟨f, rfl⟩ : ∃ f, fuel = f + 1 := ⟨fuel - 1, by simp at hf; omega⟩
    simp only [idsTail, List.flatMap_cons, List.cons_append, List.nil_append] at hw
    obtain ⟨t1, w1, rfl, h1, hw⟩ := List.map_eq_cons_iff.mp hw
    obtain ⟨t2, w2, rfl, h2, hw⟩ := List.map_eq_cons_iff.mp hw
    have := ih f (acc ++ [m]) w2 k (t2 :: t1 :: c) r hw hk (by simp at hf; omega)
    simp [idsLoop, curIs_ofStream, key_kOf h1, consumeKw_ofStream h1, consumeId_ofStream h2, bind, Except.bind, this]

theorem parseIds_ofStream {ids : List String} (ne : ids ≠ []) {fuel : Nat} {w k c : List Tok} {r : List Rule}
    (hw : w.map Tok.key = flatIds ids) (hk : headType k ≠ some .comma) (hf : ids.length ≤ fuel) :
    parseIds fuel (ofStream (w ++ k) c r) = .ok (ids, ofStream k (w.reverse ++ c) r) := by
  cases ids with
  | nil => exact absurd rfl ne
  | cons a more =>
    rw [flatIds_cons] at hw
    obtain ⟨t1, w1, rfl, h1, hw⟩ := List.map_eq_cons_iff.mp hw
    have := idsLoop_ofStream more fuel [a] w1 k (t1 :: c) r hw hk (by simp at hf; omega)
    simp [parseIds, consumeId_ofStream h1, bind, Except.bind, this]

theorem parseMinimum_ofStream {neg : Bool} {count : Nat} {opts : List String} (ne : opts ≠ [])
    (nd : hasDupStr opts = false) (pos : 1 ≤ count) {fuel : Nat} {w k c : List Tok} {r : List Rule}
    (hw : w.map Tok.key = [kOf .minimum, kOf .groupOpen, kInt count, kOf .comma, kOf .listOpen] ++ flatIds opts
        ++ [kOf .listClose, kOf .groupClose]) (hf : opts.length ≤ fuel) :
    parseMinimum fuel neg (ofStream (w ++ k) c r) =
      .ok (.minimum neg count opts, ofStream k (w.reverse ++ c) r) := by
  simp only [List.cons_append, List.nil_append] at hw
  obtain ⟨t1, w1, rfl, h1, hw⟩ := List.map_eq_cons_iff.mp hw
  obtain ⟨t2, w2, rfl, h2, hw⟩ := List.map_eq_cons_iff.mp hw
  obtain ⟨t3, w3, rfl, h3, hw⟩ := List.map_eq_cons_iff.mp hw
  obtain ⟨t4, w4, rfl, h4, hw⟩ := List.map_eq_cons_iff.mp hw
  obtain ⟨t5, w5, rfl, h5, hw⟩ := List.map_eq_cons_iff.mp hw
  obtain ⟨wi, we, rfl, hi, he⟩ := List.map_eq_append_iff.mp hw
  obtain ⟨t6, w6, rfl, h6, he⟩ := List.map_eq_cons_iff.mp he
  obtain ⟨t7, w7, rfl, h7, he⟩ := List.map_eq_cons_iff.mp he
  simp at he; subst he
  have hids := parseIds_ofStream (fuel := fuel) ne (w := wi) (k := t6 :: t7 :: k) (c := t5 :: t4 :: t3 :: t2 :: t1 :: c) (r := r)
    hi (by simp [key_kOf h6]) hf
  have hmk : mkMinimum neg count opts = .ok (.minimum neg count opts) := by
    simp [mkMinimum, nd]; omega
  simp only [parseMinimum, parseList, List.cons_append, List.nil_append, List.append_assoc, consumeKw_ofStream h1, consumeKw_ofStream h2,
    consumeInt_ofStream h3, consumeKw_ofStream h4, consumeKw_ofStream h5, bind, Except.bind]
  rw [hids]
  simp [consumeKw_ofStream h6, consumeKw_ofStream h7, hmk, pure, Except.pure]

theorem parseScore_ofStream {neg : Bool} {n : String} {v : Nat} {w k c : List Tok} {r : List Rule}
    (hw : w.map Tok.key = [kOf .score, kOf .groupOpen, kId n, kOf .comma, kInt v, kOf .groupClose]) :
    parseScore neg (ofStream (w ++ k) c r) = .ok (.score neg n (Int.ofNat v), ofStream k (w.reverse ++ c) r) := by
  obtain ⟨t1, w1, rfl, h1, hw⟩ := List.map_eq_cons_iff.mp hw
  obtain ⟨t2, w2, rfl, h2, hw⟩ := List.map_eq_cons_iff.mp hw
  obtain ⟨t3, w3, rfl, h3, hw⟩ := List.map_eq_cons_iff.mp hw
  obtain ⟨t4, w4, rfl, h4, hw⟩ := List.map_eq_cons_iff.mp hw
  obtain ⟨t5, w5, rfl, h5, hw⟩ := List.map_eq_cons_iff.mp hw
  obtain ⟨t6, w6, rfl, h6, hw⟩ := List.map_eq_cons_iff.mp hw
  simp at hw; subst hw
  simp [parseScore, consumeKw_ofStream h1, consumeKw_ofStream h2, consumeId_ofStream h3, consumeKw_ofStream h4,
    consumeInt_ofStream h5, consumeKw_ofStream h6, bind, Except.bind, pure, Except.pure]

end ASV.Parser
