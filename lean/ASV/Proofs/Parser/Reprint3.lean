/-
  C02 thm 7, part 3: the printed condition as layout items (written tokens with the filler before
  each): generic lemmas.
-/
import ASV.Proofs.Parser.Reprint2
import ASV.Proofs.Parser.Tokeniser
namespace ASV.Reprint
open ASV ASV.Rules ASV.Parser ASV.Grammar ASV.Layout

abbrev Item := List Filler × Word

def sp : List Filler := [.ws ' ']

/-- a multi-character word with the given text -/
def W (t : String) : Word :=
  match t.toList with
  | [] => .sym ' '
  | f :: m => .word f m

def S (c : Char) : Word := .sym c

/-- set the filler before the first item -/
def lead (g : List Filler) : List Item → List Item
  | [] => []
  | (_, w) :: r => (g, w) :: r

def texts (I : List Item) : List String := I.map (·.2.text)

def firstEmpty (I : List Item) : Prop := ∃ w r, I = ([], w) :: r

theorem render_append (A B : List Item) : render (A ++ B) = render A ++ render B := by
  induction A with
  | nil => rfl
  | cons it r ih => obtain ⟨g, w⟩ := it; simp [render, ih]

theorem render_lead {I : List Item} (h : firstEmpty I) (g : List Filler) :
    render (lead g I) = gapChars g ++ render I := by
  obtain ⟨w, r, rfl⟩ := h
  simp [lead, render, gapChars]

theorem render_lead_sp {I : List Item} (h : firstEmpty I) : render (lead sp I) = ' ' :: render I := by
  rw [render_lead h]; simp [sp, gapChars, Filler.chars]

theorem texts_lead (g : List Filler) (I : List Item) : texts (lead g I) = texts I := by
  cases I with
  | nil => rfl
  | cons it r => obtain ⟨_, w⟩ := it; rfl

theorem texts_append (A B : List Item) : texts (A ++ B) = texts A ++ texts B := by simp [texts]

theorem W_word {t : String} {f : Char} {m : List Char} (h : t.toList = f :: m) : W t = .word f m := by
  simp [W, h]

theorem W_chars {t : String} (h : t.toList ≠ []) : (W t).chars = t.toList := by
  cases ht : t.toList with
  | nil => exact absurd ht h
  | cons f m => simp [W_word ht, Word.chars]

theorem W_text {t : String} (h : t.toList ≠ []) : (W t).text = t := by
  cases ht : t.toList with
  | nil => exact absurd ht h
  | cons f m =>
    rw [W_word ht, Word.text, ← ht]
    exact String.toList_inj.mp (by simp)

theorem W_isWord {t : String} (h : t.toList ≠ []) : (W t).isWord = true := by
  cases ht : t.toList with
  | nil => exact absurd ht h
  | cons f m => simp [W_word ht, Word.isWord]

theorem W_ok {t : String} (h : t.toList ≠ []) (hc : ∀ c ∈ t.toList, symChar c = true) : (W t).ok = true := by
  cases ht : t.toList with
  | nil => exact absurd ht h
  | cons f m =>
    rw [ht] at hc
    simp only [W_word ht, Word.ok, Bool.and_eq_true, List.all_eq_true]
    exact ⟨hc f (by simp), fun c hcm => by simp [contChar, hc c (by simp [hcm])]⟩

theorem symChar_of_idChar {c : Char} (h : isIdChar c = true) : symChar c = true := by
  simp only [isIdChar, Bool.or_eq_true] at h
  simp only [symChar, Char.isAlphanum, Bool.or_eq_true]
  rcases h with ((h | h) | h) | h
  · exact Or.inl (Or.inl (Or.inl h))
  · exact Or.inl (Or.inl (Or.inr h))
  · exact Or.inr h
  · exact Or.inl (Or.inr h)

theorem W_name {n : String} (h : classify n = .identifier) :
    n.toList ≠ [] ∧ (W n).ok = true ∧ (W n).isWord = true ∧ (W n).chars = n.toList ∧ (W n).text = n := by
  obtain ⟨hne, hall⟩ := name_chars h
  exact ⟨hne, W_ok hne (fun c hc => symChar_of_idChar (hall c hc)), W_isWord hne, W_chars hne, W_text hne⟩

theorem digits_ne (v : Nat) : (toString v).toList ≠ [] := by
  have : (toString v).toList = Nat.toDigits 10 v := Nat.toList_repr
  rw [this]; exact toDigits_ne_nil v

theorem W_digits (v : Nat) :
    (W (toString v)).ok = true ∧ (W (toString v)).isWord = true ∧ (W (toString v)).chars = (toString v).toList ∧
      (W (toString v)).text = toString v := by
  have hne := digits_ne v
  refine ⟨W_ok hne ?_, W_isWord hne, W_chars hne, W_text hne⟩
  intro c hc
  have hl : (toString v).toList = Nat.toDigits 10 v := Nat.toList_repr
  rw [hl] at hc
  have := Nat.isDigit_of_mem_toDigits (by decide) (by decide) hc
  simp [symChar, Char.isAlphanum, this]

/-! ### well-spaced item lists -/

def itemOk (it : Item) : Bool := it.1.all Filler.ok && it.2.ok

/-- the first item may follow a word: it has filler before it or is a symbol -/
def fs : List Item → Bool
  | [] => true
  | (g, w) :: _ => !g.isEmpty || !w.isWord

def chain : List Item → Bool
  | [] => true
  | (g, w) :: r => itemOk (g, w) && (!w.isWord || fs r) && chain r

def lastWord : List Item → Bool
  | [] => false
  | [it] => it.2.isWord
  | _ :: r => lastWord r

theorem okSeq_of_chain : ∀ (I : List Item) (p : Bool), chain I = true → (p = false ∨ fs I = true) → okSeq p I = true := by
  intro I
  induction I with
  | nil => intro p _ _; rfl
  | cons it r ih =>
    intro p hc hp
    obtain ⟨g, w⟩ := it
    simp only [chain, itemOk, Bool.and_eq_true, Bool.or_eq_true, Bool.not_eq_true'] at hc
    obtain ⟨⟨⟨hg, hw⟩, hnext⟩, hr⟩ := hc
    simp only [okSeq, Bool.and_eq_true, Bool.not_eq_true', Bool.and_eq_false_iff]
    refine ⟨⟨⟨hg, hw⟩, ?_⟩, ih _ hr ?_⟩
    · rcases hp with hp | hp
      · exact Or.inl (Or.inl hp)
      · simp only [fs, Bool.or_eq_true, Bool.not_eq_true'] at hp
        rcases hp with hp | hp
        · exact Or.inr hp
        · exact Or.inl (Or.inr hp)
    · rcases hnext with h | h
      · exact Or.inl h
      · exact Or.inr h

theorem fs_append (A B : List Item) (hA : A ≠ []) : fs (A ++ B) = fs A := by
  cases A with
  | nil => exact absurd rfl hA
  | cons it r => rfl

theorem chain_append : ∀ (A B : List Item), chain A = true → chain B = true →
    (lastWord A = false ∨ fs B = true) → chain (A ++ B) = true := by
  intro A
  induction A with
  | nil => intro B _ hB _; exact hB
  | cons it r ih =>
    intro B hA hB hb
    obtain ⟨g, w⟩ := it
    simp only [chain, Bool.and_eq_true, Bool.or_eq_true, Bool.not_eq_true'] at hA
    obtain ⟨⟨hi, hn⟩, hr⟩ := hA
    simp only [List.cons_append, chain, Bool.and_eq_true, Bool.or_eq_true, Bool.not_eq_true']
    cases r with
    | nil =>
      refine ⟨⟨hi, ?_⟩, by simpa using hB⟩
      simp only [List.nil_append]
      rcases hb with hb | hb
      · exact Or.inl (by simpa [lastWord] using hb)
      · exact Or.inr hb
    | cons it2 r2 =>
      refine ⟨⟨hi, ?_⟩, ih B hr hB (by simpa [lastWord] using hb)⟩
      rw [fs_append _ _ (by simp)]
      exact hn

theorem chain_lead {I : List Item} (h : chain I = true) : chain (lead sp I) = true := by
  cases I with
  | nil => rfl
  | cons it r =>
    obtain ⟨g, w⟩ := it
    simp only [chain, itemOk, Bool.and_eq_true] at h
    simp only [lead, chain, itemOk, sp, Bool.and_eq_true]
    exact ⟨⟨⟨by simp [Filler.ok, isWs], h.1.1.2⟩, h.1.2⟩, h.2⟩

theorem fs_lead {I : List Item} : fs (lead sp I) = true := by
  cases I with
  | nil => rfl
  | cons it r => obtain ⟨g, w⟩ := it; simp [lead, fs, sp]

theorem firstEmpty_lead_ne {I : List Item} (h : firstEmpty I) : lead sp I ≠ [] := by
  obtain ⟨w, r, rfl⟩ := h; simp [lead]

end ASV.Reprint
