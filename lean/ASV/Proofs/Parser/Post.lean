/-
  C02: what a *successful* run of the condition parser guarantees (soundness direction):
  the tokens it consumed are exactly the flattening of the condition objects it returns, those
  objects have the documented shape, and no object holds a repeated operand.
  One induction on the fuel over the seven mutually recursive functions.
-/
import ASV.Proofs.Parser.Basic
namespace ASV.Parser
open ASV ASV.Rules ASV.Grammar

/-- `op c₁ op c₂ …` -/
def joinTail (op : TT) (cs : List Cond) : List Key := cs.flatMap fun x => kOf op :: flatC x

theorem flatJoin_cons (op : TT) (c : Cond) (cs : List Cond) :
    flatJoin op (c :: cs) = flatC c ++ joinTail op cs := by
  induction cs generalizing c with
  | nil => simp [flatJoin, joinTail]
  | cons d ds ih =>
    have : flatJoin op (c :: d :: ds) = flatC c ++ kOf op :: flatJoin op (d :: ds) := by
      rw [flatJoin]; simp
    rw [this, ih d]; simp [joinTail]

theorem joinTail_eq (op : TT) {X : List Cond} (ne : X ≠ []) : joinTail op X = kOf op :: flatJoin op X := by
  cases X with
  | nil => exact absurd rfl ne
  | cons x xs => rw [flatJoin_cons]; simp [joinTail]

theorem joinTail_append (op : TT) (a b : List Cond) : joinTail op (a ++ b) = joinTail op a ++ joinTail op b := by
  simp [joinTail]

theorem noRepeats_append (a b : List Cond) : noRepeats (a ++ b) = (noRepeats a && noRepeats b) := by
  induction a with
  | nil => simp [noRepeats]
  | cons c cs ih => simp [noRepeats, ih, Bool.and_assoc]

theorem shapeOks_append (al : Bool) (a b : List Cond) :
    shapeOks al (a ++ b) = (shapeOks al a && shapeOks al b) := by
  induction a with
  | nil => simp [shapeOks]
  | cons c cs ih => simp [shapeOks, ih, Bool.and_assoc]

theorem checkOperands_ok {subs : List Cond} (h : checkOperands subs = .ok ()) :
    hasDupStr (printConds subs) = false := by
  unfold checkOperands at h
  split at h
  · cases h
  · rename_i h1; simpa using h1

theorem mkGroup_ok {neg : Bool} {subs : List Cond} {g : Cond} (h : mkGroup neg subs = .ok g) :
    g = .group neg subs ∧ hasDupStr (printConds subs) = false := by
  unfold mkGroup at h
  simp only [bind_ok] at h
  obtain ⟨_, h1, h⟩ := h
  cases h
  exact ⟨rfl, checkOperands_ok h1⟩

theorem mkCds_ok {neg : Bool} {subs : List Cond} {g : Cond} (h : mkCds neg subs = .ok g) :
    g = .cds neg subs ∧ hasDupStr (printConds subs) = false := by
  unfold mkCds at h
  simp only [bind_ok] at h
  obtain ⟨_, h1, h⟩ := h
  cases h
  exact ⟨rfl, checkOperands_ok h1⟩

theorem mkConj_ok {subs : List Cond} {g : Cond} (h : mkConj subs = .ok g) :
    g = .conj subs ∧ hasDupStr (printConds subs) = false := by
  unfold mkConj at h
  simp only [bind_ok] at h
  obtain ⟨_, h1, h⟩ := h
  cases h
  exact ⟨rfl, checkOperands_ok h1⟩

/-- what is known about one returned operand -/
structure Good (allow : Bool) (c : Cond) : Prop where
  shape : shapeOk allow c = true
  norep : noRepeat c = true

structure Goods (allow : Bool) (cs : List Cond) : Prop where
  shape : shapeOks allow cs = true
  norep : noRepeats cs = true

theorem Goods.nil (al : Bool) : Goods al [] := ⟨by simp [shapeOks], by simp [noRepeats]⟩

theorem Goods.append {al : Bool} {a b : List Cond} (ha : Goods al a) (hb : Goods al b) : Goods al (a ++ b) :=
  ⟨by simp [shapeOks_append, ha.shape, hb.shape], by simp [noRepeats_append, ha.norep, hb.norep]⟩

theorem Goods.single {al : Bool} {c : Cond} (h : Good al c) : Goods al [c] :=
  ⟨by simp [shapeOks, h.shape], by simp [noRepeats, h.norep]⟩

theorem Goods.cons {al : Bool} {c : Cond} {cs : List Cond} (h : Good al c) (hs : Goods al cs) : Goods al (c :: cs) :=
  ⟨by simp [shapeOks, h.shape, hs.shape], by simp [noRepeats, h.norep, hs.norep]⟩

def PostSingle (allow : Bool) (s : PS) (c : Cond) (s' : PS) : Prop :=
  ∃ new, Adv s s' new ∧ ks new = flatC c ∧ Good allow c ∧ c.isAtomish = true

def PostGroup (allow : Bool) (s : PS) (cs : List Cond) (s' : PS) : Prop :=
  ∃ new, Adv s s' new ∧ ks new = kOf .groupOpen :: flatJoin .orOp cs ++ [kOf .groupClose] ∧
    Goods allow cs ∧ cs ≠ []

def PostCds (s : PS) (cs : List Cond) (s' : PS) : Prop :=
  ∃ new, Adv s s' new ∧ ks new = kOf .cds :: kOf .groupOpen :: flatJoin .orOp cs ++ [kOf .groupClose] ∧
    Goods false cs ∧ cs ≠ [] ∧ loneIdentifier cs = false

def PostConditions (allow isGroup : Bool) (s : PS) (cs : List Cond) (s' : PS) : Prop :=
  ∃ new, Adv s s' new ∧ ks new = flatJoin .orOp cs ∧ Goods allow cs ∧ cs ≠ [] ∧ endCheck isGroup s' = .ok ()

/-- `pending`: `lv` has been read but is not yet among `acc`; the loop returns `acc ++ X` -/
def PostLoop (allow : Bool) (acc : List Cond) (lv : Cond) (pending : Bool) (s : PS) (cs : List Cond) (s' : PS) : Prop :=
  ∃ new X, cs = acc ++ X ∧ Adv s s' new ∧
    (Good allow lv → lv.isAtomish = true → Goods allow X) ∧
    (pending = true → X ≠ [] ∧ flatC lv ++ ks new = flatJoin .orOp X) ∧
    (pending = false → ks new = joinTail .orOp X)

def PostAnds (allow : Bool) (lv : Cond) (s : PS) (c : Cond) (s' : PS) : Prop :=
  ∃ new more, c = .conj (lv :: more) ∧ more ≠ [] ∧ Adv s s' new ∧ ks new = joinTail .andOp more ∧
    (Good allow lv → lv.isAtomish = true → Good allow c) ∧ s'.curIs .andOp = false

def PostAndLoop (allow : Bool) (acc : List Cond) (s : PS) (subs : List Cond) (s' : PS) : Prop :=
  ∃ new more, subs = acc ++ more ∧ Adv s s' new ∧ ks new = joinTail .andOp more ∧
    Goods allow more ∧ more.all Cond.isAtomish = true ∧ s'.curIs .andOp = false

structure BlockPost (fuel : Nat) : Prop where
  single : ∀ allow s c s', parseSingle fuel allow s = .ok (c, s') → PostSingle allow s c s'
  group : ∀ allow s cs s', parseGroup fuel allow s = .ok (cs, s') → PostGroup allow s cs s'
  cds : ∀ s cs s', parseCds fuel s = .ok (cs, s') → PostCds s cs s'
  conds : ∀ allow isGroup s cs s', parseConditions fuel allow isGroup s = .ok (cs, s') →
    PostConditions allow isGroup s cs s'
  loop : ∀ allow acc lv pending s cs s', (pending = false → s.curIs .andOp = false) →
    condLoop fuel allow acc lv pending s = .ok (cs, s') → PostLoop allow acc lv pending s cs s'
  ands : ∀ allow lv s c s', parseAnds fuel lv allow s = .ok (c, s') → PostAnds allow lv s c s'
  andLoop : ∀ allow acc s subs s', andLoop fuel allow acc s = .ok (subs, s') → PostAndLoop allow acc s subs s'

theorem blockPost (fuel : Nat) : BlockPost fuel := by
  induction fuel with
  | zero =>
    constructor <;> intros <;> simp_all [parseSingle, parseGroup, parseCds, parseConditions, condLoop, parseAnds, andLoop]
  | succ n ih =>
    constructor
    · -- parseSingle
      intro allow s c s' h
      rw [parseSingle] at h
      simp only [bind_ok, Prod.exists] at h
      obtain ⟨neg, s1, h1, h⟩ := h
      obtain ⟨new1, a1, k1⟩ := isNot_post h1
      split at h
      · cases h
      · rename_i c0 hc0
        split at h
        · -- group
          simp only [bind_ok, Prod.exists] at h
          obtain ⟨subs, s2, h2, g, h3, h⟩ := h
          cases h
          obtain ⟨new2, a2, k2, gs, ne⟩ := ih.group _ _ _ _ h2
          obtain ⟨rfl, nd⟩ := mkGroup_ok h3
          refine ⟨new2 ++ new1, a1.trans a2, ?_, ⟨?_, ?_⟩, rfl⟩
          · simp [ks_append, k1, k2, flatC]
          · simp [shapeOk, gs.shape]; exact ne
          · simp [noRepeat, nd, gs.norep]
        · split at h
          · -- minimum
            rename_i hmin
            obtain ⟨new2, count, opts, rfl, a2, k2, ne, nd, pos⟩ := parseMinimum_post h
            refine ⟨new2 ++ new1, a1.trans a2, ?_, ⟨?_, ?_⟩, rfl⟩
            · simp [ks_append, k1, k2, flatC]
            · simp at hmin; simp [shapeOk, hmin.1]; exact ne
            · simp [noRepeat, nd, pos]
          · split at h
            · -- cds
              rename_i hcds
              simp only [bind_ok, Prod.exists] at h
              obtain ⟨subs, s2, h2, g, h3, h⟩ := h
              cases h
              obtain ⟨new2, a2, k2, gs, ne, lone⟩ := ih.cds _ _ _ h2
              obtain ⟨rfl, nd⟩ := mkCds_ok h3
              refine ⟨new2 ++ new1, a1.trans a2, ?_, ⟨?_, ?_⟩, rfl⟩
              · simp [ks_append, k1, k2, flatC]
              · simp at hcds; simp [shapeOk, hcds.1, gs.shape, lone]; exact ne
              · simp [noRepeat, nd, gs.norep]
            · split at h
              · -- minscore
                obtain ⟨new2, nm, v, rfl, a2, k2⟩ := parseScore_post h
                refine ⟨new2 ++ new1, a1.trans a2, ?_, ⟨?_, ?_⟩, rfl⟩
                · simp [ks_append, k1, k2, flatC]
                · simp [shapeOk]
                · simp [noRepeat]
              · -- identifier
                simp only [bind_ok, Prod.exists] at h
                obtain ⟨nm, s2, h2, h⟩ := h
                cases h
                obtain ⟨c2, a2, k2, _⟩ := consumeId_post h2
                refine ⟨[c2] ++ new1, a1.trans a2, ?_, ⟨?_, ?_⟩, rfl⟩
                · simp [k1, k2, flatC]
                · simp [shapeOk]
                · simp [noRepeat]
    · -- parseGroup
      intro allow s cs s' h
      rw [parseGroup] at h
      simp only [bind_ok, Prod.exists] at h
      obtain ⟨c1, s1, h1, subs, s2, h2, c3, s3, h3, h⟩ := h
      cases h
      obtain ⟨a1, t1, _⟩ := consume_post h1
      obtain ⟨new2, a2, k2, gs, ne, _⟩ := ih.conds _ _ _ _ _ h2
      obtain ⟨a3, t3, _⟩ := consume_post h3
      refine ⟨[c3] ++ (new2 ++ [c1]), (a1.trans a2).trans a3, ?_, gs, ne⟩
      simp [ks_append, k2, key_of_type t1, key_of_type t3]
    · -- parseCds
      intro s cs s' h
      rw [parseCds] at h
      simp only [bind_ok, Prod.exists] at h
      obtain ⟨c1, s1, h1, c2, s2, h2, subs, s3, h3, h⟩ := h
      split at h
      · cases h
      · rename_i lone
        simp only [bind_ok, Prod.exists] at h
        obtain ⟨c4, s4, h4, h⟩ := h
        cases h
        obtain ⟨a1, t1, _⟩ := consume_post h1
        obtain ⟨a2, t2, _⟩ := consume_post h2
        obtain ⟨new3, a3, k3, gs, ne, _⟩ := ih.conds _ _ _ _ _ h3
        obtain ⟨a4, t4, _⟩ := consume_post h4
        refine ⟨[c4] ++ (new3 ++ ([c2] ++ [c1])), ((a1.trans a2).trans a3).trans a4, ?_, gs, ne, by simpa using lone⟩
        simp [ks_append, k3, key_of_type t1, key_of_type t2, key_of_type t4]
    · -- parseConditions
      intro allow isGroup s cs s' h
      rw [parseConditions] at h
      split at h
      · cases h
      · simp only [bind_ok, Prod.exists] at h
        obtain ⟨lv, s1, h1, conds, s2, h2, u, h3, h⟩ := h
        cases h
        obtain ⟨new1, a1, k1, g1, at1⟩ := ih.single _ _ _ _ h1
        obtain ⟨new2, X, rfl, a2, gX, hp, _⟩ := ih.loop _ _ _ _ _ _ _ (by simp) h2
        obtain ⟨ne, kX⟩ := hp rfl
        refine ⟨new2 ++ new1, a1.trans a2, ?_, ?_, by simpa using ne, by cases u; exact h3⟩
        · simp [ks_append, k1, kX]
        · simpa using gX g1 at1
    · -- condLoop
      intro allow acc lv pending s cs s' hpre h
      rw [condLoop] at h
      split at h
      · -- and
        rename_i hand
        simp only [bind_ok, Prod.exists] at h
        obtain ⟨c, s1, h1, h⟩ := h
        obtain ⟨new1, more, rfl, mne, a1, k1, g1, noand⟩ := ih.ands _ _ _ _ _ h1
        obtain ⟨new2, X, rfl, a2, gX, _, hf⟩ := ih.loop _ _ _ _ _ _ _ (fun _ => noand) h
        have kX := hf rfl
        cases pending with
        | false => exact absurd hand (by simp [hpre rfl])
        | true =>
          refine ⟨new2 ++ new1, .conj (lv :: more) :: X, by simp, a1.trans a2, ?_, ?_, by simp⟩
          · intro g at1
            exact Goods.cons (g1 g at1) (gX g at1)
          · intro _
            refine ⟨by simp, ?_⟩
            simp [ks_append, k1, kX, flatJoin_cons, flatC]
      · split at h
        · -- or
          simp only [bind_ok, Prod.exists] at h
          obtain ⟨c1, s1, h1, lv', s2, h2, h⟩ := h
          obtain ⟨a1, t1, _⟩ := consume_post h1
          obtain ⟨new2, a2, k2, g2, at2⟩ := ih.single _ _ _ _ h2
          obtain ⟨new3, X, hcs, a3, gX, hp, _⟩ := ih.loop _ _ _ _ _ _ _ (by simp) h
          obtain ⟨ne, kX⟩ := hp rfl
          have gX' := gX g2 at2
          cases pending with
          | true =>
            refine ⟨new3 ++ (new2 ++ [c1]), lv :: X, by simp [hcs], (a1.trans a2).trans a3, ?_, ?_, by simp⟩
            · intro g _
              exact Goods.cons g gX'
            · intro _
              refine ⟨by simp, ?_⟩
              simp [ks_append, k2, key_of_type t1, flatJoin_cons, joinTail_eq _ ne, ← kX]
          | false =>
            refine ⟨new3 ++ (new2 ++ [c1]), X, by simpa using hcs, (a1.trans a2).trans a3, fun _ _ => gX', by simp, ?_⟩
            intro _
            simp [ks_append, k2, key_of_type t1, joinTail_eq _ ne, ← kX]
        · -- neither
          cases h
          cases pending with
          | true =>
            refine ⟨[], [lv], rfl, Adv.refl _, fun g _ => Goods.single g, fun _ => ⟨by simp, by simp [flatJoin]⟩, by simp⟩
          | false =>
            refine ⟨[], [], by simp, Adv.refl _, fun _ _ => Goods.nil _, by simp, fun _ => by simp [joinTail]⟩
    · -- parseAnds
      intro allow lv s c s' h
      rw [parseAnds] at h
      simp only [bind_ok, Prod.exists] at h
      obtain ⟨c1, s1, h1, c2, s2, h2, subs, s3, h3, g, h4, h⟩ := h
      cases h
      obtain ⟨a1, t1, _⟩ := consume_post h1
      obtain ⟨new2, a2, k2, g2, at2⟩ := ih.single _ _ _ _ h2
      obtain ⟨new3, more, rfl, a3, k3, gm, atm, noand⟩ := ih.andLoop _ _ _ _ _ h3
      obtain ⟨rfl, nd⟩ := mkConj_ok h4
      refine ⟨new3 ++ (new2 ++ [c1]), c2 :: more, by simp, by simp, (a1.trans a2).trans a3, ?_, ?_, noand⟩
      · simp [ks_append, k2, k3, key_of_type t1, joinTail]
      · intro g at1
        have gs : Goods allow (lv :: c2 :: more) := Goods.cons g (Goods.cons g2 gm)
        refine ⟨?_, ?_⟩
        · simp [shapeOk, at1, at2, atm, gs.shape]
        · have := gs.norep
          simp [noRepeat, this]
          simpa using nd
    · -- andLoop
      intro allow acc s subs s' h
      rw [andLoop] at h
      split at h
      · simp only [bind_ok, Prod.exists] at h
        obtain ⟨c1, s1, h1, c2, s2, h2, h⟩ := h
        obtain ⟨a1, t1, _⟩ := consume_post h1
        obtain ⟨new2, a2, k2, g2, at2⟩ := ih.single _ _ _ _ h2
        obtain ⟨new3, more, rfl, a3, k3, gm, atm, noand⟩ := ih.andLoop _ _ _ _ _ h
        refine ⟨new3 ++ (new2 ++ [c1]), c2 :: more, by simp, (a1.trans a2).trans a3, ?_, Goods.cons g2 gm, ?_, noand⟩
        · simp [ks_append, k2, k3, key_of_type t1, joinTail]
        · simp [at2]; simpa using atm
      · rename_i hno
        cases h
        exact ⟨[], [], by simp, Adv.refl _, by simp [joinTail], Goods.nil _, by simp, by simpa using hno⟩

end ASV.Parser
