/-
  C02 thm 7, part 5: `printChars c` is the rendering of `items c`, whose texts are `printTexts c`.
-/
import ASV.Proofs.Parser.Reprint4
namespace ASV.Reprint
open ASV ASV.Rules ASV.Parser ASV.Grammar ASV.Layout

theorem namesOk_sub {neg : Bool} {x : Cond} {f : Bool → List Cond → Cond} (hf : ∀ l, (f neg l).profiles = profilesL l)
    (h : NamesOk (f neg [x])) : NamesOk x := by
  intro n hn; exact h n (by rw [hf]; simp [profilesL, hn])

mutual
theorem inv_items : ∀ c : Cond, NamesOk c → printable c = true → Inv (items c) (printChars c) (printTexts c)
  | .single neg n, h, _ => by
      have hn : classify n = .identifier := h n (by simp [Cond.profiles])
      simpa [items, printChars, printTexts] using (inv_name hn).pre neg
  | .score neg n s, h, hp => by
      have hn : classify n = .identifier := h n (by simp [Cond.profiles])
      have hs : 0 ≤ s := by simpa [printable] using hp
      have := ((((inv_ms.append (inv_name hn) (Or.inl (lw2 _ _))).append inv_comma (Or.inr (fs_sym _ _))).append_sp
        (inv_digits s.toNat)).append inv_close (Or.inr (fs_sym _ _))).pre neg
      simp only [items, printChars, printTexts, toString_int_nonneg hs, lit_comma_sp]
      simpa using this
  | .minimum neg c opts, h, hp => by
      have hne : sortDedupStr opts ≠ [] := by
        have : opts ≠ [] := by simpa [printable] using hp
        cases opts with
        | nil => exact absurd rfl this
        | cons a r => intro he; have := mem_sortDedupStr.mpr (List.mem_cons_self (a := a) (l := r)); rw [he] at this; cases this
      have hn : ∀ n ∈ sortDedupStr opts, classify n = .identifier := fun n hn =>
        h n (by simpa [Cond.profiles] using mem_sortDedupStr.mp hn)
      have hi := inv_ids _ hne hn
      have := ((((((inv_min.append (inv_digits c) (Or.inl (lw2 _ _))).append inv_comma (Or.inr (fs_sym _ _))).append_sp
        inv_lopen).append hi (Or.inl (by simp [lead, lastWord, S, Word.isWord]))).append inv_lclose (Or.inr (fs_sym _ _))).append inv_close
          (Or.inr (fs_sym _ _))).pre neg
      simp only [items, printChars, printTexts, lit_comma_sp_l, lit_close2]
      simpa using this
  | .cds neg subs, h, hp => by
      have hne : subs ≠ [] := by
        simp only [printable, Bool.and_eq_true, Bool.not_eq_true', List.isEmpty_eq_false_iff] at hp; exact hp.1
      have hpl : printableL subs = true := by simp only [printable, Bool.and_eq_true] at hp; exact hp.2
      have hj := inv_join subs hne (by simpa [NamesOk, NamesOkL, Cond.profiles] using h) hpl "or" orSep sep_or
        inv_or
      simp only [items, printChars, printTexts]
      by_cases hcond : (isSingleton subs && subs.all Cond.isGroup && !((printJoin orSep subs).head? == some '(')) = true
      · -- D26: a lone group keeps its parentheses
        have htest : (isSingleton subs && subs.all Cond.isGroup && !((joinTexts "or" subs).head? == some "(")) = true := by
          match subs, hcond, h with
          | [g], hcond, h =>
            simp only [isSingleton, List.all_cons, List.all_nil, Bool.and_true, Bool.true_and, Bool.and_eq_true,
              Bool.not_eq_true'] at hcond ⊢
            have hg : Cond.isConj g = false := by cases g <;> simp_all [Cond.isGroup, Cond.isConj]
            have hng : NamesOk g := by intro n hn; exact h n (by simp [Cond.profiles, profilesL, hn])
            have := (first_chars g hng hg).2
            simp only [printJoin, joinTexts] at hcond ⊢
            exact ⟨hcond.1, by rw [← this]; exact hcond.2⟩
          | [], hcond, _ => simp [isSingleton] at hcond
          | _ :: _ :: _, hcond, _ => simp [isSingleton] at hcond
        have := (((inv_cds.append ((inv_open.append hj (Or.inl (by simp [lastWord, S, Word.isWord]))).append inv_close
          (Or.inr (fs_sym _ _))) (Or.inl (lw2 _ _))).append inv_close (Or.inr (fs_sym _ _)))).pre neg
        simp only [hcond, htest, ↓reduceIte]
        simpa using this
      · have hcond' : (isSingleton subs && subs.all Cond.isGroup && !((printJoin orSep subs).head? == some '(')) = false := by
          simpa using hcond
        have htest : (isSingleton subs && subs.all Cond.isGroup && !((joinTexts "or" subs).head? == some "(")) = false := by
          match subs, hcond', h with
          | [g], hcond', h =>
            by_cases hgg : Cond.isGroup g = true
            · have hg : Cond.isConj g = false := by cases g <;> simp_all [Cond.isGroup, Cond.isConj]
              have hng : NamesOk g := by intro n hn; exact h n (by simp [Cond.profiles, profilesL, hn])
              have := (first_chars g hng hg).2
              simp only [isSingleton, List.all_cons, List.all_nil, Bool.and_true, Bool.true_and, hgg, printJoin,
                joinTexts] at hcond' ⊢
              rw [← this]; exact hcond'
            · simp [isSingleton, hgg]
          | [], _, _ => simp [isSingleton]
          | _ :: _ :: _, _, _ => simp [isSingleton]
        have := ((inv_cds.append hj (Or.inl (lw2 _ _))).append inv_close (Or.inr (fs_sym _ _))).pre neg
        simp only [hcond', htest, Bool.false_eq_true, ↓reduceIte]
        simpa using this
  | .group neg [], _, hp => by simp [printable] at hp
  | .group neg [x], h, hp => by
      have hx : NamesOk x := by intro n hn; exact h n (by simp [Cond.profiles, profilesL, hn])
      have hpx : printable x = true := by simpa [printable, printableL] using hp
      have ix := inv_items x hx hpx
      have hpj : printJoin orSep [x] = printChars x := by simp [printJoin]
      have hjt : joinTexts "or" [x] = printTexts x := by simp [joinTexts]
      have hji : joinI "or" [x] = items x := by simp [joinI]
      by_cases hc : Cond.isConj x = true
      · have := ((inv_open.append ix (Or.inl (by simp [lastWord, S, Word.isWord]))).append inv_close
          (Or.inr (fs_sym _ _))).pre neg
        simp only [items, printChars, printTexts, isSingleton, List.all_cons, List.all_nil, hc, Bool.and_true, Bool.not_true,
          Bool.and_false, Bool.false_eq_true, ↓reduceIte, hpj, hjt, hji]
        simpa using this
      · have hc' : Cond.isConj x = false := by simpa using hc
        have hfc := (first_chars x hx hc').1
        rw [← lit_notsp] at hfc
        simp only [items, printChars, printTexts, isSingleton, List.all_cons, List.all_nil, hc', Bool.and_true,
          Bool.not_false, Bool.true_and, ↓reduceIte, hpj, hjt, hji]
        by_cases hd : (neg && notSpC.isPrefixOf (printChars x)) = true
        · have hd2 : (neg && (printTexts x).head? == some "not") = true := by rw [← hfc]; exact hd
          have hneg : neg = true := by simp only [Bool.and_eq_true] at hd; exact hd.1
          subst hneg
          have := inv_not.append_sp ((inv_open.append ix (Or.inl (by simp [lastWord, S, Word.isWord]))).append inv_close
            (Or.inr (fs_sym _ _)))
          simp only [hd, hd2, ↓reduceIte, lit_notpar]
          simpa [notSp] using this
        · have hd' : (neg && notSpC.isPrefixOf (printChars x)) = false := Bool.eq_false_iff.mpr hd
          have hd2 : (neg && (printTexts x).head? == some "not") = false := by rw [← hfc]; exact hd'
          simp only [hd', hd2, Bool.false_eq_true, ↓reduceIte]
          exact ix.pre neg
  | .group neg (x :: y :: r), h, hp => by
      have hpl : printableL (x :: y :: r) = true := by simp only [printable, Bool.and_eq_true] at hp; exact hp.2
      have hj := inv_join (x :: y :: r) (by simp) (by simpa [NamesOk, NamesOkL, Cond.profiles] using h) hpl "or"
        orSep sep_or inv_or
      have := ((inv_open.append hj (Or.inl (by simp [lastWord, S, Word.isWord]))).append inv_close
        (Or.inr (fs_sym _ _))).pre neg
      simp only [items, printChars, printTexts, isSingleton, Bool.false_and, Bool.false_eq_true, ↓reduceIte]
      simpa using this
  | .conj subs, h, hp => by
      have hne : subs ≠ [] := by
        simp only [printable, Bool.and_eq_true, Bool.not_eq_true', List.isEmpty_eq_false_iff] at hp; exact hp.1
      have hpl : printableL subs = true := by simp only [printable, Bool.and_eq_true] at hp; exact hp.2
      have hj := inv_join subs hne (by simpa [NamesOk, NamesOkL, Cond.profiles] using h) hpl "and" andSep sep_and
        inv_and
      simpa [items, printChars, printTexts] using hj
theorem inv_join : ∀ (l : List Cond), l ≠ [] → NamesOkL l → printableL l = true → ∀ (op : String) (sep : List Char),
    sep = ' ' :: op.toList ++ [' '] → Inv [([], W op)] op.toList [op] →
    Inv (joinI op l) (printJoin sep l) (joinTexts op l)
  | [], h, _, _, _, _, _, _ => absurd rfl h
  | [c], _, hn, hp, op, sep, _, _ => by
      have := inv_items c (by intro n h; exact hn n (by simp [profilesL, h])) (by simpa [printableL] using hp)
      simpa [joinI, printJoin, joinTexts] using this
  | c :: d :: r, _, hn, hp, op, sep, hsep, hop => by
      simp only [printableL, Bool.and_eq_true] at hp
      have h1 := inv_items c (by intro n h; exact hn n (by simp [profilesL, h])) hp.1
      have h2 := inv_join (d :: r) (by simp) (by intro n h; exact hn n (by simp [profilesL] at h ⊢; exact Or.inr h))
        (by simpa [printableL] using hp.2) op sep hsep hop
      have := (h1.append_sp hop).append_sp h2
      subst hsep
      rw [joinI, printJoin, joinTexts]
      · simpa using this
      all_goals simp
end

end ASV.Reprint
