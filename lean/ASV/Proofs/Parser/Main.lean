/-
  C02: the main loop of `Parser.__init__`, the final identifier check and `create_rules` keep the
  stored rule set well-formed (`Grammar.rulesOk`).
-/
import ASV.Proofs.Parser.Rule
namespace ASV.Parser
open ASV ASV.Rules ASV.Grammar

theorem aliasLoop_adv (fuel : Nat) : ∀ {acc : List Tok} {s s' : PS} {toks : List Tok},
    aliasLoop fuel acc s = .ok (toks, s') → ∃ new, Adv s s' new := by
  induction fuel with
  | zero => intro acc s s' toks h; simp [aliasLoop] at h
  | succ n ih =>
    intro acc s s' toks h
    rw [aliasLoop] at h
    split at h
    · cases h; exact ⟨_, Adv.refl _⟩
    · split at h
      · cases h; exact ⟨_, Adv.refl _⟩
      · split at h
        · cases h
        · simp only [bind_ok, Prod.exists] at h
          obtain ⟨c1, s1, h1, h⟩ := h
          obtain ⟨a1, _, _⟩ := consume_post h1
          obtain ⟨n2, a2⟩ := ih h
          exact ⟨_, ((Adv.of_flag ‹s.cur = some _›).trans a1).trans a2⟩

theorem parseAlias_adv {s s' : PS} {x : String × List Tok} (h : parseAlias s = .ok (x, s')) :
    ∃ new, Adv s s' new := by
  unfold parseAlias parseAliasWith at h
  simp only [bind_ok, Prod.exists] at h
  obtain ⟨c1, s1, h1, h⟩ := h
  split at h
  · cases h
  · simp only [bind_ok, Prod.exists] at h
    obtain ⟨nm, s2, h2, c3, s3, h3, toks, s4, h4, h⟩ := h
    split at h
    · cases h
    · cases h
      obtain ⟨a1, _, _⟩ := consume_post h1
      obtain ⟨_, a2, _, _⟩ := consumeId_post h2
      obtain ⟨a3, _, _⟩ := consume_post h3
      obtain ⟨n4, a4⟩ := aliasLoop_adv _ h4
      exact ⟨_, ((a1.trans a2).trans a3).trans a4⟩

/-- the invariant of the main loop -/
structure MInv (cfg : Cfg) (s : PS) : Prop where
  names : namesDistinct s.rules = true
  sup : supClosed s.rules = true
  ok : ∀ r ∈ s.rules, ruleOkW cfg r
  prof : ∀ r ∈ s.rules, (∀ x ∈ r.conditions.profiles, cfg.sigs.contains x = true) ∨ Recorded s.consumed r

theorem namesDistinct_append {rules : List Rule} {r : Rule} (h : namesDistinct rules = true)
    (hn : rules.any (·.name == r.name) = false) : namesDistinct (rules ++ [r]) = true := by
  unfold namesDistinct at *
  simp only [Bool.not_eq_true', hasDupStr_false_iff] at *
  rw [List.map_append, List.nodup_append]
  refine ⟨h, by simp, ?_⟩
  intro a ha b hb
  simp at hb; subst hb
  intro hab; subst hab
  obtain ⟨q, hq, hqn⟩ := List.mem_map.mp ha
  have : rules.any (·.name == r.name) = true := List.any_eq_true.mpr ⟨q, hq, by simp [hqn]⟩
  rw [hn] at this; cases this

theorem mainLoop_inv (fuel : Nat) (cfg : Cfg) : ∀ {s s' : PS},
    mainLoop fuel cfg s = .ok s' → MInv cfg s → MInv cfg s' := by
  induction fuel with
  | zero => intro s s' h; simp [mainLoop] at h
  | succ n ih =>
    intro s s' h inv
    rw [mainLoop] at h
    split at h
    · cases h; exact inv
    · split at h
      · -- DEFINE
        simp only [bind_ok, Prod.exists] at h
        obtain ⟨nm, toks, s1, h1, u, h2, h⟩ := h
        obtain ⟨new, a1⟩ := parseAlias_adv h1
        split at h
        · cases h
        · split at h
          · cases h
          · refine ih h ?_
            refine ⟨?_, ?_, ?_, ?_⟩
            · simpa [a1.rules] using inv.names
            · simpa [a1.rules] using inv.sup
            · intro r hr; exact inv.ok r (by simpa [a1.rules] using hr)
            · intro r hr
              rcases inv.prof r (by simpa [a1.rules] using hr) with h' | h'
              · exact Or.inl h'
              · right; show Recorded s1.consumed r; rw [a1.consumed]; exact h'.mono
      · split at h
        · -- RULE
          simp only [bind_ok, Prod.exists] at h
          obtain ⟨r, s1, h1, h⟩ := h
          obtain ⟨new, a1, okr, supr, rec⟩ := parseRule_post h1 (supInv_of_closed inv.sup)
          split at h
          · cases h
          · rename_i hdup
            refine ih h ?_
            rw [a1.rules] at hdup
            refine ⟨?_, ?_, ?_, ?_⟩
            · show namesDistinct (s1.rules ++ [_]) = true
              rw [a1.rules]
              exact namesDistinct_append inv.names (by simpa using hdup)
            · show supClosed (s1.rules ++ [_]) = true
              rw [a1.rules]
              unfold supClosed
              rw [supClosedFrom_append]
              simp only [Bool.and_eq_true]
              exact ⟨inv.sup, by simpa [supOk] using supr⟩
            · intro q hq
              have hq' : q ∈ s1.rules ++ [_] := hq
              rw [a1.rules] at hq'
              rcases List.mem_append.mp hq' with hq' | hq'
              · exact inv.ok q hq'
              · simp at hq'; subst hq'
                exact okr
            · intro q hq
              have hq' : q ∈ s1.rules ++ [_] := hq
              rw [a1.rules] at hq'
              rcases List.mem_append.mp hq' with hq' | hq'
              · rcases inv.prof q hq' with h' | h'
                · exact Or.inl h'
                · right; show Recorded s1.consumed q; rw [a1.consumed]; exact h'.mono
              · simp at hq'; subst hq'
                right
                obtain ⟨p, c, m, q', subs, e1, e2, e3, e4⟩ := rec
                exact ⟨p, c, m, q', subs, e1, e2, e3, e4⟩
        · cases h

theorem ruleOk_of {cfg : Cfg} {r : Rule} (h : ruleOkW cfg r)
    (hp : ∀ x ∈ r.conditions.profiles, cfg.sigs.contains x = true) : ruleOk cfg r = true := by
  obtain ⟨h1, h2, h3, h4⟩ := h
  unfold ruleOk
  simp only [Bool.and_eq_true, List.all_eq_true]
  refine ⟨⟨⟨⟨h1, h2⟩, h3⟩, hp⟩, ?_⟩
  cases he : r.extenders with
  | none => rfl
  | some e => simp [h4 e he]

theorem ruleOkW_of {cfg : Cfg} {r : Rule} (h : ruleOk cfg r = true) :
    ruleOkW cfg r ∧ ∀ x ∈ r.conditions.profiles, cfg.sigs.contains x = true := by
  unfold ruleOk at h
  simp only [Bool.and_eq_true, List.all_eq_true] at h
  obtain ⟨⟨⟨⟨h1, h2⟩, h3⟩, hp⟩, h4⟩ := h
  refine ⟨⟨h1, h2, h3, ?_⟩, hp⟩
  intro e he
  rw [he] at h4
  simpa using h4

theorem rulesOk_iff {cfg : Cfg} {rules : List Rule} :
    rulesOk cfg rules = true ↔
      namesDistinct rules = true ∧ supClosed rules = true ∧ ∀ r ∈ rules, ruleOk cfg r = true := by
  unfold rulesOk
  simp [Bool.and_eq_true, List.all_eq_true, and_assoc]

/-- `Parser.__init__` on tokens: a well-formed rule set stays well-formed -/
theorem parseTokens_ok {cfg : Cfg} {rules rules' : List Rule} {aliases aliases' : Aliases} {toks : List Tok}
    (h : parseTokens cfg rules aliases toks = .ok (rules', aliases')) (h0 : rulesOk cfg rules = true) :
    rulesOk cfg rules' = true := by
  unfold parseTokens at h
  simp only [bind_ok] at h
  obtain ⟨_, _, h⟩ := h
  split at h
  · cases h
  · rename_i t rest
    simp only [bind_ok] at h
    obtain ⟨s, hs, h⟩ := h
    split at h
    · cases h
    · rename_i hids
      cases h
      obtain ⟨n0, s0, r0⟩ := rulesOk_iff.mp h0
      have inv0 : MInv cfg { cur := some t, rest := rest, aliases := aliases.map fun a => (a.1, a.2.map fun t => { t with aliased := true }), rules := rules } :=
        ⟨n0, s0, fun r hr => (ruleOkW_of (r0 r hr)).1, fun r hr => Or.inl (ruleOkW_of (r0 r hr)).2⟩
      have inv := mainLoop_inv _ cfg hs inv0
      refine rulesOk_iff.mpr ⟨inv.names, inv.sup, ?_⟩
      intro r hr
      refine ruleOk_of (inv.ok r hr) ?_
      rcases inv.prof r hr with h' | h'
      · exact h'
      · intro x hx
        obtain ⟨p, c, m, q, subs, e1, e2, e3, e4⟩ := h'
        have hx' : x ∈ profilesL subs := by simpa [e3, Cond.profiles] using hx
        have := profiles_recorded (p := p) (q := q) (b := false) e2 e4 x hx'
        rw [← e1] at this
        simp only [Bool.not_eq_true, List.any_eq_false, Bool.not_eq_true'] at hids
        have := hids x this
        simpa using this

theorem parseText_ok {cfg : Cfg} {rules rules' : List Rule} {aliases aliases' : Aliases} {text : String}
    (h : parseText cfg rules aliases text = .ok (rules', aliases')) (h0 : rulesOk cfg rules = true) :
    rulesOk cfg rules' = true := by
  unfold parseText at h
  simp only [bind_ok] at h
  obtain ⟨_, _, toks, _, h⟩ := h
  exact parseTokens_ok h h0

theorem createRules_ok (cfg : Cfg) : ∀ (files : List String) (rules : List Rule) (aliases : Aliases) (out : List Rule),
    createRules cfg files rules aliases = .ok out → rulesOk cfg rules = true → rulesOk cfg out = true
  | [], rules, _, out, h, h0 => by simp [createRules] at h; subst h; exact h0
  | text :: more, rules, aliases, out, h, h0 => by
    rw [createRules] at h
    simp only [bind_ok, Prod.exists] at h
    obtain ⟨rules1, aliases1, h1, h⟩ := h
    exact createRules_ok cfg more rules1 aliases1 out h (parseText_ok h1 h0)

end ASV.Parser

namespace ASV.Parser
open ASV ASV.Rules ASV.Grammar

/-- positional reading of `supClosed`: a rule's superiors are rules stored *before* it -/
theorem supOk_of_closedFrom (e : List Rule) : ∀ (l pre : List Rule) (r : Rule) (post : List Rule),
    supClosedFrom e l = true → l = pre ++ r :: post → supOk (e ++ pre) r = true := by
  intro l
  induction l generalizing e with
  | nil => intro pre r post _ h; cases pre <;> cases h
  | cons x xs ih =>
    intro pre r post h hl
    simp only [supClosedFrom, Bool.and_eq_true] at h
    cases pre with
    | nil => simp at hl; obtain ⟨rfl, _⟩ := hl; simpa using h.1
    | cons p ps =>
      simp at hl
      obtain ⟨rfl, rfl⟩ := hl
      have := ih (e ++ [x]) ps r post h.2 rfl
      simpa using this

end ASV.Parser
