/-
  C02 thm 7, part 1: the keys of the printed token sequence are the flattening of `normC c`.
-/
import ASV.Spec.Reprint
import ASV.Proofs.Parser.Grammar
namespace ASV.Reprint
open ASV ASV.Rules ASV.Parser ASV.Grammar

/-- the key of the token the tokeniser makes of a text -/
def tk (t : String) : Key := (mkTok t).key

/-- every profile name is an identifier for the tokeniser -/
def NamesOk (c : Cond) : Prop := ∀ n ∈ c.profiles, classify n = .identifier
def NamesOkL (l : List Cond) : Prop := ∀ n ∈ profilesL l, classify n = .identifier

theorem tk_not : tk "not" = kOf .notOp := by decide +kernel
theorem tk_and : tk "and" = kOf .andOp := by decide +kernel
theorem tk_or : tk "or" = kOf .orOp := by decide +kernel
theorem tk_open : tk "(" = kOf .groupOpen := by decide +kernel
theorem tk_close : tk ")" = kOf .groupClose := by decide +kernel
theorem tk_lopen : tk "[" = kOf .listOpen := by decide +kernel
theorem tk_lclose : tk "]" = kOf .listClose := by decide +kernel
theorem tk_comma : tk "," = kOf .comma := by decide +kernel
theorem tk_cds : tk "cds" = kOf .cds := by decide +kernel
theorem tk_minimum : tk "minimum" = kOf .minimum := by decide +kernel
theorem tk_minscore : tk "minscore" = kOf .score := by decide +kernel

theorem tk_name {n : String} (h : classify n = .identifier) : tk n = kId n := by
  simp [tk, mkTok, Tok.key, kId, h]

theorem name_ne_not {n : String} (h : classify n = .identifier) : (n == "not") = false := by
  cases hn : n == "not" with
  | false => rfl
  | true =>
    have : n = "not" := by simpa using hn
    subst this
    exact absurd h (by decide +kernel)

/-- no key of the symbol table consists of digits only -/
theorem mapping_keys_not_digits :
    Generated.RuleTokens.mapping.all (fun p => p.1.toList.any (fun c => !c.isDigit)) = true := by decide +kernel

theorem lookup_digits_none (d : String) (hd : d.toList.all Char.isDigit = true) :
    Generated.RuleTokens.mapping.lookup d = none := by
  have h := mapping_keys_not_digits
  generalize Generated.RuleTokens.mapping = l at h
  induction l with
  | nil => rfl
  | cons p ps ih =>
    obtain ⟨a, b⟩ := p
    simp only [List.all_cons, Bool.and_eq_true] at h
    simp only [List.lookup]
    have hne : (d == a) = false := by
      cases hda : d == a with
      | false => rfl
      | true =>
        have : d = a := by simpa using hda
        subst this
        obtain ⟨c, hc, hnd⟩ := List.any_eq_true.mp h.1
        have := List.all_eq_true.mp hd c hc
        simp [this] at hnd
    simp only [hne]
    exact ih h.2

theorem toDigits_ne_nil (v : Nat) : Nat.toDigits 10 v ≠ [] := by
  intro h
  have := congrArg List.length h
  have hl := Nat.length_toDigits_pos (b := 10) (n := v)
  simp at this

theorem tk_digits (d : String) (v : Nat) (hl : d.toList = Nat.toDigits 10 v) : tk d = kInt v := by
  have hd : d.toList.all Char.isDigit = true := by
    rw [hl, List.all_eq_true]
    intro c hc
    exact Nat.isDigit_of_mem_toDigits (by decide) (by decide) hc
  have hdig : isDigits d.toList = true := by
    simp only [isDigits, Bool.and_eq_true, Bool.not_eq_true', hd, and_true]
    rw [hl]
    cases h : Nat.toDigits 10 v with
    | nil => exact absurd h (toDigits_ne_nil v)
    | cons _ _ => rfl
  have hc : classify d = .int := by
    unfold classify keywordOf
    rw [lookup_digits_none _ hd]
    simp only [Option.bind_none, hdig, ↓reduceIte]
  have hv : digitsVal d.toList = v := by rw [hl]; exact digitsVal_toDigits v
  simp only [tk, mkTok, Tok.key, kInt, hc]
  simp [hv]

theorem tk_nat (v : Nat) : tk (toString v) = kInt v := tk_digits _ v Nat.toList_repr
theorem tk_repr (v : Nat) : tk v.repr = kInt v := tk_nat v

def negFlag : Cond → Bool
  | .single n _ => n
  | .score n _ _ => n
  | .minimum n _ _ => n
  | .cds n _ => n
  | .group n _ => n
  | .conj _ => false

theorem notT_keys (neg : Bool) : (notT neg).map tk = flatNot neg := by
  cases neg <;> simp [notT, flatNot, tk_not]

theorem idsT_keys (l : List String) (h : ∀ n ∈ l, classify n = .identifier) : (idsT l).map tk = flatIds l := by
  induction l with
  | nil => rfl
  | cons a rest ih =>
    cases rest with
    | nil => simp [idsT, flatIds, tk_name (h a (by simp))]
    | cons b r =>
      have := ih (fun n hn => h n (by simp [hn]))
      rw [idsT, flatIds]
      · simp [tk_name (h a (by simp)), tk_comma, this]
      · simp
      · simp

theorem flatC_setNeg {a : Cond} (hc : Cond.isConj a = false) (hn : negFlag a = false) :
    flatC (setNeg a) = kOf .notOp :: flatC a := by
  cases a <;> simp_all [negFlag, setNeg, flatC, flatNot, Cond.isConj]

theorem negFlag_setNeg {a : Cond} (hc : Cond.isConj a = false) : negFlag (setNeg a) = true := by
  cases a <;> simp_all [negFlag, setNeg, Cond.isConj]

theorem isConj_setNeg (a : Cond) : Cond.isConj (setNeg a) = Cond.isConj a := by
  cases a <;> rfl

end ASV.Reprint

namespace ASV.Reprint
open ASV ASV.Rules ASV.Parser ASV.Grammar

theorem head_beq_cons (a : String) (l : List String) (b : String) : ((a :: l).head? == some b) = (a == b) := by
  simp

theorem head_notT_append (neg : Bool) (a : String) (l : List String) (ha : (a == "not") = false) :
    ((notT neg ++ a :: l).head? == some "not") = neg := by
  cases neg <;> simp [notT, ha]

theorem flatJoin_single (op : TT) (c : Cond) : flatJoin op [c] = flatC c := by simp [flatJoin]

mutual
theorem keys_normC : ∀ c : Cond, NamesOk c →
    (printTexts c).map tk = flatC (normC c) ∧
    (Cond.isConj c = false →
      ((printTexts c).head? == some "not") = negFlag (normC c) ∧ Cond.isConj (normC c) = false)
  | .single neg n, h => by
      have hn : classify n = .identifier := h n (by simp [Cond.profiles])
      refine ⟨by simp [printTexts, normC, flatC, notT_keys, tk_name hn], fun _ => ⟨?_, rfl⟩⟩
      simp only [printTexts, normC, negFlag]
      exact head_notT_append neg n [] (name_ne_not hn)
  | .score neg n s, h => by
      have hn : classify n = .identifier := h n (by simp [Cond.profiles])
      refine ⟨by simp [printTexts, normC, flatC, notT_keys, tk_name hn, tk_minscore, tk_open, tk_comma, tk_nat, tk_repr, tk_close],
        fun _ => ⟨?_, rfl⟩⟩
      simp only [printTexts, normC, negFlag]
      exact head_notT_append neg "minscore" _ (by decide)
  | .minimum neg c opts, h => by
      have hn : ∀ n ∈ sortDedupStr opts, classify n = .identifier := fun n hn =>
        h n (by simpa [Cond.profiles] using mem_sortDedupStr.mp hn)
      refine ⟨by simp [printTexts, normC, flatC, notT_keys, tk_minimum, tk_open, tk_comma, tk_nat, tk_repr, tk_close,
          tk_lopen, tk_lclose, idsT_keys _ hn], fun _ => ⟨?_, rfl⟩⟩
      simp only [printTexts, normC, negFlag, List.append_assoc, List.cons_append]
      exact head_notT_append neg "minimum" _ (by decide)
  | .cds neg subs, h => by
      have hl := keys_normL subs (by simpa [NamesOk, NamesOkL, Cond.profiles] using h) "or" .orOp tk_or
      refine ⟨?_, fun _ => ⟨?_, ?_⟩⟩
      · simp only [printTexts, normC]
        split
        · simp [flatC, notT_keys, tk_cds, tk_open, tk_close, hl, flatJoin_single, flatNot]
        · simp [flatC, notT_keys, tk_cds, tk_open, tk_close, hl]
      · have : ((printTexts (.cds neg subs)).head? == some "not") = neg := by
          simp only [printTexts, List.append_assoc, List.cons_append]
          exact head_notT_append neg "cds" _ (by decide)
        rw [this]
        simp only [normC]; split <;> rfl
      · simp only [normC]; split <;> rfl
  | .group neg [], h => by
      refine ⟨by simp [printTexts, normC, normL, joinTexts, isSingleton, flatC, flatJoin, notT_keys, tk_open, tk_close],
        fun _ => ⟨?_, rfl⟩⟩
      simp only [printTexts, normC, isSingleton, Bool.false_and, Bool.false_eq_true, ↓reduceIte, negFlag]
      simp only [List.append_assoc, List.cons_append]
      exact head_notT_append neg "(" _ (by decide)
  | .group neg [x], h => by
      have hx : NamesOk x := by
        intro n hn; exact h n (by simp [Cond.profiles, profilesL, hn])
      obtain ⟨kx, hxh⟩ := keys_normC x hx
      by_cases hc : Cond.isConj x = true
      · -- a single `and`-chain keeps its parentheses
        obtain ⟨l, rfl⟩ : ∃ l, x = .conj l := by
          cases x <;> simp [Cond.isConj] at hc ⊢
        refine ⟨?_, fun _ => ⟨?_, ?_⟩⟩
        · simp [printTexts, normC, normL, joinTexts, isSingleton, Cond.isConj, flatC, flatJoin, notT_keys, tk_open,
            tk_close] at kx ⊢
          rw [kx]
        · simp only [printTexts, normC, isSingleton, List.all_cons, List.all_nil, Cond.isConj, Bool.and_true, Bool.not_true,
            Bool.and_false, Bool.false_eq_true, ↓reduceIte, negFlag]
          simp only [List.append_assoc, List.cons_append]
          exact head_notT_append neg "(" _ (by decide)
        · simp [normC, isSingleton, Cond.isConj]
      · have hc' : Cond.isConj x = false := by simpa using hc
        obtain ⟨hhead, hnc⟩ := hxh hc'
        have hcond : (isSingleton [x] && !([x].all Cond.isConj)) = true := by simp [isSingleton, hc']
        have hjt : joinTexts "or" [x] = printTexts x := by simp [joinTexts]
        have hnl : normL [x] = [normC x] := by simp [normL]
        cases neg with
        | false =>
          refine ⟨?_, fun _ => ⟨?_, ?_⟩⟩
          · simp [printTexts, normC, isSingleton, hc', hjt, hnl, unwrap, notT, kx]
          · simp [printTexts, normC, isSingleton, hc', hjt, hnl, unwrap, notT, hhead]
          · simp [normC, isSingleton, hc', hnl, unwrap, hnc]
        | true =>
          by_cases hd : ((printTexts x).head? == some "not") = true
          · refine ⟨?_, fun _ => ⟨?_, ?_⟩⟩
            · simp [printTexts, normC, isSingleton, hc', hjt, hnl, hd, flatC, flatNot, flatJoin, tk_not, tk_open, tk_close, kx]
            · simp [printTexts, normC, isSingleton, hc', hjt, hnl, hd, negFlag]
            · simp [normC, isSingleton, hc', hjt, hd, Cond.isConj]
          · have hd' : ((printTexts x).head? == some "not") = false := by simpa using hd
            have hflag : negFlag (normC x) = false := by rw [← hhead]; exact hd'
            refine ⟨?_, fun _ => ⟨?_, ?_⟩⟩
            · simp [printTexts, normC, isSingleton, hc', hjt, hnl, hd', unwrap, notT, tk_not, kx, flatC_setNeg hnc hflag]
            · simp [printTexts, normC, isSingleton, hc', hjt, hnl, hd', unwrap, notT, negFlag_setNeg hnc]
            · simp [normC, isSingleton, hc', hjt, hnl, hd', unwrap, isConj_setNeg, hnc]
  | .group neg (x :: y :: r), h => by
      have hl := keys_normL (x :: y :: r) (by simpa [NamesOk, NamesOkL, Cond.profiles] using h) "or" .orOp tk_or
      refine ⟨?_, fun _ => ⟨?_, rfl⟩⟩
      · simp only [printTexts, normC, isSingleton, Bool.false_and, Bool.false_eq_true, ↓reduceIte]
        simp [flatC, notT_keys, tk_open, tk_close, hl]
      · simp only [printTexts, normC, isSingleton, Bool.false_and, Bool.false_eq_true, ↓reduceIte, negFlag]
        simp only [List.append_assoc, List.cons_append]
        exact head_notT_append neg "(" _ (by decide)
  | .conj subs, h => by
      have hl := keys_normL subs (by simpa [NamesOk, NamesOkL, Cond.profiles] using h) "and" .andOp tk_and
      exact ⟨by simp [printTexts, normC, flatC, hl], fun hc => by simp [Cond.isConj] at hc⟩
theorem keys_normL : ∀ (l : List Cond), NamesOkL l → ∀ (opT : String) (op : TT), tk opT = kOf op →
    (joinTexts opT l).map tk = flatJoin op (normL l)
  | [], _, _, _, _ => by simp [joinTexts, normL, flatJoin]
  | [c], h, opT, op, _ => by
      have := (keys_normC c (by intro n hn; exact h n (by simp [profilesL, hn]))).1
      simp [joinTexts, normL, flatJoin, this]
  | c :: d :: r, h, opT, op, hop => by
      have h1 := (keys_normC c (by intro n hn; exact h n (by simp [profilesL, hn]))).1
      have h2 := keys_normL (d :: r) (by intro n hn; exact h n (by simp [profilesL] at hn ⊢; exact Or.inr hn)) opT op hop
      rw [joinTexts, normL, flatJoin_cons, List.map_append, h1, List.map_cons, hop, h2]
      · rw [joinTail_eq op (by simp [normL])]
      · simp
end

end ASV.Reprint
