/-
  C02: what a successful `parseRule` / `parseAlias` / main loop / `Parser(...)` / `create_rules`
  guarantees about the rules it stores.
-/
import ASV.Proofs.Parser.Flat
namespace ASV.Parser
open ASV ASV.Rules ASV.Grammar

theorem parseDescription_adv {s s' : PS} {d : List String} (h : parseDescription s = .ok (d, s')) :
    ∃ new, Adv s s' new := by
  unfold parseDescription at h
  simp only [bind_ok, Prod.exists] at h
  obtain ⟨c, s1, h1, h⟩ := h
  obtain ⟨a1, _, _⟩ := consume_post h1
  split at h
  · cases h
  · rename_i c0 hc0
    split at h
    · cases h
    · rename_i sk c' rest' hsk
      cases h
      obtain ⟨pre, hp⟩ := skipText_spec _ _ _ _ _ _ hsk
      exact ⟨_, a1.trans (Adv.of_suffix hc0 hp)⟩

theorem parseExample_adv {s s' : PS} {e : Example} (h : parseExample s = .ok (e, s')) :
    ∃ new, Adv s s' new ∧ new ≠ [] := by
  unfold parseExample at h
  simp only [bind_ok, Prod.exists] at h
  obtain ⟨c1, s1, h1, db, s2, h2, acc, s3, h3, c4, s4, h4, v, s5, h5, c6, s6, h6, comp, s7, h7, h⟩ := h
  obtain ⟨a1, _, _⟩ := consume_post h1
  obtain ⟨_, a2, _, _⟩ := consumeId_post h2
  obtain ⟨_, a3, _, _⟩ := consumeId_post h3
  obtain ⟨a4, _, _⟩ := consume_post h4
  obtain ⟨_, a5, _, _⟩ := consumeInt_post h5
  obtain ⟨a6, _, _⟩ := consume_post h6
  have a7 : Adv s6 s7 [] := by
    unfold skipFree at h7
    split at h7
    · cases h7; exact Adv.refl _
    · rename_i c0 hc0
      split at h7
      · cases h7
      · rename_i sk c' rest' hsk
        cases h7
        obtain ⟨pre, hp⟩ := skipText_spec _ _ _ _ _ _ hsk
        exact Adv.of_suffix hc0 hp
  obtain ⟨e', _, h⟩ := h
  cases h
  exact ⟨_, (((((a1.trans a2).trans a3).trans a4).trans a5).trans a6).trans a7, by simp⟩

theorem examplesLoop_adv (fuel : Nat) : ∀ {acc : List Example} {s s' : PS} {ex : List Example},
    examplesLoop fuel acc s = .ok (ex, s') → ∃ new, Adv s s' new := by
  induction fuel with
  | zero => intro acc s s' ex h; simp [examplesLoop] at h
  | succ n ih =>
    intro acc s s' ex h
    rw [examplesLoop] at h
    split at h
    · cases h
    · split at h
      · simp only [bind_ok, Prod.exists] at h
        obtain ⟨e, s1, h1, h⟩ := h
        obtain ⟨n1, a1, _⟩ := parseExample_adv h1
        obtain ⟨n2, a2⟩ := ih h
        exact ⟨_, a1.trans a2⟩
      · cases h; exact ⟨_, Adv.refl _⟩

/-- the fold of `_parse_superiors` that gathers the parents' superiors -/
theorem supFold_post (rules : List Rule) : ∀ (l : List String) (acc res : List String),
    l.foldlM (fun (acc : List String) name =>
      match rules.find? (·.name == name) with
      | none => (.error .value : Except Err (List String))
      | some r => .ok (acc ++ r.superiors)) acc = .ok res →
    (∀ n ∈ l, ∃ p, rules.find? (·.name == n) = some p ∧ ∀ m ∈ p.superiors, m ∈ res) ∧
    (∀ m ∈ acc, m ∈ res) ∧
    (∀ m ∈ res, m ∈ acc ∨ ∃ n ∈ l, ∃ p, rules.find? (·.name == n) = some p ∧ m ∈ p.superiors) := by
  intro l
  induction l with
  | nil =>
    intro acc res h
    simp only [List.foldlM_nil, pure, Except.pure] at h
    cases h
    simp
  | cons n ns ih =>
    intro acc res h
    simp only [List.foldlM_cons, bind_ok] at h
    obtain ⟨acc', h1, h⟩ := h
    split at h1
    · cases h1
    · rename_i p hp
      cases h1
      obtain ⟨i1, i2, i3⟩ := ih _ _ h
      refine ⟨?_, ?_, ?_⟩
      · intro x hx
        rcases List.mem_cons.mp hx with rfl | hx
        · exact ⟨p, hp, fun m hm => i2 m (List.mem_append_right _ hm)⟩
        · exact i1 x hx
      · intro m hm; exact i2 m (List.mem_append_left _ hm)
      · intro m hm
        rcases i3 m hm with h' | ⟨x, hx, q, hq, hmq⟩
        · rcases List.mem_append.mp h' with h' | h'
          · exact Or.inl h'
          · exact Or.inr ⟨n, by simp, p, hp, h'⟩
        · exact Or.inr ⟨x, by simp [hx], q, hq, hmq⟩

theorem parseSuperiors_post {fuel : Nat} {s s' : PS} {sup : List String}
    (h : parseSuperiors fuel s = .ok (sup, s')) (inv : SupInv s.rules) :
    (∃ new, Adv s s' new) ∧
    ∀ m ∈ sup, ∃ q, s.rules.find? (·.name == m) = some q ∧ ∀ x ∈ q.superiors, x ∈ sup := by
  unfold parseSuperiors at h
  simp only [bind_ok, Prod.exists] at h
  obtain ⟨c1, s1, h1, decl, s2, h2, h⟩ := h
  obtain ⟨a1, _, _⟩ := consume_post h1
  obtain ⟨n2, a2, _, _⟩ := parseIds_post h2
  split at h
  · cases h
  · simp only [bind_ok] at h
    obtain ⟨trans, h3, h⟩ := h
    cases h
    have hr : s'.rules = s.rules := (a1.trans a2).rules
    unfold PS.ruleByName at h3
    rw [hr] at h3
    obtain ⟨i1, _, i3⟩ := supFold_post s.rules decl [] trans h3
    refine ⟨⟨_, a1.trans a2⟩, ?_⟩
    intro m hm
    rw [mem_sortDedupStr] at hm
    rcases List.mem_append.mp hm with hm | hm
    · obtain ⟨p, hp, hs⟩ := i1 m hm
      exact ⟨p, hp, fun x hx => mem_sortDedupStr.mpr (List.mem_append_right _ (hs x hx))⟩
    · rcases i3 m hm with h' | ⟨n, _, p, hp, hmp⟩
      · cases h'
      · have pin : p ∈ s.rules := List.mem_of_find?_eq_some hp
        obtain ⟨q, hq, hs⟩ := inv p pin m hmp
        refine ⟨q, hq, fun x hx => mem_sortDedupStr.mpr (List.mem_append_right _ ?_)⟩
        have : x ∈ p.superiors := hs x hx
        obtain ⟨p', hp', hs'⟩ := i1 n ‹_›
        rw [hp] at hp'; cases hp'
        exact hs' x this

theorem parseHead_post {cfg : Cfg} {s s' : PS} {name category : String}
    (h : parseHead cfg s = .ok ((name, category), s')) :
    (∃ new, Adv s s' new) ∧ cfg.cats.contains category = true := by
  unfold parseHead at h
  simp only [bind_ok, Prod.exists] at h
  obtain ⟨c1, s1, h1, h⟩ := h
  split at h
  · cases h
  · simp only [bind_ok, Prod.exists] at h
    obtain ⟨nm, s2, h2, h⟩ := h
    split at h
    · cases h
    · simp only [bind_ok, Prod.exists] at h
      obtain ⟨c3, s3, h3, cat, s4, h4, h⟩ := h
      split at h
      · cases h
      · rename_i hcat
        split at h
        · cases h
        · cases h
          obtain ⟨a1, _, _⟩ := consume_post h1
          obtain ⟨_, a2, _, _⟩ := consumeId_post h2
          obtain ⟨a3, _, _⟩ := consume_post h3
          obtain ⟨_, a4, _, _⟩ := consumeId_post h4
          exact ⟨⟨_, ((a1.trans a2).trans a3).trans a4⟩, by simpa using hcat⟩

theorem parseRelated_adv {fuel : Nat} {s s' : PS} {rel : List String}
    (h : parseRelated fuel s = .ok (rel, s')) : ∃ new, Adv s s' new := by
  unfold parseRelated at h
  split at h
  · simp only [bind_ok, Prod.exists] at h
    obtain ⟨c1, s1, h1, h⟩ := h
    obtain ⟨a1, _, _⟩ := consume_post h1
    obtain ⟨n2, a2, _, _⟩ := parseIds_post h
    exact ⟨_, a1.trans a2⟩
  · cases h; exact ⟨_, Adv.refl _⟩

theorem parseMeta_post {fuel : Nat} {s s' : PS} {d : List String} {ex : List Example} {rel sup : List String}
    (h : parseMeta fuel s = .ok ((d, ex, rel, sup), s')) (inv : SupInv s.rules) :
    (∃ new, Adv s s' new) ∧
    ∀ m ∈ sup, ∃ q, s.rules.find? (·.name == m) = some q ∧ ∀ x ∈ q.superiors, x ∈ sup := by
  unfold parseMeta at h
  simp only [bind_ok, Prod.exists] at h
  obtain ⟨d', s1, h1, ex', s2, h2, rel', s3, h3, h⟩ := h
  have ⟨n1, a1⟩ : ∃ new, Adv s s1 new := by
    split at h1
    · exact parseDescription_adv h1
    · cases h1; exact ⟨_, Adv.refl _⟩
  obtain ⟨n2, a2⟩ := examplesLoop_adv fuel h2
  obtain ⟨n3, a3⟩ := parseRelated_adv h3
  split at h
  · cases h
  · simp only [bind_ok, Prod.exists] at h
    obtain ⟨sup', s4, h4, h⟩ := h
    cases h
    have a123 := (a1.trans a2).trans a3
    split at h4
    · have inv3 : SupInv s3.rules := by rw [a123.rules]; exact inv
      obtain ⟨⟨n4, a4⟩, hs⟩ := parseSuperiors_post h4 inv3
      rw [a123.rules] at hs
      exact ⟨⟨_, a123.trans a4⟩, hs⟩
    · cases h4
      exact ⟨⟨_, a123⟩, by simp⟩

theorem parseDistances_adv {s s' : PS} {d : Nat × Nat} (h : parseDistances s = .ok (d, s')) :
    ∃ new, Adv s s' new := by
  unfold parseDistances at h
  simp only [bind_ok, Prod.exists] at h
  obtain ⟨c1, s1, h1, v2, s2, h2, c3, s3, h3, v4, s4, h4, h⟩ := h
  cases h
  obtain ⟨a1, _, _⟩ := consume_post h1
  obtain ⟨_, a2, _, _⟩ := consumeInt_post h2
  obtain ⟨a3, _, _⟩ := consume_post h3
  obtain ⟨_, a4, _, _⟩ := consumeInt_post h4
  exact ⟨_, ((a1.trans a2).trans a3).trans a4⟩

theorem parseExtenders_post {fuel : Nat} {s s' : PS} {ext : Option Cond}
    (h : parseExtenders fuel s = .ok (ext, s')) :
    (∃ new, Adv s s' new) ∧ ∀ e, ext = some e → noRepeat e = true := by
  unfold parseExtenders at h
  split at h
  · simp only [bind_ok, Prod.exists] at h
    obtain ⟨c1, s1, h1, h⟩ := h
    obtain ⟨a1, _, _⟩ := consume_post h1
    split at h
    · cases h
    · split at h
      · simp only [bind_ok, Prod.exists] at h
        obtain ⟨body, s2, h2, e, h3, h⟩ := h
        cases h
        obtain ⟨n2, a2, _, gs, _, _⟩ := (blockPost fuel).cds _ _ _ h2
        obtain ⟨rfl, nd⟩ := mkCds_ok h3
        refine ⟨⟨_, a1.trans a2⟩, ?_⟩
        intro e he; cases he
        simp [noRepeat, nd, gs.norep]
      · split at h
        · simp only [bind_ok, Prod.exists] at h
          obtain ⟨e, s2, h2, h⟩ := h
          obtain ⟨n2, a2, _, g, _⟩ := (blockPost fuel).single _ _ _ _ h2
          have : s' = s2 ∧ ext = some e := by
            split at h
            · split at h
              · cases h
              · cases h; exact ⟨rfl, rfl⟩
            · cases h; exact ⟨rfl, rfl⟩
          obtain ⟨rfl, rfl⟩ := this
          refine ⟨⟨_, a1.trans a2⟩, ?_⟩
          intro e' he; cases he; exact g.norep
        · cases h
  · cases h
    exact ⟨⟨_, Adv.refl _⟩, by simp⟩

/-- the CONDITIONS section of `r` sits in the consumed tokens (`consumed` is newest-first) -/
def Recorded (consumed : List Tok) (r : Rule) : Prop :=
  ∃ p c m q subs, consumed.reverse = p ++ c :: m ++ q ∧ c.type = .conditions ∧
    r.conditions = .group false subs ∧ m.map Tok.key = flatJoin .orOp subs

theorem Recorded.mono {consumed new : List Tok} {r : Rule} (h : Recorded consumed r) :
    Recorded (new ++ consumed) r := by
  obtain ⟨p, c, m, q, subs, h1, h2, h3, h4⟩ := h
  exact ⟨p, c, m, q ++ new.reverse, subs, by simp [h1], h2, h3, h4⟩

/-- rule-local well-formedness without the profile check (that one is global, at the end) -/
def ruleOkW (cfg : Cfg) (r : Rule) : Prop :=
  cfg.cats.contains r.category = true ∧ noRepeat r.conditions = true ∧ positive r.conditions = true ∧
    ∀ e, r.extenders = some e → positive e = true ∧ noRepeat e = true

theorem parseRule_post {cfg : Cfg} {s s' : PS} {r : Rule} (h : parseRule cfg s = .ok (r, s'))
    (inv : SupInv s.rules) :
    ∃ new, Adv s s' new ∧ ruleOkW cfg r ∧ supOk s.rules r = true ∧ Recorded s'.consumed r := by
  unfold parseRule parseRuleWith at h
  simp only [bind_ok, Prod.exists] at h
  obtain ⟨name, cat, s1, h1, d, ex, rel, sup, s2, h2, cut, nb, s3, h3, c4, s4, h4, subs, s5, h5,
    conds, h6, ext, s6, h7, u, h8, h⟩ := h
  obtain ⟨⟨n1, a1⟩, hcat⟩ := parseHead_post h1
  have inv1 : SupInv s1.rules := by rw [a1.rules]; exact inv
  obtain ⟨⟨n2, a2⟩, hsup⟩ := parseMeta_post h2 inv1
  rw [a1.rules] at hsup
  obtain ⟨n3, a3⟩ := parseDistances_adv h3
  obtain ⟨a4, t4, _⟩ := consume_post h4
  obtain ⟨n5, a5, k5, gs, ne, _⟩ := (blockPost _).conds _ _ _ _ _ h5
  obtain ⟨rfl, nd⟩ := mkGroup_ok h6
  obtain ⟨⟨n7, a7⟩, hext⟩ := parseExtenders_post h7
  split at h
  · cases h
  · rename_i hpos
    split at h
    · cases h
    · rename_i hepos
      cases h
      have a14 := ((a1.trans a2).trans a3).trans a4
      refine ⟨_, (a14.trans a5).trans a7, ⟨hcat, ?_, by simpa using hpos, ?_⟩, ?_, ?_⟩
      · simp [noRepeat, nd, gs.norep]
      · intro e he
        simp only at he
        subst he
        exact ⟨by simpa [extendersNegative] using hepos, hext e rfl⟩
      · exact supOk_iff.mpr hsup
      · refine ⟨(([c4] ++ (n3 ++ (n2 ++ n1))) ++ s.consumed).reverse.dropLast, c4, n5.reverse, n7.reverse, subs, ?_, t4, rfl, k5⟩
        rw [a7.consumed, a5.consumed, a14.consumed]
        simp

end ASV.Parser
