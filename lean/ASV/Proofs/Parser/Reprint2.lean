/-
  C02 thm 7, part 2: the first characters of a printed condition (the tests `startswith("not ")`
  and `startswith("(")` of the repaired `__str__`) agree with its first token.
-/
import ASV.Proofs.Parser.Reprint1
namespace ASV.Reprint
open ASV ASV.Rules ASV.Parser ASV.Grammar

theorem mapping_no_identifier :
    Generated.RuleTokens.mapping.all (fun p => TT.ofName p.2 != some .identifier) = true := by decide +kernel

theorem lookup_value_mem {l : List (String × String)} {k v : String} (h : l.lookup k = some v) :
    ∃ k', (k', v) ∈ l := by
  induction l with
  | nil => cases h
  | cons p ps ih =>
    obtain ⟨a, b⟩ := p
    simp only [List.lookup] at h
    split at h
    · cases h; exact ⟨a, by simp⟩
    · obtain ⟨k', hk⟩ := ih h; exact ⟨k', by simp [hk]⟩

/-- an identifier for the tokeniser is a legal identifier: letters, digits, `_`, `-`, one letter -/
theorem legal_of_identifier {n : String} (h : classify n = .identifier) : isLegalIdentifier n = true := by
  unfold classify at h
  cases hk : keywordOf n with
  | some t =>
    rw [hk] at h
    simp only at h
    subst h
    unfold keywordOf at hk
    cases hl : Generated.RuleTokens.mapping.lookup n with
    | none => rw [hl] at hk; cases hk
    | some v =>
      rw [hl] at hk
      obtain ⟨k', hm⟩ := lookup_value_mem hl
      have := List.all_eq_true.mp mapping_no_identifier _ hm
      simp only [Option.bind_some] at hk
      simp [hk] at this
  | none =>
    rw [hk] at h
    simp only at h
    split at h
    · cases h
    · split at h
      · assumption
      · cases h

theorem name_chars {n : String} (h : classify n = .identifier) :
    n.toList ≠ [] ∧ ∀ c ∈ n.toList, isIdChar c = true := by
  have := legal_of_identifier h
  simp only [isLegalIdentifier, Bool.and_eq_true, List.any_eq_true, List.all_eq_true] at this
  obtain ⟨⟨⟨hany, hall⟩, _⟩, _⟩ := this
  obtain ⟨c, hc, _⟩ := hany
  exact ⟨fun hn => (by rw [hn] at hc; cases hc), hall⟩

/-- the characters `startswith("not ")` looks for -/
def notSp : List Char := ['n', 'o', 't', ' ']

theorem notSp_eq : "not ".toList = notSp := by decide

theorem notSp_prefix_false (w rest : List Char) (hw : ∀ c ∈ w, c ≠ ' ') (hne : w ≠ [])
    (h3 : w ≠ ['n', 'o', 't']) (hr : ∀ x xs, rest = x :: xs → x ≠ 'o' ∧ x ≠ 't') :
    notSp.isPrefixOf (w ++ rest) = false := by
  cases hp : notSp.isPrefixOf (w ++ rest) with
  | false => rfl
  | true =>
    exfalso
    unfold notSp at hp
    match w, hne, hw, h3 with
    | [a], _, _, _ =>
      cases rest with
      | nil => simp [List.isPrefixOf] at hp
      | cons x xs =>
        simp only [List.cons_append, List.nil_append, List.isPrefixOf, Bool.and_eq_true, beq_iff_eq] at hp
        exact (hr x xs rfl).1 hp.2.1.symm
    | [a, b], _, _, _ =>
      cases rest with
      | nil => simp [List.isPrefixOf] at hp
      | cons x xs =>
        simp only [List.cons_append, List.nil_append, List.isPrefixOf, Bool.and_eq_true, beq_iff_eq] at hp
        exact (hr x xs rfl).2 hp.2.2.1.symm
    | [a, b, c], _, _, h3 =>
      cases rest with
      | nil => simp [List.isPrefixOf] at hp
      | cons x xs =>
        simp only [List.cons_append, List.nil_append, List.isPrefixOf, Bool.and_eq_true, beq_iff_eq] at hp
        obtain ⟨h1, h2, h4, _⟩ := hp
        exact h3 (by rw [← h1, ← h2, ← h4])
    | a :: b :: c :: d :: e, _, hw, _ =>
      simp only [List.cons_append, List.isPrefixOf, Bool.and_eq_true, beq_iff_eq] at hp
      exact hw d (by simp) hp.2.2.2.1.symm

theorem idChar_ne {c : Char} (h : isIdChar c = true) : c ≠ ' ' ∧ c ≠ '(' := by
  refine ⟨?_, ?_⟩ <;> (intro hc; rw [hc] at h; revert h; decide)

/-- a name, followed by the end, a blank or a closing symbol, does not start with `not␣` -/
theorem name_not_prefix {n : String} (h : classify n = .identifier) (rest : List Char)
    (hr : ∀ x xs, rest = x :: xs → x ≠ 'o' ∧ x ≠ 't') : notSp.isPrefixOf (n.toList ++ rest) = false := by
  obtain ⟨hne, hall⟩ := name_chars h
  refine notSp_prefix_false _ _ (fun c hc => (idChar_ne (hall c hc)).1) hne ?_ hr
  intro h3
  have : n = "not" := by
    apply String.toList_inj.mp
    rw [h3]; decide
  subst this
  exact absurd h (by decide +kernel)

theorem name_head_ne_open {n : String} (h : classify n = .identifier) (rest : List Char) :
    ((n.toList ++ rest).head? == some '(') = false := by
  obtain ⟨hne, hall⟩ := name_chars h
  cases hl : n.toList with
  | nil => exact absurd hl hne
  | cons a as =>
    have := (idChar_ne (hall a (by rw [hl]; simp))).2
    simp [this]

end ASV.Reprint
