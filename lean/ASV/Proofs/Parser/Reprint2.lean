/-
  C02 thm 7, part 2: the first characters of a printed condition (the tests `startswith("not ")`
  and `startswith("(")` of the repaired `__str__`) agree with its first token.
-/
import ASV.Proofs.Parser.Reprint1
namespace ASV.Reprint
open ASV ASV.Rules ASV.Parser ASV.Grammar

theorem mapping_no_identifier :
    Generated.RuleTokens.mapping.all (fun p => TT.ofName p.2 != some .identifier) = true := by decide +kernel

theorem lookup_value_mem {l : List (String × String)} {k v : String} (h : l.lookup k = some v) :
    ∃ k', (k', v) ∈ l := by
  induction l with
  | nil => cases h
  | cons p ps ih =>
    obtain ⟨a, b⟩ := p
    simp only [List.lookup] at h
    split at h
    · cases h; exact ⟨a, by simp⟩
    · obtain ⟨k', hk⟩ := ih h; exact ⟨k', by simp [hk]⟩

/-- an identifier for the tokeniser is a legal identifier: letters, digits, `_`, `-`, one letter -/
theorem legal_of_identifier {n : String} (h : classify n = .identifier) : isLegalIdentifier n = true := by
  unfold classify at h
  cases hk : keywordOf n with
  | some t =>
    rw [hk] at h
    simp only at h
    subst h
    unfold keywordOf at hk
    cases hl : Generated.RuleTokens.mapping.lookup n with
    | none => rw [hl] at hk; cases hk
    | some v =>
      rw [hl] at hk
      obtain ⟨k', hm⟩ := lookup_value_mem hl
      have := List.all_eq_true.mp mapping_no_identifier _ hm
      simp only [Option.bind_some] at hk
      simp [hk] at this
  | none =>
    rw [hk] at h
    simp only at h
    split at h
    · cases h
    · split at h
      · assumption
      · cases h

theorem name_chars {n : String} (h : classify n = .identifier) :
    n.toList ≠ [] ∧ ∀ c ∈ n.toList, isIdChar c = true := by
  have := legal_of_identifier h
  simp only [isLegalIdentifier, Bool.and_eq_true, List.any_eq_true, List.all_eq_true] at this
  obtain ⟨⟨⟨hany, hall⟩, _⟩, _⟩ := this
  obtain ⟨c, hc, _⟩ := hany
  exact ⟨fun hn => (by rw [hn] at hc; cases hc), hall⟩

/-- the characters `startswith("not ")` looks for -/
def notSp : List Char := ['n', 'o', 't', ' ']

theorem notSp_eq : notSpC = notSp := by decide

theorem notSp_prefix_false (w rest : List Char) (hw : ∀ c ∈ w, c ≠ ' ') (hne : w ≠ [])
    (h3 : w ≠ ['n', 'o', 't']) (hr : ∀ x xs, rest = x :: xs → x ≠ 'o' ∧ x ≠ 't') :
    notSp.isPrefixOf (w ++ rest) = false := by
  cases hp : notSp.isPrefixOf (w ++ rest) with
  | false => rfl
  | true =>
    exfalso
    unfold notSp at hp
    match w, hne, hw, h3 with
    | [a], _, _, _ =>
      cases rest with
      | nil => simp [List.isPrefixOf] at hp
      | cons x xs =>
        simp only [List.cons_append, List.nil_append, List.isPrefixOf, Bool.and_eq_true, beq_iff_eq] at hp
        exact (hr x xs rfl).1 hp.2.1.symm
    | [a, b], _, _, _ =>
      cases rest with
      | nil => simp [List.isPrefixOf] at hp
      | cons x xs =>
        simp only [List.cons_append, List.nil_append, List.isPrefixOf, Bool.and_eq_true, beq_iff_eq] at hp
        exact (hr x xs rfl).2 hp.2.2.1.symm
    | [a, b, c], _, _, h3 =>
      cases rest with
      | nil => simp [List.isPrefixOf] at hp
      | cons x xs =>
        simp only [List.cons_append, List.nil_append, List.isPrefixOf, Bool.and_eq_true, beq_iff_eq] at hp
        obtain ⟨h1, h2, h4, _⟩ := hp
        exact h3 (by rw [← h1, ← h2, ← h4])
    | a :: b :: c :: d :: e, _, hw, _ =>
      simp only [List.cons_append, List.isPrefixOf, Bool.and_eq_true, beq_iff_eq] at hp
      exact hw d (by simp) hp.2.2.2.1.symm

theorem idChar_ne {c : Char} (h : isIdChar c = true) : c ≠ ' ' ∧ c ≠ '(' := by
  refine ⟨?_, ?_⟩ <;> (intro hc; rw [hc] at h; revert h; decide)

/-- a name, followed by the end, a blank or a closing symbol, does not start with `not␣` -/
theorem name_not_prefix {n : String} (h : classify n = .identifier) (rest : List Char)
    (hr : ∀ x xs, rest = x :: xs → x ≠ 'o' ∧ x ≠ 't') : notSp.isPrefixOf (n.toList ++ rest) = false := by
  obtain ⟨hne, hall⟩ := name_chars h
  refine notSp_prefix_false _ _ (fun c hc => (idChar_ne (hall c hc)).1) hne ?_ hr
  intro h3
  have : n = "not" := by
    apply String.toList_inj.mp
    rw [h3]; decide
  subst this
  exact absurd h (by decide +kernel)

theorem name_head_ne_open {n : String} (h : classify n = .identifier) (rest : List Char) :
    ((n.toList ++ rest).head? == some '(') = false := by
  obtain ⟨hne, hall⟩ := name_chars h
  cases hl : n.toList with
  | nil => exact absurd hl hne
  | cons a as =>
    have := (idChar_ne (hall a (by rw [hl]; simp))).2
    simp [this]

end ASV.Reprint

namespace ASV.Reprint
open ASV ASV.Rules ASV.Parser ASV.Grammar

theorem lit_notsp : notSpC = notSp := by decide
theorem lit_notpar : notParC = notSp ++ ['('] := by decide
theorem lit_minscore : "minscore(".toList = 'm' :: "inscore(".toList := by decide
theorem lit_minimum : "minimum(".toList = 'm' :: "inimum(".toList := by decide
theorem lit_cds : "cds(".toList = 'c' :: "ds(".toList := by decide

theorem notSp_prefix_self (l : List Char) : notSp.isPrefixOf (notSp ++ l) = true := by
  simp [notSp, List.isPrefixOf]

theorem notPrefix_true : notPrefix true = notSp := by simp [notPrefix, lit_notsp]
theorem notPrefix_false : notPrefix false = [] := by simp [notPrefix]

theorem name_ne_open {n : String} (h : classify n = .identifier) : (n == "(") = false := by
  cases hn : n == "(" with
  | false => rfl
  | true =>
    have : n = "(" := by simpa using hn
    subst this
    exact absurd h (by decide +kernel)

/-- L: the tests of the repaired `__str__` on characters are tests on the first token -/
theorem first_chars : ∀ c : Cond, NamesOk c → Cond.isConj c = false →
    notSp.isPrefixOf (printChars c) = ((printTexts c).head? == some "not") ∧
    ((printChars c).head? == some '(') = ((printTexts c).head? == some "(")
  | .single neg n, h, _ => by
      have hn : classify n = .identifier := h n (by simp [Cond.profiles])
      cases neg with
      | true =>
        simp only [printChars, printTexts, notPrefix_true, notT]
        exact ⟨by (try simp only [List.append_assoc]); rw [notSp_prefix_self]; rfl, by simp [notSp]⟩
      | false =>
        simp only [printChars, printTexts, notPrefix_false, notT, List.nil_append]
        have h1 := name_not_prefix hn [] (by intro x xs h; cases h)
        have h2 := name_head_ne_open hn []
        simp only [List.append_nil] at h1 h2
        rw [h1, h2]
        simp [name_ne_not hn, name_ne_open hn]
  | .score neg n s, _, _ => by
      cases neg with
      | true =>
        simp only [printChars, printTexts, notPrefix_true, notT, List.append_assoc]
        exact ⟨by (try simp only [List.append_assoc]); rw [notSp_prefix_self]; rfl, by simp [notSp]⟩
      | false =>
        simp only [printChars, printTexts, notPrefix_false, notT, List.nil_append, lit_minscore, List.cons_append]
        exact ⟨by simp [notSp, List.isPrefixOf], by simp⟩
  | .minimum neg c opts, _, _ => by
      cases neg with
      | true =>
        simp only [printChars, printTexts, notPrefix_true, notT, List.append_assoc]
        exact ⟨by (try simp only [List.append_assoc]); rw [notSp_prefix_self]; rfl, by simp [notSp]⟩
      | false =>
        simp only [printChars, printTexts, notPrefix_false, notT, List.nil_append, lit_minimum, List.cons_append]
        exact ⟨by simp [notSp, List.isPrefixOf], by simp⟩
  | .cds neg subs, _, _ => by
      cases neg with
      | true =>
        simp only [printChars, printTexts, notPrefix_true, notT, List.append_assoc]
        exact ⟨by (try simp only [List.append_assoc]); rw [notSp_prefix_self]; rfl, by simp [notSp]⟩
      | false =>
        simp only [printChars, printTexts, notPrefix_false, notT, List.nil_append, lit_cds, List.cons_append]
        exact ⟨by simp [notSp, List.isPrefixOf], by simp⟩
  | .group neg [], _, _ => by
      cases neg with
      | true =>
        simp only [printChars, printTexts, isSingleton, Bool.false_and, Bool.false_eq_true, ↓reduceIte, notPrefix_true,
          notT]
        exact ⟨by (try simp only [List.append_assoc]); rw [notSp_prefix_self]; rfl, by simp [notSp]⟩
      | false =>
        simp only [printChars, printTexts, isSingleton, Bool.false_and, Bool.false_eq_true, ↓reduceIte, notPrefix_false,
          notT, List.nil_append]
        exact ⟨by simp [notSp, List.isPrefixOf], by simp⟩
  | .group neg [x], h, _ => by
      have hx : NamesOk x := by
        intro n hn; exact h n (by simp [Cond.profiles, profilesL, hn])
      by_cases hc : Cond.isConj x = true
      · cases neg with
        | true =>
          simp only [printChars, printTexts, isSingleton, List.all_cons, List.all_nil, hc, Bool.and_true, Bool.not_true,
            Bool.and_false, Bool.false_eq_true, ↓reduceIte, notPrefix_true, notT]
          exact ⟨by (try simp only [List.append_assoc]); rw [notSp_prefix_self]; rfl, by simp [notSp]⟩
        | false =>
          simp only [printChars, printTexts, isSingleton, List.all_cons, List.all_nil, hc, Bool.and_true, Bool.not_true,
            Bool.and_false, Bool.false_eq_true, ↓reduceIte, notPrefix_false, notT, List.nil_append]
          exact ⟨by simp [notSp, List.isPrefixOf], by simp⟩
      · have hc' : Cond.isConj x = false := by simpa using hc
        obtain ⟨i1, i2⟩ := first_chars x hx hc'
        have hpj : printJoin orSep [x] = printChars x := by simp [printJoin]
        have hjt : joinTexts "or" [x] = printTexts x := by simp [joinTexts]
        cases neg with
        | false =>
          simp only [printChars, printTexts, isSingleton, List.all_cons, List.all_nil, hc', Bool.and_true, Bool.not_false,
            Bool.true_and, ↓reduceIte, Bool.false_and, Bool.false_eq_true, notPrefix_false, notT, List.nil_append, hpj, hjt]
          exact ⟨i1, i2⟩
        | true =>
          simp only [printChars, printTexts, isSingleton, List.all_cons, List.all_nil, hc', Bool.and_true, Bool.not_false,
            Bool.true_and, ↓reduceIte, hpj, hjt, lit_notsp, lit_notpar, notPrefix_true, notT]
          split <;> split <;>
            first
              | exact ⟨by (try simp only [List.append_assoc]); rw [notSp_prefix_self]; rfl, by simp [notSp]⟩
  | .group neg (x :: y :: r), _, _ => by
      cases neg with
      | true =>
        simp only [printChars, printTexts, isSingleton, Bool.false_and, Bool.false_eq_true, ↓reduceIte, notPrefix_true,
          notT]
        exact ⟨by (try simp only [List.append_assoc]); rw [notSp_prefix_self]; rfl, by simp [notSp]⟩
      | false =>
        simp only [printChars, printTexts, isSingleton, Bool.false_and, Bool.false_eq_true, ↓reduceIte, notPrefix_false,
          notT, List.nil_append]
        exact ⟨by simp [notSp, List.isPrefixOf], by simp⟩
  | .conj _, _, hc => by simp [Cond.isConj] at hc

end ASV.Reprint
