/-
  C02: parsing only ever appends rules — the rules handed in (earlier files) stay, in place and
  unchanged, at the front of the result; hence the rules of a stricter level are a prefix of the
  rules of every looser level (`_get_rule_files_for_strictness` is cumulative).
-/
import ASV.Proofs.Parser.Main
import ASV.Proofs.Parser.Alias
namespace ASV.Parser
open ASV ASV.Rules

theorem mainLoop_rules_prefix (fuel : Nat) (cfg : Cfg) : ∀ {s s' : PS},
    mainLoop fuel cfg s = .ok s' → s.rules <+: s'.rules := by
  induction fuel with
  | zero => intro s s' h; simp [mainLoop] at h
  | succ n ih =>
    intro s s' h
    rw [mainLoop] at h
    split at h
    · cases h; exact List.prefix_refl _
    · split at h
      · simp only [bind_ok, Prod.exists] at h
        obtain ⟨nm, toks, s1, h1, u, h2, h⟩ := h
        obtain ⟨new, a1⟩ := parseAlias_adv h1
        split at h
        · cases h
        · split at h
          · cases h
          · have := ih h
            simpa [a1.rules] using this
      · split at h
        · simp only [bind_ok, Prod.exists] at h
          obtain ⟨r, s1, h1, h⟩ := h
          obtain ⟨new, a1⟩ := parseRule_adv h1
          split at h
          · cases h
          · have := ih h
            simp only [a1.rules] at this
            exact List.IsPrefix.trans (List.prefix_append _ _) this
        · cases h

theorem parseTokens_rules_prefix {cfg : Cfg} {rules rules' : List Rule} {aliases al' : Aliases} {toks : List Tok}
    (h : parseTokens cfg rules aliases toks = .ok (rules', al')) : rules <+: rules' := by
  unfold parseTokens at h
  simp only [bind_ok] at h
  obtain ⟨u, _, h⟩ := h
  split at h
  · cases h
  · simp only [bind_ok] at h
    obtain ⟨s, hs, h⟩ := h
    split at h
    · cases h
    · simp only [pure, Except.pure, Except.ok.injEq, Prod.mk.injEq] at h
      obtain ⟨rfl, _⟩ := h
      exact mainLoop_rules_prefix _ cfg hs

theorem parseText_rules_prefix {cfg : Cfg} {rules rules' : List Rule} {aliases al' : Aliases} {text : String}
    (h : parseText cfg rules aliases text = .ok (rules', al')) : rules <+: rules' := by
  unfold parseText at h
  simp only [bind_ok] at h
  obtain ⟨u, _, toks, _, h⟩ := h
  exact parseTokens_rules_prefix h

theorem createRules_rules_prefix (cfg : Cfg) : ∀ (files : List String) (rules out : List Rule) (aliases : Aliases),
    createRules cfg files rules aliases = .ok out → rules <+: out := by
  intro files
  induction files with
  | nil => intro rules out aliases h; simp [createRules] at h; subst h; exact List.prefix_refl _
  | cons t ts ih =>
    intro rules out aliases h
    simp only [createRules, bind_ok, Prod.exists] at h
    obtain ⟨r1, a1, h1, h⟩ := h
    exact List.IsPrefix.trans (parseText_rules_prefix h1) (ih r1 out a1 h)

/-- more files only add rules: the result for `fs` is the front of the result for `fs ++ gs` -/
theorem createRules_append_prefix (cfg : Cfg) : ∀ (fs gs : List String) (rules out : List Rule) (aliases : Aliases),
    createRules cfg (fs ++ gs) rules aliases = .ok out →
    ∃ mid, createRules cfg fs rules aliases = .ok mid ∧ mid <+: out := by
  intro fs
  induction fs with
  | nil => intro gs rules out aliases h; exact ⟨rules, rfl, createRules_rules_prefix cfg gs rules out aliases h⟩
  | cons t ts ih =>
    intro gs rules out aliases h
    simp only [List.cons_append, createRules, bind_ok, Prod.exists] at h
    obtain ⟨r1, a1, h1, h⟩ := h
    obtain ⟨mid, hm, hp⟩ := ih gs r1 out a1 h
    refine ⟨mid, ?_, hp⟩
    simp only [createRules, h1, bind, Except.bind]
    exact hm

end ASV.Parser
