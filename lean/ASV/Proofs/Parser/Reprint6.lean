/-
  C02 thm 7, part 6: `normC c` prints exactly like `c` (so it has no repeated operand either).
-/
import ASV.Proofs.Parser.Reprint5
namespace ASV.Reprint
open ASV ASV.Rules ASV.Parser ASV.Grammar

@[simp] theorem printJoin_single (sep : List Char) (x : Cond) : printJoin sep [x] = printChars x := by
  simp [printJoin]
@[simp] theorem joinTexts_single (op : String) (x : Cond) : joinTexts op [x] = printTexts x := by
  simp [joinTexts]
@[simp] theorem normL_single (x : Cond) : normL [x] = [normC x] := by simp [normL]
theorem printJoin_cons2 (sep : List Char) (c d : Cond) (r : List Cond) :
    printJoin sep (c :: d :: r) = printChars c ++ sep ++ printJoin sep (d :: r) := by
  rw [printJoin]; simp
theorem normL_cons (x : Cond) (l : List Cond) : normL (x :: l) = normC x :: normL l := by simp [normL]

theorem notSpC_eq : notSpC = notSp := by decide
theorem notParC_eq : notParC = notSp ++ ['('] := by decide

/-- a group object that the printer would not print without its parentheses -/
def tight : Cond → Bool
  | .group false [y] => Cond.isConj y
  | _ => true

theorem tight_setNeg (a : Cond) : tight (setNeg a) = true := by
  cases a <;> simp [setNeg, tight]

theorem printChars_setNeg {a : Cond} (hc : Cond.isConj a = false) (hn : negFlag a = false) (ht : tight a = true) :
    printChars (setNeg a) = notSpC ++ printChars a := by
  cases a with
  | conj l => simp [Cond.isConj] at hc
  | single neg n => simp only [negFlag] at hn; subst hn; simp [setNeg, printChars, notPrefix]
  | score neg n s => simp only [negFlag] at hn; subst hn; simp [setNeg, printChars, notPrefix]
  | minimum neg c o => simp only [negFlag] at hn; subst hn; simp [setNeg, printChars, notPrefix]
  | cds neg l => simp only [negFlag] at hn; subst hn; simp [setNeg, printChars, notPrefix]
  | group neg l =>
    simp only [negFlag] at hn; subst hn
    have hcond : (isSingleton l && !(l.all Cond.isConj)) = false := by
      match l, ht with
      | [], _ => rfl
      | [y], ht => simp only [tight] at ht; simp [isSingleton, ht]
      | _ :: _ :: _, _ => rfl
    simp [setNeg, printChars, hcond, notPrefix]

theorem str_lt_of_not {x y : String} (h1 : ¬ x < y) (h2 : x ≠ y) : y < x := by
  have hyx : y ≤ x := String.not_lt.mp h1
  cases Decidable.em (y < x) with
  | inl h => exact h
  | inr h => exact absurd (String.le_antisymm (String.not_lt.mp h) hyx) h2

theorem sorted_insertStr (x : String) : ∀ (l : List String), l.Pairwise (· < ·) → (insertStr x l).Pairwise (· < ·) := by
  intro l
  induction l with
  | nil => intro _; simp [insertStr]
  | cons y ys ih =>
    intro hs
    rw [List.pairwise_cons] at hs
    simp only [insertStr]
    split
    · rename_i hxy
      rw [List.pairwise_cons]
      refine ⟨?_, List.pairwise_cons.mpr hs⟩
      intro z hz
      rcases List.mem_cons.mp hz with rfl | hz
      · exact hxy
      · exact String.lt_trans hxy (hs.1 z hz)
    · rename_i hxy
      split
      · exact List.pairwise_cons.mpr hs
      · rename_i hne
        rw [List.pairwise_cons]
        refine ⟨?_, ih hs.2⟩
        intro z hz
        rcases mem_insertStr.mp hz with rfl | hz
        · exact str_lt_of_not hxy (by simpa using hne)
        · exact hs.1 z hz

theorem sortDedupStr_sorted (l : List String) : (sortDedupStr l).Pairwise (· < ·) := by
  induction l with
  | nil => simp [sortDedupStr]
  | cons a r ih => exact sorted_insertStr a _ ih

theorem sortDedupStr_of_sorted : ∀ (l : List String), l.Pairwise (· < ·) → sortDedupStr l = l := by
  intro l
  induction l with
  | nil => intro _; rfl
  | cons a r ih =>
    intro hs
    rw [List.pairwise_cons] at hs
    have : sortDedupStr (a :: r) = insertStr a (sortDedupStr r) := rfl
    rw [this, ih hs.2]
    cases r with
    | nil => rfl
    | cons y ys => simp [insertStr, hs.1 y (by simp)]

theorem sortDedup_idem (l : List String) : sortDedupStr (sortDedupStr l) = sortDedupStr l :=
  sortDedupStr_of_sorted _ (sortDedupStr_sorted l)

/-- the D26 test of the printer, on characters and on tokens -/
theorem d26_tests (subs : List Cond) (h : NamesOkL subs) :
    (isSingleton subs && subs.all Cond.isGroup && !((joinTexts "or" subs).head? == some "(")) =
      (isSingleton subs && subs.all Cond.isGroup && !((printJoin orSep subs).head? == some '(')) := by
  match subs, h with
  | [], _ => rfl
  | _ :: _ :: _, _ => rfl
  | [g], h =>
    by_cases hgg : Cond.isGroup g = true
    · have hg : Cond.isConj g = false := by cases g <;> simp_all [Cond.isGroup, Cond.isConj]
      have hng : NamesOk g := by intro n hn; exact h n (by simp [profilesL, hn])
      have := (first_chars g hng hg).2
      simp only [joinTexts_single, printJoin_single, this]
    · have : Cond.isGroup g = false := by simpa using hgg
      simp [isSingleton, this]

end ASV.Reprint

namespace ASV.Reprint
open ASV ASV.Rules ASV.Parser ASV.Grammar

theorem isGroup_normC_of_not {g : Cond} (h : Cond.isGroup g = false) : Cond.isGroup (normC g) = false := by
  cases g with
  | group neg l => simp [Cond.isGroup] at h
  | cds neg l => simp only [normC]; split <;> rfl
  | single _ _ => rfl
  | score _ _ _ => rfl
  | minimum _ _ _ => rfl
  | conj _ => rfl

mutual
theorem print_norm : ∀ c : Cond, NamesOk c → printChars (normC c) = printChars c ∧ tight (normC c) = true
  | .single neg n, _ => ⟨rfl, rfl⟩
  | .score neg n s, _ => ⟨rfl, rfl⟩
  | .minimum neg c opts, _ => by
      refine ⟨?_, rfl⟩
      simp only [normC, printChars, sortDedup_idem]
  | .cds neg subs, h => by
      have hnl : NamesOkL subs := by simpa [NamesOk, NamesOkL, Cond.profiles] using h
      have hl := print_normL subs hnl orSep
      refine ⟨?_, by simp only [normC]; split <;> rfl⟩
      simp only [normC, d26_tests subs hnl]
      by_cases hcond : (isSingleton subs && subs.all Cond.isGroup && !((printJoin orSep subs).head? == some '(')) = true
      · simp only [hcond, ↓reduceIte]
        match subs, hcond, hl, hnl with
        | [g], hcond, hl, hnl =>
          simp only [isSingleton, List.all_cons, List.all_nil, Bool.and_true, Bool.true_and, Bool.and_eq_true,
            Bool.not_eq_true', printJoin_single] at hcond
          have hg : Cond.isConj g = false := by cases g <;> simp_all [Cond.isGroup, Cond.isConj]
          have hng : NamesOk g := by intro n hn; exact hnl n (by simp [profilesL, hn])
          have hncj : Cond.isConj (normC g) = false := ((keys_normC g hng).2 hg).2
          have hpg : printChars (normC g) = printChars g := by simpa using hl
          have hinner : printChars (.group false [normC g]) = printChars g := by
            simp only [printChars, isSingleton, List.all_cons, List.all_nil, Bool.and_true, hncj, Bool.not_false,
              Bool.true_and, ↓reduceIte, Bool.false_and, Bool.false_eq_true, notPrefix, List.nil_append,
              printJoin_single, hpg]
          simp only [normL_single]
          have hGg : Cond.isGroup (Cond.group false [normC g]) = true := rfl
          generalize Cond.group false [normC g] = G at hinner hGg ⊢
          simp only [printChars, printJoin_single, hinner, isSingleton, List.all_cons, List.all_nil,
            Bool.and_true, Bool.true_and, hGg, hcond.1, hcond.2, Bool.not_false, ↓reduceIte]
        | [], hcond, _, _ => simp [isSingleton] at hcond
        | _ :: _ :: _, hcond, _, _ => simp [isSingleton] at hcond
      · have hcond' : (isSingleton subs && subs.all Cond.isGroup && !((printJoin orSep subs).head? == some '(')) = false :=
          Bool.eq_false_iff.mpr hcond
        simp only [hcond', Bool.false_eq_true, ↓reduceIte]
        have hsame : (isSingleton (normL subs) && (normL subs).all Cond.isGroup &&
            !((printJoin orSep subs).head? == some '(')) = false := by
          match subs, hcond' with
          | [], _ => rfl
          | _ :: _ :: _, _ => rfl
          | [g], hcond' =>
            by_cases hgg : Cond.isGroup g = true
            · simp only [isSingleton, List.all_cons, List.all_nil, Bool.and_true, Bool.true_and, hgg] at hcond'
              simp only [normL_single, isSingleton, List.all_cons, List.all_nil, Bool.and_true, Bool.true_and, hcond',
                Bool.and_false]
            · have := isGroup_normC_of_not (Bool.eq_false_iff.mpr hgg)
              simp [isSingleton, this]
        simp only [printChars, hl, hsame, hcond', Bool.false_eq_true, ↓reduceIte]
  | .group neg [], _ => ⟨by simp [normC, isSingleton, normL], by cases neg <;> simp [normC, isSingleton, normL, tight]⟩
  | .group neg [x], h => by
      have hx : NamesOk x := by intro n hn; exact h n (by simp [Cond.profiles, profilesL, hn])
      obtain ⟨px, tx⟩ := print_norm x hx
      by_cases hc : Cond.isConj x = true
      · obtain ⟨l, rfl⟩ : ∃ l, x = .conj l := by cases x <;> simp [Cond.isConj] at hc ⊢
        refine ⟨?_, ?_⟩
        · simp only [normC, isSingleton, List.all_cons, List.all_nil, Cond.isConj, Bool.and_true, Bool.not_true,
            Bool.and_false, Bool.false_eq_true, ↓reduceIte, printChars, normL_single, printJoin_single] at px ⊢
          rw [px]
        · simp only [normC, isSingleton, List.all_cons, List.all_nil, Cond.isConj, Bool.and_true, Bool.not_true,
            Bool.and_false, Bool.false_eq_true, ↓reduceIte, normL_single]
          cases neg <;> simp [tight, Cond.isConj]
      · have hc' : Cond.isConj x = false := Bool.eq_false_iff.mpr hc
        obtain ⟨hhead, hnc⟩ := (keys_normC x hx).2 hc'
        have hfc := (first_chars x hx hc').1
        rw [← notSpC_eq] at hfc
        cases neg with
        | false =>
          refine ⟨?_, ?_⟩
          · simp only [normC, isSingleton, List.all_cons, List.all_nil, hc', Bool.and_true, Bool.not_false, Bool.true_and,
              ↓reduceIte, Bool.false_and, Bool.false_eq_true, normL_single, unwrap, printChars, printJoin_single, notPrefix,
              List.nil_append, px]
          · simpa only [normC, isSingleton, List.all_cons, List.all_nil, hc', Bool.and_true, Bool.not_false, Bool.true_and,
              ↓reduceIte, Bool.false_and, Bool.false_eq_true, normL_single, unwrap] using tx
        | true =>
          by_cases hd : ((printTexts x).head? == some "not") = true
          · have hdc : notSpC.isPrefixOf (printChars x) = true := by rw [hfc]; exact hd
            refine ⟨?_, ?_⟩
            · simp only [normC, isSingleton, List.all_cons, List.all_nil, hc', Bool.and_true, Bool.not_false, Bool.true_and,
                ↓reduceIte, joinTexts_single, hd, normL_single, printChars, printJoin_single, hnc, px, hdc]
            · simp only [normC, isSingleton, List.all_cons, List.all_nil, hc', Bool.and_true, Bool.not_false, Bool.true_and,
                ↓reduceIte, joinTexts_single, hd, normL_single, tight]
          · have hd' : ((printTexts x).head? == some "not") = false := Bool.eq_false_iff.mpr hd
            have hdc : notSpC.isPrefixOf (printChars x) = false := by rw [hfc]; exact hd'
            have hflag : negFlag (normC x) = false := by rw [← hhead]; exact hd'
            refine ⟨?_, ?_⟩
            · simp only [normC, isSingleton, List.all_cons, List.all_nil, hc', Bool.and_true, Bool.not_false, Bool.true_and,
                ↓reduceIte, joinTexts_single, hd', Bool.and_false, Bool.false_eq_true, normL_single, unwrap,
                printChars_setNeg hnc hflag tx, px, printChars, printJoin_single, hdc, notPrefix]
            · simp only [normC, isSingleton, List.all_cons, List.all_nil, hc', Bool.and_true, Bool.not_false, Bool.true_and,
                ↓reduceIte, joinTexts_single, hd', Bool.and_false, Bool.false_eq_true, normL_single, unwrap, tight_setNeg]
  | .group neg (x :: y :: r), h => by
      have hl := print_normL (x :: y :: r) (by simpa [NamesOk, NamesOkL, Cond.profiles] using h) orSep
      refine ⟨?_, ?_⟩
      · simp only [normC, isSingleton, Bool.false_and, Bool.false_eq_true, ↓reduceIte, printChars, normL_cons] at hl ⊢
        rw [hl]
      · simp only [normC, isSingleton, Bool.false_and, Bool.false_eq_true, ↓reduceIte, normL_cons]
        cases neg <;> simp [tight]
  | .conj subs, h => by
      have hl := print_normL subs (by simpa [NamesOk, NamesOkL, Cond.profiles] using h) andSep
      exact ⟨by simp only [normC, printChars, hl], rfl⟩
theorem print_normL : ∀ (l : List Cond), NamesOkL l → ∀ sep : List Char, printJoin sep (normL l) = printJoin sep l
  | [], _, _ => rfl
  | [c], h, sep => by
      have := (print_norm c (by intro n hn; exact h n (by simp [profilesL, hn]))).1
      simp [this]
  | c :: d :: r, h, sep => by
      have h1 := (print_norm c (by intro n hn; exact h n (by simp [profilesL, hn]))).1
      have h2 := print_normL (d :: r) (by intro n hn; exact h n (by simp [profilesL] at hn ⊢; exact Or.inr hn)) sep
      simp only [normL_cons] at h2 ⊢
      rw [printJoin_cons2, printJoin_cons2, h1, h2]
end

/-- the normalised operands print like the originals, so they repeat nothing either -/
theorem printConds_normL (l : List Cond) (h : NamesOkL l) : printConds (normL l) = printConds l := by
  induction l with
  | nil => rfl
  | cons c r ih =>
    have h1 := (print_norm c (by intro n hn; exact h n (by simp [profilesL, hn]))).1
    have h2 := ih (by intro n hn; exact h n (by simp [profilesL] at hn ⊢; exact Or.inr hn))
    simp only [printConds, normL_cons, List.map_cons, printCond, h1] at h2 ⊢
    rw [h2]

end ASV.Reprint
