/-
  Helper lemmas for C13: `hmmer.remove_overlapping` (total sort, grouping sweep, filter by rank).
-/
import ASV.Proofs.RefineIncomplete
import ASV.Spec.HitFilter
namespace ASV.HitFilter
open ASV.Refine

/-! ### the two sort keys -/

theorem leTotal_total (a b : HHit) : leTotal a b = true ∨ leTotal b a = true := by
  simp only [leTotal, decide_eq_true_eq]; omega
theorem leTotal_trans (a b c : HHit) : leTotal a b = true → leTotal b c = true → leTotal a c = true := by
  simp only [leTotal, decide_eq_true_eq]; omega
theorem leTotal_antisymm (a b : HHit) (h1 : leTotal a b = true) (h2 : leTotal b a = true) : a = b := by
  simp only [leTotal, decide_eq_true_eq] at h1 h2
  have h : a.ps = b.ps ∧ a.pe = b.pe ∧ a.ident = b.ident ∧ a.sc = b.sc := by omega
  cases a; cases b; simp_all
theorem leTotal_start {a b : HHit} (h : leTotal a b = true) : a.ps ≤ b.ps := by
  simp only [leTotal, decide_eq_true_eq] at h; omega
theorem leStart_total (a b : HHit) : leStart a b = true ∨ leStart b a = true := by
  simp only [leStart, decide_eq_true_eq]; omega
theorem leStart_trans (a b c : HHit) : leStart a b = true → leStart b c = true → leStart a c = true := by
  simp only [leStart, decide_eq_true_eq]; omega

/-- scores and cut-offs are positive (the domain on which the model answers `.ok`) -/
def Valid (c : Int → Int) (h : HHit) : Prop := 0 < h.sc ∧ 0 < c h.ident

theorem rankLe_total (c : Int → Int) (a b : HHit) : rankLe c a b = true ∨ rankLe c b a = true := by
  simp only [rankLe, decide_eq_true_eq]; omega

theorem rankLe_trans (c : Int → Int) (x y z : HHit) (hx : Valid c x) (hy : Valid c y) (hz : Valid c z)
    (h1 : rankLe c x y = true) (h2 : rankLe c y z = true) : rankLe c x z = true := by
  simp only [rankLe, decide_eq_true_eq] at h1 h2 ⊢
  obtain ⟨sx, cx⟩ := hx
  obtain ⟨sy, cy⟩ := hy
  obtain ⟨sz, cz⟩ := hz
  -- `c x * y.sc ≤ c y * x.sc` is the comparison of the ratios cutoff/score
  have le1 : c x.ident * y.sc ≤ c y.ident * x.sc := by omega
  have le2 : c y.ident * z.sc ≤ c z.ident * y.sc := by omega
  have le3 : c x.ident * z.sc ≤ c z.ident * x.sc := cross_le_trans sy (by omega) (by omega) le1 le2
  by_cases e1 : c x.ident * y.sc < c y.ident * x.sc
  · left; exact cross_lt_of_lt_of_le sy (by omega) sz e1 le2
  · by_cases e2 : c y.ident * z.sc < c z.ident * y.sc
    · left; exact cross_lt_of_le_of_lt sy sx (by omega) le1 e2
    · have ge1 : c y.ident * x.sc ≤ c x.ident * y.sc := by omega
      have ge2 : c z.ident * y.sc ≤ c y.ident * z.sc := by omega
      have ge3 : c z.ident * x.sc ≤ c x.ident * z.sc := cross_le_trans sy (by omega) (by omega) ge2 ge1
      right
      refine ⟨by omega, ?_⟩
      omega

theorem rankLe_antisymm (c : Int → Int) (a b : HHit) (ha : Valid c a)
    (h1 : rankLe c a b = true) (h2 : rankLe c b a = true) : a = b := by
  simp only [rankLe, decide_eq_true_eq] at h1 h2
  simp only [HHit.length] at h1 h2
  have h : c a.ident * b.sc = c b.ident * a.sc ∧ a.pe - a.ps = b.pe - b.ps ∧ a.ps = b.ps ∧ a.ident = b.ident := by
    omega
  obtain ⟨e1, e2, e3, e4⟩ := h
  rw [e4] at e1
  have hc : 0 < c b.ident := by rw [← e4]; exact ha.2
  have e5 : b.sc = a.sc := Int.eq_of_mul_eq_mul_left (by omega) e1
  have e6 : a.pe = b.pe := by omega
  cases a; cases b; simp_all

theorem rankLe_iff_ranksAtLeast (c : Int → Int) (k d : HHit) : rankLe c k d = ranksAtLeast c k d := by
  rw [Bool.eq_iff_iff]
  simp only [rankLe, ranksAtLeast, decide_eq_true_eq, Bool.or_eq_true, Bool.and_eq_true, beq_iff_eq]
  have e1 : c k.ident * d.sc = d.sc * c k.ident := Int.mul_comm _ _
  have e2 : c d.ident * k.sc = k.sc * c d.ident := Int.mul_comm _ _
  constructor <;> intro h <;> omega

theorem clash_eq_tooClose (limit : Int) (a b : HHit) : clash limit a b = tooClose limit a b := by
  simp only [clash, tooClose]
  by_cases h1 : b.ps ≤ a.pe - limit <;> by_cases h2 : b.pe ≥ a.ps + limit <;> simp [h1, h2] <;> omega

theorem tooClose_symm (limit : Int) (a b : HHit) : tooClose limit a b = tooClose limit b a := by
  simp only [tooClose, Bool.and_comm]

/-! ### `addNew`, the grouping sweep -/

theorem mem_addNew {α} [DecidableEq α] {l : List α} {a x : α} : x ∈ addNew l a ↔ x ∈ l ∨ x = a := by
  simp only [addNew]
  split
  · rename_i h
    have : a ∈ l := by simpa using h
    constructor
    · exact Or.inl
    · rintro (h | rfl)
      · exact h
      · exact this
  · simp

theorem count_addNew_le {α} [DecidableEq α] (l : List α) (a x : α) :
    (addNew l a).count x ≤ l.count x + [a].count x := by
  simp only [addNew]
  split
  · omega
  · simp [List.count_append]

theorem mem_groupsFrom (limit : Int) : ∀ (cur : List HHit) (maxc : Int) (rest : List HHit) (x : HHit),
    (∃ g ∈ groupsFrom limit cur maxc rest, x ∈ g) ↔ x ∈ cur ∨ x ∈ rest
  | cur, maxc, [], x => by simp [groupsFrom]
  | cur, maxc, hit :: rest, x => by
    simp only [groupsFrom]
    split
    · simp only [List.mem_cons, exists_eq_or_imp]
      have ih := mem_groupsFrom limit [hit] hit.pe rest x
      simp only [List.mem_singleton] at ih
      rw [ih]
    · rw [mem_groupsFrom limit (addNew cur hit) (max maxc hit.pe) rest x, mem_addNew]
      simp only [List.mem_cons]
      constructor
      · rintro ((h | h) | h)
        · exact Or.inl h
        · exact Or.inr (Or.inl h)
        · exact Or.inr (Or.inr h)
      · rintro (h | h | h)
        · exact Or.inl (Or.inl h)
        · exact Or.inl (Or.inr h)
        · exact Or.inr h

theorem count_groupsFrom_le (limit : Int) (x : HHit) : ∀ (cur : List HHit) (maxc : Int) (rest : List HHit),
    (groupsFrom limit cur maxc rest).flatten.count x ≤ cur.count x + rest.count x
  | cur, maxc, [] => by simp [groupsFrom]
  | cur, maxc, hit :: rest => by
    simp only [groupsFrom]
    split
    · have ih := count_groupsFrom_le limit x [hit] hit.pe rest
      simp only [List.flatten_cons, List.count_append]
      have : (hit :: rest).count x = [hit].count x + rest.count x := by
        rw [show hit :: rest = [hit] ++ rest from rfl, List.count_append]
      omega
    · have ih := count_groupsFrom_le limit x (addNew cur hit) (max maxc hit.pe) rest
      have h1 := count_addNew_le cur hit x
      have : (hit :: rest).count x = [hit].count x + rest.count x := by
        rw [show hit :: rest = [hit] ++ rest from rfl, List.count_append]
      omega

/-- hits of a closed group end at most `limit` after any hit of a later group starts -/
theorem groupsFrom_separated (limit : Int) : ∀ (cur : List HHit) (maxc : Int) (rest : List HHit),
    (∀ a ∈ cur, a.pe ≤ maxc) → rest.Pairwise (fun a b => a.ps ≤ b.ps) →
    (groupsFrom limit cur maxc rest).Pairwise (fun g1 g2 => ∀ a ∈ g1, ∀ b ∈ g2, tooClose limit a b = false)
  | cur, maxc, [], _, _ => by simp [groupsFrom]
  | cur, maxc, hit :: rest, hc, hs => by
    have hsp := List.pairwise_cons.mp hs
    simp only [groupsFrom]
    split
    · rename_i hclose
      refine List.Pairwise.cons ?_ (groupsFrom_separated limit [hit] hit.pe rest
        (by intro a ha; simp at ha; subst ha; exact Int.le_refl _) hsp.2)
      intro g2 hg2 a ha b hb
      have hb' : b ∈ [hit] ∨ b ∈ rest := (mem_groupsFrom limit [hit] hit.pe rest b).mp ⟨g2, hg2, hb⟩
      have hbs : hit.ps ≤ b.ps := by
        rcases hb' with h | h
        · simp at h; subst h; exact Int.le_refl _
        · exact hsp.1 b h
      have hae := hc a ha
      simp only [tooClose, Bool.and_eq_false_iff, decide_eq_false_iff_not]
      right; omega
    · apply groupsFrom_separated limit (addNew cur hit) (max maxc hit.pe) rest _ hsp.2
      intro a ha
      rcases mem_addNew.mp ha with h | rfl
      · have := hc a h; omega
      · omega

/-! ### the filter stage of one group -/

theorem bestOf_mono (limit : Int) : ∀ (best l : List HHit), ∀ x ∈ best, x ∈ bestOf limit best l
  | best, [], x, hx => by simpa [bestOf] using hx
  | best, h :: rest, x, hx => by
    simp only [bestOf]
    split
    · exact bestOf_mono limit best rest x hx
    · exact bestOf_mono limit (best ++ [h]) rest x (List.mem_append_left _ hx)

theorem mem_bestOf (limit : Int) : ∀ (best l : List HHit), ∀ x ∈ bestOf limit best l, x ∈ best ∨ x ∈ l
  | best, [], x, hx => by left; simpa [bestOf] using hx
  | best, h :: rest, x, hx => by
    simp only [bestOf] at hx
    split at hx
    · rcases mem_bestOf limit best rest x hx with h1 | h1
      · exact Or.inl h1
      · exact Or.inr (List.mem_cons_of_mem _ h1)
    · rcases mem_bestOf limit (best ++ [h]) rest x hx with h1 | h1
      · rcases List.mem_append.mp h1 with h2 | h2
        · exact Or.inl h2
        · simp at h2; subst h2; exact Or.inr (by simp)
      · exact Or.inr (List.mem_cons_of_mem _ h1)

theorem count_bestOf_le (limit : Int) (x : HHit) : ∀ (best l : List HHit),
    (bestOf limit best l).count x ≤ best.count x + l.count x
  | best, [] => by simp [bestOf]
  | best, h :: rest => by
    have e : (h :: rest).count x = [h].count x + rest.count x := by
      rw [show h :: rest = [h] ++ rest from rfl, List.count_append]
    simp only [bestOf]
    split
    · have := count_bestOf_le limit x best rest; omega
    · have := count_bestOf_le limit x (best ++ [h]) rest
      rw [List.count_append] at this; omega

theorem bestOf_separated (limit : Int) : ∀ (best l : List HHit),
    best.Pairwise (fun a b => tooClose limit a b = false) →
    (bestOf limit best l).Pairwise (fun a b => tooClose limit a b = false)
  | best, [], hb => by simpa [bestOf] using hb
  | best, h :: rest, hb => by
    simp only [bestOf]
    split
    · exact bestOf_separated limit best rest hb
    · rename_i hno
      apply bestOf_separated limit (best ++ [h]) rest
      rw [List.pairwise_append]
      refine ⟨hb, by simp, ?_⟩
      intro a ha b hb'
      simp at hb'; subst hb'
      have : ¬ (best.any fun other => clash limit other b) = true := hno
      rw [List.any_eq_true] at this
      have h2 : clash limit a b ≠ true := fun hc => this ⟨a, ha, hc⟩
      rw [clash_eq_tooClose] at h2
      simpa using h2

/-- every hit of the (rank-sorted) group is kept or clashes with a kept hit ranked before it -/
theorem bestOf_justified (c : Int → Int) (limit : Int) : ∀ (best l : List HHit),
    l.Pairwise (fun a b => rankLe c a b = true) → ∀ d ∈ l,
    d ∈ bestOf limit best l ∨ ∃ k ∈ bestOf limit best l, tooClose limit k d = true ∧ (k ∈ best ∨ rankLe c k d = true)
  | best, [], _, d, hd => by simp at hd
  | best, h :: rest, hs, d, hd => by
    have hsp := List.pairwise_cons.mp hs
    simp only [bestOf]
    split
    · rename_i hcl
      rcases List.mem_cons.mp hd with rfl | hd'
      · rw [List.any_eq_true] at hcl
        obtain ⟨k, hk, hc⟩ := hcl
        rw [clash_eq_tooClose] at hc
        exact Or.inr ⟨k, bestOf_mono limit best rest k hk, hc, Or.inl hk⟩
      · exact bestOf_justified c limit best rest hsp.2 d hd'
    · rcases List.mem_cons.mp hd with rfl | hd'
      · exact Or.inl (bestOf_mono limit _ rest d (by simp))
      · rcases bestOf_justified c limit (best ++ [h]) rest hsp.2 d hd' with h1 | ⟨k, hk, hc, hr⟩
        · exact Or.inl h1
        · refine Or.inr ⟨k, hk, hc, ?_⟩
          rcases hr with hr | hr
          · rcases List.mem_append.mp hr with h2 | h2
            · exact Or.inl h2
            · simp at h2; subst h2; exact Or.inr (hsp.1 d hd')
          · exact Or.inr hr

/-! ### the whole function (after the input checks) -/

/-- the pieces of `core`: sorted hits, groups, the hits before the final sort -/
structure Run (c : Int → Int) (limit : Int) (hits : List HHit) where
  h0 : HHit
  rest : List HHit
  sorted : sortBy leTotal hits = h0 :: rest
  out_eq : core c limit hits = sortBy leStart
    ((groupsFrom limit [h0] h0.pe rest).flatMap fun g => bestOf limit [] (sortBy (rankLe c) g))

def Run.groups {c : Int → Int} {limit : Int} {hits : List HHit} (r : Run c limit hits) : List (List HHit) :=
  groupsFrom limit [r.h0] r.h0.pe r.rest

def Run.cleaned {c : Int → Int} {limit : Int} {hits : List HHit} (r : Run c limit hits) : List HHit :=
  r.groups.flatMap fun g => bestOf limit [] (sortBy (rankLe c) g)

theorem run_of_ne_nil (c : Int → Int) (limit : Int) {hits : List HHit} (h : hits ≠ []) :
    Nonempty (Run c limit hits) := by
  cases hs : sortBy leTotal hits with
  | nil => exact absurd hs (sortBy_ne_nil leTotal h)
  | cons h0 rest => exact ⟨⟨h0, rest, hs, by simp only [core, hs]⟩⟩

theorem core_nil (c : Int → Int) (limit : Int) : core c limit [] = [] := by simp [core, sortBy]

namespace Run
variable {c : Int → Int} {limit : Int} {hits : List HHit}

theorem out_perm (r : Run c limit hits) : (core c limit hits).Perm r.cleaned := by
  rw [r.out_eq]; exact sortBy_perm leStart _

theorem mem_sorted (r : Run c limit hits) {x : HHit} : x ∈ r.h0 :: r.rest ↔ x ∈ hits := by
  rw [← r.sorted, mem_sortBy]

theorem rest_sorted (r : Run c limit hits) : r.rest.Pairwise (fun a b => a.ps ≤ b.ps) := by
  have h := sortBy_pairwise leTotal_total leTotal_trans hits
  rw [r.sorted] at h
  exact (List.pairwise_cons.mp h).2.imp leTotal_start

theorem mem_group (r : Run c limit hits) {x : HHit} : (∃ g ∈ r.groups, x ∈ g) ↔ x ∈ hits := by
  rw [Run.groups, mem_groupsFrom, ← r.mem_sorted]; simp

theorem mem_cleaned (r : Run c limit hits) {x : HHit} (hx : x ∈ r.cleaned) : ∃ g ∈ r.groups, x ∈ g ∧ x ∈ bestOf limit [] (sortBy (rankLe c) g) := by
  simp only [Run.cleaned, List.mem_flatMap] at hx
  obtain ⟨g, hg, hxg⟩ := hx
  refine ⟨g, hg, ?_, hxg⟩
  rcases mem_bestOf limit [] _ x hxg with h | h
  · simp at h
  · exact (mem_sortBy _).mp h

theorem cleaned_of_bestOf (r : Run c limit hits) {g : List HHit} {x : HHit} (hg : g ∈ r.groups)
    (hx : x ∈ bestOf limit [] (sortBy (rankLe c) g)) : x ∈ r.cleaned := by
  simp only [Run.cleaned, List.mem_flatMap]; exact ⟨g, hg, hx⟩

theorem mem_out (r : Run c limit hits) {x : HHit} : x ∈ core c limit hits ↔ x ∈ r.cleaned := r.out_perm.mem_iff

theorem out_subset (r : Run c limit hits) {x : HHit} (hx : x ∈ core c limit hits) : x ∈ hits := by
  obtain ⟨g, hg, hxg, _⟩ := r.mem_cleaned (r.mem_out.mp hx)
  exact r.mem_group.mp ⟨g, hg, hxg⟩

theorem count_flatMap_le {f : List HHit → List HHit} (x : HHit) (hf : ∀ g, (f g).count x ≤ g.count x) :
    ∀ gs : List (List HHit), (gs.flatMap f).count x ≤ gs.flatten.count x
  | [] => by simp
  | g :: gs => by
    simp only [List.flatMap_cons, List.flatten_cons, List.count_append]
    have := count_flatMap_le x hf gs
    have := hf g
    omega

theorem out_count_le (r : Run c limit hits) (x : HHit) : (core c limit hits).count x ≤ hits.count x := by
  rw [r.out_perm.count_eq x]
  have h1 : r.cleaned.count x ≤ r.groups.flatten.count x := by
    apply count_flatMap_le x
    intro g
    have := count_bestOf_le limit x [] (sortBy (rankLe c) g)
    rw [(sortBy_perm (rankLe c) g).count_eq x] at this
    simpa using this
  have h2 := count_groupsFrom_le limit x [r.h0] r.h0.pe r.rest
  have h3 : hits.count x = (r.h0 :: r.rest).count x := by
    rw [← r.sorted, (sortBy_perm leTotal hits).count_eq x]
  have h4 : (r.h0 :: r.rest).count x = [r.h0].count x + r.rest.count x := by
    rw [show r.h0 :: r.rest = [r.h0] ++ r.rest from rfl, List.count_append]
  simp only [Run.groups] at h1
  omega

theorem cleaned_separated (r : Run c limit hits) : r.cleaned.Pairwise (fun a b => tooClose limit a b = false) := by
  simp only [Run.cleaned]
  rw [List.pairwise_flatMap]
  refine ⟨fun g _ => bestOf_separated limit [] _ List.Pairwise.nil, ?_⟩
  have hsep := groupsFrom_separated limit [r.h0] r.h0.pe r.rest
    (by intro a ha; simp at ha; subst ha; exact Int.le_refl _) r.rest_sorted
  refine hsep.imp ?_
  intro g1 g2 h x hx y hy
  have hx' : x ∈ g1 := by
    rcases mem_bestOf limit [] _ x hx with h | h
    · simp at h
    · exact (mem_sortBy _).mp h
  have hy' : y ∈ g2 := by
    rcases mem_bestOf limit [] _ y hy with h | h
    · simp at h
    · exact (mem_sortBy _).mp h
  exact h x hx' y hy'

theorem out_separated (r : Run c limit hits) : (core c limit hits).Pairwise (fun a b => tooClose limit a b = false) := by
  rw [List.Perm.pairwise_iff (fun {x y} h => by rw [tooClose_symm]; exact h) r.out_perm]
  exact r.cleaned_separated

theorem out_sorted (r : Run c limit hits) : (core c limit hits).Pairwise (fun a b => a.ps ≤ b.ps) := by
  rw [r.out_eq]
  exact (sortBy_pairwise leStart_total leStart_trans _).imp (fun h => by simpa [leStart] using h)

theorem group_sorted (r : Run c limit hits) (hv : ∀ h ∈ hits, Valid c h) {g : List HHit} (hg : g ∈ r.groups) :
    (sortBy (rankLe c) g).Pairwise (fun a b => rankLe c a b = true) := by
  apply sortBy_pairwise_on (Valid c) (fun a b _ _ => rankLe_total c a b)
    (fun a b d ha hb hd => rankLe_trans c a b d ha hb hd)
  intro x hx
  exact hv x (r.mem_group.mp ⟨g, hg, hx⟩)

theorem out_justified (r : Run c limit hits) (hv : ∀ h ∈ hits, Valid c h) : ∀ d ∈ hits,
    d ∈ core c limit hits ∨ ∃ k ∈ core c limit hits, tooClose limit k d = true ∧ rankLe c k d = true := by
  intro d hd
  obtain ⟨g, hg, hdg⟩ := r.mem_group.mpr hd
  rcases bestOf_justified c limit [] (sortBy (rankLe c) g) (r.group_sorted hv hg) d ((mem_sortBy _).mpr hdg) with
    h | ⟨k, hk, hc, hr⟩
  · exact Or.inl (r.mem_out.mpr (r.cleaned_of_bestOf hg h))
  · refine Or.inr ⟨k, r.mem_out.mpr (r.cleaned_of_bestOf hg hk), hc, ?_⟩
    rcases hr with hr | hr
    · simp at hr
    · exact hr

theorem out_top (r : Run c limit hits) (hv : ∀ h ∈ hits, Valid c h) (t : HHit) (ht : t ∈ hits)
    (htop : ∀ o ∈ hits, rankLe c t o = true) : t ∈ core c limit hits := by
  obtain ⟨g, hg, htg⟩ := r.mem_group.mpr ht
  have hs := r.group_sorted hv hg
  have htm : t ∈ sortBy (rankLe c) g := (mem_sortBy _).mpr htg
  cases hsg : sortBy (rankLe c) g with
  | nil => rw [hsg] at htm; simp at htm
  | cons a tl =>
    rw [hsg] at hs htm
    have ha_g : a ∈ g := (mem_sortBy (rankLe c)).mp (by rw [hsg]; simp)
    have ha : a ∈ hits := r.mem_group.mp ⟨g, hg, ha_g⟩
    have hat : a = t := by
      rcases List.mem_cons.mp htm with h | h
      · exact h.symm
      · exact rankLe_antisymm c a t (hv a ha) ((List.pairwise_cons.mp hs).1 t h) (htop a ha)
    subst hat
    apply r.mem_out.mpr
    apply r.cleaned_of_bestOf hg
    rw [hsg]
    simp only [bestOf, List.any_nil, Bool.false_eq_true, if_false, List.nil_append]
    exact bestOf_mono limit [a] tl a (by simp)

end Run

/-- `core` depends only on the multiset of hits -/
theorem core_perm (c : Int → Int) (limit : Int) {l₁ l₂ : List HHit} (h : l₁.Perm l₂) :
    core c limit l₁ = core c limit l₂ := by
  simp only [core, sortBy_eq_of_perm leTotal_total leTotal_trans leTotal_antisymm h]

/-- when the model answers `.ok`: non-empty input, every identifier has a cut-off, scores and
    cut-offs positive; the answer is `core` -/
theorem removeOverlapping_ok {cut : Int → Option Int} {limit : Int} {hits out : List HHit}
    (h : removeOverlapping cut limit hits = .ok out) :
    hits ≠ [] ∧ (∀ x ∈ hits, Valid (fun i => (cut i).getD 0) x ∧ (cut x.ident).isSome = true) ∧
    out = core (fun i => (cut i).getD 0) limit hits := by
  cases hits with
  | nil => simp [removeOverlapping] at h
  | cons a t =>
    simp only [removeOverlapping] at h
    split at h
    · split at h <;> simp at h
    · rename_i hfind
      split at h
      · simp at h
      · rename_i hany
        simp only [Except.ok.injEq] at h
        refine ⟨by simp, ?_, h.symm⟩
        intro x hx
        have h1 := List.find?_eq_none.mp hfind x hx
        have h2 : ¬ ((decide (x.sc < 0) || decide ((cut x.ident).getD 0 ≤ 0)) = true) := by
          intro hc
          exact hany (List.any_eq_true.mpr ⟨x, hx, hc⟩)
        simp only [Bool.or_eq_true, decide_eq_true_eq, beq_iff_eq, not_or] at h1 h2
        refine ⟨⟨by omega, by show 0 < (cut x.ident).getD 0; omega⟩, ?_⟩
        cases hc : cut x.ident with
        | none => simp [hc] at h1
        | some v => rfl

theorem removeOverlapping_perm {cut : Int → Option Int} {limit : Int} {l₁ l₂ out : List HHit}
    (hp : l₁.Perm l₂) (h : removeOverlapping cut limit l₁ = .ok out) :
    removeOverlapping cut limit l₂ = .ok out := by
  obtain ⟨hne, hv, ho⟩ := removeOverlapping_ok h
  have hne2 : l₂ ≠ [] := by
    intro e; subst e; exact hne (List.Perm.eq_nil hp)
  cases l₂ with
  | nil => exact absurd rfl hne2
  | cons a t =>
    have hfind : (a :: t).find? (fun h => (cut h.ident).isNone || h.sc == 0) = none := by
      rw [List.find?_eq_none]
      intro x hx
      have := hv x (hp.mem_iff.mpr hx)
      have h1 := this.1.1
      have h2 := this.2
      simp only [Bool.or_eq_true, beq_iff_eq, not_or]
      refine ⟨?_, by omega⟩
      cases hc : cut x.ident with
      | none => simp [hc] at h2
      | some v => simp
    have hany : ¬ ((a :: t).any (fun h => decide (h.sc < 0) || decide ((cut h.ident).getD 0 ≤ 0)) = true) := by
      rw [List.any_eq_true]
      rintro ⟨x, hx, hc⟩
      have := (hv x (hp.mem_iff.mpr hx)).1
      simp only [Valid] at this
      simp only [Bool.or_eq_true, decide_eq_true_eq] at hc
      omega
    simp only [removeOverlapping, hfind, hany, if_false, Bool.false_eq_true]
    rw [ho, core_perm _ _ hp]

end ASV.HitFilter
