/-
  C14 helper lemma: the position-by-position reading of the layout (`layoutIdx`, with indices)
  is the same predicate as the recursive `layout`.
-/
import ASV.Spec.Modules
namespace ASV.Modules.Spec

theorem layoutFrom_eq_idx : ∀ (cs pre : List Comp),
    layoutFrom pre cs = (List.range cs.length).all fun i =>
      match cs[i]? with
      | some c => positionOK (pre ++ cs.take i) c (cs.drop (i + 1))
      | none => true
  | [], pre => by simp [layoutFrom]
  | c :: rest, pre => by
    rw [layoutFrom, layoutFrom_eq_idx rest (pre ++ [c])]
    simp only [List.length_cons, List.range_succ_eq_map, List.all_cons, List.all_map]
    congr 1
    · simp
    · apply List.all_congr rfl
      simp [List.append_assoc]

theorem layout_eq_layoutIdx (cs : List Comp) : layout cs = layoutIdx cs := by
  unfold layout layoutIdx
  rw [layoutFrom_eq_idx]
  simp only [List.nil_append]
  apply List.all_congr rfl
  intro i
  cases cs[i]? <;> rfl

end ASV.Modules.Spec
