/-
  C15 helper lemmas: the scanning loop of `scan_orfs` yields exactly the open reading frames
  of its frame (`IsOrf`), by induction on the loop with the latch invariant.
-/
import ASV.Spec.Orf
namespace ASV.Orf
open ASV

/-- the code's codon tables (regenerated from the tree under test on every run) contain exactly
    the documented codons -/
theorem tables_as_documented :
    (∀ c ∈ Gen.startCodons, c ∈ docStartCodons) ∧ (∀ c ∈ docStartCodons, c ∈ Gen.startCodons) ∧
    (∀ c ∈ Gen.stopCodons, c ∈ docStopCodons) ∧ (∀ c ∈ docStopCodons, c ∈ Gen.stopCodons) := by decide

theorem isStart_eq (c : Seq) : isStart c = isStartDoc c := by
  rw [Bool.eq_iff_iff]
  simp only [isStart, isStartDoc, List.contains_eq_mem, decide_eq_true_eq]
  exact ⟨tables_as_documented.1 c, tables_as_documented.2.1 c⟩

theorem isStop_eq (c : Seq) : isStop c = isStopDoc c := by
  rw [Bool.eq_iff_iff]
  simp only [isStop, isStopDoc, List.contains_eq_mem, decide_eq_true_eq]
  exact ⟨tables_as_documented.2.2.1 c, tables_as_documented.2.2.2 c⟩

theorem start_stop_disjoint : ∀ c ∈ docStartCodons, c ∉ docStopCodons := by decide

theorem not_start_and_stop (c : Seq) (h1 : isStartDoc c = true) (h2 : isStopDoc c = true) : False := by
  simp only [isStartDoc, isStopDoc, List.contains_eq_mem, decide_eq_true_eq] at h1 h2
  exact start_stop_disjoint c h1 h2

/-- latch empty at `i`: every earlier in-frame start codon has been closed by a stop -/
def NoPending (w : Seq) (i : Nat) : Prop :=
  ∀ p, p < i → p % 3 = i % 3 → StartAt w p → ∃ q, p < q ∧ q < i ∧ q % 3 = i % 3 ∧ StopAt w q

/-- latch holds `s` at `i` -/
structure Pending (w : Seq) (i s : Nat) : Prop where
  lt : s < i
  frame : s % 3 = i % 3
  start : StartAt w s
  noStop : ∀ q, s < q → q < i → q % 3 = s % 3 → ¬ StopAt w q
  first : ∀ p, p < s → p % 3 = s % 3 → StartAt w p → ∃ q, p < q ∧ q < s ∧ q % 3 = s % 3 ∧ StopAt w q

def LatchInv (w : Seq) (i : Nat) : Option Nat → Prop
  | none => NoPending w i
  | some s => Pending w i s

/-- what the remaining `cnt` iterations from `i` must report -/
def Hit (w : Seq) (minLen : Int) (i cnt s e : Nat) : Prop :=
  i ≤ e ∧ e < i + 3 * cnt ∧ e % 3 = i % 3 ∧ IsOrf w s e ∧ minLen < orfLen s e

theorem hit_zero (w : Seq) (minLen : Int) (i s e : Nat) : ¬ Hit w minLen i 0 s e := by
  intro h; have := h.1; have := h.2.1; omega

theorem hit_succ (w : Seq) (minLen : Int) (i cnt s e : Nat) :
    Hit w minLen i (cnt + 1) s e ↔
      (e = i ∧ IsOrf w s i ∧ minLen < orfLen s i) ∨ Hit w minLen (i + 3) cnt s e := by
  constructor
  · rintro ⟨h1, h2, h3, h4, h5⟩
    by_cases he : e = i
    · subst he; exact Or.inl ⟨rfl, h4, h5⟩
    · exact Or.inr ⟨by omega, by omega, by omega, h4, h5⟩
  · rintro (⟨rfl, h4, h5⟩ | ⟨h1, h2, h3, h4, h5⟩)
    · exact ⟨Nat.le_refl _, by omega, rfl, h4, h5⟩
    · exact ⟨by omega, by omega, by omega, h4, h5⟩

/-- an ORF ending at `i` while the latch holds `s0` starts at `s0` -/
theorem pending_unique {w : Seq} {i s0 s : Nat} (hp : Pending w i s0) (ho : IsOrf w s i) : s = s0 := by
  rcases Nat.lt_trichotomy s s0 with h | h | h
  · obtain ⟨q, hq1, hq2, hq3, hq4⟩ := hp.first s h (by have := ho.frame; have := hp.frame; omega) ho.start
    exact absurd hq4 (ho.noStop q hq1 (by have := hp.lt; omega) (by have := ho.frame; have := hp.frame; omega))
  · exact h
  · obtain ⟨q, hq1, hq2, hq3, hq4⟩ := ho.first s0 h (by have := ho.frame; have := hp.frame; omega) hp.start
    exact absurd hq4 (hp.noStop q hq1 (by have := ho.lt; omega) (by have := ho.frame; have := hp.frame; omega))

/-- no ORF ends at `i` while the latch is empty -/
theorem noPending_no_orf {w : Seq} {i s : Nat} (hn : NoPending w i) (ho : IsOrf w s i) : False := by
  obtain ⟨q, hq1, hq2, hq3, hq4⟩ := hn s ho.lt ho.frame ho.start
  exact ho.noStop q hq1 hq2 (by have := ho.frame; omega) hq4

theorem pending_isOrf {w : Seq} {i s0 : Nat} (hp : Pending w i s0) (hstop : StopAt w i)
    (hin : i + 3 ≤ w.length) : IsOrf w s0 i :=
  ⟨hp.frame, hp.lt, hin, hp.start, hstop, hp.noStop, hp.first⟩

/-- after a stop codon at `i` the latch is empty at `i + 3` -/
theorem noPending_after_stop {w : Seq} {i : Nat} (hstop : StopAt w i) : NoPending w (i + 3) := by
  intro p hp hf hs
  by_cases hpi : p = i
  · subst hpi; exact (not_start_and_stop _ hs hstop).elim
  · exact ⟨i, by omega, by omega, by omega, hstop⟩

theorem noPending_step {w : Seq} {i : Nat} (hn : NoPending w i) (hns : ¬ StartAt w i) :
    NoPending w (i + 3) := by
  intro p hp hf hs
  by_cases hpi : p = i
  · subst hpi; exact (hns hs).elim
  · obtain ⟨q, h1, h2, h3, h4⟩ := hn p (by omega) (by omega) hs
    exact ⟨q, h1, by omega, by omega, h4⟩

theorem pending_new {w : Seq} {i : Nat} (hn : NoPending w i) (hs : StartAt w i) : Pending w (i + 3) i :=
  ⟨by omega, by omega, hs, fun q h1 h2 h3 => by omega, fun p h1 h2 h3 => by
    obtain ⟨q, a, b, c, d⟩ := hn p h1 h2 h3; exact ⟨q, a, b, c, d⟩⟩

theorem pending_step {w : Seq} {i s0 : Nat} (hp : Pending w i s0) (hns : ¬ StopAt w i) :
    Pending w (i + 3) s0 :=
  ⟨by have := hp.lt; omega, by have := hp.frame; omega, hp.start, fun q h1 h2 h3 => by
    by_cases hq : q = i
    · subst hq; exact hns
    · exact hp.noStop q h1 (by have := hp.frame; omega) h3, hp.first⟩

/-- the loop reports exactly the ORFs ending in the positions it still has to visit -/
theorem scanLoop_mem (w : Seq) (minLen : Int) :
    ∀ (cnt i : Nat) (start : Option Nat), LatchInv w i start → (cnt ≠ 0 → i + 3 * cnt ≤ w.length) →
    ∀ s e, (s, e) ∈ scanLoop w minLen cnt i start ↔ Hit w minLen i cnt s e := by
  intro cnt
  induction cnt with
  | zero =>
    intro i start _ _ s e
    simp only [scanLoop, List.not_mem_nil, false_iff]
    exact hit_zero w minLen i s e
  | succ cnt ih =>
    intro i start hinv hb s e
    have hin : i + 3 ≤ w.length := by have := hb (by omega); omega
    have hb' : cnt ≠ 0 → i + 3 + 3 * cnt ≤ w.length := by intro _; have := hb (by omega); omega
    rw [hit_succ]
    unfold scanLoop
    simp only [isStart_eq, isStop_eq]
    cases start with
    | none =>
      have hn : NoPending w i := hinv
      have hno : ¬ (e = i ∧ IsOrf w s i ∧ minLen < orfLen s i) := fun h => noPending_no_orf hn h.2.1
      by_cases hst : isStartDoc (codonAt w i) = true
      · simp only [Option.isNone_none, hst, Bool.and_self, if_true]
        rw [ih (i + 3) (some i) (pending_new hn hst) hb']
        simp only [hno, false_or]
      · simp only [hst, Bool.and_false, Bool.false_eq_true, if_false]
        by_cases hsp : isStopDoc (codonAt w i) = true
        · simp only [hsp, if_true]
          rw [ih (i + 3) none (noPending_after_stop hsp) hb']
          simp only [hno, false_or]
        · simp only [hsp, Bool.false_eq_true, if_false]
          rw [ih (i + 3) none (noPending_step hn hst) hb']
          simp only [hno, false_or]
    | some s0 =>
      have hp : Pending w i s0 := hinv
      simp only [Option.isNone_some, Bool.false_and, Bool.false_eq_true, if_false]
      by_cases hsp : isStopDoc (codonAt w i) = true
      · simp only [hsp, if_true]
        have horf : IsOrf w s0 i := pending_isOrf hp hsp hin
        by_cases hlen : ((i : Int) + 2) - (s0 : Int) < minLen
        · simp only [hlen, if_true]
          rw [ih (i + 3) none (noPending_after_stop hsp) hb']
          have hno : ¬ (e = i ∧ IsOrf w s i ∧ minLen < orfLen s i) := by
            rintro ⟨_, ho, hl⟩
            have := pending_unique hp ho
            subst this
            simp only [orfLen] at hl
            omega
          simp only [hno, false_or]
        · simp only [hlen, if_false, List.mem_cons, Prod.mk.injEq]
          rw [ih (i + 3) none (noPending_after_stop hsp) hb']
          have hiff : (s = s0 ∧ e = i) ↔ (e = i ∧ IsOrf w s i ∧ minLen < orfLen s i) := by
            constructor
            · rintro ⟨rfl, rfl⟩
              refine ⟨rfl, horf, ?_⟩
              simp only [orfLen]; omega
            · rintro ⟨he, ho, _⟩
              exact ⟨pending_unique hp ho, he⟩
          rw [hiff]
      · simp only [hsp, Bool.false_eq_true, if_false]
        rw [ih (i + 3) (some s0) (pending_step hp hsp) hb']
        have hno : ¬ (e = i ∧ IsOrf w s i ∧ minLen < orfLen s i) := fun h => hsp h.2.1.stop
        simp only [hno, false_or]

theorem frameCount_bound (n f : Nat) (h : frameCount n f ≠ 0) : f + 3 * frameCount n f ≤ n := by
  unfold frameCount at *; omega

theorem frameCount_covers (n f e : Nat) (he : e % 3 = f) (hin : e + 3 ≤ n) :
    e < f + 3 * frameCount n f := by
  unfold frameCount; omega

/-- frame `f` of `scan_orfs` reports exactly the ORFs of that frame longer than `minLen` -/
theorem scanFrame_mem (w : Seq) (minLen : Int) (f : Nat) (hf : f < 3) (s e : Nat) :
    (s, e) ∈ scanFrame w minLen f ↔ s % 3 = f ∧ IsOrf w s e ∧ minLen < orfLen s e := by
  unfold scanFrame
  rw [scanLoop_mem w minLen _ f none (fun p hp hfr _ => by omega) (frameCount_bound _ _)]
  constructor
  · rintro ⟨h1, h2, h3, h4, h5⟩
    exact ⟨by have := h4.frame; omega, h4, h5⟩
  · rintro ⟨h1, h4, h5⟩
    have h3 : e % 3 = f := by have := h4.frame; omega
    exact ⟨by omega, frameCount_covers _ _ _ h3 h4.inside, by omega, h4, h5⟩

end ASV.Orf
