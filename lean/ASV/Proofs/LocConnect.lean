/-
  Helper lemmas for `connect_locations` (C04).
-/
import ASV.Proofs.Loc
import ASV.Model.LocOps
namespace ASV


theorem foldl_max_ge_init (l : List Int) (x : Int) : x ≤ l.foldl max x := by
  induction l generalizing x with
  | nil => simp
  | cons y ys ih => simp only [List.foldl_cons]; exact Int.le_trans (Int.le_max_left _ _) (ih _)

theorem foldl_max_ge_mem (l : List Int) (x y : Int) (hy : y ∈ l) : y ≤ l.foldl max x := by
  induction l generalizing x with
  | nil => cases hy
  | cons z zs ih =>
    simp only [List.foldl_cons]
    rcases List.mem_cons.1 hy with rfl | h
    · exact Int.le_trans (Int.le_max_right _ _) (foldl_max_ge_init _ _)
    · exact ih _ h

theorem foldl_max_mem (l : List Int) (x : Int) : l.foldl max x = x ∨ l.foldl max x ∈ l := by
  induction l generalizing x with
  | nil => simp
  | cons z zs ih =>
    simp only [List.foldl_cons]
    rcases ih (max x z) with h | h
    · rw [h]
      rcases Int.le_total x z with hxz | hxz
      · right; rw [Int.max_eq_right hxz]; simp
      · left; exact Int.max_eq_left hxz
    · right; exact List.mem_cons_of_mem _ h

theorem le_maxList_of_mem {l : List Int} {y : Int} (hy : y ∈ l) : y ≤ maxList l := by
  cases l with
  | nil => cases hy
  | cons x xs =>
    simp only [maxList]
    rcases List.mem_cons.1 hy with rfl | h
    · exact foldl_max_ge_init _ _
    · exact foldl_max_ge_mem _ _ _ h

theorem maxList_mem {l : List Int} (h : l ≠ []) : maxList l ∈ l := by
  cases l with
  | nil => exact absurd rfl h
  | cons x xs =>
    simp only [maxList]
    rcases foldl_max_mem xs x with h | h
    · rw [h]; simp
    · exact List.mem_cons_of_mem _ h

theorem minList_perm {l₁ l₂ : List Int} (h : l₁.Perm l₂) : minList l₁ = minList l₂ := by
  by_cases hn : l₁ = []
  · subst hn; rw [List.nil_perm.1 h]
  · have hn2 : l₂ ≠ [] := fun e => hn (by subst e; exact List.perm_nil.1 h)
    have a := minList_le_of_mem (h.mem_iff.2 (minList_mem hn2))
    have b := minList_le_of_mem (h.mem_iff.1 (minList_mem hn))
    omega

theorem maxList_perm {l₁ l₂ : List Int} (h : l₁.Perm l₂) : maxList l₁ = maxList l₂ := by
  by_cases hn : l₁ = []
  · subst hn; rw [List.nil_perm.1 h]
  · have hn2 : l₂ ≠ [] := fun e => hn (by subst e; exact List.perm_nil.1 h)
    have a := le_maxList_of_mem (h.mem_iff.2 (maxList_mem hn2))
    have b := le_maxList_of_mem (h.mem_iff.1 (maxList_mem hn))
    omega

/-- `commonStrand` does not depend on which element is taken as the reference -/
theorem commonStrand_eq_of_mem (ls : List Loc) (x : Loc) (hx : x ∈ ls) :
    commonStrand ls = if ls.all (·.strand == x.strand) then x.strand else .none := by
  cases ls with
  | nil => cases hx
  | cons l rest =>
    simp only [commonStrand, List.all_cons]
    by_cases hall : rest.all (·.strand == l.strand) = true
    · -- everything equals l.strand, in particular x
      have hxl : x.strand = l.strand := by
        rcases List.mem_cons.1 hx with rfl | h
        · rfl
        · rw [List.all_eq_true] at hall; simpa using hall x h
      simp only [hall, if_true, hxl, beq_self_eq_true, Bool.true_and]
    · simp only [hall, Bool.false_eq_true, if_false]
      by_cases h2 : (l.strand == x.strand && rest.all fun y => y.strand == x.strand) = true
      · -- all equal x.strand including l → all equal l.strand: contradiction
        exfalso; apply hall
        simp only [Bool.and_eq_true, beq_iff_eq, List.all_eq_true] at h2 ⊢
        intro y hy; rw [h2.2 y hy, h2.1]
      · simp only [h2, Bool.false_eq_true, if_false]

theorem commonStrand_perm {l₁ l₂ : List Loc} (h : l₁.Perm l₂) : commonStrand l₁ = commonStrand l₂ := by
  cases l₁ with
  | nil => rw [List.nil_perm.1 h]
  | cons x xs =>
    rw [commonStrand_eq_of_mem (x :: xs) x (by simp), commonStrand_eq_of_mem l₂ x (h.mem_iff.1 (by simp))]
    have : (x :: xs).all (·.strand == x.strand) = l₂.all (·.strand == x.strand) := by
      rw [Bool.eq_iff_iff, List.all_eq_true, List.all_eq_true]
      exact ⟨fun hh y hy => hh y (h.mem_iff.2 hy), fun hh y hy => hh y (h.mem_iff.1 hy)⟩
    rw [this]


/-- the span a non-bridging location is reduced to -/
def Loc.span (l : Loc) : Loc := .simple ⟨l.start, l.end, l.strand⟩

theorem reduceParts_nonbridging (l : Loc) (hne : l.parts ≠ []) (hb : bridgesOrigin l = false) (w : Option Int) :
    reduceParts l.parts w = .ok l.span := by
  cases l with
  | simple p => cases p; simp [Loc.parts, reduceParts, Loc.span, Loc.start, Loc.end, Loc.strand, pure, Except.pure]
  | compound ps =>
    match ps, hne with
    | [p], _ => cases p; simp [Loc.parts, reduceParts, Loc.span, Loc.start, Loc.end, Loc.strand, minList, maxList, pure, Except.pure]
    | p :: q :: rest, _ =>
      simp only [Loc.parts, reduceParts, hb, Bool.false_eq_true, if_false, Loc.span]
      rfl

theorem mapM_reduce (ls : List Loc) (w : Option Int)
    (h : ∀ l ∈ ls, l.parts ≠ [] ∧ bridgesOrigin l = false) :
    ls.mapM (fun l => reduceParts l.parts w) = .ok (ls.map Loc.span) := by
  induction ls with
  | nil => rfl
  | cons l ls ih =>
    rw [List.mapM_cons, reduceParts_nonbridging l (h l (by simp)).1 (h l (by simp)).2 w,
      ih (fun x hx => h x (List.mem_cons_of_mem _ hx))]
    rfl

theorem commonStrand_span (ls : List Loc) : commonStrand (ls.map Loc.span) = commonStrand ls := by
  cases ls with
  | nil => rfl
  | cons l ls => simp [commonStrand, Loc.span, Loc.strand, List.all_map]

/-- on a linear record `connect_locations` returns exactly the hull -/
theorem connect_line (ls : List Loc) (hne : ls ≠ [])
    (h : ∀ l ∈ ls, l.parts ≠ [] ∧ bridgesOrigin l = false) :
    connect ls none = .ok (.simple ⟨minList (ls.map (·.start)), maxList (ls.map (·.end)), commonStrand ls⟩) := by
  have hany : ls.any bridgesOrigin = false := by
    rw [List.any_eq_false]; intro l hl; simp [(h l hl).2]
  have hemp : ls.isEmpty = false := by cases ls <;> simp_all
  simp only [connect, connectLocations, hemp, hany, Bool.false_eq_true, if_false, Bool.false_and]
  rw [mapM_reduce ls none h]
  have e1 : (ls.map Loc.span).map (·.start) = ls.map (·.start) := by
    rw [List.map_map]; rfl
  have e2 : (ls.map Loc.span).map (·.end) = ls.map (·.end) := by
    rw [List.map_map]; rfl
  show Except.ok (hullOf (ls.map Loc.span)) = _
  simp only [hullOf, commonStrand_span, e1, e2]

theorem start_le_part (l : Loc) (p : Part) (hp : p ∈ l.parts) : l.start ≤ p.lo ∧ p.hi ≤ l.end := by
  cases l with
  | simple q => simp [Loc.parts] at hp; subst hp; simp [Loc.start, Loc.end]
  | compound ps =>
    simp only [Loc.parts] at hp
    exact ⟨minList_le_of_mem (List.mem_map.2 ⟨p, hp, rfl⟩), le_maxList_of_mem (List.mem_map.2 ⟨p, hp, rfl⟩)⟩

end ASV
