/-
  C12: the numbers written for the areas of a region follow the order in which a record that loads the
  file numbers them (`CDSCollection.__lt__`: start — an area still over the origin counting from before
  it — then larger first).  The link is: the load key of the written location of an area is the pair the
  position key of `_number_by_position` starts with.
-/
import ASV.Proofs.RegionExtractMain
set_option linter.unusedSimpArgs false
namespace ASV.RegionExtract
open ASV

theorem comparatorStart_simple (p : Part) : comparatorStart (.simple p) = .ok p.lo := by
  simp [comparatorStart, bridgesOrigin, Loc.start, pure, Except.pure]

theorem comparatorStart_two_fwd (x y L : Int) (hy0 : 0 < y) (hyx : y ≤ x) (hxL : x < L) :
    comparatorStart (.compound [⟨x, L, .fwd⟩, ⟨0, y, .fwd⟩]) = .ok (x - L) := by
  have hx0 : 0 < x := by omega
  have h1 : ¬ (0 : Int) > x := by omega
  have hb : bridgesOrigin (.compound [⟨x, L, .fwd⟩, ⟨0, y, .fwd⟩]) = true := by
    simp [bridgesOrigin, Loc.strand, orderInvalid, hx0]
  have hov : locationsOverlap (partsHull [⟨0, y, .fwd⟩]) (partsHull [⟨x, L, .fwd⟩]) = false := by
    simp [locationsOverlap, partsHull, hullOf, Loc.parts, partsOverlap, Part.mem, minList, maxList, Loc.start, Loc.end]
    omega
  simp [comparatorStart, hb, splitBridging, strandsUsed, Loc.strand, splitFwd, h1, isValidSplit, hov, sortInts,
    insertInt, minList, maxList, bind, Except.bind, pure, Except.pure]

theorem strand_two (a b : Part) (h : a.strand = b.strand) : (Loc.compound [a, b]).strand = a.strand := by
  simp [Loc.strand, h]

theorem cross_two_fwd_exact (x y st L : Int) (s : Strand) (hy0 : 0 < y) (hyx : y ≤ x) (hxL : x < L)
    (hst0 : 0 < st) (hstL : st < L) :
    ∃ r, offsetLocation (.compound [⟨x, L, s⟩, ⟨0, y, s⟩]) (-st) L = .ok r ∧
      ((y < x ∧ st ≤ x ∧ y ≤ st ∧ r = .simple ⟨x + -st, y + -st + L, s⟩ ∧ wholeFix L r = r) ∨
       (y = x ∧ r = .compound [⟨x, L, s⟩, ⟨0, y, s⟩] ∧ wholeFix L r = .simple ⟨0, L, s⟩) ∨
       (¬ (st ≤ x ∧ y ≤ st) ∧ ∃ a b, 0 < a ∧ wholeFix L r = .compound [⟨a, L, s⟩, ⟨0, b, s⟩])) := by
  have hL0 : L ≠ 0 := by omega
  by_cases hwhole : y = x
  · subst hwhole
    have hlen : (Loc.compound [⟨y, L, s⟩, ⟨0, y, s⟩]).len = L := by rw [len_two]; simp
    refine ⟨.compound [⟨y, L, s⟩, ⟨0, y, s⟩], ?_, .inr (.inl ⟨rfl, rfl, ?_⟩)⟩
    · have hk : -st ≠ 0 := by omega
      have hlt : ¬ L < 1 := by omega
      simp [offsetLocation, hL0, hk, hlt, hlen, pure, Except.pure, bind, Except.bind]
    · simp [wholeFix, hlen, strand_two]
  · have hyx' : y < x := by omega
    have hgen := offsetLocation_general (.compound [⟨x, L, s⟩, ⟨0, y, s⟩]) (-st) L _ (by omega) (by omega)
      (by rw [len_two]; simp; omega) (by rw [start_two, end_two]; simp; omega)
      (shiftedParts_two _ _ _ (by simp; omega) (by simp; omega))
    simp only [List.flatMap_cons, List.flatMap_nil, List.append_nil] at hgen
    by_cases h1 : st ≤ x
    · rw [wrapPart_inside L ⟨x + -st, L + -st, s⟩ (by simp; omega) (by simp; omega) (by simp; omega)] at hgen
      by_cases h2 : y ≤ st
      · rw [wrapPart_below L ⟨0 + -st, y + -st, s⟩ (by simp; omega) (by simp; omega) (by simp; omega)] at hgen
        simp only [List.cons_append, List.nil_append] at hgen
        rw [finishOffset_two_adj L ⟨x + -st, L + -st, s⟩ ⟨0 + -st + L, y + -st + L, s⟩ (by simp [PartIn]; omega)
          (by simp [PartIn]; omega) (by simp; omega) rfl] at hgen
        refine ⟨_, hgen, .inl ⟨hyx', h1, h2, rfl, ?_⟩⟩
        have hl : ¬ (Loc.simple ⟨x + -st, y + -st + L, s⟩).len = L := by simp [Loc.len, Loc.parts, Part.len]; omega
        simp [wholeFix, hl]
      · rw [wrapPart_straddle L ⟨0 + -st, y + -st, s⟩ (by simp; omega) (by simp; omega) (by simp; omega) (by simp; omega)] at hgen
        simp only [List.cons_append, List.nil_append] at hgen
        rw [finishOffset_three_first L ⟨x + -st, L + -st, s⟩ ⟨0 + -st + L, L, s⟩ ⟨0, y + -st, s⟩ (by simp [PartIn]; omega)
          (by simp [PartIn]; omega) (by simp [PartIn]; omega) (by simp; omega) rfl (by simp; omega)] at hgen
        refine ⟨_, hgen, .inr (.inr ⟨by omega, x + -st, y + -st, by omega, ?_⟩)⟩
        have hl : ¬ (Loc.compound [⟨x + -st, L, s⟩, ⟨0, y + -st, s⟩]).len = L := by rw [len_two]; simp; omega
        simp only [wholeFix, hl, if_false]
    · rw [wrapPart_straddle L ⟨x + -st, L + -st, s⟩ (by simp; omega) (by simp; omega) (by simp; omega) (by simp; omega),
        wrapPart_below L ⟨0 + -st, y + -st, s⟩ (by simp; omega) (by simp; omega) (by simp; omega)] at hgen
      simp only [List.cons_append, List.nil_append] at hgen
      rw [finishOffset_three_last L ⟨x + -st + L, L, s⟩ ⟨0, L + -st, s⟩ ⟨0 + -st + L, y + -st + L, s⟩ (by simp [PartIn]; omega)
        (by simp [PartIn]; omega) (by simp [PartIn]; omega) (by simp; omega) (by simp; omega) rfl] at hgen
      refine ⟨_, hgen, .inr (.inr ⟨by omega, x + -st + L, y + -st + L, by omega, ?_⟩)⟩
      have hl : ¬ (Loc.compound [⟨x + -st + L, L, s⟩, ⟨0, y + -st + L, s⟩]).len = L := by rw [len_two]; simp; omega
      simp only [wholeFix, hl, if_false]


/-- the first two components of the position key -/
def posPair (rd : RegionData) (L : Int) (l : Loc) : Int × Int :=
  ((positionKey rd L 0 l).1, (positionKey rd L 0 l).2.1)

theorem positionKey_pair (rd : RegionData) (L n : Int) (l : Loc) :
    ((positionKey rd L n l).1, (positionKey rd L n l).2.1) = posPair rd L l := rfl

theorem loadKey_simple (p : Part) : loadKey (.simple p) = (p.lo, -(p.hi - p.lo)) := by
  simp [loadKey, comparatorStart_simple, Loc.len, Loc.parts, Part.len]

theorem bridges_two_fwd (x y L : Int) (s : Strand) (hs : s ≠ .rev) (hx0 : 0 < x) :
    bridgesOrigin (.compound [⟨x, L, s⟩, ⟨0, y, s⟩]) = true := by
  cases s <;> simp_all [bridgesOrigin, Loc.strand, orderInvalid, sortInts, insertInt]
  all_goals omega

/-- the load key of a written area is the pair its position key starts with -/
theorem origin_loadKey (rd : RegionData) (rec : BioRecord) (hwf : wfInput rd rec = true) (gloc floc : Loc)
    (hshape : areaShape rec.length rd floc = true)
    (ho : (rd.crossesOrigin = false ∧ rd.start ≤ floc.start ∧ floc.end ≤ rd.end ∧ gloc = shiftLoc floc (-rd.start)) ∨
          (rd.crossesOrigin = true ∧ rd.start ≤ floc.start ∧ floc.end ≤ rec.length ∧ gloc = shiftLoc floc (-rd.start)) ∨
          (rd.crossesOrigin = true ∧ 0 ≤ floc.start ∧ floc.end ≤ rd.end ∧
            offsetLocation floc (rec.length - rd.start) rec.length = .ok gloc) ∨
          (rd.crossesOrigin = true ∧ bridgesOrigin floc = true ∧ ∃ l, offsetLocation floc (-rd.start) rec.length = .ok l ∧
            (wholeFix rec.length l).end ≤ rec.length - rd.start + rd.end ∧ bridgesOrigin (wholeFix rec.length l) = false ∧
            gloc = wholeFix rec.length l)) :
    loadKey gloc = posPair rd rec.length floc := by
  obtain ⟨hL, hcross, hplain, _⟩ := wf_unpack rd rec hwf
  unfold areaShape at hshape
  split at hshape
  · -- one forward part
    rename_i p
    have hs : p.strand = .fwd := by simpa using hshape
    obtain ⟨a, b, s⟩ := p
    simp only at hs
    subst hs
    have hnb : bridgesOrigin (.simple ⟨a, b, .fwd⟩) = false := rfl
    rcases ho with ⟨hc, h1, h2, hg⟩ | ⟨hc, h1, h2, hg⟩ | ⟨hc, h1, h2, hg⟩ | ⟨hc, hb, _⟩
    · rw [hg]
      simp only [Loc.start] at h1
      have hn : ¬ (a - rd.start < 0) := by omega
      simp [shiftLoc, loadKey_simple, posPair, positionKey, areaStart, Loc.strand, Loc.parts, hn, hnb, Loc.len, Part.len]
      omega
    · rw [hg]
      simp only [Loc.start] at h1
      have hn : ¬ (a - rd.start < 0) := by omega
      simp [shiftLoc, loadKey_simple, posPair, positionKey, areaStart, Loc.strand, Loc.parts, hn, hnb, Loc.len, Part.len]
      omega
    · obtain ⟨he0, hes, hsL⟩ := hcross hc
      simp only [Loc.start, Loc.end] at h1 h2
      obtain ⟨_, _, _, hfeat⟩ := wf_unpack rd rec hwf
      have hab : a < b := by
        by_cases hab : a < b
        · exact hab
        · exfalso
          -- an empty part: `offset_location` raises, so the feature is not written
          have : shiftedParts (.simple ⟨a, b, .fwd⟩) (rec.length - rd.start) true = .error "assertion" := by
            have : b ≤ a := by omega
            simp [shiftedParts, Loc.parts, this, throw, throwThe, MonadExceptOf.throw, bind, Except.bind]
          have hk : rec.length - rd.start ≠ 0 := by omega
          have hL0 : rec.length ≠ 0 := by omega
          have hlt : ¬ rec.length < 1 := by omega
          have hlen : ¬ (Loc.simple ⟨a, b, .fwd⟩).len = rec.length := by simp [Loc.len, Loc.parts, Part.len]; omega
          simp [offsetLocation, hk, hL0, hlt, hlen, this, bind, Except.bind, Loc.start, Loc.end] at hg
      have hoff : offsetLocation (.simple ⟨a, b, .fwd⟩) (rec.length - rd.start) rec.length
          = .ok (.simple (shiftPart (rec.length - rd.start) ⟨a, b, .fwd⟩)) :=
        offset_simple_shift _ _ _ (by omega) hL hab (by simp; omega) (by simp; omega) (by simp; omega)
      rw [hoff] at hg
      injection hg with hg
      rw [← hg]
      have hn : a - rd.start < 0 := by omega
      simp [shiftPart, loadKey_simple, posPair, positionKey, areaStart, Loc.strand, Loc.parts, hn, Loc.len, Part.len]
      omega
    · rw [hnb] at hb; cases hb
  · -- a forward pair over the origin
    rename_i a b
    simp only [Bool.and_eq_true, decide_eq_true_eq, beq_iff_eq] at hshape
    simp only [Bool.or_eq_true, Bool.not_eq_true', decide_eq_true_eq] at hshape
    obtain ⟨⟨⟨⟨⟨⟨⟨hsa, hsb⟩, h1⟩, h2⟩, h3⟩, h4⟩, h5⟩, h6⟩ := hshape
    obtain ⟨x, ahi, as⟩ := a
    obtain ⟨blo, y, bs⟩ := b
    simp only at hsa hsb h1 h2 h3 h4 h5 h6
    subst hsa hsb h1 h2
    have hx0 : 0 < x := by omega
    have hbr := bridges_two_fwd x y rec.length .fwd (by decide) hx0
    rcases ho with ⟨hc, hs1, hs2, hg⟩ | ⟨hc, hs1, hs2, hg⟩ | ⟨hc, hs1, hs2, hg⟩ | ⟨hc, hb, l, hl, hk, hnb, hg⟩
    · -- the region is the whole record from the origin: the area stays as it is
      rw [start_two] at hs1
      rw [end_two] at hs2
      simp only at hs1 hs2
      obtain ⟨h0, hE⟩ := hplain hc
      have hst : rd.start = 0 := by omega
      rw [hg, hst, Int.neg_zero, shiftLoc_zero]
      have hn : ¬ (x < 0) := by omega
      simp [loadKey, comparatorStart_two_fwd x y rec.length h3 h4 h5, posPair, positionKey, areaStart, Loc.strand,
        Loc.parts, hst, hn, hbr, hc]
    · exfalso
      obtain ⟨he0, hes, hsL⟩ := hcross hc
      rw [start_two] at hs1
      simp only at hs1
      omega
    · exfalso
      obtain ⟨he0, hes, hsL⟩ := hcross hc
      rw [end_two] at hs2
      simp only at hs2
      omega
    · obtain ⟨he0, hes, hsL⟩ := hcross hc
      obtain ⟨r, hr, hcase⟩ := cross_two_fwd_exact x y rd.start rec.length .fwd h3 h4 h5 (by omega) hsL
      rw [hr] at hl
      injection hl with hl
      subst hl
      rcases hcase with ⟨hyx, hsx, hys, hr', hw⟩ | ⟨hyx, _, hw⟩ | ⟨_, a', b', ha', hw⟩
      · rw [hg, hw, hr']
        have hn : ¬ (x - rd.start < 0) := by omega
        simp [loadKey_simple, posPair, positionKey, areaStart, Loc.strand, Loc.parts, hn, hbr, hc, Loc.len, Part.len]
        omega
      · -- all the way round: starts where the region starts
        have hxs : x = rd.start := by
          rcases h6 with h6 | h6
          · rcases h6 with h6 | h6
            · omega
            · rw [hc] at h6; cases h6
          · exact h6
        rw [hg, hw]
        have hn : ¬ (x - rd.start < 0) := by omega
        simp [loadKey_simple, posPair, positionKey, areaStart, Loc.strand, Loc.parts, hn, hbr, hc, Loc.len, Part.len]
        omega
      · exfalso
        rw [hw, bridges_two_fwd a' b' rec.length .fwd (by decide) ha'] at hnb
        cases hnb
  · cases hshape

theorem written_origin (rd : RegionData) (rec : BioRecord) (w : Written) (h : writeToGenbank rd rec = .ok w)
    (g : BioFeature) (hg : g ∈ w.extract.features) :
    ∃ g0, Origin rd rec g0 ∧ adjustFeature rd rec.length (renumbering rd rec.length) g0 = .ok g := by
  obtain ⟨seq, ws, parent, adjusted, hb, ha, hfe⟩ := written_features rd rec w h
  rw [hfe] at hg
  obtain ⟨w0, hw0, hadj⟩ := adjusted_mem rd _ ws adjusted ha g hg
  exact ⟨w0.f, base_origin rd rec seq ws parent hb w0 hw0, hadj⟩

/-- the source feature of a feature of the region record, with the load key of the new location -/
theorem origin_source (rd : RegionData) (rec : BioRecord) (hwf : wfInput rd rec = true) (g0 : BioFeature)
    (ho : Origin rd rec g0) :
    ∃ f ∈ rec.features, g0.type = f.type ∧ g0.q = f.q ∧
      (areaShape rec.length rd f.loc = true → loadKey g0.loc = posPair rd rec.length f.loc) := by
  obtain ⟨hL, hcross, hplain, _⟩ := wf_unpack rd rec hwf
  cases ho with
  | plain f hf hc h1 h2 hg =>
    refine ⟨f, hf, by rw [hg], by rw [hg], fun hs => ?_⟩
    exact origin_loadKey rd rec hwf g0.loc f.loc hs (.inl ⟨hc, h1, h2, by rw [hg]⟩)
  | pre f hf hc h1 h2 hg =>
    refine ⟨f, hf, by rw [hg], by rw [hg], fun hs => ?_⟩
    exact origin_loadKey rd rec hwf g0.loc f.loc hs (.inr (.inl ⟨hc, h1, h2, by rw [hg]⟩))
  | post f hf hc h1 h2 l hl hg =>
    refine ⟨f, hf, by rw [hg], by rw [hg], fun hs => ?_⟩
    exact origin_loadKey rd rec hwf g0.loc f.loc hs (.inr (.inr (.inl ⟨hc, h1, h2, by rw [hg]; exact hl⟩)))
  | cross f hf hc hb l hl hk hnb hg =>
    refine ⟨f, hf, by rw [hg], by rw [hg], fun hs => ?_⟩
    obtain ⟨he0, hes, hsL⟩ := hcross hc
    rw [cross_len rd rec he0 hes hsL] at hk
    exact origin_loadKey rd rec hwf g0.loc f.loc hs (.inr (.inr (.inr ⟨hc, hb, l, hl, hk, hnb, by rw [hg]⟩)))

theorem linkedKind_loc (type : String) (num : BioFeature → Option Int) (areas : List (Int × Loc)) (rec : BioRecord)
    (h : linkedKind type num areas rec = true) (f : BioFeature) (hf : f ∈ rec.features) (ht : f.type = type)
    (n : Int) (hn : num f = some n) (la : Loc) (hla : (n, la) ∈ areas) : la = f.loc := by
  unfold linkedKind at h
  have := List.all_eq_true.1 h f hf
  simp only [ht, bne_self_eq_false, Bool.false_or, hn] at this
  have := List.all_eq_true.1 this (n, la) hla
  simpa using this

/-- the generic argument: if numbers of one kind are assigned by `_number_by_position` over `areas`, the written
    numbers follow the order in which a loaded record orders the written locations -/
theorem follows_generic (rd : RegionData) (rec : BioRecord) (w : Written) (h : writeToGenbank rd rec = .ok w)
    (hwf : wfInput rd rec = true) (type : String) (num : BioFeature → Option Int) (areas : List (Int × Loc))
    (hnd : (areas.map (·.1)).Nodup) (hshape : ∀ a ∈ areas, areaShape rec.length rd a.2 = true)
    (hlink : linkedKind type num areas rec = true)
    (hnum : ∀ g0 g, adjustFeature rd rec.length (renumbering rd rec.length) g0 = .ok g → g0.type = type →
      ∀ m, num g = some m → ∃ n, num g0 = some n ∧ dictGet (numberByPosition areas rd rec.length) n = .ok m)
    (hq : ∀ a b : BioFeature, a.q = b.q → num a = num b) :
    FollowsLoadOrder type num w.extract.features := by
  obtain ⟨_, hrange, hmono⟩ := numberByPosition_spec areas rd rec.length hnd
  -- everything known about one written feature of the kind
  have key : ∀ g ∈ w.extract.features, g.type = type → ∀ m, num g = some m →
      ∃ n l, (n, l) ∈ areas ∧ dictGet (numberByPosition areas rd rec.length) n = .ok m ∧
        loadKey g.loc = posPair rd rec.length l := by
    intro g hg ht m hm
    obtain ⟨g0, ho, hadj⟩ := written_origin rd rec w h g hg
    obtain ⟨_, hty, hloc⟩ := adjustFeature_same rd _ _ g0 g hadj
    obtain ⟨f, hf, hft, hfq, hkey⟩ := origin_source rd rec hwf g0 ho
    obtain ⟨n, hn0, hd⟩ := hnum g0 g hadj (by rw [← hty]; exact ht) m hm
    obtain ⟨_, _, la, hla⟩ := hrange n m hd
    have hnf : num f = some n := by rw [← hq g0 f hfq]; exact hn0
    have hl := linkedKind_loc type num areas rec hlink f hf (by rw [← hft, ← hty]; exact ht) n hnf la hla
    subst hl
    exact ⟨n, f.loc, hla, hd, by rw [hloc]; exact hkey (hshape _ hla)⟩
  intro g1 hg1 g2 hg2 ht1 ht2 m1 m2 hm1 hm2 hlt
  obtain ⟨n1, l1, ha1, hd1, hk1⟩ := key g1 hg1 ht1 m1 hm1
  obtain ⟨n2, l2, ha2, hd2, hk2⟩ := key g2 hg2 ht2 m2 hm2
  have h21 := (hmono n2 n1 l2 l1 m2 m1 ha2 ha1 hd2 hd1).1
  by_cases hlt' : m1 < m2
  · exact hlt'
  · exfalso
    have hle : m2 ≤ m1 := by omega
    have hk := h21.1 hle
    rw [keyLe_iff] at hk
    rw [hk1, hk2] at hlt
    have hlt2 : (positionKey rd rec.length 0 l1).1 < (positionKey rd rec.length 0 l2).1 ∨
        ((positionKey rd rec.length 0 l1).1 = (positionKey rd rec.length 0 l2).1 ∧
          (positionKey rd rec.length 0 l1).2.1 < (positionKey rd rec.length 0 l2).2.1) := by
      simp only [pairLt, posPair, Bool.or_eq_true, Bool.and_eq_true, beq_iff_eq] at hlt
      rcases hlt with h | ⟨h, h'⟩
      · exact .inl (of_decide_eq_true h)
      · exact .inr ⟨h, of_decide_eq_true h'⟩
    have e1 : (positionKey rd rec.length n1 l1).1 = (positionKey rd rec.length 0 l1).1 := rfl
    have e2 : (positionKey rd rec.length n1 l1).2.1 = (positionKey rd rec.length 0 l1).2.1 := rfl
    have e3 : (positionKey rd rec.length n2 l2).1 = (positionKey rd rec.length 0 l2).1 := rfl
    have e4 : (positionKey rd rec.length n2 l2).2.1 = (positionKey rd rec.length 0 l2).2.1 := rfl
    rw [e1, e2, e3, e4] at hk
    omega

/-- with the two views of the areas agreeing, the numbers written for protoclusters, candidate clusters and
    subregions follow the order in which a record loading the file numbers them -/
theorem written_follow_load_order (rd : RegionData) (rec : BioRecord) (w : Written) (h : writeToGenbank rd rec = .ok w)
    (hwf : wfInput rd rec = true) (hlink : linked rd rec = true) :
    FollowsLoadOrder "protocluster" (·.q.protoNumber) w.extract.features ∧
    FollowsLoadOrder "cand_cluster" (·.q.candNumber) w.extract.features ∧
    FollowsLoadOrder "subregion" (·.q.subNumber) w.extract.features := by
  unfold linked at hlink
  simp only [Bool.and_eq_true, List.all_eq_true, List.mem_append] at hlink
  obtain ⟨⟨⟨hl1, hl2⟩, hl3⟩, hshape⟩ := hlink
  refine ⟨?_, ?_, ?_⟩
  · refine follows_generic rd rec w h hwf "protocluster" (·.q.protoNumber) (protoAreas rd) ?_
      (fun a ha => hshape a (.inl (.inl ha))) hl1 ?_ (fun a b e => by rw [e])
    · unfold protoAreas; rw [List.map_map]; exact protoDict_nodup rd
    · intro g0 g hadj ht m hm
      obtain ⟨n, m', hn, hm', hd⟩ := (adjustFeature_refs rd _ g0 g hadj).2.2.1 (.inl ht)

      rw [hm'] at hm; injection hm with hm; subst hm
      exact ⟨n, hn, hd⟩
  · refine follows_generic rd rec w h hwf "cand_cluster" (·.q.candNumber) (candDict rd) (candDict_nodup rd)
      (fun a ha => hshape a (.inl (.inr ha))) hl2 ?_ (fun a b e => by rw [e])
    intro g0 g hadj ht m hm
    obtain ⟨n, m', _, _, hn, hm', hd, _⟩ := (adjustFeature_refs rd _ g0 g hadj).2.1 ht

    rw [hm'] at hm; injection hm with hm; subst hm
    exact ⟨n, hn, hd⟩
  · refine follows_generic rd rec w h hwf "subregion" (·.q.subNumber) (subDict rd) (subDict_nodup rd)
      (fun a ha => hshape a (.inr ha)) hl3 ?_ (fun a b e => by rw [e])
    intro g0 g hadj ht m hm
    obtain ⟨n, m', hn, hm', hd⟩ := (adjustFeature_refs rd _ g0 g hadj).2.2.2 ht

    rw [hm'] at hm; injection hm with hm; subst hm
    exact ⟨n, hn, hd⟩

/-! ### nothing inside the region is left out -/

/-- the base record contains every feature lying between the region's bounds (on one side of the origin) -/
theorem base_contains (rd : RegionData) (rec : BioRecord) (seq : List Char) (ws : List Working)
    (parent : List BioFeature) (h : buildBaseRecord rd rec = .ok (seq, ws, parent)) (f : BioFeature)
    (hf : f ∈ rec.features)
    (hin : (rd.crossesOrigin = false ∧ rd.start ≤ f.loc.start ∧ f.loc.end ≤ rd.end) ∨
           (rd.crossesOrigin = true ∧ rd.start ≤ f.loc.start ∧ f.loc.end ≤ rec.length) ∨
           (rd.crossesOrigin = true ∧ 0 ≤ f.loc.start ∧ f.loc.end ≤ rd.end)) :
    ∃ w ∈ ws, w.f.tag = f.tag := by
  unfold buildBaseRecord at h
  split at h
  · rename_i hc
    unfold buildRecordFromCrossOrigin at h
    simp only [bind, Except.bind, pure, Except.pure] at h
    split at h
    · cases h
    · split at h
      · cases h
      · rename_i post hpost
        split at h
        · cases h
        · rename_i v hg
          obtain ⟨par, cr⟩ := v
          injection h with h; injection h with h1 h2; injection h2 with h2 h3
          subst h2
          rcases hin with ⟨hc', _⟩ | ⟨_, h1', h2'⟩ | ⟨_, h1', h2'⟩
          · rw [hc] at hc'; cases hc'
          · have := slice_to rec.features rd.start rec.length f hf h1' h2'
            refine ⟨⟨{ f with loc := shiftLoc f.loc (-rd.start) }, none⟩, ?_, rfl⟩
            exact List.mem_append.2 (.inl (List.mem_append.2 (.inl (List.mem_map.2 ⟨_, this, rfl⟩))))
          · have := slice_to rec.features 0 rd.end f hf h1' h2'
            obtain ⟨b, hb, hstep⟩ := mapE_mem_src _ _ post hpost _ this
            refine ⟨⟨b, none⟩, List.mem_append.2 (.inr (List.mem_map.2 ⟨b, hb, rfl⟩)), ?_⟩
            split at hstep
            · cases hstep
            · injection hstep with hstep; rw [← hstep]
  · rename_i hc
    injection h with h; injection h with h1 h2; injection h2 with h2 h3
    subst h2
    rcases hin with ⟨_, h1', h2'⟩ | ⟨hc', _⟩ | ⟨hc', _⟩
    · have := slice_to rec.features rd.start rd.end f hf h1' h2'
      exact ⟨⟨{ f with loc := shiftLoc f.loc (-rd.start) }, none⟩, List.mem_map.2 ⟨_, this, rfl⟩, rfl⟩
    · rw [hc'] at hc; exact absurd rfl hc
    · rw [hc'] at hc; exact absurd rfl hc

/-- … and so does the written record -/
theorem written_contains (rd : RegionData) (rec : BioRecord) (w : Written) (h : writeToGenbank rd rec = .ok w)
    (f : BioFeature) (hf : f ∈ rec.features)
    (hin : (rd.crossesOrigin = false ∧ rd.start ≤ f.loc.start ∧ f.loc.end ≤ rd.end) ∨
           (rd.crossesOrigin = true ∧ rd.start ≤ f.loc.start ∧ f.loc.end ≤ rec.length) ∨
           (rd.crossesOrigin = true ∧ 0 ≤ f.loc.start ∧ f.loc.end ≤ rd.end)) :
    ∃ g ∈ w.extract.features, g.tag = f.tag := by
  obtain ⟨seq, ws, parent, adjusted, hb, ha, hfe⟩ := written_features rd rec w h
  obtain ⟨w0, hw0, ht⟩ := base_contains rd rec seq ws parent hb f hf hin
  unfold adjustFeatures at ha
  obtain ⟨w1, hw1, hstep⟩ := mapE_mem_src _ ws adjusted ha w0 hw0
  split at hstep
  · cases hstep
  · rename_i g hg
    injection hstep with hstep
    refine ⟨g, ?_, ?_⟩
    · rw [hfe]; exact List.mem_map.2 ⟨w1, hw1, by rw [← hstep]⟩
    · rw [(adjustFeature_same rd _ _ w0.f g hg).1, ht]

end ASV.RegionExtract
