/-
  Helper lemmas for C20, part 4: `run_antismash` — the log file is set up before the output
  directory is looked at.
-/
import ASV.Proofs.Names
namespace ASV.WriteSafety
open ASV.PosixPath (Path Plain)

theorem stripPrefix_some : ∀ (a l rest : List Path), stripPrefix a l = some rest → l = a ++ rest
  | [], l, rest, h => by
      simp only [stripPrefix, Option.some.injEq] at h
      simp [h]
  | _ :: _, [], _, h => by simp [stripPrefix] at h
  | x :: xs, y :: ys, rest, h => by
      simp only [stripPrefix] at h
      split at h
      · rename_i hxy
        have := stripPrefix_some xs ys rest h
        simp [this, eq_of_beq hxy]
      · cases h

/-- what an entry's path denotes: the directory's identity with the entry's name appended -/
theorem denotes_entry (cwd name n : Path) (hcwd : PosixPath.isabs cwd = true) (hname : name ≠ [])
    (hn : Plain n) :
    denotes cwd (PosixPath.join name n) = ((denotes cwd name).1, (denotes cwd name).2 ++ [n]) := by
  have habs := PosixPath.isabs_absArg cwd name hcwd
  have hne : PosixPath.absArg cwd name ≠ [] := by intro e; simp [e, PosixPath.isabs] at habs
  simp only [denotes, PosixPath.absArg_join_plain cwd name n hname hn,
    PosixPath.leadSlashes_join_plain _ n hne hn, PosixPath.normComps_join_plain true _ n hne hn]

/-- the facts packed into `logPlace p = .entry m` -/
theorem logPlace_entry (p : PrepIn) (m : String) (h : logPlace p = .entry m) :
    p.logfile ≠ "" ∧ Plain m.toList ∧
      denotes p.cwd.toList p.logfile.toList =
        ((denotes p.cwd.toList p.name.toList).1, (denotes p.cwd.toList p.name.toList).2 ++ [m.toList]) := by
  unfold logPlace at h
  split at h
  · cases h
  · rename_i hl
    simp only at h
    split at h
    · cases h
    · rename_i hk
      split at h
      · rename_i mm hs
        have hm : m = String.ofList mm := by cases h; rfl
        have hl2 := stripPrefix_some _ _ _ hs
        have hk' : (pathId p.cwd.toList p.name.toList).1 = (pathId p.cwd.toList p.logfile.toList).1 := by
          simpa using hk
        have hplain : Plain mm := by
          apply PosixPath.normComps_rooted_plain (PosixPath.absArg p.cwd.toList p.logfile.toList)
          show mm ∈ (pathId p.cwd.toList p.logfile.toList).2
          rw [hl2]; simp
        refine ⟨by simpa using hl, by rw [hm, String.toList_ofList]; exact hplain, ?_⟩
        rw [hm, String.toList_ofList]
        show pathId _ _ = _
        exact Prod.ext hk'.symm hl2
      · cases h
      · cases h

theorem logPlace_below (p : PrepIn) (s : String) (h : logPlace p = .below s) : Plain s.toList := by
  unfold logPlace at h
  split at h
  · cases h
  · simp only at h
    split at h
    · cases h
    · split at h
      · cases h
      · rename_i ss x rest hs
        have hm : s = String.ofList ss := by cases h; rfl
        have hl2 := stripPrefix_some _ _ _ hs
        rw [hm, String.toList_ofList]
        apply PosixPath.normComps_rooted_plain (PosixPath.absArg p.cwd.toList p.logfile.toList)
        show ss ∈ (pathId p.cwd.toList p.logfile.toList).2
        rw [hl2]; simp
      · cases h

/-- the entry logging creates (or appends to) is the one the own-log test exempts -/
theorem isLogFile_of_logPlace (p : PrepIn) (m : String) (h : logPlace p = .entry m)
    (hcwd : PosixPath.isabs p.cwd.toList = true) (hname : p.name.toList ≠ []) (e : Entry) (he : e.name = m) :
    isLogFile p e = true := by
  obtain ⟨hl, hpl, hd⟩ := logPlace_entry p m h
  unfold isLogFile
  have h1 : (p.logfile != "") = true := by simpa using hl
  rw [h1, Bool.true_and, decide_eq_true_eq, entryPath, he,
    denotes_entry _ _ _ hcwd hname hpl, hd]

/-- logging only adds entries with plain names: the invariants survive -/
theorem afterLogging_wf (p : PrepIn) (wf : p.WF = true) : (afterLogging p).WF = true := by
  have hall : ∀ (es : Dir) (n : String), Plain n.toList → (es.all fun e => plainName e.name.toList) = true →
      ((es ++ [(⟨n, false, [logText]⟩ : Entry)]).all fun e => plainName e.name.toList) = true ∧
      ((es ++ [(⟨n, true, []⟩ : Entry)]).all fun e => plainName e.name.toList) = true ∧
      ((es.map fun e => if e.name == n then { e with content := e.content ++ [logText] } else e).all
        fun e => plainName e.name.toList) = true := by
    intro es n hn hes
    have hp := (plainName_iff _).2 hn
    refine ⟨by simp [List.all_append, hes, hp], by simp [List.all_append, hes, hp], ?_⟩
    rw [List.all_eq_true] at hes ⊢
    intro x hx
    obtain ⟨e, he, rfl⟩ := List.mem_map.1 hx
    have := hes e he
    split <;> simpa using this
  simp only [PrepIn.WF, Bool.and_eq_true] at wf ⊢
  refine ⟨wf.1, ?_⟩
  simp only [afterLogging]
  cases hplace : logPlace p with
  | nowhere => simpa [setupLogging] using wf.2
  | entry m =>
    have hm := (logPlace_entry p m hplace).2.1
    cases ht : p.target with
    | absent => simp [setupLogging, (plainName_iff _).2 hm]
    | file => simp [setupLogging]
    | dir es =>
      have hes : (es.all fun e => plainName e.name.toList) = true := by simpa [ht] using wf.2
      obtain ⟨h1, _, h3⟩ := hall es m hm hes
      by_cases hany : (es.any fun e => e.name == m) = true
      · simpa only [setupLogging, hany, if_true] using h3
      · simpa [setupLogging, hany] using h1
  | below s =>
    have hs := logPlace_below p s hplace
    cases ht : p.target with
    | absent => simp [setupLogging, (plainName_iff _).2 hs]
    | file => simp [setupLogging]
    | dir es =>
      have hes : (es.all fun e => plainName e.name.toList) = true := by simpa [ht] using wf.2
      obtain ⟨_, h2, _⟩ := hall es s hs hes
      by_cases hany : (es.any fun e => e.name == s) = true
      · simpa only [setupLogging, hany, if_true] using hes
      · simpa [setupLogging, hany] using h2

/-- setting up the log file adds or grows at most the log entry (or the directory above the log
    file): every other entry of an existing output directory is still there, unchanged -/
theorem setupLogging_keeps (place : LogPlace) (es : Dir) :
    ∃ es', (setupLogging place (.dir es)).1 = .dir es' ∧
      ∀ e ∈ es, (∀ m, place = .entry m → e.name ≠ m) → e ∈ es' := by
  cases place with
  | nowhere => exact ⟨es, rfl, fun e he _ => he⟩
  | below s =>
    by_cases hany : (es.any fun e => e.name == s) = true
    · exact ⟨es, by simp [setupLogging, hany], fun e he _ => he⟩
    · exact ⟨_, by simp only [setupLogging, hany]; rfl, fun e he _ => List.mem_append_left _ he⟩
  | entry m =>
    by_cases hany : (es.any fun e => e.name == m) = true
    · refine ⟨_, by simp only [setupLogging, hany, if_true]; rfl, ?_⟩
      intro e he hne
      have : (e.name == m) = false := by simpa using hne m rfl
      exact List.mem_map.2 ⟨e, he, by simp [this]⟩
    · exact ⟨_, by simp only [setupLogging, hany]; rfl, fun e he _ => List.mem_append_left _ he⟩

theorem effective_target (c : CallIn) (t : Target) :
    effective { c with target := t } = ({ (effective c).1 with target := t }, (effective c).2) := by
  unfold effective
  split <;> rfl

/-- `run_antismash` is the tail of the run on the directory logging left, framed by logging's own effects -/
theorem runAntismash_eq (r : RunIn) :
    runAntismash r =
      let p := (effective r.call).1
      let s := setupLogging (logPlace p) p.target
      let out := runPipeline ⟨afterLogging p, r.results, r.jsonName⟩
      ⟨s.2 ++ out.trace ++ (if out.err == some inputError then [.logErr] else []), out.err, out.target⟩ := by
  simp only [runAntismash, runTail, RunIn.toPipe, RunIn.jsonName, effective_target, afterLogging]
  rfl

theorem run_meets_spec (r : RunIn) (wf : (effective r.call).1.WF = true) :
    specRun r (runAntismash r) = true := by
  have hp := pipeline_meets_spec' ⟨afterLogging (effective r.call).1, r.results, r.jsonName⟩
    (afterLogging_wf _ wf)
  rw [runAntismash_eq]
  simp only [specRun]
  generalize (setupLogging (logPlace (effective r.call).1) (effective r.call).1.target).2 = pre at *
  generalize runPipeline ⟨afterLogging (effective r.call).1, r.results, r.jsonName⟩ = out at *
  by_cases he : (out.err == some inputError) = true
  · simp [he, hp, List.append_assoc]
  · simp [he, hp]

end ASV.WriteSafety
