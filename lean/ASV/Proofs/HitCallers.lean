/-
  Helper lemmas for C13: the callers are functions of the multiset of raw hits.
-/
import ASV.Proofs.HitFilterEquiv
import ASV.Proofs.HitFilterMultiple
import ASV.Proofs.RefineCover
import ASV.Model.HitCallers
namespace ASV.HitCallers
open ASV.Refine ASV.HitFilter

/-! ### `filter_result_multiple` and permutations -/

/-- with distinct hits and no score ties, "earliest best of its profile" is "the best of its profile" -/
theorem firstBest_iff_of_noTies {hits : List FHit} (hd : hits.Nodup) (hn : NoTies hits) (x : FHit) :
    (∃ l1 l2, FirstBest hits l1 x l2) ↔
      x ∈ hits ∧ -10 < x.sc ∧ ∀ g ∈ hits, g.prof = x.prof → g ≠ x → g.sc < x.sc := by
  constructor
  · rintro ⟨l1, l2, e, hpos, h1, h2⟩
    have hx : x ∈ hits := by rw [e]; simp
    refine ⟨hx, hpos, ?_⟩
    intro g hg hp hne
    rw [e] at hg
    rcases List.mem_append.mp hg with h | h
    · exact h1 g h hp
    · rcases List.mem_cons.mp h with rfl | h
      · exact absurd rfl hne
      · have hle := h2 g h hp
        have : g.sc ≠ x.sc := fun es => hne (hn g (by rw [e]; simp [h]) x hx es)
        omega
  · rintro ⟨hx, hpos, hall⟩
    obtain ⟨l1, l2, e⟩ := List.append_of_mem hx
    have hnd := hd
    rw [e] at hnd
    have hx1 : x ∉ l1 := fun h => (List.nodup_append.mp hnd).2.2 x h x (by simp) rfl
    have hx2 : x ∉ l2 := (List.nodup_cons.mp (List.nodup_append.mp hnd).2.1).1
    refine ⟨l1, l2, e, hpos, ?_, ?_⟩
    · intro g hg hp
      exact hall g (by rw [e]; simp [hg]) hp (fun h => hx1 (h ▸ hg))
    · intro g hg hp
      have := hall g (by rw [e]; simp [hg]) hp (fun h => hx2 (h ▸ hg))
      omega

theorem filterMultiple_prof_nodup (hits : List FHit) : ((filterMultiple hits).map (·.prof)).Nodup := by
  have inv := final_inv hits
  have hperm : ((filterMultiple hits).map (·.prof)).Perm ((scanMultiple [] 0 hits).map (·.1)) := by
    simp only [filterMultiple, List.map_map]
    have h1 := (sortBy_perm (fun (a b : Nat × FHit) => decide (a.1 ≤ b.1)) ((scanMultiple [] 0 hits).map (·.2))).map
      (fun e => e.2.prof)
    refine h1.trans ?_
    rw [List.map_map]
    apply List.Perm.of_eq
    apply List.map_congr_left
    intro e he
    obtain ⟨_, _, _, _, hp⟩ := inv.sound e he
    exact hp
  exact hperm.nodup_iff.mpr inv.keys

theorem filterMultiple_nodup (hits : List FHit) : (filterMultiple hits).Nodup := by
  have := filterMultiple_prof_nodup hits
  rw [List.Nodup, List.pairwise_map] at this
  exact this.imp (fun hne e => hne (by rw [e]))

theorem filterMultiple_perm {l₁ l₂ : List FHit} (h : l₁.Perm l₂) (hd : l₁.Nodup) (hn : NoTies l₁) :
    (filterMultiple l₁).Perm (filterMultiple l₂) := by
  have hd2 : l₂.Nodup := h.nodup_iff.mp hd
  have hn2 : NoTies l₂ := fun a ha b hb => hn a (h.mem_iff.mpr ha) b (h.mem_iff.mpr hb)
  rw [List.perm_ext_iff_of_nodup (filterMultiple_nodup l₁) (filterMultiple_nodup l₂)]
  intro x
  rw [mem_filterMultiple, mem_filterMultiple, firstBest_iff_of_noTies hd hn, firstBest_iff_of_noTies hd2 hn2]
  constructor
  · rintro ⟨hx, hp, hall⟩
    exact ⟨h.mem_iff.mp hx, hp, fun g hg => hall g (h.mem_iff.mpr hg)⟩
  · rintro ⟨hx, hp, hall⟩
    exact ⟨h.mem_iff.mpr hx, hp, fun g hg => hall g (h.mem_iff.mp hg)⟩

/-- every profile with a hit scoring above −1 keeps one that scores at least as high -/
theorem multiple_profile_survives' (hits : List FHit) (g : FHit) (hg : g ∈ hits) (hs : -10 < g.sc) :
    ∃ x ∈ filterMultiple hits, x.prof = g.prof ∧ g.sc ≤ x.sc := by
  have inv := final_inv hits
  obtain ⟨e, he, hk⟩ := List.mem_map.mp (inv.complete g hg hs)
  obtain ⟨l1, l2, hfb, _, hp⟩ := inv.sound e he
  refine ⟨e.2.2, mem_filterMultiple.mpr ⟨l1, l2, hfb⟩, by rw [hp, hk], ?_⟩
  obtain ⟨hsplit, _, h1, h2⟩ := hfb
  rw [hsplit] at hg
  rcases List.mem_append.mp hg with hg | hg
  · have := h1 g hg (by rw [hp, hk]); omega
  · rcases List.mem_cons.mp hg with rfl | hg
    · exact Int.le_refl _
    · exact h2 g hg (by rw [hp, hk])

/-! ### `find_hmmer_hits`, one gene -/

theorem filterResults_eq_some (eqs : List (List Int)) (hits : List FHit) (hu : UidNodup hits) :
    filterResults eqs hits = some (eqs.foldl filterPass hits) := by
  simp only [filterResults]
  cases hits with
  | nil => simp
  | cons b l =>
    have hne := foldl_filterPass_ne_nil eqs (b :: l) hu (by simp)
    have : (eqs.foldl filterPass (b :: l)).isEmpty = false := by
      cases hh : eqs.foldl filterPass (b :: l) with
      | nil => exact absurd hh hne
      | cons a t => rfl
    simp [this]

theorem findHmmerHitsGene_eq (cut : Int → Int) (eqs : List (List Int)) (raw : List FHit) (hu : UidNodup raw) :
    findHmmerHitsGene cut eqs raw =
      some (sortBy leHs (filterMultiple (eqs.foldl filterPass (raw.filter (aboveCutoff cut))))) := by
  simp only [findHmmerHitsGene, filterResults_eq_some eqs _ (hu.sublist List.filter_sublist)]

/-- the gene's returned hits are the same multiset for every ordering of the raw hits, provided no
    two different raw hits of the gene have the same bitscore -/
theorem findHmmerHitsGene_perm (cut : Int → Int) (eqs : List (List Int)) {r₁ r₂ : List FHit} (h : r₁.Perm r₂)
    (hu : UidNodup r₁) (hn : NoTies r₁) :
    ∃ o₁ o₂, findHmmerHitsGene cut eqs r₁ = some o₁ ∧ findHmmerHitsGene cut eqs r₂ = some o₂ ∧ o₁.Perm o₂ := by
  have hu2 : UidNodup r₂ := (h.map _).nodup_iff.mp hu
  refine ⟨_, _, findHmmerHitsGene_eq cut eqs r₁ hu, findHmmerHitsGene_eq cut eqs r₂ hu2, ?_⟩
  have hf : (r₁.filter (aboveCutoff cut)).Perm (r₂.filter (aboveCutoff cut)) := h.filter _
  have huf := hu.sublist (List.filter_sublist (p := aboveCutoff cut))
  have hnf := hn.sublist (List.filter_sublist (p := aboveCutoff cut))
  have hp := foldl_filterPass_perm eqs hf huf hnf
  have hsub := foldl_filterPass_sublist eqs (r₁.filter (aboveCutoff cut))
  have hm := filterMultiple_perm hp ((huf.sublist hsub).nodup) (hnf.sublist hsub)
  exact (sortBy_perm _ _).trans (hm.trans (sortBy_perm _ _).symm)

/-- what is returned for a gene: raw hits above their cut-off, at most one per profile, by start -/
theorem findHmmerHitsGene_sound (cut : Int → Int) (eqs : List (List Int)) (raw out : List FHit)
    (h : findHmmerHitsGene cut eqs raw = some out) :
    (∀ x ∈ out, x ∈ raw ∧ cut x.prof < x.sc ∧ -10 < x.sc) ∧
    (∀ x ∈ out, ∀ y ∈ out, x.prof = y.prof → x = y) ∧
    out.Pairwise (fun a b => a.hs ≤ b.hs) := by
  simp only [findHmmerHitsGene] at h
  split at h
  · simp at h
  · rename_i kept hk
    simp only [Option.some.injEq] at h
    subst h
    have hsub : kept.Sublist (raw.filter (aboveCutoff cut)) := by
      simp only [filterResults] at hk
      split at hk
      · simp at hk
      · simp only [Option.some.injEq] at hk; subst hk; exact foldl_filterPass_sublist eqs _
    refine ⟨?_, ?_, ?_⟩
    · intro x hx
      rw [mem_sortBy] at hx
      obtain ⟨l1, l2, hfb⟩ := mem_filterMultiple.mp hx
      have hxk : x ∈ kept := by rw [hfb.1]; simp
      have := List.mem_filter.mp (hsub.subset hxk)
      exact ⟨this.1, by simpa [aboveCutoff] using this.2, hfb.2.1⟩
    · intro x hx y hy hp
      rw [mem_sortBy] at hx hy
      obtain ⟨l1, l2, h1⟩ := mem_filterMultiple.mp hx
      obtain ⟨l1', l2', h2⟩ := mem_filterMultiple.mp hy
      exact firstBest_unique h1 h2 hp
    · have total : ∀ a b : FHit, leHs a b = true ∨ leHs b a = true := by
        intro a b; simp only [leHs, decide_eq_true_eq]; omega
      have trans : ∀ a b c : FHit, leHs a b = true → leHs b c = true → leHs a c = true := by
        intro a b c; simp only [leHs, decide_eq_true_eq]; omega
      exact (sortBy_pairwise total trans _).imp (fun h => by simpa [leHs] using h)

/-- a hit that competes with no hit of the gene survives a competition -/
theorem filterPass_keeps_uncontested (hits : List FHit) (eq : List Int) (hu : UidNodup hits) (h : FHit)
    (hh : h ∈ hits) (hno : ∀ o ∈ hits, competes h o = false) : h ∈ filterPass hits eq := by
  by_cases hq : ((firstOcc (hits.map (·.prof))).filter (fun p => eq.contains p)).length < 2
  · unfold filterPass; simp only []; rw [if_pos hq]; exact hh
  · rw [filterPass_mem_iff hits eq hu hq]
    refine ⟨hh, ?_⟩
    intro o ho hl
    have : o = h := by
      cases hl with
      | refl _ => rfl
      | step _ hb hc _ => rw [hno _ hb] at hc; exact absurd hc (by simp)
    subst this
    simp only [prefers, Bool.or_eq_false_iff, decide_eq_false_iff_not, Bool.and_eq_false_iff]
    refine ⟨by omega, Or.inr ?_⟩
    rw [← Bool.not_eq_true, List.isSublist_iff_sublist]
    intro hs
    have := hu.nodup.sublist hs
    simp at this

theorem foldl_filterPass_keeps_uncontested : ∀ (eqs : List (List Int)) (hits : List FHit), UidNodup hits →
    ∀ h ∈ hits, (∀ o ∈ hits, competes h o = false) → h ∈ eqs.foldl filterPass hits
  | [], _, _, _, hh, _ => by simpa using hh
  | g :: eqs, hits, hu, h, hh, hno => by
    simp only [List.foldl_cons]
    have hs := filterPass_sublist hits g
    exact foldl_filterPass_keeps_uncontested eqs _ (hu.sublist hs) h
      (filterPass_keeps_uncontested hits g hu h hh hno) (fun o ho => hno o (hs.subset ho))

/-- every hit that survives the competition (and scores above −1) has its profile represented in
    what `find_hmmer_hits` returns for the gene, by a hit scoring at least as high -/
theorem findHmmerHitsGene_represents_survivors (cut : Int → Int) (eqs : List (List Int)) (raw : List FHit)
    (hu : UidNodup raw) : ∃ out, findHmmerHitsGene cut eqs raw = some out ∧
      ∀ h ∈ eqs.foldl filterPass (raw.filter (aboveCutoff cut)), -10 < h.sc →
        ∃ x ∈ out, x.prof = h.prof ∧ h.sc ≤ x.sc := by
  refine ⟨_, findHmmerHitsGene_eq cut eqs raw hu, ?_⟩
  intro h hh hs
  obtain ⟨x, hx, hp, hsc⟩ := multiple_profile_survives' _ h hh hs
  exact ⟨x, (mem_sortBy _).mpr hx, hp, hsc⟩

/-! ### `run_hmmer`, one locus -/

theorem runHmmerGene_perm (cut : Int → Option Int) (minScore maxEvalue : Int) {r₁ r₂ : List RawHmm} (h : r₁.Perm r₂)
    (out : List HHit) (h1 : runHmmerGene cut minScore maxEvalue r₁ = .ok out) :
    runHmmerGene cut minScore maxEvalue r₂ = .ok out := by
  have hp : ((r₁.filter (buildKeep minScore maxEvalue)).map (·.hit)).Perm
      ((r₂.filter (buildKeep minScore maxEvalue)).map (·.hit)) := (h.filter _).map _
  simp only [runHmmerGene] at h1 ⊢
  cases e1 : (r₁.filter (buildKeep minScore maxEvalue)).map (·.hit) with
  | nil =>
    rw [e1] at hp h1
    rw [hp.symm.eq_nil]
    exact h1
  | cons a t =>
    rw [e1] at hp h1
    cases e2 : (r₂.filter (buildKeep minScore maxEvalue)).map (·.hit) with
    | nil => rw [e2] at hp; exact absurd hp.eq_nil (by simp)
    | cons b t2 =>
      rw [e2] at hp
      simp only at h1 ⊢
      exact removeOverlapping_perm hp h1

/-! ### `run_hmmer`, the whole record -/

theorem runHmmer_foldl_ok (cut : Int → Option Int) (minScore maxEvalue : Int) (raw : List (Int × RawHmm))
    (outOf : Int → List HHit) : ∀ (loci : List Int) (acc : List (Int × HHit)),
    (∀ g ∈ loci, runHmmerGene cut minScore maxEvalue ((raw.filter fun r => r.1 == g).map (·.2)) = .ok (outOf g)) →
    loci.foldl (runHmmerStep cut minScore maxEvalue raw) (Except.ok acc : Except HErr (List (Int × HHit))) =
      .ok (acc ++ loci.flatMap fun g => (outOf g).map fun h => (g, h))
  | [], acc, _ => by simp
  | g :: loci, acc, h => by
    simp only [List.foldl_cons, runHmmerStep, h g (by simp), List.flatMap_cons]
    rw [runHmmer_foldl_ok cut minScore maxEvalue raw outOf loci _ (fun g' hg' => h g' (List.mem_cons_of_mem _ hg'))]
    simp

/-- with filtering the record's hits are the loci's own results, one locus after the other in the
    order the loci first appear among the passing hits -/
theorem runHmmerRecord_ok (cut : Int → Option Int) (minScore maxEvalue : Int) (raw : List (Int × RawHmm))
    (outOf : Int → List HHit)
    (h : ∀ g ∈ runHmmerLoci minScore maxEvalue raw,
      runHmmerGene cut minScore maxEvalue ((raw.filter fun r => r.1 == g).map (·.2)) = .ok (outOf g)) :
    runHmmerRecord cut minScore maxEvalue raw true =
      .ok ((runHmmerLoci minScore maxEvalue raw).flatMap fun g => (outOf g).map fun h => (g, h)) := by
  simp only [runHmmerRecord, Bool.not_true, Bool.false_eq_true, if_false]
  rw [runHmmer_foldl_ok cut minScore maxEvalue raw outOf _ [] h]
  simp

/-! ### `domain_identification`, one gene -/

theorem findDomainsGene_same_set (env : Env) (L : Int) {r₁ r₂ : List Hit} (h : ∀ x, x ∈ r₁ ↔ x ∈ r₂) :
    findDomainsGene env L r₁ = findDomainsGene env L r₂ := by
  simp only [findDomainsGene, refine, beforeIncomplete, sortHits_eq_of_same_set h]

theorem findSubtypesGene_same_set (env : Env) (target : Int) (strip : Int → Int) (existing : List Hit)
    {r₁ r₂ : List Hit} (h : ∀ x, x ∈ r₁ ↔ x ∈ r₂) :
    findSubtypesGene env target strip existing r₁ = findSubtypesGene env target strip existing r₂ := by
  have e : subtypeHits env strip r₁ = subtypeHits env strip r₂ := by
    funext d
    simp only [subtypeHits, refine, beforeIncomplete, sortHits_eq_of_same_set h]
  simp only [findSubtypesGene, e]

/-- every sub-type hit attached to a domain overlaps it (so `add_internal_hits` cannot raise) and
    is a renamed refined hit of the gene -/
theorem subtypeHits_overlap (env : Env) (strip : Int → Int) (raw : List Hit) (d : Hit) : ∀ s ∈ subtypeHits env strip raw d,
    overlapsWith s d = true ∧ ∃ h ∈ refine env true raw, s = { h with prof := strip h.prof } := by
  intro s hs
  simp only [subtypeHits, List.mem_map, List.mem_filter] at hs
  obtain ⟨h, ⟨hh, ho⟩, rfl⟩ := hs
  exact ⟨by simpa [overlapsWith] using ho, h, hh, rfl⟩

/-! ### neighbour mode in the callers: complete uncontested raw hits come back -/

theorem findDomainsGene_keeps (env : Env) (L : Int) (raw : List Hit) (x : Hit) (hx : x ∈ raw)
    (hcx : complete env x = true) (hnd : env.dock x.prof = false)
    (hun : ∀ k ∈ raw, k ≠ x → x.sc ≤ k.sc → collide env k x = false) :
    ∃ m ∈ findDomainsGene env L raw, Covers m x := by
  obtain ⟨m, hm, hc⟩ := refine_neighbour_keeps env raw x hx hcx hun
  refine ⟨m, ?_, hc⟩
  simp only [findDomainsGene, dockingFilter, List.mem_filter]
  refine ⟨hm, ?_⟩
  simp [dockKeep, hc.prof, hnd]

theorem subtypeHits_keeps (env : Env) (strip : Int → Int) (raw : List Hit) (d x : Hit) (hx : x ∈ raw)
    (hcx : complete env x = true) (hov : overlapsWith x d = true)
    (hun : ∀ k ∈ raw, k ≠ x → x.sc ≤ k.sc → collide env k x = false) :
    ∃ m, Covers m x ∧ ({ m with prof := strip m.prof } : Hit) ∈ subtypeHits env strip raw d := by
  obtain ⟨m, hm, hc⟩ := refine_neighbour_keeps env raw x hx hcx hun
  refine ⟨m, hc, ?_⟩
  simp only [subtypeHits, List.mem_map, List.mem_filter]
  refine ⟨m, ⟨hm, ?_⟩, rfl⟩
  simp only [overlapsWith, Bool.and_eq_true, decide_eq_true_eq] at hov ⊢
  have h1 := hc.lo
  have h2 := hc.hi
  omega

/-! ### the whole record: `gather_by_query` + the gene loop -/

theorem refine_nil (env : Env) (nb : Bool) : refine env nb [] = [] := by
  cases nb <;> rfl

theorem lookup_filterMap (env : Env) (nb : Bool) (hitsOf : Int → List Hit) (g : Int) : ∀ ks : List Int,
    lookupGene ((ks.map fun k => (k, hitsOf k)).filterMap fun e =>
        let refined := refine env nb e.2
        if refined.isEmpty then none else some (e.1, refined)) g =
      if g ∈ ks then refine env nb (hitsOf g) else []
  | [] => by simp [lookupGene]
  | k :: ks => by
    have ih := lookup_filterMap env nb hitsOf g ks
    simp only [List.map_cons, List.filterMap_cons]
    by_cases he : (refine env nb (hitsOf k)).isEmpty = true
    · simp only [he, if_true]
      rw [ih]
      by_cases hk : k = g
      · subst hk
        have : refine env nb (hitsOf k) = [] := List.isEmpty_iff.mp he
        simp [this]
      · have : (g ∈ k :: ks) ↔ g ∈ ks := by
          simp only [List.mem_cons]
          constructor
          · rintro (h | h)
            · exact absurd h.symm hk
            · exact h
          · exact Or.inr
        simp only [this]
    · simp only [he, Bool.false_eq_true, if_false]
      by_cases hk : k = g
      · subst hk
        simp [lookupGene]
      · have hb : (k == g) = false := by simpa using hk
        have : (g ∈ k :: ks) ↔ g ∈ ks := by
          simp only [List.mem_cons]
          constructor
          · rintro (h | h)
            · exact absurd h.symm hk
            · exact h
          · exact Or.inr
        simp only [this]
        rw [← ih]
        simp only [lookupGene, List.find?_cons, hb]

/-- the entry of a gene in the result of `refine_hmmscan_results` is the refinement of that gene's
    own hits — whatever else is in the hmmscan output and however the genes are interleaved -/
theorem refineRecord_lookup (env : Env) (nb : Bool) (raw : List (Int × Hit)) (g : Int) :
    lookupGene (refineRecord env nb raw) g = refine env nb ((raw.filter fun r => r.1 == g).map (·.2)) := by
  unfold refineRecord gatherByQuery
  rw [lookup_filterMap env nb (fun g => (raw.filter fun r => r.1 == g).map (·.2)) g]
  split
  · rfl
  · rename_i hg
    rw [mem_firstOcc] at hg
    have : (raw.filter fun r => r.1 == g) = [] := by
      rw [List.filter_eq_nil_iff]
      intro r hr hk
      apply hg
      exact List.mem_map.mpr ⟨r, hr, by simpa using hk⟩
    rw [this]
    simp [refine_nil]

/-- … and so it does not depend on the order of the hmmscan output -/
theorem refineRecord_perm (env : Env) (nb : Bool) {r₁ r₂ : List (Int × Hit)} (h : r₁.Perm r₂) (g : Int) :
    lookupGene (refineRecord env nb r₁) g = lookupGene (refineRecord env nb r₂) g := by
  rw [refineRecord_lookup, refineRecord_lookup]
  have hp : ((r₁.filter fun r => r.1 == g).map (·.2)).Perm ((r₂.filter fun r => r.1 == g).map (·.2)) :=
    (h.filter _).map _
  simp only [refine, beforeIncomplete, sortHits_eq_of_same_set (fun x => hp.mem_iff)]

end ASV.HitCallers
