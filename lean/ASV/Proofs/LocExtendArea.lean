/-
  `Record.extend_location` on a circular record for an origin-spanning span `[x, L) + [0, y)` (C04).
-/
import ASV.Proofs.LocOffsetArea
set_option linter.unusedSimpArgs false
set_option linter.unusedVariables false
namespace ASV

/-- closed form of `extend_location` for the forward origin-spanning span `[x, L) + [0, y)` -/
def extAreaRing (x y d L : Int) : Loc :=
  if x - d < 0 ∧ x - d + L ≤ y + d then .simple ⟨0, L, .fwd⟩
  else if x - d < 0 then .compound [⟨L + (x - d), L, .fwd⟩, ⟨0, L, .fwd⟩, ⟨0, y + d, .fwd⟩]
  else if y + d > L then
    if x - d < y + d - L then .simple ⟨0, L, .fwd⟩
    else .compound [⟨x - d, L, .fwd⟩, ⟨0, L, .fwd⟩, ⟨0, y + d - L, .fwd⟩]
  else if x - d < y + d then .simple ⟨0, L, .fwd⟩
  else .compound [⟨x - d, L, .fwd⟩, ⟨0, y + d, .fwd⟩]

theorem extend_area_ring_eq (x y d L : Int) (hL : 0 < L) (hy0 : 0 < y) (hyx : y ≤ x) (hxL : x < L) (hd : 0 ≤ d) :
    extendLocation (areaTwo x y L .fwd) d L true = .ok (extAreaRing x y d L) := by
  unfold extAreaRing
  have hno : partsOverlap (⟨x, L, .fwd⟩ : Part) (⟨0, y, .fwd⟩ : Part) = false := by
    simp only [partsOverlap, Part.mem, Bool.or_eq_false_iff, Bool.and_eq_false_iff, decide_eq_false_iff_not]; omega
  by_cases hW : x - d < 0 ∧ x - d + L ≤ y + d
  · rw [if_pos hW]
    have hm := Int.emod_lt_of_pos (y + d) hL
    have hm0 := Int.emod_nonneg (y + d) (show L ≠ 0 by omega)
    have o1 : partsOverlap (⟨0, L, .fwd⟩ : Part) (⟨x - d + L, L, .fwd⟩ : Part) = true := by
      simp only [partsOverlap, Part.mem, Bool.or_eq_true, Bool.and_eq_true, decide_eq_true_eq]; omega
    have o2 : partsOverlap (⟨0, L, .fwd⟩ : Part) (⟨min 0 (x - d + L), L, .fwd⟩ : Part) = true := by
      simp only [partsOverlap, Part.mem, Bool.or_eq_true, Bool.and_eq_true, decide_eq_true_eq]; omega
    have o3 : partsOverlap (⟨min 0 (x - d + L), L, .fwd⟩ : Part) (⟨0, (y + d) % L, .fwd⟩ : Part) = true := by
      simp only [partsOverlap, Part.mem, Bool.or_eq_true, Bool.and_eq_true, decide_eq_true_eq]; omega
    have e6 : max L ((y + d) % L) = L := by omega
    by_cases hne : y + d > L
    · simp [extendLocation, areaTwo, Loc.strand, Loc.parts, setHead, setLast, pure, Except.pure, bind, Except.bind,
        hW.1, hW.2, popWhileUpper, popWhileLower, o1, o2, o3, e6, hne]
    · have e7 : min 0 (x - d + L) = 0 := by omega
      have o7 : partsOverlap (⟨0, L, .fwd⟩ : Part) (⟨0, L, .fwd⟩ : Part) = true := by
        simp only [partsOverlap, Part.mem, Bool.or_eq_true, Bool.and_eq_true, decide_eq_true_eq]; omega
      simp [extendLocation, areaTwo, Loc.strand, Loc.parts, setHead, setLast, pure, Except.pure, bind, Except.bind,
        hW.1, hW.2, popWhileUpper, popWhileLower, o1, o2, e7, hne, o7]
  · rw [if_neg hW]
    by_cases hA : x - d < 0
    · rw [if_pos hA]
      have hW' : ¬ (x - d + L ≤ y + d) := fun h => hW ⟨hA, h⟩
      have hB : ¬ (y + d > L) := by omega
      have e1 : min (L + (x - d)) L = L + (x - d) := by omega
      have e2 : min (y + d) L = y + d := by omega
      have o4 : partsOverlap (⟨L + (x - d), L, .fwd⟩ : Part) (⟨0, y + d, .fwd⟩ : Part) = false := by
        simp only [partsOverlap, Part.mem, Bool.or_eq_false_iff, Bool.and_eq_false_iff, decide_eq_false_iff_not]; omega
      simp [extendLocation, areaTwo, Loc.strand, Loc.parts, setHead, setLast, pure, Except.pure, bind, Except.bind,
        hA, hW', hB, mergeEnds, hno, e1, e2, o4]
    · rw [if_neg hA]
      have e1 : max 0 (x - d) = x - d := by omega
      by_cases hB : y + d > L
      · rw [if_pos hB]
        have e2 : min (y + d - L) L = y + d - L := by omega
        by_cases hM : x - d < y + d - L
        · rw [if_pos hM]
          have o5 : partsOverlap (⟨x - d, L, .fwd⟩ : Part) (⟨0, y + d - L, .fwd⟩ : Part) = true := by
            simp only [partsOverlap, Part.mem, Bool.or_eq_true, Bool.and_eq_true, decide_eq_true_eq]; omega
          have o6 : partsOverlap (⟨0, L, .fwd⟩ : Part) (⟨0, L, .fwd⟩ : Part) = true := by
            simp only [partsOverlap, Part.mem, Bool.or_eq_true, Bool.and_eq_true, decide_eq_true_eq]; omega
          have e3 : min (x - d) 0 = 0 := by omega
          have e4 : max L (y + d - L) = L := by omega
          simp [extendLocation, areaTwo, Loc.strand, Loc.parts, setHead, setLast, pure, Except.pure, bind, Except.bind,
            hA, hB, mergeEnds, hno, e1, e2, o5, o6, e3, e4]
        · rw [if_neg hM]
          have o5 : partsOverlap (⟨x - d, L, .fwd⟩ : Part) (⟨0, y + d - L, .fwd⟩ : Part) = false := by
            simp only [partsOverlap, Part.mem, Bool.or_eq_false_iff, Bool.and_eq_false_iff, decide_eq_false_iff_not]; omega
          simp [extendLocation, areaTwo, Loc.strand, Loc.parts, setHead, setLast, pure, Except.pure, bind, Except.bind,
            hA, hB, mergeEnds, hno, e1, e2, o5]
      · rw [if_neg hB]
        have e2 : min (y + d) L = y + d := by omega
        by_cases hM : x - d < y + d
        · rw [if_pos hM]
          have o5 : partsOverlap (⟨x - d, L, .fwd⟩ : Part) (⟨0, y + d, .fwd⟩ : Part) = true := by
            simp only [partsOverlap, Part.mem, Bool.or_eq_true, Bool.and_eq_true, decide_eq_true_eq]; omega
          have e3 : min (x - d) 0 = 0 := by omega
          have e4 : max L (y + d) = L := by omega
          simp [extendLocation, areaTwo, Loc.strand, Loc.parts, setHead, setLast, pure, Except.pure, bind, Except.bind,
            hA, hB, mergeEnds, hno, e1, e2, o5, e3, e4]
        · rw [if_neg hM]
          have o5 : partsOverlap (⟨x - d, L, .fwd⟩ : Part) (⟨0, y + d, .fwd⟩ : Part) = false := by
            simp only [partsOverlap, Part.mem, Bool.or_eq_false_iff, Bool.and_eq_false_iff, decide_eq_false_iff_not]; omega
          simp [extendLocation, areaTwo, Loc.strand, Loc.parts, setHead, setLast, pure, Except.pure, bind, Except.bind,
            hA, hB, mergeEnds, hno, e1, e2, o5]

theorem mem_three (a b c : Part) (i : Int) :
    (Loc.compound [a, b, c]).mem i = true ↔ (a.lo ≤ i ∧ i < a.hi) ∨ (b.lo ≤ i ∧ i < b.hi) ∨ (c.lo ≤ i ∧ i < c.hi) := by
  simp [Loc.mem, Loc.parts, Part.mem_iff]

/-- the bases of the closed form: the whole record except the part of the gap `[y, x)` that is
    further than `d` from both of its ends -/
theorem extAreaRing_mem_gap (x y d L : Int) (hL : 0 < L) (hy0 : 0 < y) (hyx : y ≤ x) (hxL : x < L) (hd : 0 ≤ d) (i : Int) :
    (extAreaRing x y d L).mem i = true ↔ (0 ≤ i ∧ i < L ∧ ¬ (y + d ≤ i ∧ i < x - d)) := by
  unfold extAreaRing
  by_cases hW : x - d < 0 ∧ x - d + L ≤ y + d
  · rw [if_pos hW, mem_simple]; dsimp only; omega
  · rw [if_neg hW]
    by_cases hA : x - d < 0
    · rw [if_pos hA, mem_three]; dsimp only; omega
    · rw [if_neg hA]
      by_cases hB : y + d > L
      · rw [if_pos hB]
        by_cases hM : x - d < y + d - L
        · rw [if_pos hM, mem_simple]; dsimp only; omega
        · rw [if_neg hM, mem_three]; dsimp only; omega
      · rw [if_neg hB]
        by_cases hM : x - d < y + d
        · rw [if_pos hM, mem_simple]; dsimp only; omega
        · rw [if_neg hM, mem_two]; dsimp only; omega

/-- … which are exactly the bases within ring distance `d` of the span -/
theorem extAreaRing_mem (x y d L : Int) (hL : 0 < L) (hy0 : 0 < y) (hyx : y ≤ x) (hxL : x < L) (hd : 0 ≤ d) (i : Int) :
    (extAreaRing x y d L).mem i = true ↔
      (0 ≤ i ∧ i < L ∧ ∃ j, (areaTwo x y L .fwd).mem j = true ∧ ringAbs L i j ≤ d) := by
  rw [extAreaRing_mem_gap x y d L hL hy0 hyx hxL hd]
  simp only [areaTwo, mem_two, ringAbs, iabs_def, Int.min_def]
  constructor
  · rintro ⟨hi0, hi1, hgap⟩
    refine ⟨hi0, hi1, ?_⟩
    by_cases a : x ≤ i
    · exact ⟨i, Or.inl ⟨a, hi1⟩, by grind⟩
    · by_cases b : i < y
      · exact ⟨i, Or.inr ⟨hi0, b⟩, by grind⟩
      · by_cases c : i < y + d
        · exact ⟨y - 1, Or.inr ⟨by omega, by omega⟩, by grind⟩
        · exact ⟨x, Or.inl ⟨by omega, hxL⟩, by grind⟩
  · rintro ⟨hi0, hi1, j, hj, hr⟩
    refine ⟨hi0, hi1, ?_⟩
    grind

/-- the closed form is a well-formed span unless the start is pushed below the origin, or the end
    beyond the record end, without the two ends meeting -/
theorem extAreaRing_wf (x y d L : Int) (hL : 0 < L) (hy0 : 0 < y) (hyx : y ≤ x) (hxL : x < L) (hd : 0 ≤ d)
    (h : (d ≤ x ∧ y + d ≤ L) ∨ L + x - y < 2 * d) : areaWF L L (extAreaRing x y d L) = true := by
  have hL0 : L ≠ 0 := by omega
  unfold extAreaRing
  by_cases hW : x - d < 0 ∧ x - d + L ≤ y + d
  · rw [if_pos hW]; simp [areaWF, Loc.parts]; omega
  · rw [if_neg hW]
    by_cases hA : x - d < 0
    · exfalso; omega
    · rw [if_neg hA]
      by_cases hB : y + d > L
      · rw [if_pos hB]
        by_cases hM : x - d < y + d - L
        · rw [if_pos hM]; simp [areaWF, Loc.parts]; omega
        · exfalso; omega
      · rw [if_neg hB]
        by_cases hM : x - d < y + d
        · rw [if_pos hM]; simp [areaWF, Loc.parts]; omega
        · rw [if_neg hM]; simp [areaWF, Loc.parts, hL0]; omega

end ASV
