/-
  `Record.extend_location` on a circular record for an origin-spanning span `[x, L) + [0, y)` (C04).
-/
import ASV.Proofs.LocOffsetArea
set_option linter.unusedSimpArgs false
set_option linter.unusedVariables false
namespace ASV

/-- closed form of `extend_location` (after the repair D59) for the forward origin-spanning span `[x, L) + [0, y)`:
    the whole record as soon as the two extended ends pass each other, else both ends moved by `d` -/
def extAreaRing (x y d L : Int) : Loc :=
  if x - y < 2 * d then .simple ⟨0, L, .fwd⟩
  else .compound [⟨x - d, L, .fwd⟩, ⟨0, y + d, .fwd⟩]

theorem bridges_areaTwo_fwd (x y L : Int) (hy0 : 0 < y) (hyx : y ≤ x) : bridgesOrigin (areaTwo x y L .fwd) = true := by
  simp [bridgesOrigin, areaTwo, Loc.strand, Loc.parts, orderInvalid]
  omega

theorem extend_area_ring_eq (x y d L : Int) (hL : 0 < L) (hy0 : 0 < y) (hyx : y ≤ x) (hxL : x < L) (hd : 0 ≤ d) :
    extendLocation (areaTwo x y L .fwd) d L true = .ok (extAreaRing x y d L) := by
  unfold extAreaRing
  have hno : partsOverlap (⟨x, L, .fwd⟩ : Part) (⟨0, y, .fwd⟩ : Part) = false := by
    simp only [partsOverlap, Part.mem, Bool.or_eq_false_iff, Bool.and_eq_false_iff, decide_eq_false_iff_not]; omega
  have hb : bridgesOrigin (Loc.compound [⟨x, L, .fwd⟩, ⟨0, y, .fwd⟩]) = true := bridges_areaTwo_fwd x y L hy0 hyx
  by_cases hG : x - y < 2 * d
  · rw [if_pos hG]
    have h0 : ¬ x < y := by omega
    simp [extendLocation, hb, areaTwo, Loc.strand, Loc.parts, pure, Except.pure, h0, hG]
  · rw [if_neg hG]
    have hA : ¬ (x - d < 0) := by omega
    have hB : ¬ (y + d > L) := by omega
    have e1 : max 0 (x - d) = x - d := by omega
    have e2 : min (y + d) L = y + d := by omega
    have o5 : partsOverlap (⟨x - d, L, .fwd⟩ : Part) (⟨0, y + d, .fwd⟩ : Part) = false := by
      simp only [partsOverlap, Part.mem, Bool.or_eq_false_iff, Bool.and_eq_false_iff, decide_eq_false_iff_not]; omega
    simp [extendLocation, hb, areaTwo, Loc.strand, Loc.parts, setHead, setLast, pure, Except.pure, bind, Except.bind,
      hG, hA, hB, mergeEnds, hno, e1, e2, o5]

theorem mem_three (a b c : Part) (i : Int) :
    (Loc.compound [a, b, c]).mem i = true ↔ (a.lo ≤ i ∧ i < a.hi) ∨ (b.lo ≤ i ∧ i < b.hi) ∨ (c.lo ≤ i ∧ i < c.hi) := by
  simp [Loc.mem, Loc.parts, Part.mem_iff]

/-- the bases of the closed form: the whole record except the part of the gap `[y, x)` that is
    further than `d` from both of its ends -/
theorem extAreaRing_mem_gap (x y d L : Int) (hL : 0 < L) (hy0 : 0 < y) (hyx : y ≤ x) (hxL : x < L) (hd : 0 ≤ d) (i : Int) :
    (extAreaRing x y d L).mem i = true ↔ (0 ≤ i ∧ i < L ∧ ¬ (y + d ≤ i ∧ i < x - d)) := by
  unfold extAreaRing
  by_cases hG : x - y < 2 * d
  · rw [if_pos hG, mem_simple]; dsimp only; omega
  · rw [if_neg hG, mem_two]; dsimp only; omega

/-- … which are exactly the bases within ring distance `d` of the span -/
theorem extAreaRing_mem (x y d L : Int) (hL : 0 < L) (hy0 : 0 < y) (hyx : y ≤ x) (hxL : x < L) (hd : 0 ≤ d) (i : Int) :
    (extAreaRing x y d L).mem i = true ↔
      (0 ≤ i ∧ i < L ∧ ∃ j, (areaTwo x y L .fwd).mem j = true ∧ ringAbs L i j ≤ d) := by
  rw [extAreaRing_mem_gap x y d L hL hy0 hyx hxL hd]
  simp only [areaTwo, mem_two, ringAbs, iabs_def, Int.min_def]
  constructor
  · rintro ⟨hi0, hi1, hgap⟩
    refine ⟨hi0, hi1, ?_⟩
    by_cases a : x ≤ i
    · exact ⟨i, Or.inl ⟨a, hi1⟩, by grind⟩
    · by_cases b : i < y
      · exact ⟨i, Or.inr ⟨hi0, b⟩, by grind⟩
      · by_cases c : i < y + d
        · exact ⟨y - 1, Or.inr ⟨by omega, by omega⟩, by grind⟩
        · exact ⟨x, Or.inl ⟨by omega, hxL⟩, by grind⟩
  · rintro ⟨hi0, hi1, j, hj, hr⟩
    refine ⟨hi0, hi1, ?_⟩
    grind

/-- the closed form is always a well-formed span (after D59; before it three overlapping parts came out when an
    end was pushed past the origin / the record end without the two ends meeting there) -/
theorem extAreaRing_wf (x y d L : Int) (hL : 0 < L) (hy0 : 0 < y) (hyx : y ≤ x) (hxL : x < L) (hd : 0 ≤ d) :
    areaWF L L (extAreaRing x y d L) = true := by
  have hL0 : L ≠ 0 := by omega
  unfold extAreaRing
  by_cases hG : x - y < 2 * d
  · rw [if_pos hG]; simp [areaWF, Loc.parts]; omega
  · rw [if_neg hG]; simp [areaWF, Loc.parts, hL0]; omega

end ASV
