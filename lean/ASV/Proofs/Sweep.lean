namespace ASV.Sweep

structure Iv where
  lo : Nat
  hi : Nat
deriving Repr, DecidableEq

/-- gap smaller than `c` (c = 0: plain overlap) -/
def reach (c : Nat) (a b : Iv) : Prop := a.lo < b.hi + c ∧ b.lo < a.hi + c

structure Grp where
  hull : Iv
  members : List Iv
deriving Repr

def go (c : Nat) (cur : Grp) : List Iv → List Grp
  | [] => [cur]
  | y :: ys =>
    if y.lo < cur.hull.hi + c then
      go c ⟨⟨cur.hull.lo, max cur.hull.hi y.hi⟩, cur.members ++ [y]⟩ ys
    else cur :: go c ⟨y, [y]⟩ ys

def sweep (c : Nat) : List Iv → List Grp
  | [] => []
  | x :: xs => go c ⟨x, [x]⟩ xs

/-- sorted by lo -/
def Sorted : List Iv → Prop
  | [] => True
  | [_] => True
  | a :: b :: r => a.lo ≤ b.lo ∧ Sorted (b :: r)

theorem Sorted.tail {a : Iv} {l : List Iv} (h : Sorted (a :: l)) : Sorted l := by
  cases l with
  | nil => trivial
  | cons b r => exact h.2

theorem Sorted.head_le {a : Iv} {l : List Iv} (h : Sorted (a :: l)) : ∀ x ∈ l, a.lo ≤ x.lo := by
  induction l generalizing a with
  | nil => intro x hx; cases hx
  | cons b r ih =>
    intro x hx
    cases hx with
    | head => exact h.1
    | tail _ hx' => exact Nat.le_trans h.1 (ih h.2 x hx')

/-- 1. the groups, concatenated, are the input (nothing lost, duplicated or reordered) -/
theorem go_flatten (c : Nat) (cur : Grp) (ys : List Iv) :
    ((go c cur ys).map Grp.members).flatten = cur.members ++ ys := by
  induction ys generalizing cur with
  | nil => simp [go]
  | cons y ys ih =>
    simp only [go]
    split
    · rw [ih]; simp
    · simp [ih]

theorem sweep_flatten (c : Nat) (xs : List Iv) :
    ((sweep c xs).map Grp.members).flatten = xs := by
  cases xs with
  | nil => rfl
  | cons x xs => simp [sweep, go_flatten]

/-- invariant of the group under construction -/
structure GInv (c : Nat) (g : Grp) : Prop where
  ne : g.members ≠ []
  hiMax : ∀ m ∈ g.members, m.hi ≤ g.hull.hi
  hiAtt : ∃ m ∈ g.members, m.hi = g.hull.hi
  loMin : ∀ m ∈ g.members, g.hull.lo ≤ m.lo
  wf : ∀ m ∈ g.members, m.lo < m.hi

/-- 3. no edge between different groups: anything after a closed group is out of reach of
    all its members -/
theorem go_separated (c : Nat) (cur : Grp) (ys : List Iv)
    (hinv : GInv c cur) (hs : ∀ y ∈ ys, cur.hull.lo ≤ y.lo) (hsorted : Sorted ys)
    (hwf : ∀ y ∈ ys, y.lo < y.hi) :
    ∀ gs₁ g gs₂, go c cur ys = gs₁ ++ g :: gs₂ →
      ∀ a ∈ g.members, ∀ g' ∈ gs₂, ∀ b ∈ g'.members, ¬ reach c a b := by
  induction ys generalizing cur with
  | nil =>
    intro gs₁ g gs₂ h
    simp only [go] at h
    have : gs₂ = [] := by
      have hl := congrArg List.length h
      simp only [List.length_cons, List.length_nil, List.length_append] at hl
      exact List.eq_nil_of_length_eq_zero (by omega)
    subst this
    intro a _ g' hg'; cases hg'
  | cons y ys ih =>
    intro gs₁ g gs₂ h
    simp only [go] at h
    split at h
    · next hlt =>
      have hinv' : GInv c ⟨⟨cur.hull.lo, max cur.hull.hi y.hi⟩, cur.members ++ [y]⟩ := by
        refine ⟨by simp, ?_, ?_, ?_, ?_⟩
        · intro m hm
          simp only [List.mem_append, List.mem_singleton] at hm
          rcases hm with hm | rfl
          · have := hinv.hiMax m hm; simp only; omega
          · simp only; omega
        · obtain ⟨m, hm, hmhi⟩ := hinv.hiAtt
          by_cases hc : cur.hull.hi ≤ y.hi
          · exact ⟨y, by simp, by simp only; omega⟩
          · exact ⟨m, by simp [hm], by simp only; omega⟩
        · intro m hm
          simp only [List.mem_append, List.mem_singleton] at hm
          rcases hm with hm | rfl
          · exact hinv.loMin m hm
          · exact hs _ (by simp)
        · intro m hm
          simp only [List.mem_append, List.mem_singleton] at hm
          rcases hm with hm | rfl
          · exact hinv.wf m hm
          · exact hwf _ (by simp)
      exact ih _ hinv' (fun z hz => hs z (by simp [hz])) hsorted.tail
        (fun z hz => hwf z (by simp [hz])) gs₁ g gs₂ h
    · next hge =>
      have hinvy : GInv c ⟨y, [y]⟩ :=
        ⟨by simp, by simp, ⟨y, by simp, rfl⟩, by simp, by
          intro m hm; simp at hm; subst hm; exact hwf _ (by simp)⟩
      cases gs₁ with
      | nil =>
        simp only [List.nil_append, List.cons.injEq] at h
        obtain ⟨rfl, hrest⟩ := h
        intro a ha g' hg' b hb hr
        -- every member b of a later group is y or comes after y, so b.lo ≥ y.lo ≥ hull.hi + c
        have hb_mem : b ∈ y :: ys := by
          have := go_flatten c ⟨y, [y]⟩ ys
          rw [hrest] at this
          have hb' : b ∈ (List.map Grp.members gs₂).flatten := by
            simp only [List.mem_flatten, List.mem_map]
            exact ⟨g'.members, ⟨g', hg', rfl⟩, hb⟩
          rw [this] at hb'
          simpa using hb'
        have hylo : y.lo ≤ b.lo := by
          cases hb_mem with
          | head => exact Nat.le_refl _
          | tail _ hb2 => exact hsorted.head_le b hb2
        have := hinv.hiMax a ha
        unfold reach at hr
        omega
      | cons g₀ t =>
        simp only [List.cons_append, List.cons.injEq] at h
        exact ih _ hinvy (fun z hz => by simpa using hsorted.head_le z hz) hsorted.tail
          (fun z hz => hwf z (by simp [hz])) t g gs₂ h.2

#print axioms go_separated
#print axioms sweep_flatten
end ASV.Sweep
