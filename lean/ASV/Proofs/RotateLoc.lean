/-
  C07: the executable re-indexing `Rot.rotateLoc` (the harness' `rotate_loc`) is a rotation of the set
  of bases: `IsRot L (-k) l (rotateLoc l k L)` for every well-formed location and every cut `0 ≤ k < L`.
-/
import ASV.Model.Rotate
import ASV.Proofs.Rotation
set_option linter.unusedVariables false
namespace ASV.Rot
open ASV

def anyMem (ps : List Part) (i : Int) : Bool := ps.any (·.mem i)

theorem mem_ofParts (ps : List Part) (i : Int) : (Loc.ofParts ps).mem i = anyMem ps i := by
  unfold Loc.ofParts anyMem
  split <;> simp [Loc.mem, Loc.parts]

theorem anyMem_cons (p : Part) (ps : List Part) (i : Int) : anyMem (p :: ps) i = (p.mem i || anyMem ps i) := by
  simp [anyMem]

/-- joining a piece to the previous one does not change the bases covered -/
theorem pushPiece_mem (out : List Part) (p : Part) (hout : ∀ q ∈ out, q.lo ≤ q.hi) (hp : p.lo ≤ p.hi) (i : Int) :
    anyMem (pushPiece out p) i = (anyMem out i || p.mem i) ∧ ∀ q ∈ pushPiece out p, q.lo ≤ q.hi := by
  cases out with
  | nil => simp [pushPiece, anyMem, hp]
  | cons q rest =>
    have hq := hout q (by simp)
    have hrest : ∀ x ∈ rest, x.lo ≤ x.hi := fun x hx => hout x (by simp [hx])
    simp only [pushPiece]
    split
    · next h =>
      simp only [Bool.and_eq_true, bne_iff_ne, ne_eq, beq_iff_eq] at h
      refine ⟨?_, ?_⟩
      · simp only [anyMem_cons]
        have : (⟨q.lo, p.hi, q.strand⟩ : Part).mem i = (q.mem i || p.mem i) := by
          rw [Bool.eq_iff_iff]
          simp only [Part.mem_iff, Bool.or_eq_true]
          omega
        rw [this]
        cases q.mem i <;> cases p.mem i <;> cases anyMem rest i <;> rfl
      · intro x hx
        simp only [List.mem_cons] at hx
        rcases hx with rfl | hx
        · simp only; omega
        · exact hrest x hx
    · split
      · next h =>
        simp only [Bool.and_eq_true, beq_iff_eq] at h
        refine ⟨?_, ?_⟩
        · simp only [anyMem_cons]
          have : (⟨p.lo, q.hi, q.strand⟩ : Part).mem i = (q.mem i || p.mem i) := by
            rw [Bool.eq_iff_iff]
            simp only [Part.mem_iff, Bool.or_eq_true]
            omega
          rw [this]
          cases q.mem i <;> cases p.mem i <;> cases anyMem rest i <;> rfl
        · intro x hx
          simp only [List.mem_cons] at hx
          rcases hx with rfl | hx
          · simp only; omega
          · exact hrest x hx
      · refine ⟨?_, ?_⟩
        · simp only [anyMem_cons]
          cases q.mem i <;> cases p.mem i <;> cases anyMem rest i <;> rfl
        · intro x hx
          simp only [List.mem_cons] at hx
          rcases hx with rfl | rfl | hx
          · exact hp
          · exact hq
          · exact hrest x hx

theorem foldl_pushPiece_mem (ps : List Part) (hps : ∀ p ∈ ps, p.lo ≤ p.hi) (i : Int) :
    ∀ (out : List Part), (∀ q ∈ out, q.lo ≤ q.hi) →
      anyMem (ps.foldl pushPiece out) i = (anyMem out i || anyMem ps i) := by
  induction ps with
  | nil => intro out _; simp [anyMem]
  | cons p rest ih =>
    intro out hout
    obtain ⟨h1, h2⟩ := pushPiece_mem out p hout (hps p (by simp)) i
    rw [List.foldl_cons, ih (fun x hx => hps x (by simp [hx])) _ h2, h1, anyMem_cons, Bool.or_assoc]

theorem anyMem_reverse (ps : List Part) (i : Int) : anyMem ps.reverse i = anyMem ps i := by
  simp [anyMem]

/-- one part: the pieces cover exactly the re-indexed bases of the part -/
theorem rotPieces_mem (k L : Int) (hL : 0 < L) (hk0 : 0 ≤ k) (hkL : k < L) (p : Part)
    (h0 : 0 ≤ p.lo) (h1 : p.lo < p.hi) (h2 : p.hi ≤ L) (i : Int) :
    (anyMem (rotPieces k L p) i = true ↔ 0 ≤ i ∧ i < L ∧ ∃ j, p.mem j = true ∧ RotOf L (-k) i j) ∧
    ∀ q ∈ rotPieces k L p, q.lo ≤ q.hi := by
  have key : ∀ j c : Int, p.lo ≤ j → j < p.hi → 0 ≤ i → i < L → i = j + -k + c * L → c = 0 ∨ c = 1 ∨ c = -1 := by
    intro j c a b c0 c1 e
    exact mul_bound3 c L (i - j + k) hL (by omega) (by omega) (by omega)
  by_cases hA : p.hi - k ≤ 0
  · have e : rotPieces k L p = [⟨p.lo - k + L, p.hi - k + L, p.strand⟩] := by
      have hn : ¬ (p.lo - k + L < 0) := by omega
      simp [rotPieces, hA, hn]
    rw [e]
    refine ⟨?_, by intro q hq; simp at hq; subst hq; simp only; omega⟩
    simp only [anyMem, List.any_cons, List.any_nil, Bool.or_false, Part.mem_iff]
    constructor
    · intro h
      exact ⟨by omega, by omega, i + k - L, ⟨by omega, by omega⟩, 1, by omega⟩
    · rintro ⟨i0, i1, j, ⟨j0, j1⟩, c, hc⟩
      rcases key j c j0 j1 i0 i1 hc with rfl | rfl | rfl <;> omega
  · by_cases hB : p.lo - k < 0
    · have e : ∀ q, q ∈ rotPieces k L p ↔ q = ⟨p.lo - k + L, L, p.strand⟩ ∨ q = ⟨0, p.hi - k, p.strand⟩ := by
        intro q
        simp only [rotPieces, hA, if_false, hB, if_true]
        split <;> simp [or_comm]
      refine ⟨?_, by intro q hq; rcases (e q).1 hq with rfl | rfl <;> simp only <;> omega⟩
      simp only [anyMem, List.any_eq_true]
      constructor
      · rintro ⟨q, hq, hm⟩
        rw [Part.mem_iff] at hm
        rcases (e q).1 hq with rfl | rfl
        · simp only at hm
          exact ⟨by omega, by omega, i + k - L, by rw [Part.mem_iff]; omega, 1, by omega⟩
        · simp only at hm
          exact ⟨by omega, by omega, i + k, by rw [Part.mem_iff]; omega, 0, by omega⟩
      · rintro ⟨i0, i1, j, hj, c, hc⟩
        rw [Part.mem_iff] at hj
        rcases key j c hj.1 hj.2 i0 i1 hc with rfl | rfl | rfl
        · exact ⟨⟨0, p.hi - k, p.strand⟩, (e _).2 (Or.inr rfl), by rw [Part.mem_iff]; simp only; omega⟩
        · exact ⟨⟨p.lo - k + L, L, p.strand⟩, (e _).2 (Or.inl rfl), by rw [Part.mem_iff]; simp only; omega⟩
        · omega
    · have e : rotPieces k L p = [⟨p.lo - k, p.hi - k, p.strand⟩] := by
        simp [rotPieces, hA, hB]
      rw [e]
      refine ⟨?_, by intro q hq; simp at hq; subst hq; simp only; omega⟩
      simp only [anyMem, List.any_cons, List.any_nil, Bool.or_false, Part.mem_iff]
      constructor
      · intro h
        exact ⟨by omega, by omega, i + k, ⟨by omega, by omega⟩, 0, by omega⟩
      · rintro ⟨i0, i1, j, ⟨j0, j1⟩, c, hc⟩
        rcases key j c j0 j1 i0 i1 hc with rfl | rfl | rfl <;> omega

theorem anyMem_flatMap (ps : List Part) (f : Part → List Part) (i : Int) :
    anyMem (ps.flatMap f) i = ps.any fun p => anyMem (f p) i := by
  simp [anyMem, List.any_flatMap]

/-- **Re-indexing is a rotation of the bases**: for every location with non-empty parts inside the ring
    and every cut point, `rotateLoc` holds exactly the bases of the location re-indexed by `-k` -/
theorem rotateLoc_isRot (l : Loc) (k L : Int) (hL : 0 < L) (hk0 : 0 ≤ k) (hkL : k < L) (hok : l.OK L) :
    IsRot L (-k) l (rotateLoc l k L) := by
  have hL0 : L ≠ 0 := by omega
  have hpart : ∀ p ∈ l.parts, 0 ≤ p.lo ∧ p.lo < p.hi ∧ p.hi ≤ L := by
    intro p hp
    obtain ⟨a, b, c⟩ := hok.2 p hp
    exact ⟨a, b, c hL0⟩
  have hwf : ∀ q ∈ l.parts.flatMap (rotPieces k L), q.lo ≤ q.hi := by
    intro q hq
    obtain ⟨p, hp, hqp⟩ := List.mem_flatMap.1 hq
    obtain ⟨a, b, c⟩ := hpart p hp
    exact (rotPieces_mem k L hL hk0 hkL p a b c 0).2 q hqp
  intro i
  rw [rotateLoc, mem_ofParts, rotateParts, anyMem_reverse,
    foldl_pushPiece_mem _ hwf i [] (by intro q hq; cases hq), anyMem_flatMap]
  simp only [anyMem, List.any_nil, Bool.false_or, List.any_eq_true]
  constructor
  · rintro ⟨p, hp, hm⟩
    obtain ⟨a, b, c⟩ := hpart p hp
    obtain ⟨i0, i1, j, hj, hr⟩ := ((rotPieces_mem k L hL hk0 hkL p a b c i).1).1 (by simpa [anyMem] using hm)
    exact ⟨i0, i1, j, by simp only [Loc.mem, List.any_eq_true]; exact ⟨p, hp, hj⟩, hr⟩
  · rintro ⟨i0, i1, j, hj, hr⟩
    simp only [Loc.mem, List.any_eq_true] at hj
    obtain ⟨p, hp, hpj⟩ := hj
    obtain ⟨a, b, c⟩ := hpart p hp
    have := ((rotPieces_mem k L hL hk0 hkL p a b c i).1).2 ⟨i0, i1, j, hpj, hr⟩
    exact ⟨p, hp, by simpa [anyMem] using this⟩

end ASV.Rot
