/-
  The textual round trip of locations with fuzzy positions (`<5`, `>9`): C04.
-/
import ASV.Model.LocStringFuzzy
import ASV.Proofs.LocString
namespace ASV

theorem intChars_head (i : Int) : ∃ c rest, intChars i = c :: rest ∧ numChar c = true := by
  cases h : intChars i with
  | nil => exact absurd h (intChars_ne_nil i)
  | cons c rest => exact ⟨c, rest, rfl, intChars_numChar i c (by rw [h]; simp)⟩

theorem parsePos_fposChars (p : FPos) : parsePos (fposChars p) = some p := by
  obtain ⟨k, v⟩ := p
  cases k with
  | exact =>
    obtain ⟨c, rest, h, hc⟩ := intChars_head v
    have h1 : c ≠ '<' := numChar_ne hc (by decide)
    have h2 : c ≠ '>' := numChar_ne hc (by decide)
    simp only [fposChars, h, parsePos, h1, h2, if_false]
    rw [← h, parseInt_intChars]; rfl
  | before => simp [fposChars, parsePos, parseInt_intChars]
  | after =>
    have : ('>' : Char) ≠ '<' := by decide
    simp [fposChars, parsePos, parseInt_intChars, this]

/-- the characters a position is printed with -/
def posChar (c : Char) : Bool := numChar c || c == '<' || c == '>'

theorem fposChars_posChar (p : FPos) : ∀ c ∈ fposChars p, posChar c = true := by
  intro c hc
  obtain ⟨k, v⟩ := p
  cases k
  · simp [posChar, intChars_numChar v c (by simpa [fposChars] using hc)]
  · simp only [fposChars, List.mem_cons] at hc
    rcases hc with rfl | h
    · decide
    · simp [posChar, intChars_numChar v c h]
  · simp only [fposChars, List.mem_cons] at hc
    rcases hc with rfl | h
    · decide
    · simp [posChar, intChars_numChar v c h]

theorem posChar_ne {c d : Char} (h : posChar c = true) (hd : posChar d = false) : c ≠ d := by
  intro e; subst e; rw [h] at hd; cases hd

/-- the characters of one printed part -/
def fpartChar (c : Char) : Bool := partChar c || c == '<' || c == '>'

theorem fpartChar_ne {c d : Char} (h : fpartChar c = true) (hd : fpartChar d = false) : c ≠ d := by
  intro e; subst e; rw [h] at hd; cases hd

theorem posChar_fpartChar {c : Char} (h : posChar c = true) : fpartChar c = true := by
  simp only [posChar, Bool.or_eq_true] at h
  rcases h with (h | h) | h
  · simp [fpartChar, partChar, h]
  · simp [fpartChar, h]
  · simp [fpartChar, h]

theorem fpartChars_fpartChar (p : FPart) : ∀ c ∈ fpartChars p, fpartChar c = true := by
  intro c hc
  simp only [fpartChars, List.mem_cons, List.mem_append] at hc
  rcases hc with ((rfl | h) | rfl | h) | rfl | h
  · decide
  · exact posChar_fpartChar (fposChars_posChar _ c h)
  · decide
  · exact posChar_fpartChar (fposChars_posChar _ c h)
  · decide
  · have := strandChars_partChar _ c h
    simp [fpartChar, this]

theorem fpartChars_no (p : FPart) (d : Char) (hd : fpartChar d = false) : ∀ c ∈ fpartChars p, c ≠ d :=
  fun c hc => fpartChar_ne (fpartChars_fpartChar p c hc) hd

theorem fposChars_reverse_head (p : FPos) : ∃ d rest, (fposChars p).reverse = d :: rest ∧ d.isDigit = true := by
  obtain ⟨k, v⟩ := p
  obtain ⟨d, rest, h, hd⟩ := intChars_reverse_head v
  cases k
  · exact ⟨d, rest, by simpa [fposChars] using h, hd⟩
  · exact ⟨d, rest ++ ['<'], by simp [fposChars, h], hd⟩
  · exact ⟨d, rest ++ ['>'], by simp [fposChars, h], hd⟩

/-- the text of a part before its strand suffix -/
def fcorePart (p : FPart) : List Char := '[' :: fposChars p.lo ++ ':' :: fposChars p.hi ++ [']']

theorem fpartChars_eq (p : FPart) : fpartChars p = fcorePart p ++ strandChars p.strand := by
  simp [fpartChars, fcorePart]

theorem fcorePart_no_paren (p : FPart) : ∀ c ∈ fcorePart p, c ≠ '(' := by
  intro c hc
  simp only [fcorePart, List.mem_cons, List.mem_append] at hc
  rcases hc with ((rfl | h) | rfl | h) | rfl | h
  · decide
  · exact posChar_ne (fposChars_posChar _ c h) (by decide)
  · decide
  · exact posChar_ne (fposChars_posChar _ c h) (by decide)
  · decide
  · cases h

theorem parseSingleF_fpartChars (p : FPart) : parseSingleF (fpartChars p) = some p := by
  have hsplit1 : splitFirst ':' (fpartChars p)
      = some ('[' :: fposChars p.lo, fposChars p.hi ++ ']' :: strandChars p.strand) := by
    have : fpartChars p = ('[' :: fposChars p.lo) ++ ':' :: (fposChars p.hi ++ ']' :: strandChars p.strand) := by
      simp [fpartChars]
    rw [this]
    apply splitFirst_append
    intro x hx
    rcases List.mem_cons.1 hx with rfl | h
    · decide
    · exact posChar_ne (fposChars_posChar _ x h) (by decide)
  have hsplit2 : splitFirst ']' (fposChars p.hi ++ ']' :: strandChars p.strand)
      = some (fposChars p.hi, strandChars p.strand) := by
    apply splitFirst_append
    intro x hx
    exact posChar_ne (fposChars_posChar _ x hx) (by decide)
  have hstrand : parseStrand (fpartChars p) = some p.strand := by
    unfold parseStrand
    rw [fpartChars_eq]
    cases hs : p.strand
    · simp [strandChars]
    · simp [strandChars]
    · simp [strandChars]
    · simp only [strandChars, List.append_nil]
      have hrev : (fcorePart p).reverse.drop 1
          = (fposChars p.hi).reverse ++ (':' :: (fposChars p.lo).reverse ++ ['[']) := by
        simp [fcorePart]
      rw [hrev]
      obtain ⟨d, rest, hd, hdig⟩ := fposChars_reverse_head p.hi
      rw [hd]
      have h1 : d ≠ '-' := isDigit_ne hdig (by decide)
      have h2 : d ≠ '+' := isDigit_ne hdig (by decide)
      have h3 : d ≠ '?' := isDigit_ne hdig (by decide)
      have hnp : (fcorePart p).contains '(' = false := by
        cases hc : (fcorePart p).contains '('
        · rfl
        · rw [List.contains_iff_mem] at hc
          exact absurd rfl (fcorePart_no_paren p _ hc)
      simp only [List.cons_append, List.head?_cons, hnp]
      split
      · next h => injection h with h; exact absurd h h1
      · next h => injection h with h; exact absurd h h2
      · next h => injection h with h; exact absurd h h3
      · simp
  simp only [parseSingleF, hsplit1, hsplit2, hstrand, Option.bind_eq_bind, Option.bind_some, List.drop_succ_cons,
    List.drop_zero, parsePos_fposChars, Option.pure_def]

theorem mapM_parseSingleF (ps : List FPart) : (ps.map fpartChars).mapM parseSingleF = some ps := by
  induction ps with
  | nil => rfl
  | cons p ps ih =>
    simp only [List.map_cons, List.mapM_cons, parseSingleF_fpartChars, ih, Option.bind_eq_bind, Option.bind_some,
      Option.pure_def]

/-- the textual form of a location with fuzzy positions, with any operator free of `{`, reads back to the same
location — every position with the class it was written with — and the same operator -/
theorem flocFromChars_flocChars (op : List Char) (hop : ∀ c ∈ op, c ≠ '{') (l : FLoc) (hne : l.parts ≠ []) :
    flocFromChars (flocChars op l) = some (l.opOf op, l) := by
  cases l with
  | simple p =>
    have hnc : (fpartChars p).contains '{' = false := by
      cases hc : (fpartChars p).contains '{'
      · rfl
      · rw [List.contains_iff_mem] at hc
        exact absurd rfl (fpartChars_no p '{' (by decide) _ hc)
    simp only [flocFromChars, flocChars, hnc, Bool.not_false, if_true, parseSingleF_fpartChars, Option.map_some,
      FLoc.opOf]
  | compound ps =>
    match ps, hne with
    | p :: rest, _ =>
      have hc : (flocChars op (.compound (p :: rest))).contains '{' = true := by
        simp [flocChars]
      have hdrop : (flocChars op (.compound (p :: rest))).dropLast
          = op ++ '{' :: joinParts ((p :: rest).map fpartChars) := by
        simp only [flocChars]
        have : op ++ '{' :: joinParts (List.map fpartChars (p :: rest)) ++ ['}']
            = (op ++ '{' :: joinParts (List.map fpartChars (p :: rest))) ++ ['}'] := by simp
        rw [this, List.dropLast_concat]
      have hsplit : splitFirst '{' (op ++ '{' :: joinParts ((p :: rest).map fpartChars))
          = some (op, joinParts ((p :: rest).map fpartChars)) := splitFirst_append _ _ _ hop
      have hjoin : splitCommaSpace [] (joinParts ((p :: rest).map fpartChars)) = (p :: rest).map fpartChars := by
        rw [List.map_cons]
        apply splitCS_join
        intro x hx c hcx
        rw [← List.map_cons] at hx
        obtain ⟨q, _, rfl⟩ := List.mem_map.1 hx
        exact fpartChars_no q ',' (by decide) c hcx
      simp only [flocFromChars, hc, Bool.not_true, Bool.false_eq_true, if_false, hdrop, hsplit, hjoin,
        Option.bind_eq_bind, Option.bind_some, mapM_parseSingleF, Option.pure_def, FLoc.opOf]

/-- on exact positions the fuzzy text is the plain text of `LocString` -/
theorem fpartChars_ofPart (p : Part) : fpartChars (.ofPart p) = partChars p := by
  simp [fpartChars, partChars, FPart.ofPart, FPos.ofInt, fposChars]

theorem flocChars_ofLoc (op : List Char) (l : Loc) : flocChars op (.ofLoc l) = opLocChars op l := by
  cases l with
  | simple p => simp [flocChars, opLocChars, FLoc.ofLoc, fpartChars_ofPart]
  | compound ps =>
    have : (ps.map FPart.ofPart).map fpartChars = ps.map partChars := by
      simp [List.map_map, Function.comp_def, fpartChars_ofPart]
    simp [flocChars, opLocChars, FLoc.ofLoc, this]

end ASV
