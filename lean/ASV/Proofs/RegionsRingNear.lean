/-
  C06 helper lemmas, part 14: `ArcUnions` holds for every layout whose areas lie within W bases of the origin of a
  ring longer than 4 W (before it, after it, spanning it): unions of joined families are unrolled intervals.
-/
import ASV.Proofs.RegionsRingOne
namespace ASV.Regions
open ASV ASV.Components

/-- an area within `W` bases of the origin of a ring of length `L`: before it, after it, or spanning it -/
def NearOrigin (W L : Int) (l : Loc) : Prop :=
  (∃ p, l = .simple p ∧ 0 ≤ p.lo ∧ p.lo < p.hi ∧ p.hi ≤ W) ∨
  (∃ p, l = .simple p ∧ L - W ≤ p.lo ∧ p.lo < p.hi ∧ p.hi ≤ L) ∨
  (∃ x y, l = areaTwo x y L .fwd ∧ L - W ≤ x ∧ x < L ∧ 0 < y ∧ y ≤ W)

/-- base `i` of the ring lies in the unrolled interval `[lo, hi)` around the origin -/
def InU (lo hi L i : Int) : Prop := (0 ≤ i ∧ i < L) ∧ ((lo ≤ i ∧ i < hi) ∨ (lo ≤ i - L ∧ i - L < hi))

theorem mem_areaTwo (x y L i : Int) : (areaTwo x y L .fwd).mem i = true ↔ (x ≤ i ∧ i < L) ∨ (0 ≤ i ∧ i < y) := by
  simp [areaTwo, Loc.mem, Loc.parts, Part.mem_iff]

theorem mem_simple (p : Part) (i : Int) : (Loc.simple p).mem i = true ↔ p.lo ≤ i ∧ i < p.hi := by
  simp [Loc.mem, Loc.parts, Part.mem_iff]

theorem nearOrigin_interval {W L : Int} (hW : 0 < W) (hL : 4 * W < L) {l : Loc} (h : NearOrigin W L l) :
    ∃ lo hi, -W ≤ lo ∧ lo < hi ∧ hi ≤ W ∧ ∀ i, l.mem i = true ↔ InU lo hi L i := by
  rcases h with ⟨p, rfl, h0, h1, h2⟩ | ⟨p, rfl, h0, h1, h2⟩ | ⟨x, y, rfl, h0, h1, h2, h3⟩
  · refine ⟨p.lo, p.hi, by omega, h1, h2, ?_⟩
    intro i; rw [mem_simple]; unfold InU; omega
  · refine ⟨p.lo - L, p.hi - L, by omega, by omega, by omega, ?_⟩
    intro i; rw [mem_simple]; unfold InU; omega
  · refine ⟨x - L, y, by omega, by omega, h3, ?_⟩
    intro i; rw [mem_areaTwo]; unfold InU; omega

/-- the union of a joined family of areas near the origin is an unrolled interval -/
theorem joined_interval {W L : Int} (hW : 0 < W) (hL : 4 * W < L) {all : List Feat}
    (hnear : ∀ f ∈ all, NearOrigin W L f.loc) {ms : List Feat} (hj : Joined all ms) :
    ∃ lo hi, -W ≤ lo ∧ lo < hi ∧ hi ≤ W ∧ ∀ i, (∃ m ∈ ms, m.loc.mem i = true) ↔ InU lo hi L i := by
  induction hj with
  | single a ha =>
    obtain ⟨lo, hi, h1, h2, h3, h4⟩ := nearOrigin_interval hW hL (hnear a ha)
    exact ⟨lo, hi, h1, h2, h3, by intro i; simp [h4 i]⟩
  | join m1 m2 ms _ _ hshare hms ih1 ih2 =>
    obtain ⟨lo1, hi1, a1, a2, a3, a4⟩ := ih1
    obtain ⟨lo2, hi2, b1, b2, b3, b4⟩ := ih2
    obtain ⟨a, ha, b, hb, j, hja, hjb⟩ := hshare
    have hj1 : InU lo1 hi1 L j := (a4 j).1 ⟨a, ha, hja⟩
    have hj2 : InU lo2 hi2 L j := (b4 j).1 ⟨b, hb, hjb⟩
    refine ⟨min lo1 lo2, max hi1 hi2, by omega, by omega, by omega, ?_⟩
    intro i
    have e : (∃ m ∈ ms, m.loc.mem i = true) ↔ (∃ m ∈ m1, m.loc.mem i = true) ∨ (∃ m ∈ m2, m.loc.mem i = true) := by
      constructor
      · rintro ⟨m, hm, hmi⟩
        rcases (hms m).1 hm with h | h
        · exact Or.inl ⟨m, h, hmi⟩
        · exact Or.inr ⟨m, h, hmi⟩
      · rintro (⟨m, hm, hmi⟩ | ⟨m, hm, hmi⟩)
        · exact ⟨m, (hms m).2 (Or.inl hm), hmi⟩
        · exact ⟨m, (hms m).2 (Or.inr hm), hmi⟩
    rw [e, a4 i, b4 i]
    unfold InU at *
    omega

/-- `ArcUnions` holds whenever every area lies within `W` bases of the origin and `4 W < L` -/
theorem arcUnions_near_origin {W L : Int} (hW : 0 < W) (hL : 4 * W < L) {all : List Feat}
    (hnear : ∀ f ∈ all, NearOrigin W L f.loc) : ArcUnions L all := by
  intro ms hj
  obtain ⟨lo, hi, h1, h2, h3, h4⟩ := joined_interval hW hL hnear hj
  by_cases c1 : 0 ≤ lo
  · refine ⟨.simple ⟨lo, hi, .fwd⟩, ?_, ?_, ?_⟩
    · simp [areaWF, Loc.parts]; omega
    · simp [Loc.len, Loc.parts, Part.len]; omega
    · intro i; rw [mem_simple, h4 i]; unfold InU; simp only; omega
  · by_cases c2 : hi ≤ 0
    · refine ⟨.simple ⟨lo + L, hi + L, .fwd⟩, ?_, ?_, ?_⟩
      · simp [areaWF, Loc.parts]; omega
      · simp [Loc.len, Loc.parts, Part.len]; omega
      · intro i; rw [mem_simple, h4 i]; unfold InU; simp only; omega
    · refine ⟨areaTwo (lo + L) hi L .fwd, ?_, ?_, ?_⟩
      · simp [areaWF, areaTwo, Loc.parts]; omega
      · simp [Loc.len, areaTwo, Loc.parts, Part.len]; omega
      · intro i; rw [mem_areaTwo, h4 i]; unfold InU; omega

theorem NearOrigin.ringArea {W L : Int} (hW : 0 < W) (hL : 4 * W < L) {l : Loc} (h : NearOrigin W L l) : RingArea L l := by
  rcases h with ⟨p, rfl, h0, h1, h2⟩ | ⟨p, rfl, h0, h1, h2⟩ | ⟨x, y, rfl, h0, h1, h2, h3⟩
  · exact Or.inl ⟨p, rfl, h0, h1, by omega⟩
  · exact Or.inl ⟨p, rfl, by omega, h1, h2⟩
  · exact Or.inr ⟨x, y, rfl, h2, by omega, h1⟩

end ASV.Regions
