/-
  C14 helper lemmas, part 14: the aSModule feature round trip.
-/
import ASV.Model.ModulesFeature
namespace ASV.Modules

theorem ModType.roundtrip (t : ModType) : ModType.fromString t.str = some t := by
  cases t <;> decide

theorem lookupAll_ok (known : String → Option FDomain) : ∀ (ds : List FDomain),
    (∀ d ∈ ds, known (removeSpaces d.name) = some d) → lookupAll known (ds.map (·.name)) = .ok ds
  | [], _ => rfl
  | d :: ds, h => by
    simp only [List.map_cons, lookupAll, h d (List.mem_cons_self),
               lookupAll_ok known ds (fun x hx => h x (List.mem_cons_of_mem _ hx))]

/-- a constructed feature is what the constructor was given -/
theorem construct_eq {ds : List FDomain} {t : ModType} {c s fi it : Bool} {f : ModFeature}
    (h : ModFeature.construct ds t c s fi it = .ok f) : f = ⟨ds, t, c, s, fi, it⟩ := by
  unfold ModFeature.construct at h
  cases ds with
  | nil => cases h
  | cons d ds =>
    simp only at h
    split at h
    · injection h with h; exact h.symm
    · cases h

theorem construct_again {ds : List FDomain} {t : ModType} {c s fi it : Bool} {f : ModFeature}
    (h : ModFeature.construct ds t c s fi it = .ok f) (t' : ModType) (c' s' fi' it' : Bool) :
    ModFeature.construct ds t' c' s' fi' it' = .ok ⟨ds, t', c', s', fi', it'⟩ := by
  unfold ModFeature.construct at h ⊢
  cases ds with
  | nil => cases h
  | cons d ds =>
    simp only at h ⊢
    split at h
    · rename_i hall; rw [if_pos hall]
    · cases h

/-- the feature written by `to_biopython` is rebuilt identically by `from_biopython` -/
theorem feature_roundtrip (known : String → Option FDomain) (f : ModFeature)
    (hv : ModFeature.construct f.domains f.type f.complete f.starter f.final f.iterative = .ok f)
    (hk : ∀ d ∈ f.domains, known (removeSpaces d.name) = some d) :
    ModFeature.fromBiopython known f.toBiopython = .ok f := by
  have hd : qget f.toBiopython "domains" = some (some (f.domains.map (·.name))) := by
    simp [qget, ModFeature.toBiopython]
  have ht : qget f.toBiopython "type" = some (some [f.type.str]) := by
    simp [qget, ModFeature.toBiopython, List.find?_cons]
  have hflag : ∀ (b : Bool) (k k' : String), k ≠ k' → (flag b k).any (fun kv => kv.1 == k') = false := by
    intro b k k' hne; cases b <;> simp [flag, hne]
  have hflag1 : ∀ (b : Bool) (k : String), (flag b k).any (fun kv => kv.1 == k) = b := by
    intro b k; cases b <;> simp [flag]
  have hc : qhas f.toBiopython "complete" = f.complete := by
    unfold qhas ModFeature.toBiopython
    simp only [List.any_append, List.any_cons, List.any_nil]
    rw [hflag _ _ _ (by decide), hflag _ _ _ (by decide), hflag _ _ _ (by decide)]
    cases f.complete <;> decide
  have hi : qhas f.toBiopython "incomplete" = !f.complete := by
    unfold qhas ModFeature.toBiopython
    simp only [List.any_append, List.any_cons, List.any_nil]
    rw [hflag _ _ _ (by decide), hflag _ _ _ (by decide), hflag _ _ _ (by decide)]
    cases f.complete <;> decide
  have hs : qhas f.toBiopython "starter_module" = f.starter := by
    unfold qhas ModFeature.toBiopython
    simp only [List.any_append, List.any_cons, List.any_nil]
    rw [hflag1, hflag _ _ _ (by decide), hflag _ _ _ (by decide)]
    cases f.complete <;> cases f.starter <;> decide
  have hfin : qhas f.toBiopython "final_module" = f.final := by
    unfold qhas ModFeature.toBiopython
    simp only [List.any_append, List.any_cons, List.any_nil]
    rw [hflag1, hflag _ _ _ (by decide), hflag _ _ _ (by decide)]
    cases f.complete <;> cases f.final <;> decide
  have hit : qhas f.toBiopython "iterative" = f.iterative := by
    unfold qhas ModFeature.toBiopython
    simp only [List.any_append, List.any_cons, List.any_nil]
    rw [hflag1, hflag _ _ _ (by decide), hflag _ _ _ (by decide)]
    cases f.complete <;> cases f.iterative <;> decide
  unfold ModFeature.fromBiopython
  simp only [hd, ht, Option.getD_some, ModType.roundtrip, hc, hi, hs, hfin, hit, lookupAll_ok known f.domains hk]
  have : (!f.complete && !!f.complete) = false := by cases f.complete <;> rfl
  simp only [this, Bool.false_eq_true, if_false]
  exact hv

end ASV.Modules
