/-
  C14 helper lemmas, part 14: the aSModule feature round trip.
-/
import ASV.Model.ModulesFeature
namespace ASV.Modules

theorem ModType.roundtrip (t : ModType) : ModType.fromString t.str = some t := by
  cases t <;> decide

theorem lookupAll_ok (known : String → Option FDomain) : ∀ (ds : List FDomain),
    (∀ d ∈ ds, known (removeSpaces d.name) = some d) → lookupAll known (ds.map (·.name)) = .ok ds
  | [], _ => rfl
  | d :: ds, h => by
    simp only [List.map_cons, lookupAll, h d (List.mem_cons_self),
               lookupAll_ok known ds (fun x hx => h x (List.mem_cons_of_mem _ hx))]

/-- a constructed feature is what the constructor was given -/
theorem construct_eq {ds : List FDomain} {t : ModType} {c s fi it : Bool} {f : ModFeature}
    (h : ModFeature.construct ds t c s fi it = .ok f) : f = ⟨ds, t, c, s, fi, it⟩ := by
  unfold ModFeature.construct at h
  cases ds with
  | nil => cases h
  | cons d ds =>
    simp only at h
    split at h
    · injection h with h; exact h.symm
    · cases h

theorem construct_again {ds : List FDomain} {t : ModType} {c s fi it : Bool} {f : ModFeature}
    (h : ModFeature.construct ds t c s fi it = .ok f) (t' : ModType) (c' s' fi' it' : Bool) :
    ModFeature.construct ds t' c' s' fi' it' = .ok ⟨ds, t', c', s', fi', it'⟩ := by
  unfold ModFeature.construct at h ⊢
  cases ds with
  | nil => cases h
  | cons d ds =>
    simp only at h ⊢
    split at h
    · rename_i hall; rw [if_pos hall]
    · cases h

/-- the feature written by `to_biopython` is rebuilt identically by `from_biopython` -/
theorem feature_roundtrip (known : String → Option FDomain) (f : ModFeature)
    (hv : ModFeature.construct f.domains f.type f.complete f.starter f.final f.iterative = .ok f)
    (hk : ∀ d ∈ f.domains, known (removeSpaces d.name) = some d) :
    ModFeature.fromBiopython known f.toBiopython = .ok f := by
  have hd : qget f.toBiopython "domains" = some (some (f.domains.map (·.name))) := by
    simp [qget, ModFeature.toBiopython]
  have ht : qget f.toBiopython "type" = some (some [f.type.str]) := by
    simp [qget, ModFeature.toBiopython, List.find?_cons]
  have hflag : ∀ (b : Bool) (k k' : String), k ≠ k' → (flag b k).any (fun kv => kv.1 == k') = false := by
    intro b k k' hne; cases b <;> simp [flag, hne]
  have hflag1 : ∀ (b : Bool) (k : String), (flag b k).any (fun kv => kv.1 == k) = b := by
    intro b k; cases b <;> simp [flag]
  have hc : qhas f.toBiopython "complete" = f.complete := by
    unfold qhas ModFeature.toBiopython
    simp only [List.any_append, List.any_cons, List.any_nil]
    rw [hflag _ _ _ (by decide), hflag _ _ _ (by decide), hflag _ _ _ (by decide)]
    cases f.complete <;> decide
  have hi : qhas f.toBiopython "incomplete" = !f.complete := by
    unfold qhas ModFeature.toBiopython
    simp only [List.any_append, List.any_cons, List.any_nil]
    rw [hflag _ _ _ (by decide), hflag _ _ _ (by decide), hflag _ _ _ (by decide)]
    cases f.complete <;> decide
  have hs : qhas f.toBiopython "starter_module" = f.starter := by
    unfold qhas ModFeature.toBiopython
    simp only [List.any_append, List.any_cons, List.any_nil]
    rw [hflag1, hflag _ _ _ (by decide), hflag _ _ _ (by decide)]
    cases f.complete <;> cases f.starter <;> decide
  have hfin : qhas f.toBiopython "final_module" = f.final := by
    unfold qhas ModFeature.toBiopython
    simp only [List.any_append, List.any_cons, List.any_nil]
    rw [hflag1, hflag _ _ _ (by decide), hflag _ _ _ (by decide)]
    cases f.complete <;> cases f.final <;> decide
  have hit : qhas f.toBiopython "iterative" = f.iterative := by
    unfold qhas ModFeature.toBiopython
    simp only [List.any_append, List.any_cons, List.any_nil]
    rw [hflag1, hflag _ _ _ (by decide), hflag _ _ _ (by decide)]
    cases f.complete <;> cases f.iterative <;> decide
  unfold ModFeature.fromBiopython
  simp only [hd, ht, Option.getD_some, ModType.roundtrip, hc, hi, hs, hfin, hit, lookupAll_ok known f.domains hk]
  have : (!f.complete && !!f.complete) = false := by cases f.complete <;> rfl
  simp only [this, Bool.false_eq_true, if_false]
  exact hv


/-! ### domain features and the look-up of `add_to_record` -/

theorem domainFeatures_locus (gene : String) (strand : Int) : ∀ (ds : List Domain) (counts : List (String × Nat)),
    ∀ e ∈ domainFeatures gene strand ds counts, e.2.locus = gene ∧ e.2.strand = strand
  | [], _, e, h => by cases h
  | d :: ds, counts, e, h => by
    simp only [domainFeatures] at h
    rcases List.mem_cons.mp h with h | h
    · subst h; exact ⟨rfl, rfl⟩
    · exact domainFeatures_locus gene strand ds _ e h

theorem domainFeatures_mem (gene : String) (strand : Int) : ∀ (ds : List Domain) (counts : List (String × Nat)),
    ∀ d ∈ ds, ∃ e ∈ domainFeatures gene strand ds counts, e.1 = d
  | [], _, d, h => by cases h
  | x :: ds, counts, d, h => by
    simp only [domainFeatures]
    rcases List.mem_cons.mp h with h | h
    · subst h; exact ⟨_, List.mem_cons_self, rfl⟩
    · obtain ⟨e, he, hd⟩ := domainFeatures_mem gene strand ds _ d h
      exact ⟨e, List.mem_cons_of_mem _ he, hd⟩

theorem tableOf_isSome (entries : List (Domain × FDomain)) (hit : Domain) (h : ∃ e ∈ entries, e.1 = hit) :
    (tableOf entries hit).isSome = true := by
  obtain ⟨e, he, hd⟩ := h
  unfold tableOf
  rw [Option.isSome_map, List.find?_isSome]
  exact ⟨e, List.mem_reverse.mpr he, by simp [hd]⟩

theorem tableOf_mem (entries : List (Domain × FDomain)) (hit : Domain) (d : FDomain)
    (h : tableOf entries hit = some d) : ∃ e ∈ entries, e.2 = d := by
  unfold tableOf at h
  cases hf : entries.reverse.find? (fun e => e.1 == hit) with
  | none => rw [hf] at h; cases h
  | some e =>
    rw [hf] at h; simp at h
    exact ⟨e, List.mem_reverse.mp (List.mem_of_find?_eq_some hf), h⟩

/-- every gene's dict only holds that gene's own domain features -/
theorem geneTables_locus (genes : List Gene) (l : String) (hit : Domain) (d : FDomain)
    (h : geneTables genes l hit = some d) : d.locus = l := by
  unfold geneTables at h
  cases hf : genes.find? (fun g => g.name == l) with
  | none => rw [hf] at h; cases h
  | some g =>
    rw [hf] at h
    obtain ⟨e, he, hd⟩ := tableOf_mem _ _ _ h
    have := (domainFeatures_locus g.name g.strand g.domains [] e he).1
    have hn : g.name = l := by simpa using List.find?_some hf
    rw [← hd, this, hn]

/-- the domains of the reported feature are, in order, the domain features of the module's
    components, each taken from the dict of the component's OWN gene -/
theorem lookupDomains_spec (tables : String → Domain → Option FDomain) (holder : String)
    (hloc : ∀ l h d, tables l h = some d → d.locus = l) :
    ∀ (comps : List Comp), (∀ c ∈ comps, (tables c.locus c.domain).isSome = true) →
    ∃ ds, lookupDomains tables holder comps = .ok ds
      ∧ ds.map some = comps.map (fun c => tables c.locus c.domain)
      ∧ ds.map (·.locus) = comps.map (·.locus)
  | [], _ => ⟨[], rfl, rfl, rfl⟩
  | c :: cs, hall => by
    obtain ⟨ds, h1, h2, h3⟩ := lookupDomains_spec tables holder hloc cs (fun x hx => hall x (List.mem_cons_of_mem _ hx))
    have hc := hall c (List.mem_cons_self)
    cases ht : tables c.locus c.domain with
    | none => rw [ht] at hc; cases hc
    | some d =>
      have hfound : (if c.locus == holder then tables holder c.domain else tables c.locus c.domain) = some d := by
        by_cases hh : c.locus = holder
        · simp [hh] at ht ⊢; exact ht
        · simp [hh, ht]
      refine ⟨d :: ds, ?_, ?_, ?_⟩
      · simp only [lookupDomains, hfound, h1]
      · simp only [List.map_cons, h2, ht]
      · simp only [List.map_cons, h3, hloc _ _ _ ht]

end ASV.Modules
