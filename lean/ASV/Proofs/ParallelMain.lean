/-
  C18: from the wait-loop characterisation to statements about `poolRun` on the tasks cut from
  the argument list, for complete schedules and for interrupted ones.
-/
import ASV.Proofs.ParallelPool
namespace ASV.Parallel

variable {α ε β : Type}

/-! ### start state -/

theorem init_facts (run : List α → Except ε (List β)) (args : List α) (workers : Nat) :
    let cs := chunkSize args.length workers
    let tasks := getTasks cs args
    let mr : MapResult ε β := MapResult.init cs args.length
    Uniform cs tasks ∧ tasks.flatten = args ∧ Rel run tasks cs mr (.ok []) ∧
      mr.numberLeft = (tasks.length : Int) ∧ mr.ready = (mr.numberLeft == 0) := by
  intro cs tasks mr
  by_cases hn : args.length = 0
  · have hnil : args = [] := List.eq_nil_of_length_eq_zero hn
    have hcs : cs = 0 := by simp [cs, chunkSize, hn]
    have htasks : tasks = [] := by simp [tasks, hnil, getTasks, getTasksAux]
    have hmr : mr = ⟨0, 0, true, .ok []⟩ := by
      simp [mr, MapResult.init, hcs, hn]
    rw [htasks, hmr, hcs]
    refine ⟨trivial, by simp [hnil], ⟨rfl, ?_⟩, rfl, rfl⟩
    simp [blocksOf]
  · have hpos : 0 < cs := chunkSize_pos args.length workers (by omega)
    have hflat : tasks.flatten = args := getTasks_flatten cs hpos args
    have hlen : tasks.length = args.length / cs + (if args.length % cs ≠ 0 then 1 else 0) :=
      getTasks_length cs hpos args
    have hmr : mr = ⟨cs, (args.length / cs : Nat) + (if args.length % cs ≠ 0 then 1 else 0), false,
        .ok (List.replicate args.length none)⟩ := by
      have : ¬ cs ≤ 0 := by omega
      simp [mr, MapResult.init, this]
    have hnl : mr.numberLeft = (tasks.length : Int) := by
      rw [hmr, hlen]
      simp only
      split <;> simp
    have hne : tasks.length ≠ 0 := by
      intro h0
      have : tasks = [] := List.eq_nil_of_length_eq_zero h0
      rw [this] at hflat
      simp at hflat
      rw [hflat] at hn
      simp at hn
    refine ⟨getTasks_uniform cs hpos args, hflat, ?_, hnl, ?_⟩
    · rw [hmr]
      refine ⟨rfl, ?_⟩
      simp only
      rw [blocksOf_nil, hflat]
    · rw [hnl]
      have : mr.ready = false := by rw [hmr]
      rw [this]
      generalize tasks.length = m at hne
      simp
      omega

/-- `poolRunWith` for every event list whose stored completions name existing chunks -/
theorem poolRunWith_spec (run : List α → Except ε (List β)) (hrun : LengthPreserving run) (args : List α)
    (workers : Nat) (hw : 0 < workers) (ht : Bool) (evs : List Event)
    (hvalid : ∀ i ∈ processed ht (numChunks args.length workers) evs, i < numChunks args.length workers) :
    poolRunWith run args workers ht evs =
      match interruption (ε := ε) ht (numChunks args.length workers) evs with
      | some err => .raised err
      | none =>
        if (processed ht (numChunks args.length workers) evs).length < numChunks args.length workers
        then .blocked
        else outcomeOf run (getTasks (chunkSize args.length workers) args)
          ((processed ht (numChunks args.length workers) evs).foldl
            (track run (getTasks (chunkSize args.length workers) args)) (.ok [])) := by
  obtain ⟨hU, _, hrel, hleft, hready⟩ := init_facts run args workers
  have hm := tasks_length_eq_numChunks args workers hw
  rw [hm] at hleft
  have key := await_spec run hrun _ _ hU ht evs (numChunks args.length workers) _ _ hrel hleft hready
    (by rw [hm]; exact hvalid)
  unfold poolRunWith
  exact key

theorem poolRun_spec (f : α → Except ε β) (args : List α) (workers : Nat) (hw : 0 < workers)
    (ht : Bool) (evs : List Event)
    (hvalid : ∀ i ∈ processed ht (numChunks args.length workers) evs, i < numChunks args.length workers) :
    poolRun f args workers ht evs =
      match interruption (ε := ε) ht (numChunks args.length workers) evs with
      | some err => .raised err
      | none =>
        if (processed ht (numChunks args.length workers) evs).length < numChunks args.length workers
        then .blocked
        else outcomeOf (comprehension f) (getTasks (chunkSize args.length workers) args)
          ((processed ht (numChunks args.length workers) evs).foldl
            (track (comprehension f) (getTasks (chunkSize args.length workers) args)) (.ok [])) :=
  poolRunWith_spec (comprehension f) (comprehension_lengthPreserving f) args workers hw ht evs hvalid

/-! ### schedules made of completions -/

theorem eq_map_done_of_all_done :
    ∀ (evs : List Event), (∀ ev ∈ evs, ev.isDone = true) → evs = (doneIdxs evs).map Event.done
  | [], _ => rfl
  | .done i :: rest, h => by
    rw [doneIdxs_done, List.map_cons, ← eq_map_done_of_all_done rest (fun ev hev => h ev (by simp [hev]))]
  | .timeout :: _, h => by have := h .timeout (by simp); simp [Event.isDone] at this
  | .died w :: _, h => by have := h (.died w) (by simp); simp [Event.isDone] at this
  | .bystander p :: _, h => by have := h (.bystander p) (by simp); simp [Event.isDone] at this

/-- a run of `ds.length ≤ left` completions is stored entirely; what follows is looked at with
    the remaining count -/
theorem dones_prefix (ht : Bool) (rest : List Event) :
    ∀ (ds : List Nat) (left : Nat), ds.length ≤ left →
      processed ht left (ds.map Event.done ++ rest) = ds ++ processed ht (left - ds.length) rest ∧
      interruption (ε := ε) ht left (ds.map Event.done ++ rest) =
        interruption ht (left - ds.length) rest
  | [], left, _ => by simp
  | i :: ds, 0, h => by simp at h
  | i :: ds, left + 1, h => by
    have ih := dones_prefix ht rest ds left (by simpa using h)
    simp [processed, interruption, ih.1, ih.2]

/-! ### a complete schedule: the stored state is the sequential result -/

theorem comprehension_ok_all (f : α → Except ε β) :
    ∀ (l : List α) (r : List β), comprehension f l = .ok r → ∀ a ∈ l, ∃ b, f a = .ok b
  | [], _, _, _, h => by simp at h
  | a :: rest, r, h, x, hx => by
    simp only [comprehension] at h
    split at h
    · cases h
    · rename_i b hb
      split at h
      · cases h
      · rename_i bs hbs
        rcases List.mem_cons.mp hx with rfl | hx
        · exact ⟨b, hb⟩
        · exact comprehension_ok_all f rest bs hbs x hx

theorem outcome_complete (f : α → Except ε β) (tasks : List (List α)) (ds : List Nat)
    (hperm : ds.Perm (List.range tasks.length)) :
    (∀ l, comprehension f tasks.flatten = .ok l →
      outcomeOf (comprehension f) tasks (ds.foldl (track (comprehension f) tasks) (.ok [])) = .returned (l.map some)) ∧
    (∀ e₀, comprehension f tasks.flatten = .error e₀ →
      ∃ e, outcomeOf (comprehension f) tasks (ds.foldl (track (comprehension f) tasks) (.ok [])) = .raised (.task e) ∧
        ∃ a ∈ tasks.flatten, f a = .error e) := by
  have hmem : ∀ j, j < tasks.length → j ∈ ds := fun j hj =>
    hperm.mem_iff.mpr (List.mem_range.mpr hj)
  have hlt : ∀ j ∈ ds, j < tasks.length := fun j hj => List.mem_range.mp (hperm.mem_iff.mp hj)
  cases hfold : ds.foldl (track (comprehension f) tasks) (.ok []) with
  | ok D =>
    obtain ⟨hok, hin, _⟩ := foldl_track_is_ok (comprehension f) tasks ds [] D hfold
    have hall : ∀ t ∈ tasks, ∃ r, comprehension f t = .ok r := by
      intro t ht
      obtain ⟨j, hj, rfl⟩ := List.getElem_of_mem ht
      exact hok j (hmem j hj) _ (List.getElem?_eq_getElem hj)
    obtain ⟨r, hr, hflat⟩ := flatten_full f tasks hall
    have hD : ∀ j, j < tasks.length → j ∈ D := fun j hj => hin j (hmem j hj) hj
    refine ⟨?_, ?_⟩
    · intro l hl
      rw [hr] at hl
      cases hl
      simp only [outcomeOf, blocksOf_all (comprehension f) tasks D hD, hflat]
    · intro e₀ he₀
      rw [hr] at he₀
      cases he₀
  | error e =>
    obtain ⟨i, hi, t, hti, hte⟩ := foldl_track_is_error (comprehension f) tasks ds [] e hfold
    have htmem : t ∈ tasks := List.mem_of_getElem? hti
    obtain ⟨e', he'⟩ := flatten_error f tasks t e htmem hte
    refine ⟨?_, ?_⟩
    · intro l hl
      rw [he'] at hl
      cases hl
    · intro e₀ _
      obtain ⟨a, ha, hfa⟩ := comprehension_error_mem f t e hte
      exact ⟨e, rfl, a, List.mem_flatten.mpr ⟨t, htmem, ha⟩, hfa⟩

/-- `poolRun` on a complete schedule (anything may follow it) -/
theorem poolRun_complete (f : α → Except ε β) (args : List α) (workers : Nat) (hw : 0 < workers)
    (ht : Bool) (sched rest : List Event) (hc : Complete (numChunks args.length workers) sched) :
    (∀ l, sequential f args = .ok l →
      poolRun f args workers ht (sched ++ rest) = .returned (l.map some)) ∧
    (∀ e₀, sequential f args = .error e₀ →
      ∃ e, poolRun f args workers ht (sched ++ rest) = .raised (.task e) ∧
        ∃ a ∈ args, f a = .error e) := by
  obtain ⟨hdone, hperm⟩ := hc
  obtain ⟨_, hflat, _, _, _⟩ := init_facts (comprehension f) args workers
  have hm := tasks_length_eq_numChunks args workers hw
  have hsched := eq_map_done_of_all_done sched hdone
  have hlen : (doneIdxs sched).length = numChunks args.length workers := by
    rw [hperm.length_eq, List.length_range]
  have hpre := dones_prefix (ε := ε) ht rest (doneIdxs sched) (numChunks args.length workers) (by omega)
  rw [hlen, Nat.sub_self] at hpre
  have hproc : processed ht (numChunks args.length workers) (sched ++ rest) = doneIdxs sched := by
    rw [hsched] at ⊢
    rw [show doneIdxs (List.map Event.done (doneIdxs sched)) = doneIdxs sched from by rw [← hsched]]
    rw [hpre.1]; simp [processed]
  have hint : interruption (ε := ε) ht (numChunks args.length workers) (sched ++ rest) = none := by
    rw [hsched, hpre.2]; simp [interruption]
  have hvalid : ∀ i ∈ processed ht (numChunks args.length workers) (sched ++ rest),
      i < numChunks args.length workers := by
    rw [hproc]; intro i hi; exact List.mem_range.mp (hperm.mem_iff.mp hi)
  have hrun := poolRun_spec f args workers hw ht (sched ++ rest) hvalid
  rw [hint, hproc] at hrun
  simp only [hlen, Nat.lt_irrefl, if_false] at hrun
  have hperm' : (doneIdxs sched).Perm (List.range (getTasks (chunkSize args.length workers) args).length) := by
    rw [hm]; exact hperm
  have hout := outcome_complete f _ (doneIdxs sched) hperm'
  rw [hflat, comprehension_eq_sequential] at hout
  rw [hrun]
  exact hout

/-- an interruption observed while chunks are outstanding is what the caller gets -/
theorem poolRun_interrupted (f : α → Except ε β) (args : List α) (workers : Nat) (hw : 0 < workers)
    (ht : Bool) (pre post : List Event) (ev : Event) (err : Err ε)
    (hdone : ∀ e ∈ pre, e.isDone = true)
    (hvalid : ∀ i ∈ doneIdxs pre, i < numChunks args.length workers)
    (hfew : pre.length < numChunks args.length workers)
    (hev : (ev = .timeout ∧ ht = true ∧ err = .timeout) ∨ (∃ w, ev = .died w ∧ err = .workerDied)) :
    poolRun f args workers ht (pre ++ ev :: post) = .raised err := by
  have hpre := eq_map_done_of_all_done pre hdone
  have hlen : (doneIdxs pre).length = pre.length := by
    conv => rhs; rw [hpre]
    simp
  obtain ⟨k, hk⟩ : ∃ k, numChunks args.length workers - (doneIdxs pre).length = k + 1 :=
    ⟨numChunks args.length workers - (doneIdxs pre).length - 1, by omega⟩
  have hp := dones_prefix (ε := ε) ht (ev :: post) (doneIdxs pre) (numChunks args.length workers) (by omega)
  rw [← hpre, hk] at hp
  have hproc : processed ht (k + 1) (ev :: post) = [] := by
    rcases hev with ⟨rfl, rfl, _⟩ | ⟨w, rfl, _⟩ <;> simp [processed]
  have hint : interruption (ε := ε) ht (k + 1) (ev :: post) = some err := by
    rcases hev with ⟨rfl, rfl, rfl⟩ | ⟨w, rfl, rfl⟩ <;> simp [interruption]
  rw [hproc, List.append_nil] at hp
  rw [poolRun_spec f args workers hw ht _ (by rw [hp.1]; exact hvalid), hp.2, hint]

end ASV.Parallel
