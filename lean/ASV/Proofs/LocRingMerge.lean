/-
  `_merge_over_origin` and the steps of `connect_locations` on a ring, as rewriting lemmas (C04).
-/
import ASV.Proofs.LocRingHull
set_option linter.unusedSimpArgs false
set_option linter.unusedVariables false
namespace ASV

theorem isEmpty_false_of_ne {α : Type} {l : List α} (h : l ≠ []) : l.isEmpty = false := by
  cases l with
  | nil => exact absurd rfl h
  | cons _ _ => rfl

/-- only pre-origin chunks: one hull -/
theorem mergeOverOrigin_upper (ls : List Loc) (L : Int) (upper : List Loc)
    (hs : splitSections ls L = .ok (upper, [])) (hup : upper ≠ []) :
    mergeOverOrigin ls L = .ok [hullOf upper] := by
  simp only [mergeOverOrigin, hs, bind, Except.bind, List.isEmpty_nil, Bool.not_true, Bool.false_and,
    Bool.false_eq_true, if_false, isEmpty_false_of_ne hup, Bool.not_false, if_true, pure, Except.pure]

/-- only post-origin chunks: one hull -/
theorem mergeOverOrigin_lower (ls : List Loc) (L : Int) (lower : List Loc)
    (hs : splitSections ls L = .ok ([], lower)) (hlo : lower ≠ []) :
    mergeOverOrigin ls L = .ok [hullOf lower] := by
  simp only [mergeOverOrigin, hs, bind, Except.bind, List.isEmpty_nil, Bool.not_true, Bool.and_false,
    Bool.false_eq_true, if_false, isEmpty_false_of_ne hlo, Bool.not_false, if_true, pure, Except.pure]

/-- chunks on both sides: the two hulls, merged into one origin-crossing span iff the way over
    the origin is strictly shorter -/
theorem mergeOverOrigin_both (ls : List Loc) (L : Int) (upper lower : List Loc) (u l : Part)
    (hs : splitSections ls L = .ok (upper, lower)) (hup : upper ≠ []) (hlo : lower ≠ [])
    (hu : hullOf upper = .simple u) (hl : hullOf lower = .simple l) :
    mergeOverOrigin ls L = .ok
      (if getDistance (.simple u) (.simple l) L < getDistance (.simple u) (.simple l) 0 then
        (if l.lo < u.lo then [.compound [fl u.lo L, fl 0 l.hi]] else [.compound [fl l.lo L, fl 0 u.hi]])
       else [.simple u, .simple l]) := by
  simp only [mergeOverOrigin, hs, bind, Except.bind, isEmpty_false_of_ne hlo, isEmpty_false_of_ne hup,
    Bool.not_false, Bool.and_self, if_true, hu, hl, Loc.parts, List.length_singleton, bne_self_eq_false,
    Bool.or_self, Bool.false_eq_true, if_false, pure, Except.pure]
  by_cases h1 : getDistance (.simple u) (.simple l) L < getDistance (.simple u) (.simple l) 0
  · rw [if_pos h1, if_pos h1]
    by_cases h2 : l.lo < u.lo
    · have h2' : (Loc.simple l).start < (Loc.simple u).start := h2
      rw [if_pos h2', if_pos h2]; rfl
    · have h2' : ¬ (Loc.simple l).start < (Loc.simple u).start := h2
      rw [if_neg h2', if_neg h2]; rfl
  · rw [if_neg h1, if_neg h1]

/-! ### the steps of `connect_locations` -/

/-- `connect_locations(locations)` without a wrap point: the hull (any positive recursion budget) -/
theorem connectLocations_line (f : Nat) (ls : List Loc) (hne : ls ≠ [])
    (h : ∀ l ∈ ls, l.parts ≠ [] ∧ bridgesOrigin l = false) :
    connectLocations (f + 1) ls none = .ok (hullOf ls) := by
  have hany : ls.any bridgesOrigin = false := by
    rw [List.any_eq_false]; intro l hl; simp [(h l hl).2]
  have hemp : ls.isEmpty = false := isEmpty_false_of_ne hne
  simp only [connectLocations, hemp, hany, Bool.false_eq_true, if_false, Bool.false_and]
  rw [mapM_reduce ls none h]
  have e1 : (ls.map Loc.span).map (·.start) = ls.map (·.start) := by
    rw [List.map_map]; rfl
  have e2 : (ls.map Loc.span).map (·.end) = ls.map (·.end) := by
    rw [List.map_map]; rfl
  show Except.ok (hullOf (ls.map Loc.span)) = _
  simp only [hullOf, commonStrand_span, e1, e2]

/-- after reducing (and, without origin-spanning inputs, merging over the origin) one location is left -/
theorem connectLocations_ring_one (f : Nat) (ls : List Loc) (L : Int) (red : List Loc) (one : Loc)
    (hne : ls ≠ []) (hL : 0 < L)
    (hred : ls.mapM (fun l => reduceParts l.parts (some L)) = .ok red)
    (hm : (if ls.any bridgesOrigin = true then .ok red else mergeOverOrigin red L) = .ok [one]) :
    connectLocations (f + 1) ls (some L) = .ok one := by
  have hemp : ls.isEmpty = false := isEmpty_false_of_ne hne
  have hL' : ¬ L ≤ 0 := by omega
  cases hany : ls.any bridgesOrigin
  · rw [hany] at hm
    simp only [Bool.false_eq_true, if_false] at hm
    simp only [connectLocations, hemp, hany, hred, hL', hm, Bool.false_eq_true, if_false, Bool.false_and, bind,
      Except.bind, Bool.not_false, if_true, pure, Except.pure]
  · rw [hany] at hm
    simp only [if_true] at hm
    injection hm with hm
    subst hm
    simp only [connectLocations, hemp, hany, hred, hL', Bool.false_eq_true, if_false, bind,
      Except.bind, Bool.not_true, if_true, pure, Except.pure, Option.isNone_some, Bool.and_false]

/-- several locations are left and all of them are pre-origin chunks: their hull -/
theorem connectLocations_ring_pre (f : Nat) (ls : List Loc) (L : Int) (red : List Loc) (a b : Loc) (rest pre : List Loc)
    (hne : ls ≠ []) (hL : 0 < L)
    (hred : ls.mapM (fun l => reduceParts l.parts (some L)) = .ok red)
    (hm : (if ls.any bridgesOrigin = true then .ok red else mergeOverOrigin red L) = .ok (a :: b :: rest))
    (hsp : splitSections (a :: b :: rest) L = .ok (pre, [])) (hpre : pre ≠ []) :
    connectLocations (f + 1) ls (some L) = connectLocations f pre none := by
  have hemp : ls.isEmpty = false := isEmpty_false_of_ne hne
  have hpe : pre.isEmpty = false := isEmpty_false_of_ne hpre
  have hL' : ¬ L ≤ 0 := by omega
  cases hany : ls.any bridgesOrigin
  · rw [hany] at hm
    simp only [Bool.false_eq_true, if_false] at hm
    simp only [connectLocations, hemp, hany, hred, hL', hm, hsp, hpe, Bool.false_eq_true, if_false, Bool.false_and, bind,
      Except.bind, Bool.not_false, if_true, pure, Except.pure, List.isEmpty_nil]
  · rw [hany] at hm
    simp only [if_true] at hm
    injection hm with hm
    subst hm
    simp only [connectLocations, hemp, hany, hred, hL', hsp, hpe, Bool.false_eq_true, if_false, bind,
      Except.bind, Bool.not_true, if_true, pure, Except.pure, Option.isNone_some, Bool.and_false, List.isEmpty_nil]

/-- the final combination of the connected pre-origin side `p` and post-origin side `q` -/
def combineSides (f : Nat) (p q : Part) : E Loc := do
  if locationContainsOther (.simple p) (.simple q) || locationContainsOther (.simple q) (.simple p) then
    pure (if p.len > q.len then .simple p else .simple q)
  else if locationsOverlap (.simple p) (.simple q) then
    let r ← connectLocations f [.simple p, .simple q] none
    if r.strand != .fwd then throw "assertion"
    pure r
  else pure (.compound [{ p with strand := .fwd }, { q with strand := .fwd }])

/-- several locations are left, on both sides of the origin -/
theorem connectLocations_ring_both (f : Nat) (ls : List Loc) (L : Int) (red : List Loc) (a b : Loc)
    (rest pre post : List Loc) (p q : Part)
    (hne : ls ≠ []) (hL : 0 < L)
    (hred : ls.mapM (fun l => reduceParts l.parts (some L)) = .ok red)
    (hm : (if ls.any bridgesOrigin = true then .ok red else mergeOverOrigin red L) = .ok (a :: b :: rest))
    (hsp : splitSections (a :: b :: rest) L = .ok (pre, post)) (hpre : pre ≠ []) (hpost : post ≠ [])
    (hp : connectLocations f pre (some L) = .ok (.simple p))
    (hq : connectLocations f post (some L) = .ok (.simple q)) :
    connectLocations (f + 1) ls (some L) = combineSides f p q := by
  have hemp : ls.isEmpty = false := isEmpty_false_of_ne hne
  have hpe : pre.isEmpty = false := isEmpty_false_of_ne hpre
  have hqe : post.isEmpty = false := isEmpty_false_of_ne hpost
  have hL' : ¬ L ≤ 0 := by omega
  cases hany : ls.any bridgesOrigin
  · rw [hany] at hm
    simp only [Bool.false_eq_true, if_false] at hm
    simp only [connectLocations, hemp, hany, hred, hL', hm, hsp, hpe, hqe, hp, hq, Bool.false_eq_true, if_false,
      Bool.false_and, bind, Except.bind, Bool.not_false, if_true, pure, Except.pure, combineSides, throw, throwThe,
      MonadExceptOf.throw]
  · rw [hany] at hm
    simp only [if_true] at hm
    injection hm with hm
    subst hm
    simp only [connectLocations, hemp, hany, hred, hL', hsp, hpe, hqe, hp, hq, Bool.false_eq_true, if_false, bind,
      Except.bind, Bool.not_true, if_true, pure, Except.pure, Option.isNone_some, Bool.and_false, combineSides,
      throw, throwThe, MonadExceptOf.throw]

end ASV
