/-
  C06 helper lemmas, part 6: the invariant is preserved by `create_regions`, by every `clear_*`,
  by every operation and hence by every history.
-/
import ASV.Proofs.RegionsInv0
namespace ASV.Regions
open ASV

/-- the parts of the state `add_region(Region(...))` does not touch -/
def SameAreas (s s' : State) : Prop :=
  s'.protos = s.protos ∧ s'.cands = s.cands ∧ s'.subs = s.subs ∧ s'.pool = s.pool ∧
  s'.len = s.len ∧ s'.circular = s.circular ∧ s'.cds = s.cds ∧ s'.nextId = s.nextId

theorem SameAreas.refl (s : State) : SameAreas s s := ⟨rfl, rfl, rfl, rfl, rfl, rfl, rfl, rfl⟩

theorem SameAreas.trans {a b c : State} (h1 : SameAreas a b) (h2 : SameAreas b c) : SameAreas a c := by
  obtain ⟨a1, a2, a3, a4, a5, a6, a7, a8⟩ := h1
  obtain ⟨b1, b2, b3, b4, b5, b6, b7, b8⟩ := h2
  exact ⟨b1.trans a1, b2.trans a2, b3.trans a3, b4.trans a4, b5.trans a5, b6.trans a6, b7.trans a7, b8.trans a8⟩

theorem addSections_cons' (s : State) (l : Loc) (areas : List Feat) (rest : List Sec) :
    addSections s ((l, areas) :: rest) =
      (mkRegion s (areas.filter (·.kind == .cand)) (areas.filter (·.kind != .cand)) >>= fun x =>
        addRegion x.1 x.2 >>= fun s2 => addSections s2 rest) := rfl

theorem addSections_inv {s s' : State} {secs : List Sec} (hi : Inv s)
    (hsub : ∀ sec ∈ secs, ∀ a ∈ sec.2, a ∈ s.cands ++ s.pool ++ s.subs)
    (h : addSections s secs = .ok s') : Inv s' ∧ SameAreas s s' := by
  induction secs generalizing s with
  | nil =>
    simp only [addSections, pure, Except.pure, Except.ok.injEq] at h
    subst h
    exact ⟨hi, SameAreas.refl _⟩
  | cons sec secs ih =>
    obtain ⟨l, areas⟩ := sec
    rw [addSections_cons'] at h
    simp only [bind, Except.bind] at h
    split at h
    · cases h
    · next v hmk =>
      obtain ⟨s1, r⟩ := v
      simp only at h
      split at h
      · cases h
      · next s2 hadd =>
        have hin := hsub (l, areas) (by simp)
        have hc : ∀ f ∈ areas.filter (·.kind == .cand), f ∈ s.cands ++ s.pool := by
          intro f hf
          obtain ⟨hfa, hk⟩ := List.mem_filter.1 hf
          rcases List.mem_append.1 (hin f hfa) with h1 | h1
          · exact h1
          · have := hi.kindS f h1
            simp [this] at hk
        have hs : ∀ f ∈ areas.filter (·.kind != .cand), f ∈ s.subs := by
          intro f hf
          obtain ⟨hfa, hk⟩ := List.mem_filter.1 hf
          rcases List.mem_append.1 (hin f hfa) with h1 | h1
          · rcases List.mem_append.1 h1 with h2 | h2
            · have := hi.kindC f h2
              simp [this] at hk
            · have := hi.kindPool f h2
              simp [this] at hk
          · exact h1
        obtain ⟨hi2, hsame⟩ := mkAddRegion_inv hi hc hs hmk hadd
        have hsame' : SameAreas s s2 := hsame
        obtain ⟨hi', hs'⟩ := ih hi2 (by
          intro sec hsec a ha
          rw [hsame'.2.1, hsame'.2.2.1, hsame'.2.2.2.1]
          exact hsub sec (by simp [hsec]) a ha) h
        exact ⟨hi', hsame'.trans hs'⟩

theorem nodup_areas {s : State} (hi : Inv s) : (ids (s.cands ++ s.subs)).Nodup := by
  have := hi.nodup
  simp only [ids_append] at this ⊢
  have h1 := (List.nodup_append.1 this).1
  rw [List.append_assoc] at h1
  exact (List.nodup_append.1 h1).2.1

/-- `create_regions(candidate_clusters=cands, subregions=subs)` for candidate clusters of the record or
    constructed ones, and subregions of the record -/
theorem createRegionsOf_inv {s s' : State} {cands subs : List Feat} (hi : Inv s)
    (hc : ∀ f ∈ cands, f ∈ s.cands ++ s.pool) (hs : ∀ f ∈ subs, f ∈ s.subs)
    (hnd : (ids (cands ++ subs)).Nodup)
    (h : createRegionsOf s cands subs = .ok s') : Inv s' ∧ SameAreas s s' := by
  simp only [createRegionsOf] at h
  split at h
  · simp only [pure, Except.pure, Except.ok.injEq] at h
    subst h
    exact ⟨hi, SameAreas.refl _⟩
  · simp only [bind, Except.bind] at h
    split at h
    · cases h
    · next secs hsecs =>
      have hp := sectionsOf_perm hnd hsecs
      apply addSections_inv hi _ h
      intro sec hsec a ha
      have := hp.mem_iff.1 (List.mem_flatten.2 ⟨sec.2, List.mem_map.2 ⟨sec, hsec, rfl⟩, ha⟩)
      rcases List.mem_append.1 this with h1 | h1
      · exact List.mem_append.2 (Or.inl (hc a h1))
      · exact List.mem_append.2 (Or.inr (hs a h1))

theorem createRegions_inv {s s' : State} (hi : Inv s) (h : createRegions s = .ok s') : Inv s' ∧ SameAreas s s' :=
  createRegionsOf_inv hi (fun f hf => List.mem_append.2 (Or.inl hf)) (fun f hf => hf) (nodup_areas hi) h

theorem clearKids_get (cs : List Feat) (par : Dict (Option Nat)) (k : Nat) :
    (cs.foldl (fun acc c => setNone acc c.kids) par).get k =
      if ∃ c ∈ cs, k ∈ c.kids then some none else par.get k := by
  induction cs generalizing par with
  | nil => simp
  | cons c cs ih =>
    simp only [List.foldl_cons]
    rw [ih]
    by_cases h1 : ∃ x ∈ cs, k ∈ x.kids
    · have h2 : ∃ x ∈ c :: cs, k ∈ x.kids := by obtain ⟨x, hx, hk⟩ := h1; exact ⟨x, by simp [hx], hk⟩
      rw [if_pos h1, if_pos h2]
    · rw [if_neg h1, setNone_get]
      by_cases h3 : k ∈ c.kids
      · rw [if_pos h3, if_pos ⟨c, by simp, h3⟩]
      · have h2 : ¬ ∃ x ∈ c :: cs, k ∈ x.kids := by
          rintro ⟨x, hx, hk⟩
          simp only [List.mem_cons] at hx
          rcases hx with rfl | hx
          · exact h3 hk
          · exact h1 ⟨x, hx, hk⟩
        rw [if_neg h3, if_neg h2]

theorem sublist_nodup {s : State} (hi : Inv s) (p c sb : Bool) :
    (ids ((if p then s.protos else []) ++ (if c then s.cands else []) ++ (if sb then s.subs else []) ++ s.pool)).Nodup := by
  refine List.Nodup.sublist ?_ hi.nodup
  apply List.Sublist.map
  refine List.Sublist.append (List.Sublist.append (List.Sublist.append ?_ ?_) ?_) (List.Sublist.refl _)
  · split
    · exact List.Sublist.refl _
    · exact List.nil_sublist _
  · split
    · exact List.Sublist.refl _
    · exact List.nil_sublist _
  · split
    · exact List.Sublist.refl _
    · exact List.nil_sublist _

/-- dropping all protoclusters -/
theorem dropProtos_inv {s : State} (hi : Inv s) : Inv { s with protos := [] } := by
  refine ⟨by simpa using sublist_nodup hi false true true, ?_, hi.nodupR, hi.freshR, by intro j f hf; simp at hf, hi.numC, hi.numS,
    hi.numR, hi.disjointR, hi.kidsCand, ?_, hi.parentA, by intro f hf; simp at hf, hi.cdsLink, hi.parentFresh,
    hi.parentPool, hi.kindC, hi.kindS, hi.kindPool⟩
  · intro f hf
    exact hi.fresh f (by simp only [List.nil_append, List.mem_append] at hf ⊢; rcases hf with (hf | hf) | hf <;> simp [hf])
  · intro r hr k hk
    exact ⟨(hi.kidsReg r hr k hk).1, by simp [ids]⟩

/-- dropping all subregions -/
theorem dropSubs_inv {s : State} (hi : Inv s) : Inv { s with subs := [] } := by
  refine ⟨by simpa using sublist_nodup hi true true false, ?_, hi.nodupR, hi.freshR, hi.numP, hi.numC, by intro j f hf; simp at hf,
    hi.numR, hi.disjointR, ?_, hi.kidsReg, ?_, hi.parentP, hi.cdsLink, hi.parentFresh,
    hi.parentPool, hi.kindC, by intro f hf; simp at hf, hi.kindPool⟩
  · intro f hf
    exact hi.fresh f (by simp only [List.append_nil, List.mem_append] at hf ⊢; rcases hf with (hf | hf) | hf <;> simp [hf])
  · intro c hc k hk
    have := hi.kidsCand c hc k hk
    refine ⟨this.1, fun hm => this.2 ?_⟩
    simp only [List.append_nil, ids_append, List.mem_append] at hm ⊢
    rcases hm with hm | hm
    · exact Or.inl (Or.inl hm)
    · exact Or.inr hm
  · intro f hf p hp
    exact hi.parentA f (by simp only [List.append_nil] at hf; simp [hf]) p hp

/-- dropping all candidate clusters and resetting the parent of their protoclusters -/
theorem dropCands_inv {s : State} (hi : Inv s) :
    Inv { s with cands := [], parent := s.cands.foldl (fun acc c => setNone acc c.kids) s.parent } := by
  have hpar : ∀ k, (((s.cands.foldl (fun acc c => setNone acc c.kids) s.parent).get k).join)
      = if ∃ c ∈ s.cands, k ∈ c.kids then none else s.parentOf k := by
    intro k
    rw [clearKids_get]
    split <;> rfl
  refine ⟨by simpa using sublist_nodup hi true false true, ?_, hi.nodupR, hi.freshR, hi.numP, by intro j f hf; simp at hf, hi.numS,
    hi.numR, hi.disjointR, ?_, hi.kidsReg, ?_, ?_, hi.cdsLink, ?_, ?_, by intro f hf; simp at hf, hi.kindS, hi.kindPool⟩
  · intro f hf
    exact hi.fresh f (by simp only [List.append_nil, List.mem_append] at hf ⊢; rcases hf with (hf | hf) | hf <;> simp [hf])
  · intro c hc k hk
    have := hi.kidsCand c (by simp only [List.nil_append] at hc; simp [hc]) k hk
    refine ⟨this.1, fun hm => this.2 ?_⟩
    simp only [List.nil_append, ids_append, List.mem_append] at hm ⊢
    rcases hm with hm | hm
    · exact Or.inl (Or.inr hm)
    · exact Or.inr hm
  · intro f hf p hp
    simp only [List.nil_append] at hf
    simp only [State.parentOf] at hp
    rw [hpar] at hp
    split at hp
    · cases hp
    · exact hi.parentA f (by simp [hf]) p hp
  · intro f hf c hp
    simp only [State.parentOf] at hp
    rw [hpar] at hp
    split at hp
    · cases hp
    · next hn =>
      obtain ⟨c', hc', e1, e2⟩ := hi.parentP f hf c hp
      rcases List.mem_append.1 hc' with h1 | h1
      · exact absurd ⟨c', h1, e2⟩ hn
      · exact ⟨c', by simp [h1], e1, e2⟩
  · intro k hk
    simp only [State.parentOf]
    rw [hpar]
    split
    · rfl
    · exact hi.parentFresh k hk
  · intro c hc p hp
    simp only [State.parentOf] at hp
    rw [hpar] at hp
    split at hp
    · cases hp
    · exact hi.parentPool c hc p hp

theorem clearCandidates_inv {s s' : State} (hi : Inv s) (h : clearCandidates s = .ok s') : Inv s' := by
  simp only [clearCandidates] at h
  split at h
  · exact (createRegions_inv (clearRegions_inv (dropCands_inv hi)) h).1
  · simp only [pure, Except.pure, Except.ok.injEq] at h
    subst h
    exact dropCands_inv hi

theorem clearProtoclusters_inv {s s' : State} (hi : Inv s) (h : clearProtoclusters s = .ok s') : Inv s' :=
  clearCandidates_inv (dropProtos_inv hi) h

theorem clearSubregions_inv {s s' : State} (hi : Inv s) (h : clearSubregions s = .ok s') : Inv s' := by
  simp only [clearSubregions] at h
  split at h
  · exact (createRegions_inv (clearRegions_inv (dropSubs_inv hi)) h).1
  · simp only [pure, Except.pure, Except.ok.injEq] at h
    subst h
    exact dropSubs_inv hi

/-- re-pointing protoclusters at a candidate cluster that lists them -/
theorem step_reparent_inv {s s' : State} {pids : List Nat} {cid : Nat} (hi : Inv s)
    (h : step s (.reparent pids cid) = .ok s') : Inv s' := by
  simp only [step] at h
  split at h
  · cases h
  · next c hc =>
    simp only [bind, Except.bind, pure, Except.pure] at h
    split at h
    · cases h
    · next ps hps =>
      split at h
      · cases h
      · next hall =>
        split at h
        · cases h
        · next par hpar =>
          simp only [Except.ok.injEq] at h
          subst h
          have hcm := findId_some hc
          have hfa := findAll_ok hps
          have hnp := nodup_parts hi
          have hkids : ∀ k ∈ ids ps, k ∈ c.kids := by
            intro k hk
            rw [hfa.1] at hk
            have : (pids.all fun k => c.kids.contains k) = true := by simpa using hall
            have := List.all_eq_true.1 this k hk
            simpa using this
          have hpsid : ∀ k ∈ ids ps, k ∈ ids s.protos := by
            intro k hk
            obtain ⟨p, hp, e⟩ := mem_ids.1 hk
            exact mem_ids.2 ⟨p, hfa.2 p hp, e⟩
          have hpslt : ∀ k ∈ ids ps, k < s.nextId := by
            intro k hk
            obtain ⟨p, hp, e⟩ := mem_ids.1 (hpsid k hk)
            have := hi.fresh p (by simp [hp])
            omega
          have hpar' : ∀ k, ((par.get k).join) = if k ∈ ids ps then some c.id else s.parentOf k := by
            intro k
            rw [setParents_eq hpar]
            exact parentOf_foldl s ps c.id k
          refine ⟨hi.nodup, hi.fresh, hi.nodupR, hi.freshR, hi.numP, hi.numC, hi.numS, hi.numR, hi.disjointR, hi.kidsCand,
            hi.kidsReg, ?_, ?_, hi.cdsLink, ?_, ?_, hi.kindC, hi.kindS, hi.kindPool⟩
          · intro f hf p hp
            simp only [State.parentOf] at hp
            rw [hpar'] at hp
            have : f.id ∉ ids ps := by
              intro hm
              apply hnp.2.2.2.2 f.id (hpsid _ hm)
              simp only [ids_append, List.mem_append] at hf ⊢
              rcases hf with hf | hf
              · exact Or.inl (Or.inl (mem_ids.2 ⟨f, hf, rfl⟩))
              · exact Or.inl (Or.inr (mem_ids.2 ⟨f, hf, rfl⟩))
            rw [if_neg this] at hp
            exact hi.parentA f hf p hp
          · intro f hf c0 hp
            simp only [State.parentOf] at hp
            rw [hpar'] at hp
            by_cases hm : f.id ∈ ids ps
            · rw [if_pos hm] at hp
              simp only [Option.some.injEq] at hp
              exact ⟨c, hcm.1, hp, hkids _ hm⟩
            · rw [if_neg hm] at hp
              exact hi.parentP f hf c0 hp
          · intro k hk
            simp only [State.parentOf]
            rw [hpar']
            have hk' : s.nextId ≤ k := hk
            have : k ∉ ids ps := fun hm => by have := hpslt k hm; omega
            rw [if_neg this]
            exact hi.parentFresh k hk'
          · intro c' hc' p hp
            simp only [State.parentOf] at hp
            rw [hpar'] at hp
            have : c'.id ∉ ids ps := by
              intro hm
              apply hnp.2.2.2.2 c'.id (hpsid _ hm)
              simp only [ids_append, List.mem_append]
              exact Or.inr (mem_ids.2 ⟨c', hc', rfl⟩)
            rw [if_neg this] at hp
            exact hi.parentPool c' hc' p hp

/-- `create_regions` with explicitly passed lists: a repeated area would be put into a region twice and the
    second `add_region` refused; the model (like the harness) only passes each area once -/
theorem step_createRegionsWith_inv {s s' : State} {cs ss : List Nat} (hi : Inv s)
    (h : step s (.createRegionsWith cs ss) = .ok s') : Inv s' ∧ SameAreas s s' := by
  simp only [step, bind, Except.bind] at h
  split at h
  · cases h
  · next cands hc =>
    split at h
    · cases h
    · next subs hs =>
      split at h
      · cases h
      · next hnd =>
        have hcm := (findAll_ok hc).2
        have hsm := (findAll_ok hs).2
        apply createRegionsOf_inv hi hcm hsm _ h
        have : ((cs ++ ss).Nodup) := by simpa using hnd
        rw [ids_append, (findAll_ok hc).1, (findAll_ok hs).1]
        exact this

/-- every operation keeps the invariant -/
theorem step_inv {s s' : State} (op : Op) (hi : Inv s) (h : step s op = .ok s') : Inv s' := by
  cases op with
  | addProto loc => exact addProtocluster_inv hi h
  | addSub loc => exact addSubregion_inv hi h
  | mkCand pids => exact step_mkCand_inv hi h
  | addCand id => exact addCandidate_inv hi h
  | reparent pids cid => exact step_reparent_inv hi h
  | addRegion cs ss =>
    simp only [step, bind, Except.bind] at h
    split at h
    · cases h
    · next cands hc =>
      split at h
      · cases h
      · next subs hs =>
        split at h
        · cases h
        · next v hmk =>
          obtain ⟨s1, r⟩ := v
          exact (mkAddRegion_inv hi (fun f hf => List.mem_append.2 (Or.inl ((findAll_ok hc).2 f hf))) (findAll_ok hs).2 hmk h).1
  | createRegionsWith cs ss => exact (step_createRegionsWith_inv hi h).1
  | clearProtos => exact clearProtoclusters_inv hi h
  | clearCands => exact clearCandidates_inv hi h
  | clearSubs => exact clearSubregions_inv hi h
  | clearRegions =>
    simp only [step, pure, Except.pure, Except.ok.injEq] at h
    subst h
    exact clearRegions_inv hi
  | createRegions => exact (createRegions_inv hi h).1

/-- … and so does every history -/
theorem run_inv {s s' : State} (ops : List Op) (hi : Inv s) (h : run s ops = .ok s') : Inv s' := by
  induction ops generalizing s with
  | nil => simp only [run, pure, Except.pure, Except.ok.injEq] at h; subst h; exact hi
  | cons op ops ih =>
    simp only [run, bind, Except.bind] at h
    split at h
    · cases h
    · next s1 hs1 => exact ih (step_inv op hi hs1) h

/-- the empty record satisfies the invariant -/
theorem init_inv (len : Int) (circ : Bool) (cds : List Loc) : Inv { len := len, circular := circ, cds := cds } := by
  refine ⟨by simp [ids], by simp, by simp [ids], by simp, ?_, ?_, ?_, ?_, by simp, by simp, by simp, by simp, by simp, ?_, ?_,
    by simp, by simp, by simp, by simp⟩
  all_goals first
    | (intro j f hf; simp at hf)
    | (intro i p hp; simp [State.regionOfCds, Dict.get] at hp)
    | (intro k _; simp [State.parentOf, Dict.get])



/-- ids of the children of a region -/
def memberIds (r : Feat) : List Nat := r.kids ++ r.subs

theorem mkAddRegion_facts {s s1 s2 : State} {cands subs : List Feat} {r : Feat}
    (hmk : mkRegion s cands subs = .ok (s1, r)) (hadd : addRegion s1 r = .ok s2) :
    (∃ r', s2.regions.Perm (r' :: s.regions) ∧ memberIds r' = ids cands ++ ids subs) ∧
    (∀ k, s2.parentOf k = if k ∈ ids (subs ++ cands) then some s.nextRid else s.parentOf k) := by
  obtain ⟨hrid, hrk, hrs, _, rfl⟩ := mkRegion_ok hmk
  obtain ⟨index, hle, hno, rfl⟩ := addRegion_ok hadd
  refine ⟨⟨_, insertAt_perm _ _ _, by simp only [memberIds, hrk, hrs]⟩, ?_⟩
  intro k
  exact parentOf_foldl s (subs ++ cands) s.nextRid k

/-- after the sections were added: the new regions hold exactly the sections' areas, and every such
    area has a parent -/
theorem addSections_facts {s s' : State} {secs : List Sec} (h : addSections s secs = .ok s') :
    ((s'.regions.map memberIds).flatten).Perm ((s.regions.map memberIds).flatten ++ ids (secs.map (·.2)).flatten) ∧
    (∀ k, (s.parentOf k ≠ none ∨ k ∈ ids (secs.map (·.2)).flatten) → s'.parentOf k ≠ none) := by
  induction secs generalizing s with
  | nil =>
    simp only [addSections, pure, Except.pure, Except.ok.injEq] at h
    subst h
    refine ⟨by simp [ids], ?_⟩
    intro k hk
    rcases hk with hk | hk
    · exact hk
    · simp [ids] at hk
  | cons sec secs ih =>
    obtain ⟨l, areas⟩ := sec
    rw [addSections_cons'] at h
    simp only [bind, Except.bind] at h
    split at h
    · cases h
    · next v hmk =>
      obtain ⟨s1, r⟩ := v
      simp only at h
      split at h
      · cases h
      · next s2 hadd =>
        obtain ⟨⟨r', hperm, hmem⟩, hpar⟩ := mkAddRegion_facts hmk hadd
        obtain ⟨ih1, ih2⟩ := ih h
        have hareas : (ids (areas.filter (·.kind == .cand)) ++ ids (areas.filter (·.kind != .cand))).Perm (ids areas) := by
          rw [← ids_append]
          exact (List.filter_append_perm (fun x : Feat => x.kind == Kind.cand) areas).map _
        constructor
        · refine ih1.trans ?_
          have h1 : ((s2.regions.map memberIds).flatten).Perm (((r' :: s.regions).map memberIds).flatten) :=
            (hperm.map memberIds).flatten
          simp only [List.map_cons, List.flatten_cons, ids_append] at h1 ⊢
          refine (h1.append_right _).trans ?_
          rw [hmem]
          have h2 := hareas.append_right ((s.regions.map memberIds).flatten)
          refine (h2.append_right _).trans ?_
          simp only [List.append_assoc]
          exact (List.perm_append_comm_assoc _ _ _)
        · intro k hk
          apply ih2
          rw [hpar]
          by_cases hm : k ∈ ids (areas.filter (·.kind != .cand) ++ areas.filter (·.kind == .cand))
          · left; rw [if_pos hm]; simp
          · rw [if_neg hm]
            rcases hk with hk | hk
            · exact Or.inl hk
            · simp only [List.map_cons, List.flatten_cons, ids_append, List.mem_append] at hk
              rcases hk with hk | hk
              · exfalso
                apply hm
                have := hareas.mem_iff.2 hk
                simp only [ids_append, List.mem_append] at this ⊢
                exact this.symm
              · exact Or.inr hk



/-- the regions hold every area of the record exactly once, and every area's parent is the region holding it -/
def RegionsCoverAreas (s : State) : Prop :=
  ((s.regions.map memberIds).flatten).Perm (ids (s.cands ++ s.subs)) ∧
  ∀ f ∈ s.cands ++ s.subs, ∃ r ∈ s.regions, s.parentOf f.id = some r.id ∧ f.id ∈ memberIds r

theorem createRegions_covers {s s' : State} (hi : Inv s) (hreg : s.regions = []) (h : createRegions s = .ok s') :
    RegionsCoverAreas s' := by
  obtain ⟨hi', hsame⟩ := createRegions_inv hi h
  have hc : s'.cands = s.cands := hsame.2.1
  have hs : s'.subs = s.subs := hsame.2.2.1
  simp only [createRegions, createRegionsOf] at h
  split at h
  · next hemp =>
    simp only [pure, Except.pure, Except.ok.injEq] at h
    subst h
    have h1 : s.cands = [] := by
      cases hcs : s.cands with
      | nil => rfl
      | cons a b => simp [hcs] at hemp
    have h2 : s.subs = [] := by
      cases hcs : s.subs with
      | nil => rfl
      | cons a b => simp [hcs, h1] at hemp
    refine ⟨by simp [hreg, h1, h2, ids], ?_⟩
    intro f hf
    simp [h1, h2] at hf
  · simp only [bind, Except.bind] at h
    split at h
    · cases h
    · next secs hsecs =>
      have hp := sections_perm (nodup_areas hi) hsecs
      obtain ⟨f1, f2⟩ := addSections_facts h
      constructor
      · rw [hc, hs]
        refine f1.trans ?_
        simp only [hreg, List.map_nil, List.flatten_nil, List.nil_append]
        exact hp.map _
      · intro f hf
        rw [hc, hs] at hf
        have hne : s'.parentOf f.id ≠ none := by
          apply f2
          right
          exact mem_ids.2 ⟨f, hp.mem_iff.2 hf, rfl⟩
        obtain ⟨p, hp'⟩ := Option.ne_none_iff_exists'.1 hne
        obtain ⟨r, hr, e1, e2⟩ := hi'.parentA f (by rw [hc, hs]; exact hf) p hp'
        exact ⟨r, hr, by rw [hp', e1], e2⟩

/-- clearing protoclusters, candidate clusters or subregions while regions exist re-creates the
    regions for the remaining areas -/
theorem clear_recreates {s s' : State} (op : Op) (hop : op = .clearProtos ∨ op = .clearCands ∨ op = .clearSubs)
    (hi : Inv s) (hreg : s.regions ≠ []) (h : step s op = .ok s') : RegionsCoverAreas s' := by
  have hne : (!s.regions.isEmpty) = true := by
    cases hr : s.regions with
    | nil => exact absurd hr hreg
    | cons a b => rfl
  rcases hop with rfl | rfl | rfl
  · simp only [step, clearProtoclusters, clearCandidates, hne, if_true] at h
    exact createRegions_covers (clearRegions_inv (dropCands_inv (dropProtos_inv hi))) rfl h
  · simp only [step, clearCandidates, hne, if_true] at h
    exact createRegions_covers (clearRegions_inv (dropCands_inv hi)) rfl h
  · simp only [step, clearSubregions, hne, if_true] at h
    exact createRegions_covers (clearRegions_inv (dropSubs_inv hi)) rfl h


/-! ### numbering -/

theorem numbered_lookup {d : Dict Nat} {l : List Feat} (hn : Numbered d l) (hnd : (ids l).Nodup) {f : Feat} (hf : f ∈ l)
    {n : Nat} (hnum : numberOf d f = some n) : 1 ≤ n ∧ l[n - 1]? = some f := by
  obtain ⟨j, hj⟩ := List.getElem?_of_mem hf
  have := hn j f hj
  simp only [numberOf] at hnum
  rw [this] at hnum
  simp only [Option.some.injEq] at hnum
  subst hnum
  exact ⟨by omega, by simpa using hj⟩

end ASV.Regions
