/-
  C07 helper lemmas: the neighbouring pass of candidate-cluster formation (C05's model of
  `_find_neighbouring`) groups the same protoclusters after every location has been re-indexed by a
  rotation — from C05's unconditional characterisation of the pass by chains of overlapping extents.
-/
import ASV.Proofs.RotationStages
import ASV.Props.C05
set_option linter.unusedVariables false
namespace ASV.CC
open ASV ASV.CC.Spec

/-- chains of sets are kept by mapping every set -/
theorem Linked.map_sets {α β : Type} (g : α → β) {G : List (List α)} {a b : α} (h : Linked G a b) :
    Linked (G.map (·.map g)) (g a) (g b) := by
  induction h with
  | base hg ha hb => exact Linked.base (List.mem_map_of_mem hg) (List.mem_map_of_mem ha) (List.mem_map_of_mem hb)
  | trans _ _ ih1 ih2 => exact Linked.trans ih1 ih2

/-- … and reflected when the map is injective -/
theorem Linked.of_map_sets {α β : Type} (g : α → β) (hinj : ∀ p q, g p = g q → p = q) {G : List (List α)} {x y : β}
    (h : Linked (G.map (·.map g)) x y) : ∃ a b, g a = x ∧ g b = y ∧ Linked G a b := by
  induction h with
  | base hg ha hb =>
    obtain ⟨grp, hgrp, rfl⟩ := List.mem_map.1 hg
    obtain ⟨a, ha', rfl⟩ := List.mem_map.1 ha
    obtain ⟨b, hb', rfl⟩ := List.mem_map.1 hb
    exact ⟨a, b, rfl, rfl, Linked.base hgrp ha' hb'⟩
  | trans _ _ ih1 ih2 =>
    obtain ⟨a, b, ea, eb, l1⟩ := ih1
    obtain ⟨b', c, eb', ec, l2⟩ := ih2
    have : b = b' := hinj b b' (by rw [eb, eb'])
    subst this
    exact ⟨a, c, ea, ec, Linked.trans l1 l2⟩

/-- the unions of every two overlapping units, after all spans have been rotated and all members
    re-indexed, are the images of the unions before -/
theorem mem_overlapGroups_rot {L k : Int} (hL : 0 < L) (units : List U) (f : U → U) (g : Proto → Proto)
    (hmem : ∀ u ∈ units, (f u).members = u.members.map g)
    (hok : ∀ u ∈ units, u.span.OK L ∧ (f u).span.OK L ∧ IsRot L k u.span (f u).span) (grp : List Proto) :
    grp ∈ overlapGroups (units.map f) ↔ ∃ grp0, grp0 ∈ overlapGroups units ∧ grp = grp0.map g := by
  simp only [mem_overlapGroups]
  constructor
  · rintro ⟨u', v', hb, ho, e⟩
    obtain ⟨u, v, hbf, rfl, rfl⟩ := before_of_map f hb
    obtain ⟨hu, hv⟩ := before_mem hbf
    obtain ⟨ou, ou', ru⟩ := hok u hu
    obtain ⟨ov, ov', rv⟩ := hok v hv
    rw [locationsOverlap_rot hL ou ov ou' ov' ru rv] at ho
    exact ⟨u.members ++ v.members, ⟨u, v, hbf, ho, rfl⟩, by rw [e, hmem u hu, hmem v hv, List.map_append]⟩
  · rintro ⟨grp0, ⟨u, v, hbf, ho, rfl⟩, rfl⟩
    obtain ⟨hu, hv⟩ := before_mem hbf
    obtain ⟨ou, ou', ru⟩ := hok u hu
    obtain ⟨ov, ov', rv⟩ := hok v hv
    refine ⟨f u, f v, before_map f hbf, ?_, by rw [hmem u hu, hmem v hv, List.map_append]⟩
    rw [locationsOverlap_rot hL ou ov ou' ov' ru rv]
    exact ho

end ASV.CC
