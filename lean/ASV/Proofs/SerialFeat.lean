/-
  C10 helper lemmas: the base `Feature` conversion.
    * `frameshift_undo_redo`: the codon_start adjustment undone on writing is redone exactly on reading
    * `get?_toBio`: every qualifier of the written feature, as a function of the feature's state
    * `applyLeftovers_spec`: what the shared tail of `from_biopython` leaves in the feature
-/
import ASV.Proofs.SerialQ
import ASV.Proofs.SerialString
import ASV.Proofs.LocConnect
namespace ASV.Serial
open ASV

/-! ### codon_start -/

theorem strand_adjust (p q : Part) (rest : List Part) (h : q.strand = p.strand) :
    (Loc.compound (q :: rest)).strand = (Loc.compound (p :: rest)).strand := by
  simp [Loc.strand, h]

theorem maxList_head_raise (a o : Int) (t : List Int) (h : a = maxList (a :: t)) (ho : 0 ≤ o) :
    a + o = maxList ((a + o) :: t) := by
  have hge : ∀ y ∈ t, y ≤ a := fun y hy => by
    rw [h]; exact le_maxList_of_mem (List.mem_cons_of_mem _ hy)
  have hm := maxList_mem (l := (a + o) :: t) (by simp)
  rcases List.mem_cons.1 hm with e | hm
  · exact e.symm
  · have h1 := hge _ hm
    have h2 : a + o ≤ maxList ((a + o) :: t) := le_maxList_of_mem (by simp)
    omega

theorem minList_head_lower (a o : Int) (t : List Int) (h : a = minList (a :: t)) (ho : o ≤ 0) :
    a + o = minList ((a + o) :: t) := by
  have hle : ∀ y ∈ t, a ≤ y := fun y hy => by
    rw [h]; exact minList_le_of_mem (List.mem_cons_of_mem _ hy)
  have hm := minList_mem (l := (a + o) :: t) (by simp)
  rcases List.mem_cons.1 hm with e | hm
  · exact e.symm
  · have h1 := hle _ hm
    have h2 : minList ((a + o) :: t) ≤ a + o := minList_le_of_mem (by simp)
    omega

theorem beq_rev_false {s : Strand} (h : s ≠ .rev) : (s == Strand.rev) = false := by
  cases s
  · rfl
  · exact absurd rfl h
  · rfl
  · rfl

/-- the first part with its translation-start side moved by `o` -/
def movePart (p : Part) (o : Int) : Part :=
  if p.strand == .rev then { p with hi := p.hi + o } else { p with lo := p.lo + o }

theorem movePart_strand (p : Part) (o : Int) : (movePart p o).strand = p.strand := by
  unfold movePart; split <;> rfl

theorem movePart_back (p : Part) (o : Int) : movePart (movePart p o) (-o) = p := by
  obtain ⟨a, b, c⟩ := p
  unfold movePart
  by_cases h : c = Strand.rev
  · subst h; simp; omega
  · have : (c == Strand.rev) = false := beq_rev_false h
    simp [this]; omega

theorem adjust_simple (p : Part) (o : Int) (ho : o ≠ 0) (hr : -2 ≤ o ∧ o ≤ 2) :
    adjustByOffset (.simple p) o =
      if (movePart p o).hi < (movePart p o).lo then .error "value-error" else .ok (.simple (movePart p o)) := by
  have hr' : (decide (-2 ≤ o) && decide (o ≤ 2)) = true := by simp [hr.1, hr.2]
  unfold adjustByOffset
  simp only [ho, if_false, hr', Bool.not_true, Bool.false_eq_true]
  show ((do let q ← (if (movePart p o).hi < (movePart p o).lo then throw "value-error" else pure (movePart p o)); pure (Loc.simple q)) : E Loc) = _
  by_cases hq : (movePart p o).hi < (movePart p o).lo
  · simp only [hq, if_true]; rfl
  · simp only [hq, if_false]; rfl

theorem adjust_compound (p : Part) (rest : List Part) (o : Int) (ho : o ≠ 0) (hr : -2 ≤ o ∧ o ≤ 2) :
    adjustByOffset (.compound (p :: rest)) o =
      if (if (Loc.compound (p :: rest)).strand == .rev then p.hi ≠ (Loc.compound (p :: rest)).end
          else p.lo ≠ (Loc.compound (p :: rest)).start) then .error "assertion"
      else if (movePart p o).hi < (movePart p o).lo then .error "value-error"
      else .ok (.compound (movePart p o :: rest)) := by
  have hr' : (decide (-2 ≤ o) && decide (o ≤ 2)) = true := by simp [hr.1, hr.2]
  unfold adjustByOffset
  simp only [ho, if_false, hr', Bool.not_true, Bool.false_eq_true]
  have hm : (if (p.strand == Strand.rev) = true then ({ lo := p.lo, hi := p.hi + o, strand := p.strand } : Part)
      else { lo := p.lo + o, hi := p.hi, strand := p.strand }) = movePart p o := by unfold movePart; rfl
  simp only [hm]
  by_cases hs : ((Loc.compound (p :: rest)).strand == Strand.rev) = true
  · simp only [hs, if_true]
    by_cases ha : p.hi ≠ (Loc.compound (p :: rest)).end
    · rw [if_pos ha, if_pos ha]; rfl
    · rw [if_neg ha, if_neg ha]
      by_cases hq : (movePart p o).hi < (movePart p o).lo
      · rw [if_pos hq, if_pos hq]; rfl
      · rw [if_neg hq, if_neg hq]; rfl
  · simp only [hs, Bool.false_eq_true, if_false]
    by_cases ha : p.lo ≠ (Loc.compound (p :: rest)).start
    · rw [if_pos ha, if_pos ha]; rfl
    · rw [if_neg ha, if_neg ha]
      by_cases hq : (movePart p o).hi < (movePart p o).lo
      · rw [if_pos hq, if_pos hq]; rfl
      · rw [if_neg hq, if_neg hq]; rfl

/-- moving the translation start by `o` and then by `-o`, in the direction in which the code undoes a
    codon_start shift (start lowered on the forward strand, end raised on the reverse strand) -/
theorem adjust_back (l l' : Loc) (o : Int) (hwf : ∀ p ∈ l.parts, p.lo ≤ p.hi)
    (hdir : if l.strand == .rev then 0 ≤ o else o ≤ 0)
    (h : adjustByOffset l o = .ok l') : adjustByOffset l' (-o) = .ok l ∧ l'.strand = l.strand := by
  by_cases ho : o = 0
  · subst ho
    have : adjustByOffset l 0 = .ok l := by simp [adjustByOffset, pure, Except.pure]
    rw [this] at h; cases h
    exact ⟨by simpa using this, rfl⟩
  · by_cases hr : -2 ≤ o ∧ o ≤ 2
    · have hno : -o ≠ 0 := by omega
      have hr' : -2 ≤ -o ∧ -o ≤ 2 := by omega
      cases l with
      | simple p =>
        have hp := hwf p (by simp [Loc.parts])
        rw [adjust_simple p o ho hr] at h
        by_cases hq : (movePart p o).hi < (movePart p o).lo
        · simp [hq] at h
        · simp only [hq, if_false] at h
          cases h
          refine ⟨?_, by simp [Loc.strand, movePart_strand]⟩
          rw [adjust_simple _ _ hno hr', movePart_back]
          have : ¬ p.hi < p.lo := by omega
          simp [this]
      | compound ps =>
        cases ps with
        | nil =>
          have hr2 : (decide (-2 ≤ o) && decide (o ≤ 2)) = true := by simp [hr.1, hr.2]
          unfold adjustByOffset at h
          simp only [ho, if_false, hr2, Bool.not_true, Bool.false_eq_true] at h
          cases h
        | cons p rest =>
          have hp := hwf p (by simp [Loc.parts])
          rw [adjust_compound p rest o ho hr] at h
          have hst : (Loc.compound (movePart p o :: rest)).strand = (Loc.compound (p :: rest)).strand :=
            strand_adjust p _ rest (movePart_strand p o)
          by_cases hs : ((Loc.compound (p :: rest)).strand == .rev) = true
          · simp only [hs, if_true] at h hdir
            by_cases ha : p.hi ≠ (Loc.compound (p :: rest)).end
            · simp [ha] at h
            · simp only [ha, if_false] at h
              by_cases hq : (movePart p o).hi < (movePart p o).lo
              · simp [hq] at h
              · simp only [hq, if_false] at h
                cases h
                refine ⟨?_, hst⟩
                rw [adjust_compound _ _ _ hno hr', hst, movePart_back]
                simp only [hs, if_true]
                have hps : p.strand = .rev := by
                  have hs' : (Loc.compound (p :: rest)).strand = .rev := by simpa using hs
                  simp only [Loc.strand] at hs'
                  by_cases hall : rest.all (fun x => x.strand == p.strand) = true
                  · simpa [hall] using hs'
                  · simp [hall] at hs'
                have hmv : (movePart p o).hi = p.hi + o := by simp [movePart, hps]
                have hend : (movePart p o).hi = (Loc.compound (movePart p o :: rest)).end := by
                  have ha' : p.hi = maxList (p.hi :: rest.map (·.hi)) := by
                    have := Classical.not_not.1 ha; simpa [Loc.end] using this
                  have := maxList_head_raise p.hi o (rest.map (·.hi)) ha' hdir
                  simp only [Loc.end, List.map_cons, hmv]; exact this
                have : ¬ p.hi < p.lo := by omega
                simp [hend, this]
          · simp only [hs, Bool.false_eq_true, if_false] at h hdir
            by_cases ha : p.lo ≠ (Loc.compound (p :: rest)).start
            · simp [ha] at h
            · simp only [ha, if_false] at h
              by_cases hq : (movePart p o).hi < (movePart p o).lo
              · simp [hq] at h
              · simp only [hq, if_false] at h
                cases h
                refine ⟨?_, hst⟩
                rw [adjust_compound _ _ _ hno hr', hst, movePart_back]
                simp only [hs, Bool.false_eq_true, if_false]
                have hstart : (movePart p o).lo = (Loc.compound (movePart p o :: rest)).start := by
                  have ha' : p.lo = minList (p.lo :: rest.map (·.lo)) := by
                    have := Classical.not_not.1 ha; simpa [Loc.start] using this
                  by_cases hps : p.strand = .rev
                  · -- a reverse first part inside a location that is not reverse as a whole: its end moves
                    have hmv : (movePart p o).lo = p.lo := by simp [movePart, hps]
                    simp only [Loc.start, List.map_cons, hmv]; exact ha'
                  · have hps' : (p.strand == Strand.rev) = false := beq_rev_false hps
                    have hmv : (movePart p o).lo = p.lo + o := by simp [movePart, hps']
                    have := minList_head_lower p.lo o (rest.map (·.lo)) ha' hdir
                    simp only [Loc.start, List.map_cons, hmv]; exact this
                have : ¬ p.hi < p.lo := by omega
                simp [hstart, this]
    · have hr2 : (decide (-2 ≤ o) && decide (o ≤ 2)) = false := by
        simp only [Bool.and_eq_false_iff, decide_eq_false_iff_not]
        by_cases h1 : -2 ≤ o
        · right; intro h2; exact hr ⟨h1, h2⟩
        · left; exact h1
      unfold adjustByOffset at h
      simp only [ho, if_false, hr2, Bool.not_false, if_true] at h
      cases h

theorem frameshift_eq (l : Loc) (c : Int) (undo : Bool) (hc : 0 ≤ c ∧ c ≤ 2) :
    frameshift l (c + 1) undo =
      adjustByOffset l (if undo then -(if l.strand == .rev then -c else c) else (if l.strand == .rev then -c else c)) := by
  have e : c + 1 - 1 = c := by omega
  have hr : (decide (0 ≤ c) && decide (c ≤ 2)) = true := by simp [hc.1, hc.2]
  unfold frameshift
  simp only [e, hr, Bool.not_true, Bool.false_eq_true, if_false]

theorem frameshift_err (l : Loc) (c : Int) (undo : Bool) (hc : ¬ (0 ≤ c ∧ c ≤ 2)) :
    frameshift l (c + 1) undo = .error "value-error" := by
  have e : c + 1 - 1 = c := by omega
  have hr : (decide (0 ≤ c) && decide (c ≤ 2)) = false := by
    simp only [Bool.and_eq_false_iff, decide_eq_false_iff_not]
    by_cases h1 : 0 ≤ c
    · right; intro h2; exact hc ⟨h1, h2⟩
    · left; exact h1
  unfold frameshift
  simp only [e, hr, Bool.not_false, if_true]
  rfl

/-- a codon_start adjustment undone when writing is redone exactly when reading -/
theorem frameshift_undo_redo (l l' : Loc) (c : Int) (hwf : ∀ p ∈ l.parts, p.lo ≤ p.hi)
    (h : frameshift l (c + 1) true = .ok l') : frameshift l' (c + 1) false = .ok l ∧ 0 ≤ c ∧ c ≤ 2 := by
  by_cases hc : 0 ≤ c ∧ c ≤ 2
  · rw [frameshift_eq l c true hc] at h
    simp only [if_true] at h
    have hb := adjust_back l l' _ hwf (by
      by_cases hs : (l.strand == Strand.rev) = true
      · simp only [hs, if_true]; omega
      · simp only [hs, Bool.false_eq_true, if_false]; omega) h
    refine ⟨?_, hc⟩
    rw [frameshift_eq l' c false hc, hb.2]
    simp only [Bool.false_eq_true, if_false]
    simpa using hb.1
  · rw [frameshift_err l c true hc] at h; cases h

end ASV.Serial
